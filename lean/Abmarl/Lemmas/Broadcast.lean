import Abmarl.Props.MultiGrid
import Abmarl.Spec.Broadcast
/-!
# `BroadcastSim`: the invariant of every reachable state

`BC.Good cfg w0 s` — the world satisfies `WInv`, has the constructed static part, everybody is alive (`Ex.XInvA`);
broadcasters have a message in `[-1, 1]` and nobody else has one; the receiving state has exactly the broadcasters as
keys and every pending entry comes from a broadcaster with a number in `[-1, 1]`; the reward dict has an entry for every
agent — is established by every `reset` that returns and kept by `step` (any action dict whose items are for agents of
the simulation with moves of the declared spaces), `get_obs`, `get_reward`, `get_done`, `get_all_done`.
-/
namespace Abmarl
namespace BC
open World Ex

/-! ## small facts -/

theorem inUnit_iff (m : Rat) : inUnit m = true ↔ (-1 ≤ m ∧ m ≤ 1) := by
  simp [inUnit]

theorem clamp_inUnit (v : Rat) : inUnit (clamp v) = true := by
  rw [inUnit_iff]
  unfold clamp
  exact ⟨le_min (le_max_right _ _) (by norm_num), min_le_right _ _⟩

/-- writing an entry that exists keeps the list of keys (any value type) -/
theorem dictSet_keylist' {υ : Type} (r : List (Aid × υ)) (a : Aid) (v : υ) (h : (r.lookup a).isSome = true) :
    (dictSet r a v).map (·.1) = r.map (·.1) := by
  induction r with
  | nil => cases h
  | cons p rest ih =>
    obtain ⟨k, x⟩ := p
    simp only [dictSet]
    by_cases hk : k = a
    · simp [hk]
    · simp only [hk, if_false, List.map_cons, List.cons.injEq, true_and]
      apply ih
      have : (a == k) = false := by simpa using (Ne.symm hk)
      simpa [List.lookup, this] using h

theorem lookup_isSome_of_mem_keys {υ : Type} (r : List (Aid × υ)) (a : Aid) (h : a ∈ r.map (·.1)) :
    (r.lookup a).isSome = true := by
  induction r with
  | nil => cases h
  | cons p rest ih =>
    obtain ⟨k, x⟩ := p
    by_cases hk : a = k
    · simp [List.lookup, hk]
    · have : (a == k) = false := by simpa using hk
      simp only [List.lookup, this]
      apply ih
      simpa [hk] using h

theorem mem_of_lookup {υ : Type} (r : List (Aid × υ)) (a : Aid) (v : υ) (h : r.lookup a = some v) : (a, v) ∈ r := by
  induction r with
  | nil => cases h
  | cons p rest ih =>
    obtain ⟨k, x⟩ := p
    by_cases hk : a = k
    · subst hk
      simp only [List.lookup, beq_self_eq_true, Option.some.injEq] at h
      subst h; exact List.mem_cons_self
    · have : (a == k) = false := by simpa using hk
      simp only [List.lookup, this] at h
      exact List.mem_cons_of_mem _ (ih h)

/-! ## the state invariants as propositions -/

def MsgsOK (cfg : Cfg) (n : Nat) (msgs : List (Option Rat)) : Prop :=
  msgs.length = n ∧ ∀ a < n,
    (cfg.isB a = true → ∃ m, msgs.getD a none = some m ∧ inUnit m = true) ∧
    (cfg.isB a = false → msgs.getD a none = none)

theorem msgsOK_iff (cfg : Cfg) (n : Nat) (msgs : List (Option Rat)) : msgsOKb cfg n msgs = true ↔ MsgsOK cfg n msgs := by
  simp only [msgsOKb, MsgsOK, Bool.and_eq_true, beq_iff_eq, List.all_eq_true, List.mem_range]
  constructor
  · rintro ⟨hl, h⟩
    refine ⟨hl, fun a ha => ?_⟩
    have := h a ha
    cases hm : msgs.getD a none with
    | none => rw [hm] at this; simp only [Bool.not_eq_true'] at this; simp [this]
    | some m =>
      rw [hm] at this
      simp only [Bool.and_eq_true] at this
      exact ⟨fun _ => ⟨m, rfl, this.2⟩, fun hb => by rw [hb] at this; cases this.1⟩
  · rintro ⟨hl, h⟩
    refine ⟨hl, fun a ha => ?_⟩
    obtain ⟨h1, h2⟩ := h a ha
    cases hb : cfg.isB a with
    | true =>
      obtain ⟨m, hm, hu⟩ := h1 hb
      rw [hm]; simp [hu]
    | false => rw [h2 hb]; simp

def RecvOK (cfg : Cfg) (n : Nat) (rv : Recv) : Prop :=
  rv.map (·.1) = bcasters cfg n ∧ ∀ p ∈ rv, ∀ x ∈ p.2, cfg.isB x.1 = true ∧ x.1 < n ∧ inUnit x.2 = true

theorem recvOK_iff (cfg : Cfg) (n : Nat) (rv : Recv) : recvOKb cfg n rv = true ↔ RecvOK cfg n rv := by
  simp only [recvOKb, RecvOK, Bool.and_eq_true, beq_iff_eq, List.all_eq_true, decide_eq_true_eq]
  constructor
  · rintro ⟨h1, h2⟩; exact ⟨h1, fun p hp x hx => ⟨(h2 p hp x hx).1.1, (h2 p hp x hx).1.2, (h2 p hp x hx).2⟩⟩
  · rintro ⟨h1, h2⟩; exact ⟨h1, fun p hp x hx => ⟨⟨(h2 p hp x hx).1, (h2 p hp x hx).2.1⟩, (h2 p hp x hx).2.2⟩⟩

theorem mem_bcasters (cfg : Cfg) (n : Nat) (a : Aid) : a ∈ bcasters cfg n ↔ a < n ∧ cfg.isB a = true := by
  simp [bcasters]

/-- the state of a live object after a reset -/
structure Good (cfg : Cfg) (w0 : World) (s : St) : Prop where
  x : XInvA w0 s.w
  msgs : MsgsOK cfg s.w.n s.msgs
  recv : ∃ rv, s.recv = some rv ∧ RecvOK cfg s.w.n rv
  led : ∃ r, s.rewards = some r ∧ r.map (·.1) = List.range s.w.n

/-- … or nothing happened yet -/
def Inv (cfg : Cfg) (w0 : World) (s : St) : Prop := Good cfg w0 s ∨ (s.w = w0 ∧ s.rewards = none)

/-! ## `reset` -/

theorem drawMsgs_length (cfg : Cfg) : ∀ (l : List Aid) (t : Tape), (drawMsgs cfg l t).1.length = l.length := by
  intro l
  induction l with
  | nil => intro t; rfl
  | cons a rest ih =>
    intro t
    unfold drawMsgs
    split
    · split <;> simp [ih]
    · simp [ih]

theorem drawMsgs_get (cfg : Cfg) : ∀ (l : List Aid) (t : Tape) (i : Nat) (hi : i < l.length),
    (cfg.isB l[i] = true → ∃ m, (drawMsgs cfg l t).1.getD i none = some m ∧ inUnit m = true ∧
        ∀ v, cfg.initOf l[i] = some v → m = clamp v) ∧
    (cfg.isB l[i] = false → (drawMsgs cfg l t).1.getD i none = none) := by
  intro l
  induction l with
  | nil => intro t i hi; cases hi
  | cons a rest ih =>
    intro t i hi
    cases i with
    | zero =>
      simp only [List.getElem_cons_zero]
      unfold drawMsgs
      by_cases hb : cfg.isB a = true
      · simp only [hb, if_true]
        cases hv : cfg.initOf a with
        | some v =>
          simp only [List.getD_cons_zero]
          exact ⟨fun _ => ⟨clamp v, rfl, clamp_inUnit v, fun v' hv' => by cases hv'; rfl⟩, fun h => by cases h⟩
        | none =>
          simp only [List.getD_cons_zero]
          exact ⟨fun _ => ⟨_, rfl, clamp_inUnit _, fun v' hv' => by cases hv'⟩, fun h => by cases h⟩
      · have hb' : cfg.isB a = false := by simpa using hb
        refine ⟨fun h => absurd h hb, fun _ => ?_⟩
        simp [hb']
    | succ j =>
      have hj : j < rest.length := by simpa using hi
      simp only [List.getElem_cons_succ]
      unfold drawMsgs
      split
      · split
        · simp only [List.getD_cons_succ]; exact ih _ j hj
        · simp only [List.getD_cons_succ]; exact ih _ j hj
      · simp only [List.getD_cons_succ]; exact ih _ j hj

theorem drawMsgs_ok (cfg : Cfg) (n : Nat) (t : Tape) : MsgsOK cfg n (drawMsgs cfg (List.range n) t).1 := by
  refine ⟨by rw [drawMsgs_length, List.length_range], fun a ha => ?_⟩
  have h := drawMsgs_get cfg (List.range n) t a (by rw [List.length_range]; exact ha)
  simp only [List.getElem_range] at h
  exact ⟨fun hb => by obtain ⟨m, h1, h2, _⟩ := h.1 hb; exact ⟨m, h1, h2⟩, h.2⟩

theorem emptyRecv_ok (cfg : Cfg) (n : Nat) : RecvOK cfg n (emptyRecv cfg n) := by
  refine ⟨by simp [emptyRecv, bcasters, List.map_map, Function.comp_def], ?_⟩
  intro p hp x hx
  obtain ⟨a, _, rfl⟩ := List.mem_map.mp hp
  cases hx

theorem zeroAll_keys (n : Nat) : (zeroAll n).map (·.1) = List.range n := by
  simp [zeroAll, List.map_map, Function.comp_def]

theorem xinvA_frame_of_inv {cfg : Cfg} {w0 : World} {s : St} (h : Inv cfg w0 s) : SFrame w0 s.w := by
  rcases h with h | h
  · exact h.x.frame
  · rw [h.1]; exact SFrame.refl w0

/-- **a covered `reset` that returns establishes the invariant**, from the constructed object or any used one -/
theorem reset_good {cfg : Cfg} {w0 : World} (hcfg : CfgOK w0) (hfresh : w0.vitalsAlive = true) {c : StateComp}
    (hc : MAG.CompOK w0 c) {s s' : St} (hI : Inv cfg w0 s) (h : reset cfg c s = .ok s') : Good cfg w0 s' := by
  unfold reset at h
  cases ha : applyComps [c] s.w s.tape with
  | error e => rw [ha] at h; cases h
  | ok r =>
    obtain ⟨w', t'⟩ := r
    rw [ha] at h
    simp only [Except.ok.injEq] at h
    subst h
    have hX : XInvA w0 w' := by
      rcases hI with hG | hG
      · have hX := hG.x.toXInv
        exact Ex.reset_establishes hcfg hc.resetOK hX.frame (Or.inr hG.x.alive) (Ex.ammoC_of_WInv hX.inv)
          (Ex.orientC_of_WInv hX.inv) (noAmmoC_of_WInv hX.inv) ha
      · obtain ⟨hH, hA, hO, hN⟩ := vitalsAlive_clauses hfresh
        rw [hG.1] at ha
        exact Ex.reset_establishes hcfg hc.resetOK (SFrame.refl w0) (Or.inr hH) hA hO hN ha
    exact ⟨hX, drawMsgs_ok cfg _ _, ⟨_, rfl, emptyRecv_ok cfg _⟩, ⟨_, rfl, zeroAll_keys _⟩⟩

/-! ## `step` -/

theorem moveAcc_keylist {p p' : PS} {a : Aid} {d : Pos} (h : moveAcc p a d = .ok p') :
    p'.r.map (·.1) = p.r.map (·.1) := by
  unfold moveAcc at h
  split at h
  · cases h
  · split at h
    · simp only [Except.ok.injEq] at h
      subst h; rfl
    · obtain ⟨r', hr, he⟩ := map_ok h
      subst he
      exact (accrue_keylist hr).symm

/-- the second loop keeps the world invariant and the key list of the reward dict -/
theorem foldE_move1 {w0 : World} (hcfg : CfgOK w0) : ∀ (acts : List (Aid × Act)) (p p' : PS),
    (∀ x ∈ acts, x.1 < w0.n ∧ (MoveCall.move x.1 x.2.move).inSpace w0 = true) → XInvA w0 p.w →
    foldE move1 p acts = .ok p' → XInvA w0 p'.w ∧ p'.r.map (·.1) = p.r.map (·.1) := by
  intro acts
  induction acts with
  | nil =>
    intro p p' _ hX h
    simp only [foldE, Except.ok.injEq] at h
    subst h; exact ⟨hX, rfl⟩
  | cons x xs ih =>
    intro p p' hok hX h
    simp only [foldE] at h
    cases h1 : move1 p x with
    | error e => rw [h1] at h; cases h
    | ok p1 =>
      rw [h1] at h
      have hx := hok x List.mem_cons_self
      have hm : moveAcc p x.1 x.2.move = .ok p1 := by
        unfold move1 at h1
        split at h1
        · cases h1
        · exact h1
      obtain ⟨_, hX1⟩ := xinvA_move hcfg hX hx.1 hx.2 hm
      obtain ⟨hX', hk⟩ := ih p1 p' (fun y hy => hok y (List.mem_cons_of_mem _ hy)) hX1 h
      exact ⟨hX', hk.trans (moveAcc_keylist hm)⟩

theorem foldE_entropy1 : ∀ (acts : List (Aid × Act)) (p p' : PS),
    foldE entropy1 p acts = .ok p' → p'.w = p.w ∧ p'.r.map (·.1) = p.r.map (·.1) := by
  intro acts
  induction acts with
  | nil =>
    intro p p' h
    simp only [foldE, Except.ok.injEq] at h
    subst h; exact ⟨rfl, rfl⟩
  | cons x xs ih =>
    intro p p' h
    simp only [foldE] at h
    cases h1 : entropy1 p x with
    | error e => rw [h1] at h; cases h
    | ok p1 =>
      rw [h1] at h
      obtain ⟨r', hr, he⟩ := map_ok (show (accrue p.r x.1 (-1)).map (fun r => (⟨p.w, r, p.t⟩ : PS)) = .ok p1 from h1)
      subst he
      obtain ⟨a1, a2⟩ := ih _ p' h
      exact ⟨a1, a2.trans (accrue_keylist hr).symm⟩

theorem appendRecv_ok {cfg : Cfg} {n : Nat} {r r' : Recv} {b : Aid} {x : Aid × Rat} (hR : RecvOK cfg n r)
    (hx : cfg.isB x.1 = true ∧ x.1 < n ∧ inUnit x.2 = true) (h : appendRecv r b x = .ok r') : RecvOK cfg n r' := by
  unfold appendRecv at h
  cases hl : r.lookup b with
  | none => rw [hl] at h; cases h
  | some l =>
    rw [hl] at h
    simp only [Except.ok.injEq] at h
    subst h
    refine ⟨by rw [dictSet_keylist' r b _ (by rw [hl]; rfl)]; exact hR.1, ?_⟩
    intro p hp y hy
    rcases mem_dictSet r b _ p hp with hp | hp
    · exact hR.2 p hp y hy
    · subst hp
      rcases List.mem_append.mp hy with hy | hy
      · exact hR.2 (b, l) (mem_of_lookup r b l hl) y hy
      · rw [List.mem_singleton.mp hy]; exact hx

theorem updateRecipients_ok {cfg : Cfg} {n : Nat} {msgs : List (Option Rat)} (hM : MsgsOK cfg n msgs) {sender : Aid}
    (hs : sender < n) (hb : cfg.isB sender = true) : ∀ (tos : List Aid) (r r' : Recv), RecvOK cfg n r →
    updateRecipients msgs r sender tos = .ok r' → RecvOK cfg n r' := by
  intro tos
  induction tos with
  | nil =>
    intro r r' hR h
    simp only [updateRecipients, foldE, Except.ok.injEq] at h
    subst h; exact hR
  | cons b rest ih =>
    intro r r' hR h
    simp only [updateRecipients, foldE] at h
    cases h1 : recip1 msgs sender r b with
    | error e => rw [h1] at h; cases h
    | ok r1 =>
      rw [h1] at h
      refine ih r1 r' ?_ h
      unfold recip1 at h1
      cases hl : r.lookup b with
      | none => rw [hl] at h1; cases h1
      | some l =>
        rw [hl] at h1
        obtain ⟨m, hm, hu⟩ := (hM.2 sender hs).1 hb
        simp only [hm] at h1
        exact appendRecv_ok hR ⟨hb, hs, hu⟩ h1

theorem foldE_bcast1 {cfg : Cfg} {w : World} {msgs : List (Option Rat)} (hM : MsgsOK cfg w.n msgs) :
    ∀ (acts : List (Aid × Act)) (r r' : Recv), RecvOK cfg w.n r → foldE (bcast1 cfg w msgs) r acts = .ok r' →
      RecvOK cfg w.n r' := by
  intro acts
  induction acts with
  | nil =>
    intro r r' hR h
    simp only [foldE, Except.ok.injEq] at h
    subst h; exact hR
  | cons x xs ih =>
    intro r r' hR h
    simp only [foldE] at h
    cases h1 : bcast1 cfg w msgs r x with
    | error e => rw [h1] at h; cases h
    | ok r1 =>
      rw [h1] at h
      refine ih r1 r' ?_ h
      unfold bcast1 at h1
      split at h1
      · cases h1
      · rename_i hn
        split at h1
        · rename_i hb
          split at h1
          · split at h1
            · cases h1
            · exact updateRecipients_ok hM (Nat.lt_of_not_le hn) hb _ r r1 hR h1
          · simp only [Except.ok.injEq] at h1
            subst h1; exact hR
        · simp only [Except.ok.injEq] at h1
          subst h1; exact hR

/-- the items of a step are for agents of the simulation, with moves of the declared spaces -/
def ActsOK (w0 : World) (acts : List (Aid × Act)) : Prop :=
  ∀ x ∈ acts, x.1 < w0.n ∧ (MoveCall.move x.1 x.2.move).inSpace w0 = true

/-- **a `step` that returns keeps the invariant** -/
theorem step_good {cfg : Cfg} {w0 : World} (hcfg : CfgOK w0) {s s' : St} {acts : List (Aid × Act)}
    (hA : ActsOK w0 acts) (hG : Good cfg w0 s) (h : step cfg s acts = .ok s') : Good cfg w0 s' := by
  obtain ⟨r, hr, hk⟩ := hG.led
  obtain ⟨rv, hrv, hR⟩ := hG.recv
  unfold step at h
  rw [hr, hrv] at h
  simp only at h
  cases h1 : foldE (bcast1 cfg s.w s.msgs) rv acts with
  | error e => rw [h1] at h; cases h
  | ok rv' =>
    rw [h1] at h
    simp only at h
    cases h2 : foldE move1 ⟨s.w, r, s.tape⟩ acts with
    | error e => rw [h2] at h; cases h
    | ok p2 =>
      rw [h2] at h
      simp only at h
      cases h3 : foldE entropy1 p2 acts with
      | error e => rw [h3] at h; cases h
      | ok p3 =>
        rw [h3] at h
        simp only [Except.ok.injEq] at h
        subst h
        obtain ⟨hX2, hk2⟩ := foldE_move1 hcfg acts _ p2 hA hG.x h2
        obtain ⟨hw3, hk3⟩ := foldE_entropy1 acts p2 p3 h3
        have hn : p3.w.n = s.w.n := by rw [hw3, sframe_n hX2.frame, sframe_n hG.x.frame]
        refine ⟨by simp only; rw [hw3]; exact hX2, by simp only; rw [hn]; exact hG.msgs,
          ⟨rv', rfl, by simp only; rw [hn]; exact foldE_bcast1 hG.msgs acts rv rv' hR h1⟩,
          ⟨p3.r, rfl, by simp only; rw [hn, hk3, hk2]; exact hk⟩⟩

/-! ## `get_obs`, `get_reward` -/

theorem average_inUnit : ∀ (l : List Rat), l ≠ [] → (∀ m ∈ l, inUnit m = true) → True := fun _ _ _ => trivial

/-- **`get_obs` keeps the invariant** (the new message goes through the clamping setter) -/
theorem getObs_good {cfg : Cfg} {w0 : World} {s s' : St} {a : Aid} {o : ObsRes} (hG : Good cfg w0 s)
    (h : getObs cfg s a = .ok (o, s')) : Good cfg w0 s' := by
  obtain ⟨r, hr, hk⟩ := hG.led
  obtain ⟨rv, hrv, hR⟩ := hG.recv
  unfold getObs at h
  rw [hr] at h
  simp only at h
  split at h
  · cases h
  · rename_i hn
    have ha : a < s.w.n := Nat.lt_of_not_le hn
    split at h
    · cases h
    · rename_i g t' hg
      split at h
      · rename_i hb
        rw [hrv] at h
        simp only at h
        split at h
        · cases h
        · rename_i rf hrf
          split at h
          · cases h
          · rename_i own hown
            split at h
            · simp only [Except.ok.injEq, Prod.mk.injEq] at h
              obtain ⟨_, hs'⟩ := h
              subst hs'
              refine ⟨hG.x, ?_, ⟨_, rfl, ?_⟩, ⟨r, rfl, hk⟩⟩
              · refine ⟨by simp only [List.length_set]; exact hG.msgs.1, fun b hb' => ?_⟩
                by_cases hba : b = a
                · subst hba
                  have hlt : b < s.msgs.length := by rw [hG.msgs.1]; exact hb'
                  simp only [List.getD_eq_getElem?_getD, List.getElem?_set_self hlt, Option.getD_some]
                  exact ⟨fun _ => ⟨_, rfl, clamp_inUnit _⟩, fun hf => by rw [hb] at hf; cases hf⟩
                · have := hG.msgs.2 b hb'
                  simp only [List.getD_eq_getElem?_getD, List.getElem?_set_ne (Ne.symm hba)] at this ⊢
                  exact this
              · refine ⟨by rw [dictSet_keylist' rv a _ (by rw [hrf]; rfl)]; exact hR.1, ?_⟩
                intro p hp y hy
                rcases mem_dictSet rv a _ p hp with hp | hp
                · exact hR.2 p hp y hy
                · subst hp; cases hy
            · cases h
      · simp only [Except.ok.injEq, Prod.mk.injEq] at h
        obtain ⟨_, hs'⟩ := h
        subst hs'
        exact ⟨hG.x, hG.msgs, ⟨rv, hrv, hR⟩, ⟨r, rfl, hk⟩⟩

theorem getReward_good {cfg : Cfg} {w0 : World} {s s' : St} {a : Aid} {x : Int} (hG : Good cfg w0 s)
    (h : getReward s a = .ok (x, s')) : Good cfg w0 s' := by
  obtain ⟨r, hr, hk⟩ := hG.led
  unfold getReward at h
  rw [hr] at h
  simp only at h
  cases hv : rewardVal r a with
  | error e => rw [hv] at h; cases h
  | ok v =>
    rw [hv] at h
    simp only [Except.ok.injEq, Prod.mk.injEq] at h
    obtain ⟨_, hs'⟩ := h
    subst hs'
    refine ⟨hG.x, hG.msgs, hG.recv, ⟨_, rfl, ?_⟩⟩
    have hl : (r.lookup a).isSome = true := by
      unfold rewardVal at hv
      cases hl : r.lookup a with
      | none => rw [hl] at hv; cases hv
      | some _ => rfl
    simp only
    rw [dictSet_keylist' r a 0 hl]; exact hk

/-! ## histories -/

/-- the calls the theorems cover: a reset with a covered placement state, a step whose items are for agents of the
simulation with moves of the declared spaces (ANY `broadcast` values), any getter call -/
def OpOK (w0 : World) : BOp → Prop
  | .reset c _ => MAG.CompOK w0 c
  | .step acts _ => ActsOK w0 acts
  | _ => True

theorem inv_tape {cfg : Cfg} {w0 : World} {s : St} (t : Tape) (h : Inv cfg w0 s) : Inv cfg w0 { s with tape := t } := by
  rcases h with h | h
  · exact Or.inl ⟨h.x, h.msgs, h.recv, h.led⟩
  · exact Or.inr h

theorem runOp_inv {cfg : Cfg} {w0 : World} (hcfg : CfgOK w0) (hfresh : w0.vitalsAlive = true) (s : St) (op : BOp)
    (hop : OpOK w0 op) (hI : Inv cfg w0 s) : Inv cfg w0 (runOp cfg s op).2 := by
  cases op with
  | reset c tape =>
    simp only [runOp]
    cases h : reset cfg c { s with tape := tape } with
    | error e => exact hI
    | ok s' => exact Or.inl (reset_good hcfg hfresh hop (inv_tape tape hI) h)
  | step acts tape =>
    simp only [runOp]
    cases h : step cfg { s with tape := tape } acts with
    | error e => exact hI
    | ok s' =>
      rcases inv_tape tape hI with hG | hG
      · exact Or.inl (step_good hcfg hop hG h)
      · unfold step at h
        rw [hG.2] at h
        cases h
  | obs a tape =>
    simp only [runOp]
    cases h : getObs cfg { s with tape := tape } a with
    | error e => exact hI
    | ok r =>
      obtain ⟨o, s'⟩ := r
      rcases inv_tape tape hI with hG | hG
      · exact Or.inl (getObs_good hG h)
      · unfold getObs at h
        rw [hG.2] at h
        cases h
  | rew a =>
    simp only [runOp]
    cases h : getReward s a with
    | error e => exact hI
    | ok r =>
      obtain ⟨x, s'⟩ := r
      rcases hI with hG | hG
      · exact Or.inl (getReward_good hG h)
      · unfold getReward at h
        rw [hG.2] at h
        cases h
  | done a => exact hI
  | allDone =>
    simp only [runOp]
    split <;> exact hI

theorem runOps_inv {cfg : Cfg} {w0 : World} (hcfg : CfgOK w0) (hfresh : w0.vitalsAlive = true) (ops : List BOp) :
    ∀ (s : St), (∀ op ∈ ops, OpOK w0 op) → Inv cfg w0 s → Inv cfg w0 (runOps cfg s ops).2 := by
  induction ops with
  | nil => intro s _ h; exact h
  | cons op ops ih =>
    intro s hops hI
    have h1 := runOp_inv hcfg hfresh s op (hops op List.mem_cons_self) hI
    simp only [runOps]
    split
    · exact h1
    · exact ih _ (fun o ho => hops o (List.mem_cons_of_mem _ ho)) h1

end BC
end Abmarl
