import Abmarl.Model.Mask
import Abmarl.Spec.Mask
import Mathlib.Tactic.Linarith
import Mathlib.Tactic.Ring
import Mathlib.Tactic.NormNum
/-!
# C10 lemmas, part 1: each of the eight direction cases is the orientation-free rule

`HiddenP` is the Prop reading of `hiddenSpec`.  For every case `k` of `utils.py`, under the
guard of that case and the range check, `Casek N rd cd r c ↔ InWinP N r c ∧ HiddenP rd cd r c`
(`casek_iff`), for all ranges, offsets and cells.  `hidden1I_iff` then walks the `if/elif`
chain once.  The arithmetic is linear once the products `rd·c`, `cd·r` are treated as atoms,
which is what `linarith` does.
-/
namespace Abmarl
namespace Mask

/-- strictly opposite signs, as a proposition -/
def Opp (x y : Int) : Prop := (x < 0 ∧ 0 < y) ∨ (0 < x ∧ y < 0)

theorem oppSigns_iff (x y : Int) : oppSigns x y = true ↔ Opp x y := by
  simp [oppSigns, Opp]

/-- both coordinates within `-N .. N` -/
def InWinP (N x y : Int) : Prop := (-N ≤ x ∧ x ≤ N) ∧ (-N ≤ y ∧ y ≤ N)

/-- the Prop reading of `hiddenSpec` (`hiddenSpec_iff`) -/
def HiddenP (rd cd r c : Int) : Prop :=
  ¬(rd = 0 ∧ cd = 0) ∧ ¬(r = rd ∧ c = cd) ∧
  rd.sign * rd ≤ rd.sign * r ∧ cd.sign * cd ≤ cd.sign * c ∧
  Opp (cross (corners rd cd).1.1 (corners rd cd).1.2 r c)
      (cross (corners rd cd).2.1 (corners rd cd).2.2 r c)

theorem hiddenSpec_iff (rd cd r c : Int) : hiddenSpec rd cd r c = true ↔ HiddenP rd cd r c := by
  unfold hiddenSpec HiddenP
  simp only [Bool.and_eq_true, Bool.not_eq_true', decide_eq_true_eq, oppSigns_iff,
    Bool.and_eq_false_imp, decide_eq_false_iff_not, not_and, and_assoc]

theorem corners_diag {rd cd : Int} (hr : rd ≠ 0) (hc : cd ≠ 0) :
    corners rd cd = ((2*rd+rd.sign, 2*cd-cd.sign), (2*rd-rd.sign, 2*cd+cd.sign)) := by
  simp [corners, hr, hc]

theorem corners_row {cd : Int} :
    corners 0 cd = ((2*0+1, 2*cd-cd.sign), (2*0-1, 2*cd-cd.sign)) := by
  simp [corners]

theorem corners_col {rd : Int} (hr : rd ≠ 0) :
    corners rd 0 = ((2*rd-rd.sign, 2*0+1), (2*rd-rd.sign, 2*0-1)) := by
  simp [corners, hr]

/-- closes `Opp x y` from linear facts, whichever disjunct holds -/
macro "opp_intro" : tactic =>
  `(tactic| first
      | exact Or.inl ⟨by linarith, by linarith⟩
      | exact Or.inr ⟨by linarith, by linarith⟩)

/-- from one disjunct of `Opp`: either it yields the two ray inequalities of the case or it
contradicts the position of the cell behind the blocker -/
macro "opp_elim" : tactic =>
  `(tactic| first
      | (constructor <;> linarith)
      | (exfalso; linarith))

/-- the common script: `hr0`/`hc0` name the fact that refutes `rd = 0 ∧ cd = 0` -/
macro "case_script" nz:term : tactic =>
  `(tactic| (
    constructor
    · rintro ⟨⟨h1, h2⟩, ⟨h3, h4⟩, h5, h6, h7⟩
      refine ⟨⟨⟨by linarith, by linarith⟩, ⟨by linarith, by linarith⟩⟩, $nz,
        fun h => h5 ⟨h.2, h.1⟩, by linarith, by linarith, ?_⟩
      opp_intro
    · rintro ⟨⟨⟨h1, h2⟩, ⟨h3, h4⟩⟩, _, h5, h6, h7, h8⟩
      refine ⟨⟨by linarith, by linarith⟩, ⟨by linarith, by linarith⟩, fun h => h5 ⟨h.2, h.1⟩, ?_⟩
      rcases h8 with ⟨a, b⟩ | ⟨a, b⟩ <;> opp_elim))

variable (N rd cd r c : Int)

/-- case 1: right of the viewer -/
theorem case1_iff (hw : InWinP N rd cd) (hr : rd = 0) (hc : 0 < cd) :
    Case1 N rd cd r c ↔ InWinP N r c ∧ HiddenP rd cd r c := by
  subst hr
  have sc : cd.sign = 1 := Int.sign_eq_one_of_pos hc
  have hc0 : cd ≠ 0 := by omega
  rw [HiddenP, corners_row, Int.sign_zero, sc]
  dsimp only [Case1, cross, Opp, InWinP] at hw ⊢
  obtain ⟨⟨w1, w2⟩, ⟨w3, w4⟩⟩ := hw
  case_script (fun h => hc0 h.2)

/-- case 2: below-right -/
theorem case2_iff (hw : InWinP N rd cd) (hr : 0 < rd) (hc : 0 < cd) :
    Case2 N rd cd r c ↔ InWinP N r c ∧ HiddenP rd cd r c := by
  have sr : rd.sign = 1 := Int.sign_eq_one_of_pos hr
  have sc : cd.sign = 1 := Int.sign_eq_one_of_pos hc
  have hr0 : rd ≠ 0 := by omega
  have hc0 : cd ≠ 0 := by omega
  rw [HiddenP, corners_diag hr0 hc0, sr, sc]
  dsimp only [Case2, cross, Opp, InWinP] at hw ⊢
  obtain ⟨⟨w1, w2⟩, ⟨w3, w4⟩⟩ := hw
  case_script (fun h => hr0 h.1)

/-- case 3: below -/
theorem case3_iff (hw : InWinP N rd cd) (hr : 0 < rd) (hc : cd = 0) :
    Case3 N rd cd r c ↔ InWinP N r c ∧ HiddenP rd cd r c := by
  subst hc
  have sr : rd.sign = 1 := Int.sign_eq_one_of_pos hr
  have hr0 : rd ≠ 0 := by omega
  rw [HiddenP, corners_col hr0, Int.sign_zero, sr]
  dsimp only [Case3, cross, Opp, InWinP] at hw ⊢
  obtain ⟨⟨w1, w2⟩, ⟨w3, w4⟩⟩ := hw
  case_script (fun h => hr0 h.1)

/-- case 4: below-left -/
theorem case4_iff (hw : InWinP N rd cd) (hr : 0 < rd) (hc : cd < 0) :
    Case4 N rd cd r c ↔ InWinP N r c ∧ HiddenP rd cd r c := by
  have sr : rd.sign = 1 := Int.sign_eq_one_of_pos hr
  have sc : cd.sign = -1 := Int.sign_eq_neg_one_of_neg hc
  have hr0 : rd ≠ 0 := by omega
  have hc0 : cd ≠ 0 := by omega
  rw [HiddenP, corners_diag hr0 hc0, sr, sc]
  dsimp only [Case4, cross, Opp, InWinP] at hw ⊢
  obtain ⟨⟨w1, w2⟩, ⟨w3, w4⟩⟩ := hw
  case_script (fun h => hr0 h.1)

/-- case 5: left -/
theorem case5_iff (hw : InWinP N rd cd) (hr : rd = 0) (hc : cd < 0) :
    Case5 N rd cd r c ↔ InWinP N r c ∧ HiddenP rd cd r c := by
  subst hr
  have sc : cd.sign = -1 := Int.sign_eq_neg_one_of_neg hc
  have hc0 : cd ≠ 0 := by omega
  rw [HiddenP, corners_row, Int.sign_zero, sc]
  dsimp only [Case5, cross, Opp, InWinP] at hw ⊢
  obtain ⟨⟨w1, w2⟩, ⟨w3, w4⟩⟩ := hw
  case_script (fun h => hc0 h.2)

/-- case 6: above-left -/
theorem case6_iff (hw : InWinP N rd cd) (hr : rd < 0) (hc : cd < 0) :
    Case6 N rd cd r c ↔ InWinP N r c ∧ HiddenP rd cd r c := by
  have sr : rd.sign = -1 := Int.sign_eq_neg_one_of_neg hr
  have sc : cd.sign = -1 := Int.sign_eq_neg_one_of_neg hc
  have hr0 : rd ≠ 0 := by omega
  have hc0 : cd ≠ 0 := by omega
  rw [HiddenP, corners_diag hr0 hc0, sr, sc]
  dsimp only [Case6, cross, Opp, InWinP] at hw ⊢
  obtain ⟨⟨w1, w2⟩, ⟨w3, w4⟩⟩ := hw
  case_script (fun h => hr0 h.1)

/-- case 7: above -/
theorem case7_iff (hw : InWinP N rd cd) (hr : rd < 0) (hc : cd = 0) :
    Case7 N rd cd r c ↔ InWinP N r c ∧ HiddenP rd cd r c := by
  subst hc
  have sr : rd.sign = -1 := Int.sign_eq_neg_one_of_neg hr
  have hr0 : rd ≠ 0 := by omega
  rw [HiddenP, corners_col hr0, Int.sign_zero, sr]
  dsimp only [Case7, cross, Opp, InWinP] at hw ⊢
  obtain ⟨⟨w1, w2⟩, ⟨w3, w4⟩⟩ := hw
  case_script (fun h => hr0 h.1)

/-- case 8: above-right -/
theorem case8_iff (hw : InWinP N rd cd) (hr : rd < 0) (hc : 0 < cd) :
    Case8 N rd cd r c ↔ InWinP N r c ∧ HiddenP rd cd r c := by
  have sr : rd.sign = -1 := Int.sign_eq_neg_one_of_neg hr
  have sc : cd.sign = 1 := Int.sign_eq_one_of_pos hc
  have hr0 : rd ≠ 0 := by omega
  have hc0 : cd ≠ 0 := by omega
  rw [HiddenP, corners_diag hr0 hc0, sr, sc]
  dsimp only [Case8, cross, Opp, InWinP] at hw ⊢
  obtain ⟨⟨w1, w2⟩, ⟨w3, w4⟩⟩ := hw
  case_script (fun h => hr0 h.1)

/-- the `if/elif` chain of the model, walked once: the eight cases together are the
orientation-free rule restricted to the range window -/
theorem hidden1I_iff :
    hidden1I N rd cd r c = true ↔ InWinP N rd cd ∧ InWinP N r c ∧ HiddenP rd cd r c := by
  unfold hidden1I
  by_cases hw : -N ≤ rd ∧ rd ≤ N ∧ -N ≤ cd ∧ cd ≤ N
  · have hw' : InWinP N rd cd := ⟨⟨hw.1, hw.2.1⟩, ⟨hw.2.2.1, hw.2.2.2⟩⟩
    rw [if_pos hw]
    by_cases h1 : cd > 0 ∧ rd = 0
    · rw [if_pos h1, decide_eq_true_eq, case1_iff N rd cd r c hw' h1.2 h1.1]
      exact (and_iff_right hw').symm
    rw [if_neg h1]
    by_cases h2 : cd > 0 ∧ rd > 0
    · rw [if_pos h2, decide_eq_true_eq, case2_iff N rd cd r c hw' h2.2 h2.1]
      exact (and_iff_right hw').symm
    rw [if_neg h2]
    by_cases h3 : cd = 0 ∧ rd > 0
    · rw [if_pos h3, decide_eq_true_eq, case3_iff N rd cd r c hw' h3.2 h3.1]
      exact (and_iff_right hw').symm
    rw [if_neg h3]
    by_cases h4 : cd < 0 ∧ rd > 0
    · rw [if_pos h4, decide_eq_true_eq, case4_iff N rd cd r c hw' h4.2 h4.1]
      exact (and_iff_right hw').symm
    rw [if_neg h4]
    by_cases h5 : cd < 0 ∧ rd = 0
    · rw [if_pos h5, decide_eq_true_eq, case5_iff N rd cd r c hw' h5.2 h5.1]
      exact (and_iff_right hw').symm
    rw [if_neg h5]
    by_cases h6 : cd < 0 ∧ rd < 0
    · rw [if_pos h6, decide_eq_true_eq, case6_iff N rd cd r c hw' h6.2 h6.1]
      exact (and_iff_right hw').symm
    rw [if_neg h6]
    by_cases h7 : cd = 0 ∧ rd < 0
    · rw [if_pos h7, decide_eq_true_eq, case7_iff N rd cd r c hw' h7.2 h7.1]
      exact (and_iff_right hw').symm
    rw [if_neg h7]
    by_cases h8 : cd > 0 ∧ rd < 0
    · rw [if_pos h8, decide_eq_true_eq, case8_iff N rd cd r c hw' h8.2 h8.1]
      exact (and_iff_right hw').symm
    rw [if_neg h8]
    -- no branch matches: the offset is (0, 0), which has no shadow by the rule either
    have hz : rd = 0 ∧ cd = 0 := by omega
    constructor
    · intro h; cases h
    · rintro ⟨_, _, h, _⟩; exact absurd hz h
  · rw [if_neg hw]
    constructor
    · intro h; cases h
    · rintro ⟨⟨⟨a, b⟩, ⟨c', d⟩⟩, _⟩; exact absurd ⟨a, b, c', d⟩ hw

theorem inWin_iff (R : Nat) (x : Int) : inWin R x = true ↔ (-(R : Int) ≤ x ∧ x ≤ (R : Int)) := by
  simp [inWin]

/-- Bool form used by the table lemmas -/
theorem hidden1_eq (R : Nat) :
    hidden1 R rd cd r c =
      (inWin R rd && inWin R cd && (inWin R r && inWin R c) && hiddenSpec rd cd r c) := by
  rw [Bool.eq_iff_iff, hidden1, hidden1I_iff]
  simp only [Bool.and_eq_true, inWin_iff, hiddenSpec_iff, InWinP, and_assoc]

end Mask
end Abmarl
