import Abmarl.Lemmas.ReachNoRaise
import Abmarl.Lemmas.ReachObs
import Abmarl.Lemmas.ExamplesJudge
/-!
# `ReachTheTargetSim`: the ledger and the stored positions along every history; the model's trace passes `RT.specRT`

* `stepPS_rel`: whatever every accrual respects, `step` respects — the key list of the reward dict never changes
  (`stepPS_keylist`), no entry is lost (`stepPS_keys`);
* `stepPS_allInGrid`: `step` keeps "every agent's stored position is a grid cell" — attacks change nobody's position
  (`processAttack_pos`, no invariant needed), a move leaves the mover active, hence placed; the hand-written removal
  changes nobody's position (`takeOff_pos`);
* `GoodH`: the invariant of a live object (`WInvWeak`, constructed static part, full ledger, positions in the grid), kept by
  every call (`runOp_goodH`);
* `judge1_model`, `specFrom_model`: every call of the model passes the judge `RT.judge1`.
-/
namespace Abmarl
namespace RT
open World Ex

/-! ## the reward dict -/

section rel
variable {R : Ledger → Ledger → Prop} (hR : AccRel R)
include hR

theorem move1_rel (cfg : Cfg) (p : PS) (x : Aid × Act) (p' : PS) (h : move1 cfg p x = .ok p') : R p.r p'.r := by
  unfold move1 at h
  split at h
  · cases h
  · split at h
    · split at h
      · cases h
      · rename_i p1 hm
        have h1 : R p.r p1.r := by
          split at hm
          · exact moveAcc_rel hR hm
          · simp only [Except.ok.injEq] at hm; subst hm; exact hR.refl _
        split at h
        · split at h
          · cases h
          · rename_i r1 hacc
            split at h
            · cases h
            · simp only [Except.ok.injEq] at h; subst h
              exact hR.trans _ _ _ h1 (hR.acc _ _ _ _ hacc)
        · simp only [Except.ok.injEq] at h; subst h; exact h1
    · simp only [Except.ok.injEq] at h; subst h; exact hR.refl _

theorem entropy1_rel (cfg : Cfg) (p : PS) (x : Aid × Act) (p' : PS) (h : entropy1 cfg p x = .ok p') : R p.r p'.r := by
  unfold entropy1 at h
  split at h
  · cases h
  · split at h
    · exact accrue_map_rel hR h
    · simp only [Except.ok.injEq] at h; subst h; exact hR.refl _

/-- **whatever every accrual respects, `ReachTheTargetSim.step` respects** -/
theorem stepPS_rel {cfg : Cfg} {p p' : PS} {acts : List (Aid × Act)} (h : stepPS cfg p acts = .ok p') :
    R p.r p'.r := by
  have hPS : ∀ (f : PS → Aid × Act → Except GErr PS), (∀ q x q', f q x = .ok q' → R q.r q'.r) →
      ∀ q q', foldE f q acts = .ok q' → R q.r q'.r := fun f hf q q' hq =>
    foldE_rel f (fun a b => R a.r b.r) (fun _ => hR.refl _) (fun _ _ _ => hR.trans _ _ _) hf acts q q' hq
  unfold stepPS at h
  split at h
  · cases h
  · rename_i p1 h1
    split at h
    · cases h
    · rename_i p2 h2
      exact hR.trans _ _ _ (hR.trans _ _ _
        (hPS _ (fun q x q' hq => Ex.attack1_rel hR cfg.toEx q x q' (by rw [← attack1_eq]; exact hq)) _ _ h1)
        (hPS _ (move1_rel hR cfg) _ _ h2)) (hPS _ (entropy1_rel hR cfg) _ _ h)

end rel

theorem stepPS_keys {cfg : Cfg} {p p' : PS} {acts : List (Aid × Act)} (h : stepPS cfg p acts = .ok p') :
    KeysLe p.r p'.r := stepPS_rel keysLe_accRel h

/-- **`step` keeps the key list of the reward dict** -/
theorem stepPS_keylist {cfg : Cfg} {p p' : PS} {acts : List (Aid × Act)} (h : stepPS cfg p acts = .ok p') :
    p.r.map (·.1) = p'.r.map (·.1) := stepPS_rel keylist_accRel h

/-! ## stored positions -/

theorem pos_setSt (w : World) (a : Aid) (s : AgentSt) (h : s.pos = (w.stOf a).pos) (b : Aid) :
    ((w.setSt a s).stOf b).pos = (w.stOf b).pos := by
  rw [stOf_setSt]
  split
  · rename_i hc
    rw [hc.1, h]
  · rfl

theorem remove_stOf {w w' : World} {a : Aid} {p : Pos} (h : w.remove a p = .ok w') (b : Aid) :
    w'.stOf b = w.stOf b := by
  unfold World.remove at h
  split at h
  · simp only [Except.ok.injEq] at h; subst h; rfl
  · cases h

/-- a pass of the health loop changes nobody's stored position (no hypothesis) -/
theorem hitStep_pos {w w' : World} {s : Rat} {v : Aid} (h : w.hitStep s v = .ok w') (b : Aid) :
    (w'.stOf b).pos = (w.stOf b).pos := by
  unfold hitStep at h
  split at h
  · simp only [Except.ok.injEq] at h; subst h; rfl
  · have h1 : ((w.setHealth v ((w.stOf v).health - s)).stOf b).pos = (w.stOf b).pos := by
      unfold setHealth
      refine pos_setSt w v _ ?_ b
      rfl
    dsimp only at h
    split at h
    · rw [remove_stOf h b, h1]
    · simp only [Except.ok.injEq] at h; subst h; exact h1

theorem applyHits_pos {s : Rat} (H : List Aid) : ∀ {w w' : World}, applyHits w s H = .ok w' →
    ∀ b, (w'.stOf b).pos = (w.stOf b).pos := by
  induction H with
  | nil =>
    intro w w' h b
    simp only [applyHits, Except.ok.injEq] at h
    subst h; rfl
  | cons v vs ih =>
    intro w w' h b
    simp only [applyHits] at h
    cases h1 : w.hitStep s v with
    | error e => rw [h1] at h; cases h
    | ok w1 =>
      rw [h1] at h
      rw [ih h b, hitStep_pos h1 b]

theorem ammoFilter_pos {w w1 : World} {a : Aid} {L H : List Aid} {t t1 : Tape}
    (h : w.ammoFilter a L t = .ok (H, w1, t1)) (b : Aid) : (w1.stOf b).pos = (w.stOf b).pos := by
  unfold ammoFilter at h
  have key : ∀ v : Int, ((w.setAmmo a v).stOf b).pos = (w.stOf b).pos := by
    intro v
    unfold setAmmo
    refine pos_setSt w a _ ?_ b
    rfl
  split at h
  · dsimp only at h
    split at h
    · split at h
      · cases h
      · simp only [Except.ok.injEq, Prod.mk.injEq] at h
        rw [← h.2.1]; exact key _
    · simp only [Except.ok.injEq, Prod.mk.injEq] at h
      rw [← h.2.1]; exact key _
  · simp only [Except.ok.injEq, Prod.mk.injEq] at h
    rw [← h.2.1]

/-- **`process_action` of every attack actor changes nobody's stored position** — any world, attacker, action, tape -/
theorem processAttack_pos {cfg : AttackCfg} {w w' : World} {a : Aid} {act : AttackAct} {t t' : Tape}
    {r : Bool × List Aid} (h : processAttack cfg w a act t = .ok (r, w', t')) (b : Aid) :
    (w'.stOf b).pos = (w.stOf b).pos := by
  unfold processAttack at h
  split at h
  · split at h
    · cases h
    · split at h
      · cases h
      · rename_i hfil
        split at h
        · cases h
        · rename_i happ
          simp only [Except.ok.injEq, Prod.mk.injEq] at h
          rw [← h.2.1, applyHits_pos _ happ b, ammoFilter_pos hfil b]
  · simp only [Except.ok.injEq, Prod.mk.injEq] at h
    rw [← h.2.1]

/-- the hand-written removal changes nobody's stored position -/
theorem takeOff_pos {w w' : World} {a : Aid} (h : takeOff w a = .ok w') (b : Aid) :
    (w'.stOf b).pos = (w.stOf b).pos := by
  unfold takeOff at h
  split at h
  · cases h
  · rename_i w2 hrem
    simp only [Except.ok.injEq] at h
    subst h
    have := pos_setSt w2 a { w2.stOf a with active := false } rfl b
    rw [this, remove_stOf hrem b]

/-- a move of an active agent in a `WInvWeak` world: everybody else stays, the mover ends in a grid cell -/
theorem moveAct_allInGrid {w w' : World} {a : Aid} {d : Pos} {r : Option Bool} (hI : w.WInvWeak = true)
    (ha : a < w.n) (hact : (w.stOf a).active = true) (hP : AllInGrid w) (h : w.moveAct a d = .ok (r, w')) :
    AllInGrid w' := by
  obtain ⟨_, hF⟩ := moveAct_weak hI ha hact h
  have hn : w'.n = w.n := sframe_n hF
  unfold moveAct at h
  by_cases hmv : (w.cfgOf a).moving = true
  · simp only [hmv, if_true] at h
    obtain ⟨ok, w1, hm, hs⟩ := moveBy_sound (placed_of_weak hI ha hact) d
    rw [hm] at h
    simp only [Except.ok.injEq, Prod.mk.injEq] at h
    obtain ⟨hokfree, _, hmoved, hstay⟩ := specMoveBy_reading hs
    rw [← h.2] at hn hF ⊢
    by_cases hnmv : ¬ (ok = true ∧ ((w.stOf a).pos.1 + d.1, (w.stOf a).pos.2 + d.2) ≠ (w.stOf a).pos)
    · rw [hstay hnmv]; exact hP
    · have hmv' := Classical.not_not.mp hnmv
      obtain ⟨hsta, hoth, _⟩ := hmoved hmv'
      have hfree : w.destFree a d = true := by rw [← hokfree]; exact hmv'.1
      simp only [destFree, Bool.and_eq_true] at hfree
      intro b hb
      rw [hn] at hb
      rw [inGrid_sframe hF]
      by_cases hba : b = a
      · subst hba
        rw [hsta]
        exact hfree.1
      · rw [hoth b hb hba]; exact hP b hb
  · simp only [hmv, Bool.false_eq_true, if_false, Except.ok.injEq, Prod.mk.injEq] at h
    rw [← h.2]; exact hP

/-- the state of a loop of `step`, with the stored positions -/
def PWP (w0 : World) (p : PS) : Prop := PW w0 p ∧ AllInGrid p.w

theorem allInGrid_of_pos {w w' : World} (hF : SFrame w w') (hpos : ∀ b, (w'.stOf b).pos = (w.stOf b).pos)
    (hP : AllInGrid w) : AllInGrid w' := by
  intro b hb
  rw [hpos b, inGrid_sframe hF]
  exact hP b (by rw [← sframe_n hF]; exact hb)

theorem attack1_pwp {cfg : Cfg} {w0 : World} {p p' : PS} {x : Aid × Act} (hP : PWP w0 p)
    (h : attack1 cfg p x = .ok p') : PWP w0 p' := by
  refine ⟨attack1_weak (compsKeepWeak cfg.attack) hP.1 h, ?_⟩
  unfold attack1 at h
  split at h
  · cases h
  · split at h
    · split at h
      · cases h
      · rename_i status H w' t' hpa
        obtain ⟨_, hF⟩ := processAttack_weak hP.1.1 hpa
        have key : p'.w = w' := by
          split at h
          · split at h
            · exact (accrue_map_ok h).1
            · obtain ⟨r, _, he⟩ := map_ok h
              rw [← he]
          · simp only [Except.ok.injEq] at h
            rw [← h]
        rw [key]
        exact allInGrid_of_pos hF (processAttack_pos hpa) hP.2
    · simp only [Except.ok.injEq] at h
      rw [← h]; exact hP.2

theorem move1_pwp {cfg : Cfg} {w0 : World} {p p' : PS} {x : Aid × Act} (hP : PWP w0 p)
    (h : move1 cfg p x = .ok p') : PWP w0 p' := by
  refine ⟨move1_weak (compsKeepWeak cfg.attack) hP.1 h, ?_⟩
  unfold move1 at h
  split at h
  · cases h
  · rename_i hn
    have ha : x.1 < p.w.n := Nat.lt_of_not_le hn
    split at h
    · split at h
      · cases h
      · rename_i p1 hp1
        have hP1 : p1.w.WInvWeak = true ∧ p1.w.n = p.w.n ∧ AllInGrid p1.w := by
          split at hp1
          · rename_i hact
            obtain ⟨res, hm, _⟩ := moveAcc_shape hp1
            obtain ⟨hW, hF⟩ := moveAct_weak hP.1.1 ha hact hm
            exact ⟨hW, sframe_n hF, moveAct_allInGrid hP.1.1 ha hact hP.2 hm⟩
          · simp only [Except.ok.injEq] at hp1
            rw [← hp1]; exact ⟨hP.1.1, rfl, hP.2⟩
        split at h
        · split at h
          · cases h
          · split at h
            · cases h
            · rename_i w2 hrem
              simp only [Except.ok.injEq] at h
              have hto : takeOff p1.w x.1 = .ok p'.w := by
                unfold takeOff
                rw [hrem, ← h]
              obtain ⟨_, h1, h2, h3, h4, h5, _⟩ := takeOff_weak hP1.1 (by rw [hP1.2.1]; exact ha) hto
              exact allInGrid_of_pos ⟨h1, h2, h3, h4, h5⟩ (takeOff_pos hto) hP1.2.2
        · simp only [Except.ok.injEq] at h
          rw [← h]; exact hP1.2.2
    · simp only [Except.ok.injEq] at h
      rw [← h]; exact hP.2

theorem entropy1_pwp {cfg : Cfg} {w0 : World} {p p' : PS} {x : Aid × Act} (hP : PWP w0 p)
    (h : entropy1 cfg p x = .ok p') : PWP w0 p' := by
  refine ⟨entropy1_weak hP.1 h, ?_⟩
  unfold entropy1 at h
  split at h
  · cases h
  · split at h
    · rw [(accrue_map_ok h).1]; exact hP.2
    · simp only [Except.ok.injEq] at h
      rw [← h]; exact hP.2

/-- **`step` keeps `WInvWeak`, the static part and "every stored position is a grid cell"** (any action dict) -/
theorem stepPS_pwp {cfg : Cfg} {w0 : World} {p p' : PS} {acts : List (Aid × Act)} (hP : PWP w0 p)
    (h : stepPS cfg p acts = .ok p') : PWP w0 p' := by
  unfold stepPS at h
  split at h
  · cases h
  · rename_i p1 h1
    have hP1 := foldE_pres (attack1 cfg) (PWP w0) (fun _ _ _ hp hh => attack1_pwp hp hh) acts p p1 hP h1
    split at h
    · cases h
    · rename_i p2 h2
      have hP2 := foldE_pres (move1 cfg) (PWP w0) (fun _ _ _ hp hh => move1_pwp hp hh) acts p1 p2 hP1 h2
      exact foldE_pres (entropy1 cfg) (PWP w0) (fun _ _ _ hp hh => entropy1_pwp hp hh) acts p2 p' hP2 h

/-! ## the invariant of a live object -/

/-- nothing happened yet, or: `WInvWeak`, the constructed static part, a reward entry for every learning agent, every
agent's stored position a grid cell -/
def GoodH (cfg : Cfg) (w0 : World) (s : St) : Prop :=
  match s.rewards with
  | none => s.w = w0
  | some r => s.w.WInvWeak = true ∧ SFrame w0 s.w ∧ LedgerFull cfg.toEx w0.n r ∧ AllInGrid s.w

theorem GoodH.goodW {cfg : Cfg} {w0 : World} {s : St} (h : GoodH cfg w0 s) : GoodW w0 s := by
  unfold GoodH at h
  unfold GoodW
  cases hr : s.rewards with
  | none => rw [hr] at h; exact h
  | some r => rw [hr] at h; exact ⟨h.1, h.2.1⟩

theorem step_shape {cfg : Cfg} {s s' : St} {acts : List (Aid × Act)} (h : step cfg s acts = .ok s') :
    ∃ r p, s.rewards = some r ∧ stepPS cfg ⟨s.w, r, s.tape⟩ acts = .ok p ∧ s' = ⟨p.w, some p.r, p.t⟩ := by
  unfold step at h
  split at h
  · cases h
  · rename_i r hr
    split at h
    · cases h
    · rename_i p hp
      simp only [Except.ok.injEq] at h
      exact ⟨r, p, hr, hp, h.symm⟩

/-- what a successful `reset` leaves, from a good state -/
theorem reset_goodH {cfg : Cfg} {w0 : World} (hcfg : CfgOK w0) (hfresh : w0.vitalsAlive = true)
    {order : List StateComp} (hR : Ex.ResetOK cfg.toEx w0 order) {s s' : St} (hG : GoodH cfg w0 s)
    (h : Ex.reset cfg.toEx order s = .ok s') :
    s'.rewards = some (zeroRewards cfg.toEx s'.w.n) ∧ s'.w.WInv = true ∧ SFrame w0 s'.w ∧ AllInGrid s'.w := by
  refine ⟨Ex.reset_shape h, ?_⟩
  unfold Ex.reset at h
  split at h
  · cases h
  · split at h
    · cases h
    · rename_i w' t' ha
      simp only [Except.ok.injEq] at h
      subst h
      have hH : StateComp.health ∈ order := hR.health (Or.inl rfl)
      unfold GoodH at hG
      cases hr : s.rewards with
      | none =>
        rw [hr] at hG
        simp only at hG
        obtain ⟨hHC, hA, hO, hN⟩ := vitalsAlive_clauses hfresh
        rw [hG] at ha
        have hX := Ex.reset_establishes hcfg hR (SFrame.refl w0) (Or.inr hHC) hA hO hN ha
        exact ⟨hX.inv, hX.frame, allInGrid_of_alive hX.inv hX.alive⟩
      | some r =>
        rw [hr] at hG
        simp only at hG
        have hW := hG.1
        have hX := Ex.reset_establishes hcfg hR hG.2.1 (Or.inl hH)
          (fun a ha hA => by
            have := (wAgentWeak_reading s.w a).mp (((WInvWeak_parts_iff s.w).mp hW).2.2.1 a ha)
            exact ⟨this.2.2.2.2.1, this.2.2.2.2.2.1 hA⟩)
          (fun a ha hO => by
            have := (wAgentWeak_reading s.w a).mp (((WInvWeak_parts_iff s.w).mp hW).2.2.1 a ha)
            exact this.2.2.2.2.2.2 hO)
          (fun a ha _ => by
            have := (wAgentWeak_reading s.w a).mp (((WInvWeak_parts_iff s.w).mp hW).2.2.1 a ha)
            exact this.2.2.2.2.1) ha
        exact ⟨hX.inv, hX.frame, allInGrid_of_alive hX.inv hX.alive⟩

theorem runOp_goodH {cfg : Cfg} {w0 : World} (hcfg : CfgOK w0) (hfresh : w0.vitalsAlive = true)
    (s : St) (op : EOp) (hop : OpOK cfg w0 op) (hG : GoodH cfg w0 s) : GoodH cfg w0 (runOp cfg s op).2 := by
  cases op with
  | reset order tape =>
    simp only [runOp]
    cases h : Ex.reset cfg.toEx order { s with tape := tape } with
    | error e => exact hG
    | ok s' =>
      obtain ⟨hr, hI, hF, hP⟩ := reset_goodH hcfg hfresh hop (s := { s with tape := tape }) hG h
      simp only
      unfold GoodH
      rw [hr]
      refine ⟨WInvWeak_of_WInv hI, hF, ?_, hP⟩
      rw [sframe_n hF]
      exact zeroRewards_full cfg.toEx w0.n
  | step acts tape =>
    simp only [runOp]
    cases h : step cfg { s with tape := tape } acts with
    | error e => exact hG
    | ok s' =>
      simp only
      obtain ⟨r, p, hr, hp, hs'⟩ := step_shape h
      simp only at hr hp
      unfold GoodH at hG
      rw [hr] at hG
      simp only at hG
      obtain ⟨hW, hF, hL, hP⟩ := hG
      have hpwp := stepPS_pwp (w0 := w0) (p := ⟨s.w, r, tape⟩) ⟨⟨hW, hF⟩, hP⟩ hp
      subst hs'
      unfold GoodH
      exact ⟨hpwp.1.1, hpwp.1.2, hL.of_keys (stepPS_keys hp), hpwp.2⟩
  | obs a tape =>
    simp only [runOp]
    cases h : Ex.getObs cfg.toEx { s with tape := tape } a with
    | error e => exact hG
    | ok r =>
      obtain ⟨o, s'⟩ := r
      obtain ⟨t', rfl⟩ := Ex.getObs_shape h
      exact hG
  | rew a =>
    simp only [runOp]
    cases h : Ex.getReward cfg.toEx s a with
    | error e => exact hG
    | ok r =>
      obtain ⟨x, s'⟩ := r
      obtain ⟨r0, hr0, _, rfl⟩ := Ex.getReward_shape h
      unfold GoodH at hG ⊢
      rw [hr0] at hG
      simp only at hG ⊢
      exact ⟨hG.1, hG.2.1, hG.2.2.1.of_keys (dictSet_keys _ _ _), hG.2.2.2⟩
  | done a => exact hG
  | allDone => exact hG

theorem runOps_goodH {cfg : Cfg} {w0 : World} (hcfg : CfgOK w0) (hfresh : w0.vitalsAlive = true)
    (ops : List EOp) : ∀ (s : St), (∀ op ∈ ops, OpOK cfg w0 op) → GoodH cfg w0 s → GoodH cfg w0 (runOps cfg s ops).2 := by
  induction ops with
  | nil => intro s _ h; exact h
  | cons op ops ih =>
    intro s hops hG
    have h1 := runOp_goodH hcfg hfresh s op (hops op List.mem_cons_self) hG
    simp only [runOps]
    split
    · exact h1
    · exact ih _ (fun o ho => hops o (List.mem_cons_of_mem _ ho)) h1

theorem goodH_init (cfg : Cfg) (w0 : World) (t : Tape) : GoodH cfg w0 { w := w0, tape := t } := rfl

/-! ## one call of the model passes the judge -/

theorem obsOuts_heal (w : World) (a : Aid) (os : Bool) (t : Tape) :
    obsOuts (heal w) a [.centered os] t = obsOuts w a [.centered os] t := by
  simp only [obsOuts, Observers.getObs, getObsCentered_heal]

theorem obsInSpace_heal (w : World) (a : Aid) (ks : List Observers.Kind) (o : List (String × Observers.Obs)) :
    obsInSpace (heal w) a ks o = obsInSpace w a ks o := by
  unfold obsInSpace
  simp only [declared_heal]
  rfl

/-- the observation of the model lies in the declared space with exactly the declared keys, in a `WInvWeak` world all of
whose stored positions are grid cells (transport of `Ex.getObs_obsInSpace` through `heal`) -/
theorem getObs_obsInSpace_weak {cfg : Cfg} {s s' : St} {a : Aid} {o : List (String × Observers.Obs)}
    (hW : s.w.WInvWeak = true) (hP : AllInGrid s.w) (henc : ∀ b < s.w.n, 0 < s.w.encOf b)
    (hammo : ∀ b < s.w.n, 0 ≤ (s.w.cfgOf b).initAmmo) (h : Ex.getObs cfg.toEx s a = .ok (o, s')) :
    obsInSpace s.w a [.centered cfg.observeSelf] o = true := by
  have h' : ∃ s'', Ex.getObs cfg.toEx { s with w := heal s.w } a = .ok (o, s'') := by
    unfold Ex.getObs at h ⊢
    split at h
    · cases h
    · rename_i r hr
      simp only [hr]
      simp only [Cfg.toEx] at h ⊢
      split at h
      · rename_i ha
        have ha' : a < (heal s.w).n := ha
        simp only [ha', if_true, obsOuts_heal]
        split at h
        · cases h
        · rename_i outs t' hout
          simp only [Except.ok.injEq, Prod.mk.injEq] at h
          simp only [h.1]
          exact ⟨_, rfl⟩
      · cases h
  obtain ⟨s'', h''⟩ := h'
  have := Ex.getObs_obsInSpace (cfg := cfg.toEx) (s := { s with w := heal s.w }) (ks := [.centered cfg.observeSelf]) rfl
    (heal_WInv hW) (fun b hb => by
      show (heal s.w).inGrid ((heal s.w).stOf b).pos = true
      rw [heal_pos]; exact hP b hb) henc hammo h''
  rw [← obsInSpace_heal]; exact this

theorem runOp_entry_state (cfg : Cfg) (s : St) (op : EOp) (h : (runOp cfg s op).1.res.isErr = false) :
    (runOp cfg s op).1.w = (runOp cfg s op).2.w ∧ (runOp cfg s op).1.rewards = (runOp cfg s op).2.rewards := by
  cases op with
  | reset order tape =>
    simp only [runOp] at h ⊢
    split <;> simp_all [ERes.isErr]
  | step acts tape =>
    simp only [runOp] at h ⊢
    split <;> simp_all [ERes.isErr]
  | obs a tape =>
    simp only [runOp] at h ⊢
    split <;> simp_all [ERes.isErr]
  | rew a =>
    simp only [runOp] at h ⊢
    split <;> simp_all [ERes.isErr]
  | done a => exact ⟨rfl, rfl⟩
  | allDone => exact ⟨rfl, rfl⟩

/-- **one call of the model passes the judge** -/
theorem judge1_model {cfg : Cfg} {w0 : World} (hW : WorldOK w0) (s : St) (op : EOp) (hop : OpOK cfg w0 op)
    (hG : GoodH cfg w0 s) : judge1 cfg w0 ⟨s.w, s.rewards⟩ op (runOp cfg s op).1 = true := by
  cases op with
  | reset order tape =>
    simp only [runOp]
    cases h : Ex.reset cfg.toEx order { s with tape := tape } with
    | error e => simp [judge1]
    | ok s' =>
      obtain ⟨hr, hI, hF, _⟩ := reset_goodH hW.cfgok hW.fresh hop (s := { s with tape := tape }) hG h
      simp [judge1, hI, frameb_of_sframe hF, hr]
  | step acts tape =>
    simp only [runOp]
    cases h : step cfg { s with tape := tape } acts with
    | error e =>
      simp only [judge1]
      cases hr : s.rewards with
      | none => rfl
      | some r =>
        simp only [Bool.not_eq_true']
        cases hm : stepMustNotRaise cfg s.w r acts with
        | false => rfl
        | true =>
          exfalso
          obtain ⟨hP, hS⟩ := items_of_stepMustNotRaise hm
          obtain ⟨p, hp, _⟩ := stepPS_ok_weak (cfg := cfg) (w0 := s.w) ⟨s.w, r, tape⟩ acts
            ⟨hP.weak, hP.frame, hP.full⟩ hS
          simp only [step, hr, hp] at h
          cases h
    | ok s' =>
      obtain ⟨r, p, hr, hp, hs'⟩ := step_shape h
      simp only at hr hp
      have hk := stepPS_keylist hp
      simp only at hk
      unfold GoodH at hG
      rw [hr] at hG
      simp only at hG
      have hpwp := stepPS_pwp (w0 := w0) (p := ⟨s.w, r, tape⟩) ⟨⟨hG.1, hG.2.1⟩, hG.2.2.2⟩ hp
      subst hs'
      simp [judge1, hpwp.1.1, frameb_of_sframe hpwp.1.2, hr, hk]
  | obs a tape =>
    simp only [runOp]
    cases h : Ex.getObs cfg.toEx { s with tape := tape } a with
    | error e => simp [judge1]
    | ok r =>
      obtain ⟨o, s'⟩ := r
      obtain ⟨ks, hks, hsome⟩ := Ex.getObs_observers h
      obtain ⟨t', rfl⟩ := Ex.getObs_shape h
      obtain ⟨r0, hr0⟩ := Option.isSome_iff_exists.mp hsome
      simp only at hr0
      unfold GoodH at hG
      rw [hr0] at hG
      simp only at hG
      obtain ⟨hWk, hF, _, hP⟩ := hG
      have hn : s.w.n = w0.n := sframe_n hF
      have hos := getObs_obsInSpace_weak (s := { s with tape := tape }) hWk hP
        (fun b hb => by rw [sframe_encOf hF]; exact hW.enc b (by rw [← hn]; exact hb))
        (fun b hb => by rw [sframe_cfgOf hF]; exact hW.ammo b (by rw [← hn]; exact hb)) h
      simp only at hos
      simp [judge1, hos]
  | rew a =>
    simp only [runOp]
    cases h : Ex.getReward cfg.toEx s a with
    | error e => simp [judge1]
    | ok r =>
      obtain ⟨x, s'⟩ := r
      obtain ⟨r0, hr0, hv, rfl⟩ := Ex.getReward_shape h
      simp only [judge1, hr0, beq_self_eq_true, Bool.true_and, beq_iff_eq]
      simp only [rewardVal] at hv
      cases hlk : r0.lookup a with
      | none => rw [hlk] at hv; cases hv
      | some y => rw [hlk] at hv; cases hv; rfl
  | done a =>
    simp only [runOp, getDone]
    cases hr : s.rewards with
    | none => simp [judge1, Ex.resOfBool]
    | some r =>
      simp only
      cases hd : doneW cfg s.w a with
      | error e => simp [judge1, Ex.resOfBool]
      | ok b => simp [judge1, Ex.resOfBool, hd]
  | allDone =>
    simp only [runOp, getAllDone]
    cases hr : s.rewards with
    | none => simp [judge1, Ex.resOfBool]
    | some r => simp [judge1, Ex.resOfBool]

/-- **the model's own trace passes the judge**, from any good state -/
theorem specFrom_model {cfg : Cfg} {w0 : World} (hW : WorldOK w0) :
    ∀ (ops : List EOp) (s : St), (∀ op ∈ ops, OpOK cfg w0 op) → GoodH cfg w0 s →
      specFrom cfg w0 ⟨s.w, s.rewards⟩ (zipOps ops (runOps cfg s ops).1) = true := by
  intro ops
  induction ops with
  | nil => intro s _ _; rfl
  | cons op ops ih =>
    intro s hops hG
    have hj := judge1_model hW s op (hops op List.mem_cons_self) hG
    have hG' := runOp_goodH hW.cfgok hW.fresh s op (hops op List.mem_cons_self) hG
    simp only [runOps]
    cases he : (runOp cfg s op).1.res.isErr with
    | true =>
      simp only [if_true, zipOps, specFrom, hj, Bool.true_and]
      cases hres : (runOp cfg s op).1.res <;> simp_all [ERes.isErr]
    | false =>
      simp only [Bool.false_eq_true, if_false, zipOps, specFrom, hj, Bool.true_and]
      obtain ⟨e1, e2⟩ := runOp_entry_state cfg s op he
      have := ih (runOp cfg s op).2 (fun o ho => hops o (List.mem_cons_of_mem _ ho)) hG'
      rw [← e1, ← e2] at this
      cases hres : (runOp cfg s op).1.res <;> simp_all [ERes.isErr]

/-- `rtPre` is the conjunction of the hypotheses -/
theorem rtPre_hyps {cfg : Cfg} {w0 : World} {ops : List EOp} (h : rtPre cfg w0 ops = true) :
    WorldOK w0 ∧ ∀ op ∈ ops, OpOK cfg w0 op := by
  simp only [rtPre, Bool.and_eq_true, List.all_eq_true, allAgents, List.mem_range, decide_eq_true_eq] at h
  obtain ⟨⟨⟨⟨⟨h1, h2⟩, _⟩, h4⟩, _⟩, h6⟩ := h
  refine ⟨⟨(cfgOKb_iff w0).mp h1, h2, fun b hb => (h4 b hb).1, fun b hb => (h4 b hb).2⟩, ?_⟩
  intro op hop
  have := h6 op hop
  cases op with
  | reset order tape => exact resetOK_of_b this
  | step acts tape => trivial
  | obs a tape => trivial
  | rew a => trivial
  | done a => trivial
  | allDone => trivial

end RT
end Abmarl
