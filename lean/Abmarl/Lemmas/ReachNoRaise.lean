import Abmarl.Lemmas.ReachAttacks
import Abmarl.Lemmas.ExamplesNoRaise
import Abmarl.Lemmas.ReachHeal
/-!
# `ReachTheTargetSim.step` does not raise for in-space actions (steps that start in a `WInv` world)

The attack loop is literally the attack loop of `TeamBattleSim` (since the repair of finding R2): `attack1_eq`, so
`Ex.attack1_ok` applies as long as the world satisfies `WInv` — which attacks preserve.  The move loop and the entropy loop
only need `WInvWeak` (`moveBy_sound` for a placed agent, `takeOff` for an active agent).
-/
namespace Abmarl
namespace RT
open World Ex

theorem attack1_eq (cfg : Cfg) (p : PS) (x : Aid × Act) : attack1 cfg p x = Ex.attack1 cfg.toEx p x := rfl

/-- the state of the move / entropy loops: `WInvWeak`, the constructed static part, a full ledger -/
structure PSW (cfg : Cfg) (w0 : World) (p : PS) : Prop where
  weak : p.w.WInvWeak = true
  frame : SFrame w0 p.w
  full : LedgerFull cfg.toEx w0.n p.r

theorem moveAcc_ok_weak {cfg : Cfg} {w0 : World} (p : PS) (a : Aid) (d : Pos) (hP : PSW cfg w0 p) (ha : a < w0.n)
    (hl : cfg.toEx.isLearning a = true) (hact : (p.w.stOf a).active = true) :
    ∃ p', moveAcc p a d = .ok p' ∧ PSW cfg w0 p' ∧ (p'.w.stOf a).active = true := by
  have hn : p.w.n = w0.n := sframe_n hP.frame
  have ha' : a < p.w.n := by rw [hn]; exact ha
  have hPl := placed_of_weak hP.weak ha' hact
  have hm : ∃ res w', p.w.moveAct a d = .ok (res, w') := by
    unfold moveAct
    by_cases hmv : (p.w.cfgOf a).moving = true
    · obtain ⟨ok, w1, h1, _⟩ := moveBy_sound hPl d
      exact ⟨some ok, w1, by simp only [hmv, if_true, h1]⟩
    · exact ⟨none, p.w, by simp only [hmv, Bool.false_eq_true, if_false]⟩
  obtain ⟨res, w', hm⟩ := hm
  obtain ⟨hW', hF'⟩ := moveAct_weak hP.weak ha' hact hm
  have hact' : (w'.stOf a).active = true := by
    -- a move changes nobody's activity
    unfold moveAct at hm
    by_cases hmv : (p.w.cfgOf a).moving = true
    · simp only [hmv, if_true] at hm
      obtain ⟨ok, w1, h1, hs⟩ := moveBy_sound hPl d
      rw [h1] at hm
      simp only [Except.ok.injEq, Prod.mk.injEq] at hm
      rw [← hm.2]
      obtain ⟨_, _, hmoved, hstay⟩ := specMoveBy_reading hs
      by_cases hnmv : ¬ (ok = true ∧ ((p.w.stOf a).pos.1 + d.1, (p.w.stOf a).pos.2 + d.2) ≠ (p.w.stOf a).pos)
      · rw [hstay hnmv]; exact hact
      · have hmv' := Classical.not_not.mp hnmv
        obtain ⟨hsta, _, _, _, _⟩ := hmoved hmv'
        rw [hsta]; exact hact
    · simp only [hmv, Bool.false_eq_true, if_false, Except.ok.injEq, Prod.mk.injEq] at hm
      rw [← hm.2]; exact hact
  unfold moveAcc
  simp only [hm]
  split
  · exact ⟨_, rfl, ⟨hW', hP.frame.trans hF', hP.full⟩, hact'⟩
  · obtain ⟨r', h1, hf⟩ := accrue_ok hP.full ha hl (-10)
    exact ⟨⟨w', r', p.t⟩, by simp [h1, Except.map], ⟨hW', hP.frame.trans hF', hf⟩, hact'⟩

theorem move1_ok {cfg : Cfg} {w0 : World} (p : PS) (x : Aid × Act) (hP : PSW cfg w0 p)
    (hlt : x.1 < w0.n) (hl : cfg.toEx.isLearning x.1 = true) :
    ∃ p', move1 cfg p x = .ok p' ∧ PSW cfg w0 p' := by
  have hn : p.w.n = w0.n := sframe_n hP.frame
  have hlt' : x.1 < p.w.n := by rw [hn]; exact hlt
  unfold move1
  rw [if_neg (Nat.not_le.mpr hlt')]
  by_cases hmv : (p.w.cfgOf x.1).moving = true
  · rw [if_pos hmv]
    by_cases hact : (p.w.stOf x.1).active = true
    · obtain ⟨p1, h1, hP1, hact1⟩ := moveAcc_ok_weak p x.1 x.2.move hP hlt hl hact
      simp only [hact, if_true, h1]
      by_cases htd : targetDone cfg p1.w x.1 = true
      · simp only [hact1, htd, Bool.and_self, if_true]
        obtain ⟨r1, hr1, hf1⟩ := accrue_ok hP1.full hlt hl 100
        simp only [hr1]
        have hlt1 : x.1 < p1.w.n := by rw [sframe_n hP1.frame]; exact hlt
        have hmem : x.1 ∈ p1.w.cell (p1.w.posOf x.1) := (placed_of_weak hP1.weak hlt1 hact1).mem
        have hrem : p1.w.remove x.1 (p1.w.posOf x.1) =
            .ok { p1.w with cells := p1.w.cells.set (p1.w.idx (p1.w.posOf x.1)) ((p1.w.cell (p1.w.posOf x.1)).erase x.1) } := by
          unfold World.remove
          rw [if_pos hmem]
        simp only [hrem]
        refine ⟨_, rfl, ?_⟩
        have hto : takeOff p1.w x.1 = .ok
            (({ p1.w with cells := p1.w.cells.set (p1.w.idx (p1.w.posOf x.1)) ((p1.w.cell (p1.w.posOf x.1)).erase x.1) } : World).setSt x.1
              { ({ p1.w with cells := p1.w.cells.set (p1.w.idx (p1.w.posOf x.1)) ((p1.w.cell (p1.w.posOf x.1)).erase x.1) } : World).stOf x.1 with active := false }) := by
          unfold takeOff
          rw [hrem]
        obtain ⟨hW, h1', h2', h3', h4', h5', _⟩ := takeOff_weak hP1.weak hlt1 hto
        exact ⟨hW, hP1.frame.trans ⟨h1', h2', h3', h4', h5'⟩, hf1⟩
      · have : ((p1.w.stOf x.1).active && targetDone cfg p1.w x.1) = false := by
          simp only [hact1, Bool.true_and]; simpa using htd
        simp only [this, Bool.false_eq_true, if_false]
        exact ⟨p1, rfl, hP1⟩
    · have hact' : (p.w.stOf x.1).active = false := by simpa using hact
      simp only [hact', Bool.false_eq_true, if_false, Bool.false_and]
      exact ⟨p, rfl, hP⟩
  · rw [if_neg hmv]
    exact ⟨p, rfl, hP⟩

theorem entropy1_ok {cfg : Cfg} {w0 : World} (p : PS) (x : Aid × Act) (hP : PSW cfg w0 p)
    (hlt : x.1 < w0.n) (hl : cfg.toEx.isLearning x.1 = true) :
    ∃ p', entropy1 cfg p x = .ok p' ∧ PSW cfg w0 p' := by
  have hlt' : x.1 < p.w.n := by rw [sframe_n hP.frame]; exact hlt
  unfold entropy1
  rw [if_neg (Nat.not_le.mpr hlt')]
  by_cases hr : x.1 ∈ cfg.runners
  · rw [if_pos hr]
    obtain ⟨r', h1, hf⟩ := accrue_ok hP.full hlt hl (-1)
    exact ⟨⟨p.w, r', p.t⟩, by simp [h1, Except.map], ⟨hP.weak, hP.frame, hf⟩⟩
  · rw [if_neg hr]
    exact ⟨p, rfl, hP⟩

/-- **a `step` that starts in a `WInv` world does not raise for in-space actions**: every item a point of the declared
action space of a learning agent of the simulation (`Ex.ItemOK` for `cfg.toEx`), a full ledger -/
theorem stepPS_ok_WInv {cfg : Cfg} {w0 : World} (hcfg : CfgOK w0) (p : PS) (acts : List (Aid × Act))
    (hX : XInv w0 p.w) (hL : LedgerFull cfg.toEx w0.n p.r) (hS : ∀ x ∈ acts, ItemOK cfg.toEx w0 x) :
    ∃ p', stepPS cfg p acts = .ok p' := by
  unfold stepPS
  obtain ⟨p1, h1, hP1⟩ := foldE_ok (attack1 cfg) (PSOK cfg.toEx w0) (ItemOK cfg.toEx w0)
    (fun p x hP hx => by rw [attack1_eq]; exact Ex.attack1_ok hcfg (Or.inl rfl) p x hP hx) acts p ⟨hX, hL⟩ hS
  simp only [h1]
  have hW1 : PSW cfg w0 p1 := ⟨WInvWeak_of_WInv hP1.x.inv, hP1.x.frame, hP1.full⟩
  obtain ⟨p2, h2, hP2⟩ := foldE_ok (move1 cfg) (PSW cfg w0) (ItemOK cfg.toEx w0)
    (fun p x hP hx => move1_ok p x hP hx.lt hx.learning) acts p1 hW1 hS
  simp only [h2]
  obtain ⟨p3, h3, _⟩ := foldE_ok (entropy1 cfg) (PSW cfg w0) (ItemOK cfg.toEx w0)
    (fun p x hP hx => entropy1_ok p x hP hx.lt hx.learning) acts p2 hP2 hS
  exact ⟨p3, h3⟩

/-! ## … and when it starts in a world that is only `WInvWeak` (every reachable state) -/

/-- one pass of the attack loop in a `WInvWeak` world: the actor returns (`processAttack_ok_weak`: transport of
`attackOK_all` through `RT.heal`), the ledger has the entries that are charged, `WInvWeak` is kept -/
theorem attack1_ok_weak {cfg : Cfg} {w0 : World} (p : PS) (x : Aid × Act) (hP : PSW cfg w0 p)
    (hx : ItemOK cfg.toEx w0 x) : ∃ p', attack1 cfg p x = .ok p' ∧ PSW cfg w0 p' := by
  have hn : p.w.n = w0.n := sframe_n hP.frame
  have hlt : x.1 < p.w.n := by rw [hn]; exact hx.lt
  suffices h : ∃ p', attack1 cfg p x = .ok p' ∧ LedgerFull cfg.toEx w0.n p'.r by
    obtain ⟨p', h1, h2⟩ := h
    have hw := attack1_weak (compsKeepWeak cfg.attack) (w0 := w0) ⟨hP.weak, hP.frame⟩ h1
    exact ⟨p', h1, ⟨hw.1, hw.2, h2⟩⟩
  rw [attack1_eq]
  unfold Ex.attack1
  rw [if_neg (Nat.not_le.mpr hlt)]
  by_cases hact : (p.w.stOf x.1).active = true
  · rw [if_pos hact]
    obtain ⟨st, H, w', t', hp, hH⟩ := processAttack_ok_weak (cfg := cfg.attack) (act := x.2.attack) p.t hP.weak hlt hact
      (fun hatt => by
        rw [inSpace_attack_sframe hP.frame]
        exact hx.attack (Or.inl rfl) (by rw [← sframe_cfgOf hP.frame]; exact hatt))
    have hp' : processAttack cfg.toEx.attack p.w x.1 x.2.attack p.t = .ok ((st, H), w', t') := hp
    simp only [hp']
    by_cases hst : st = true
    · simp only [hst, if_true]
      by_cases hemp : H.isEmpty = true
      · rw [if_pos hemp]
        obtain ⟨r', h1, hf⟩ := accrue_ok hP.full hx.lt hx.learning (-10)
        exact ⟨⟨w', r', t'⟩, by simp [h1, Except.map], hf⟩
      · rw [if_neg hemp]
        obtain ⟨r', h1, hf⟩ := foldE_ok
          (if cfg.toEx.which == .predatorPrey then preyKill cfg.toEx w' x.1 else teamKill cfg.toEx w' x.1)
          (LedgerFull cfg.toEx w0.n) (fun v => v < w0.n)
          (fun r v hr hv => kill_ok w' x.1 hx.lt hx.learning r v hr hv) H p.r hP.full
          (fun v hv => by rw [← hn]; exact hH v hv)
        exact ⟨⟨w', r', t'⟩, by simp only [h1, Except.map], hf⟩
    · simp only [hst, Bool.false_eq_true, if_false]
      exact ⟨⟨w', p.r, t'⟩, rfl, hP.full⟩
  · rw [if_neg hact]
    exact ⟨p, rfl, hP.full⟩

/-- **a `step` does not raise for in-space actions in ANY `WInvWeak` world** with a full ledger: all three loops -/
theorem stepPS_ok_weak {cfg : Cfg} {w0 : World} (p : PS) (acts : List (Aid × Act))
    (hP : PSW cfg w0 p) (hS : ∀ x ∈ acts, ItemOK cfg.toEx w0 x) :
    ∃ p', stepPS cfg p acts = .ok p' ∧ PSW cfg w0 p' := by
  unfold stepPS
  obtain ⟨p1, h1, hP1⟩ := foldE_ok (attack1 cfg) (PSW cfg w0) (ItemOK cfg.toEx w0)
    (fun p x hP hx => attack1_ok_weak p x hP hx) acts p hP hS
  simp only [h1]
  obtain ⟨p2, h2, hP2⟩ := foldE_ok (move1 cfg) (PSW cfg w0) (ItemOK cfg.toEx w0)
    (fun p x hP hx => move1_ok p x hP hx.lt hx.learning) acts p1 hP1 hS
  simp only [h2]
  exact foldE_ok (entropy1 cfg) (PSW cfg w0) (ItemOK cfg.toEx w0)
    (fun p x hP hx => entropy1_ok p x hP hx.lt hx.learning) acts p2 hP2 hS

/-- the judge's Boolean gives the hypotheses, seen from the world itself -/
theorem items_of_stepMustNotRaise {cfg : Cfg} {w : World} {r : Ledger} {acts : List (Aid × Act)}
    (h : stepMustNotRaise cfg w r acts = true) :
    PSW cfg w ⟨w, r, []⟩ ∧ ∀ x ∈ acts, ItemOK cfg.toEx w x := by
  simp only [stepMustNotRaise, Bool.and_eq_true, List.all_eq_true] at h
  obtain ⟨⟨⟨⟨hW, hin⟩, _⟩, hlearn⟩, hfull⟩ := h
  refine ⟨⟨hW, SFrame.refl w, fun a ha hl => ?_⟩, ?_⟩
  · simp only [ledgerFullb, List.all_eq_true, List.mem_filter, List.mem_range] at hfull
    exact hfull a ⟨ha, hl⟩
  intro x hx
  have hi := hin x hx
  simp only [actInSpace, Bool.and_eq_true, decide_eq_true_eq, Bool.or_eq_true, Bool.not_eq_true'] at hi
  obtain ⟨⟨hlt, hmv⟩, hat⟩ := hi
  refine ⟨hlt, hlearn x hx, hmv, fun _ hatt => ?_⟩
  rcases hat with hat | hat
  · rw [hatt] at hat; cases hat
  · exact hat

end RT
end Abmarl
