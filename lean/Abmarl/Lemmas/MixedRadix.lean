import Abmarl.Model.Spaces
/-!
# Mixed-radix encode / decode are inverse under the digit bounds

`encode` models `np.ravel_multi_index`, `decode` models `np.unravel_index` (C order).
`inRange rs ds` says that `ds` has one digit per radix and every digit is below its radix.
-/
namespace Abmarl

/-- one digit per radix, each below its radix -/
def inRange : List Nat → List Nat → Prop
  | [], [] => True
  | r :: rs, d :: ds => d < r ∧ inRange rs ds
  | _, _ => False

def ofNats (ds : List Nat) : List Int := ds.map Int.ofNat

@[simp] theorem ofNats_nil : ofNats [] = [] := rfl
@[simp] theorem ofNats_cons (d : Nat) (ds : List Nat) : ofNats (d :: ds) = Int.ofNat d :: ofNats ds := rfl

theorem inRange_length : ∀ (rs ds : List Nat), inRange rs ds → ds.length = rs.length
  | [], [], _ => rfl
  | [], _ :: _, h => by simp [inRange] at h
  | _ :: _, [], h => by simp [inRange] at h
  | _ :: rs, _ :: ds, h => by
    simp only [inRange] at h
    simp [inRange_length rs ds h.2]

theorem encode_lt : ∀ (rs : List Nat) (ds : List Int) (k : Nat), encode rs ds = some k → k < prod rs
  | [], [], k, h => by
    simp only [encode, Option.some.injEq] at h
    subst h; simp [prod]
  | [], _ :: _, _, h => by simp [encode] at h
  | _ :: _, [], _, h => by simp [encode] at h
  | r :: rs, d :: ds, k, h => by
    rw [encode] at h
    split at h
    · rename_i hd
      cases he : encode rs ds with
      | none => simp [he] at h
      | some k' =>
        simp only [he, Option.some.injEq] at h
        have hk' := encode_lt rs ds k' he
        have hdn : d.toNat + 1 ≤ r := by omega
        have : (d.toNat + 1) * prod rs ≤ r * prod rs := Nat.mul_le_mul_right _ hdn
        rw [Nat.add_mul, Nat.one_mul] at this
        simp only [prod]
        omega
    · simp at h

/-- decoding what was encoded gives the digits back -/
theorem decodeAux_encode : ∀ (rs : List Nat) (ds : List Int) (k : Nat),
    encode rs ds = some k → decodeAux rs k = ds.map Int.toNat
  | [], [], _, _ => rfl
  | [], _ :: _, _, h => by simp [encode] at h
  | _ :: _, [], _, h => by simp [encode] at h
  | r :: rs, d :: ds, k, h => by
    rw [encode] at h
    split at h
    · cases he : encode rs ds with
      | none => simp [he] at h
      | some k' =>
        simp only [he, Option.some.injEq] at h
        have hk' := encode_lt rs ds k' he
        have hpos : 0 < prod rs := by omega
        have ih := decodeAux_encode rs ds k' he
        subst h
        have h1 : (d.toNat * prod rs + k') / prod rs = d.toNat := by
          rw [Nat.add_comm, Nat.add_mul_div_right _ _ hpos, Nat.div_eq_of_lt hk', Nat.zero_add]
        have h2 : (d.toNat * prod rs + k') % prod rs = k' := by
          rw [Nat.add_comm, Nat.add_mul_mod_self_right, Nat.mod_eq_of_lt hk']
        simp only [decodeAux, h1, h2, ih, List.map_cons]
    · simp at h

theorem decode_encode (rs : List Nat) (ds : List Int) (k : Nat) (h : encode rs ds = some k) :
    decode rs k = some (ds.map Int.toNat) := by
  unfold decode
  rw [if_pos (encode_lt rs ds k h), decodeAux_encode rs ds k h]

theorem toNat_ofNats (ds : List Nat) : (ofNats ds).map Int.toNat = ds := by
  induction ds with
  | nil => rfl
  | cons d ds ih => simp only [ofNats_cons, List.map_cons, ih]; rfl

/-- digits in range can be encoded -/
theorem encode_of_inRange : ∀ (rs ds : List Nat), inRange rs ds → ∃ k, encode rs (ofNats ds) = some k
  | [], [], _ => ⟨0, rfl⟩
  | [], _ :: _, h => by simp [inRange] at h
  | _ :: _, [], h => by simp [inRange] at h
  | r :: rs, d :: ds, h => by
    simp only [inRange] at h
    obtain ⟨k', hk'⟩ := encode_of_inRange rs ds h.2
    refine ⟨d * prod rs + k', ?_⟩
    have hd : (0 : Int) ≤ Int.ofNat d ∧ Int.ofNat d < (r : Int) := ⟨Int.natCast_nonneg d, by
      show (d : Int) < (r : Int); omega⟩
    rw [ofNats_cons, encode, if_pos hd, hk']
    rfl

theorem decodeAux_inRange : ∀ (rs : List Nat) (k : Nat), k < prod rs → inRange rs (decodeAux rs k)
  | [], _, _ => trivial
  | r :: rs, k, h => by
    simp only [prod] at h
    have hpos : 0 < prod rs := by
      rcases Nat.eq_zero_or_pos (prod rs) with h0 | h0
      · rw [h0] at h; simp at h
      · exact h0
    simp only [decodeAux, inRange]
    refine ⟨?_, decodeAux_inRange rs _ (Nat.mod_lt _ hpos)⟩
    rw [Nat.div_lt_iff_lt_mul hpos]
    exact h

/-- encoding what was decoded gives the number back -/
theorem encode_decodeAux : ∀ (rs : List Nat) (k : Nat), k < prod rs →
    encode rs (ofNats (decodeAux rs k)) = some k
  | [], k, h => by
    simp only [prod] at h
    have : k = 0 := by omega
    subst this; rfl
  | r :: rs, k, h => by
    have hr := decodeAux_inRange (r :: rs) k h
    simp only [prod] at h
    have hpos : 0 < prod rs := by
      rcases Nat.eq_zero_or_pos (prod rs) with h0 | h0
      · rw [h0] at h; simp at h
      · exact h0
    simp only [decodeAux, inRange] at hr
    have ih := encode_decodeAux rs (k % prod rs) (Nat.mod_lt _ hpos)
    have hd : (0 : Int) ≤ Int.ofNat (k / prod rs) ∧ Int.ofNat (k / prod rs) < (r : Int) :=
      ⟨Int.natCast_nonneg _, by show ((k / prod rs : Nat) : Int) < (r : Int); omega⟩
    simp only [decodeAux, ofNats_cons]
    rw [encode, if_pos hd, ih]
    show some ((k / prod rs) * prod rs + k % prod rs) = some k
    rw [Nat.div_add_mod']

theorem decode_some {rs : List Nat} {k : Nat} (h : k < prod rs) : decode rs k = some (decodeAux rs k) := by
  unfold decode; rw [if_pos h]

theorem decode_eq_some {rs : List Nat} {k : Nat} {ds : List Nat} (h : decode rs k = some ds) :
    k < prod rs ∧ ds = decodeAux rs k := by
  unfold decode at h
  split at h
  · simp only [Option.some.injEq] at h; exact ⟨‹_›, h.symm⟩
  · simp at h

/-- the three facts used for every space: digits in range are encoded to a number below the
product of the radices, and that number decodes to the same digits -/
theorem encode_spec (rs ds : List Nat) (h : inRange rs ds) :
    ∃ k, encode rs (ofNats ds) = some k ∧ k < prod rs ∧ decode rs k = some ds := by
  obtain ⟨k, hk⟩ := encode_of_inRange rs ds h
  refine ⟨k, hk, encode_lt _ _ _ hk, ?_⟩
  rw [decode_encode _ _ _ hk, toNat_ofNats]

/-- and conversely: a number below the product decodes to digits in range that encode to it -/
theorem decode_spec (rs : List Nat) (k : Nat) (h : k < prod rs) :
    ∃ ds, decode rs k = some ds ∧ inRange rs ds ∧ encode rs (ofNats ds) = some k :=
  ⟨decodeAux rs k, decode_some h, decodeAux_inRange rs k h, encode_decodeAux rs k h⟩

theorem prod_replicate (n r : Nat) : prod (List.replicate n r) = r ^ n := by
  induction n with
  | zero => rfl
  | succ n ih => simp only [List.replicate_succ, prod, ih, Nat.pow_succ, Nat.mul_comm]

theorem prod_pos_of_allPos : ∀ (rs : List Nat), (∀ r ∈ rs, 0 < r) → 0 < prod rs
  | [], _ => by simp [prod]
  | r :: rs, h => by
    simp only [prod]
    exact Nat.mul_pos (h r (by simp)) (prod_pos_of_allPos rs fun x hx => h x (by simp [hx]))

end Abmarl
