import Abmarl.Spec.Managers
/-!
# Helper lemmas for the manager theorems (C01, C07, …)
-/
namespace Abmarl

variable {σ α ω ι : Type}

/-- Frame conditions on a simulation's getters: reading an observation or a reward does not
change who is done, whether the simulation is finished or whom it nominates; the reward
getter is read-and-reset on the ghost `pending`.  (`AccumulatorSim` of DESIGN.md.) -/
structure Lawful (S : SimIface σ α ω ι) : Prop where
  obs_done    : ∀ s a b, S.done (S.obs s a).2 b = S.done s b
  obs_allDone : ∀ s a, S.allDone (S.obs s a).2 = S.allDone s
  obs_next    : ∀ s a, S.next (S.obs s a).2 = S.next s
  obs_pending : ∀ s a b, S.pending (S.obs s a).2 b = S.pending s b
  rew_done    : ∀ s a b, S.done (S.reward s a).2 b = S.done s b
  rew_allDone : ∀ s a, S.allDone (S.reward s a).2 = S.allDone s
  rew_next    : ∀ s a, S.next (S.reward s a).2 = S.next s
  rew_val     : ∀ s a, (S.reward s a).1 = S.pending s a
  rew_pending : ∀ s a b, S.pending (S.reward s a).2 b = if b = a then 0 else S.pending s b

/-- two simulation states that look the same through the pure getters -/
def SameView (S : SimIface σ α ω ι) (s s' : σ) : Prop :=
  (∀ a, S.done s' a = S.done s a) ∧ S.allDone s' = S.allDone s ∧ S.next s' = S.next s

theorem SameView.refl (S : SimIface σ α ω ι) (s : σ) : SameView S s s := ⟨fun _ => rfl, rfl, rfl⟩

theorem SameView.trans {S : SimIface σ α ω ι} {s s' s'' : σ}
    (h : SameView S s s') (h' : SameView S s' s'') : SameView S s s'' :=
  ⟨fun a => (h'.1 a).trans (h.1 a), h'.2.1.trans h.2.1, h'.2.2.trans h.2.2⟩

/-- report a list of agents one after the other -/
def reportAll (S : SimIface σ α ω ι) : σ → Acc ω ι → List Aid → Acc ω ι × σ
  | s, acc, [] => (acc, s)
  | s, acc, a :: as =>
    let r := report1 S s acc a
    reportAll S r.2 r.1 as

theorem report1_view {S : SimIface σ α ω ι} (hS : Lawful S) (s : σ) (acc : Acc ω ι) (a : Aid) :
    SameView S s (report1 S s acc a).2 := by
  refine ⟨fun b => ?_, ?_, ?_⟩
  · simp [report1, hS.rew_done, hS.obs_done]
  · simp [report1, hS.rew_allDone, hS.obs_allDone]
  · simp [report1, hS.rew_next, hS.obs_next]

theorem report1_pending {S : SimIface σ α ω ι} (hS : Lawful S) (s : σ) (acc : Acc ω ι) (a b : Aid) :
    S.pending (report1 S s acc a).2 b = if b = a then 0 else S.pending s b := by
  simp [report1, hS.rew_pending, hS.obs_pending]

theorem report1_acc {S : SimIface σ α ω ι} (hS : Lawful S) (s : σ) (acc : Acc ω ι) (a : Aid) :
    keys (report1 S s acc a).1.obs = keys acc.obs ++ [a] ∧
    (report1 S s acc a).1.rewards = acc.rewards ++ [(a, S.pending s a)] ∧
    (report1 S s acc a).1.dones = acc.dones ++ [(a, S.done s a)] ∧
    keys (report1 S s acc a).1.infos = keys acc.infos ++ [a] := by
  simp [report1, keys, hS.rew_val, hS.obs_pending, hS.rew_done, hS.obs_done]

theorem reportAll_view {S : SimIface σ α ω ι} (hS : Lawful S) :
    ∀ (l : List Aid) (s : σ) (acc : Acc ω ι), SameView S s (reportAll S s acc l).2
  | [], s, _ => SameView.refl S s
  | a :: as, s, acc => by
    simp only [reportAll]
    exact (report1_view hS s acc a).trans (reportAll_view hS as _ _)

theorem reportAll_pending {S : SimIface σ α ω ι} (hS : Lawful S) :
    ∀ (l : List Aid) (s : σ) (acc : Acc ω ι) (b : Aid),
      S.pending (reportAll S s acc l).2 b = if b ∈ l then 0 else S.pending s b
  | [], s, _, b => by simp [reportAll]
  | a :: as, s, acc, b => by
    simp only [reportAll]
    rw [reportAll_pending hS as, report1_pending hS]
    by_cases h1 : b ∈ as <;> by_cases h2 : b = a <;> simp [h1, h2]

theorem reportAll_acc {S : SimIface σ α ω ι} (hS : Lawful S) :
    ∀ (l : List Aid) (s : σ) (acc : Acc ω ι), l.Nodup →
      keys (reportAll S s acc l).1.obs = keys acc.obs ++ l ∧
      (reportAll S s acc l).1.rewards = acc.rewards ++ l.map (fun a => (a, S.pending s a)) ∧
      (reportAll S s acc l).1.dones = acc.dones ++ l.map (fun a => (a, S.done s a)) ∧
      keys (reportAll S s acc l).1.infos = keys acc.infos ++ l
  | [], s, acc, _ => by simp [reportAll]
  | a :: as, s, acc, hnd => by
    simp only [reportAll]
    have hnd' := (List.nodup_cons.mp hnd)
    obtain ⟨h1, h2, h3, h4⟩ := reportAll_acc hS as (report1 S s acc a).2 (report1 S s acc a).1 hnd'.2
    obtain ⟨r1, r2, r3, r4⟩ := report1_acc hS s acc a
    have hv := report1_view hS s acc a
    refine ⟨by rw [h1, r1]; simp, ?_, ?_, by rw [h4, r4]; simp⟩
    · rw [h2, r2]
      simp only [List.map_cons, List.append_assoc, List.cons_append, List.nil_append]
      congr 2
      apply List.map_congr_left
      intro b hb
      rw [report1_pending hS]
      have : b ≠ a := fun h => hnd'.1 (h ▸ hb)
      simp [this]
    · rw [h3, r3]
      simp only [List.map_cons, List.append_assoc, List.cons_append, List.nil_append]
      congr 2
      apply List.map_congr_left
      intro b _
      rw [hv.1 b]

theorem flush_eq (S : SimIface σ α ω ι) (ds : List Aid) :
    ∀ (l : List Aid) (s : σ) (acc : Acc ω ι),
      flush S ds s acc l = reportAll S s acc (l.filter (fun a => decide (a ∉ ds)))
  | [], s, acc => by simp [flush, reportAll]
  | a :: as, s, acc => by
    by_cases h : a ∈ ds
    · simp [flush, h, flush_eq S ds as]
    · simp [flush, h, reportAll, flush_eq S ds as]

end Abmarl

namespace Abmarl
variable {σ α ω ι : Type}

theorem filter_notin_cons_of_notin (a : Aid) (ds pre : List Aid) (h : a ∉ pre) :
    pre.filter (fun x => decide (x ∉ a :: ds)) = pre.filter (fun x => decide (x ∉ ds)) := by
  apply List.filter_congr
  intro x hx
  have : x ≠ a := fun e => h (e ▸ hx)
  simp [this]

theorem turnSearch_spec {S : SimIface σ α ω ι} (hS : Lawful S) :
    ∀ (rot : List Aid) (s : σ) (ds : List Aid) (acc : Acc ω ι) (k : Nat) (res : SearchRes σ ω ι),
      rot.Nodup → turnSearch S rot s ds acc k = some res →
      ∃ pre post, rot = pre ++ post ∧ res.used = k + pre.length ∧
        (res.acc, res.sim) = reportAll S s acc (pre.filter (fun a => decide (a ∉ ds))) ∧
        (∀ x, x ∈ res.ds ↔ x ∈ ds ∨ (x ∈ pre ∧ S.done s x = true)) ∧
        (res.allDone = true →
          (∀ b ∈ pre, b ∈ ds ∨ S.done s b = true) ∧ ∀ b ∈ S.agents, b ∈ res.ds) ∧
        (res.allDone = false → ∃ pre' live, pre = pre' ++ [live] ∧ live ∉ ds ∧
          S.done s live = false ∧ (∀ b ∈ pre', b ∈ ds ∨ S.done s b = true)) := by
  intro rot
  induction rot with
  | nil => intro s ds acc k res _ h; simp [turnSearch] at h
  | cons a rest ih =>
    intro s ds acc k res hnd h
    have hnd' := List.nodup_cons.mp hnd
    unfold turnSearch at h
    split at h
    · -- already reported: skipped
      rename_i hads
      obtain ⟨pre, post, e, hu, hr, hds, ht, hf⟩ := ih s ds acc (k + 1) res hnd'.2 h
      refine ⟨a :: pre, post, by simp [e], by simp [hu]; omega, ?_, ?_, ?_, ?_⟩
      · simpa [hads] using hr
      · intro x; rw [hds x]
        constructor
        · rintro (h | ⟨h1, h2⟩)
          · exact Or.inl h
          · exact Or.inr ⟨List.mem_cons_of_mem _ h1, h2⟩
        · rintro (h | ⟨h1, h2⟩)
          · exact Or.inl h
          · rcases List.mem_cons.mp h1 with rfl | h1
            · exact Or.inl hads
            · exact Or.inr ⟨h1, h2⟩
      · intro hT
        obtain ⟨h1, h2⟩ := ht hT
        refine ⟨?_, h2⟩
        intro b hb
        rcases List.mem_cons.mp hb with rfl | hb
        · exact Or.inl hads
        · exact h1 b hb
      · intro hF
        obtain ⟨pre', live, e', h1, h2, h3⟩ := hf hF
        refine ⟨a :: pre', live, by simp [e'], h1, h2, ?_⟩
        intro b hb
        rcases List.mem_cons.mp hb with rfl | hb
        · exact Or.inl hads
        · exact h3 b hb
    · rename_i hads
      split at h
      · -- finishing now
        rename_i hd
        simp only [] at h
        split at h
        · rename_i hall
          simp only [Option.some.injEq] at h
          subst h
          refine ⟨[a], rest, by simp, by simp, ?_, ?_, ?_, ?_⟩
          · simp [hads, reportAll]
          · intro x
            simp only [List.mem_cons, List.mem_singleton, List.not_mem_nil, or_false]
            constructor
            · rintro (rfl | h)
              · exact Or.inr ⟨rfl, hd⟩
              · exact Or.inl h
            · rintro (h | ⟨rfl, _⟩)
              · exact Or.inr h
              · exact Or.inl rfl
          · intro _
            refine ⟨by intro b hb; simp at hb; subst hb; exact Or.inr hd, ?_⟩
            simpa [List.all_eq_true] using hall
          · intro hF; simp at hF
        · rename_i hall
          have hv := report1_view hS s acc a
          obtain ⟨pre, post, e, hu, hr, hds, ht, hf⟩ :=
            ih (report1 S s acc a).2 (a :: ds) (report1 S s acc a).1 (k + 1) res hnd'.2 h
          have hapre : a ∉ pre := fun hx => hnd'.1 (by rw [e]; exact List.mem_append_left _ hx)
          refine ⟨a :: pre, post, by simp [e], by simp [hu]; omega, ?_, ?_, ?_, ?_⟩
          · rw [hr, filter_notin_cons_of_notin a ds pre hapre]
            simp [hads, reportAll]
          · intro x; rw [hds x]
            simp only [List.mem_cons, hv.1]
            constructor
            · rintro ((rfl | h) | ⟨h1, h2⟩)
              · exact Or.inr ⟨Or.inl rfl, hd⟩
              · exact Or.inl h
              · exact Or.inr ⟨Or.inr h1, h2⟩
            · rintro (h | ⟨rfl | h1, h2⟩)
              · exact Or.inl (Or.inr h)
              · exact Or.inl (Or.inl rfl)
              · exact Or.inr ⟨h1, h2⟩
          · intro hT
            obtain ⟨h1, h2⟩ := ht hT
            refine ⟨?_, h2⟩
            intro b hb
            rcases List.mem_cons.mp hb with rfl | hb
            · exact Or.inr hd
            · rcases h1 b hb with h' | h'
              · rcases List.mem_cons.mp h' with rfl | h''
                · exact Or.inr hd
                · exact Or.inl h''
              · exact Or.inr (by rw [← hv.1]; exact h')
          · intro hF
            obtain ⟨pre', live, e', h1, h2, h3⟩ := hf hF
            refine ⟨a :: pre', live, by simp [e'], fun hx => h1 (List.mem_cons_of_mem _ hx),
              by rw [← hv.1]; exact h2, ?_⟩
            intro b hb
            rcases List.mem_cons.mp hb with rfl | hb
            · exact Or.inr hd
            · rcases h3 b hb with h' | h'
              · rcases List.mem_cons.mp h' with rfl | h''
                · exact Or.inr hd
                · exact Or.inl h''
              · exact Or.inr (by rw [← hv.1]; exact h')
      · -- live agent found
        rename_i hd
        simp only [Option.some.injEq] at h
        subst h
        refine ⟨[a], rest, by simp, by simp, ?_, ?_, ?_, ?_⟩
        · simp [hads, reportAll]
        · intro x
          simp only [List.mem_singleton]
          constructor
          · intro h; exact Or.inl h
          · rintro (h | ⟨rfl, h2⟩)
            · exact h
            · exact absurd h2 hd
        · intro hT; simp at hT
        · intro _
          exact ⟨[], a, by simp, hads, by simpa using hd, by simp⟩

end Abmarl

namespace Abmarl
variable {σ α ω ι : Type}

theorem dynLoop_spec {S : SimIface σ α ω ι} (hS : Lawful S) :
    ∀ (nom : List Aid) (s : σ) (ds : List Aid) (acc : Acc ω ι),
      nom.Nodup → (¬ ∀ b ∈ S.agents, b ∈ ds) →
      ∃ pre post, nom = pre ++ post ∧
        ((dynLoop S nom s ds acc).acc, (dynLoop S nom s ds acc).sim) =
          reportAll S s acc (pre.filter (fun a => decide (a ∉ ds))) ∧
        (∀ x, x ∈ (dynLoop S nom s ds acc).ds ↔ x ∈ ds ∨ (x ∈ pre ∧ S.done s x = true)) ∧
        ((dynLoop S nom s ds acc).allDone = true → ∀ b ∈ S.agents, b ∈ (dynLoop S nom s ds acc).ds) ∧
        ((dynLoop S nom s ds acc).allDone = false →
          post = [] ∧ ¬ ∀ b ∈ S.agents, b ∈ (dynLoop S nom s ds acc).ds) := by
  intro nom
  induction nom with
  | nil =>
    intro s ds acc _ hna
    exact ⟨[], [], by simp, by simp [dynLoop, reportAll], by simp [dynLoop], by simp [dynLoop],
      by simp only [dynLoop]; exact fun _ => ⟨trivial, hna⟩⟩
  | cons a rest ih =>
    intro s ds acc hnd hna
    have hnd' := List.nodup_cons.mp hnd
    by_cases hads : a ∈ ds
    · obtain ⟨pre, post, e, hr, hds, ht, hf⟩ := ih s ds acc hnd'.2 hna
      have hE : dynLoop S (a :: rest) s ds acc = dynLoop S rest s ds acc := by
        simp [dynLoop, hads]
      rw [hE]
      refine ⟨a :: pre, post, by simp [e], by simpa [hads] using hr, ?_, ht, hf⟩
      intro x; rw [hds x]
      constructor
      · rintro (h | ⟨h1, h2⟩)
        · exact Or.inl h
        · exact Or.inr ⟨List.mem_cons_of_mem _ h1, h2⟩
      · rintro (h | ⟨h1, h2⟩)
        · exact Or.inl h
        · rcases List.mem_cons.mp h1 with rfl | h1
          · exact Or.inl hads
          · exact Or.inr ⟨h1, h2⟩
    · by_cases hd : S.done s a = true
      · by_cases hall : S.agents.all (fun b => decide (b ∈ a :: ds)) = true
        · have hE : dynLoop S (a :: rest) s ds acc =
              ⟨(report1 S s acc a).1, (report1 S s acc a).2, a :: ds, true, 0⟩ := by
            rw [dynLoop, if_neg hads, if_pos hd]
            simp only []
            rw [if_pos hall]
          rw [hE]
          refine ⟨[a], rest, by simp, by simp [hads, reportAll], ?_, ?_, by simp⟩
          · intro x
            simp only [List.mem_cons, List.not_mem_nil, or_false]
            constructor
            · rintro (rfl | h)
              · exact Or.inr ⟨rfl, hd⟩
              · exact Or.inl h
            · rintro (h | ⟨rfl, _⟩)
              · exact Or.inr h
              · exact Or.inl rfl
          · intro _
            simpa [List.all_eq_true] using hall
        · have hE : dynLoop S (a :: rest) s ds acc =
              dynLoop S rest (report1 S s acc a).2 (a :: ds) (report1 S s acc a).1 := by
            rw [dynLoop, if_neg hads, if_pos hd]
            simp only []
            rw [if_neg hall]
          rw [hE]
          have hv := report1_view hS s acc a
          have hna' : ¬ ∀ b ∈ S.agents, b ∈ a :: ds := by
            simpa [List.all_eq_true] using hall
          obtain ⟨pre, post, e, hr, hds, ht, hf⟩ :=
            ih (report1 S s acc a).2 (a :: ds) (report1 S s acc a).1 hnd'.2 hna'
          have hapre : a ∉ pre := fun hx => hnd'.1 (by rw [e]; exact List.mem_append_left _ hx)
          refine ⟨a :: pre, post, by simp [e], ?_, ?_, ht, hf⟩
          · rw [hr, filter_notin_cons_of_notin a ds pre hapre]
            simp [hads, reportAll]
          · intro x; rw [hds x]
            simp only [List.mem_cons, hv.1]
            constructor
            · rintro ((rfl | h) | ⟨h1, h2⟩)
              · exact Or.inr ⟨Or.inl rfl, hd⟩
              · exact Or.inl h
              · exact Or.inr ⟨Or.inr h1, h2⟩
            · rintro (h | ⟨rfl | h1, h2⟩)
              · exact Or.inl (Or.inr h)
              · exact Or.inl (Or.inl rfl)
              · exact Or.inr ⟨h1, h2⟩
      · have hE : dynLoop S (a :: rest) s ds acc =
            dynLoop S rest (report1 S s acc a).2 ds (report1 S s acc a).1 := by
          rw [dynLoop, if_neg hads, if_neg hd]
        rw [hE]
        have hv := report1_view hS s acc a
        obtain ⟨pre, post, e, hr, hds, ht, hf⟩ :=
          ih (report1 S s acc a).2 ds (report1 S s acc a).1 hnd'.2 hna
        refine ⟨a :: pre, post, by simp [e], ?_, ?_, ht, hf⟩
        · rw [hr]; simp [hads, reportAll]
        · intro x; rw [hds x]
          simp only [List.mem_cons, hv.1]
          constructor
          · rintro (h | ⟨h1, h2⟩)
            · exact Or.inl h
            · exact Or.inr ⟨Or.inr h1, h2⟩
          · rintro (h | ⟨rfl | h1, h2⟩)
            · exact Or.inl h
            · exact absurd h2 hd
            · exact Or.inr ⟨h1, h2⟩

end Abmarl

namespace Abmarl
variable {σ α ω ι : Type}

/-! ### all-step reads -/

theorem readObs_spec {S : SimIface σ α ω ι} (hS : Lawful S) :
    ∀ (l : List Aid) (s : σ),
      keys (readObs S s l).1 = l ∧ SameView S s (readObs S s l).2 ∧
      ∀ b, S.pending (readObs S s l).2 b = S.pending s b
  | [], s => by simp [readObs, keys, SameView]
  | a :: as, s => by
    obtain ⟨h1, h2, h3⟩ := readObs_spec hS as (S.obs s a).2
    refine ⟨by simp [readObs, keys] at h1 ⊢; exact h1, ?_, ?_⟩
    · have : SameView S s (S.obs s a).2 := ⟨hS.obs_done s a, hS.obs_allDone s a, hS.obs_next s a⟩
      exact this.trans h2
    · intro b; simp only [readObs]; rw [h3 b, hS.obs_pending]

theorem readRewards_spec {S : SimIface σ α ω ι} (hS : Lawful S) :
    ∀ (l : List Aid) (s : σ), l.Nodup →
      (readRewards S s l).1 = l.map (fun a => (a, S.pending s a)) ∧
      SameView S s (readRewards S s l).2 ∧
      ∀ b, S.pending (readRewards S s l).2 b = if b ∈ l then 0 else S.pending s b
  | [], s, _ => by simp [readRewards, SameView]
  | a :: as, s, hnd => by
    have hnd' := List.nodup_cons.mp hnd
    obtain ⟨h1, h2, h3⟩ := readRewards_spec hS as (S.reward s a).2 hnd'.2
    refine ⟨?_, ?_, ?_⟩
    · simp only [readRewards, List.map_cons, h1, hS.rew_val]
      congr 1
      apply List.map_congr_left
      intro b hb
      have : b ≠ a := fun h => hnd'.1 (h ▸ hb)
      simp [hS.rew_pending, this]
    · have : SameView S s (S.reward s a).2 := ⟨hS.rew_done s a, hS.rew_allDone s a, hS.rew_next s a⟩
      exact this.trans h2
    · intro b; simp only [readRewards]; rw [h3 b, hS.rew_pending]
      by_cases hb : b ∈ as <;> by_cases hba : b = a <;> simp [hb, hba]

/-! ### small list facts -/

theorem lookup_map_self {β : Type} (f : Aid → β) (l : List Aid) (a : Aid) :
    (l.map (fun x => (x, f x))).lookup a = if a ∈ l then some (f a) else none := by
  induction l with
  | nil => simp
  | cons x xs ih =>
    simp only [List.map_cons, List.lookup_cons, List.mem_cons]
    by_cases h : a = x
    · subst h; simp
    · have : (a == x) = false := by simpa using h
      simp [this, ih, h]

theorem getD_map_range {β : Type} (f : Nat → β) (n a : Nat) (d : β) (h : a < n) :
    ((List.range n).map f).getD a d = f a := by
  simp [List.getD, h]

theorem mem_rotate {β : Type} (l : List β) (k : Nat) (x : β) : x ∈ rotate l k ↔ x ∈ l := by
  unfold rotate
  rw [List.mem_append]
  constructor
  · rintro (h | h)
    · exact List.mem_of_mem_drop h
    · exact List.mem_of_mem_take h
  · intro h
    rw [← List.take_append_drop k l] at h
    rcases List.mem_append.mp h with h | h
    · exact Or.inr h
    · exact Or.inl h

theorem nodup_rotate {β : Type} (l : List β) (k : Nat) (h : l.Nodup) : (rotate l k).Nodup := by
  unfold rotate
  have hp : (l.drop k ++ l.take k).Perm l := by
    have := List.perm_append_comm (l₁ := l.drop k) (l₂ := l.take k)
    rw [List.take_append_drop] at this
    exact this
  exact hp.nodup_iff.mpr h

theorem getElem?_rotate {β : Type} (l : List β) (k j : Nat) (hk : k < l.length) (hj : j < l.length) :
    (rotate l k)[j]? = l[(k + j) % l.length]? := by
  unfold rotate
  by_cases h : j < l.length - k
  · rw [List.getElem?_append_left (by simp; omega)]
    rw [List.getElem?_drop, Nat.mod_eq_of_lt (by omega)]
  · rw [List.getElem?_append_right (by simp; omega)]
    simp only [List.length_drop]
    rw [List.getElem?_take_of_lt (by omega)]
    congr 1
    have : k + j = l.length + (j - (l.length - k)) := by omega
    rw [this, Nat.add_mod_left, Nat.mod_eq_of_lt (by omega)]

theorem getElem_cons_eraseIdx_perm' {β : Type} : ∀ (l : List β) (i : Nat) (h : i < l.length),
    (l[i] :: l.eraseIdx i).Perm l
  | x :: xs, 0, _ => by simp
  | x :: xs, i + 1, h => by
    have h' : i < xs.length := by simpa using h
    simp only [List.getElem_cons_succ, List.eraseIdx_cons_succ]
    exact (List.Perm.swap _ _ _).trans (List.Perm.cons _ (getElem_cons_eraseIdx_perm' xs i h'))

theorem shuffleFuel_perm {β : Type} : ∀ (k : Nat) (l : List β) (t : Tape), (shuffleFuel k l t).1.Perm l
  | 0, l, t => by simp [shuffleFuel]
  | k + 1, [], t => by simp [shuffleFuel]
  | k + 1, x :: xs, t => by
    simp only [shuffleFuel]
    have hi : t.headD 0 % (xs.length + 1) < (x :: xs).length := by
      simp; exact Nat.mod_lt _ (by omega)
    have ih := shuffleFuel_perm k ((x :: xs).eraseIdx (t.headD 0 % (xs.length + 1))) t.tail
    refine (List.Perm.cons _ ih).trans ?_
    have hg : (x :: xs).getD (t.headD 0 % (xs.length + 1)) x = (x :: xs)[t.headD 0 % (xs.length + 1)] := by
      rw [List.getD_eq_getElem?_getD, List.getElem?_eq_getElem hi]; rfl
    rw [hg]
    exact getElem_cons_eraseIdx_perm' _ _ hi

theorem shuffle_perm {β : Type} (l : List β) (t : Tape) : (shuffle l t).1.Perm l :=
  shuffleFuel_perm _ _ _

theorem permOf_of_perm [DecidableEq α] {a b : List (Aid × α)} (h : a.Perm b) : permOf a b = true := by
  unfold permOf
  simp only [Bool.and_eq_true, beq_iff_eq, List.all_eq_true]
  exact ⟨⟨h.length_eq, fun x _ => h.count_eq x⟩, fun x _ => h.count_eq x⟩

end Abmarl
