import Abmarl.Spec.Observers
import Abmarl.Lemmas.MaskTable
import Mathlib.Tactic.Linarith
/-!
# C09 lemmas, part 1: arrays, the tape-threading loop, the window embedding, the mask link

* `tab` / `at2` / `specTab` — arrays as lists of rows; `specTab_iff` is the Prop reading `TabP`;
* `scanM_ok`, `convolve_ok` — the double loop returns, **for every tape**, an array each entry
  of which was produced by the cell function on *some* tape: a per-cell fact that holds for all
  tapes therefore holds for every entry;
* `window_embedding` — entry `[i, j]` of `local_grid` is `None` iff `pos + (i−R, j−R)` lies
  outside the grid and is that grid cell otherwise (clipping at each of the four borders);
  `paste_embedding` — the same arithmetic for the absolute observer's paste;
* `at2_maskFor` — the mask used by the observers is C10's `maskOf`, hence, by
  `Mask.cellAt_maskOf_spec`, entry `[i, j]` is `!hiddenFrom …` (the specification's rule).
-/
namespace Abmarl
namespace Observers
open World

/-! ## Arrays -/

/-- Prop reading of `specTab` -/
def TabP {β : Type} (n m : Nat) (P : Nat → Nat → β → Prop) (g : List (List β)) : Prop :=
  g.length = n ∧ ∀ i < n, ∃ row, g[i]? = some row ∧ row.length = m ∧
    ∀ j < m, ∃ v, row[j]? = some v ∧ P i j v

theorem specTab_iff {β : Type} (n m : Nat) (p : Nat → Nat → β → Bool) (g : List (List β)) :
    specTab n m p g = true ↔ TabP n m (fun i j v => p i j v = true) g := by
  unfold specTab TabP
  simp only [Bool.and_eq_true, beq_iff_eq, List.all_eq_true, List.mem_range]
  constructor
  · rintro ⟨hl, h⟩
    refine ⟨hl, fun i hi => ?_⟩
    have hi' := h i hi
    cases hr : g[i]? with
    | none => rw [hr] at hi'; cases hi'
    | some row =>
      rw [hr] at hi'
      simp only [Bool.and_eq_true, beq_iff_eq, List.all_eq_true, List.mem_range] at hi'
      refine ⟨row, rfl, hi'.1, fun j hj => ?_⟩
      have hj' := hi'.2 j hj
      cases hv : row[j]? with
      | none => rw [hv] at hj'; cases hj'
      | some v => rw [hv] at hj'; exact ⟨v, rfl, hj'⟩
  · rintro ⟨hl, h⟩
    refine ⟨hl, fun i hi => ?_⟩
    obtain ⟨row, hr, hm, hrow⟩ := h i hi
    rw [hr]
    simp only [Bool.and_eq_true, beq_iff_eq, List.all_eq_true, List.mem_range]
    refine ⟨hm, fun j hj => ?_⟩
    obtain ⟨v, hv, hp⟩ := hrow j hj
    rw [hv]; exact hp

theorem TabP_mono {β : Type} {n m : Nat} {P Q : Nat → Nat → β → Prop} {g : List (List β)}
    (h : TabP n m P g) (hPQ : ∀ i < n, ∀ j < m, ∀ v, P i j v → Q i j v) : TabP n m Q g := by
  refine ⟨h.1, fun i hi => ?_⟩
  obtain ⟨row, hr, hm, hrow⟩ := h.2 i hi
  refine ⟨row, hr, hm, fun j hj => ?_⟩
  obtain ⟨v, hv, hp⟩ := hrow j hj
  exact ⟨v, hv, hPQ i hi j hj v hp⟩

theorem TabP_tab {β : Type} (n m : Nat) (f : Nat → Nat → β) (P : Nat → Nat → β → Prop)
    (h : ∀ i < n, ∀ j < m, P i j (f i j)) : TabP n m P (tab n m f) := by
  unfold tab
  refine ⟨by simp, fun i hi => ⟨(List.range m).map fun j => f i j, by simp [hi], by simp,
    fun j hj => ⟨f i j, by simp [hj], h i hi j hj⟩⟩⟩

theorem at2_tab {β : Type} (n m : Nat) (f : Nat → Nat → β) (i j : Nat) (d : β) (hi : i < n) (hj : j < m) :
    at2 (tab n m f) i j d = f i j := by
  unfold at2 tab
  simp [List.getD_eq_getElem?_getD, hi, hj]

/-- an entry of an array that satisfies `TabP` -/
theorem at2_of_TabP {β : Type} {n m : Nat} {P : Nat → Nat → β → Prop} {g : List (List β)}
    (h : TabP n m P g) (i j : Nat) (d : β) (hi : i < n) (hj : j < m) : P i j (at2 g i j d) := by
  obtain ⟨row, hr, _, hrow⟩ := h.2 i hi
  obtain ⟨v, hv, hp⟩ := hrow j hj
  unfold at2
  simp only [List.getD_eq_getElem?_getD, hr, Option.getD_some, hv]
  exact hp

theorem at2_eq_cellAt (g : List (List Bool)) (i j : Nat) (d : Bool) :
    at2 g i j d = (Mask.cellAt g i j).getD d := by
  unfold at2 Mask.cellAt
  simp only [List.getD_eq_getElem?_getD]
  cases g[i]? with
  | none => simp
  | some row => simp

/-! ## The loop that threads the tape -/

theorem scanM_ok {α β : Type} (f : α → Tape → Except GErr (β × Tape)) (P : α → β → Prop) (l : List α)
    (h : ∀ x ∈ l, ∀ t, ∃ y t', f x t = .ok (y, t') ∧ P x y) :
    ∀ t, ∃ ys t', scanM f l t = .ok (ys, t') ∧ ys.length = l.length ∧
      ∀ k (hk : k < l.length), ∃ y, ys[k]? = some y ∧ P l[k] y := by
  induction l with
  | nil => intro t; exact ⟨[], t, rfl, rfl, fun k hk => absurd hk (by simp)⟩
  | cons x xs ih =>
    intro t
    obtain ⟨y, t1, hy, hPy⟩ := h x (by simp) t
    obtain ⟨ys, t2, hys, hlen, hall⟩ := ih (fun z hz => h z (by simp [hz])) t1
    refine ⟨y :: ys, t2, by simp only [scanM, hy, hys], by simp [hlen], fun k hk => ?_⟩
    cases k with
    | zero => exact ⟨y, by simp, by simpa using hPy⟩
    | succ k =>
      obtain ⟨z, hz, hPz⟩ := hall k (by simpa using hk)
      exact ⟨z, by simpa using hz, by simpa using hPz⟩

/-- **the double loop**: if the cell function returns, on every tape, a value satisfying `P i j`,
then on every tape the loop returns an array satisfying `P` entry by entry -/
theorem convolve_ok (R : Nat) (f : Nat → Nat → Tape → Except GErr (Int × Tape))
    (P : Nat → Nat → Int → Prop)
    (h : ∀ i < 2*R+1, ∀ j < 2*R+1, ∀ t, ∃ v t', f i j t = .ok (v, t') ∧ P i j v) :
    ∀ t, ∃ g t', convolve R f t = .ok (g, t') ∧ TabP (2*R+1) (2*R+1) P g := by
  intro t
  unfold convolve
  have hrow : ∀ i ∈ List.range (2*R+1), ∀ t, ∃ row t',
      scanM (fun j => f i j) (List.range (2*R+1)) t = .ok (row, t') ∧
        (row.length = 2*R+1 ∧ ∀ j < 2*R+1, ∃ v, row[j]? = some v ∧ P i j v) := by
    intro i hi t
    obtain ⟨row, t', hs, hlen, hall⟩ := scanM_ok (fun j => f i j) (fun j v => P i j v) (List.range (2*R+1))
      (fun j hj t => h i (List.mem_range.mp hi) j (List.mem_range.mp hj) t) t
    refine ⟨row, t', hs, by simpa using hlen, fun j hj => ?_⟩
    obtain ⟨v, hv, hp⟩ := hall j (by simpa using hj)
    exact ⟨v, hv, by simpa using hp⟩
  obtain ⟨g, t', hs, hlen, hall⟩ := scanM_ok _ _ _ hrow t
  refine ⟨g, t', hs, by simpa using hlen, fun i hi => ?_⟩
  obtain ⟨row, hr, hp⟩ := hall i (by simpa using hi)
  simp only [List.getElem_range] at hp
  exact ⟨row, hr, hp.1, hp.2⟩

/-! ## The random choice returns a member (for every tape) -/

theorem choice_mem {β : Type} (l : List β) (t : Tape) (hl : l ≠ []) :
    ∃ y, Oracle.choice l t = (some y, t.tail) ∧ y ∈ l := by
  cases l with
  | nil => exact absurd rfl hl
  | cons x xs =>
    refine ⟨(x :: xs).getD (t.headD 0 % (xs.length + 1)) x, rfl, ?_⟩
    have hlt : t.headD 0 % (xs.length + 1) < (x :: xs).length := by
      simpa using Nat.mod_lt _ (Nat.succ_pos _)
    rw [List.getD_eq_getElem?_getD, List.getElem?_eq_getElem hlt, Option.getD_some]
    exact List.getElem_mem hlt

theorem pick_ok (w : World) (occ : List Aid) (t : Tape) (h : occ ≠ []) :
    ∃ v t', pick w occ t = .ok (v, t') ∧ ∃ b ∈ occ, w.encOf b = v := by
  obtain ⟨y, hy, hmem⟩ := choice_mem (occ.map w.encOf) t (by simpa using h)
  refine ⟨y, t.tail, by simp only [pick, hy], ?_⟩
  simpa using hmem

/-! ## The window embedding -/

theorem inGrid_iff (w : World) (p : Pos) :
    w.inGrid p = true ↔ 0 ≤ p.1 ∧ p.1 < w.rows ∧ 0 ≤ p.2 ∧ p.2 < w.cols := by
  simp only [inGrid, Bool.and_eq_true, decide_eq_true_eq, and_assoc]

/-- **window embedding.**  For a viewer standing inside the grid, entry `[i, j]` of the
`(2R+1)²` local grid is `None` exactly when the grid coordinate `pos + (i − R, j − R)` falls
outside the grid — beyond the top, bottom, left or right border — and otherwise it is the
content of exactly that grid cell.  (The slice arithmetic of `create_grid_and_mask`.) -/
theorem window_embedding (w : World) (p : Pos) (R : Nat) (i j : Nat)
    (hp : w.inGrid p = true) (hi : i < 2*R+1) (hj : j < 2*R+1) :
    localCell w p R i j =
      if w.inGrid (winPos p R i j) = true then some (w.cell (winPos p R i j)) else none := by
  rw [inGrid_iff] at hp
  obtain ⟨p1, p2, p3, p4⟩ := hp
  unfold localCell clip
  simp only []
  by_cases hin : w.inGrid (winPos p R i j) = true
  · rw [if_pos hin]
    rw [inGrid_iff] at hin
    simp only [winPos] at hin
    obtain ⟨q1, q2, q3, q4⟩ := hin
    rw [if_pos (by omega)]
    congr 2
    simp only [winPos]
    exact Prod.ext (by simp only []; omega) (by simp only []; omega)
  · rw [if_neg hin]
    rw [inGrid_iff] at hin
    simp only [winPos] at hin
    rw [if_neg (by omega)]

/-- the local grid, entry by entry -/
theorem at2_localGrid (w : World) (a : Aid) (R : Nat) (i j : Nat)
    (hp : w.inGrid (w.stOf a).pos = true) (hi : i < 2*R+1) (hj : j < 2*R+1) :
    at2 (localGrid w a R) i j none =
      if w.inGrid (winPos (w.stOf a).pos R i j) = true then some (w.cell (winPos (w.stOf a).pos R i j))
      else none := by
  unfold localGrid
  rw [at2_tab _ _ _ _ _ _ hi hj, window_embedding w _ R i j hp hi hj]

/-! ## The mask is C10's mask -/

theorem hiddenBySpec_blockersOf (w : World) (a : Aid) (R : Nat) (r c : Int) :
    Mask.hiddenBySpec R (blockersOf w a) r c = hiddenFrom w a R r c := by
  unfold Mask.hiddenBySpec blockersOf hiddenFrom allAgents offsetOf
  rw [List.any_map]
  rfl

/-- entry `[i, j]` of the mask the observers use is "not hidden by the rule of C10" -/
theorem at2_maskFor (w : World) (a : Aid) (R : Nat) (i j : Nat) (hi : i < 2*R+1) (hj : j < 2*R+1) :
    at2 (maskFor w a R) i j false = !hiddenFrom w a R ((i : Int) - (R : Int)) ((j : Int) - (R : Int)) := by
  unfold maskFor
  rw [at2_eq_cellAt, Mask.cellAt_maskOf_spec R _ i j hi hj, hiddenBySpec_blockersOf]
  rfl

end Observers
end Abmarl
