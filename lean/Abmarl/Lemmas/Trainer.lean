import Abmarl.Spec.Trainer
import Abmarl.Lemmas.ManagersInv
/-!
# Lemmas behind C16: record dictionaries and the episode loop invariant
-/
namespace Abmarl
variable {σ α ω ι : Type}

theorem lookup_appendTo {β : Type} (d : List (Aid × List β)) (k a : Aid) (v : β) :
    (appendTo d k v).lookup a =
      if a = k then some ((d.lookup a).getD [] ++ [v]) else d.lookup a := by
  induction d with
  | nil =>
    by_cases h : a = k
    · subst h; simp [appendTo, List.lookup]
    · have : (a == k) = false := by simpa using h
      simp [appendTo, List.lookup, this, h]
  | cons x xs ih =>
    obtain ⟨k', l⟩ := x
    by_cases hk : k' = k
    · subst hk
      by_cases h : a = k'
      · subst h; simp [appendTo, List.lookup]
      · have : (a == k') = false := by simpa using h
        simp [appendTo, List.lookup, this, h]
    · by_cases h : a = k'
      · subst h
        have hak : a ≠ k := hk
        simp [appendTo, hk, List.lookup, hak]
      · have h' : (a == k') = false := by simpa using h
        simp only [appendTo, hk, if_false, List.lookup, h']
        exact ih

theorem pick_cons {β : Type} (p : Aid × β) (l : List (Aid × β)) (a : Aid) :
    pick (p :: l) a = (if p.1 = a then [p.2] else []) ++ pick l a := by
  unfold pick
  by_cases h : p.1 = a
  · simp [List.filter_cons, h]
  · have : (p.1 == a) = false := by simpa using h
    simp [List.filter_cons, this, h]

theorem lookup_appendAll {β : Type} (kvs : List (Aid × β)) :
    ∀ (d : List (Aid × List β)) (a : Aid),
      (appendAll d kvs).lookup a =
        if pick kvs a = [] then d.lookup a else some ((d.lookup a).getD [] ++ pick kvs a) := by
  induction kvs with
  | nil => intro d a; simp [appendAll, pick]
  | cons p ps ih =>
    intro d a
    have hfold : appendAll d (p :: ps) = appendAll (appendTo d p.1 p.2) ps := by
      simp [appendAll]
    rw [hfold, ih, lookup_appendTo, pick_cons]
    by_cases hpa : p.1 = a
    · subst hpa
      by_cases hps : pick ps p.1 = []
      · simp [hps]
      · simp [hps]
    · have : a ≠ p.1 := fun e => hpa e.symm
      simp [hpa, this]

/-- appending the picks keeps `lookup = recOf (everything so far)` -/
theorem lookup_appendAll_recOf {β : Type} (d : List (Aid × List β)) (kvs : List (Aid × β)) (a : Aid)
    (x : List β) (h : d.lookup a = recOf x) :
    (appendAll d kvs).lookup a = recOf (x ++ pick kvs a) := by
  rw [lookup_appendAll, h]
  unfold recOf
  by_cases hp : pick kvs a = []
  · simp [hp]
  · cases x with
    | nil => simp [hp]
    | cons y ys => simp [hp]

theorem keys_appendTo {β : Type} (d : List (Aid × List β)) (k : Aid) (v : β) :
    ∀ a ∈ keys (appendTo d k v), a ∈ keys d ∨ a = k := by
  induction d with
  | nil => intro a ha; simp [appendTo, keys] at ha; exact Or.inr ha
  | cons x xs ih =>
    obtain ⟨k', l⟩ := x
    intro a ha
    by_cases hk : k' = k
    · simp only [appendTo, hk, if_true, keys, List.map_cons, List.mem_cons] at ha ⊢
      rcases ha with h | h
      · exact Or.inr h
      · exact Or.inl (Or.inr h)
    · simp only [appendTo, hk, if_false, keys, List.map_cons, List.mem_cons] at ha ⊢
      rcases ha with h | h
      · exact Or.inl (Or.inl h)
      · rcases ih a h with h' | h'
        · exact Or.inl (Or.inr h')
        · exact Or.inr h'

theorem keys_appendAll {β : Type} (kvs : List (Aid × β)) :
    ∀ (d : List (Aid × List β)), ∀ a ∈ keys (appendAll d kvs), a ∈ keys d ∨ a ∈ keys kvs := by
  induction kvs with
  | nil => intro d a ha; exact Or.inl (by simpa [appendAll] using ha)
  | cons p ps ih =>
    intro d a ha
    have hfold : appendAll d (p :: ps) = appendAll (appendTo d p.1 p.2) ps := by simp [appendAll]
    rw [hfold] at ha
    rcases ih _ a ha with h | h
    · rcases keys_appendTo d p.1 p.2 a h with h' | h'
      · exact Or.inl h'
      · exact Or.inr (by simp [keys, h'])
    · exact Or.inr (by simp only [keys, List.map_cons, List.mem_cons]; exact Or.inr h)

theorem mem_of_lookup {β : Type} (l : List (Aid × β)) (a : Aid) (v : β) (h : l.lookup a = some v) :
    (a, v) ∈ l := by
  induction l with
  | nil => simp at h
  | cons p ps ih =>
    by_cases hp : a = p.1
    · have : (a == p.1) = true := by simpa using hp
      simp only [List.lookup, this, Option.some.injEq] at h
      subst h; subst hp; simp
    · have : (a == p.1) = false := by simpa using hp
      simp only [List.lookup, this] at h
      exact List.mem_cons_of_mem _ (ih h)

/-- with unique keys an agent is picked at most once, and `lookup` finds exactly that entry -/
theorem pick_of_nodup {β : Type} (l : List (Aid × β)) (hnd : (keys l).Nodup) (a : Aid) :
    pick l a = (match l.lookup a with | some v => [v] | none => []) := by
  induction l with
  | nil => simp [pick]
  | cons p ps ih =>
    have hnd0 : (p.1 :: keys ps).Nodup := hnd
    have hnd' := List.nodup_cons.mp hnd0
    rw [pick_cons]
    by_cases h : p.1 = a
    · subst h
      have hnot : pick ps p.1 = [] := by
        rw [ih hnd'.2]
        cases hl : ps.lookup p.1 with
        | none => rfl
        | some v =>
          exfalso; apply hnd'.1
          exact List.mem_map.mpr ⟨(p.1, v), mem_of_lookup ps p.1 v hl, rfl⟩
      simp [hnot, List.lookup]
    · have h' : (a == p.1) = false := by simpa using (fun e : a = p.1 => h e.symm)
      simp only [h, if_false, List.nil_append, List.lookup, h']
      exact ih hnd'.2

theorem pick_length_keys {β γ : Type} (l : List (Aid × β)) (l' : List (Aid × γ)) (h : keys l = keys l')
    (a : Aid) : (pick l a).length = (pick l' a).length := by
  have e1 : ∀ {δ : Type} (x : List (Aid × δ)), (pick x a).length = (keys x).count a := by
    intro δ x
    induction x with
    | nil => simp [pick, keys]
    | cons p ps ih =>
      rw [pick_cons]
      by_cases hp : p.1 = a
      · simp [hp, keys, ih] at *
      · have : (p.1 == a) = false := by simpa using hp
        simp [hp, keys, ih, this] at *
  rw [e1, e1, h]

end Abmarl

namespace Abmarl
variable {σ α ω ι : Type}

/-! ### the expected records when one more call is appended to the trace -/

theorem expObs_snoc (tr : List (Entry α ω ι)) (e : Entry α ω ι) (a : Aid) :
    expObs (tr ++ [e]) a = expObs tr a ++ eObs e a := by simp [expObs, List.flatMap_append]
theorem expRew_snoc (tr : List (Entry α ω ι)) (e : Entry α ω ι) (a : Aid) :
    expRew (tr ++ [e]) a = expRew tr a ++ eRew e a := by simp [expRew, List.flatMap_append]
theorem expDone_snoc (tr : List (Entry α ω ι)) (e : Entry α ω ι) (a : Aid) :
    expDone (tr ++ [e]) a = expDone tr a ++ eDone e a := by simp [expDone, List.flatMap_append]
theorem expAct_snoc (tr : List (Entry α ω ι)) (e : Entry α ω ι) (a : Aid) :
    expAct (tr ++ [e]) a = expAct tr a ++ eAct e a := by simp [expAct, List.flatMap_append]
theorem expAll_snoc (tr : List (Entry α ω ι)) (e : Entry α ω ι) :
    expAll (tr ++ [e]) = expAll tr ++ eAll e := by simp [expAll, List.flatMap_append]

/-- the relation between consecutive manager calls and the policy queries in between -/
def AsksOK (pmap : Aid → Nat) (tr : List (Entry α ω ι)) (qss : List (List (Query α ω))) : Prop :=
  ∀ j prev qs cur, tr[j]? = some prev → qss[j]? = some qs → tr[j + 1]? = some cur →
    qs.map (fun q => (q.agent, q.obs)) = liveOfEntry prev ∧ (∀ q ∈ qs, q.policy = pmap q.agent) ∧
    stepActs cur = qs.map (fun q => (q.agent, q.action))

theorem asksOK_snoc {pmap : Aid → Nat} {tr : List (Entry α ω ι)} {qss : List (List (Query α ω))}
    (h : AsksOK pmap tr qss) (hl : qss.length + 1 = tr.length) (last e : Entry α ω ι)
    (qs : List (Query α ω)) (hlast : tr.getLast? = some last)
    (hnew : qs.map (fun q => (q.agent, q.obs)) = liveOfEntry last ∧ (∀ q ∈ qs, q.policy = pmap q.agent) ∧
      stepActs e = qs.map (fun q => (q.agent, q.action))) :
    AsksOK pmap (tr ++ [e]) (qss ++ [qs]) := by
  intro j prev qs' cur h1 h2 h3
  by_cases hj : j + 1 < tr.length
  · have hj' : j < qss.length := by omega
    rw [List.getElem?_append_left (by omega)] at h1
    rw [List.getElem?_append_left hj'] at h2
    rw [List.getElem?_append_left hj] at h3
    exact h j prev qs' cur h1 h2 h3
  · have hjl : j < (tr ++ [e]).length := by
      rcases List.getElem?_eq_some_iff.mp h1 with ⟨hlt, _⟩; exact hlt
    have hj2 : j + 1 < (tr ++ [e]).length := by
      rcases List.getElem?_eq_some_iff.mp h3 with ⟨hlt, _⟩; exact hlt
    simp only [List.length_append, List.length_cons, List.length_nil] at hjl hj2
    have hje : j = qss.length := by omega
    subst hje
    have hprev : prev = last := by
      rw [List.getElem?_append_left (by omega)] at h1
      rw [List.getLast?_eq_getElem?] at hlast
      have : tr.length - 1 = qss.length := by omega
      rw [this] at hlast
      rw [h1] at hlast; exact Option.some.inj hlast
    have hqs : qs' = qs := by
      rw [List.getElem?_append_right (Nat.le_refl _)] at h2
      simpa using h2.symm
    have hcur : cur = e := by
      rw [List.getElem?_append_right (by omega)] at h3
      have : qss.length + 1 - tr.length = 0 := by omega
      rw [this] at h3
      simpa using h3.symm
    subst hprev; subst hqs; subst hcur
    exact hnew

end Abmarl

namespace Abmarl
variable {σ α ω ι : Type}

/-- what holds of the record dictionaries at every point of `generate_episode` -/
structure RecOK (n : Nat) (pmap : Aid → Nat) (r : EpRec α ω ι) : Prop where
  noErr : r.err = none
  shape : ∃ e0 es, r.trace = e0 :: es ∧ isResetE e0 = true ∧ ∀ e ∈ es, (stepOut? e).isSome = true
  qlen : r.queries.length + 1 = r.trace.length
  asks : AsksOK pmap r.trace r.queries
  recO : ∀ a, r.observations.lookup a = recOf (expObs r.trace a)
  recR : ∀ a, r.rewards.lookup a = recOf (expRew r.trace a)
  recD : ∀ a, r.dones.lookup a = recOf (expDone r.trace a)
  recA : ∀ a, r.actions.lookup a = recOf (expAct r.trace a)
  allD : r.allDones = expAll r.trace
  keysLt : ∀ a ∈ keys r.observations ++ keys r.rewards ++ keys r.dones ++ keys r.actions, a < n
  lens : ∀ a, (expRew r.trace a).length = (expDone r.trace a).length

/-- the loop invariant of `episodeLoop`, `j` iterations to go -/
structure LoopInv (S : SimIface σ α ω ι) (k : MKind) (n horizon : Nat) (pmap : Aid → Nat)
    (m : MState σ) (g : GSt) (obs : List (Aid × ω)) (r : EpRec α ω ι) (j : Nat) : Prop where
  recs : RecOK n pmap r
  inv : Inv S k m g
  started : g.started = true
  notOver : g.over = false
  budget : r.trace.length - 1 + j = horizon
  allFalse : ∀ b ∈ expAll r.trace, b = false
  doneShape : ∀ a, (a ∈ g.R → ∃ l, expDone r.trace a = l ++ [true] ∧ ∀ b ∈ l, b = false) ∧
                   (a ∉ g.R → ∀ b ∈ expDone r.trace a, b = false)
  obsLast : ∃ e, r.trace.getLast? = some e ∧ obs = liveOfEntry e
  obsOK : ∀ p ∈ obs, p.1 ∉ g.R ∧ (k = .dynamic ∨ S.learning p.1 = true) ∧ p.1 < n

/-- what holds of the returned episode -/
structure EpOK (n horizon : Nat) (pmap : Aid → Nat) (r : EpRec α ω ι) : Prop where
  recs : RecOK n pmap r
  stepsLe : r.trace.length - 1 ≤ horizon
  prefixFalse : ∀ b ∈ (expAll r.trace).dropLast, b = false
  stopReason : r.trace.length - 1 = horizon ∨ (expAll r.trace).getLast? = some true
  doneOne : ∀ a, ∀ b ∈ (expDone r.trace a).dropLast, b = false

theorem dropLast_all_false_of_shape {l : List Bool}
    (h : (∃ l', l = l' ++ [true] ∧ ∀ b ∈ l', b = false) ∨ (∀ b ∈ l, b = false)) :
    ∀ b ∈ l.dropLast, b = false := by
  rcases h with ⟨l', rfl, h'⟩ | h
  · simpa using h'
  · intro b hb; exact h b ((List.dropLast_subset _ hb))

theorem EpOK.of_loopInv_zero {S : SimIface σ α ω ι} {k : MKind} {n horizon : Nat} {pmap : Aid → Nat}
    {m : MState σ} {g : GSt} {obs : List (Aid × ω)} {r : EpRec α ω ι}
    (h : LoopInv S k n horizon pmap m g obs r 0) : EpOK n horizon pmap r where
  recs := h.recs
  stepsLe := by have := h.budget; omega
  prefixFalse := fun b hb => h.allFalse b ((List.dropLast_subset _ hb))
  stopReason := Or.inl (by have := h.budget; omega)
  doneOne := by
    intro a
    apply dropLast_all_false_of_shape
    by_cases ha : a ∈ g.R
    · exact Or.inl ((h.doneShape a).1 ha)
    · exact Or.inr ((h.doneShape a).2 ha)

end Abmarl

namespace Abmarl
variable {σ α ω ι : Type}

theorem askAll_obs (P : Policies α ω) (obs : List (Aid × ω)) :
    (askAll P obs).map (fun q => (q.agent, q.obs)) = obs := by
  simp [askAll, Function.comp_def]

theorem askAll_keys (P : Policies α ω) (obs : List (Aid × ω)) :
    keys ((askAll P obs).map fun q => (q.agent, q.action)) = keys obs := by
  simp [askAll, keys, Function.comp_def]

/-- the reported keys of a non-final accepted step are learning agents (managers that pre-mark
non-learning entities as done) -/
theorem c07_keys_learning {k : MKind} {n : Nat} {learning : Aid → Bool} {g : GSt}
    {e : Entry α ω ι} {o : Out ω ι} {acts : List (Aid × α)}
    (h : c07Entry k n learning g e = true) (hop : e.op = .step acts) (ho : e.res = .stepOk o)
    (hnf : o.allDone = false) (hk : k ≠ .dynamic) : ∀ a ∈ keys o.dones, learning a = true := by
  cases k with
  | dynamic => exact absurd rfl hk
  | allStep =>
    simp only [c07Entry, hop, ho, hnf, Bool.false_or, Bool.and_eq_true, sameSet, List.all_eq_true,
      decide_eq_true_eq] at h
    intro a ha
    have := h.1.1 a ha
    simp only [List.mem_filter, List.mem_range, decide_eq_true_eq] at this
    exact this.1.2
  | turnBased =>
    simp only [c07Entry, hop, ho, hnf, Bool.false_or, Bool.and_eq_true, beq_iff_eq] at h
    obtain ⟨pre, live, post, hrot, _, _, _, hd⟩ := turnExpect_shape h.1
    have hmemrot : ∀ a, a ∈ rotAfter ((List.range n).filter learning) g.holder → learning a = true := by
      intro a ha
      have : a ∈ (List.range n).filter learning := by
        unfold rotAfter at ha
        cases hh : g.holder with
        | none => simpa [hh] using ha
        | some x => rw [hh] at ha; exact (mem_rotate _ _ _).mp ha
      exact (List.mem_filter.mp this).2
    intro a ha
    rw [hd] at ha
    simp only [keys, List.map_append, List.map_map, List.mem_append, List.mem_map, List.mem_filter,
      Function.comp, List.map_cons, List.map_nil, List.mem_singleton] at ha
    rcases ha with ⟨x, ⟨hx, _⟩, rfl⟩ | rfl
    · exact hmemrot x (by rw [hrot]; exact List.mem_append_left _ hx)
    · exact hmemrot _ (by rw [hrot]; simp)

theorem episodeLoop_ok [DecidableEq α] {S : SimIface σ α ω ι} {k : MKind} (hW : WF S k)
    (P : Policies α ω) (horizon : Nat) :
    ∀ (j : Nat) (obs : List (Aid × ω)) (m : MState σ) (g : GSt) (r : EpRec α ω ι),
      LoopInv S k S.n horizon P.pmap m g obs r j →
      EpOK S.n horizon P.pmap (episodeLoop S k P j obs m r) := by
  intro j
  induction j with
  | zero => intro obs m g r h; simpa [episodeLoop] using EpOK.of_loopInv_zero h
  | succ j ih =>
    intro obs m g r h
    obtain ⟨qs, hqs⟩ : ∃ qs, qs = askAll P obs := ⟨_, rfl⟩
    obtain ⟨acts, hacts⟩ : ∃ acts, acts = qs.map (fun q => (q.agent, q.action)) := ⟨_, rfl⟩
    obtain ⟨step, hstep⟩ : ∃ step, step = runOp S k m (.step acts) := ⟨_, rfl⟩
    have hsound : OpSound S k m g (.step acts) :=
      op_sound hW m g (.step acts) (fun _ _ => h.inv) (fun _ _ => ⟨h.started, h.notOver⟩)
    obtain ⟨h01, h07, _, hinv'⟩ := hsound
    rw [← hstep] at h01 h07 hinv'
    have hop : step.1.op = .step acts := by rw [hstep]; exact runOp_op S k m _
    have h01' : c01Step k S.n S.learning m.shuffle g acts step.1 = true := by
      simpa [c01Entry, hop] using h01
    have hkeysacts : keys acts = keys obs := by rw [hacts, hqs]; exact askAll_keys P obs
    -- the step is accepted
    obtain ⟨out, hout⟩ : ∃ out, step.1.res = .stepOk out := by
      cases hr : step.1.res with
      | stepOk out => exact ⟨out, rfl⟩
      | resetOk o => simp [c01Step, hr] at h01'
      | err er =>
        exfalso
        obtain ⟨p, hp, hpp⟩ := c01Step_err_blocked h01' hr
        have hpk : p.1 ∈ keys obs := by rw [← hkeysacts]; exact List.mem_map.mpr ⟨p, hp, rfl⟩
        obtain ⟨q, hq, hqe⟩ := List.mem_map.mp hpk
        have hok := h.obsOK q hq
        rw [hqe] at hok
        rcases hpp with h1 | ⟨h1, h2⟩
        · exact hok.1 h1
        · rcases hok.2.1 with h3 | h3
          · exact h1 h3
          · rw [h3] at h2; cases h2
    have u := c01Step_unpack h01' hout
    obtain ⟨e0, es, htr, he0, hes⟩ := h.recs.shape
    obtain ⟨last, hlast, hobs⟩ := h.obsLast
    -- the record after storing this step's data
    obtain ⟨r2, hr2⟩ : ∃ r2 : EpRec α ω ι, r2 =
        { r with trace := r.trace ++ [step.1], queries := r.queries ++ [qs],
                 observations := appendAll r.observations out.obs,
                 rewards := appendAll r.rewards out.rewards,
                 actions := appendAll r.actions acts,
                 dones := appendAll r.dones out.dones,
                 allDones := r.allDones ++ [out.allDone] } := ⟨_, rfl⟩
    have eO : ∀ a, eObs step.1 a = pick out.obs a := by intro a; simp [eObs, hout]
    have eR : ∀ a, eRew step.1 a = pick out.rewards a := by intro a; simp [eRew, hout]
    have eD : ∀ a, eDone step.1 a = pick out.dones a := by intro a; simp [eDone, hout]
    have eA : ∀ a, eAct step.1 a = pick acts a := by intro a; simp [eAct, hout, stepActs, hop]
    have eAl : eAll step.1 = [out.allDone] := by simp [eAll, hout]
    have hpol : ∀ q ∈ qs, q.policy = P.pmap q.agent := by
      intro q hq
      rw [hqs] at hq
      simp only [askAll, List.mem_map] at hq
      obtain ⟨p, _, rfl⟩ := hq
      rfl
    have hasks : AsksOK P.pmap (r.trace ++ [step.1]) (r.queries ++ [qs]) :=
      asksOK_snoc h.recs.asks h.recs.qlen last step.1 qs hlast
        ⟨by rw [hqs, askAll_obs, hobs], hpol, by simp [stepActs, hop, hacts]⟩
    have hrec2 : RecOK S.n P.pmap r2 := by
      rw [hr2]
      refine {
        noErr := h.recs.noErr
        shape := ⟨e0, es ++ [step.1], by simp [htr], he0, ?_⟩
        qlen := by simp [h.recs.qlen]
        asks := hasks
        recO := fun a => by
          simp only [expObs_snoc, eO]; exact lookup_appendAll_recOf _ _ _ _ (h.recs.recO a)
        recR := fun a => by
          simp only [expRew_snoc, eR]; exact lookup_appendAll_recOf _ _ _ _ (h.recs.recR a)
        recD := fun a => by
          simp only [expDone_snoc, eD]; exact lookup_appendAll_recOf _ _ _ _ (h.recs.recD a)
        recA := fun a => by
          simp only [expAct_snoc, eA]; exact lookup_appendAll_recOf _ _ _ _ (h.recs.recA a)
        allD := by simp only [expAll_snoc, eAl, h.recs.allD]
        keysLt := ?_
        lens := fun a => by
          simp only [expRew_snoc, expDone_snoc, eR, eD, List.length_append, h.recs.lens a]
          rw [pick_length_keys out.rewards out.dones (by rw [u.keysR, u.keysD]) a] }
      · intro e he
        rcases List.mem_append.mp he with he | he
        · exact hes e he
        · simp only [List.mem_singleton] at he; subst he; simp [stepOut?, hop, hout]
      · intro a ha
        have hold := h.recs.keysLt
        simp only [List.mem_append] at ha hold
        have hobsk : ∀ x ∈ keys obs, x < S.n := by
          intro x hx
          obtain ⟨q, hq, hqe⟩ := List.mem_map.mp hx
          rw [← hqe]; exact (h.obsOK q hq).2.2
        rcases ha with ((ha | ha) | ha) | ha
        · rcases keys_appendAll _ _ a ha with h1 | h1
          · exact hold a (Or.inl (Or.inl (Or.inl h1)))
          · exact u.lt a h1
        · rcases keys_appendAll _ _ a ha with h1 | h1
          · exact hold a (Or.inl (Or.inl (Or.inr h1)))
          · exact u.lt a (by rw [← u.keysR]; exact h1)
        · rcases keys_appendAll _ _ a ha with h1 | h1
          · exact hold a (Or.inl (Or.inr h1))
          · exact u.lt a (by rw [← u.keysD]; exact h1)
        · rcases keys_appendAll _ _ a ha with h1 | h1
          · exact hold a (Or.inr h1)
          · exact hobsk a (by rw [← hkeysacts]; exact h1)
    -- the ghost state after this call and the shape of the done records
    have hgR : (gNext g step.1).R = g.R ++ newlyDone out.dones := by simp [gNext, hout]
    have hgO : (gNext g step.1).over = out.allDone := by simp [gNext, hout]
    have hgS : (gNext g step.1).started = g.started := by simp [gNext, hout]
    have hkd : (keys out.dones).Nodup := by rw [u.keysD]; exact u.nodup
    have hshape' : ∀ a, (a ∈ (gNext g step.1).R →
          ∃ l, expDone (r.trace ++ [step.1]) a = l ++ [true] ∧ ∀ b ∈ l, b = false) ∧
        (a ∉ (gNext g step.1).R → ∀ b ∈ expDone (r.trace ++ [step.1]) a, b = false) := by
      intro a
      rw [hgR]
      simp only [expDone_snoc, eD, List.mem_append]
      have hpick := pick_of_nodup out.dones hkd a
      by_cases haR : a ∈ g.R
      · -- already reported done: not reported again
        have hnk : a ∉ keys out.dones := by rw [u.keysD]; exact fun hk => u.notR a hk haR
        have hnone : out.dones.lookup a = none := by
          cases hl : out.dones.lookup a with
          | none => rfl
          | some v => exact absurd (List.mem_map.mpr ⟨(a, v), mem_of_lookup _ _ _ hl, rfl⟩) hnk
        rw [hpick, hnone]
        refine ⟨fun _ => ?_, fun hn => absurd (Or.inl haR) hn⟩
        simpa using (h.doneShape a).1 haR
      · have hold := (h.doneShape a).2 haR
        cases hl : out.dones.lookup a with
        | none =>
          rw [hpick, hl]
          have hnn : a ∉ newlyDone out.dones := by
            intro hn
            simp only [newlyDone, List.mem_map, List.mem_filter] at hn
            obtain ⟨x, ⟨hx, hx2⟩, rfl⟩ := hn
            have := lookup_of_mem_nodup out.dones hkd x.1 x.2 hx
            rw [hl] at this; cases this
          refine ⟨fun hR => ?_, fun _ => by simpa using hold⟩
          rcases hR with hR | hR
          · exact absurd hR haR
          · exact absurd hR hnn
        | some v =>
          rw [hpick, hl]
          cases v with
          | true =>
            refine ⟨fun _ => ⟨expDone r.trace a, rfl, hold⟩, fun hn => ?_⟩
            exfalso; apply hn; right
            simp only [newlyDone, List.mem_map, List.mem_filter]
            exact ⟨(a, true), ⟨mem_of_lookup _ _ _ hl, rfl⟩, rfl⟩
          | false =>
            have hnn : a ∉ newlyDone out.dones := by
              intro hn
              simp only [newlyDone, List.mem_map, List.mem_filter] at hn
              obtain ⟨x, ⟨hx, hx2⟩, rfl⟩ := hn
              have := lookup_of_mem_nodup out.dones hkd x.1 x.2 hx
              rw [hl] at this
              have : x.2 = false := (Option.some.inj this).symm
              rw [this] at hx2; cases hx2
            refine ⟨fun hR => ?_, fun _ => ?_⟩
            · rcases hR with hR | hR
              · exact absurd hR haR
              · exact absurd hR hnn
            · intro b hb
              rcases hb with hb | hb
              · exact hold b hb
              · simpa using hb
    -- unfold one iteration
    have hloop : episodeLoop S k P (j + 1) obs m r =
        if out.allDone then r2 else episodeLoop S k P j (liveOfEntry step.1) step.2 r2 := by
      rw [episodeLoop]
      simp only [← hqs, ← hacts, ← hstep, hout]
      rw [hr2]
      simp [liveOfEntry, hout]
    rw [hloop]
    have hbud := h.budget
    have hlen1 : 1 ≤ r.trace.length := by rw [htr]; simp
    have htl : r2.trace = r.trace ++ [step.1] := by rw [hr2]
    cases hAD : out.allDone with
    | true =>
      simp only [if_true]
      refine { recs := hrec2, stepsLe := ?_, prefixFalse := ?_, stopReason := ?_, doneOne := ?_ }
      · rw [htl]; simp; omega
      · rw [htl, expAll_snoc, eAl]
        intro b hb
        simp only [List.dropLast_concat] at hb
        exact h.allFalse b hb
      · right; rw [htl, expAll_snoc, eAl, hAD]; simp
      · intro a
        rw [htl]
        apply dropLast_all_false_of_shape
        by_cases ha : a ∈ (gNext g step.1).R
        · exact Or.inl ((hshape' a).1 ha)
        · exact Or.inr ((hshape' a).2 ha)
    | false =>
      simp only [Bool.false_eq_true, if_false]
      apply ih (liveOfEntry step.1) step.2 (gNext g step.1) r2
      have hst' : (gNext g step.1).started = true := by rw [hgS]; exact h.started
      have hov' : (gNext g step.1).over = false := by rw [hgO]; exact hAD
      refine { recs := hrec2, inv := hinv' hst' hov', started := hst', notOver := hov', budget := ?_,
               allFalse := ?_, doneShape := by rw [htl]; exact hshape', obsLast := ?_, obsOK := ?_ }
      · rw [htl]; simp; omega
      · rw [htl, expAll_snoc, eAl, hAD]
        intro b hb
        rcases List.mem_append.mp hb with hb | hb
        · exact h.allFalse b hb
        · simpa using hb
      · exact ⟨step.1, by rw [htl]; simp, rfl⟩
      · intro p hp
        simp only [liveOfEntry, hout, List.mem_filter, Bool.not_eq_true'] at hp
        obtain ⟨hpo, hpd⟩ := hp
        have hpk : p.1 ∈ keys out.obs := List.mem_map.mpr ⟨p, hpo, rfl⟩
        refine ⟨?_, ?_, u.lt p.1 hpk⟩
        · rw [hgR]
          simp only [List.mem_append, not_or]
          refine ⟨u.notR p.1 hpk, ?_⟩
          intro hn
          simp only [newlyDone, List.mem_map, List.mem_filter] at hn
          obtain ⟨x, ⟨hx, hx2⟩, hxe⟩ := hn
          have := lookup_of_mem_nodup out.dones hkd x.1 x.2 hx
          rw [hxe, hx2] at this
          rw [this] at hpd; simp at hpd
        · by_cases hk : k = .dynamic
          · exact Or.inl hk
          · right
            exact c07_keys_learning h07 hop hout hAD hk p.1 (by rw [u.keysD]; exact hpk)

end Abmarl

namespace Abmarl
variable {σ α ω ι : Type}

theorem lookup_map_singleton {β : Type} (l : List (Aid × β)) (a : Aid) :
    (l.map fun p => (p.1, [p.2])).lookup a = (l.lookup a).map fun v => [v] := by
  induction l with
  | nil => simp
  | cons p ps ih =>
    by_cases h : a = p.1
    · have : (a == p.1) = true := by simpa using h
      simp [List.lookup, this]
    · have : (a == p.1) = false := by simpa using h
      simp [List.lookup, this, ih]

theorem generateEpisode_ok [DecidableEq α] {S : SimIface σ α ω ι} {k : MKind} (hW : WF S k)
    (P : Policies α ω) (horizon : Nat) (m : MState σ) :
    EpOK S.n horizon P.pmap (generateEpisode S k P horizon m) := by
  obtain ⟨rs, hrs⟩ : ∃ rs, rs = runOp (α := α) S k m .reset := ⟨_, rfl⟩
  have hsound : OpSound (α := α) S k m {} .reset := reset_sound hW m {}
  obtain ⟨h01, h07, _, hinv'⟩ := hsound
  rw [← hrs] at h01 h07 hinv'
  have hop : rs.1.op = .reset := by rw [hrs]; exact runOp_op S k m _
  obtain ⟨obs, hobs⟩ : ∃ obs, rs.1.res = .resetOk obs := by
    cases hr : rs.1.res with
    | resetOk o => exact ⟨o, rfl⟩
    | stepOk o => simp [c01Entry, hop, hr] at h01
    | err e => simp [c01Entry, hop, hr] at h01
  have h01' : (keys obs).Nodup ∧ ∀ a ∈ keys obs, a < S.n := by
    simpa [c01Entry, hop, hobs, List.all_eq_true] using h01
  have hgen : generateEpisode S k P horizon m =
      episodeLoop S k P horizon obs rs.2
        { observations := obs.map (fun p => (p.1, [p.2])), trace := [rs.1] } := by
    simp only [generateEpisode, ← hrs, hobs]
  rw [hgen]
  have hgR : (gNext ({} : GSt) rs.1).R = [] := by simp [gNext, hobs]
  have hgO : (gNext ({} : GSt) rs.1).over = false := by simp [gNext, hobs]
  have hgS : (gNext ({} : GSt) rs.1).started = true := by simp [gNext, hobs]
  have eO : ∀ a, eObs rs.1 a = pick obs a := by intro a; simp [eObs, hobs]
  apply episodeLoop_ok hW P horizon horizon obs rs.2 (gNext {} rs.1)
  refine { recs := ?_, inv := hinv' hgS hgO, started := hgS, notOver := hgO, budget := by simp,
           allFalse := by simp [expAll, eAll, hobs], doneShape := ?_, obsLast := ⟨rs.1, by simp, ?_⟩,
           obsOK := ?_ }
  · refine { noErr := rfl, shape := ⟨rs.1, [], rfl, by simp [isResetE, hop, hobs], by simp⟩,
             qlen := by simp, asks := ?_, recO := ?_, recR := ?_, recD := ?_, recA := ?_,
             allD := by simp [expAll, eAll, hobs], keysLt := ?_, lens := by simp [expRew, expDone, eRew, eDone, hobs] }
    · intro j prev qs cur _ _ h3
      simp at h3
    · intro a
      simp only [expObs, List.flatMap_cons, List.flatMap_nil, List.append_nil, eO]
      rw [lookup_map_singleton, pick_of_nodup obs h01'.1 a]
      cases obs.lookup a <;> simp [recOf]
    · intro a; simp [expRew, eRew, hobs, recOf]
    · intro a; simp [expDone, eDone, hobs, recOf]
    · intro a; simp [expAct, eAct, hobs, recOf]
    · intro a ha
      simp only [keys, List.map_map, List.map_nil, List.append_nil, List.mem_map, Function.comp] at ha
      obtain ⟨p, hp, rfl⟩ := ha
      exact h01'.2 p.1 (List.mem_map.mpr ⟨p, hp, rfl⟩)
  · intro a
    rw [hgR]
    constructor
    · intro h; cases h
    · intro _ b hb
      simp [expDone, eDone, hobs] at hb
  · simp [liveOfEntry, hobs]
  · intro p hp
    have hpk : p.1 ∈ keys obs := List.mem_map.mpr ⟨p, hp, rfl⟩
    rw [hgR]
    refine ⟨by simp, ?_, h01'.2 p.1 hpk⟩
    cases k with
    | dynamic => exact Or.inl rfl
    | allStep =>
      right
      simp only [c07Entry, hop, hobs, Bool.and_eq_true, sameSet, List.all_eq_true, decide_eq_true_eq] at h07
      have := h07.1.1 p.1 hpk
      exact (List.mem_filter.mp this).2
    | turnBased =>
      right
      simp only [c07Entry, hop, hobs, Bool.and_eq_true, beq_iff_eq] at h07
      have : p.1 ∈ ((List.range S.n).filter S.learning).take 1 := by rw [← h07.1]; exact hpk
      exact (List.mem_filter.mp (List.mem_of_mem_take this)).2

end Abmarl
