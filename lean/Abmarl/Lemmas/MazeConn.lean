import Abmarl.Lemmas.MazeTerm
/-!
# C13 — `generate_maze`: every passage is connected to the start

Invariant of the frontier loop (`MInv`): passages are interior cells (the border ring is never
opened), every passage is reachable from the start through passages within `k` steps (`k` = the
number of iterations so far), and every frontier cell is an interior cell 4-adjacent to a passage.
`Reach` is stated on the *finished* maze in the flat indexing of `specMaze`'s flood fill, so the
last step to the Bool specification is short.
-/
namespace Abmarl
namespace Maze

/-! ### indices -/

def Interior (rows cols : Nat) (q : Cell) : Prop := 1 ≤ q.1 ∧ q.1 ≤ rows ∧ 1 ≤ q.2 ∧ q.2 ≤ cols
def InB (rows cols : Nat) (q : Cell) : Prop := q.1 < rows + 2 ∧ q.2 < cols + 2
/-- flat index, in the lopped maze, of an interior cell of the padded grid -/
def flat (cols : Nat) (q : Cell) : Nat := (q.1 - 1) * cols + (q.2 - 1)

theorem Interior.inB {rows cols : Nat} {q : Cell} (h : Interior rows cols q) : InB rows cols q := by
  unfold Interior at h; unfold InB; omega

theorem pidx_lt {rows cols : Nat} {q : Cell} (h : InB rows cols q) :
    q.1 * (cols + 2) + q.2 < (rows + 2) * (cols + 2) := by
  obtain ⟨h1, h2⟩ := h
  have : (q.1 + 1) * (cols + 2) ≤ (rows + 2) * (cols + 2) := Nat.mul_le_mul_right _ (by omega)
  rw [Nat.add_mul] at this
  omega

theorem pidx_inj {C : Nat} {q q' : Cell} (h1 : q.2 < C) (h2 : q'.2 < C)
    (h : q.1 * C + q.2 = q'.1 * C + q'.2) : q = q' := by
  have hC : 0 < C := by omega
  have d1 : (q.1 * C + q.2) / C = q.1 := by
    rw [Nat.mul_comm, Nat.mul_add_div hC, Nat.div_eq_of_lt h1]; simp
  have d2 : (q'.1 * C + q'.2) / C = q'.1 := by
    rw [Nat.mul_comm, Nat.mul_add_div hC, Nat.div_eq_of_lt h2]; simp
  have e1 : q.1 = q'.1 := by rw [← d1, ← d2, h]
  have e2 : q.2 = q'.2 := by rw [e1] at h; omega
  exact Prod.ext e1 e2

theorem mget_mset_same {rows cols : Nat} {g : List Nat} {q : Cell} (v : Nat)
    (hl : g.length = (rows + 2) * (cols + 2)) (hq : InB rows cols q) :
    mget (cols + 2) (mset (cols + 2) g q v) q = v := by
  unfold mget mset
  exact World.getD_set_same _ _ _ _ (by rw [hl]; exact pidx_lt hq)

theorem mget_mset_ne {C : Nat} {g : List Nat} {q q' : Cell} (v : Nat) (h1 : q.2 < C) (h2 : q'.2 < C)
    (hne : q ≠ q') : mget C (mset C g q v) q' = mget C g q' := by
  unfold mget mset
  exact World.getD_set_ne _ _ _ _ _ (fun e => hne (pidx_inj h1 h2 e))

theorem length_mset (C : Nat) (g : List Nat) (q : Cell) (v : Nat) : (mset C g q v).length = g.length := by
  simp [mset]

theorem flat_div {cols : Nat} {q : Cell} (h1 : 1 ≤ q.2) (h2 : q.2 ≤ cols) : flat cols q / cols = q.1 - 1 := by
  unfold flat
  have hc : 0 < cols := by omega
  rw [Nat.mul_comm, Nat.mul_add_div hc, Nat.div_eq_of_lt (by omega)]; simp

theorem flat_mod {cols : Nat} {q : Cell} (h1 : 1 ≤ q.2) (h2 : q.2 ≤ cols) : flat cols q % cols = q.2 - 1 := by
  unfold flat
  rw [Nat.mul_comm, Nat.mul_add_mod, Nat.mod_eq_of_lt (by omega)]

theorem flat_lt {rows cols : Nat} {q : Cell} (h : Interior rows cols q) : flat cols q < rows * cols := by
  obtain ⟨h1, h2, h3, h4⟩ := h
  unfold flat
  have : (q.1 - 1 + 1) * cols ≤ rows * cols := Nat.mul_le_mul_right _ (by omega)
  rw [Nat.add_mul] at this
  omega

theorem flat_up {cols : Nat} {q : Cell} (h : 2 ≤ q.1) : flat cols (q.1 - 1, q.2) + cols = flat cols q := by
  unfold flat
  obtain ⟨r, hr⟩ : ∃ r, q.1 = r + 2 := ⟨q.1 - 2, by omega⟩
  simp only [hr]
  have : r + 2 - 1 - 1 = r := by omega
  have h2 : r + 2 - 1 = r + 1 := by omega
  rw [this, h2, Nat.add_mul]; omega

theorem flat_down {cols : Nat} {q : Cell} (h : 1 ≤ q.1) : flat cols (q.1 + 1, q.2) = flat cols q + cols := by
  unfold flat
  obtain ⟨r, hr⟩ : ∃ r, q.1 = r + 1 := ⟨q.1 - 1, by omega⟩
  simp only [hr, Nat.add_sub_cancel]
  rw [Nat.add_mul]; omega

theorem flat_left {cols : Nat} {q : Cell} (h : 2 ≤ q.2) : flat cols (q.1, q.2 - 1) + 1 = flat cols q := by
  unfold flat; simp only; omega

theorem flat_right {cols : Nat} {q : Cell} (h : 1 ≤ q.2) : flat cols (q.1, q.2 + 1) = flat cols q + 1 := by
  unfold flat; simp only; omega

theorem finish_length (rows cols : Nat) (g : List Nat) : (finish rows cols g).length = rows * cols := by
  simp [finish]

theorem finish_getD {rows cols : Nat} (g : List Nat) {i : Nat} (hi : i < rows * cols) :
    (finish rows cols g).getD i 1 =
      if mget (cols + 2) g (i / cols + 1, i % cols + 1) == 0 then 0 else 1 := by
  unfold finish
  rw [List.getD_eq_getElem?_getD, List.getElem?_map, List.getElem?_range hi]
  rfl

theorem finish_flat {rows cols : Nat} (g : List Nat) {q : Cell} (h : Interior rows cols q) :
    (finish rows cols g).getD (flat cols q) 1 = if mget (cols + 2) g q == 0 then 0 else 1 := by
  rw [finish_getD g (flat_lt h), flat_div h.2.2.1 h.2.2.2, flat_mod h.2.2.1 h.2.2.2]
  have e1 : q.1 - 1 + 1 = q.1 := by have := h.1; omega
  have e2 : q.2 - 1 + 1 = q.2 := by have := h.2.2.1; omega
  rw [e1, e2]

/-! ### reachability, in the indexing of the flood fill -/

inductive Reach (rows cols : Nat) (m : List Nat) (s : Nat) : Nat → Nat → Prop
  | base : s < rows * cols → Reach rows cols m s 0 s
  | keep {k i : Nat} : Reach rows cols m s k i → Reach rows cols m s (k + 1) i
  | up {k i : Nat} : i < rows * cols → m.getD i 1 = 0 → 0 < i / cols →
      Reach rows cols m s k (i - cols) → Reach rows cols m s (k + 1) i
  | down {k i : Nat} : i < rows * cols → m.getD i 1 = 0 → i / cols + 1 < rows →
      Reach rows cols m s k (i + cols) → Reach rows cols m s (k + 1) i
  | left {k i : Nat} : i < rows * cols → m.getD i 1 = 0 → 0 < i % cols →
      Reach rows cols m s k (i - 1) → Reach rows cols m s (k + 1) i
  | right {k i : Nat} : i < rows * cols → m.getD i 1 = 0 → i % cols + 1 < cols →
      Reach rows cols m s k (i + 1) → Reach rows cols m s (k + 1) i

theorem Reach.mono_maze {rows cols : Nat} {m m' : List Nat} {s k i : Nat}
    (hm : ∀ j, m.getD j 1 = 0 → m'.getD j 1 = 0) (h : Reach rows cols m s k i) :
    Reach rows cols m' s k i := by
  induction h with
  | base hs => exact .base hs
  | keep _ ih => exact .keep ih
  | up h1 h2 h3 _ ih => exact .up h1 (hm _ h2) h3 ih
  | down h1 h2 h3 _ ih => exact .down h1 (hm _ h2) h3 ih
  | left h1 h2 h3 _ ih => exact .left h1 (hm _ h2) h3 ih
  | right h1 h2 h3 _ ih => exact .right h1 (hm _ h2) h3 ih

theorem Reach.mono_k {rows cols : Nat} {m : List Nat} {s k i : Nat} (h : Reach rows cols m s k i) :
    ∀ j, Reach rows cols m s (k + j) i := by
  intro j
  induction j with
  | zero => exact h
  | succ j ih => exact .keep ih

/-! ### the flood fill finds everything reachable -/

def floodN (rows cols : Nat) (m : List Nat) : Nat → List Bool → List Bool
  | 0, marks => marks
  | k + 1, marks => floodStep rows cols m (floodN rows cols m k marks)

theorem floodStep_length (rows cols : Nat) (m : List Nat) (marks : List Bool) :
    (floodStep rows cols m marks).length = rows * cols := by simp [floodStep]

theorem floodStep_getD {rows cols : Nat} (m : List Nat) (marks : List Bool) {i : Nat} (hi : i < rows * cols) :
    (floodStep rows cols m marks).getD i false =
      (marks.getD i false ||
      (m.getD i 1 == 0 &&
        ((decide (0 < i / cols) && marks.getD (i - cols) false) ||
         (decide (i / cols + 1 < rows) && marks.getD (i + cols) false) ||
         (decide (0 < i % cols) && marks.getD (i - 1) false) ||
         (decide (i % cols + 1 < cols) && marks.getD (i + 1) false)))) := by
  unfold floodStep
  rw [List.getD_eq_getElem?_getD, List.getElem?_map, List.getElem?_range hi]
  rfl

theorem floodN_comm (rows cols : Nat) (m : List Nat) (k : Nat) (marks : List Bool) :
    floodN rows cols m k (floodStep rows cols m marks) = floodStep rows cols m (floodN rows cols m k marks) := by
  induction k with
  | zero => rfl
  | succ k ih => simp only [floodN, ih]

theorem floodN_fix (rows cols : Nat) (m : List Nat) (marks : List Bool)
    (h : floodStep rows cols m marks = marks) (k : Nat) : floodN rows cols m k marks = marks := by
  induction k with
  | zero => rfl
  | succ k ih => simp only [floodN, ih, h]

theorem flood_eq_floodN (rows cols : Nat) (m : List Nat) (k : Nat) (marks : List Bool) :
    flood rows cols m k marks = floodN rows cols m k marks := by
  induction k generalizing marks with
  | zero => rfl
  | succ k ih =>
    simp only [flood]
    by_cases h : (floodStep rows cols m marks == marks) = true
    · rw [if_pos h]
      have h' : floodStep rows cols m marks = marks := by simpa using h
      exact (floodN_fix rows cols m marks h' (k + 1)).symm
    · rw [if_neg h, ih, floodN_comm]; rfl

theorem reach_floodN {rows cols : Nat} {m : List Nat} {s k i : Nat} (h : Reach rows cols m s k i) :
    (floodN rows cols m k ((List.range (rows * cols)).map fun j => j == s)).getD i false = true := by
  induction h with
  | base hs =>
    simp only [floodN]
    rw [List.getD_eq_getElem?_getD, List.getElem?_map, List.getElem?_range hs]
    simp
  | @keep k i _ ih =>
    have hi : i < rows * cols := by
      by_cases hi : i < rows * cols
      · exact hi
      · exfalso
        have hlen : (floodN rows cols m k ((List.range (rows * cols)).map fun j => j == s)).length = rows * cols := by
          cases k with
          | zero => simp [floodN]
          | succ k => simp only [floodN]; exact floodStep_length _ _ _ _
        rw [List.getD_eq_getElem?_getD, List.getElem?_eq_none (by omega)] at ih
        cases ih
    simp only [floodN]
    rw [floodStep_getD m _ hi, ih]; rfl
  | up h1 h2 h3 _ ih =>
    simp only [floodN]
    rw [floodStep_getD m _ h1, ih, h2]
    simp [h3]
  | down h1 h2 h3 _ ih =>
    simp only [floodN]
    rw [floodStep_getD m _ h1, ih, h2]
    simp [h3]
  | left h1 h2 h3 _ ih =>
    simp only [floodN]
    rw [floodStep_getD m _ h1, ih, h2]
    simp [h3]
  | right h1 h2 h3 _ ih =>
    simp only [floodN]
    rw [floodStep_getD m _ h1, ih, h2]
    simp [h3]

end Maze
end Abmarl

namespace Abmarl
namespace Maze

/-! ### the invariant of the frontier loop -/

theorem nbrs_inB {rows cols : Nat} {cur q : Cell} (hc : Interior rows cols cur) (hq : q ∈ nbrs cur) :
    InB rows cols q := by
  obtain ⟨h1, h2, h3, h4⟩ := hc
  simp only [nbrs, List.mem_cons, List.not_mem_nil, or_false] at hq
  unfold InB
  rcases hq with rfl | rfl | rfl | rfl <;> simp only <;> omega

theorem nbrs_interior {rows cols : Nat} {cur q : Cell} (hc : Interior rows cols cur) (hq : q ∈ nbrs cur)
    (hb : isBorder (rows + 2) (cols + 2) q = false) : Interior rows cols q := by
  obtain ⟨h1, h2, h3, h4⟩ := hc
  simp only [isBorder, Bool.or_eq_false_iff, beq_eq_false_iff_ne, ne_eq] at hb
  obtain ⟨⟨⟨b1, b2⟩, b3⟩, b4⟩ := hb
  simp only [nbrs, List.mem_cons, List.not_mem_nil, or_false] at hq
  unfold Interior
  rcases hq with rfl | rfl | rfl | rfl <;> simp only at b1 b2 b3 b4 ⊢ <;> omega

theorem nbrs_symm {rows cols : Nat} {cur q : Cell} (hc : Interior rows cols cur) (hq : q ∈ nbrs cur) :
    cur ∈ nbrs q := by
  obtain ⟨h1, h2, h3, h4⟩ := hc
  obtain ⟨r, c⟩ := cur
  simp only at h1 h2 h3 h4
  simp only [nbrs, List.mem_cons, List.not_mem_nil, or_false] at hq
  rcases hq with rfl | rfl | rfl | rfl
  · have : r - 1 + 1 = r := by omega
    simp [nbrs, this]
  · simp [nbrs]
  · have : c - 1 + 1 = c := by omega
    simp [nbrs, this]
  · simp [nbrs]

theorem visitNbr_facts {rows cols : Nat} (acc : List Cell × List Nat) {q' : Cell} (hq' : InB rows cols q') :
    (visitNbr (rows + 2) (cols + 2) acc q').2.length = acc.2.length ∧
    (∀ q, InB rows cols q →
      (mget (cols + 2) (visitNbr (rows + 2) (cols + 2) acc q').2 q = 0 ↔ mget (cols + 2) acc.2 q = 0)) ∧
    (∀ q ∈ (visitNbr (rows + 2) (cols + 2) acc q').1,
      q ∈ acc.1 ∨ (q = q' ∧ isBorder (rows + 2) (cols + 2) q = false)) := by
  unfold visitNbr
  split
  · exact ⟨rfl, fun _ _ => Iff.rfl, fun q h => Or.inl h⟩
  · rename_i hb
    split
    · rename_i h2
      have h2' : mget (cols + 2) acc.2 q' = 2 := by simpa using h2
      refine ⟨length_mset _ _ _ _, ?_, ?_⟩
      · intro q hq
        by_cases hqq : q' = q
        · subst hqq
          have hlt := mget_eq_two_lt h2'
          have : mget (cols + 2) (mset (cols + 2) acc.2 q' 1) q' = 1 := by
            unfold mget mset; exact World.getD_set_same _ _ _ _ hlt
          rw [this, h2']; simp
        · rw [mget_mset_ne 1 hq'.2 hq.2 hqq]
      · intro q hq
        rcases List.mem_append.mp hq with h | h
        · exact Or.inl h
        · right
          have := List.mem_singleton.mp h
          subst this
          exact ⟨rfl, by simpa using hb⟩
    · exact ⟨rfl, fun _ _ => Iff.rfl, fun q h => Or.inl h⟩

theorem foldl_visit_facts {rows cols : Nat} (l : List Cell) (hl : ∀ q ∈ l, InB rows cols q)
    (acc : List Cell × List Nat) :
    (l.foldl (visitNbr (rows + 2) (cols + 2)) acc).2.length = acc.2.length ∧
    (∀ q, InB rows cols q →
      (mget (cols + 2) (l.foldl (visitNbr (rows + 2) (cols + 2)) acc).2 q = 0 ↔ mget (cols + 2) acc.2 q = 0)) ∧
    (∀ q ∈ (l.foldl (visitNbr (rows + 2) (cols + 2)) acc).1,
      q ∈ acc.1 ∨ (q ∈ l ∧ isBorder (rows + 2) (cols + 2) q = false)) := by
  induction l generalizing acc with
  | nil => exact ⟨rfl, fun _ _ => Iff.rfl, fun q h => Or.inl h⟩
  | cons x xs ih =>
    rw [List.foldl_cons]
    obtain ⟨a1, a2, a3⟩ := visitNbr_facts acc (hl x List.mem_cons_self)
    obtain ⟨b1, b2, b3⟩ := ih (fun q hq => hl q (List.mem_cons_of_mem _ hq)) (visitNbr (rows + 2) (cols + 2) acc x)
    refine ⟨b1.trans a1, fun q hq => (b2 q hq).trans (a2 q hq), ?_⟩
    intro q hq
    rcases b3 q hq with h | ⟨h, hb⟩
    · rcases a3 q h with h | ⟨h, hb⟩
      · exact Or.inl h
      · exact Or.inr ⟨by rw [h]; exact List.mem_cons_self, hb⟩
    · exact Or.inr ⟨List.mem_cons_of_mem _ h, hb⟩

structure MInv (rows cols : Nat) (s : Cell) (g : List Nat) (fr : List Cell) (k : Nat) : Prop where
  len : g.length = (rows + 2) * (cols + 2)
  passInt : ∀ q, InB rows cols q → mget (cols + 2) g q = 0 → Interior rows cols q
  reach : ∀ q, Interior rows cols q → mget (cols + 2) g q = 0 →
    Reach rows cols (finish rows cols g) (flat cols s) k (flat cols q)
  front : ∀ q ∈ fr, Interior rows cols q ∧ ∃ p ∈ nbrs q, mget (cols + 2) g p = 0
  startP : mget (cols + 2) g s = 0
  sInt : Interior rows cols s

/-- more passages, same reachability -/
theorem finish_mono {rows cols : Nat} {g g' : List Nat}
    (h : ∀ q, InB rows cols q → mget (cols + 2) g q = 0 → mget (cols + 2) g' q = 0) :
    ∀ j, (finish rows cols g).getD j 1 = 0 → (finish rows cols g').getD j 1 = 0 := by
  intro j hj
  by_cases hjl : j < rows * cols
  · rw [finish_getD g hjl] at hj
    rw [finish_getD g' hjl]
    have hc : 0 < cols := by
      rcases Nat.eq_zero_or_pos cols with h0 | h0
      · rw [h0] at hjl; simp at hjl
      · exact h0
    have hb : InB rows cols (j / cols + 1, j % cols + 1) := by
      have h1 : j / cols < rows := by rw [Nat.div_lt_iff_lt_mul hc]; exact hjl
      have h2 : j % cols < cols := Nat.mod_lt _ hc
      unfold InB; simp only; omega
    by_cases hz : mget (cols + 2) g (j / cols + 1, j % cols + 1) = 0
    · simp [h _ hb hz]
    · simp [hz] at hj
  · rw [List.getD_eq_getElem?_getD, List.getElem?_eq_none (by rw [finish_length]; omega)] at hj
    cases hj

/-- one iteration of the frontier loop keeps the invariant (with one more step allowed) -/
theorem iter_inv {rows cols : Nat} {s : Cell} {g : List Nat} {fr : List Cell} {k : Nat} {cur : Cell}
    (hI : MInv rows cols s g fr k) (hc : cur ∈ fr) :
    MInv rows cols s (iter (rows + 2) (cols + 2) g fr cur).1 (iter (rows + 2) (cols + 2) g fr cur).2 (k + 1) := by
  obtain ⟨hcI, p, hp, hpz⟩ := hI.front cur hc
  have hstay : MInv rows cols s g (fr.erase cur) (k + 1) :=
    ⟨hI.len, hI.passInt, fun q h1 h2 => .keep (hI.reach q h1 h2),
     fun q hq => hI.front q (List.mem_of_mem_erase hq), hI.startP, hI.sInt⟩
  unfold iter
  by_cases h1 : oneSided (cols + 2) g cur = true
  · by_cases h2 : sumFree (cols + 2) g cur < 2
    · simp only [h1, h2, if_true]
      obtain ⟨g1, hg1⟩ : ∃ g1, g1 = mset (cols + 2) g cur 0 := ⟨_, rfl⟩
      rw [← hg1]
      obtain ⟨u, hu⟩ : ∃ u, u = unvisitedNbrs (rows + 2) (cols + 2) g1 cur := ⟨_, rfl⟩
      rw [← hu]
      have hfacts := foldl_visit_facts (nbrs cur) (fun q hq => nbrs_inB hcI hq) (([] : List Cell), g1)
      have hu' : u = (nbrs cur).foldl (visitNbr (rows + 2) (cols + 2)) ([], g1) := by rw [hu]; rfl
      rw [← hu'] at hfacts
      obtain ⟨f1, f2, f3⟩ := hfacts
      have hlen1 : g1.length = (rows + 2) * (cols + 2) := by rw [hg1, length_mset]; exact hI.len
      -- passages of the new grid: the old ones and `cur`
      have hpass : ∀ q, InB rows cols q → (mget (cols + 2) u.2 q = 0 ↔ (mget (cols + 2) g q = 0 ∨ q = cur)) := by
        intro q hq
        rw [f2 q hq]
        by_cases hqc : q = cur
        · subst hqc
          rw [hg1, mget_mset_same 0 hI.len hq]; simp
        · rw [hg1, mget_mset_ne 0 hcI.inB.2 hq.2 (fun e => hqc e.symm)]
          simp [hqc]
      have hmono : ∀ j, (finish rows cols g).getD j 1 = 0 → (finish rows cols u.2).getD j 1 = 0 :=
        finish_mono (fun q hq hz => (hpass q hq).mpr (Or.inl hz))
      have hcurP : mget (cols + 2) u.2 cur = 0 := (hpass cur hcI.inB).mpr (Or.inr rfl)
      have hcurF : (finish rows cols u.2).getD (flat cols cur) 1 = 0 := by
        rw [finish_flat _ hcI, hcurP]; rfl
      -- `cur` is reached through its passage neighbour `p`
      have hpI : Interior rows cols p := hI.passInt p (nbrs_inB hcI hp) hpz
      have hpR : Reach rows cols (finish rows cols u.2) (flat cols s) k (flat cols p) :=
        (hI.reach p hpI hpz).mono_maze hmono
      have hcurR : Reach rows cols (finish rows cols u.2) (flat cols s) (k + 1) (flat cols cur) := by
        obtain ⟨c1, c2, c3, c4⟩ := hcI
        obtain ⟨p1, p2, p3, p4⟩ := hpI
        have hlt := flat_lt (rows := rows) (cols := cols) (q := cur) ⟨c1, c2, c3, c4⟩
        simp only [nbrs, List.mem_cons, List.not_mem_nil, or_false] at hp
        rcases hp with rfl | rfl | rfl | rfl
        · simp only at p1 p2 p3 p4
          have hf := flat_up (cols := cols) (q := cur) (by omega)
          refine .up hlt hcurF (by rw [flat_div c3 c4]; omega) ?_
          have : flat cols cur - cols = flat cols (cur.1 - 1, cur.2) := by omega
          rw [this]; exact hpR
        · simp only at p1 p2 p3 p4
          have hf := flat_down (cols := cols) (q := cur) c1
          refine .down hlt hcurF (by rw [flat_div c3 c4]; omega) ?_
          rw [← hf]; exact hpR
        · simp only at p1 p2 p3 p4
          have hf := flat_left (cols := cols) (q := cur) (by omega)
          refine .left hlt hcurF (by rw [flat_mod c3 c4]; omega) ?_
          have : flat cols cur - 1 = flat cols (cur.1, cur.2 - 1) := by omega
          rw [this]; exact hpR
        · simp only at p1 p2 p3 p4
          have hf := flat_right (cols := cols) (q := cur) c3
          refine .right hlt hcurF (by rw [flat_mod c3 c4]; omega) ?_
          rw [← hf]; exact hpR
      constructor
      · exact f1.trans hlen1
      · intro q hq hz
        rcases (hpass q hq).mp hz with h | h
        · exact hI.passInt q hq h
        · rw [h]; exact hcI
      · intro q hq hz
        rcases (hpass q hq.inB).mp hz with h | h
        · exact .keep ((hI.reach q hq h).mono_maze hmono)
        · rw [h]; exact hcurR
      · intro q hq
        have hq' := List.mem_of_mem_erase hq
        rw [mem_dedup, List.mem_append] at hq'
        rcases hq' with h | h
        · obtain ⟨hqI, p', hp', hpz'⟩ := hI.front q h
          exact ⟨hqI, p', hp', (hpass p' (nbrs_inB hqI hp')).mpr (Or.inl hpz')⟩
        · rcases f3 q h with h | ⟨h, hb⟩
          · cases h
          · exact ⟨nbrs_interior hcI h hb, cur, nbrs_symm hcI h, hcurP⟩
      · exact (hpass s hI.sInt.inB).mpr (Or.inl hI.startP)
      · exact hI.sInt
    · simp only [h1, h2, if_true, if_false]; exact hstay
  · simp only [h1, Bool.false_eq_true, if_false]; exact hstay

theorem MInv.mono_k {rows cols : Nat} {s : Cell} {g : List Nat} {fr : List Cell} {k : Nat}
    (h : MInv rows cols s g fr k) (j : Nat) : MInv rows cols s g fr (k + j) :=
  ⟨h.len, h.passInt, fun q h1 h2 => (h.reach q h1 h2).mono_k j, h.front, h.startP, h.sInt⟩

theorem mazeLoop_inv {rows cols : Nat} {s : Cell} : ∀ (fuel : Nat) (g : List Nat) (fr : List Cell) (t : Tape)
    (k : Nat) (r : List Nat × Tape), MInv rows cols s g fr k →
    mazeLoop (rows + 2) (cols + 2) fuel g fr t = some r → MInv rows cols s r.1 [] (k + fuel) := by
  intro fuel
  induction fuel with
  | zero =>
    intro g fr t k r hI h
    cases fr with
    | nil => simp only [mazeLoop, Option.some.injEq] at h; subst h; exact hI
    | cons x xs => simp [mazeLoop] at h
  | succ f ih =>
    intro g fr t k r hI h
    cases fr with
    | nil =>
      simp only [mazeLoop, Option.some.injEq] at h; subst h
      exact hI.mono_k (f + 1)
    | cons x xs =>
      simp only [mazeLoop] at h
      have := ih _ _ _ (k + 1) r (iter_inv hI (getD_mem_cons x xs _)) h
      have e : k + 1 + f = k + (f + 1) := by omega
      rw [e] at this; exact this

end Maze
end Abmarl

namespace Abmarl
namespace Maze

theorem mget_replicate {rows cols : Nat} {q : Cell} (hq : InB rows cols q) :
    mget (cols + 2) (List.replicate ((rows + 2) * (cols + 2)) 2) q = 2 := by
  unfold mget
  rw [List.getD_eq_getElem?_getD, List.getElem?_replicate]
  simp [pidx_lt hq]

theorem cnt2_replicate (n : Nat) : cnt2 (List.replicate n 2) = n := by
  simp [cnt2]

def startInGrid (rows cols : Nat) (start : Pos) : Prop :=
  0 ≤ start.1 ∧ start.1 < rows ∧ 0 ≤ start.2 ∧ start.2 < cols

/-- with the start inside the grid the frontier loop ends within the fuel, and the invariant holds
for the final padded grid -/
theorem generatePadded_ok (rows cols : Nat) (start : Pos) (t : Tape) (hs : startInGrid rows cols start) :
    ∃ r, generatePadded rows cols start t = .ok r ∧
      MInv rows cols (start.1.toNat + 1, start.2.toNat + 1) r.1 [] (fuelFor rows cols) := by
  obtain ⟨s1, s2, s3, s4⟩ := hs
  obtain ⟨s, hsdef⟩ : ∃ s : Cell, s = (start.1.toNat + 1, start.2.toNat + 1) := ⟨_, rfl⟩
  have hsI : Interior rows cols s := by
    rw [hsdef]; unfold Interior; simp only; omega
  obtain ⟨g0, hg0⟩ : ∃ g0, g0 = List.replicate ((rows + 2) * (cols + 2)) 2 := ⟨_, rfl⟩
  obtain ⟨g1, hg1⟩ : ∃ g1, g1 = mset (cols + 2) g0 s 0 := ⟨_, rfl⟩
  obtain ⟨u, hu⟩ : ∃ u, u = unvisitedNbrs (rows + 2) (cols + 2) g1 s := ⟨_, rfl⟩
  have hlen0 : g0.length = (rows + 2) * (cols + 2) := by rw [hg0]; simp
  have hlen1 : g1.length = (rows + 2) * (cols + 2) := by rw [hg1, length_mset]; exact hlen0
  have hfacts := foldl_visit_facts (nbrs s) (fun q hq => nbrs_inB hsI hq) (([] : List Cell), g1)
  have hu' : u = (nbrs s).foldl (visitNbr (rows + 2) (cols + 2)) ([], g1) := by rw [hu]; rfl
  rw [← hu'] at hfacts
  obtain ⟨f1, f2, f3⟩ := hfacts
  -- the only passage is the start
  have hpass : ∀ q, InB rows cols q → (mget (cols + 2) u.2 q = 0 ↔ q = s) := by
    intro q hq
    rw [f2 q hq]
    by_cases hqs : q = s
    · subst hqs; rw [hg1, mget_mset_same 0 hlen0 hq]; simp
    · rw [hg1, mget_mset_ne 0 hsI.inB.2 hq.2 (fun e => hqs e.symm), hg0, mget_replicate hq]
      simp [hqs]
  have hsP : mget (cols + 2) u.2 s = 0 := (hpass s hsI.inB).mpr rfl
  have hI0 : MInv rows cols s u.2 u.1 0 := by
    constructor
    · exact f1.trans hlen1
    · intro q hq hz; rw [(hpass q hq).mp hz]; exact hsI
    · intro q hq hz; rw [(hpass q hq.inB).mp hz]; exact .base (flat_lt hsI)
    · intro q hq
      rcases f3 q hq with h | ⟨h, hb⟩
      · cases h
      · exact ⟨nbrs_interior hsI h hb, s, nbrs_symm hsI h, hsP⟩
    · exact hsP
    · exact hsI
  -- the measure fits the fuel
  have hmeas : u.1.length + cnt2 u.2 ≤ fuelFor rows cols := by
    have h1 := unvisitedNbrs_measure (rows + 2) (cols + 2) g1 s
    rw [← hu] at h1
    have h2 : cnt2 g1 ≤ cnt2 g0 := by rw [hg1]; exact cnt2_set_le _ _ _ (by decide)
    have h3 : cnt2 g0 = (rows + 2) * (cols + 2) := by rw [hg0]; exact cnt2_replicate _
    unfold fuelFor; omega
  have hsome := mazeLoop_isSome (rows + 2) (cols + 2) (fuelFor rows cols) u.2 u.1 t hmeas
  obtain ⟨r, hr⟩ := Option.isSome_iff_exists.mp hsome
  refine ⟨r, ?_, ?_⟩
  · unfold generatePadded
    have hguard : (decide (0 ≤ start.1) && decide (start.1 < rows) && decide (0 ≤ start.2) &&
        decide (start.2 < cols)) = true := by simp [s1, s2, s3, s4]
    rw [if_pos hguard]
    simp only [← hsdef, ← hg0, ← hg1, ← hu, hr]
  · have := mazeLoop_inv (fuelFor rows cols) u.2 u.1 t 0 r hI0 hr
    rw [Nat.zero_add] at this
    rw [← hsdef]; exact this

theorem generatePadded_guard {rows cols : Nat} {start : Pos} {t : Tape} {r : List Nat × Tape}
    (h : generatePadded rows cols start t = .ok r) : startInGrid rows cols start := by
  unfold generatePadded at h
  by_cases hg : (decide (0 ≤ start.1) && decide (start.1 < rows) && decide (0 ≤ start.2) &&
      decide (start.2 < cols)) = true
  · simp only [Bool.and_eq_true, decide_eq_true_eq] at hg
    exact ⟨hg.1.1.1, hg.1.1.2, hg.1.2, hg.2⟩
  · rw [if_neg hg] at h; cases h

/-- the invariant of the final padded grid gives the Bool specification of the lopped maze -/
theorem specMaze_of_inv {rows cols : Nat} {start : Pos} {g : List Nat} {k : Nat}
    (hs : startInGrid rows cols start) (hk : k ≤ fuelFor rows cols)
    (hI : MInv rows cols (start.1.toNat + 1, start.2.toNat + 1) g [] k) :
    specMaze rows cols start (finish rows cols g) = true := by
  obtain ⟨s1, s2, s3, s4⟩ := hs
  have hflat : flat cols (start.1.toNat + 1, start.2.toNat + 1) = startIdx cols start := by
    simp [flat, startIdx]
  unfold specMaze
  simp only [Bool.and_eq_true]
  refine ⟨⟨⟨⟨⟨⟨⟨?_, ?_⟩, ?_⟩, ?_⟩, ?_⟩, ?_⟩, ?_⟩, ?_⟩
  · simp [finish_length]
  · rw [List.all_eq_true]
    intro v hv
    simp only [finish, List.mem_map] at hv
    obtain ⟨i, _, rfl⟩ := hv
    split <;> simp
  · exact decide_eq_true s1
  · exact decide_eq_true s2
  · exact decide_eq_true s3
  · exact decide_eq_true s4
  · rw [← hflat, finish_flat _ hI.sInt, hI.startP]; rfl
  · rw [List.all_eq_true]
    intro i hi
    have hil : i < rows * cols := List.mem_range.mp hi
    cases hz : (finish rows cols g).getD i 1 != 0 with
    | true => rfl
    | false =>
      have hz' : (finish rows cols g).getD i 1 = 0 := by simpa using hz
      simp only [Bool.false_or]
      have hc : 0 < cols := by
        rcases Nat.eq_zero_or_pos cols with h0 | h0
        · rw [h0] at hil; simp at hil
        · exact h0
      obtain ⟨q, hq⟩ : ∃ q : Cell, q = (i / cols + 1, i % cols + 1) := ⟨_, rfl⟩
      have hb : InB rows cols q := by
        have h1 : i / cols < rows := by rw [Nat.div_lt_iff_lt_mul hc]; exact hil
        have h2 : i % cols < cols := Nat.mod_lt _ hc
        rw [hq]; unfold InB; simp only; omega
      have hqz : mget (cols + 2) g q = 0 := by
        rw [finish_getD g hil, ← hq] at hz'
        by_cases h0 : mget (cols + 2) g q = 0
        · exact h0
        · simp [h0] at hz'
      have hqI := hI.passInt q hb hqz
      have hqf : flat cols q = i := by
        rw [hq]; simp only [flat, Nat.add_sub_cancel]
        exact Nat.div_add_mod' i cols
      have hR := (hI.reach q hqI hqz).mono_k (fuelFor rows cols - k)
      rw [hqf, hflat, Nat.add_sub_cancel' hk] at hR
      rw [flood_eq_floodN]
      exact reach_floodN hR

/-- **maze_connected** (Bool form): whatever the start and the tape, the maze that `generateMaze`
returns satisfies `specMaze` -/
theorem generateMaze_spec {rows cols : Nat} {start : Pos} {t : Tape} {r : List Nat × Tape}
    (h : generateMaze rows cols start t = .ok r) : specMaze rows cols start r.1 = true := by
  unfold generateMaze at h
  cases hp : generatePadded rows cols start t with
  | error e => rw [hp] at h; cases h
  | ok rp =>
    rw [hp] at h
    simp only [Except.ok.injEq] at h
    have hs := generatePadded_guard hp
    obtain ⟨r', hr', hI⟩ := generatePadded_ok rows cols start t hs
    rw [hp] at hr'
    simp only [Except.ok.injEq] at hr'
    subst hr'
    rw [← h]
    exact specMaze_of_inv hs (Nat.le_refl _) hI

/-- **maze_terminates**: with the start inside the grid `generateMaze` returns a maze (the fuel of
the frontier loop is never exhausted) -/
theorem generateMaze_ok (rows cols : Nat) (start : Pos) (t : Tape) (hs : startInGrid rows cols start) :
    ∃ r, generateMaze rows cols start t = .ok r := by
  obtain ⟨r, hr, _⟩ := generatePadded_ok rows cols start t hs
  exact ⟨(finish rows cols r.1, r.2), by simp [generateMaze, hr]⟩

end Maze
end Abmarl

namespace Abmarl
namespace Maze

/-! ### what `specMaze` means: the flood fill only marks cells connected to the start -/

/-- `j` and `i` are 4-neighbours in the flat `rows × cols` indexing: one above the other, or side by
side in the same row -/
def Adj (cols : Nat) (j i : Nat) : Prop :=
  j + cols = i ∨ i + cols = j ∨ (j + 1 = i ∧ 0 < i % cols) ∨ (i + 1 = j ∧ i % cols + 1 < cols)

/-- connected to `s` by a path of 4-adjacent cells that are passages (after `s` itself) -/
inductive Conn (rows cols : Nat) (m : List Nat) (s : Nat) : Nat → Prop
  | start : Conn rows cols m s s
  | step {i j : Nat} : Conn rows cols m s j → j < rows * cols → i < rows * cols → Adj cols j i →
      m.getD i 1 = 0 → Conn rows cols m s i

theorem floodN_length {rows cols : Nat} (m : List Nat) (k : Nat) (marks : List Bool)
    (h : marks.length = rows * cols) : (floodN rows cols m k marks).length = rows * cols := by
  cases k with
  | zero => exact h
  | succ k => simp only [floodN]; exact floodStep_length _ _ _ _

theorem getD_true_lt {l : List Bool} {i : Nat} (h : l.getD i false = true) : i < l.length := by
  by_cases hi : i < l.length
  · exact hi
  · rw [List.getD_eq_getElem?_getD, List.getElem?_eq_none (by omega)] at h; cases h

theorem floodN_sound {rows cols : Nat} (m : List Nat) (s : Nat) : ∀ (k i : Nat),
    (floodN rows cols m k ((List.range (rows * cols)).map fun j => j == s)).getD i false = true →
    Conn rows cols m s i := by
  intro k
  induction k with
  | zero =>
    intro i h
    simp only [floodN] at h
    have hi : i < rows * cols := by have := getD_true_lt h; simpa using this
    rw [List.getD_eq_getElem?_getD, List.getElem?_map, List.getElem?_range hi] at h
    simp only [Option.map_some, Option.getD_some, beq_iff_eq] at h
    subst h; exact .start
  | succ k ih =>
    intro i h
    have hlen := floodN_length (rows := rows) (cols := cols) m k
      ((List.range (rows * cols)).map fun j => j == s) (by simp)
    have hi : i < rows * cols := by
      have := getD_true_lt h
      rw [floodN_length m (k + 1) _ (by simp)] at this; exact this
    simp only [floodN] at h
    rw [floodStep_getD m _ hi] at h
    simp only [Bool.or_eq_true, Bool.and_eq_true, beq_iff_eq, decide_eq_true_eq] at h
    rcases h with h | ⟨hz, h⟩
    · exact ih i h
    · rcases h with ((⟨h1, h2⟩ | ⟨h1, h2⟩) | ⟨h1, h2⟩) | ⟨h1, h2⟩
      · have hge : cols ≤ i := by
          by_cases hc : cols ≤ i
          · exact hc
          · rw [Nat.div_eq_of_lt (by omega)] at h1; omega
        have hj := getD_true_lt h2
        rw [hlen] at hj
        exact .step (ih _ h2) hj hi (Or.inl (by omega)) hz
      · have hj := getD_true_lt h2
        rw [hlen] at hj
        exact .step (ih _ h2) hj hi (Or.inr (Or.inl rfl)) hz
      · have hj := getD_true_lt h2
        rw [hlen] at hj
        have hpos : 0 < i := by
          rcases Nat.eq_zero_or_pos i with h0 | h0
          · rw [h0] at h1; simp at h1
          · exact h0
        exact .step (ih _ h2) hj hi (Or.inr (Or.inr (Or.inl ⟨by omega, h1⟩))) hz
      · have hj := getD_true_lt h2
        rw [hlen] at hj
        exact .step (ih _ h2) hj hi (Or.inr (Or.inr (Or.inr ⟨rfl, h1⟩))) hz

/-- **reading of `specMaze`**: a table of `rows*cols` cells with values 0/1, the start is a passage
inside the grid, and every passage is connected to the start through passages -/
theorem specMaze_reading {rows cols : Nat} {start : Pos} {m : List Nat}
    (h : specMaze rows cols start m = true) :
    m.length = rows * cols ∧ (∀ v ∈ m, v ≤ 1) ∧ startInGrid rows cols start ∧
    m.getD (startIdx cols start) 1 = 0 ∧
    ∀ i, i < rows * cols → m.getD i 1 = 0 → Conn rows cols m (startIdx cols start) i := by
  unfold specMaze at h
  simp only [Bool.and_eq_true, beq_iff_eq, List.all_eq_true, decide_eq_true_eq, Bool.or_eq_true,
    bne_iff_ne, ne_eq] at h
  obtain ⟨⟨⟨⟨⟨⟨⟨h1, h2⟩, h3⟩, h4⟩, h5⟩, h6⟩, h7⟩, h8⟩ := h
  refine ⟨h1, h2, ⟨h3, h4, h5, h6⟩, h7, ?_⟩
  intro i hi hz
  rcases h8 i (List.mem_range.mpr hi) with h | h
  · exact absurd hz h
  · rw [flood_eq_floodN] at h
    exact floodN_sound m _ _ i h

end Maze
end Abmarl
