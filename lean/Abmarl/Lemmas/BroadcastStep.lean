import Abmarl.Lemmas.Broadcast
import Abmarl.Lemmas.ExamplesNoRaise
import Abmarl.Lemmas.ExamplesPos
import Abmarl.Lemmas.AttacksWin
/-!
# `BroadcastSim.step` returns for in-space actions under the configuration hypothesis

`determine_broadcast` is characterised as a `flatMap` over the window (`determine_eq`): under the hypothesis that the
sender's encoding is a key of the mapping its double loop appends, cell by cell in row-major order, the occupants of the
visible in-grid cells other than the sender whose encoding the row allows.  Every agent it returns stands in a cell of
the grid (hence is an agent of the simulation) and has an allowed encoding (hence, by `cfgHypb`, a receiving list).
-/
namespace Abmarl
namespace BC
open World Ex

/-- a loop whose body appends -/
theorem foldE_append {β γ : Type} (f : List γ → β → Except GErr (List γ)) (g : β → List γ)
    (hf : ∀ acc x, f acc x = .ok (acc ++ g x)) :
    ∀ (l : List β) (acc : List γ), foldE f acc l = .ok (acc ++ l.flatMap g) := by
  intro l
  induction l with
  | nil => intro acc; simp [foldE]
  | cons x xs ih =>
    intro acc
    simp only [foldE, hf, ih, List.flatMap_cons, List.append_assoc]

theorem flatMap_singleton_filter {γ : Type} (p : γ → Bool) (l : List γ) :
    l.flatMap (fun o => [o].filter p) = l.filter p := by
  induction l with
  | nil => rfl
  | cons x xs ih =>
    rw [List.flatMap_cons, ih]
    by_cases hx : p x = true <;> simp [List.filter_cons, hx]

/-- what the scan takes from one cell -/
def sel (cfg : Cfg) (w : World) (a : Aid) (l : List Int) (i j : Nat) : List Aid :=
  if Observers.at2 (Observers.maskFor w a (cfg.rangeOf a)) i j false then
    ((Observers.at2 (Observers.localGrid w a (cfg.rangeOf a)) i j none).getD []).filter
      fun o => decide (o ≠ a) && decide (w.encOf o ∈ l)
  else []

theorem scanOther_eq {cfg : Cfg} {w : World} {a : Aid} {l : List Int} (hl : cfg.mapping.lookup (w.encOf a) = some l)
    (acc : List Aid) (o : Aid) :
    scanOther cfg w a acc o = .ok (acc ++ [o].filter fun o => decide (o ≠ a) && decide (w.encOf o ∈ l)) := by
  unfold scanOther
  by_cases hoa : o = a
  · simp [hoa]
  · simp only [hoa, if_false, hl]
    by_cases hm : w.encOf o ∈ l
    · simp [hm, hoa]
    · simp [hm]

theorem scanCell_eq {cfg : Cfg} {w : World} {a : Aid} {l : List Int} (hl : cfg.mapping.lookup (w.encOf a) = some l)
    (i j : Nat) (acc : List Aid) :
    scanCell cfg w a (Observers.at2 (Observers.maskFor w a (cfg.rangeOf a)) i j false)
      (Observers.at2 (Observers.localGrid w a (cfg.rangeOf a)) i j none) acc = .ok (acc ++ sel cfg w a l i j) := by
  unfold scanCell sel
  split
  · cases hc : Observers.at2 (Observers.localGrid w a (cfg.rangeOf a)) i j none with
    | none => simp
    | some occ =>
      simp only [Option.getD_some]
      rw [foldE_append (scanOther cfg w a) (fun o => [o].filter fun o => decide (o ≠ a) && decide (w.encOf o ∈ l))
        (scanOther_eq hl) occ acc]
      rw [flatMap_singleton_filter]
  · simp

/-- **the double loop of `determine_broadcast`** -/
theorem determine_eq {cfg : Cfg} {w : World} {a : Aid} {l : List Int} (hl : cfg.mapping.lookup (w.encOf a) = some l)
    (hp : w.inGrid (w.stOf a).pos = true) :
    determine cfg w a = .ok ((List.range (2 * cfg.rangeOf a + 1)).flatMap fun i =>
      (List.range (2 * cfg.rangeOf a + 1)).flatMap fun j => sel cfg w a l i j) := by
  unfold determine
  simp only [hp, Bool.not_true, Bool.false_eq_true, if_false]
  rw [foldE_append _ (fun i => (List.range (2 * cfg.rangeOf a + 1)).flatMap fun j => sel cfg w a l i j)]
  · simp
  · intro acc i
    exact foldE_append _ (fun j => sel cfg w a l i j) (fun acc j => scanCell_eq hl i j acc) _ acc

/-- whoever the scan returns is an agent of the simulation, not the sender, with an allowed encoding -/
theorem mem_determine {cfg : Cfg} {w : World} {a : Aid} {l : List Int} (hI : w.WInv = true)
    (hl : cfg.mapping.lookup (w.encOf a) = some l) (hp : w.inGrid (w.stOf a).pos = true) {tos : List Aid}
    (h : determine cfg w a = .ok tos) {b : Aid} (hb : b ∈ tos) : b < w.n ∧ b ≠ a ∧ w.encOf b ∈ l := by
  rw [determine_eq hl hp] at h
  simp only [Except.ok.injEq] at h
  subst h
  simp only [List.mem_flatMap, List.mem_range] at hb
  obtain ⟨i, hi, j, hj, hb⟩ := hb
  unfold sel at hb
  split at hb
  · rw [Observers.at2_localGrid w a _ i j hp hi hj] at hb
    split at hb
    · rename_i hin
      simp only [Option.getD_some, List.mem_filter, Bool.and_eq_true, decide_eq_true_eq] at hb
      exact ⟨((mem_cell_iff_pos hI _ b).mp ⟨hin, hb.1⟩).1, hb.2.1, hb.2.2⟩
    · simp at hb
  · cases hb

/-- **soundness of the scan**: whoever `determine_broadcast` returns is *reached* in the sense of the specification
(`BC.reaches`: another active agent of the simulation within the broadcast range, with an allowed encoding, on a cell
that the rule of C10 does not hide) -/
theorem determine_sound {cfg : Cfg} {w : World} {a : Aid} {l : List Int} (hI : w.WInv = true)
    (hl : cfg.mapping.lookup (w.encOf a) = some l) (hp : w.inGrid (w.stOf a).pos = true) {tos : List Aid}
    (h : determine cfg w a = .ok tos) {b : Aid} (hb : b ∈ tos) : reaches cfg w a b = true := by
  rw [determine_eq hl hp] at h
  simp only [Except.ok.injEq] at h
  subst h
  simp only [List.mem_flatMap, List.mem_range] at hb
  obtain ⟨i, hi, j, hj, hb⟩ := hb
  unfold sel at hb
  split at hb
  · rename_i hvis
    rw [Observers.at2_maskFor w a _ i j hi hj] at hvis
    rw [Observers.at2_localGrid w a _ i j hp hi hj] at hb
    split at hb
    · rename_i hin
      simp only [Option.getD_some, List.mem_filter, Bool.and_eq_true, decide_eq_true_eq] at hb
      obtain ⟨hbn, hact, hpos⟩ := (mem_cell_iff_pos hI _ b).mp ⟨hin, hb.1⟩
      have h1 : (Observers.offsetOf w a b).1 = (i : Int) - (cfg.rangeOf a : Int) := by
        simp only [Observers.offsetOf, hpos, Observers.winPos]; omega
      have h2 : (Observers.offsetOf w a b).2 = (j : Int) - (cfg.rangeOf a : Int) := by
        simp only [Observers.offsetOf, hpos, Observers.winPos]; omega
      simp only [reaches, h1, h2, hl, Bool.and_eq_true, bne_iff_ne, ne_eq, decide_eq_true_eq, Mask.inWin]
      refine ⟨⟨⟨⟨⟨⟨hb.2.1, hbn⟩, hact⟩, by omega, by omega⟩, by omega, by omega⟩, hb.2.2⟩, hvis⟩
    · simp at hb
  · cases hb

/-! ## the three loops return -/

theorem cfgHyp_reading {cfg : Cfg} {w : World} (h : cfgHypb cfg w = true) {a : Aid} (ha : a < w.n)
    (hb : cfg.isB a = true) :
    ∃ l, cfg.mapping.lookup (w.encOf a) = some l ∧ ∀ o < w.n, w.encOf o ∈ l → cfg.isB o = true := by
  simp only [cfgHypb, List.all_eq_true, List.mem_range, Bool.or_eq_true, Bool.not_eq_true'] at h
  have := h a ha
  rcases this with h1 | h1
  · rw [hb] at h1; cases h1
  · cases hl : cfg.mapping.lookup (w.encOf a) with
    | none => rw [hl] at h1; cases h1
    | some l =>
      rw [hl] at h1
      simp only [List.all_eq_true, List.mem_range, Bool.or_eq_true, Bool.not_eq_true', decide_eq_false_iff_not] at h1
      refine ⟨l, rfl, fun o ho hm => ?_⟩
      rcases h1 o ho with h2 | h2
      · exact absurd hm h2
      · exact h2

theorem updateRecipients_returns {cfg : Cfg} {n : Nat} {msgs : List (Option Rat)} (hM : MsgsOK cfg n msgs)
    {sender : Aid} (hs : sender < n) (hb : cfg.isB sender = true) :
    ∀ (tos : List Aid) (r : Recv), (∀ b ∈ tos, b < n ∧ cfg.isB b = true) → RecvOK cfg n r →
      ∃ r', updateRecipients msgs r sender tos = .ok r' := by
  intro tos
  induction tos with
  | nil => intro r _ _; exact ⟨r, rfl⟩
  | cons b rest ih =>
    intro r htos hR
    obtain ⟨m, hm, hu⟩ := (hM.2 sender hs).1 hb
    have hkey : b ∈ r.map (·.1) := by
      rw [hR.1]; exact (mem_bcasters cfg n b).mpr (htos b List.mem_cons_self)
    obtain ⟨l, hl⟩ := Option.isSome_iff_exists.mp (lookup_isSome_of_mem_keys r b hkey)
    have hm' : msgs[sender]?.getD none = some m := by simpa [List.getD_eq_getElem?_getD] using hm
    have h1 : recip1 msgs sender r b = .ok (dictSet r b (l ++ [(sender, m)])) := by
      simp [recip1, hl, hm', appendRecv]
    have hR1 : RecvOK cfg n (dictSet r b (l ++ [(sender, m)])) :=
      appendRecv_ok hR ⟨hb, hs, hu⟩ (show appendRecv r b (sender, m) = .ok _ by simp [appendRecv, hl])
    obtain ⟨r', hr'⟩ := ih _ (fun x hx => htos x (List.mem_cons_of_mem _ hx)) hR1
    exact ⟨r', by simp only [updateRecipients, foldE, h1]; exact hr'⟩

theorem actInSpace_reading {cfg : Cfg} {w : World} {x : Aid × Act} (h : actInSpace cfg w x = true) :
    x.1 < w.n ∧ (MoveCall.move x.1 x.2.move).inSpace w = true := by
  simp only [actInSpace, Bool.and_eq_true, decide_eq_true_eq] at h
  exact ⟨h.1.1, h.1.2⟩

/-- the first loop returns -/
theorem foldE_bcast1_returns {cfg : Cfg} {w : World} {msgs : List (Option Rat)} (hI : w.WInv = true)
    (hP : AllInGrid w) (hH : cfgHypb cfg w = true) (hM : MsgsOK cfg w.n msgs) :
    ∀ (acts : List (Aid × Act)) (r : Recv), (∀ x ∈ acts, x.1 < w.n) → RecvOK cfg w.n r →
      ∃ r', foldE (bcast1 cfg w msgs) r acts = .ok r' := by
  intro acts
  induction acts with
  | nil => intro r _ _; exact ⟨r, rfl⟩
  | cons x xs ih =>
    intro r hx hR
    have hlt := hx x List.mem_cons_self
    have h1 : ∃ r1, bcast1 cfg w msgs r x = .ok r1 := by
      unfold bcast1
      simp only [Nat.not_le.mpr hlt, if_false]
      by_cases hb : cfg.isB x.1 = true
      · simp only [hb, if_true]
        by_cases hbc : x.2.broadcast ≠ 0
        · rw [if_pos hbc]
          obtain ⟨l, hl, hall⟩ := cfgHyp_reading hH hlt hb
          have hp := hP x.1 hlt
          rw [determine_eq hl hp]
          simp only
          refine updateRecipients_returns hM hlt hb _ r (fun b hb' => ?_) hR
          obtain ⟨h1, _, h3⟩ := mem_determine hI hl hp (determine_eq hl hp) hb'
          exact ⟨h1, hall b h1 h3⟩
        · rw [if_neg hbc]; exact ⟨r, rfl⟩
      · have hb' : cfg.isB x.1 = false := by simpa using hb
        simp only [hb', Bool.false_eq_true, if_false]; exact ⟨r, rfl⟩
    obtain ⟨r1, hr1⟩ := h1
    have hR1 : RecvOK cfg w.n r1 := foldE_bcast1 hM [x] r r1 hR (by simp only [foldE, hr1])
    obtain ⟨r', hr'⟩ := ih r1 (fun y hy => hx y (List.mem_cons_of_mem _ hy)) hR1
    exact ⟨r', by simp only [foldE, hr1]; exact hr'⟩

theorem accrue_returns {r : Ledger} {n : Nat} (hk : r.map (·.1) = List.range n) {a : Aid} (ha : a < n) (v : Int) :
    ∃ r', accrue r a v = .ok r' := by
  have hkey : a ∈ r.map (·.1) := by rw [hk]; exact List.mem_range.mpr ha
  obtain ⟨x, hx⟩ := Option.isSome_iff_exists.mp (lookup_isSome_of_mem_keys r a hkey)
  exact ⟨dictSet r a (x + v), by simp [accrue, hx]⟩

/-- the second loop returns -/
theorem foldE_move1_returns {w0 : World} (hcfg : CfgOK w0) : ∀ (acts : List (Aid × Act)) (p : PS),
    (∀ x ∈ acts, x.1 < w0.n ∧ (MoveCall.move x.1 x.2.move).inSpace w0 = true) → XInvA w0 p.w →
    p.r.map (·.1) = List.range w0.n → ∃ p', foldE move1 p acts = .ok p' := by
  intro acts
  induction acts with
  | nil => intro p _ _ _; exact ⟨p, rfl⟩
  | cons x xs ih =>
    intro p hok hX hk
    obtain ⟨hlt, hsp⟩ := hok x List.mem_cons_self
    have hn : p.w.n = w0.n := sframe_n hX.frame
    have hlt' : x.1 < p.w.n := by rw [hn]; exact hlt
    obtain ⟨res, w', hm⟩ := moveAct_ok hX.inv hlt' (hX.alive x.1 hlt').2.2
      (by rw [inSpace_move_sframe hX.frame]; exact hsp)
    have h1 : ∃ p1, move1 p x = .ok p1 := by
      unfold move1 moveAcc
      simp only [Nat.not_le.mpr hlt', if_false, hm]
      split
      · exact ⟨_, rfl⟩
      · obtain ⟨r', hr'⟩ := accrue_returns hk hlt (-10)
        exact ⟨⟨w', r', p.t⟩, by simp only [hr', Except.map]⟩
    obtain ⟨p1, hp1⟩ := h1
    obtain ⟨hX1, hk1⟩ := foldE_move1 hcfg [x] p p1 (fun y hy => by rw [List.mem_singleton.mp hy]; exact ⟨hlt, hsp⟩) hX
      (by simp only [foldE, hp1])
    obtain ⟨p', hp'⟩ := ih p1 (fun y hy => hok y (List.mem_cons_of_mem _ hy)) hX1 (hk1.trans hk)
    exact ⟨p', by simp only [foldE, hp1]; exact hp'⟩

/-- the third loop returns -/
theorem foldE_entropy1_returns {n : Nat} : ∀ (acts : List (Aid × Act)) (p : PS), (∀ x ∈ acts, x.1 < n) →
    p.r.map (·.1) = List.range n → ∃ p', foldE entropy1 p acts = .ok p' := by
  intro acts
  induction acts with
  | nil => intro p _ _; exact ⟨p, rfl⟩
  | cons x xs ih =>
    intro p hok hk
    obtain ⟨r', hr'⟩ := accrue_returns hk (hok x List.mem_cons_self) (-1)
    have hp1 : entropy1 p x = .ok ⟨p.w, r', p.t⟩ := by simp only [entropy1, hr', Except.map]
    obtain ⟨p', hp'⟩ := ih ⟨p.w, r', p.t⟩ (fun y hy => hok y (List.mem_cons_of_mem _ hy))
      ((accrue_keylist hr').symm.trans hk)
    exact ⟨p', by simp only [foldE, hp1]; exact hp'⟩

/-- **`step` returns**: in a state of the invariant, on a configuration satisfying `cfgHypb`, for items that are points
of the declared action spaces -/
theorem step_returns {cfg : Cfg} {w0 : World} (hcfg : CfgOK w0) {s : St} (hG : Good cfg w0 s)
    (hH : cfgHypb cfg s.w = true) {acts : List (Aid × Act)} (hA : ∀ x ∈ acts, actInSpace cfg s.w x = true) :
    ∃ s', step cfg s acts = .ok s' := by
  obtain ⟨r, hr, hk⟩ := hG.led
  obtain ⟨rv, hrv, hR⟩ := hG.recv
  have hn : s.w.n = w0.n := sframe_n hG.x.frame
  have hP := allInGrid_of_alive hG.x.inv hG.x.alive
  have hlt : ∀ x ∈ acts, x.1 < s.w.n := fun x hx => (actInSpace_reading (hA x hx)).1
  have hmv : ∀ x ∈ acts, x.1 < w0.n ∧ (MoveCall.move x.1 x.2.move).inSpace w0 = true := fun x hx => by
    obtain ⟨h1, h2⟩ := actInSpace_reading (hA x hx)
    exact ⟨by rw [← hn]; exact h1, by rw [← inSpace_move_sframe hG.x.frame]; exact h2⟩
  obtain ⟨rv', h1⟩ := foldE_bcast1_returns hG.x.inv hP hH hG.msgs acts rv hlt hR
  obtain ⟨p2, h2⟩ := foldE_move1_returns hcfg acts ⟨s.w, r, s.tape⟩ hmv hG.x (by rw [← hn]; exact hk)
  obtain ⟨_, hk2⟩ := foldE_move1 hcfg acts _ p2 hmv hG.x h2
  obtain ⟨p3, h3⟩ := foldE_entropy1_returns (n := s.w.n) acts p2 hlt (hk2.trans hk)
  exact ⟨{ s with w := p3.w, recv := some rv', rewards := some p3.r, tape := p3.t },
    by simp only [step, hr, hrv, h1, h2, h3]⟩

end BC
end Abmarl
