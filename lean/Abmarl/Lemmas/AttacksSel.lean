import Abmarl.Spec.Attacks
import Abmarl.Lemmas.AttacksBook
import Mathlib.Data.List.Perm.Subperm
import Mathlib.Data.List.Perm.Basic
import Mathlib.Tactic.Linarith
import Mathlib.Algebra.Order.Field.Basic
/-!
# C11 lemmas, part 1: the random consumers, `_basic_criteria`, `_subset_attackables`, and the
step from "the list the actor selected" to the specification

* `Oracle.*` — what the tape consumers return, for **every** tape: `choiceRepl` yields members,
  `choiceNoRepl` a sub-selection (`Subperm`) of the right length
  (`choiceNoRepl_subperm`, `choiceNoRepl_length` in `Lemmas/AttacksBook.lean`), `uniform` a value below 1;
* `Picked` — the legal outcomes of `_subset_attackables`;
* `scanCands_sound` — the scan keeps a sublist of the candidates that pass the deterministic
  tests, all of them when the accuracy is 1, and never raises when the mapping has the row;
* `SelOK` / `AttackSpec_of_SelOK` — the selection clauses of `AttackSpec` survive the ammunition
  filter (a sub-selection) and combine with the bookkeeping clause.
-/
namespace Abmarl
namespace Oracle

theorem getD_cons_eq {β : Type} (x : β) (xs : List β) (i : Nat) (h : i < (x :: xs).length) :
    (x :: xs).getD i x = (x :: xs)[i] := by
  rw [List.getD_eq_getElem?_getD, List.getElem?_eq_getElem h]; rfl

theorem choiceRepl_mem {β : Type} (l : List β) (k : Nat) (t : Tape) :
    ∀ x ∈ (choiceRepl l k t).1, x ∈ l := by
  induction k generalizing t with
  | zero => intro x hx; simp [choiceRepl] at hx
  | succ k ih =>
    cases l with
    | nil => intro x hx; simp [choiceRepl] at hx
    | cons y ys =>
      intro x hx
      simp only [choiceRepl, pop] at hx
      rcases List.mem_cons.mp hx with h | h
      · have hlt : t.headD 0 % (ys.length + 1) < (y :: ys).length := Nat.mod_lt _ (Nat.succ_pos _)
        rw [h, getD_cons_eq y ys _ hlt]
        exact List.getElem_mem _
      · exact ih _ x h

theorem choiceRepl_length {β : Type} (l : List β) (hl : l ≠ []) (k : Nat) (t : Tape) :
    (choiceRepl l k t).1.length = k := by
  induction k generalizing t with
  | zero => simp [choiceRepl]
  | succ k ih =>
    cases l with
    | nil => exact absurd rfl hl
    | cons y ys => simp only [choiceRepl, pop, List.length_cons, ih]

theorem choiceRepl_nil {β : Type} (k : Nat) (t : Tape) : (choiceRepl ([] : List β) k t).1 = [] := by
  cases k <;> simp [choiceRepl]

theorem choice_spec {β : Type} (l : List β) (hl : l ≠ []) (t : Tape) :
    ∃ v, choice l t = (some v, t.tail) ∧ v ∈ l := by
  cases l with
  | nil => exact absurd rfl hl
  | cons y ys =>
    refine ⟨_, rfl, ?_⟩
    have hlt : t.headD 0 % (ys.length + 1) < (y :: ys).length := Nat.mod_lt _ (Nat.succ_pos _)
    rw [getD_cons_eq y ys _ hlt]
    exact List.getElem_mem _

/-- numpy's `uniform()` is below 1: with accuracy 1 an attack never fails -/
theorem uniform_lt_one (t : Tape) : (uniform t).1 < 1 := by
  simp only [uniform, pop]
  rw [Rat.mkRat_eq_div]
  have h : ((t.headD 0 % 1024 : Nat) : Int) < 1024 := by omega
  have h2 : (((t.headD 0 % 1024 : Nat) : Int) : Rat) < 1024 := by exact_mod_cast h
  rw [div_lt_one (by norm_num)]
  exact_mod_cast h2

end Oracle

namespace World

theorem nodup_of_subperm {H L : List Aid} (h : H.Subperm L) (hL : L.Nodup) : H.Nodup := by
  obtain ⟨l, hp, hs⟩ := h
  exact hp.nodup_iff.mp (hs.nodup hL)

/-! ## `_subset_attackables` -/

/-- `P` is a legal outcome of `_subset_attackables(S, k)`: without stacking a sub-selection of
`min k |S|` different positions of `S`, with stacking `k` members of `S` (none if `S` is empty) -/
def Picked (stacked : Bool) (S : List Aid) (k : Nat) (P : List Aid) : Prop :=
  (stacked = true → (∀ x ∈ P, x ∈ S) ∧ P.length = if S = [] then 0 else k) ∧
  (stacked = false → P.Subperm S ∧ P.length = min k S.length)

theorem subsetAttackables_picked (stacked : Bool) (S : List Aid) (k : Nat) (t : Tape) :
    Picked stacked S k (subsetAttackables stacked S k t).1 := by
  unfold subsetAttackables
  cases stacked with
  | true =>
    simp only [Bool.not_true, Bool.false_and, Bool.false_eq_true, if_false, if_true]
    refine ⟨fun _ => ⟨Oracle.choiceRepl_mem S k t, ?_⟩, fun h => (by cases h)⟩
    by_cases hS : S = []
    · rw [hS, Oracle.choiceRepl_nil]; simp
    · rw [Oracle.choiceRepl_length S hS, if_neg hS]
  | false =>
    simp only [Bool.not_false, Bool.true_and, Bool.false_eq_true, if_false]
    by_cases hk : k > S.length
    · simp only [hk, decide_true, if_true]
      exact ⟨fun h => (by cases h), fun _ => ⟨List.Subperm.refl S, by omega⟩⟩
    · simp only [hk, decide_false, Bool.false_eq_true, if_false]
      exact ⟨fun h => (by cases h), fun _ => ⟨Oracle.choiceNoRepl_subperm S k t, Oracle.choiceNoRepl_length S k t⟩⟩

theorem Picked.nil (stacked : Bool) (k : Nat) : Picked stacked [] k [] := by
  refine ⟨fun _ => ⟨fun x hx => (by cases hx), by simp⟩, fun _ => ⟨List.Subperm.refl _, by simp⟩⟩

theorem Picked.mem {stacked : Bool} {S P : List Aid} {k : Nat} (h : Picked stacked S k P) :
    ∀ x ∈ P, x ∈ S := by
  cases stacked with
  | true => exact (h.1 rfl).1
  | false => exact (h.2 rfl).1.subset

theorem Picked.length_eq {stacked : Bool} {S P : List Aid} {k : Nat} (h : Picked stacked S k P) :
    P.length = expected stacked k S.length := by
  unfold expected
  cases stacked with
  | true =>
    rw [(h.1 rfl).2]
    by_cases hS : S = []
    · simp [hS]
    · have : S.length ≠ 0 := fun e => hS (List.length_eq_zero_iff.mp e)
      simp [hS, this]
  | false => simpa using (h.2 rfl).2

theorem Picked.length_le {stacked : Bool} {S P : List Aid} {k : Nat} (h : Picked stacked S k P) :
    P.length ≤ k := by
  rw [h.length_eq]; unfold expected
  cases stacked with
  | true => simp only [if_true]; split <;> omega
  | false => simp only [Bool.false_eq_true, if_false]; omega

theorem Picked.nodup {S P : List Aid} {k : Nat} (h : Picked false S k P) (hS : S.Nodup) : P.Nodup :=
  nodup_of_subperm (h.2 rfl).1 hS

/-! ## `_basic_criteria` and the scan -/

/-- the three deterministic tests of `_basic_criteria` -/
def detOK (cfg : AttackCfg) (w : World) (a b : Aid) : Bool :=
  (b != a) && (w.stOf b).active && mayAttack cfg.mapping w a b

theorem eligible_eq (cfg : AttackCfg) (w : World) (a b : Aid) :
    eligible cfg w a b =
      (detOK cfg w a b && Mask.inWin (w.cfgOf a).attackRange (w.offs a b).1 &&
        Mask.inWin (w.cfgOf a).attackRange (w.offs a b).2 &&
        !Mask.hiddenBySpec (w.cfgOf a).attackRange (w.specBlockers a) (w.offs a b).1 (w.offs a b).2) := rfl

theorem basicCriteria_spec {cfg : AttackCfg} {w : World} {a : Aid} {s : List Int}
    (hmap : cfg.mapping.lookup (w.encOf a) = some s) (b : Aid) (t : Tape) :
    ∃ ok t', basicCriteria cfg w a b t = .ok (ok, t') ∧ (ok = true → detOK cfg w a b = true) ∧
      (1 ≤ (w.cfgOf a).accuracy → ok = detOK cfg w a b) := by
  unfold basicCriteria detOK mayAttack
  rw [hmap]
  by_cases h1 : b = a
  · simp [h1]
  · by_cases h2 : (w.stOf b).active = true
    · by_cases h3 : w.encOf b ∈ s
      · have hne : (b != a) = true := by simpa using h1
        simp only [h1, if_false, h2, Bool.not_true, Bool.false_eq_true, h3, decide_true, hne, Bool.and_self]
        by_cases h4 : (Oracle.uniform t).1 > (w.cfgOf a).accuracy
        · refine ⟨false, (Oracle.uniform t).2, by simp [h4], by simp, ?_⟩
          intro hacc
          have := Oracle.uniform_lt_one t
          exact absurd (lt_of_lt_of_le this hacc) (not_lt.mpr (le_of_lt h4))
        · exact ⟨true, (Oracle.uniform t).2, by simp [h4], by simp, fun _ => rfl⟩
      · exact ⟨false, t, by simp [h1, h2, h3], by simp, by simp [h3]⟩
    · have h2' : (w.stOf b).active = false := by simpa using h2
      exact ⟨false, t, by simp [h1, h2'], by simp, by simp [h2']⟩

/-- the scan never raises (the mapping has the attacker's row), keeps candidates that pass the
deterministic tests only, in order, and keeps all of them when the accuracy is 1 -/
theorem scanCands_sound {cfg : AttackCfg} {w : World} {a : Aid} {s : List Int}
    (hmap : cfg.mapping.lookup (w.encOf a) = some s) (C : List Aid) (t : Tape) :
    ∃ S t', scanCands cfg w a C t = .ok (S, t') ∧ S.Sublist (C.filter (detOK cfg w a)) ∧
      (1 ≤ (w.cfgOf a).accuracy → S = C.filter (detOK cfg w a)) := by
  induction C generalizing t with
  | nil => exact ⟨[], t, rfl, List.Sublist.refl _, fun _ => rfl⟩
  | cons b bs ih =>
    obtain ⟨ok, t1, hb, hok, hacc⟩ := basicCriteria_spec hmap b t
    obtain ⟨S, t2, hs, hsub, hall⟩ := ih t1
    refine ⟨if ok then b :: S else S, t2, by simp [scanCands, hb, hs], ?_, ?_⟩
    · cases hk : ok with
      | true =>
        have := hok hk
        simp only [if_true, List.filter_cons, this]
        exact hsub.cons_cons b
      | false =>
        simp only [Bool.false_eq_true, if_false, List.filter_cons]
        split
        · exact hsub.cons b
        · exact hsub
    · intro h1
      rw [hall h1, hacc h1, List.filter_cons]

/-! ## From the selected list to the specification -/

/-- the eligible agents, in listing order -/
def eligList (cfg : AttackCfg) (w : World) (a : Aid) : List Aid := w.allAgents.filter (eligible cfg w a)

/-- the total number of hits when nobody is skipped (`T` of `specHowMany`) -/
def totalExpected (cfg : AttackCfg) (w : World) (a : Aid) (act : AttackAct) : Nat :=
  ((attackGroups cfg w a act).map fun g =>
    expected cfg.stacked g.lim ((eligList cfg w a).countP g.mem)).sum

theorem specHowMany_eq (cfg : AttackCfg) (w : World) (a : Aid) (act : AttackAct) (hits : List Aid) :
    specHowMany cfg w a act hits =
    ((attackGroups cfg w a act).all (fun g =>
      decide (hits.countP g.mem ≤ g.lim) && decide (hits.countP g.mem ≤ (w.cfgOf a).simAttacks) &&
      (!(decide (1 ≤ (w.cfgOf a).accuracy) &&
          (!(w.cfgOf a).hasAmmo || decide ((totalExpected cfg w a act : Int) ≤ (w.stOf a).ammo))) ||
        hits.countP g.mem == expected cfg.stacked g.lim ((eligList cfg w a).countP g.mem))) &&
    (match cfg.kind with
     | .binary | .restricted => decide (hits.length ≤ (w.cfgOf a).simAttacks)
     | _ => true) &&
    (cfg.stacked || decide hits.Nodup) &&
    (!decide (1 ≤ (w.cfgOf a).accuracy) ||
      hits.length == (if (w.cfgOf a).hasAmmo then min (w.stOf a).ammo.toNat (totalExpected cfg w a act)
                      else totalExpected cfg w a act))) := rfl

/-- what an actor's `_determine_attack` has to guarantee about the list `L` it returns -/
structure SelOK (cfg : AttackCfg) (w : World) (a : Aid) (act : AttackAct) (L : List Aid) : Prop where
  who   : ∀ b ∈ L, b < w.n ∧ eligible cfg w a b = true ∧
            ∃ g ∈ attackGroups cfg w a act, g.mem b = true ∧ 0 < g.lim
  lim   : ∀ g ∈ attackGroups cfg w a act, L.countP g.mem ≤ g.lim ∧ g.lim ≤ (w.cfgOf a).simAttacks
  total : (cfg.kind = .binary ∨ cfg.kind = .restricted) → L.length ≤ (w.cfgOf a).simAttacks
  nodup : cfg.stacked = false → L.Nodup
  exact : 1 ≤ (w.cfgOf a).accuracy → ∀ g ∈ attackGroups cfg w a act,
            L.countP g.mem = expected cfg.stacked g.lim ((eligList cfg w a).countP g.mem)
  len   : 1 ≤ (w.cfgOf a).accuracy → L.length = totalExpected cfg w a act

/-- the selection clauses survive the ammunition filter (`H` is a sub-selection of `L`, all of
`L` when the ammunition suffices) and combine with the bookkeeping clause to `AttackSpec` -/
theorem AttackSpec_of_SelOK {cfg : AttackCfg} {w : World} {a : Aid} {act : AttackAct} {L H : List Aid}
    {w2 : World} (hatt : (w.cfgOf a).attacking = true) (sel : SelOK cfg w a act L) (hsub : H.Subperm L)
    (hno : (w.cfgOf a).hasAmmo = false → H = L)
    (hyes : (w.cfgOf a).hasAmmo = true → H.length = min L.length (w.stOf a).ammo.toNat ∧
      ((L.length : Int) ≤ (w.stOf a).ammo → H = L))
    (hbook : specBook w a H w2 = true) : AttackSpec cfg w a act H w2 = true := by
  unfold AttackSpec
  rw [if_pos hatt]
  simp only [Bool.and_eq_true]
  refine ⟨⟨?_, ?_⟩, hbook⟩
  · -- who
    unfold specWho
    rw [List.all_eq_true]
    intro b hb
    obtain ⟨h1, h2, g, hg, hm, hl⟩ := sel.who b (hsub.subset hb)
    simp only [Bool.and_eq_true, decide_eq_true_eq, List.any_eq_true]
    exact ⟨⟨h1, h2⟩, g, hg, hm, hl⟩
  · -- how many
    rw [specHowMany_eq]
    simp only [Bool.and_eq_true]
    refine ⟨⟨⟨?_, ?_⟩, ?_⟩, ?_⟩
    · rw [List.all_eq_true]
      intro g hg
      obtain ⟨hl1, hl2⟩ := sel.lim g hg
      have hc : H.countP g.mem ≤ L.countP g.mem := hsub.countP_le _
      simp only [Bool.and_eq_true, decide_eq_true_eq, Bool.or_eq_true, Bool.not_eq_true', beq_iff_eq]
      refine ⟨⟨by omega, by omega⟩, ?_⟩
      by_cases hacc : 1 ≤ (w.cfgOf a).accuracy
      · by_cases hammo : (w.cfgOf a).hasAmmo = true
        · by_cases hen : (totalExpected cfg w a act : Int) ≤ (w.stOf a).ammo
          · right
            have hHL : H = L := (hyes hammo).2 (by rw [sel.len hacc]; exact hen)
            rw [hHL]; exact sel.exact hacc g hg
          · left; simp [hacc, hammo, hen]
        · right
          have hHL : H = L := hno (by simpa using hammo)
          rw [hHL]; exact sel.exact hacc g hg
      · left; simp [hacc]
    · have hle : H.length ≤ L.length := hsub.length_le
      cases hk : cfg.kind with
      | binary => simp only [decide_eq_true_eq]; exact le_trans hle (sel.total (Or.inl hk))
      | restricted => simp only [decide_eq_true_eq]; exact le_trans hle (sel.total (Or.inr hk))
      | encoding => rfl
      | selective => rfl
    · cases hst : cfg.stacked with
      | true => rfl
      | false => simp only [Bool.false_or, decide_eq_true_eq]; exact nodup_of_subperm hsub (sel.nodup hst)
    · by_cases hacc : 1 ≤ (w.cfgOf a).accuracy
      · simp only [hacc, decide_true, Bool.not_true, Bool.false_or, beq_iff_eq]
        by_cases hammo : (w.cfgOf a).hasAmmo = true
        · rw [if_pos hammo, (hyes hammo).1, sel.len hacc, Nat.min_comm]
        · rw [if_neg hammo, hno (by simpa using hammo), sel.len hacc]
      · simp [hacc]

end World
end Abmarl
