import Abmarl.Lemmas.Comm
import Abmarl.Lemmas.Managers
/-!
# The invariant behind C20, per-call soundness, the functor lemma

`CInv` links the wrapper's two matrices to the expectations computed from the call history alone;
`commOp_sound` shows that one call inside the domain (a) yields an entry that passes the judge
`c20Entry` and (b) re-establishes the invariant; it is lifted over call sequences in `Props/C20.lean`.
-/
namespace Abmarl
variable {σ α ω ι : Type}

structure CInv (n : Nat) (c : CState σ) (past : List (COp α)) : Prop where
  len : c.received.length = n
  buf : ∀ x y, x < n → y < n → x ≠ y → mget c.buffer x y = expBuffer past x y
  rcv : ∀ x y, x < n → y < n → x ≠ y → mget c.received x y = expFuse past x y

/-- loop invariant along a history: `st` = a reset has happened -/
structure LInv (n : Nat) (c : CState σ) (st : Bool) (past : List (COp α)) : Prop where
  started : c.started = st
  live : st = true → CInv n c past

theorem rowDict_eq {n : Nat} {m : Matrix} {f : Aid → Aid → Bool} {x : Aid}
    (h : ∀ y, y < n → x ≠ y → mget m x y = f x y) : rowDict n m x = expRow n f x := by
  unfold rowDict expRow
  apply List.map_congr_left
  intro y hy
  obtain ⟨h1, h2⟩ := mem_others.mp hy
  rw [h y h1 (fun e => h2 e.symm)]

theorem ghostRows_eq {n : Nat} {m : Matrix} {f : Aid → Aid → Bool}
    (h : ∀ x y, x < n → y < n → x ≠ y → mget m x y = f x y) : ghostRows n true m = expRows n f := by
  unfold ghostRows expRows
  simp only [if_true]
  apply List.map_congr_left
  intro x hx
  exact rowDict_eq (fun y hy hxy => h x y (by simpa using hx) hy hxy)

theorem allClear_expRows (n : Nat) (f : Aid → Aid → Bool) (h : ∀ x y, f x y = false) :
    allClear (expRows n f) = true := by
  simp [allClear, expRows, expRow, h]

theorem expRows_getElem? (n : Nat) (f : Aid → Aid → Bool) (a : Aid) (ha : a < n) :
    (expRows n f)[a]? = some (expRow n f a) := by
  simp [expRows, ha]

/-! ## from the domain predicate to the preconditions of the loops -/

theorem stepPre_of_wf {n : Nat} {c : CState σ} {past : List (COp α)} {acts : List (Aid × CAct α)}
    (hs : c.started = true) (hI : CInv n c past) (hwf : actsWF n past acts = true) : StepPre n c acts := by
  simp only [actsWF, isDict, Bool.and_eq_true, decide_eq_true_eq, List.all_eq_true, actWF] at hwf
  obtain ⟨hnd, hall⟩ := hwf
  refine ⟨hs, hI.len, ⟨hnd, ?_⟩, ⟨hnd, ?_⟩⟩
  · intro p hp
    obtain ⟨hlt, ⟨_, _⟩, hr⟩ := hall p hp
    simp only [recvOK, Bool.and_eq_true, decide_eq_true_eq, List.all_eq_true]
    refine ⟨hlt, fun y hy => ?_⟩
    obtain ⟨h1, h2⟩ := mem_others.mp hy
    rw [hI.buf p.1 y hlt h1 (fun e => h2 e.symm)]
    exact hr y hy
  · intro p hp
    obtain ⟨hlt, ⟨hsd, hsl⟩, _⟩ := hall p hp
    refine ⟨hlt, hsd, fun q hq => ?_⟩
    exact (hsl q hq).1

/-! ## the invariant is re-established by every call -/

theorem CInv.reset (S : CommIface σ α ω ι) (c : CState σ) (past : List (COp α)) :
    CInv S.n (commReset S c) (.reset :: past) :=
  { len := (mzero_shape S.n).1
    buf := fun x y _ _ _ => mget_mzero S.n x y
    rcv := fun x y _ _ _ => mget_mzero S.n x y }

theorem CInv.step {S : CommIface σ α ω ι} {c : CState σ} {past : List (COp α)}
    {acts : List (Aid × CAct α)} (hI : CInv S.n c past) (hp : StepPre S.n c acts) :
    CInv S.n (commStep S c acts).st (.step acts :: past) := by
  obtain ⟨h1, h2, h3⟩ := commStep_matrices S c acts hp
  refine ⟨h1, fun x y _ _ _ => h2 x y, fun x y hx hy hxy => ?_⟩
  rw [h3 x y hy]
  show _ = (match acts.lookup x with
    | some a => expBuffer past x y && (a.receive.lookup y).getD false
    | none => expFuse past x y)
  cases acts.lookup x with
  | none => exact hI.rcv x y hx hy hxy
  | some a =>
    have hne : (y != x) = true := by simpa using fun e : y = x => hxy e.symm
    simp only [hne, Bool.true_and, hI.buf x y hx hy hxy]

theorem CInv.getObs {S : CommIface σ α ω ι} {c : CState σ} {past : List (COp α)} (a : Aid)
    (hI : CInv S.n c past) : CInv S.n ((commSim S).obs c a).2 (.getObs a :: past) :=
  { len := hI.len, buf := hI.buf, rcv := hI.rcv }

/-! ## one call -/

theorem commRunOp_op (S : CommIface σ α ω ι) (c : CState σ) (op : COp α) : (commRunOp S c op).1.op = op := by
  cases op with
  | reset => rfl
  | step acts =>
    simp only [commRunOp]
    split <;> rfl
  | getObs a =>
    simp only [commRunOp]
    split <;> rfl

theorem commOp_sound [DecidableEq α] (S : CommIface σ α ω ι) (c : CState σ) (st : Bool)
    (past : List (COp α)) (op : COp α) (hI : LInv S.n c st past) (hwf : opWF S.n st past op = true) :
    c20Entry S.n past (commRunOp S c op).1 = true ∧
    LInv S.n (commRunOp S c op).2 (st || isReset op) (op :: past) := by
  cases op with
  | reset =>
    have hI' := CInv.reset S c past
    have hz : ghostRows S.n true (mzero S.n) = expRows S.n (fun _ _ => false) :=
      ghostRows_eq (fun x y _ _ _ => mget_mzero S.n x y)
    have hb : expBuffer (COp.reset :: past) = fun _ _ => false := by funext x y; rfl
    have hr : expFuse (COp.reset :: past) = fun _ _ => false := by funext x y; rfl
    refine ⟨?_, ⟨by simp [commRunOp, commReset, isReset], fun _ => hI'⟩⟩
    simp only [c20Entry, commRunOp, mkEntry, commReset, hz, hb, hr, decide_true, Bool.true_and,
      Option.isNone_none, Bool.and_self]
    exact allClear_expRows _ _ (fun _ _ => rfl)
  | step acts =>
    simp only [opWF, Bool.and_eq_true] at hwf
    obtain ⟨hst, hacts⟩ := hwf
    have hs : c.started = true := by rw [hI.started]; exact hst
    have hC := hI.live hst
    have hp := stepPre_of_wf hs hC hacts
    obtain ⟨e1, e2, _, e4, _, _⟩ := commStep_spec S c acts hp
    have hI' := CInv.step hC hp
    have hb := ghostRows_eq hI'.buf
    have hr := ghostRows_eq hI'.rcv
    refine ⟨?_, ⟨by simp [commRunOp, e1, e4, hst], fun _ => by simpa [commRunOp, e1] using hI'⟩⟩
    simp only [c20Entry, commRunOp, mkEntry, e1, e2, e4, hb, hr, decide_true, Bool.true_and,
      Option.isNone_none]
  | getObs a =>
    simp only [opWF, Bool.and_eq_true, decide_eq_true_eq] at hwf
    obtain ⟨hst, ha⟩ := hwf
    have hs : c.started = true := by rw [hI.started]; exact hst
    have hC := hI.live hst
    have hI' := CInv.getObs (S := S) a hC
    have hE : commRunOp S c (.getObs a) =
        (mkEntry S (.getObs a) (.obsOk ((commSim S).obs c a).1) none (some (rowDict S.n c.received a))
          ((commSim S).obs c a).2, ((commSim S).obs c a).2) := by
      simp [commRunOp, hs, ha]
    have hs' : ((commSim S).obs c a).2.started = true := hs
    rw [hE]
    refine ⟨?_, ⟨by simp [hs', hst], fun _ => hI'⟩⟩
    have hb := ghostRows_eq hI'.buf
    have hr := ghostRows_eq hI'.rcv
    have hf : rowDict S.n c.received a = expRow S.n (expFuse past) a :=
      rowDict_eq (fun y hy hxy => hC.rcv a y ha hy hxy)
    have ho : ((commSim S).obs c a).1.buffer = expRow S.n (expBuffer past) a :=
      rowDict_eq (fun y hy hxy => hC.buf a y ha hy hxy)
    have hg : (expRows S.n (expBuffer (COp.getObs a :: past)))[a]? = some (expRow S.n (expBuffer past) a) := by
      rw [expRows_getElem? _ _ _ ha]; rfl
    simp only [c20Entry, mkEntry, hs', hb, hr, hf, ho, hg, decide_true,
      Option.isNone_none, Bool.and_self]

/-! ## readings of the two expectations (non-recursive characterisations) -/

def isGetObs : COp α → Prop
  | .getObs _ => True
  | _ => False

/-- `x` does not act in this call and the call is not a reset -/
def idleFor (x : Aid) : COp α → Prop
  | .reset => False
  | .getObs _ => True
  | .step acts => acts.lookup x = none

/-- `buffer[x][y]` holds iff the most recent call that is not a `get_obs` is a step in which `y`
acted and chose to send to `x` -/
theorem expBuffer_iff (past : List (COp α)) (x y : Aid) :
    expBuffer past x y = true ↔
      ∃ gs acts rest a, past = gs ++ .step acts :: rest ∧ (∀ o ∈ gs, isGetObs o) ∧
        acts.lookup y = some a ∧ a.send.lookup x = some true := by
  induction past with
  | nil => simp [expBuffer]
  | cons op past ih =>
    cases op with
    | reset =>
      simp only [expBuffer, Bool.false_eq_true, false_iff]
      rintro ⟨gs, acts, rest, a, he, hg, _⟩
      cases gs with
      | nil => simp at he
      | cons g gs =>
        simp only [List.cons_append, List.cons.injEq] at he
        have := hg g (by simp)
        rw [← he.1] at this
        exact this
    | getObs b =>
      simp only [expBuffer]
      rw [ih]
      constructor
      · rintro ⟨gs, acts, rest, a, he, hg, h1, h2⟩
        refine ⟨.getObs b :: gs, acts, rest, a, by simp [he], ?_, h1, h2⟩
        intro o ho
        rcases List.mem_cons.mp ho with rfl | ho
        · trivial
        · exact hg o ho
      · rintro ⟨gs, acts, rest, a, he, hg, h1, h2⟩
        cases gs with
        | nil => simp at he
        | cons g gs =>
          simp only [List.cons_append, List.cons.injEq] at he
          exact ⟨gs, acts, rest, a, he.2, fun o ho => hg o (List.mem_cons_of_mem _ ho), h1, h2⟩
    | step acts0 =>
      simp only [expBuffer, sentTo]
      constructor
      · intro h
        cases h1 : acts0.lookup y with
        | none => simp [h1] at h
        | some a =>
          simp only [h1] at h
          refine ⟨[], acts0, past, a, by simp, by simp, h1, ?_⟩
          cases h2 : a.send.lookup x with
          | none => simp [h2] at h
          | some v => simp only [h2, Option.getD_some] at h; rw [h]
      · rintro ⟨gs, acts, rest, a, he, hg, h1, h2⟩
        cases gs with
        | nil =>
          simp only [List.nil_append, List.cons.injEq, COp.step.injEq] at he
          rw [he.1, h1]
          simp [h2]
        | cons g gs =>
          simp only [List.cons_append, List.cons.injEq] at he
          have := hg g (by simp)
          rw [← he.1] at this
          exact this.elim

/-- `fuse[x][y]` holds iff at `x`'s most recent action since the last reset the message from `y` was
pending and `x` chose to receive it -/
theorem expFuse_iff (past : List (COp α)) (x y : Aid) :
    expFuse past x y = true ↔
      ∃ pre acts rest a, past = pre ++ .step acts :: rest ∧ (∀ o ∈ pre, idleFor x o) ∧
        acts.lookup x = some a ∧ a.receive.lookup y = some true ∧ expBuffer rest x y = true := by
  induction past with
  | nil => simp [expFuse]
  | cons op past ih =>
    cases op with
    | reset =>
      simp only [expFuse, Bool.false_eq_true, false_iff]
      rintro ⟨pre, acts, rest, a, he, hg, _⟩
      cases pre with
      | nil => simp at he
      | cons g gs =>
        simp only [List.cons_append, List.cons.injEq] at he
        have := hg g (by simp)
        rw [← he.1] at this
        exact this
    | getObs b =>
      simp only [expFuse]
      rw [ih]
      constructor
      · rintro ⟨pre, acts, rest, a, he, hg, h1, h2, h3⟩
        refine ⟨.getObs b :: pre, acts, rest, a, by simp [he], ?_, h1, h2, h3⟩
        intro o ho
        rcases List.mem_cons.mp ho with rfl | ho
        · trivial
        · exact hg o ho
      · rintro ⟨pre, acts, rest, a, he, hg, h1, h2, h3⟩
        cases pre with
        | nil => simp at he
        | cons g gs =>
          simp only [List.cons_append, List.cons.injEq] at he
          exact ⟨gs, acts, rest, a, he.2, fun o ho => hg o (List.mem_cons_of_mem _ ho), h1, h2, h3⟩
    | step acts0 =>
      simp only [expFuse]
      cases h0 : acts0.lookup x with
      | some a0 =>
        simp only [Bool.and_eq_true]
        constructor
        · rintro ⟨hb, hr⟩
          refine ⟨[], acts0, past, a0, by simp, by simp, h0, ?_, hb⟩
          cases h2 : a0.receive.lookup y with
          | none => simp [h2] at hr
          | some v => simp only [h2, Option.getD_some] at hr; rw [hr]
        · rintro ⟨pre, acts, rest, a, he, hg, h1, h2, h3⟩
          cases pre with
          | nil =>
            simp only [List.nil_append, List.cons.injEq, COp.step.injEq] at he
            obtain ⟨rfl, rfl⟩ := he
            rw [h0] at h1
            cases h1
            exact ⟨h3, by simp [h2]⟩
          | cons g gs =>
            simp only [List.cons_append, List.cons.injEq] at he
            have := hg g (by simp)
            rw [← he.1] at this
            simp only [idleFor, h0] at this
            cases this
      | none =>
        simp only []
        rw [ih]
        constructor
        · rintro ⟨pre, acts, rest, a, he, hg, h1, h2, h3⟩
          refine ⟨.step acts0 :: pre, acts, rest, a, by simp [he], ?_, h1, h2, h3⟩
          intro o ho
          rcases List.mem_cons.mp ho with rfl | ho
          · exact h0
          · exact hg o ho
        · rintro ⟨pre, acts, rest, a, he, hg, h1, h2, h3⟩
          cases pre with
          | nil =>
            simp only [List.nil_append, List.cons.injEq, COp.step.injEq] at he
            rw [← he.1, h0] at h1
            cases h1
          | cons g gs =>
            simp only [List.cons_append, List.cons.injEq] at he
            exact ⟨gs, acts, rest, a, he.2, fun o ho => hg o (List.mem_cons_of_mem _ ho), h1, h2, h3⟩

/-! ## the functor lemma: a wrapped lawful simulation is lawful -/

theorem comm_lawful (S : CommIface σ α ω ι) (h : ∀ rows, Lawful (S.toSim rows)) : Lawful (commSim S) where
  obs_done := fun c a b => (h fun _ => rowDict S.n c.received a).obs_done c.sim a b
  obs_allDone := fun c a => (h fun _ => rowDict S.n c.received a).obs_allDone c.sim a
  obs_next := fun c a => (h fun _ => rowDict S.n c.received a).obs_next c.sim a
  obs_pending := fun c a b => (h fun _ => rowDict S.n c.received a).obs_pending c.sim a b
  rew_done := fun c a b => (h fun _ => []).rew_done c.sim a b
  rew_allDone := fun c a => (h fun _ => []).rew_allDone c.sim a
  rew_next := fun c a => (h fun _ => []).rew_next c.sim a
  rew_val := fun c a => (h fun _ => []).rew_val c.sim a
  rew_pending := fun c a b => (h fun _ => []).rew_pending c.sim a b

end Abmarl
