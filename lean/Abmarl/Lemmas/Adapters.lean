import Abmarl.Spec.Adapters
import Abmarl.Lemmas.ManagersInv
/-!
# Lemmas behind C15 (OpenSpiel adapter)
-/
namespace Abmarl
variable {σ α ω ι : Type}

theorem appendObs_spec {S : SimIface σ α ω ι} (hS : Lawful S) :
    ∀ (l : List Aid) (obs : List (Aid × ω)) (s : σ),
      (∃ extra, (appendObs S l obs s).1 = obs ++ extra) ∧
      (∀ a, a ∈ keys (appendObs S l obs s).1 ↔ a ∈ keys obs ∨ a ∈ l) ∧
      SameView S s (appendObs S l obs s).2 ∧
      (∀ b, S.pending (appendObs S l obs s).2 b = S.pending s b) := by
  intro l
  induction l with
  | nil => intro obs s; exact ⟨⟨[], by simp [appendObs]⟩, by simp [appendObs], SameView.refl S s, fun _ => rfl⟩
  | cons a as ih =>
    intro obs s
    by_cases h : a ∈ obs.map (·.1)
    · obtain ⟨h1, h2, h3, h4⟩ := ih obs s
      have hE : appendObs S (a :: as) obs s = appendObs S as obs s := by simp [appendObs, h]
      rw [hE]
      refine ⟨h1, ?_, h3, h4⟩
      intro x; rw [h2 x]
      constructor
      · rintro (h' | h')
        · exact Or.inl h'
        · exact Or.inr (List.mem_cons_of_mem _ h')
      · rintro (h' | h')
        · exact Or.inl h'
        · rcases List.mem_cons.mp h' with rfl | h''
          · exact Or.inl h
          · exact Or.inr h''
    · obtain ⟨⟨extra, h1⟩, h2, h3, h4⟩ := ih (obs ++ [(a, (S.obs s a).1)]) (S.obs s a).2
      have hE : appendObs S (a :: as) obs s =
          appendObs S as (obs ++ [(a, (S.obs s a).1)]) (S.obs s a).2 := by simp [appendObs, h]
      rw [hE]
      refine ⟨⟨(a, (S.obs s a).1) :: extra, by rw [h1]; simp⟩, ?_, ?_, ?_⟩
      · intro x; rw [h2 x]
        simp only [keys, List.map_append, List.map_cons, List.map_nil, List.mem_append,
          List.mem_cons, List.not_mem_nil, or_false]
        constructor
        · rintro ((h' | h') | h')
          · exact Or.inl h'
          · exact Or.inr (Or.inl h')
          · exact Or.inr (Or.inr h')
        · rintro (h' | h' | h')
          · exact Or.inl (Or.inl h')
          · exact Or.inl (Or.inr h')
          · exact Or.inr h'
      · have : SameView S s (S.obs s a).2 := ⟨hS.obs_done s a, hS.obs_allDone s a, hS.obs_next s a⟩
        exact this.trans h3
      · intro b; rw [h4 b, hS.obs_pending]

theorem appendReward_spec (l : List Aid) (rew : List (Aid × Int)) :
    (∀ p ∈ rew, p ∈ appendReward l rew) ∧
    (∀ p ∈ appendReward l rew, p ∈ rew ∨ p.2 = 0) ∧
    (∀ a, a ∈ keys (appendReward l rew) ↔ a ∈ keys rew ∨ a ∈ l) := by
  refine ⟨fun p hp => List.mem_append_left _ hp, ?_, ?_⟩
  · intro p hp
    rcases List.mem_append.mp hp with h | h
    · exact Or.inl h
    · right
      obtain ⟨a, _, rfl⟩ := List.mem_map.mp h
      rfl
  · intro a
    simp only [appendReward, keys, List.map_append, List.map_map, List.mem_append, List.mem_map,
      List.mem_filter, Function.comp, Bool.not_eq_true', decide_eq_false_iff_not]
    constructor
    · rintro (h | ⟨x, ⟨hx, _⟩, rfl⟩)
      · exact Or.inl h
      · exact Or.inr hx
    · rintro (h | h)
      · exact Or.inl h
      · by_cases hk : ∃ p ∈ rew, p.1 = a
        · exact Or.inl hk
        · right
          refine ⟨a, ⟨h, ?_⟩, rfl⟩
          simpa using hk

/-- reading observations off the simulation does not disturb the manager invariant -/
theorem Inv.of_sim {S : SimIface σ α ω ι} {k : MKind} {m : MState σ} {g : GSt} (h : Inv S k m g)
    (s' : σ) (hp : ∀ b, S.pending s' b = S.pending m.sim b) : Inv S k { m with sim := s' } g :=
  { ds := h.ds
    pend := by
      rw [h.pend]
      apply List.map_congr_left
      intro b _
      exact (hp b).symm
    live := h.live
    ptr := h.ptr }

end Abmarl

namespace Abmarl
variable {σ α ω ι : Type}

/-- what links the adapter's state to the ghost state computed from its outputs -/
structure OSInv (S : SimIface σ α ω ι) (k : MKind) (st : OSState σ) (gh : OSGhost) : Prop where
  sr : gh.shouldReset = st.shouldReset
  cur : gh.current = st.current
  live : st.shouldReset = false →
    Inv S k st.m gh.g ∧ gh.g.started = true ∧ gh.g.over = false ∧
    (k = .turnBased → st.current ∈ S.learners ∧ st.current ∉ gh.g.R) ∧
    (∃ a ∈ S.learners, a ∉ gh.g.R)

theorem sameSet_of_iff {a b : List Aid} (h : ∀ x, x ∈ a ↔ x ∈ b) : sameSet a b = true := by
  simp only [sameSet, Bool.and_eq_true, List.all_eq_true, decide_eq_true_eq]
  exact ⟨fun x hx => (h x).mp hx, fun x hx => (h x).mpr hx⟩

theorem isLearner_of_mem {S : SimIface σ α ω ι} {a : Aid} (h : a ∈ S.learners) :
    isLearner S.n S.learning a = true := by
  have := (mem_learners S a).mp h
  simp [isLearner, this.1, this.2]

theorem osReset_sound [DecidableEq α] [DecidableEq ω] {S : SimIface σ α ω ι} {k : MKind} (hW : WF S k)
    (hk : k ≠ .dynamic) (hl : S.learners ≠ []) (st : OSState σ) (gh : OSGhost)
    (call : Option (List α)) (hbr : (call.isNone || gh.shouldReset) = true) :
    c15Call k S.n S.learning gh call (osReset S k st).1 = true ∧
    OSInv S k (osReset S k st).2 (osGhostNext gh (osReset S k st).1) := by
  have hS := hW.lawful
  obtain ⟨rs, hrs⟩ : ∃ rs, rs = runOp (α := α) S k st.m .reset := ⟨_, rfl⟩
  obtain ⟨h01, h07, _, hinv'⟩ := reset_sound (α := α) hW st.m gh.g
  rw [← hrs] at h01 h07 hinv'
  have hop : rs.1.op = .reset := by rw [hrs]; exact runOp_op S k st.m _
  obtain ⟨obs, hobs⟩ : ∃ obs, rs.1.res = .resetOk obs := by
    cases hr : rs.1.res with
    | resetOk o => exact ⟨o, rfl⟩
    | stepOk o => simp [c01Entry, hop, hr] at h01
    | err e => simp [c01Entry, hop, hr] at h01
  -- the reset reports learning agents only, and at least one
  have hkeys : (∀ a ∈ keys obs, a ∈ S.learners) ∧ keys obs ≠ [] := by
    cases k with
    | dynamic => exact absurd rfl hk
    | allStep =>
      simp only [c07Entry, hop, hobs, Bool.and_eq_true, sameSet, List.all_eq_true, decide_eq_true_eq] at h07
      refine ⟨fun a ha => h07.1.1 a ha, ?_⟩
      intro he
      obtain ⟨a, ha⟩ := List.exists_mem_of_ne_nil _ hl
      have := h07.1.2 a ha
      rw [he] at this; cases this
    | turnBased =>
      simp only [c07Entry, hop, hobs, Bool.and_eq_true, beq_iff_eq] at h07
      have h1 : keys obs = S.learners.take 1 := h07.1
      refine ⟨fun a ha => List.mem_of_mem_take (h1 ▸ ha), ?_⟩
      rw [h1]
      cases hL : S.learners with
      | nil => exact absurd hL hl
      | cons x xs => simp
  obtain ⟨p, hp⟩ : ∃ p, obs.head? = some p := by
    cases ho : obs with
    | nil => rw [ho] at hkeys; exact absurd rfl hkeys.2
    | cons x xs => exact ⟨x, rfl⟩
  have hpk : p.1 ∈ keys obs := by
    cases ho : obs with
    | nil => rw [ho] at hp; cases hp
    | cons x xs => rw [ho] at hp; cases hp; simp [keys]
  obtain ⟨ao, hao⟩ : ∃ ao, ao = appendObs S S.learners obs rs.2.sim := ⟨_, rfl⟩
  obtain ⟨⟨extra, hpre⟩, haok, haov, haop⟩ := appendObs_spec hS S.learners obs rs.2.sim
  rw [← hao] at hpre haok haov haop
  have hE : osReset (α := α) S k st =
      (⟨.ok { infoState := ao.1, legal := S.learners, current := p.1, rewards := none, stepType := .first },
        [rs.1]⟩,
       { m := { rs.2 with sim := ao.2 }, shouldReset := false, current := p.1 }) := by
    simp only [osReset, ← hrs, hobs, hp, ← hao]
  rw [hE]
  have hgR : (gNext gh.g rs.1).R = [] := by simp [gNext, hobs]
  have hgO : (gNext gh.g rs.1).over = false := by simp [gNext, hobs]
  have hgS : (gNext gh.g rs.1).started = true := by simp [gNext, hobs]
  have hpl : p.1 ∈ S.learners := hkeys.1 p.1 hpk
  constructor
  · -- the specification of the call
    simp only [c15Call, hbr, if_true, Bool.and_eq_true]
    refine ⟨⟨⟨⟨?_, ?_⟩, trivial⟩, ?_⟩, ?_⟩
    · apply sameSet_of_iff
      intro x; rw [haok x]
      constructor
      · rintro (h | h)
        · exact hkeys.1 x h
        · exact h
      · exact Or.inr
    · simp [SimIface.learners, SimIface.agents]
    · simp only [hop, hobs, Bool.and_eq_true, decide_eq_true_eq, List.all_eq_true]
      refine ⟨⟨⟨trivial, rfl⟩, ?_⟩, by rw [hp]; rfl⟩
      intro q hq; rw [hpre]; exact List.mem_append_left _ hq
    · simp only [foldG, List.foldl_cons, List.foldl_nil, hgR, Bool.or_eq_true, Bool.and_eq_true,
        decide_eq_true_eq]
      right
      exact ⟨isLearner_of_mem hpl, by simp⟩
  · refine ⟨by simp [osGhostNext], by simp [osGhostNext], ?_⟩
    intro _
    simp only [osGhostNext, foldG, List.foldl_cons, List.foldl_nil]
    refine ⟨Inv.of_sim (hinv' hgS hgO) ao.2 haop, hgS, hgO, fun _ => ⟨hpl, by rw [hgR]; simp⟩, ?_⟩
    obtain ⟨a, ha⟩ := List.exists_mem_of_ne_nil _ hl
    exact ⟨a, ha, by rw [hgR]; simp⟩

end Abmarl

namespace Abmarl
variable {σ α ω ι : Type}

theorem pickCurrent_spec (obs : List (Aid × ω)) (dones : List (Aid × Bool)) (hne : obs ≠ []) :
    ∃ cur, pickCurrent obs dones = some cur ∧ cur ∈ keys obs ∧
      ((∃ p ∈ obs, (dones.lookup p.1).getD false = false) → (dones.lookup cur).getD false = false) := by
  unfold pickCurrent
  cases hf : (obs.filter fun p => !((dones.lookup p.1).getD false)).head? with
  | some p =>
    have hp : p ∈ obs.filter fun p => !((dones.lookup p.1).getD false) := List.mem_of_head? hf
    have hp' := List.mem_filter.mp hp
    exact ⟨p.1, rfl, List.mem_map.mpr ⟨p, hp'.1, rfl⟩, fun _ => by simpa using hp'.2⟩
  | none =>
    cases ho : obs with
    | nil => exact absurd ho hne
    | cons x xs =>
      refine ⟨x.1, by simp, by simp [keys], ?_⟩
      rintro ⟨p, hp, hpd⟩
      exfalso
      have hnil : (obs.filter fun p => !((dones.lookup p.1).getD false)) = [] := by
        cases hh : (obs.filter fun p => !((dones.lookup p.1).getD false)) with
        | nil => rfl
        | cons y ys => rw [hh] at hf; simp at hf
      have : p ∈ obs.filter fun p => !((dones.lookup p.1).getD false) := by
        rw [ho]; exact List.mem_filter.mpr ⟨hp, by simp [hpd]⟩
      rw [hnil] at this; cases this

theorem participating_eq_learners {S : SimIface σ α ω ι} {k : MKind} (hk : k ≠ .dynamic) :
    participating k S.n S.learning = S.learners := by
  cases k with
  | dynamic => exact absurd rfl hk
  | allStep => rfl
  | turnBased => rfl

theorem osStep_sound [DecidableEq α] [DecidableEq ω] {S : SimIface σ α ω ι} {k : MKind} (hW : WF S k)
    (hk : k ≠ .dynamic) (hl : S.learners ≠ []) (st : OSState σ) (gh : OSGhost)
    (hI : OSInv S k st gh) (acts : List α) (hc : callOK k S.learners.length (some acts) = true) :
    c15Call k S.n S.learning gh (some acts) (osStep S k st acts).1 = true ∧
    OSInv S k (osStep S k st acts).2 (osGhostNext gh (osStep S k st acts).1) := by
  have hS := hW.lawful
  by_cases hsr : st.shouldReset = true
  · have hE : osStep S k st acts = osReset S k st := by simp [osStep, hsr]
    rw [hE]
    exact osReset_sound hW hk hl st gh (some acts) (by simp [hI.sr, hsr])
  have hsr' : st.shouldReset = false := by simpa using hsr
  have hghsr : gh.shouldReset = false := by rw [hI.sr]; exact hsr'
  obtain ⟨hInv, hst, hov, hturn, hex⟩ := hI.live hsr'
  have hpart := participating_eq_learners (S := S) hk
  have hlearnR : ∀ a, a ∈ S.learners → (a ∈ st.m.doneSet ↔ a ∈ gh.g.R) := by
    intro a ha
    have hal := (mem_learners S a).mp ha
    rw [hInv.ds a]
    constructor
    · rintro (h | ⟨_, h⟩)
      · exact h
      · have := (mem_nonLearners S a).mp h; simp [hal.2] at this
    · exact Or.inl
  -- the action dictionary before and after filtering
  obtain ⟨dict, hdict, hdk⟩ : ∃ dict : List (Aid × α),
      osDict S k st.current acts = Except.ok dict ∧
      (∀ p ∈ dict, p.1 ∈ S.learners) ∧
      (if k = .turnBased then ∃ a rest, acts = a :: rest ∧ dict = [(st.current, a)]
       else dict = S.learners.zip acts ∧ acts.length = S.learners.length) := by
    by_cases hkt : k = .turnBased
    · cases hacts : acts with
      | nil => simp [callOK, hkt, hacts] at hc
      | cons a rest =>
        refine ⟨[(st.current, a)], by simp [osDict, hkt], ⟨?_, ?_⟩⟩
        · intro p hp; simp only [List.mem_singleton] at hp; subst hp; exact (hturn hkt).1
        · simp [hkt]
    · have hlen : acts.length = S.learners.length := by
        have hkt' : (k == MKind.turnBased) = false := by simpa using hkt
        simpa [callOK, hkt'] using hc
      refine ⟨S.learners.zip acts, by simp [osDict, hkt, hlen], ⟨?_, ?_⟩⟩
      · intro p hp; exact (List.of_mem_zip hp).1
      · simp [hkt, hlen]
  obtain ⟨dict', hdict'⟩ : ∃ dict', dict' = dict.filter fun p => !(decide (p.1 ∈ st.m.doneSet)) := ⟨_, rfl⟩
  have hdictR : dict' = dict.filter fun p => decide (p.1 ∉ gh.g.R) := by
    rw [hdict']
    apply List.filter_congr
    intro p hp
    have := hlearnR p.1 (hdk.1 p hp)
    by_cases h : p.1 ∈ st.m.doneSet
    · simp [h, this.mp h]
    · have : p.1 ∉ gh.g.R := fun h' => h (this.mpr h')
      simp [h, this]
  have hne : dict' ≠ [] := by
    by_cases hkt : k = .turnBased
    · obtain ⟨a, rest, _, hd⟩ := (by simpa [hkt] using hdk.2 : ∃ a rest, acts = a :: rest ∧ dict = [(st.current, a)])
      rw [hdictR, hd]
      simp [(hturn hkt).2]
    · obtain ⟨hd, hlen⟩ := (by simpa [hkt] using hdk.2 : dict = S.learners.zip acts ∧ acts.length = S.learners.length)
      obtain ⟨a, ha, haR⟩ := hex
      obtain ⟨i, hi, rfl⟩ := List.getElem_of_mem ha
      have hi' : i < acts.length := by omega
      have hmem : (S.learners[i], acts[i]) ∈ dict := by
        rw [hd]
        have : (S.learners.zip acts)[i]'(by simp; omega) = (S.learners[i], acts[i]) := by simp
        rw [← this]; exact List.getElem_mem _
      intro he
      have : (S.learners[i], acts[i]) ∈ dict' := by
        rw [hdictR]; exact List.mem_filter.mpr ⟨hmem, by simpa using haR⟩
      rw [he] at this; cases this
  -- the manager call
  obtain ⟨r, hr⟩ : ∃ r, r = runOp S k st.m (.step dict') := ⟨_, rfl⟩
  obtain ⟨h01, h07, _, hinv'⟩ :=
    op_sound hW st.m gh.g (.step dict') (fun _ _ => hInv) (fun _ _ => ⟨hst, hov⟩)
  rw [← hr] at h01 h07 hinv'
  have hop : r.1.op = .step dict' := by rw [hr]; exact runOp_op S k st.m _
  have h01' : c01Step k S.n S.learning st.m.shuffle gh.g dict' r.1 = true := by
    simpa [c01Entry, hop] using h01
  obtain ⟨out, hout⟩ : ∃ out, r.1.res = .stepOk out := by
    cases hres : r.1.res with
    | stepOk out => exact ⟨out, rfl⟩
    | resetOk o => simp [c01Step, hres] at h01'
    | err er =>
      exfalso
      obtain ⟨p, hp, hpp⟩ := c01Step_err_blocked h01' hres
      have hpd : p ∈ dict := by rw [hdictR] at hp; exact (List.mem_filter.mp hp).1
      have hpl := hdk.1 p hpd
      rcases hpp with h1 | ⟨_, h2⟩
      · rw [hdictR] at hp
        have := (List.mem_filter.mp hp).2
        simp only [decide_eq_true_eq] at this
        exact this h1
      · have := ((mem_learners S p.1).mp hpl).2
        rw [this] at h2; cases h2
  have u := c01Step_unpack h01' hout
  have hkd : (keys out.dones).Nodup := by rw [u.keysD]; exact u.nodup
  -- something is reported
  have hobsne : out.obs ≠ [] := by
    intro he
    cases hAD : out.allDone with
    | true =>
      obtain ⟨a, ha, haR⟩ := hex
      rcases u.final hAD a (by rw [hpart]; exact ha) with h | h
      · exact haR h
      · rw [he] at h; cases h
    | false =>
      have hprog : ∃ p ∈ out.dones, p.2 = false := by
        cases k with
        | dynamic => exact absurd rfl hk
        | allStep =>
          simp only [c07Entry, hop, hout, hAD, Bool.false_or, Bool.and_eq_true, Bool.or_eq_true,
            List.any_eq_true, Bool.not_eq_true', beq_iff_eq, reduceCtorEq, false_and, or_false] at h07
          exact h07.2
        | turnBased =>
          simp only [c07Entry, hop, hout, hAD, Bool.false_or, Bool.and_eq_true, Bool.or_eq_true,
            List.any_eq_true, Bool.not_eq_true', beq_iff_eq, reduceCtorEq, false_and, or_false] at h07
          exact h07.2
      obtain ⟨p, hp, _⟩ := hprog
      have : p.1 ∈ keys out.dones := List.mem_map.mpr ⟨p, hp, rfl⟩
      rw [u.keysD, he] at this; cases this
  obtain ⟨cur, hcur, hcurk, hcurd⟩ := pickCurrent_spec out.obs out.dones hobsne
  obtain ⟨stype, hstype⟩ : ∃ stype, stype = (if out.allDone then StepType.last else StepType.mid) := ⟨_, rfl⟩
  obtain ⟨ao, hao⟩ : ∃ ao, ao = appendObs S S.learners out.obs r.2.sim := ⟨_, rfl⟩
  obtain ⟨⟨extra, hpre⟩, haok, _, haop⟩ := appendObs_spec hS S.learners out.obs r.2.sim
  rw [← hao] at hpre haok haop
  have hE : osStep S k st acts =
      (⟨.ok { infoState := ao.1, legal := S.learners, current := cur,
              rewards := some (appendReward S.learners out.rewards), stepType := stype }, [r.1]⟩,
       { m := { r.2 with sim := ao.2 }, shouldReset := out.allDone, current := cur }) := by
    have hemp : dict'.isEmpty = false := by
      cases hd : dict' with
      | nil => exact absurd hd hne
      | cons x xs => rfl
    simp only [osStep, hsr', Bool.false_eq_true, if_false, hdict, ← hdict', hemp, ← hr, hout, hcur,
      ← hao, ← hstype]
  rw [hE]
  obtain ⟨hrw1, hrw2, hrwk⟩ := appendReward_spec S.learners out.rewards
  have hkeysL : ∀ a ∈ keys out.obs, a ∈ S.learners := fun a ha => by rw [← hpart]; exact u.part a ha
  have hgR : (gNext gh.g r.1).R = gh.g.R ++ newlyDone out.dones := by simp [gNext, hout]
  have hgO : (gNext gh.g r.1).over = out.allDone := by simp [gNext, hout]
  have hgS : (gNext gh.g r.1).started = gh.g.started := by simp [gNext, hout]
  -- the current player of a non-final turn-based step can still act
  have hcurlive : out.allDone = false → k = .turnBased →
      cur ∈ S.learners ∧ cur ∉ (gNext gh.g r.1).R := by
    intro hAD hkt
    subst hkt
    refine ⟨hkeysL cur hcurk, ?_⟩
    have hprog : ∃ p ∈ out.dones, p.2 = false := by
      simp only [c07Entry, hop, hout, hAD, Bool.false_or, Bool.and_eq_true, Bool.or_eq_true,
        List.any_eq_true, Bool.not_eq_true', beq_iff_eq, reduceCtorEq, false_and, or_false] at h07
      exact h07.2
    obtain ⟨q, hq, hqd⟩ := hprog
    have hqk : q.1 ∈ keys out.obs := by rw [← u.keysD]; exact List.mem_map.mpr ⟨q, hq, rfl⟩
    obtain ⟨q', hq', hq'e⟩ := List.mem_map.mp hqk
    have hlk : out.dones.lookup q.1 = some q.2 := lookup_of_mem_nodup out.dones hkd q.1 q.2 hq
    have hcd := hcurd ⟨q', hq', by rw [hq'e, hlk, hqd]; rfl⟩
    rw [hgR]
    simp only [List.mem_append, not_or]
    refine ⟨u.notR cur hcurk, ?_⟩
    intro hn
    simp only [newlyDone, List.mem_map, List.mem_filter] at hn
    obtain ⟨x, ⟨hx, hx2⟩, hxe⟩ := hn
    have := lookup_of_mem_nodup out.dones hkd x.1 x.2 hx
    rw [hxe, hx2] at this
    rw [this] at hcd; simp at hcd
  constructor
  · simp only [c15Call, hghsr, Option.isNone_some, Bool.or_self, Bool.false_eq_true, if_false, Bool.and_eq_true]
    refine ⟨⟨⟨⟨?_, ?_⟩, ?_⟩, ?_⟩, ?_⟩
    · apply sameSet_of_iff
      intro x; rw [haok x]
      constructor
      · rintro (h | h)
        · exact hkeysL x h
        · exact h
      · exact Or.inr
    · simp [SimIface.learners, SimIface.agents]
    · apply sameSet_of_iff
      intro x; rw [hrwk x]
      constructor
      · rintro (h | h)
        · rw [u.keysR] at h; exact hkeysL x h
        · exact h
      · exact Or.inr
    · simp only [hop, hout, Bool.and_eq_true, decide_eq_true_eq, List.all_eq_true, Bool.or_eq_true,
        beq_iff_eq]
      refine ⟨⟨⟨?_, hstype⟩, ?_⟩, ?_, ?_⟩
      · by_cases hkt : k = .turnBased
        · obtain ⟨a, rest, hacts, hd⟩ :=
            (by simpa [hkt] using hdk.2 : ∃ a rest, acts = a :: rest ∧ dict = [(st.current, a)])
          have hd' : dict' = [(st.current, a)] := by
            rw [hdictR, hd]; simp [(hturn hkt).2]
          simp [hkt, hacts, hd', hI.cur]
        · obtain ⟨hd, _⟩ :=
            (by simpa [hkt] using hdk.2 : dict = S.learners.zip acts ∧ acts.length = S.learners.length)
          rw [if_neg hkt, decide_eq_true_eq, hdictR, hd]
          rfl
      · intro q hq; rw [hpre]; exact List.mem_append_left _ hq
      · exact hrw1
      · intro q hq
        rcases hrw2 q hq with h | h
        · exact Or.inl h
        · exact Or.inr h
    · simp only [foldG, List.foldl_cons, List.foldl_nil, Bool.or_eq_true, Bool.not_eq_true',
        decide_eq_true_eq, Bool.and_eq_true]
      by_cases hkt : k = .turnBased
      · cases hAD : out.allDone with
        | true => left; right; rw [hstype, hAD]; rfl
        | false =>
          right
          obtain ⟨h1, h2⟩ := hcurlive hAD hkt
          exact ⟨isLearner_of_mem h1, decide_eq_true h2⟩
      · left; left; simpa using hkt
  · refine ⟨?_, by simp [osGhostNext], ?_⟩
    · simp only [osGhostNext, hstype]
      cases out.allDone <;> simp
    · intro hAD
      have hAD' : out.allDone = false := hAD
      simp only [osGhostNext, foldG, List.foldl_cons, List.foldl_nil]
      have hst' : (gNext gh.g r.1).started = true := by rw [hgS]; exact hst
      have hov' : (gNext gh.g r.1).over = false := by rw [hgO]; exact hAD'
      refine ⟨Inv.of_sim (hinv' hst' hov') ao.2 haop, hst', hov', fun hkt => hcurlive hAD' hkt, ?_⟩
      -- somebody is still unreported: otherwise `__all__` would have been reported
      have hal := u.allDone
      rw [hAD', hpart] at hal
      have hnot : (S.learners.all fun a => decide (a ∈ gh.g.R ++ newlyDone out.dones)) = false := by
        cases hx : (S.learners.all fun a => decide (a ∈ gh.g.R ++ newlyDone out.dones)) with
        | false => rfl
        | true => rw [hx] at hal; simp at hal
      rw [List.all_eq_false] at hnot
      obtain ⟨a, ha, han⟩ := hnot
      exact ⟨a, ha, by rw [hgR]; simpa using han⟩

end Abmarl
