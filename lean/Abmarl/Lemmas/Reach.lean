import Abmarl.Spec.Reach
import Abmarl.Lemmas.Corridor
import Abmarl.Lemmas.GridInv
import Abmarl.Lemmas.Vitals
import Abmarl.Lemmas.ExamplesHist
/-!
# `ReachTheTargetSim`: the class's own change of the world keeps `WInvWeak`

`step` changes the world through `SelectiveAttackActor.process_action`, `MoveActor.process_action` and — by hand —
`self.grid.remove(agent, agent.position); agent.active = False` (`takeOff`).  `takeOff_weak`: the hand-written part
keeps `WInvWeak` and the static part (it breaks `WInv`: the runner stays healthy).
-/
namespace Abmarl
namespace RT
open World

/-- `self.grid.remove(agent, agent.position); agent.active = False` as `move1` (Model/Reach.lean) does it -/
def takeOff (w : World) (a : Aid) : Except GErr World :=
  match w.remove a (w.posOf a) with
  | .error e => .error e
  | .ok w2 => .ok (w2.setSt a { w2.stOf a with active := false })

theorem WInvWeak_parts_iff (w : World) :
    w.WInvWeak = true ↔
      (w.wShape = true ∧ (∀ i < w.rows * w.cols, w.wCell i = true) ∧ (∀ a < w.n, w.wAgentWeak a = true) ∧
        w.wOverlapSym = true) := by
  simp only [WInvWeak, Bool.and_eq_true, List.all_eq_true, allCells, allAgents, List.mem_range, and_assoc]

theorem wAgentWeak_reading (w : World) (a : Aid) :
    w.wAgentWeak a = true ↔
      (((w.stOf a).active = true → w.inGrid (w.stOf a).pos = true ∧ a ∈ w.cell (w.stOf a).pos) ∧
       0 ≤ (w.stOf a).health ∧ (w.stOf a).health ≤ 1 ∧
       ((w.stOf a).active = true → 0 < (w.stOf a).health) ∧ 0 ≤ (w.stOf a).ammo ∧
       ((w.cfgOf a).hasAmmo = true → (w.stOf a).ammo ≤ max 0 (w.cfgOf a).initAmmo) ∧
       ((w.cfgOf a).hasOrient = true → 1 ≤ (w.stOf a).orient ∧ (w.stOf a).orient ≤ 4)) := by
  simp only [wAgentWeak, Bool.and_eq_true, decide_eq_true_eq, Bool.or_eq_true, Bool.not_eq_true', and_assoc]
  constructor
  · rintro ⟨h1, h2, h3, h4, h5, h6, h7⟩
    refine ⟨?_, h2, h3, ?_, h5, ?_, ?_⟩
    · intro ha; rcases h1 with h | h
      · rw [ha] at h; cases h
      · exact h
    · intro ha; rcases h4 with h | h
      · rw [ha] at h; cases h
      · exact h
    · intro ha; rcases h6 with h | h
      · rw [ha] at h; cases h
      · exact h
    · intro ha; rcases h7 with h | h
      · rw [ha] at h; cases h
      · exact h
  · rintro ⟨h1, h2, h3, h4, h5, h6, h7⟩
    refine ⟨?_, h2, h3, ?_, h5, ?_, ?_⟩
    · cases hact : (w.stOf a).active with
      | false => exact Or.inl rfl
      | true => exact Or.inr (h1 hact)
    · cases hact : (w.stOf a).active with
      | false => exact Or.inl rfl
      | true => exact Or.inr (h4 hact)
    · cases hh : (w.cfgOf a).hasAmmo with
      | false => exact Or.inl rfl
      | true => exact Or.inr (h6 hh)
    · cases hh : (w.cfgOf a).hasOrient with
      | false => exact Or.inl rfl
      | true => exact Or.inr (h7 hh)

/-- **the hand-written removal keeps `WInvWeak`** (and the static part): if the world satisfies `WInvWeak` and
`takeOff` returns, the new world satisfies `WInvWeak`, nothing static changed, and only the runner's `active`
flag and its cell changed -/
theorem takeOff_weak {w w' : World} {a : Aid} (hW : w.WInvWeak = true) (ha : a < w.n)
    (h : takeOff w a = .ok w') :
    w'.WInvWeak = true ∧ w'.rows = w.rows ∧ w'.cols = w.cols ∧ w'.overlap = w.overlap ∧ w'.cfg = w.cfg ∧
    w'.st.length = w.st.length ∧ (w'.stOf a).active = false ∧ (w'.stOf a).health = (w.stOf a).health ∧
    ∀ b, b ≠ a → w'.stOf b = w.stOf b := by
  obtain ⟨hshape, hcells, hagents, hsym⟩ := (WInvWeak_parts_iff w).mp hW
  simp only [wShape, Bool.and_eq_true, beq_iff_eq] at hshape
  obtain ⟨hcl, hsl⟩ := hshape
  have hal : a < w.st.length := by rw [hsl]; exact ha
  obtain ⟨p, hp⟩ : ∃ p, p = w.posOf a := ⟨_, rfl⟩
  unfold takeOff at h
  rw [← hp] at h
  unfold World.remove at h
  by_cases hmem : a ∈ w.cell p
  · simp only [hmem, if_true, Except.ok.injEq] at h
    obtain ⟨w2, hw2⟩ : ∃ w2 : World, w2 = { w with cells := w.cells.set (w.idx p) ((w.cell p).erase a) } := ⟨_, rfl⟩
    rw [← hw2] at h
    have hst2 : w2.stOf a = w.stOf a := by rw [hw2]; rfl
    rw [hst2] at h
    -- the index of the cell is inside the table
    have hidx : w.idx p < w.cells.length := by
      by_contra hge
      have : w.cell p = [] := by
        simp only [cell, List.getD_eq_getElem?_getD]
        rw [List.getElem?_eq_none (Nat.le_of_not_lt hge)]; rfl
      rw [this] at hmem; cases hmem
    have hw' : w' = { w with cells := w.cells.set (w.idx p) ((w.cell p).erase a),
                             st := w.st.set a { w.stOf a with active := false } } := by
      rw [← h, hw2]; rfl
    have hstOf : ∀ b, w'.stOf b = if b = a then { w.stOf a with active := false } else w.stOf b := by
      intro b
      rw [hw']
      simp only [stOf]
      rw [Cor.getD_set]
      by_cases hba : b = a
      · subst hba; simp [hal]
      · have : ¬ a = b := fun e => hba e.symm
        simp [hba, this]
    have hcellsOf : ∀ i, w'.cells.getD i [] = if i = w.idx p then (w.cell p).erase a else w.cells.getD i [] := by
      intro i
      rw [hw']
      simp only
      rw [Cor.getD_set]
      by_cases hi : i = w.idx p
      · subst hi; simp [hidx]
      · have : ¬ w.idx p = i := fun e => hi e.symm
        simp [hi, this]
    have hn : w'.n = w.n := by rw [hw']; rfl
    have hrows : w'.rows = w.rows := by rw [hw']
    have hcols : w'.cols = w.cols := by rw [hw']
    have hov : w'.overlap = w.overlap := by rw [hw']
    have hcfg : w'.cfg = w.cfg := by rw [hw']
    have hidxf : ∀ q, w'.idx q = w.idx q := by intro q; simp only [idx, hcols]
    have hing : ∀ q, w'.inGrid q = w.inGrid q := by intro q; simp only [inGrid, hrows, hcols]
    have hpair : ∀ x y, w'.pairOK x y = w.pairOK x y := by intro x y; simp only [pairOK, hov]
    have henc : ∀ b, w'.encOf b = w.encOf b := by intro b; simp only [encOf, cfgOf, hcfg]
    have hcfgOf : ∀ b, w'.cfgOf b = w.cfgOf b := by intro b; simp only [cfgOf, hcfg]
    -- where `a` is: in the cell of its position, and in no other
    have hpa : (w.stOf a).pos = p := by rw [hp]; rfl
    have hcellp : w.cell p = w.cells.getD (w.idx p) [] := rfl
    have hin : w.idx p < w.rows * w.cols := by rw [← hcl]; exact hidx
    have hCp := (wCell_reading w (w.idx p)).mp (hcells _ hin)
    have honly : ∀ i < w.rows * w.cols, a ∈ w.cells.getD i [] → i = w.idx p := by
      intro i hi hai
      have := ((wCell_reading w i).mp (hcells i hi)).2.1 a hai
      rw [← this.2.2.2, hpa]
    refine ⟨?_, hrows, hcols, hov, hcfg, by rw [hw']; simp, ?_, ?_, ?_⟩
    · rw [WInvWeak_parts_iff]
      refine ⟨?_, ?_, ?_, ?_⟩
      · simp only [wShape, Bool.and_eq_true, beq_iff_eq, hrows, hcols, hcfg]
        rw [hw']; simp [hcl, hsl]
      · intro i hi
        rw [hrows, hcols] at hi
        rw [wCell_reading, hcellsOf i]
        obtain ⟨hnd, hall, hpairs⟩ := (wCell_reading w i).mp (hcells i hi)
        by_cases hip : i = w.idx p
        · subst hip
          simp only [if_true]
          rw [hcellp]
          refine ⟨hnd.erase a, ?_, ?_⟩
          · intro b hb
            have hbm := List.mem_of_mem_erase hb
            have hba : b ≠ a := fun e => by
              subst e; exact (List.Nodup.not_mem_erase hnd) hb
            obtain ⟨h1, h2, h3, h4⟩ := hall b hbm
            rw [hn, hstOf b, if_neg hba, hing, hidxf]
            exact ⟨h1, h2, h3, h4⟩
          · intro b hb c hc
            rw [henc, henc, hpair]
            exact hpairs b (List.mem_of_mem_erase hb) c (List.mem_of_mem_erase hc)
        · simp only [hip, if_false]
          refine ⟨hnd, ?_, ?_⟩
          · intro b hb
            have hba : b ≠ a := fun e => by subst e; exact hip (honly i hi hb)
            obtain ⟨h1, h2, h3, h4⟩ := hall b hb
            rw [hn, hstOf b, if_neg hba, hing, hidxf]
            exact ⟨h1, h2, h3, h4⟩
          · intro b hb c hc
            rw [henc, henc, hpair]
            exact hpairs b hb c hc
      · intro b hb
        rw [hn] at hb
        rw [wAgentWeak_reading, hstOf b, hcfgOf]
        obtain ⟨g1, g2, g3, g4, g5, g6, g7⟩ := (wAgentWeak_reading w b).mp (hagents b hb)
        by_cases hba : b = a
        · subst hba
          simp only [if_true]
          exact ⟨fun hh => (by cases hh), g2, g3, fun hh => (by cases hh), g5, g6, g7⟩
        · simp only [hba, if_false]
          refine ⟨?_, g2, g3, g4, g5, g6, g7⟩
          intro hact
          obtain ⟨k1, k2⟩ := g1 hact
          rw [hing]
          refine ⟨k1, ?_⟩
          simp only [cell, hidxf]
          rw [hcellsOf]
          by_cases hq : w.idx (w.stOf b).pos = w.idx p
          · simp only [hq, if_true]
            have : b ∈ w.cell p := by
              simp only [cell] at k2 ⊢
              rw [← hq]; exact k2
            exact (List.mem_erase_of_ne hba).mpr this
          · simp only [hq, if_false]
            exact k2
      · simp only [wOverlapSym, hov, List.all_eq_true] at hsym ⊢
        intro x hx y hy
        rw [hpair]
        exact hsym x hx y hy
    · rw [hstOf a]; simp
    · rw [hstOf a]; simp
    · intro b hb; rw [hstOf b, if_neg hb]
  · simp [hmem] at h

/-! ## the loops of `step`, given that the component calls keep `WInvWeak` -/

open Ex

/-- **what is missing for an unconditional theorem**: the two component calls keep `WInvWeak` and the static part.
The C03 library proves this for `WInv` (`C12_moves` / `move_preserves_WInv`, `processAttack_WInv`); the worlds of this
class violate `WInv` as soon as a runner reached the target. -/
structure CompsKeepWeak (acfg : AttackCfg) : Prop where
  move : ∀ {w w' : World} {a : Aid} {d : Pos} {r : Option Bool}, w.WInvWeak = true → a < w.n →
    (w.stOf a).active = true → w.moveAct a d = .ok (r, w') → w'.WInvWeak = true ∧ SFrame w w'
  attack : ∀ {w w' : World} {a : Aid} {act : AttackAct} {t t' : Tape} {r : Bool × List Aid}, w.WInvWeak = true →
    processAttack acfg w a act t = .ok (r, w', t') → w'.WInvWeak = true ∧ SFrame w w'

def PW (w0 : World) (p : PS) : Prop := p.w.WInvWeak = true ∧ SFrame w0 p.w

theorem foldE_pres {β : Type} (f : PS → β → Except GErr PS) (P : PS → Prop)
    (hstep : ∀ p x p', P p → f p x = .ok p' → P p') :
    ∀ (l : List β) (p p' : PS), P p → foldE f p l = .ok p' → P p' := by
  intro l
  induction l with
  | nil =>
    intro p p' hP h
    simp only [foldE, Except.ok.injEq] at h
    rw [← h]; exact hP
  | cons x xs ih =>
    intro p p' hP h
    simp only [foldE] at h
    cases h1 : f p x with
    | error e => rw [h1] at h; cases h
    | ok p1 => rw [h1] at h; exact ih p1 p' (hstep p x p1 hP h1) h

theorem attack1_weak {cfg : Cfg} {w0 : World} (hC : CompsKeepWeak cfg.attack) {p p' : PS} {x : Aid × Act}
    (hP : PW w0 p) (h : attack1 cfg p x = .ok p') : PW w0 p' := by
  unfold attack1 at h
  by_cases hn : p.w.n ≤ x.1
  · simp [hn] at h
  · simp only [hn, if_false] at h
    by_cases hact : (p.w.stOf x.1).active = true
    · simp only [hact, if_true] at h
      cases hpa : processAttack cfg.attack p.w x.1 x.2.attack p.t with
      | error e => rw [hpa] at h; cases h
      | ok r =>
        obtain ⟨⟨status, H⟩, w', t'⟩ := r
        rw [hpa] at h
        simp only at h
        obtain ⟨hW, hF⟩ := hC.attack hP.1 hpa
        have key : p'.w = w' := by
          by_cases hs : status = true
          · simp only [hs, if_true] at h
            by_cases hH : H.isEmpty = true
            · simp only [hH, if_true] at h
              exact (accrue_map_ok h).1
            · simp only [hH] at h
              obtain ⟨r, _, he⟩ := map_ok h
              rw [← he]
          · simp only [hs, Bool.false_eq_true, if_false, Except.ok.injEq] at h
            rw [← h]
        unfold PW
        rw [key]
        exact ⟨hW, hP.2.trans hF⟩
    · simp only [hact, Bool.false_eq_true, if_false, Except.ok.injEq] at h
      rw [← h]; exact hP

theorem move1_weak {cfg : Cfg} {w0 : World} (hC : CompsKeepWeak cfg.attack) {p p' : PS} {x : Aid × Act}
    (hP : PW w0 p) (h : move1 cfg p x = .ok p') : PW w0 p' := by
  unfold move1 at h
  by_cases hn : p.w.n ≤ x.1
  · simp [hn] at h
  · simp only [hn, if_false] at h
    have ha : x.1 < p.w.n := Nat.lt_of_not_le hn
    by_cases hmv : (p.w.cfgOf x.1).moving = true
    · simp only [hmv, if_true] at h
      cases hp1 : (if (p.w.stOf x.1).active = true then moveAcc p x.1 x.2.move else Except.ok p) with
      | error e => rw [hp1] at h; cases h
      | ok p1 =>
        rw [hp1] at h
        simp only at h
        have hP1 : PW w0 p1 ∧ p1.w.n = p.w.n := by
          by_cases hact : (p.w.stOf x.1).active = true
          · simp only [hact, if_true] at hp1
            obtain ⟨res, hm, _⟩ := moveAcc_shape hp1
            obtain ⟨hW, hF⟩ := hC.move hP.1 ha hact hm
            exact ⟨⟨hW, hP.2.trans hF⟩, by simp only [n, hF.cfg]⟩
          · simp only [hact, Bool.false_eq_true, if_false, Except.ok.injEq] at hp1
            rw [← hp1]; exact ⟨hP, rfl⟩
        by_cases htd : ((p1.w.stOf x.1).active && targetDone cfg p1.w x.1) = true
        · simp only [htd, if_true] at h
          cases hacc : accrue p1.r x.1 100 with
          | error e => rw [hacc] at h; cases h
          | ok r1 =>
            rw [hacc] at h
            simp only at h
            cases hrem : p1.w.remove x.1 (p1.w.posOf x.1) with
            | error e => rw [hrem] at h; cases h
            | ok w2 =>
              rw [hrem] at h
              simp only [Except.ok.injEq] at h
              have hto : takeOff p1.w x.1 = .ok p'.w := by
                unfold takeOff
                rw [hrem, ← h]
              obtain ⟨hW, h1, h2, h3, h4, h5, _⟩ := takeOff_weak hP1.1.1 (by rw [hP1.2]; exact ha) hto
              exact ⟨hW, hP1.1.2.trans ⟨h1, h2, h3, h4, h5⟩⟩
        · simp only [htd, Bool.false_eq_true, if_false, Except.ok.injEq] at h
          rw [← h]; exact hP1.1
    · simp only [hmv, Bool.false_eq_true, if_false, Except.ok.injEq] at h
      rw [← h]; exact hP

theorem entropy1_weak {cfg : Cfg} {w0 : World} {p p' : PS} {x : Aid × Act}
    (hP : PW w0 p) (h : entropy1 cfg p x = .ok p') : PW w0 p' := by
  unfold entropy1 at h
  by_cases hn : p.w.n ≤ x.1
  · simp [hn] at h
  · simp only [hn, if_false] at h
    by_cases hr : x.1 ∈ cfg.runners
    · simp only [hr, if_true] at h
      have := (accrue_map_ok h).1
      unfold PW; rw [this]; exact hP
    · simp only [hr, if_false, Except.ok.injEq] at h
      rw [← h]; exact hP

theorem stepPS_weak {cfg : Cfg} {w0 : World} (hC : CompsKeepWeak cfg.attack) {p p' : PS} {acts : List (Aid × Act)}
    (hP : PW w0 p) (h : stepPS cfg p acts = .ok p') : PW w0 p' := by
  unfold stepPS at h
  cases h1 : foldE (attack1 cfg) p acts with
  | error e => rw [h1] at h; cases h
  | ok p1 =>
    rw [h1] at h
    simp only at h
    have hP1 := foldE_pres (attack1 cfg) (PW w0) (fun _ _ _ hp hh => attack1_weak hC hp hh) acts p p1 hP h1
    cases h2 : foldE (move1 cfg) p1 acts with
    | error e => rw [h2] at h; cases h
    | ok p2 =>
      rw [h2] at h
      simp only at h
      have hP2 := foldE_pres (move1 cfg) (PW w0) (fun _ _ _ hp hh => move1_weak hC hp hh) acts p1 p2 hP1 h2
      exact foldE_pres (entropy1 cfg) (PW w0) (fun _ _ _ hp hh => entropy1_weak hp hh) acts p2 p' hP2 h

/-- the state of a live object: nothing happened yet, or `WInvWeak` and the constructed static part -/
def GoodW (w0 : World) (s : St) : Prop :=
  match s.rewards with
  | none => s.w = w0
  | some _ => s.w.WInvWeak = true ∧ SFrame w0 s.w

def OpOK (cfg : Cfg) (w0 : World) : EOp → Prop
  | .reset order _ => ResetOK cfg.toEx w0 order
  | _ => True

end RT
end Abmarl
