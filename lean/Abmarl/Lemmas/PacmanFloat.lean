import Abmarl.Lemmas.Pacman
import Abmarl.Lemmas.GridInv
/-!
# `PacmanSim` / `PacmanSimSimple`: every statement of `step` keeps the cell structure (`WInvFloat`)

`WInvFloat w` is read as `CInv w` (the cell table: shape, no id twice in a cell, whoever is stored in a cell is an agent of
the simulation whose stored position is that cell, no two occupants that may not overlap, symmetric table) together with
`Vit w` (legal vitals).  `Vit` is carried by `VSame` (Lemmas/Pacman.lean).  `CInv` is kept by the primitives the class
uses, with NO hypothesis on who is active:

* `grid.remove(agent, ndx)` that returns (`cinv_remove`), after which the agent is stored nowhere (`nowhere_remove`);
* `grid.place(agent, ndx)` — accepted or refused — of an agent that is stored nowhere, on a cell of the grid (`cinv_place`);
* a write of health / orientation (`cinv_setSt`);

hence by `MoveActor` / `CrossMoveActor` / `DriftMoveActor.process_action` for ANY mover (dead but still stored, active but
stored nowhere: `cinv_moveBy`, `cinv_driftAct`), by the teleport (`cinv_teleTo`), and by every block of both `step`s.
-/
namespace Abmarl
namespace PM
open World Ex

/-! ## list helpers -/

theorem getD_set_cells (l : List (List Aid)) (j i : Nat) (c : List Aid) :
    (l.set j c).getD i [] = if i = j ∧ j < l.length then c else l.getD i [] := by
  simp only [List.getD_eq_getElem?_getD, List.getElem?_set]
  by_cases hji : j = i
  · subst hji
    by_cases hl : j < l.length
    · simp [hl]
    · simp [hl]
  · have : ¬ (i = j ∧ j < l.length) := fun h => hji h.1.symm
    simp [hji, this]

theorem getD_nil_of_le {l : List (List Aid)} {i : Nat} (h : l.length ≤ i) : l.getD i [] = [] := by
  simp only [List.getD_eq_getElem?_getD]
  rw [List.getElem?_eq_none h]; rfl

/-! ## the cell structure -/

/-- the cell clauses of `WInvFloat` -/
structure CInv (w : World) : Prop where
  lenC : w.cells.length = w.rows * w.cols
  lenS : w.st.length = w.cfg.length
  nodup : ∀ i, (w.cells.getD i []).Nodup
  occ : ∀ i a, a ∈ w.cells.getD i [] → a < w.n ∧ w.inGrid (w.stOf a).pos = true ∧ w.idx (w.stOf a).pos = i
  pair : ∀ i a b, a ∈ w.cells.getD i [] → b ∈ w.cells.getD i [] → a = b ∨ w.pairOK (w.encOf a) (w.encOf b) = true
  sym : w.wOverlapSym = true

/-- legal vitals of every agent -/
def Vit (w : World) : Prop := ∀ a < w.n, wAgentF w a = true

theorem wCellF_reading (w : World) (i : Nat) :
    wCellF w i = true ↔
      ((w.cells.getD i []).Nodup ∧
       (∀ a ∈ w.cells.getD i [], a < w.n ∧ w.inGrid (w.stOf a).pos = true ∧ w.idx (w.stOf a).pos = i) ∧
       (∀ a ∈ w.cells.getD i [], ∀ b ∈ w.cells.getD i [], a = b ∨ w.pairOK (w.encOf a) (w.encOf b) = true)) := by
  simp only [wCellF, Bool.and_eq_true, decide_eq_true_eq, List.all_eq_true, beq_iff_eq, Bool.or_eq_true,
    and_assoc]

theorem WInvFloat_parts_iff (w : World) :
    WInvFloat w = true ↔
      (w.wShape = true ∧ (∀ i < w.rows * w.cols, wCellF w i = true) ∧ (∀ a < w.n, wAgentF w a = true) ∧
        w.wOverlapSym = true) := by
  simp only [WInvFloat, Bool.and_eq_true, List.all_eq_true, allCells, allAgents, List.mem_range, and_assoc]

/-- **`WInvFloat` is the cell structure and the vitals** -/
theorem WInvFloat_iff (w : World) : WInvFloat w = true ↔ CInv w ∧ Vit w := by
  rw [WInvFloat_parts_iff]
  constructor
  · rintro ⟨hs, hc, ha, hsym⟩
    simp only [wShape, Bool.and_eq_true, beq_iff_eq] at hs
    have hnil : ∀ i, ¬ i < w.rows * w.cols → w.cells.getD i [] = [] := fun i hi =>
      getD_nil_of_le (by rw [hs.1]; omega)
    refine ⟨⟨hs.1, hs.2, ?_, ?_, ?_, hsym⟩, ha⟩
    · intro i
      by_cases hi : i < w.rows * w.cols
      · exact ((wCellF_reading w i).mp (hc i hi)).1
      · rw [hnil i hi]; exact List.nodup_nil
    · intro i a h
      by_cases hi : i < w.rows * w.cols
      · exact ((wCellF_reading w i).mp (hc i hi)).2.1 a h
      · rw [hnil i hi] at h; cases h
    · intro i a b h h'
      by_cases hi : i < w.rows * w.cols
      · exact ((wCellF_reading w i).mp (hc i hi)).2.2 a h b h'
      · rw [hnil i hi] at h; cases h
  · rintro ⟨hC, hV⟩
    refine ⟨?_, ?_, hV, hC.sym⟩
    · simp only [wShape, Bool.and_eq_true, beq_iff_eq]; exact ⟨hC.lenC, hC.lenS⟩
    · intro i _
      rw [wCellF_reading]
      exact ⟨hC.nodup i, fun a h => hC.occ i a h, fun a h b h' => hC.pair i a b h h'⟩

/-- Prop reading of `wAgentF` -/
theorem wAgentF_reading (w : World) (a : Aid) :
    wAgentF w a = true ↔
      (0 ≤ (w.stOf a).health ∧ (w.stOf a).health ≤ 1 ∧
       ((w.stOf a).active = decide (0 < (w.stOf a).health)) ∧ 0 ≤ (w.stOf a).ammo ∧
       ((w.cfgOf a).hasAmmo = true → (w.stOf a).ammo ≤ max 0 (w.cfgOf a).initAmmo) ∧
       ((w.cfgOf a).hasOrient = true → 1 ≤ (w.stOf a).orient ∧ (w.stOf a).orient ≤ 4)) := by
  simp only [wAgentF, Bool.and_eq_true, decide_eq_true_eq, beq_iff_eq, Bool.or_eq_true, Bool.not_eq_true',
    and_assoc]
  constructor
  · rintro ⟨h2, h3, h4, h5, h6, h7⟩
    refine ⟨h2, h3, h4, h5, ?_, ?_⟩
    · intro ha; rcases h6 with h | h
      · rw [ha] at h; cases h
      · exact h
    · intro ha; rcases h7 with h | h
      · rw [ha] at h; cases h
      · exact h
  · rintro ⟨h2, h3, h4, h5, h6, h7⟩
    refine ⟨h2, h3, h4, h5, ?_, ?_⟩
    · cases ha : (w.cfgOf a).hasAmmo with
      | false => exact Or.inl rfl
      | true => exact Or.inr (h6 ha)
    · cases ha : (w.cfgOf a).hasOrient with
      | false => exact Or.inl rfl
      | true => exact Or.inr (h7 ha)

/-- the vitals are carried by `VSame` -/
theorem vit_of_vsame {w w' : World} (hV : VSame w w') (h : Vit w) : Vit w' := by
  have hn : w'.n = w.n := by simp only [World.n, hV.cfg]
  have hc : ∀ b, w'.cfgOf b = w.cfgOf b := by intro b; simp only [cfgOf, hV.cfg]
  intro a ha
  rw [hn] at ha
  obtain ⟨h0, h1, h2, h3, h4, h5⟩ := (wAgentF_reading w a).mp (h a ha)
  obtain ⟨ea, eh, eo⟩ := hV.st a
  rw [wAgentF_reading, hc, ea]
  refine ⟨?_, ?_, ?_, h3, h4, ?_⟩
  · rcases eh with ⟨e1, _⟩ | ⟨e1, _⟩
    · rw [e1]; exact h0
    · rw [e1]
  · rcases eh with ⟨e1, _⟩ | ⟨e1, _⟩
    · rw [e1]; exact h1
    · rw [e1]; decide
  · rcases eh with ⟨e1, e2⟩ | ⟨e1, e2⟩
    · rw [e1, e2]; exact h2
    · rw [e1, e2]; decide
  · intro hO
    rcases eo with e | e
    · rw [e]; exact h5 hO
    · exact e

theorem vit_of_WInv {w : World} (hI : w.WInv = true) : Vit w := by
  intro a ha
  have h := (wAgent_reading w a).mp (((WInv_parts_iff w).mp hI).2.2.1 a ha)
  rw [wAgentF_reading]
  exact h.2

/-- `WInv` implies `WInvFloat` -/
theorem cinv_of_WInv {w : World} (hI : w.WInv = true) : CInv w := by
  obtain ⟨hs, hc, _, hsym⟩ := (WInv_parts_iff w).mp hI
  simp only [wShape, Bool.and_eq_true, beq_iff_eq] at hs
  have hnil : ∀ i, ¬ i < w.rows * w.cols → w.cells.getD i [] = [] := fun i hi =>
    getD_nil_of_le (by rw [hs.1]; omega)
  refine ⟨hs.1, hs.2, ?_, ?_, ?_, hsym⟩
  · intro i
    by_cases hi : i < w.rows * w.cols
    · exact ((wCell_reading w i).mp (hc i hi)).1
    · rw [hnil i hi]; exact List.nodup_nil
  · intro i a h
    by_cases hi : i < w.rows * w.cols
    · have := ((wCell_reading w i).mp (hc i hi)).2.1 a h
      exact ⟨this.1, this.2.2.1, this.2.2.2⟩
    · rw [hnil i hi] at h; cases h
  · intro i a b h h'
    by_cases hi : i < w.rows * w.cols
    · exact ((wCell_reading w i).mp (hc i hi)).2.2 a h b h'
    · rw [hnil i hi] at h; cases h

theorem WInvFloat_of_WInv {w : World} (hI : w.WInv = true) : WInvFloat w = true :=
  (WInvFloat_iff w).mpr ⟨cinv_of_WInv hI, vit_of_WInv hI⟩

/-! ## a world with the same static part whose cells are described by the old ones -/

theorem CInv.transfer {w w' : World} (hC : CInv w) (hr : w'.rows = w.rows) (hc : w'.cols = w.cols)
    (ho : w'.overlap = w.overlap) (hcfg : w'.cfg = w.cfg) (hlc : w'.cells.length = w.cells.length)
    (hls : w'.st.length = w.st.length)
    (hnd : ∀ i, (w'.cells.getD i []).Nodup)
    (hocc : ∀ i b, b ∈ w'.cells.getD i [] → b < w.n ∧ w.inGrid (w'.stOf b).pos = true ∧ w.idx (w'.stOf b).pos = i)
    (hpair : ∀ i b c, b ∈ w'.cells.getD i [] → c ∈ w'.cells.getD i [] →
      b = c ∨ w.pairOK (w.encOf b) (w.encOf c) = true) : CInv w' := by
  have hidx' : ∀ p, w'.idx p = w.idx p := by intro p; simp [idx, hc]
  have hinG' : ∀ p, w'.inGrid p = w.inGrid p := by intro p; simp [inGrid, hr, hc]
  have hn' : w'.n = w.n := by simp [World.n, hcfg]
  have henc' : ∀ b, w'.encOf b = w.encOf b := by intro b; simp [encOf, cfgOf, hcfg]
  have hpair' : ∀ e1 e2, w'.pairOK e1 e2 = w.pairOK e1 e2 := by intro e1 e2; simp [pairOK, ho]
  refine ⟨by rw [hlc, hr, hc]; exact hC.lenC, by rw [hls, hcfg]; exact hC.lenS, hnd, ?_, ?_, ?_⟩
  · intro i b hb
    rw [hn', hinG', hidx']; exact hocc i b hb
  · intro i b c hb hc'
    rw [henc', henc', hpair']; exact hpair i b c hb hc'
  · have := hC.sym
    simp only [wOverlapSym, List.all_eq_true] at this ⊢
    rw [ho]
    intro p hp x hx
    rw [hpair']
    exact this p hp x hx

/-! ## `grid.remove` -/

theorem remove_ok {w w' : World} {a : Aid} {p : Pos} (h : w.remove a p = .ok w') :
    a ∈ w.cell p ∧ w' = { w with cells := w.cells.set (w.idx p) ((w.cell p).erase a) } := by
  unfold remove at h
  split at h
  · rename_i hm
    simp only [Except.ok.injEq] at h
    exact ⟨hm, h.symm⟩
  · cases h

theorem mem_remove {w w' : World} {a : Aid} {p : Pos} (hC : CInv w) (h : w.remove a p = .ok w') (i : Nat) (b : Aid) :
    b ∈ w'.cells.getD i [] ↔ (b ∈ w.cells.getD i [] ∧ ¬ (b = a ∧ i = w.idx p)) := by
  obtain ⟨hm, rfl⟩ := remove_ok h
  show b ∈ (w.cells.set (w.idx p) ((w.cell p).erase a)).getD i [] ↔ _
  rw [getD_set_cells]
  by_cases hi : i = w.idx p ∧ w.idx p < w.cells.length
  · rw [if_pos hi]
    obtain ⟨rfl, _⟩ := hi
    have hnd : (w.cell p).Nodup := hC.nodup _
    rw [hnd.mem_erase_iff]
    exact ⟨fun h => ⟨h.2, fun hh => h.1 hh.1⟩, fun h => ⟨fun e => h.2 ⟨e, rfl⟩, h.1⟩⟩
  · rw [if_neg hi]
    constructor
    · intro hb
      refine ⟨hb, fun hh => hi ⟨hh.2, ?_⟩⟩
      by_contra hl
      rw [hh.2, getD_nil_of_le (by omega)] at hb
      cases hb
    · exact fun hb => hb.1

theorem remove_stOf' {w w' : World} {a : Aid} {p : Pos} (h : w.remove a p = .ok w') (b : Aid) : w'.stOf b = w.stOf b := by
  obtain ⟨_, rfl⟩ := remove_ok h
  rfl

/-- **`grid.remove` keeps the cell structure** -/
theorem cinv_remove {w w' : World} {a : Aid} {p : Pos} (hC : CInv w) (h : w.remove a p = .ok w') : CInv w' := by
  have hmem := mem_remove hC h
  obtain ⟨hm, he⟩ := remove_ok h
  have hst : ∀ b, w'.stOf b = w.stOf b := remove_stOf' h
  refine hC.transfer (by rw [he]) (by rw [he]) (by rw [he]) (by rw [he]) (by rw [he]; simp) (by rw [he]) ?_ ?_ ?_
  · intro i
    rw [he]
    show ((w.cells.set (w.idx p) ((w.cell p).erase a)).getD i []).Nodup
    rw [getD_set_cells]
    split
    · exact (hC.nodup _).erase a
    · exact hC.nodup i
  · intro i b hb
    rw [hst]
    exact hC.occ i b ((hmem i b).mp hb).1
  · intro i b c hb hc
    exact hC.pair i b c ((hmem i b).mp hb).1 ((hmem i c).mp hc).1

/-- after a `grid.remove` that returned, the agent is stored in no cell -/
theorem nowhere_remove {w w' : World} {a : Aid} {p : Pos} (hC : CInv w) (h : w.remove a p = .ok w') :
    ∀ i, a ∉ w'.cells.getD i [] := by
  intro i hi
  obtain ⟨hi1, hi2⟩ := (mem_remove hC h i a).mp hi
  obtain ⟨hm, _⟩ := remove_ok h
  have h1 := (hC.occ i a hi1).2.2
  have h2 := (hC.occ (w.idx p) a hm).2.2
  exact hi2 ⟨rfl, h1.symm.trans h2⟩

theorem lt_of_remove {w w' : World} {a : Aid} {p : Pos} (hC : CInv w) (h : w.remove a p = .ok w') : a < w.n :=
  (hC.occ _ a (remove_ok h).1).1

/-! ## `grid.place` -/

theorem place_accepted {w : World} {a : Aid} {p : Pos} (hq : w.query a p = true) (hno : a ∉ w.cell p) :
    w.place a p = (true, { w with cells := w.cells.set (w.idx p) (w.cell p ++ [a]),
                                  st := w.st.set a { w.stOf a with pos := p } }) := by
  unfold place
  simp only [hq, if_true, hno, if_false]

theorem place_refused {w : World} {a : Aid} {p : Pos} (hq : w.query a p = false) : w.place a p = (false, w) := by
  unfold place
  simp [hq]

theorem stOf_place {w : World} {a : Aid} {p : Pos} (c : List (List Aid)) (b : Aid) :
    ({ w with cells := c, st := w.st.set a { w.stOf a with pos := p } } : World).stOf b =
      if b = a ∧ a < w.st.length then { w.stOf a with pos := p } else w.stOf b :=
  stOf_setSt w a b _

/-- **`grid.place` — accepted or refused — of an agent that is stored nowhere, on a cell of the grid, keeps the cell
structure** -/
theorem cinv_place {w : World} {a : Aid} {p : Pos} (hC : CInv w) (ha : a < w.n) (hno : ∀ i, a ∉ w.cells.getD i [])
    (hp : w.inGrid p = true) : CInv (w.place a p).2 := by
  by_cases hq : w.query a p = true
  · rw [place_accepted hq (hno _)]
    have hpl : w.idx p < w.cells.length := by rw [hC.lenC]; exact idx_lt hp
    have haS : a < w.st.length := by rw [hC.lenS]; exact ha
    have hmem : ∀ i b, b ∈ (w.cells.set (w.idx p) (w.cell p ++ [a])).getD i [] ↔
        (b ∈ w.cells.getD i [] ∨ (b = a ∧ i = w.idx p)) := by
      intro i b
      rw [getD_set_cells]
      by_cases hi : i = w.idx p
      · rw [if_pos ⟨hi, hpl⟩, hi]
        simp only [List.mem_append, List.mem_singleton, and_true]
        rfl
      · rw [if_neg (fun h => hi h.1)]
        simp [hi]
    have hq' := hq
    rw [query_eq, List.all_eq_true] at hq'
    refine hC.transfer rfl rfl rfl rfl (by simp) (by simp) ?_ ?_ ?_
    · intro i
      show ((w.cells.set (w.idx p) (w.cell p ++ [a])).getD i []).Nodup
      rw [getD_set_cells]
      split
      · rw [List.nodup_append]
        exact ⟨hC.nodup _, by simp, fun x hx y hy => by
          simp only [List.mem_singleton] at hy; subst hy
          exact fun e => hno (w.idx p) (e ▸ hx)⟩
      · exact hC.nodup i
    · intro i b hb
      rw [stOf_place]
      rcases (hmem i b).mp hb with hb | ⟨hba, hbi⟩
      · have hba : b ≠ a := fun e => hno i (e ▸ hb)
        rw [if_neg (fun h => hba h.1)]
        exact hC.occ i b hb
      · rw [if_pos ⟨hba, haS⟩, hba, hbi]
        exact ⟨ha, hp, rfl⟩
    · intro i b c hb hc
      rcases (hmem i b).mp hb with hb | ⟨hba, hbi⟩ <;> rcases (hmem i c).mp hc with hc | ⟨hca, hci⟩
      · exact hC.pair i b c hb hc
      · rw [hci] at hb; rw [hca]
        exact Or.inr (pairOK_symm_of_table hC.sym (hq' b hb))
      · rw [hbi] at hc; rw [hba]
        exact Or.inr (hq' c hc)
      · exact Or.inl (hba.trans hca.symm)
  · rw [place_refused (by simpa using hq)]
    exact hC

/-! ## writes of vitals -/

/-- a write of anything but the position keeps the cell structure -/
theorem cinv_setSt {w : World} {a : Aid} {s : AgentSt} (hC : CInv w) (hs : s.pos = (w.stOf a).pos) :
    CInv (w.setSt a s) := by
  refine hC.transfer rfl rfl rfl rfl rfl (by simp [setSt]) hC.nodup ?_ hC.pair
  intro i b hb
  have : ((w.setSt a s).stOf b).pos = (w.stOf b).pos := by
    rw [stOf_setSt]
    split
    · rename_i h; rw [h.1, hs]
    · rfl
  rw [this]
  exact hC.occ i b hb

theorem cinv_setHealth {w : World} {a : Aid} {v : Rat} (hC : CInv w) : CInv (w.setHealth a v) := by
  unfold setHealth
  exact cinv_setSt hC rfl

/-! ## properties of the world kept by the primitives -/

/-- a property of the world that the three primitives of the class keep: a `grid.remove` that returned, `grid.place` on a
cell of the grid (accepted or refused) of the agent a `grid.remove` has just taken out, a write of anything but the position -/
structure Prim (P : World → Prop) : Prop where
  remove : ∀ {w w' : World} {a : Aid} {p : Pos}, P w → w.remove a p = .ok w' → P w'
  reloc : ∀ {w w1 : World} {a : Aid} {src dst : Pos}, P w → w.remove a src = .ok w1 → w1.inGrid dst = true →
    P (w1.place a dst).2
  setSt : ∀ {w : World} {a : Aid} {s : AgentSt}, P w → s.pos = (w.stOf a).pos → P (w.setSt a s)

theorem prim_cinv : Prim CInv where
  remove := cinv_remove
  reloc := by
    intro w w1 a src dst hC hr hin
    have hn1 : w1.n = w.n := by obtain ⟨_, rfl⟩ := remove_ok hr; rfl
    exact cinv_place (cinv_remove hC hr) (by rw [hn1]; exact lt_of_remove hC hr) (nowhere_remove hC hr) hin
  setSt := cinv_setSt

theorem Prim.setHealth {P : World → Prop} (hP : Prim P) {w : World} {a : Aid} {v : Rat} (h : P w) : P (w.setHealth a v) := by
  unfold World.setHealth
  exact hP.setSt h rfl

/-! ## the move actors, for ANY mover -/

/-- the common body of the move actors keeps the cell structure, whoever the mover is -/
theorem prim_moveBy {P : World → Prop} (hP : Prim P) {w w' : World} {a : Aid} {d : Pos} {b : Bool} (hC : P w)
    (h : w.moveBy a d = .ok (b, w')) : P w' := by
  unfold moveBy at h
  simp only at h
  split at h
  · rename_i hin
    split at h
    · simp only [Except.ok.injEq, Prod.mk.injEq] at h; rw [← h.2]; exact hC
    · split at h
      · split at h
        · cases h
        · rename_i w1 hr
          simp only [Except.ok.injEq, Prod.mk.injEq] at h
          rw [← h.2]
          have hin1 : w1.inGrid ((w.stOf a).pos.1 + d.1, (w.stOf a).pos.2 + d.2) = true := by
            obtain ⟨_, rfl⟩ := remove_ok hr
            exact hin
          exact hP.reloc hC hr hin1
      · simp only [Except.ok.injEq, Prod.mk.injEq] at h; rw [← h.2]; exact hC
  · simp only [Except.ok.injEq, Prod.mk.injEq] at h; rw [← h.2]; exact hC

theorem prim_crossAct {P : World → Prop} (hP : Prim P) {w w' : World} {a : Aid} {x : Int} {r : Option Bool} (hC : P w)
    (h : w.crossAct a x = .ok (r, w')) : P w' := by
  unfold crossAct at h
  split at h
  · split at h
    · cases h
    · split at h
      · rename_i b w1 hm
        simp only [Except.ok.injEq, Prod.mk.injEq] at h
        rw [← h.2]; exact prim_moveBy hP hC hm
      · cases h
  · simp only [Except.ok.injEq, Prod.mk.injEq] at h; rw [← h.2]; exact hC

/-- **`DriftMoveActor.process_action` keeps the cell structure for ANY mover** (dead but still stored, active but stored
nowhere, not an agent of the simulation) and any action -/
theorem prim_driftAct {P : World → Prop} (hP : Prim P) {w w' : World} {a : Aid} {x : Int} {r : Option Bool} {l : Int} (hC : P w)
    (h : w.driftAct a x = .ok (r, w', l)) : P w' := by
  unfold driftAct at h
  simp only at h
  split at h
  · have hdrift : ∀ (w0 : World) (r' : Option Bool) (w'' : World) (l' : Int), P w0 →
        (match w0.crossAct a ((w0.stOf a).orient : Int) with
         | .ok (b, w1) => Except.ok (b, w1, ((w0.stOf a).orient : Int))
         | .error e => .error e) = .ok (r', w'', l') → P w'' := by
      intro w0 r' w'' l' h0 hd
      split at hd
      · rename_i b w1 hc
        simp only [Except.ok.injEq, Prod.mk.injEq] at hd
        rw [← hd.2.1]; exact prim_crossAct hP h0 hc
      · cases hd
    by_cases hx0 : x ≠ 0
    · rw [if_pos hx0] at h
      cases hc : w.crossAct a x with
      | error e => rw [hc] at h; cases h
      | ok rw1 =>
        obtain ⟨r1, w1⟩ := rw1
        rw [hc] at h
        cases r1 with
        | none => exact hdrift w1 r w' l (prim_crossAct hP hC hc) h
        | some b =>
          cases b with
          | false => exact hdrift w1 r w' l (prim_crossAct hP hC hc) h
          | true =>
            simp only [Except.ok.injEq, Prod.mk.injEq] at h
            rw [← h.2.1]
            exact hP.setSt (prim_crossAct hP hC hc) rfl
    · rw [if_neg hx0] at h
      exact hdrift w r w' l hC h
  · simp only [Except.ok.injEq, Prod.mk.injEq] at h; rw [← h.2.1]; exact hC

/-! ## the teleport -/

theorem removeG_ok {w w' : World} {a : Aid} {p : Pos} (h : removeG w a p = .ok w') :
    w.inGrid p = true ∧ w.remove a p = .ok w' := by
  unfold removeG at h
  split at h
  · rename_i hin; exact ⟨hin, h⟩
  · cases h

theorem prim_removeG {P : World → Prop} (hP : Prim P) {w w' : World} {a : Aid} {p : Pos} (hC : P w)
    (h : removeG w a p = .ok w') : P w' :=
  hP.remove hC (removeG_ok h).2

/-- **the teleport keeps the cell structure**: `grid.remove` that raised, `grid.place` refused or outside the grid -/
theorem prim_teleTo {P : World → Prop} (hP : Prim P) {w : World} (a : Aid) (src dst : Pos) (hC : P w) : P (teleTo w a src dst).1 := by
  unfold teleTo
  split
  · exact hC
  · rename_i w1 hr
    have hr' := (removeG_ok hr).2
    split
    · rename_i hin
      exact hP.reloc hC hr' hin
    · exact hP.remove hC hr'

theorem prim_tele {P : World → Prop} (hP : Prim P) (cfg : Cfg) {w : World} (a : Aid) (hC : P w) : P (tele cfg w a).1 := by
  unfold tele
  split
  · exact prim_teleTo hP a _ _ hC
  · split
    · exact prim_teleTo hP a _ _ hC
    · exact hC

/-! ## blocks of statements -/

/-- a block keeps a property of the world -/
def KeepsP (P : World → Prop) (f : PS → R) : Prop := ∀ p, P p.w → P (f p).1.w

theorem keepsP_andThen {P : World → Prop} {x : R} {f : PS → R} (hx : P x.1.w) (hf : KeepsP P f) :
    P (andThen x f).1.w := by
  unfold andThen
  split
  · exact hf x.1 hx
  · exact hx

theorem keepsP_loopR {P : World → Prop} {β : Type} {f : PS → β → R} (hf : ∀ x, KeepsP P fun p => f p x) :
    ∀ (l : List β) (p : PS), P p.w → P (loopR f p l).1.w := by
  intro l
  induction l with
  | nil => intro p hp; exact hp
  | cons x xs ih =>
    intro p hp
    unfold loopR
    have h1 := hf x p hp
    split
    · rename_i p' heq
      have : (f p x).1 = p' := by rw [heq]
      rw [this] at h1
      exact ih p' h1
    · exact h1

theorem keepsP_reward {P : World → Prop} (_hP : Prim P) (a : Aid) (v : Option Int) : KeepsP P fun p => reward p a v := by
  intro p hp
  dsimp only
  unfold reward
  split
  · exact hp
  · split <;> exact hp

theorem keepsP_moveTele {P : World → Prop} (hP : Prim P) (cfg : Cfg) (a : Aid) (act : Int) (rew : Bool) : KeepsP P fun p => moveTele cfg p a act rew := by
  intro p hp
  dsimp only
  unfold moveTele
  split
  · exact hp
  · rename_i res w1 l hd
    have h1 : P w1 := prim_driftAct hP hp hd
    apply keepsP_andThen
    · split
      · exact keepsP_reward hP a _ { p with w := w1 } h1
      · exact h1
    · intro p2 hp2
      exact prim_tele hP cfg a hp2

theorem keepsP_biteBody {P : World → Prop} (hP : Prim P) (cfg : Cfg) (b : Aid) :
    KeepsP P fun p => andThen (reward p cfg.pacman cfg.scheme.die) fun p1 =>
      andThen (reward p1 b cfg.scheme.kill) fun p2 => ({ p2 with w := p2.w.setHealth cfg.pacman 0 }, Ctl.go) := by
  intro p hp
  apply keepsP_andThen (keepsP_reward hP _ _ p hp)
  intro p1 hp1
  apply keepsP_andThen (keepsP_reward hP _ _ p1 hp1)
  intro p2 hp2
  exact hP.setHealth hp2

theorem keepsP_eatBody {P : World → Prop} (hP : Prim P) (cfg : Cfg) (b : Aid) :
    KeepsP P fun p => andThen (reward p cfg.pacman cfg.scheme.eatFood) fun p1 =>
      match removeG p1.w b (p1.w.stOf cfg.pacman).pos with
      | .error e => (p1, Ctl.err e)
      | .ok w2 => ({ p1 with w := w2.setHealth b 0 }, Ctl.go) := by
  intro p hp
  apply keepsP_andThen (keepsP_reward hP _ _ p hp)
  intro p1 hp1
  dsimp only
  split
  · exact hp1
  · rename_i w2 hr
    exact hP.setHealth (prim_removeG hP hp1 hr)

theorem keepsP_eat1 {P : World → Prop} (hP : Prim P) (cfg : Cfg) (b : Aid) : KeepsP P fun p => eat1 cfg p b := by
  intro p hp
  dsimp only
  unfold eat1
  split
  · exact hp
  · split
    · exact keepsP_eatBody hP cfg b p hp
    · split
      · exact keepsP_biteBody hP cfg b p hp
      · exact hp

theorem keepsP_bite1 {P : World → Prop} (hP : Prim P) (cfg : Cfg) (b : Aid) : KeepsP P fun p => bite1 cfg p b := by
  intro p hp
  dsimp only
  unfold bite1
  split
  · exact hp
  · split
    · exact keepsP_biteBody hP cfg b p hp
    · exact hp

theorem keepsP_dieNow {P : World → Prop} (hP : Prim P) (cfg : Cfg) : KeepsP P fun p => dieNow cfg p := by
  intro p hp
  dsimp only
  unfold dieNow
  apply keepsP_andThen (keepsP_reward hP _ _ p hp)
  intro p1 hp1
  simp only
  split
  · exact hP.setHealth hp1
  · rename_i w2 hr
    exact prim_removeG hP (hP.setHealth hp1) hr

theorem keepsP_eat1S {P : World → Prop} (hP : Prim P) (cfg : Cfg) (b : Aid) : KeepsP P fun p => eat1S cfg p b := by
  intro p hp
  dsimp only
  unfold eat1S
  split
  · exact hp
  · split
    · exact keepsP_eatBody hP cfg b p hp
    · split
      · exact keepsP_dieNow hP cfg p hp
      · exact hp

theorem keepsP_bite1S {P : World → Prop} (hP : Prim P) (cfg : Cfg) (b : Aid) : KeepsP P fun p => bite1S cfg p b := by
  intro p hp
  dsimp only
  unfold bite1S
  split
  · exact hp
  · split
    · exact keepsP_dieNow hP cfg p hp
    · exact hp

theorem keepsP_overlapLoop {P : World → Prop} (_hP : Prim P) (cfg : Cfg) {f : PS → Aid → R} (hf : ∀ b, KeepsP P fun p => f p b) :
    KeepsP P fun p => overlapLoop cfg f p := by
  intro p hp
  dsimp only
  unfold overlapLoop
  simp only
  split
  · exact keepsP_loopR hf _ p hp
  · exact hp

theorem keepsP_baddie1 {P : World → Prop} (hP : Prim P) (cfg : Cfg) (x : Aid × Int) : KeepsP P fun p => baddie1 cfg p x := by
  intro p hp
  dsimp only
  unfold baddie1
  split
  · exact hp
  · split
    · exact hp
    · exact keepsP_moveTele hP cfg x.1 x.2 true p hp

theorem keepsP_baddie1S {P : World → Prop} (hP : Prim P) (cfg : Cfg) (x : Nat × Int) : KeepsP P fun p => baddie1S cfg p x := by
  intro p hp
  dsimp only
  unfold baddie1S
  split
  · exact hp
  · rename_i b _
    exact keepsP_moveTele hP cfg b x.2 false p hp

theorem keepsP_finish {P : World → Prop} (hP : Prim P) (cfg : Cfg) : KeepsP P fun p => finish cfg p := by
  intro p hp
  dsimp only
  unfold finish
  split
  · split
    · exact hp
    · rename_i w' hr; exact prim_removeG hP hp hr
  · exact hp

theorem keepsP_stepFull {P : World → Prop} (hP : Prim P) (cfg : Cfg) (acts : List (Aid × Int)) : KeepsP P fun p => stepFull cfg p acts := by
  intro p hp
  dsimp only
  unfold stepFull
  split
  · exact hp
  · rename_i act _
    apply keepsP_andThen (keepsP_moveTele hP cfg cfg.pacman act true p hp)
    intro p1 hp1
    apply keepsP_andThen (keepsP_overlapLoop hP cfg (keepsP_eat1 hP cfg) p1 hp1)
    intro p2 hp2
    apply keepsP_andThen (keepsP_loopR (keepsP_baddie1 hP cfg) acts p2 hp2)
    intro p3 hp3
    apply keepsP_andThen (keepsP_overlapLoop hP cfg (keepsP_bite1 hP cfg) p3 hp3)
    intro p4 hp4
    exact keepsP_finish hP cfg p4 hp4

theorem keepsP_stepSimple {P : World → Prop} (hP : Prim P) (cfg : Cfg) (k : Nat) (acts : List (Aid × Int)) :
    KeepsP P fun p => stepSimple cfg p k acts := by
  intro p hp
  dsimp only
  unfold stepSimple
  split
  · exact hp
  · rename_i act _
    apply keepsP_andThen (keepsP_moveTele hP cfg cfg.pacman act true p hp)
    intro p1 hp1
    apply keepsP_andThen (keepsP_overlapLoop hP cfg (keepsP_eat1S hP cfg) p1 hp1)
    intro p2 hp2
    dsimp only
    split
    · exact hp2
    · rename_i sc _
      apply keepsP_andThen (keepsP_loopR (keepsP_baddie1S hP cfg) sc p2 hp2)
      intro p3 hp3
      exact keepsP_overlapLoop hP cfg (keepsP_bite1S hP cfg) p3 hp3

/-- **every `step` keeps the cell structure** — any configuration, world, ledger, tape, `step_count`, action dict; the
call may return or raise -/
theorem step_prim {P : World → Prop} (hP : Prim P) (cfg : Cfg) (s : St) (acts : List (Aid × Int)) (hC : P s.ex.w) :
    P (step cfg s acts).1.ex.w := by
  unfold step
  split
  · exact hC
  · rename_i r _
    simp only [stepR]
    split
    · exact keepsP_stepSimple hP cfg s.count acts ⟨s.ex.w, r, s.ex.tape⟩ hC
    · exact keepsP_stepFull hP cfg acts ⟨s.ex.w, r, s.ex.tape⟩ hC

/-- **every `step` keeps `WInvFloat`** -/
theorem step_float (cfg : Cfg) (s : St) (acts : List (Aid × Int)) (h : WInvFloat s.ex.w = true) :
    WInvFloat (step cfg s acts).1.ex.w = true := by
  rw [WInvFloat_iff] at h ⊢
  exact ⟨step_prim prim_cinv cfg s acts h.1, vit_of_vsame (step_vsame cfg s acts) h.2⟩

end PM
end Abmarl
