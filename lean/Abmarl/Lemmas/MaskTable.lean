import Abmarl.Lemmas.Mask
/-!
# C10 lemmas, part 2: the table built by the loop over the agents

Characterisation of the loop: entry `(i, j)` of `maskOf R bs` is `some (!hiddenBy …)` — the
cell is zero exactly when some entry of `bs` that is active and blocking sets it to zero —
and, through `hidden1_eq`, `some (!hiddenBySpec …)`.
-/
namespace Abmarl
namespace Mask

/-- some active blocking entry of `bs` zeroes the cell (model side) -/
def hiddenBy (R : Nat) (bs : List Blocker) (r c : Int) : Bool :=
  bs.any fun b => b.2.2.2 && b.2.2.1 && hidden1 R b.1 b.2.1 r c

theorem cellAt_mapIdx2 (f : Nat → Nat → Bool → Bool) (m : List (List Bool)) (i j : Nat) :
    cellAt (m.mapIdx fun i row => row.mapIdx fun j v => f i j v) i j =
      (cellAt m i j).map (f i j) := by
  unfold cellAt
  rw [List.getElem?_mapIdx]
  cases m[i]? with
  | none => rfl
  | some row => simp [List.getElem?_mapIdx]

theorem cellAt_shade (R : Nat) (rd cd : Int) (m : List (List Bool)) (i j : Nat) :
    cellAt (shade R rd cd m) i j =
      (cellAt m i j).map fun v =>
        if hidden1 R rd cd ((i : Int) - (R : Int)) ((j : Int) - (R : Int)) then false else v := by
  unfold shade
  exact cellAt_mapIdx2
    (fun i j v => if hidden1 R rd cd ((i : Int) - (R : Int)) ((j : Int) - (R : Int)) then false else v)
    m i j

theorem cellAt_maskStep (R : Nat) (b : Blocker) (m : List (List Bool)) (i j : Nat) :
    cellAt (maskStep R m b) i j =
      (cellAt m i j).map fun v =>
        v && !(b.2.2.2 && b.2.2.1 && hidden1 R b.1 b.2.1 ((i : Int) - (R : Int)) ((j : Int) - (R : Int))) := by
  unfold maskStep
  cases hb : (b.2.2.2 && b.2.2.1)
  · simp
  · rw [if_pos rfl, cellAt_shade]
    congr 1
    funext v
    cases hidden1 R b.1 b.2.1 ((i : Int) - (R : Int)) ((j : Int) - (R : Int)) <;> simp

theorem cellAt_foldl (R : Nat) (bs : List Blocker) (m : List (List Bool)) (i j : Nat) :
    cellAt (bs.foldl (maskStep R) m) i j =
      (cellAt m i j).map fun v => v && !hiddenBy R bs ((i : Int) - (R : Int)) ((j : Int) - (R : Int)) := by
  induction bs generalizing m with
  | nil => simp [hiddenBy]
  | cons b bs ih =>
    rw [List.foldl_cons, ih, cellAt_maskStep, Option.map_map]
    congr 1
    funext v
    simp only [Function.comp, hiddenBy, List.any_cons]
    cases v <;> simp

theorem cellAt_blank (R i j : Nat) (hi : i < 2*R+1) (hj : j < 2*R+1) :
    cellAt (blankMask R) i j = some true := by
  unfold cellAt blankMask
  rw [List.getElem?_replicate, if_pos hi]
  simp [hj]

/-- the loop, characterised -/
theorem cellAt_maskOf (R : Nat) (bs : List Blocker) (i j : Nat) (hi : i < 2*R+1) (hj : j < 2*R+1) :
    cellAt (maskOf R bs) i j = some (!hiddenBy R bs ((i : Int) - (R : Int)) ((j : Int) - (R : Int))) := by
  unfold maskOf
  rw [cellAt_foldl, cellAt_blank R i j hi hj]
  simp

theorem length_maskStep (R : Nat) (b : Blocker) (m : List (List Bool)) :
    (maskStep R m b).length = m.length := by
  unfold maskStep shade
  split <;> simp

theorem rows_maskStep (R : Nat) (b : Blocker) (m : List (List Bool)) (n : Nat)
    (h : ∀ row ∈ m, row.length = n) : ∀ row ∈ maskStep R m b, row.length = n := by
  unfold maskStep shade
  split
  · intro row hrow
    rw [List.mem_iff_getElem?] at hrow
    obtain ⟨k, hk⟩ := hrow
    rw [List.getElem?_mapIdx] at hk
    cases hm : m[k]? with
    | none => rw [hm] at hk; cases hk
    | some row0 =>
      rw [hm] at hk
      simp only [Option.map_some, Option.some.injEq] at hk
      rw [← hk, List.length_mapIdx]
      exact h row0 (List.mem_of_getElem? hm)
  · exact h

theorem shape_foldl (R : Nat) (bs : List Blocker) (m : List (List Bool)) (n : Nat)
    (hl : m.length = n) (h : ∀ row ∈ m, row.length = n) :
    (bs.foldl (maskStep R) m).length = n ∧ ∀ row ∈ bs.foldl (maskStep R) m, row.length = n := by
  induction bs generalizing m with
  | nil => exact ⟨hl, h⟩
  | cons b bs ih =>
    rw [List.foldl_cons]
    exact ih _ (by rw [length_maskStep, hl]) (rows_maskStep R b m n h)

/-- the mask always has the shape `(2R+1) × (2R+1)` -/
theorem shape_maskOf (R : Nat) (bs : List Blocker) :
    (maskOf R bs).length = 2*R+1 ∧ ∀ row ∈ maskOf R bs, row.length = 2*R+1 := by
  unfold maskOf
  apply shape_foldl
  · simp [blankMask]
  · intro row hrow
    simp only [blankMask, List.mem_replicate] at hrow
    rw [hrow.2]; simp

/-- inside the window the model's per-agent test is the rule of the specification -/
theorem hiddenBy_eq_spec (R : Nat) (bs : List Blocker) (r c : Int)
    (hr : inWin R r = true) (hc : inWin R c = true) :
    hiddenBy R bs r c = hiddenBySpec R bs r c := by
  unfold hiddenBy hiddenBySpec
  congr 1
  funext b
  rw [hidden1_eq, hr, hc]
  cases b.2.2.1 <;> cases b.2.2.2 <;> simp

theorem inWin_idx (R i : Nat) (hi : i < 2*R+1) : inWin R ((i : Int) - (R : Int)) = true := by
  rw [inWin_iff]; omega

/-- every entry of the model's table, by the rule -/
theorem cellAt_maskOf_spec (R : Nat) (bs : List Blocker) (i j : Nat) (hi : i < 2*R+1) (hj : j < 2*R+1) :
    cellAt (maskOf R bs) i j =
      some (!hiddenBySpec R bs ((i : Int) - (R : Int)) ((j : Int) - (R : Int))) := by
  rw [cellAt_maskOf R bs i j hi hj, hiddenBy_eq_spec R bs _ _ (inWin_idx R i hi) (inWin_idx R j hj)]

/-- the same addressed by offsets from the viewer -/
theorem visibleAt_maskOf (R : Nat) (bs : List Blocker) (r c : Int)
    (hr : inWin R r = true) (hc : inWin R c = true) :
    visibleAt R (maskOf R bs) r c = some (!hiddenBySpec R bs r c) := by
  rw [inWin_iff] at hr hc
  unfold visibleAt
  have e1 : (((r + (R : Int)).toNat : Nat) : Int) = r + R := Int.toNat_of_nonneg (by omega)
  have e2 : (((c + (R : Int)).toNat : Nat) : Int) = c + R := Int.toNat_of_nonneg (by omega)
  rw [cellAt_maskOf_spec R bs _ _ (by omega) (by omega), e1, e2]
  congr 3 <;> omega

end Mask
end Abmarl
