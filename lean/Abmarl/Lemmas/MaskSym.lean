import Abmarl.Lemmas.MaskTable
/-!
# C10 lemmas, part 3: the rule is the same in all eight orientations

The three generators — reflecting the rows, reflecting the columns, transposing — leave
`HiddenP` (hence `hiddenSpec`) invariant when applied to the blocker's offset and to the cell
together.  A symmetry of the square is `Sym` = optional transpose followed by optional
reflections (all eight of them); `hiddenBySpec_act` lifts the invariance to whole layouts.
-/
namespace Abmarl
namespace Mask

theorem Opp_neg_neg {x y x' y' : Int} (hx : x' = -x) (hy : y' = -y) : Opp x' y' ↔ Opp x y := by
  subst hx hy; unfold Opp; omega

theorem Opp_neg_swap {x y x' y' : Int} (hx : x' = -y) (hy : y' = -x) : Opp x' y' ↔ Opp x y := by
  subst hx hy; unfold Opp; omega

/-- the last clause of `HiddenP` -/
def Between (rd cd r c : Int) : Prop :=
  Opp (cross (corners rd cd).1.1 (corners rd cd).1.2 r c)
      (cross (corners rd cd).2.1 (corners rd cd).2.2 r c)

theorem HiddenP_def (rd cd r c : Int) : HiddenP rd cd r c ↔
    ¬(rd = 0 ∧ cd = 0) ∧ ¬(r = rd ∧ c = cd) ∧
    rd.sign * rd ≤ rd.sign * r ∧ cd.sign * cd ≤ cd.sign * c ∧ Between rd cd r c := Iff.rfl

theorem Between_flip_rows (rd cd r c : Int) : Between (-rd) cd (-r) c ↔ Between rd cd r c := by
  unfold Between
  by_cases hr : rd = 0
  · subst hr
    rw [neg_zero, corners_row]
    exact Opp_neg_swap (by unfold cross; ring) (by unfold cross; ring)
  · by_cases hc : cd = 0
    · subst hc
      rw [corners_col hr, corners_col (neg_ne_zero.mpr hr), Int.sign_neg]
      exact Opp_neg_neg (by unfold cross; ring) (by unfold cross; ring)
    · rw [corners_diag hr hc, corners_diag (neg_ne_zero.mpr hr) hc, Int.sign_neg]
      exact Opp_neg_neg (by unfold cross; ring) (by unfold cross; ring)

theorem Between_flip_cols (rd cd r c : Int) : Between rd (-cd) r (-c) ↔ Between rd cd r c := by
  unfold Between
  by_cases hr : rd = 0
  · subst hr
    rw [corners_row, corners_row, Int.sign_neg]
    exact Opp_neg_neg (by unfold cross; ring) (by unfold cross; ring)
  · by_cases hc : cd = 0
    · subst hc
      rw [neg_zero, corners_col hr]
      exact Opp_neg_swap (by unfold cross; ring) (by unfold cross; ring)
    · rw [corners_diag hr hc, corners_diag hr (neg_ne_zero.mpr hc), Int.sign_neg]
      exact Opp_neg_neg (by unfold cross; ring) (by unfold cross; ring)

theorem Between_transpose (rd cd r c : Int) (h0 : ¬(rd = 0 ∧ cd = 0)) :
    Between cd rd c r ↔ Between rd cd r c := by
  unfold Between
  by_cases hr : rd = 0
  · have hc : cd ≠ 0 := fun h => h0 ⟨hr, h⟩
    subst hr
    rw [corners_row, corners_col hc]
    exact Opp_neg_neg (by unfold cross; ring) (by unfold cross; ring)
  · by_cases hc : cd = 0
    · subst hc
      rw [corners_row, corners_col hr]
      exact Opp_neg_neg (by unfold cross; ring) (by unfold cross; ring)
    · rw [corners_diag hr hc, corners_diag hc hr]
      exact Opp_neg_swap (by unfold cross; ring) (by unfold cross; ring)

theorem HiddenP_flip_rows (rd cd r c : Int) : HiddenP (-rd) cd (-r) c ↔ HiddenP rd cd r c := by
  rw [HiddenP_def, HiddenP_def, Between_flip_rows, Int.sign_neg, neg_mul_neg, neg_mul_neg]
  have e1 : ¬(-rd = 0 ∧ cd = 0) ↔ ¬(rd = 0 ∧ cd = 0) := by omega
  have e2 : ¬(-r = -rd ∧ c = cd) ↔ ¬(r = rd ∧ c = cd) := by omega
  rw [e1, e2]

theorem HiddenP_flip_cols (rd cd r c : Int) : HiddenP rd (-cd) r (-c) ↔ HiddenP rd cd r c := by
  rw [HiddenP_def, HiddenP_def, Between_flip_cols, Int.sign_neg, neg_mul_neg, neg_mul_neg]
  have e1 : ¬(rd = 0 ∧ -cd = 0) ↔ ¬(rd = 0 ∧ cd = 0) := by omega
  have e2 : ¬(r = rd ∧ -c = -cd) ↔ ¬(r = rd ∧ c = cd) := by omega
  rw [e1, e2]

theorem HiddenP_transpose (rd cd r c : Int) : HiddenP cd rd c r ↔ HiddenP rd cd r c := by
  rw [HiddenP_def, HiddenP_def]
  constructor
  · rintro ⟨h1, h2, h3, h4, h5⟩
    have h0 : ¬(rd = 0 ∧ cd = 0) := fun h => h1 ⟨h.2, h.1⟩
    exact ⟨h0, fun h => h2 ⟨h.2, h.1⟩, h4, h3, (Between_transpose rd cd r c h0).mp h5⟩
  · rintro ⟨h1, h2, h3, h4, h5⟩
    exact ⟨fun h => h1 ⟨h.2, h.1⟩, fun h => h2 ⟨h.2, h.1⟩, h4, h3, (Between_transpose rd cd r c h1).mpr h5⟩

/-! ## The eight symmetries of the square -/

/-- a symmetry of the square: transpose first (if `swap`), then negate rows / columns.
`⟨false,false,false⟩` identity, `⟨false,true,false⟩` / `⟨false,false,true⟩` the two reflections,
`⟨false,true,true⟩` the half turn, `⟨true,false,false⟩` / `⟨true,true,true⟩` the two diagonal
reflections, `⟨true,true,false⟩` / `⟨true,false,true⟩` the two quarter turns. -/
structure Sym where
  swap : Bool
  negR : Bool
  negC : Bool
deriving DecidableEq, Repr

/-- action on an offset `(rows, cols)` from the viewer -/
def Sym.act (s : Sym) (p : Int × Int) : Int × Int :=
  ((if s.negR then -(if s.swap then p.2 else p.1) else (if s.swap then p.2 else p.1)),
   (if s.negC then -(if s.swap then p.1 else p.2) else (if s.swap then p.1 else p.2)))

/-- action on an agent entry: the offset moves, the flags stay -/
def Sym.onBlocker (s : Sym) (b : Blocker) : Blocker :=
  ((s.act (b.1, b.2.1)).1, (s.act (b.1, b.2.1)).2, b.2.2.1, b.2.2.2)

theorem HiddenP_act (s : Sym) (rd cd r c : Int) :
    HiddenP (s.act (rd, cd)).1 (s.act (rd, cd)).2 (s.act (r, c)).1 (s.act (r, c)).2 ↔
      HiddenP rd cd r c := by
  obtain ⟨sw, nr, nc⟩ := s
  cases sw <;> cases nr <;> cases nc <;> simp only [Sym.act, if_true, if_false, Bool.false_eq_true]
  · exact HiddenP_flip_cols rd cd r c
  · exact HiddenP_flip_rows rd cd r c
  · exact (HiddenP_flip_rows rd (-cd) r (-c)).trans (HiddenP_flip_cols rd cd r c)
  · exact HiddenP_transpose rd cd r c
  · exact (HiddenP_flip_cols cd rd c r).trans (HiddenP_transpose rd cd r c)
  · exact (HiddenP_flip_rows cd rd c r).trans (HiddenP_transpose rd cd r c)
  · exact (HiddenP_flip_rows cd (-rd) c (-r)).trans
      ((HiddenP_flip_cols cd rd c r).trans (HiddenP_transpose rd cd r c))

theorem inWin_neg (R : Nat) (x : Int) : inWin R (-x) = inWin R x := by
  rw [Bool.eq_iff_iff, inWin_iff, inWin_iff]; omega

/-- the window is a square centred on the viewer: every symmetry maps it onto itself -/
theorem inWin_act (R : Nat) (s : Sym) (x y : Int) :
    (inWin R (s.act (x, y)).1 && inWin R (s.act (x, y)).2) = (inWin R x && inWin R y) := by
  obtain ⟨sw, nr, nc⟩ := s
  cases sw <;> cases nr <;> cases nc <;>
    simp only [Sym.act, if_true, if_false, Bool.false_eq_true, inWin_neg, Bool.and_comm]

theorem hiddenSpec_act (s : Sym) (rd cd r c : Int) :
    hiddenSpec (s.act (rd, cd)).1 (s.act (rd, cd)).2 (s.act (r, c)).1 (s.act (r, c)).2 =
      hiddenSpec rd cd r c := by
  rw [Bool.eq_iff_iff, hiddenSpec_iff, hiddenSpec_iff]
  exact HiddenP_act s rd cd r c

/-- transforming every agent's offset and the cell by the same symmetry does not change
whether the cell is hidden -/
theorem hiddenBySpec_act (R : Nat) (s : Sym) (bs : List Blocker) (r c : Int) :
    hiddenBySpec R (bs.map s.onBlocker) (s.act (r, c)).1 (s.act (r, c)).2 = hiddenBySpec R bs r c := by
  unfold hiddenBySpec
  rw [List.any_map]
  congr 1
  funext b
  simp only [Function.comp, Sym.onBlocker]
  rw [hiddenSpec_act, Bool.and_assoc (b.2.2.1 && b.2.2.2), inWin_act, ← Bool.and_assoc (b.2.2.1 && b.2.2.2)]

end Mask
end Abmarl
