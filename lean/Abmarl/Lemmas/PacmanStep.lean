import Abmarl.Lemmas.PacmanFloat
import Abmarl.Lemmas.ExamplesNoRaise
/-!
# A `step` of `PacmanSim` / `PacmanSimSimple` from a `PM.stepPre` state returns and leaves `WInv` (and `teleSafe`)

Between pacman's move and the end of `step` the world is NOT a `WInv` world (`PacmanSim`: pacman, eaten by a baddie, stays
in its cell until the last statement).  The invariant of the middle of a step is `Mid`: the cell structure and the vitals
(`WInvFloat`), every agent OTHER than pacman is stored exactly when it is active (`Sound`), pacman is stored in the cell of
its position (dead or alive), everybody but pacman and the food is alive, the documented agent mix (`WF`) and the
usable teleport cells (`TS`).  Every statement of `step` keeps `Mid` and does not raise (`*_mid`); the last statement
re-establishes `WInv`.
-/
namespace Abmarl
namespace PM
open World Ex

/-! ## `WInv` is `WInvFloat` plus "stored exactly when active" -/

/-- the agent is stored in the cell of its position when it is active, and in no cell when it is not -/
def Sound (w : World) (a : Aid) : Prop :=
  ((w.stOf a).active = true → a ∈ w.cells.getD (w.idx (w.stOf a).pos) []) ∧
  (∀ i, a ∈ w.cells.getD i [] → (w.stOf a).active = true)

theorem WInv_iff_sound (w : World) : w.WInv = true ↔ (CInv w ∧ Vit w ∧ ∀ a < w.n, Sound w a) := by
  constructor
  · intro hI
    refine ⟨cinv_of_WInv hI, vit_of_WInv hI, ?_⟩
    intro a ha
    obtain ⟨hs, hc, hag, _⟩ := (WInv_parts_iff w).mp hI
    simp only [wShape, Bool.and_eq_true, beq_iff_eq] at hs
    refine ⟨fun hact => (((wAgent_reading w a).mp (hag a ha)).1 hact).2, ?_⟩
    intro i hi
    by_cases hil : i < w.rows * w.cols
    · exact (((wCell_reading w i).mp (hc i hil)).2.1 a hi).2.1
    · rw [getD_nil_of_le (by rw [hs.1]; omega)] at hi; cases hi
  · rintro ⟨hC, hV, hS⟩
    rw [WInv_parts_iff]
    refine ⟨?_, ?_, ?_, hC.sym⟩
    · simp only [wShape, Bool.and_eq_true, beq_iff_eq]; exact ⟨hC.lenC, hC.lenS⟩
    · intro i _
      rw [wCell_reading]
      refine ⟨hC.nodup i, fun a h => ?_, fun a h b h' => hC.pair i a b h h'⟩
      obtain ⟨h1, h2, h3⟩ := hC.occ i a h
      exact ⟨h1, (hS a h1).2 i h, h2, h3⟩
    · intro a ha
      rw [wAgent_reading]
      refine ⟨fun hact => ?_, (wAgentF_reading w a).mp (hV a ha)⟩
      have hm := (hS a ha).1 hact
      exact ⟨(hC.occ _ a hm).2.1, hm⟩

theorem sound_congr {w w' : World} {b : Aid} (hc : w'.cols = w.cols) (hpos : (w'.stOf b).pos = (w.stOf b).pos)
    (hact : (w'.stOf b).active = (w.stOf b).active)
    (hmem : ∀ i, b ∈ w'.cells.getD i [] ↔ b ∈ w.cells.getD i []) (h : Sound w b) : Sound w' b := by
  have hidx : ∀ p, w'.idx p = w.idx p := by intro p; simp [idx, hc]
  refine ⟨fun ha => ?_, fun i hi => ?_⟩
  · rw [hpos, hidx, hmem]; rw [hact] at ha; exact h.1 ha
  · rw [hact]; exact h.2 i ((hmem i).mp hi)

/-! ## the configuration hypotheses as propositions -/

/-- `cfgWF`, read -/
structure WF (cfg : Cfg) (n : Nat) (mv : Aid → Bool) : Prop where
  qn : cfg.pacman < n
  qmover : mv cfg.pacman = true
  qlearn : cfg.isLearning cfg.pacman = true
  qfood : cfg.pacman ∉ cfg.food
  qbad : cfg.pacman ∉ cfg.baddies
  learn : ∀ a < n, cfg.isLearning a = mv a
  food : ∀ a ∈ cfg.food, a < n ∧ mv a = false ∧ a ∉ cfg.baddies
  bad : ∀ a ∈ cfg.baddies, a < n ∧ mv a = true
  full : cfg.scheme.full cfg.simple = true
  named : cfg.simple = true → ∀ i < 5, ∃ b, cfg.named.getD i none = some b ∧ b ∈ cfg.baddies

theorem wf_of_b {cfg : Cfg} {w : World} (h : cfgWF cfg w = true) : WF cfg w.n (mover w) := by
  simp only [cfgWF, Bool.and_eq_true, decide_eq_true_eq, Bool.not_eq_true', List.all_eq_true, allAgents,
    List.mem_range, beq_iff_eq, Bool.or_eq_true, List.contains_eq_mem, decide_eq_false_iff_not] at h
  obtain ⟨⟨⟨⟨⟨⟨⟨⟨⟨h1, h2⟩, h3⟩, h4⟩, h5⟩, h6⟩, h7⟩, h8⟩, h9⟩, h10⟩ := h
  refine ⟨h1, h2, h3, h4, h5, h6, fun a ha => ?_, fun a ha => ?_, h9, ?_⟩
  · obtain ⟨⟨x1, x2⟩, x3⟩ := h7 a ha; exact ⟨x1, x2, x3⟩
  · exact h8 a ha
  · intro hs i hi
    rcases h10 with h | h
    · rw [hs] at h; cases h
    · have := h i hi
      cases hg : cfg.named.getD i none with
      | none => rw [hg] at this; cases this
      | some b => rw [hg] at this; exact ⟨b, rfl, by simpa using this⟩

theorem mover_congr {w w' : World} (h : w'.cfg = w.cfg) : mover w' = mover w := by
  funext a; simp [mover, cfgOf, h]

/-- `teleSafe`, read -/
structure TS (cfg : Cfg) (w : World) : Prop where
  in0 : w.inGrid (9, 0) = true
  inF : w.inGrid (9, cfg.far) = true
  ok : ∀ m < w.n, mover w m = true → ∀ b < w.n,
    (mover w b = true ∨ b ∈ w.cell (9, 0) ∨ b ∈ w.cell (9, cfg.far)) → m = b ∨ w.pairOK (w.encOf m) (w.encOf b) = true

theorem ts_iff (cfg : Cfg) (w : World) : teleSafe cfg w = true ↔ TS cfg w := by
  simp only [teleSafe, teleCells, List.all_cons, List.all_nil, List.any_cons, List.any_nil, Bool.and_true, Bool.or_false,
    Bool.and_eq_true, List.all_eq_true, allAgents, List.mem_range, Bool.or_eq_true, Bool.not_eq_true', beq_iff_eq]
  constructor
  · rintro ⟨⟨h0, hF⟩, h⟩
    refine ⟨h0, hF, fun m hm hmv b hb hor => ?_⟩
    rcases h m hm with h | h
    · rw [hmv] at h; cases h
    · rcases h b hb with (h | h) | h
      · exfalso
        simp only [Bool.or_eq_false_iff, decide_eq_false_iff_not] at h
        rcases hor with x | x | x
        · rw [x] at h; exact absurd h.1 (by simp)
        · exact h.2.1 x
        · exact h.2.2 x
      · exact Or.inl h
      · exact Or.inr h
  · rintro ⟨h0, hF, h⟩
    refine ⟨⟨h0, hF⟩, fun m hm => ?_⟩
    cases hmv : mover w m with
    | false => exact Or.inl rfl
    | true =>
      refine Or.inr fun b hb => ?_
      by_cases hor : mover w b = true ∨ b ∈ w.cell (9, 0) ∨ b ∈ w.cell (9, cfg.far)
      · rcases h m hm hmv b hb hor with x | x
        · exact Or.inl (Or.inr x)
        · exact Or.inr x
      · refine Or.inl (Or.inl ?_)
        simp only [Bool.or_eq_false_iff, decide_eq_false_iff_not]
        refine ⟨?_, fun x => hor (Or.inr (Or.inl x)), fun x => hor (Or.inr (Or.inr x))⟩
        cases hb' : mover w b with
        | false => rfl
        | true => exact absurd (Or.inl hb') hor

/-- the teleport stays usable when cells only lose agents or gain movers -/
theorem TS.mono {cfg : Cfg} {w w' : World} (h : TS cfg w) (hr : w'.rows = w.rows) (hc : w'.cols = w.cols)
    (ho : w'.overlap = w.overlap) (hcfg : w'.cfg = w.cfg)
    (hmem : ∀ i b, b ∈ w'.cells.getD i [] → b ∈ w.cells.getD i [] ∨ mover w b = true) : TS cfg w' := by
  have hidx' : ∀ p, w'.idx p = w.idx p := by intro p; simp [idx, hc]
  have hinG' : ∀ p, w'.inGrid p = w.inGrid p := by intro p; simp [inGrid, hr, hc]
  have hn' : w'.n = w.n := by simp [World.n, hcfg]
  have henc' : ∀ b, w'.encOf b = w.encOf b := by intro b; simp [encOf, cfgOf, hcfg]
  have hpair' : ∀ e1 e2, w'.pairOK e1 e2 = w.pairOK e1 e2 := by intro e1 e2; simp [pairOK, ho]
  refine ⟨by rw [hinG']; exact h.in0, by rw [hinG']; exact h.inF, ?_⟩
  intro m hm hmv b hb hor
  rw [hn'] at hm hb
  rw [mover_congr hcfg] at hmv hor
  rw [henc', henc', hpair']
  refine h.ok m hm hmv b hb ?_
  rcases hor with x | x | x
  · exact Or.inl x
  · unfold cell at x; rw [hidx'] at x
    rcases hmem _ b x with y | y
    · exact Or.inr (Or.inl y)
    · exact Or.inl y
  · unfold cell at x; rw [hidx'] at x
    rcases hmem _ b x with y | y
    · exact Or.inr (Or.inr y)
    · exact Or.inl y

/-! ## the invariant of the middle of a step -/

structure Mid (cfg : Cfg) (w : World) : Prop where
  cinv : CInv w
  vit : Vit w
  wf : WF cfg w.n (mover w)
  ts : TS cfg w
  sound : ∀ a < w.n, a ≠ cfg.pacman → Sound w a
  qst : cfg.pacman ∈ w.cells.getD (w.idx (w.stOf cfg.pacman).pos) []
  alive : ∀ a < w.n, a ≠ cfg.pacman → a ∉ cfg.food → (w.stOf a).active = true
  simple : cfg.simple = true → (w.stOf cfg.pacman).active = true

/-- a world described by the old one -/
theorem Mid.transfer {cfg : Cfg} {w w' : World} (hM : Mid cfg w) (hV : VSame w w') (hC : CInv w')
    (hmem : ∀ i b, b ∈ w'.cells.getD i [] → b ∈ w.cells.getD i [] ∨ mover w b = true)
    (hsound : ∀ a < w.n, a ≠ cfg.pacman → Sound w' a)
    (hq : cfg.pacman ∈ w'.cells.getD (w'.idx (w'.stOf cfg.pacman).pos) [])
    (halive : ∀ a < w.n, a ≠ cfg.pacman → a ∉ cfg.food → (w'.stOf a).active = true)
    (hsimple : cfg.simple = true → (w'.stOf cfg.pacman).active = true) : Mid cfg w' := by
  have hn' : w'.n = w.n := by simp [World.n, hV.cfg]
  refine ⟨hC, vit_of_vsame hV hM.vit, ?_, hM.ts.mono hV.rows hV.cols hV.overlap hV.cfg hmem, ?_, hq, ?_, hsimple⟩
  · rw [hn', mover_congr hV.cfg]; exact hM.wf
  · rw [hn']; exact hsound
  · rw [hn']; exact halive

theorem Mid.stored {cfg : Cfg} {w : World} (hM : Mid cfg w) {a : Aid} (ha : a < w.n) (hact : (w.stOf a).active = true) :
    a ∈ w.cells.getD (w.idx (w.stOf a).pos) [] := by
  by_cases hq : a = cfg.pacman
  · rw [hq]; exact hM.qst
  · exact (hM.sound a ha hq).1 hact

theorem mid_of_WInv {cfg : Cfg} {w : World} (hI : w.WInv = true) (hwf : cfgWF cfg w = true) (hts : teleSafe cfg w = true)
    (hq : (w.stOf cfg.pacman).active = true)
    (hal : ∀ a < w.n, a ≠ cfg.pacman → a ∉ cfg.food → (w.stOf a).active = true) : Mid cfg w := by
  obtain ⟨hC, hV, hS⟩ := (WInv_iff_sound w).mp hI
  have hwf' := wf_of_b hwf
  exact ⟨hC, hV, hwf', (ts_iff cfg w).mp hts, fun a ha _ => hS a ha, (hS _ hwf'.qn).1 hq, hal, fun _ => hq⟩

/-- at the end of a step in which pacman survived -/
theorem Mid.toWInv {cfg : Cfg} {w : World} (hM : Mid cfg w) (hq : (w.stOf cfg.pacman).active = true) : w.WInv = true := by
  rw [WInv_iff_sound]
  refine ⟨hM.cinv, hM.vit, fun a ha => ?_⟩
  by_cases haq : a = cfg.pacman
  · rw [haq]; exact ⟨fun _ => hM.qst, fun _ _ => hq⟩
  · exact hM.sound a ha haq

/-! ## relocation: `grid.remove(a, src); grid.place(a, dst)` with an accepted placement -/

theorem mem_removed {w w1 : World} {a : Aid} {src : Pos} (hC : CInv w) (hr : w.remove a src = .ok w1) (i : Nat) (b : Aid) :
    b ∈ w1.cells.getD i [] ↔ (b ≠ a ∧ b ∈ w.cells.getD i []) :=
  ⟨fun h => ⟨fun e => nowhere_remove hC hr i (e ▸ h), ((mem_remove hC hr i b).mp h).1⟩,
   fun h => (mem_remove hC hr i b).mpr ⟨h.2, fun x => h.1 x.1⟩⟩

theorem place_desc {w1 : World} {a : Aid} {dst : Pos} (hq : w1.query a dst = true) (hno : ∀ i, a ∉ w1.cells.getD i [])
    (hl : w1.idx dst < w1.cells.length) (haS : a < w1.st.length) :
    (∀ b, ((w1.place a dst).2).stOf b = if b = a then { w1.stOf a with pos := dst } else w1.stOf b) ∧
    (∀ i b, b ∈ ((w1.place a dst).2).cells.getD i [] ↔ (b ∈ w1.cells.getD i [] ∨ (b = a ∧ i = w1.idx dst))) := by
  rw [place_accepted hq (hno _)]
  refine ⟨fun b => ?_, fun i b => ?_⟩
  · rw [stOf_place]
    by_cases hb : b = a
    · rw [if_pos ⟨hb, haS⟩, if_pos hb]
    · rw [if_neg (fun h => hb h.1), if_neg hb]
  · show b ∈ (w1.cells.set (w1.idx dst) (w1.cell dst ++ [a])).getD i [] ↔ _
    rw [getD_set_cells]
    by_cases hi : i = w1.idx dst
    · rw [if_pos ⟨hi, hl⟩, hi]
      simp only [List.mem_append, List.mem_singleton, and_true]
      rfl
    · rw [if_neg (fun h => hi h.1)]
      simp [hi]

theorem query_of_remove {w w1 : World} {a : Aid} {src dst : Pos} (hC : CInv w) (hr : w.remove a src = .ok w1)
    (hq : w.query a dst = true) : w1.query a dst = true := by
  rw [query_eq, List.all_eq_true] at hq ⊢
  intro o ho
  have ho' : o ∈ w.cell dst := by
    have := (mem_removed hC hr (w1.idx dst) o).mp ho
    obtain ⟨_, rfl⟩ := remove_ok hr
    exact this.2
  have := hq o ho'
  obtain ⟨_, rfl⟩ := remove_ok hr
  exact this

/-- **a mover that is active is relocated: `Mid` is kept** -/
theorem mid_reloc {cfg : Cfg} {w w1 : World} {a : Aid} {src dst : Pos} (hM : Mid cfg w) (hmv : mover w a = true)
    (hact : (w.stOf a).active = true) (hr : w.remove a src = .ok w1) (hin : w.inGrid dst = true)
    (hq : w1.query a dst = true) :
    Mid cfg (w1.place a dst).2 ∧ ((w1.place a dst).2.stOf a).active = true := by
  have hC := hM.cinv
  have ha : a < w.n := lt_of_remove hC hr
  have hno := nowhere_remove hC hr
  have hst1 : ∀ b, w1.stOf b = w.stOf b := remove_stOf' hr
  have hV1 : VSame w w1 := vsame_remove hr
  have hin1 : w1.inGrid dst = true := by simp only [inGrid, hV1.rows, hV1.cols]; exact hin
  have hidx1 : ∀ p, w1.idx p = w.idx p := by intro p; simp [idx, hV1.cols]
  have hl : w1.idx dst < w1.cells.length := by
    rw [hidx1]
    obtain ⟨_, rfl⟩ := remove_ok hr
    simp only [List.length_set]
    rw [hC.lenC]; exact idx_lt hin
  have haS : a < w1.st.length := by rw [hV1.len, hC.lenS]; exact ha
  obtain ⟨hst, hmem⟩ := place_desc hq hno hl haS
  have hV : VSame w (w1.place a dst).2 := hV1.trans (vsame_place w1 a dst)
  have hidx2 : ∀ p, (w1.place a dst).2.idx p = w.idx p := by intro p; simp [idx, hV.cols]
  have hact2 : ∀ b, ((w1.place a dst).2.stOf b).active = (w.stOf b).active := by
    intro b; rw [hst]; split
    · rename_i hb; rw [hb, hst1]
    · rw [hst1]
  have hmemo : ∀ i b, b ≠ a → (b ∈ (w1.place a dst).2.cells.getD i [] ↔ b ∈ w.cells.getD i []) := by
    intro i b hb
    rw [hmem, mem_removed hC hr]
    exact ⟨fun h => h.elim (fun x => x.2) (fun x => absurd x.1 hb), fun h => Or.inl ⟨hb, h⟩⟩
  have hstored : a ∈ (w1.place a dst).2.cells.getD ((w1.place a dst).2.idx ((w1.place a dst).2.stOf a).pos) [] := by
    rw [hmem, hst, if_pos rfl, hidx2, hidx1]
    exact Or.inr ⟨rfl, rfl⟩
  have hother : ∀ b, b ≠ a → Sound w b → Sound (w1.place a dst).2 b := by
    intro b hb hS
    refine sound_congr hV.cols ?_ (hact2 b) (fun i => hmemo i b hb) hS
    rw [hst, if_neg hb, hst1]
  refine ⟨hM.transfer hV (prim_cinv.reloc hC hr hin1) ?_ ?_ ?_ ?_ ?_, by rw [hact2]; exact hact⟩
  · intro i b hb
    rcases (hmem i b).mp hb with h | h
    · exact Or.inl ((mem_removed hC hr i b).mp h).2
    · rw [h.1]; exact Or.inr hmv
  · intro b hb hbq
    by_cases hba : b = a
    · rw [hba]
      exact ⟨fun _ => hstored, fun _ _ => by rw [hact2]; exact hact⟩
    · exact hother b hba (hM.sound b hb hbq)
  · by_cases hqa : cfg.pacman = a
    · rw [hqa]; exact hstored
    · rw [hst, if_neg hqa, hst1, hidx2, hmemo _ _ hqa]
      exact hM.qst
  · intro b hb hbq hbf
    rw [hact2]; exact hM.alive b hb hbq hbf
  · intro hs
    rw [hact2]; exact hM.simple hs

/-- **the common body of the move actors, for an active mover in the middle of a step**: it returns and keeps `Mid` -/
theorem moveBy_mid {cfg : Cfg} {w : World} {a : Aid} (hM : Mid cfg w) (ha : a < w.n) (hmv : mover w a = true)
    (hact : (w.stOf a).active = true) (d : Pos) :
    ∃ b w', w.moveBy a d = .ok (b, w') ∧ Mid cfg w' ∧ (w'.stOf a).active = true := by
  unfold moveBy
  simp only
  by_cases hin : w.inGrid ((w.stOf a).pos.1 + d.1, (w.stOf a).pos.2 + d.2) = true
  · rw [if_pos hin]
    by_cases heq : ((w.stOf a).pos.1 + d.1, (w.stOf a).pos.2 + d.2) = (w.stOf a).pos
    · rw [if_pos heq]; exact ⟨true, w, rfl, hM, hact⟩
    · rw [if_neg heq]
      by_cases hq : w.query a ((w.stOf a).pos.1 + d.1, (w.stOf a).pos.2 + d.2) = true
      · rw [if_pos hq]
        have hmem : a ∈ w.cell (w.stOf a).pos := hM.stored ha hact
        cases hr : w.remove a (w.stOf a).pos with
        | error e => simp [remove, hmem] at hr
        | ok w1 =>
          simp only
          obtain ⟨h1, h2⟩ := mid_reloc hM hmv hact hr hin (query_of_remove hM.cinv hr hq)
          exact ⟨true, _, rfl, h1, h2⟩
      · rw [if_neg hq]; exact ⟨false, w, rfl, hM, hact⟩
  · rw [if_neg hin]; exact ⟨false, w, rfl, hM, hact⟩

theorem crossAct_mid {cfg : Cfg} {w : World} {a : Aid} (hM : Mid cfg w) (ha : a < w.n) (hmv : mover w a = true)
    (hact : (w.stOf a).active = true) {x : Int} (h0 : 0 ≤ x) (h4 : x ≤ 4) :
    ∃ b w', w.crossAct a x = .ok (some b, w') ∧ Mid cfg w' ∧ (w'.stOf a).active = true := by
  have hmoving : (w.cfgOf a).moving = true := by
    simp only [mover, Bool.and_eq_true] at hmv; exact hmv.1
  obtain ⟨d, hd⟩ : ∃ d, crossTable x = some d := by
    have : x = 0 ∨ x = 1 ∨ x = 2 ∨ x = 3 ∨ x = 4 := by omega
    rcases this with rfl | rfl | rfl | rfl | rfl <;> exact ⟨_, rfl⟩
  obtain ⟨b, w', hm, h1, h2⟩ := moveBy_mid hM ha hmv hact d
  exact ⟨b, w', by simp only [crossAct, hmoving, if_true, hd, hm], h1, h2⟩

/-- a write of anything but position and activity keeps `Mid` -/
theorem mid_setSt {cfg : Cfg} {w : World} {a : Aid} {s : AgentSt} (hM : Mid cfg w) (hV : VSame w (w.setSt a s))
    (hpos : s.pos = (w.stOf a).pos) (hact : s.active = (w.stOf a).active) : Mid cfg (w.setSt a s) := by
  have hp : ∀ b, ((w.setSt a s).stOf b).pos = (w.stOf b).pos := by
    intro b; rw [stOf_setSt]; split
    · rename_i h; rw [h.1, hpos]
    · rfl
  have hac : ∀ b, ((w.setSt a s).stOf b).active = (w.stOf b).active := by
    intro b; rw [stOf_setSt]; split
    · rename_i h; rw [h.1, hact]
    · rfl
  refine hM.transfer hV (cinv_setSt hM.cinv hpos) (fun i b hb => Or.inl hb) ?_ ?_ ?_ ?_
  · intro b hb hbq
    exact sound_congr (w := w) (w' := w.setSt a s) rfl (hp b) (hac b) (fun i => Iff.rfl) (hM.sound b hb hbq)
  · rw [hp]; exact hM.qst
  · intro b hb hbq hbf; rw [hac]; exact hM.alive b hb hbq hbf
  · intro hs; rw [hac]; exact hM.simple hs

/-- **`DriftMoveActor.process_action` for an active mover and an action of `Discrete(5)`, in the middle of a step**: it
returns `True` or `False` and keeps `Mid` -/
theorem driftAct_mid {cfg : Cfg} {w : World} {a : Aid} (hM : Mid cfg w) (ha : a < w.n) (hmv : mover w a = true)
    (hact : (w.stOf a).active = true) {x : Int} (h0 : 0 ≤ x) (h4 : x ≤ 4) :
    ∃ b w' l, w.driftAct a x = .ok (some b, w', l) ∧ Mid cfg w' ∧ (w'.stOf a).active = true := by
  have hmv' : ((w.cfgOf a).moving && (w.cfgOf a).hasOrient) = true := hmv
  have hdrift : ∀ w0 : World, Mid cfg w0 → a < w0.n → mover w0 a = true → (w0.stOf a).active = true →
      ∃ b w' l, (match w0.crossAct a ((w0.stOf a).orient : Int) with
         | .ok (b, w1) => Except.ok (b, w1, ((w0.stOf a).orient : Int))
         | .error e => .error e) = .ok (some b, w', l) ∧ Mid cfg w' ∧ (w'.stOf a).active = true := by
    intro w0 hM0 ha0 hmv0 hact0
    have ho : (w0.cfgOf a).hasOrient = true := by
      simp only [mover, Bool.and_eq_true] at hmv0; exact hmv0.2
    have hor := ((wAgentF_reading w0 a).mp (hM0.vit a ha0)).2.2.2.2.2 ho
    obtain ⟨b, w', hc, h1, h2⟩ := crossAct_mid hM0 ha0 hmv0 hact0 (x := ((w0.stOf a).orient : Int)) (by omega) (by omega)
    exact ⟨b, w', _, by rw [hc], h1, h2⟩
  unfold driftAct
  simp only [hmv', if_true]
  by_cases hx0 : x ≠ 0
  · rw [if_pos hx0]
    obtain ⟨b, w1, hc, h1, h2⟩ := crossAct_mid hM ha hmv hact h0 h4
    have hV1 : VSame w w1 := vsame_crossAct hc
    have hn1 : w1.n = w.n := by simp [World.n, hV1.cfg]
    rw [hc]
    cases b with
    | false =>
      simp only
      exact hdrift w1 h1 (by rw [hn1]; exact ha) (by rw [mover_congr hV1.cfg]; exact hmv) h2
    | true =>
      simp only
      obtain ⟨d, hd⟩ := crossAct_some_true hc
      have hV2 : VSame w1 (w1.setSt a { w1.stOf a with orient := x.toNat }) :=
        vsame_setSt w1 a _ ⟨rfl, Or.inl ⟨rfl, rfl⟩, Or.inr (crossTable_range hd hx0)⟩
      refine ⟨true, _, x, rfl, mid_setSt h1 hV2 rfl rfl, ?_⟩
      rw [stOf_setSt]; split
      · exact h2
      · exact h2
  · rw [if_neg hx0]
    exact hdrift w hM ha hmv hact

/-! ## the teleport on a `teleSafe` world -/

theorem teleTo_mid {cfg : Cfg} {w : World} {a : Aid} {src dst : Pos} (hM : Mid cfg w) (ha : a < w.n) (hmv : mover w a = true)
    (hact : (w.stOf a).active = true) (hsrc : (w.stOf a).pos = src) (hsin : w.inGrid src = true) (hdin : w.inGrid dst = true)
    (hd : dst = (9, 0) ∨ dst = (9, cfg.far)) :
    (teleTo w a src dst).2 = none ∧ Mid cfg (teleTo w a src dst).1 ∧ ((teleTo w a src dst).1.stOf a).active = true := by
  have hmem : a ∈ w.cell src := by rw [← hsrc]; exact hM.stored ha hact
  unfold teleTo removeG
  rw [if_pos hsin]
  cases hr : w.remove a src with
  | error e => simp [remove, hmem] at hr
  | ok w1 =>
    simp only
    have hV1 : VSame w w1 := vsame_remove hr
    have hin1 : w1.inGrid dst = true := by simp only [inGrid, hV1.rows, hV1.cols]; exact hdin
    rw [if_pos hin1]
    have hq : w1.query a dst = true := by
      rw [query_eq, List.all_eq_true]
      intro o ho
      have ho' := (mem_removed hM.cinv hr _ o).mp ho
      have hidx1 : w1.idx dst = w.idx dst := by simp [idx, hV1.cols]
      rw [hidx1] at ho'
      have hon : o < w.n := (hM.cinv.occ _ o ho'.2).1
      have hcell : o ∈ w.cell (9, 0) ∨ o ∈ w.cell (9, cfg.far) := by
        rcases hd with h | h
        · exact Or.inl (h ▸ ho'.2)
        · exact Or.inr (h ▸ ho'.2)
      have := hM.ts.ok a ha hmv o hon (Or.inr hcell)
      rcases this with h | h
      · exact absurd h.symm ho'.1
      · obtain ⟨_, rfl⟩ := remove_ok hr
        exact h
    obtain ⟨h1, h2⟩ := mid_reloc hM hmv hact hr hdin hq
    exact ⟨rfl, h1, h2⟩

theorem tele_mid {cfg : Cfg} {w : World} {a : Aid} (hM : Mid cfg w) (ha : a < w.n) (hmv : mover w a = true)
    (hact : (w.stOf a).active = true) : (tele cfg w a).2 = none ∧ Mid cfg (tele cfg w a).1 := by
  unfold tele
  split
  · rename_i h
    obtain ⟨h1, h2, _⟩ := teleTo_mid hM ha hmv hact h hM.ts.in0 hM.ts.inF (Or.inr rfl)
    exact ⟨h1, h2⟩
  · split
    · rename_i h
      obtain ⟨h1, h2, _⟩ := teleTo_mid hM ha hmv hact h hM.ts.inF hM.ts.in0 (Or.inl rfl)
      exact ⟨h1, h2⟩
    · exact ⟨rfl, hM⟩

/-! ## blocks of statements -/

/-- the middle of a step: `Mid`, the number of agents, a reward entry for every learning agent -/
def PG (cfg : Cfg) (N : Nat) (p : PS) : Prop := Mid cfg p.w ∧ p.w.n = N ∧ Ex.LedgerFull cfg.toEx N p.r

/-- how a block may end in a step that must not raise: it falls through in the middle of a step, or it `return`s from a
world satisfying `WInv` -/
def Fin (cfg : Cfg) (N : Nat) (x : R) : Prop :=
  match x.2 with
  | .go => PG cfg N x.1
  | .ret => x.1.w.WInv = true ∧ TS cfg x.1.w
  | .err _ => False

/-- how `step` may end: not with an exception, and in a world satisfying `WInv` -/
def Done (cfg : Cfg) (x : R) : Prop :=
  match x.2 with
  | .err _ => False
  | _ => x.1.w.WInv = true ∧ TS cfg x.1.w

theorem andThen_go {x : R} {f : PS → R} (h : x.2 = .go) : andThen x f = f x.1 := by
  unfold andThen; rw [h]

theorem andThen_fin {cfg : Cfg} {N : Nat} {x : R} {f : PS → R} (hx : Fin cfg N x) (hf : ∀ p, PG cfg N p → Fin cfg N (f p)) :
    Fin cfg N (andThen x f) := by
  unfold andThen
  unfold Fin at hx
  split
  · rename_i h; rw [h] at hx; exact hf _ hx
  · exact hx

theorem andThen_done {cfg : Cfg} {N : Nat} {x : R} {f : PS → R} (hx : Fin cfg N x) (hf : ∀ p, PG cfg N p → Done cfg (f p)) :
    Done cfg (andThen x f) := by
  unfold andThen
  unfold Fin at hx
  split
  · rename_i h; rw [h] at hx; exact hf _ hx
  · rename_i h
    unfold Done
    cases hc : x.2 with
    | go => exact absurd hc h
    | ret => rw [hc] at hx; exact hx
    | err e => rw [hc] at hx; exact hx.elim

theorem fin_go {cfg : Cfg} {N : Nat} {x : R} (h : x.2 = .go) (hG : PG cfg N x.1) : Fin cfg N x := by
  unfold Fin; rw [h]; exact hG

theorem reward_go {cfg : Cfg} {N : Nat} {p : PS} {a : Aid} {v : Option Int} (hG : PG cfg N p) (ha : a < N)
    (hl : cfg.isLearning a = true) (hv : v.isSome = true) :
    (reward p a v).2 = .go ∧ (reward p a v).1.w = p.w ∧ PG cfg N (reward p a v).1 := by
  obtain ⟨x, hx⟩ := Option.isSome_iff_exists.mp (hG.2.2 a ha hl)
  obtain ⟨d, rfl⟩ := Option.isSome_iff_exists.mp hv
  unfold reward
  rw [hx]
  refine ⟨rfl, rfl, hG.1, hG.2.1, ?_⟩
  intro b hb hlb
  show ((dictSet p.r a (x + d)).lookup b).isSome = true
  rw [Ex.lookup_dictSet]
  split
  · rfl
  · exact hG.2.2 b hb hlb

theorem scheme_full {cfg : Cfg} (h : cfg.scheme.full cfg.simple = true) :
    cfg.scheme.badMove.isSome = true ∧ cfg.scheme.entropy.isSome = true ∧ cfg.scheme.eatFood.isSome = true ∧
    cfg.scheme.die.isSome = true ∧ (cfg.simple = false → cfg.scheme.kill.isSome = true) := by
  simp only [Scheme.full, Bool.and_eq_true, Bool.or_eq_true] at h
  obtain ⟨⟨⟨⟨h1, h2⟩, h3⟩, h4⟩, h5⟩ := h
  refine ⟨h1, h2, h3, h4, fun hs => ?_⟩
  rcases h5 with h | h
  · rw [hs] at h; cases h
  · exact h

/-- **`process_action`, the reward and the teleport for an active mover and an action of `Discrete(5)`** -/
theorem moveTele_mid {cfg : Cfg} {N : Nat} {p : PS} {a : Aid} (hG : PG cfg N p) (ha : a < N) (hmv : mover p.w a = true)
    (hact : (p.w.stOf a).active = true) {act : Int} (h0 : 0 ≤ act) (h4 : act ≤ 4) (rew : Bool) :
    Fin cfg N (moveTele cfg p a act rew) := by
  obtain ⟨hM, hn, hL⟩ := hG
  obtain ⟨b, w1, l, hd, hM1, hact1⟩ := driftAct_mid hM (by rw [hn]; exact ha) hmv hact h0 h4
  have hV1 : VSame p.w w1 := vsame_driftAct hd
  have hn1 : w1.n = N := by rw [← hn]; simp [World.n, hV1.cfg]
  have hG1 : PG cfg N { p with w := w1 } := ⟨hM1, hn1, hL⟩
  have hlearn : cfg.isLearning a = true := by rw [hM.wf.learn a (by rw [hn]; exact ha)]; exact hmv
  have hsch := scheme_full hM.wf.full
  have htele : ∀ p2 : PS, PG cfg N p2 → p2.w = w1 →
      Fin cfg N ({ p2 with w := (tele cfg p2.w a).1 }, match (tele cfg p2.w a).2 with | none => Ctl.go | some e => .err e) := by
    intro p2 hG2 hw
    have hmv2 : mover p2.w a = true := by rw [hw, mover_congr hV1.cfg]; exact hmv
    obtain ⟨h1, h2⟩ := tele_mid hG2.1 (by rw [hG2.2.1]; exact ha) hmv2 (by rw [hw]; exact hact1)
    have hV2 := vsame_tele cfg p2.w a
    rw [h1]
    exact fin_go rfl ⟨h2, by rw [← hG2.2.1]; simp [World.n, hV2.cfg], hG2.2.2⟩
  unfold moveTele
  rw [hd]
  simp only
  cases rew with
  | true =>
    simp only [if_true]
    obtain ⟨r1, r2, r3⟩ := reward_go (v := if some b = some true then cfg.scheme.entropy else cfg.scheme.badMove)
      hG1 ha hlearn (by split; exact hsch.2.1; exact hsch.1)
    rw [andThen_go r1]
    exact htele _ r3 r2
  | false =>
    simp only [Bool.false_eq_true, if_false]
    rw [andThen_go rfl]
    exact htele _ hG1 rfl

/-! ### the overlap loops -/

/-- one pass of an overlap loop over the snapshot of pacman's cell: pacman's position stays, nobody but `b` leaves a cell -/
def CellStep (cfg : Cfg) (N : Nat) (p : PS) (b : Aid) (x : R) : Prop :=
  match x.2 with
  | .go => PG cfg N x.1 ∧ (x.1.w.stOf cfg.pacman).pos = (p.w.stOf cfg.pacman).pos ∧ x.1.w.cols = p.w.cols ∧
      ∀ i c, c ≠ b → c ∈ p.w.cells.getD i [] → c ∈ x.1.w.cells.getD i []
  | .ret => x.1.w.WInv = true ∧ TS cfg x.1.w
  | .err _ => False

theorem cellStep_refl {cfg : Cfg} {N : Nat} {p : PS} (b : Aid) (hG : PG cfg N p) : CellStep cfg N p b (p, .go) :=
  ⟨hG, rfl, rfl, fun _ _ _ h => h⟩

theorem cellLoop {cfg : Cfg} {N : Nat} {f : PS → Aid → R}
    (hf : ∀ p b, PG cfg N p → b ∈ p.w.cells.getD (p.w.idx (p.w.stOf cfg.pacman).pos) [] → CellStep cfg N p b (f p b)) :
    ∀ (xs : List Aid) (p : PS), PG cfg N p → xs.Nodup →
      (∀ x ∈ xs, x ∈ p.w.cells.getD (p.w.idx (p.w.stOf cfg.pacman).pos) []) → Fin cfg N (loopR f p xs) := by
  intro xs
  induction xs with
  | nil => intro p hG _ _; exact fin_go rfl hG
  | cons b xs ih =>
    intro p hG hnd hmem
    have h := hf p b hG (hmem b List.mem_cons_self)
    unfold loopR
    cases hx : f p b with
    | mk p' c =>
      rw [hx] at h
      cases c with
      | go =>
        simp only
        obtain ⟨h1, h2, h3, h4⟩ := h
        have hnd' := List.nodup_cons.mp hnd
        refine ih p' h1 hnd'.2 ?_
        intro x hxm
        have h2' : (p'.w.stOf cfg.pacman).pos = (p.w.stOf cfg.pacman).pos := h2
        have h3' : p'.w.cols = p.w.cols := h3
        have hidx : p'.w.idx (p'.w.stOf cfg.pacman).pos = p.w.idx (p.w.stOf cfg.pacman).pos := by
          rw [h2']; simp [idx, h3']
        rw [hidx]
        exact h4 _ x (fun e => hnd'.1 (e ▸ hxm)) (hmem x (List.mem_cons_of_mem _ hxm))
      | ret => exact h
      | err e => exact h.elim

theorem Mid.qin {cfg : Cfg} {w : World} (hM : Mid cfg w) : w.inGrid (w.stOf cfg.pacman).pos = true :=
  (hM.cinv.occ _ _ hM.qst).2.1

theorem overlapLoop_fin {cfg : Cfg} {N : Nat} {f : PS → Aid → R}
    (hf : ∀ p b, PG cfg N p → b ∈ p.w.cells.getD (p.w.idx (p.w.stOf cfg.pacman).pos) [] → CellStep cfg N p b (f p b))
    (p : PS) (hG : PG cfg N p) : Fin cfg N (overlapLoop cfg f p) := by
  unfold overlapLoop
  simp only
  rw [if_pos hG.1.qin]
  exact cellLoop hf _ p hG (hG.1.cinv.nodup _) (fun x hx => hx)

theorem stOf_setHealth0 (w : World) (b c : Aid) :
    (w.setHealth b 0).stOf c = if c = b ∧ b < w.st.length then { w.stOf b with health := 0, active := false } else w.stOf c := by
  unfold setHealth
  rw [stOf_setSt]
  have h1 : min (max (0 : Rat) 0) 1 = 0 := by decide
  simp only [h1]
  rfl

/-- pacman eats the food `b` that stands on its cell -/
theorem eatBody_step {cfg : Cfg} {N : Nat} {p : PS} {b : Aid} (hG : PG cfg N p) (hbq : b ≠ cfg.pacman) (hbf : b ∈ cfg.food)
    (hb : b ∈ p.w.cells.getD (p.w.idx (p.w.stOf cfg.pacman).pos) []) :
    CellStep cfg N p b (andThen (reward p cfg.pacman cfg.scheme.eatFood) fun p1 =>
      match removeG p1.w b (p1.w.stOf cfg.pacman).pos with
      | .error e => (p1, Ctl.err e)
      | .ok w2 => ({ p1 with w := w2.setHealth b 0 }, Ctl.go)) := by
  obtain ⟨hM, hn, hL⟩ := hG
  have hsch := scheme_full hM.wf.full
  obtain ⟨r1, r2, r3⟩ := reward_go (v := cfg.scheme.eatFood) ⟨hM, hn, hL⟩ (by rw [← hn]; exact hM.wf.qn) hM.wf.qlearn hsch.2.2.1
  rw [andThen_go r1]
  simp only [r2]
  unfold removeG
  rw [if_pos hM.qin]
  have hbm : b ∈ p.w.cell (p.w.stOf cfg.pacman).pos := hb
  cases hr : p.w.remove b (p.w.stOf cfg.pacman).pos with
  | error e => simp [remove, hbm] at hr
  | ok w2 =>
    simp only
    have hC := hM.cinv
    have hbn : b < p.w.n := (hC.occ _ b hb).1
    have hV2 : VSame p.w w2 := vsame_remove hr
    have hV : VSame p.w (w2.setHealth b 0) := hV2.trans (vsame_setHealth0 w2 b)
    have hst2 : ∀ c, w2.stOf c = p.w.stOf c := remove_stOf' hr
    have hbS : b < w2.st.length := by rw [hV2.len, hC.lenS]; exact hbn
    have hst : ∀ c, c ≠ b → (w2.setHealth b 0).stOf c = p.w.stOf c := by
      intro c hc; rw [stOf_setHealth0, if_neg (fun h => hc h.1), hst2]
    have hdead : ((w2.setHealth b 0).stOf b).active = false := by
      rw [stOf_setHealth0, if_pos ⟨rfl, hbS⟩]
    have hmem : ∀ i c, c ∈ (w2.setHealth b 0).cells.getD i [] ↔ (c ≠ b ∧ c ∈ p.w.cells.getD i []) :=
      fun i c => mem_removed hC hr i c
    have hmemo : ∀ i c, c ≠ b → (c ∈ (w2.setHealth b 0).cells.getD i [] ↔ c ∈ p.w.cells.getD i []) := by
      intro i c hc; rw [hmem]; exact ⟨fun h => h.2, fun h => ⟨hc, h⟩⟩
    have hidx : ∀ q, (w2.setHealth b 0).idx q = p.w.idx q := by intro q; simp [idx, hV.cols]
    have hM' : Mid cfg (w2.setHealth b 0) := by
      refine hM.transfer hV (cinv_setHealth (cinv_remove hC hr)) (fun i c hc => Or.inl ((hmem i c).mp hc).2) ?_ ?_ ?_ ?_
      · intro a ha haq
        by_cases hab : a = b
        · rw [hab]
          exact ⟨fun h => (by rw [hdead] at h; cases h), fun i hi => absurd rfl ((hmem i b).mp hi).1⟩
        · exact sound_congr hV.cols (by rw [hst a hab]) (by rw [hst a hab]) (fun i => hmemo i a hab) (hM.sound a ha haq)
      · rw [hst _ (Ne.symm hbq), hidx, hmemo _ _ (Ne.symm hbq)]; exact hM.qst
      · intro a ha haq haf
        have hab : a ≠ b := fun e => haf (e ▸ hbf)
        rw [hst a hab]; exact hM.alive a ha haq haf
      · intro hs; rw [hst _ (Ne.symm hbq)]; exact hM.simple hs
    refine ⟨⟨hM', by rw [← hn]; simp [World.n, hV.cfg], r3.2.2⟩, by rw [hst _ (Ne.symm hbq)], hV.cols, ?_⟩
    intro i c hc hci
    exact (hmemo i c hc).mpr hci

/-- a baddie eats pacman (`PacmanSim`): pacman stays in its cell until the end of the step -/
theorem biteBody_step {cfg : Cfg} {N : Nat} {p : PS} {b : Aid} (hs : cfg.simple = false) (hG : PG cfg N p)
    (hbb : b ∈ cfg.baddies) :
    CellStep cfg N p b (andThen (reward p cfg.pacman cfg.scheme.die) fun p1 =>
      andThen (reward p1 b cfg.scheme.kill) fun p2 => ({ p2 with w := p2.w.setHealth cfg.pacman 0 }, Ctl.go)) := by
  have hM := hG.1
  have hn := hG.2.1
  have hsch := scheme_full hM.wf.full
  obtain ⟨r1, r2, r3⟩ := reward_go (v := cfg.scheme.die) hG (by rw [← hn]; exact hM.wf.qn) hM.wf.qlearn hsch.2.2.2.1
  rw [andThen_go r1]
  have hb := hM.wf.bad b hbb
  have hbl : cfg.isLearning b = true := by rw [hM.wf.learn b hb.1]; exact hb.2
  obtain ⟨s1, s2, s3⟩ := reward_go (v := cfg.scheme.kill) r3 (by rw [← hn]; exact hb.1) hbl (hsch.2.2.2.2 hs)
  rw [andThen_go s1]
  obtain ⟨w, hw⟩ : ∃ w, w = p.w := ⟨_, rfl⟩
  have hw2 : (reward (reward p cfg.pacman cfg.scheme.die).1 b cfg.scheme.kill).1.w = w := by rw [s2, r2, hw]
  simp only [hw2]
  rw [← hw] at hM hn
  have hV : VSame w (w.setHealth cfg.pacman 0) := vsame_setHealth0 w cfg.pacman
  have hst : ∀ c, c ≠ cfg.pacman → (w.setHealth cfg.pacman 0).stOf c = w.stOf c := by
    intro c hc; rw [stOf_setHealth0, if_neg (fun h => hc h.1)]
  have hpos : ((w.setHealth cfg.pacman 0).stOf cfg.pacman).pos = (w.stOf cfg.pacman).pos := by
    rw [stOf_setHealth0]; split <;> rfl
  have hM' : Mid cfg (w.setHealth cfg.pacman 0) := by
    refine hM.transfer hV (cinv_setHealth hM.cinv) (fun i c hc => Or.inl hc) ?_ ?_ ?_ ?_
    · intro a ha haq
      exact sound_congr (w := w) (w' := w.setHealth cfg.pacman 0) rfl (by rw [hst a haq]) (by rw [hst a haq])
        (fun i => Iff.rfl) (hM.sound a ha haq)
    · rw [hpos]; exact hM.qst
    · intro a ha haq haf; rw [hst a haq]; exact hM.alive a ha haq haf
    · intro h; rw [hs] at h; cases h
  subst hw
  exact ⟨⟨hM', by rw [← hn]; simp [World.n, hV.cfg], s3.2.2⟩, hpos, rfl, fun _ _ _ h => h⟩

/-- a dead pacman is taken out of its cell: the whole invariant is back -/
theorem winv_remove_q {cfg : Cfg} {w w2 : World} {P : Pos} (hC : CInv w) (hV : Vit w) (hts : TS cfg w)
    (hsound : ∀ a < w.n, a ≠ cfg.pacman → Sound w a) (hdead : (w.stOf cfg.pacman).active = false)
    (hr : w.remove cfg.pacman P = .ok w2) : w2.WInv = true ∧ TS cfg w2 := by
  have hV2 : VSame w w2 := vsame_remove hr
  have hst2 : ∀ c, w2.stOf c = w.stOf c := remove_stOf' hr
  have hmem := mem_removed hC hr
  refine ⟨?_, hts.mono hV2.rows hV2.cols hV2.overlap hV2.cfg (fun i c hc => Or.inl ((hmem i c).mp hc).2)⟩
  rw [WInv_iff_sound]
  refine ⟨cinv_remove hC hr, vit_of_vsame hV2 hV, ?_⟩
  intro a ha
  have ha' : a < w.n := by rw [← show w2.n = w.n by simp [World.n, hV2.cfg]]; exact ha
  by_cases haq : a = cfg.pacman
  · rw [haq]
    exact ⟨fun h => (by rw [hst2, hdead] at h; cases h), fun i hi => absurd rfl ((hmem i _).mp hi).1⟩
  · refine sound_congr hV2.cols (by rw [hst2]) (by rw [hst2]) (fun i => ?_) (hsound a ha' haq)
    rw [hmem]; exact ⟨fun h => h.2, fun h => ⟨haq, h⟩⟩

/-- a baddie eats pacman (`PacmanSimSimple`): reward, health, removal, `return` -/
theorem dieNow_step {cfg : Cfg} {N : Nat} {p : PS} (b : Aid) (hG : PG cfg N p) : CellStep cfg N p b (dieNow cfg p) := by
  have hM := hG.1
  have hn := hG.2.1
  have hsch := scheme_full hM.wf.full
  obtain ⟨r1, r2, r3⟩ := reward_go (v := cfg.scheme.die) hG (by rw [← hn]; exact hM.wf.qn) hM.wf.qlearn hsch.2.2.2.1
  unfold dieNow
  rw [andThen_go r1]
  simp only [r2]
  obtain ⟨w, hw⟩ : ∃ w, w = p.w := ⟨_, rfl⟩
  rw [← hw] at hM hn ⊢
  have hV : VSame w (w.setHealth cfg.pacman 0) := vsame_setHealth0 w cfg.pacman
  have hst : ∀ c, c ≠ cfg.pacman → (w.setHealth cfg.pacman 0).stOf c = w.stOf c := by
    intro c hc; rw [stOf_setHealth0, if_neg (fun h => hc h.1)]
  have hpos : ((w.setHealth cfg.pacman 0).stOf cfg.pacman).pos = (w.stOf cfg.pacman).pos := by
    rw [stOf_setHealth0]; split <;> rfl
  have hqS : cfg.pacman < w.st.length := by rw [hM.cinv.lenS]; exact hM.wf.qn
  have hdead : ((w.setHealth cfg.pacman 0).stOf cfg.pacman).active = false := by
    rw [stOf_setHealth0, if_pos ⟨rfl, hqS⟩]
  unfold removeG
  rw [hpos]
  have hin : (w.setHealth cfg.pacman 0).inGrid (w.stOf cfg.pacman).pos = true := hM.qin
  rw [if_pos hin]
  have hqm : cfg.pacman ∈ (w.setHealth cfg.pacman 0).cell (w.stOf cfg.pacman).pos := hM.qst
  cases hr : (w.setHealth cfg.pacman 0).remove cfg.pacman (w.stOf cfg.pacman).pos with
  | error e => simp [remove, hqm] at hr
  | ok w2 =>
    simp only
    have hts1 : TS cfg (w.setHealth cfg.pacman 0) :=
      hM.ts.mono hV.rows hV.cols hV.overlap hV.cfg (fun i c hc => Or.inl hc)
    exact winv_remove_q (cinv_setHealth hM.cinv) (vit_of_vsame hV hM.vit) hts1
      (fun a ha haq => sound_congr (w := w) (w' := w.setHealth cfg.pacman 0) rfl (by rw [hst a haq]) (by rw [hst a haq])
        (fun i => Iff.rfl) (hM.sound a (by simpa [World.n, hV.cfg] using ha) haq)) hdead hr

theorem eat1_step {cfg : Cfg} {N : Nat} (hs : cfg.simple = false) (p : PS) (b : Aid) (hG : PG cfg N p)
    (hb : b ∈ p.w.cells.getD (p.w.idx (p.w.stOf cfg.pacman).pos) []) : CellStep cfg N p b (eat1 cfg p b) := by
  unfold eat1
  split
  · exact cellStep_refl b hG
  · rename_i hbq
    split
    · rename_i hbf; exact eatBody_step hG hbq hbf hb
    · split
      · rename_i hbb; exact biteBody_step hs hG hbb
      · exact cellStep_refl b hG

theorem bite1_step {cfg : Cfg} {N : Nat} (hs : cfg.simple = false) (p : PS) (b : Aid) (hG : PG cfg N p)
    (_hb : b ∈ p.w.cells.getD (p.w.idx (p.w.stOf cfg.pacman).pos) []) : CellStep cfg N p b (bite1 cfg p b) := by
  unfold bite1
  split
  · exact cellStep_refl b hG
  · split
    · rename_i hbb; exact biteBody_step hs hG hbb
    · exact cellStep_refl b hG

theorem eat1S_step {cfg : Cfg} {N : Nat} (p : PS) (b : Aid) (hG : PG cfg N p)
    (hb : b ∈ p.w.cells.getD (p.w.idx (p.w.stOf cfg.pacman).pos) []) : CellStep cfg N p b (eat1S cfg p b) := by
  unfold eat1S
  split
  · exact cellStep_refl b hG
  · rename_i hbq
    split
    · rename_i hbf; exact eatBody_step hG hbq hbf hb
    · split
      · exact dieNow_step b hG
      · exact cellStep_refl b hG

theorem bite1S_step {cfg : Cfg} {N : Nat} (p : PS) (b : Aid) (hG : PG cfg N p)
    (_hb : b ∈ p.w.cells.getD (p.w.idx (p.w.stOf cfg.pacman).pos) []) : CellStep cfg N p b (bite1S cfg p b) := by
  unfold bite1S
  split
  · exact cellStep_refl b hG
  · split
    · exact dieNow_step b hG
    · exact cellStep_refl b hG

/-! ### the baddie loops, the last statement, the script -/

theorem loopR_fin {cfg : Cfg} {N : Nat} {β : Type} {f : PS → β → R} :
    ∀ (l : List β), (∀ p x, x ∈ l → PG cfg N p → Fin cfg N (f p x)) → ∀ p, PG cfg N p → Fin cfg N (loopR f p l) := by
  intro l
  induction l with
  | nil => intro _ p hG; exact fin_go rfl hG
  | cons x xs ih =>
    intro hf p hG
    have h := hf p x List.mem_cons_self hG
    unfold loopR
    cases hx : f p x with
    | mk p' c =>
      rw [hx] at h
      cases c with
      | go => exact ih (fun p y hy => hf p y (List.mem_cons_of_mem _ hy)) p' h
      | ret => exact h
      | err e => exact h.elim

/-- an item of the action dict of a step that must not raise -/
def ItemOK (cfg : Cfg) (N : Nat) (x : Aid × Int) : Prop := x.1 < N ∧ 0 ≤ x.2 ∧ x.2 ≤ 4 ∧ cfg.isLearning x.1 = true

theorem Mid.other_active {cfg : Cfg} {w : World} (hM : Mid cfg w) {a : Aid} (ha : a < w.n) (hmv : mover w a = true)
    (haq : a ≠ cfg.pacman) : (w.stOf a).active = true := by
  refine hM.alive a ha haq fun hf => ?_
  have := (hM.wf.food a hf).2.1
  rw [hmv] at this; cases this

theorem baddie1_fin {cfg : Cfg} {N : Nat} (p : PS) (x : Aid × Int) (hx : ItemOK cfg N x) (hG : PG cfg N p) :
    Fin cfg N (baddie1 cfg p x) := by
  unfold baddie1
  split
  · exact fin_go rfl hG
  · rename_i hxq
    have hxn : x.1 < p.w.n := by rw [hG.2.1]; exact hx.1
    rw [if_neg (Nat.not_le.mpr hxn)]
    have hmv : mover p.w x.1 = true := by rw [← hG.1.wf.learn x.1 hxn]; exact hx.2.2.2
    exact moveTele_mid hG hx.1 hmv (hG.1.other_active hxn hmv hxq) hx.2.1 hx.2.2.1 true

theorem baddie1S_fin {cfg : Cfg} {N : Nat} (hs : cfg.simple = true) (p : PS) (x : Nat × Int)
    (hx : x.1 < 5 ∧ 0 ≤ x.2 ∧ x.2 ≤ 4) (hG : PG cfg N p) : Fin cfg N (baddie1S cfg p x) := by
  obtain ⟨b, hb, hbb⟩ := hG.1.wf.named hs x.1 hx.1
  unfold baddie1S
  rw [hb]
  simp only
  have hbw := hG.1.wf.bad b hbb
  have hbq : b ≠ cfg.pacman := fun e => hG.1.wf.qbad (e ▸ hbb)
  exact moveTele_mid hG (by rw [← hG.2.1]; exact hbw.1) hbw.2 (hG.1.other_active hbw.1 hbw.2 hbq) hx.2.1 hx.2.2 false

/-- `if not self.pacman.active: self.grid.remove(self.pacman, …)`: the whole invariant is back -/
theorem finish_done {cfg : Cfg} {N : Nat} (p : PS) (hG : PG cfg N p) : Done cfg (finish cfg p) := by
  have hM := hG.1
  unfold finish
  by_cases hq : (p.w.stOf cfg.pacman).active = true
  · simp only [hq, Bool.not_true, Bool.false_eq_true, if_false]
    exact ⟨hM.toWInv hq, hM.ts⟩
  · have hq' : (p.w.stOf cfg.pacman).active = false := by simpa using hq
    simp only [hq', Bool.not_false, if_true]
    unfold removeG
    rw [if_pos hM.qin]
    have hqm : cfg.pacman ∈ p.w.cell (p.w.stOf cfg.pacman).pos := hM.qst
    cases hr : p.w.remove cfg.pacman (p.w.stOf cfg.pacman).pos with
    | error e => simp [remove, hqm] at hr
    | ok w2 => exact winv_remove_q hM.cinv hM.vit hM.ts hM.sound hq' hr

theorem script01_range (k : Nat) :
    0 ≤ (script01 k).1 ∧ (script01 k).1 ≤ 4 ∧ 0 ≤ (script01 k).2 ∧ (script01 k).2 ≤ 4 := by
  unfold script01
  split
  · decide
  · split
    · decide
    · split
      · decide
      · split <;> decide

theorem script34_range (k : Nat) :
    0 ≤ (script34 k).1 ∧ (script34 k).1 ≤ 4 ∧ 0 ≤ (script34 k).2 ∧ (script34 k).2 ≤ 4 := by
  unfold script34
  split
  · decide
  · split
    · decide
    · split
      · decide
      · split
        · decide
        · split
          · decide
          · split <;> decide

/-- the scripted action dict of `PacmanSimSimple` exists and holds points of `Discrete(5)` for `baddie_0 … baddie_4` -/
theorem script_ok {cfg : Cfg} {w : World} (hs : cfg.simple = true) (hM : Mid cfg w) (k : Nat) :
    ∃ sc, script cfg w k = .ok sc ∧ ∀ x ∈ sc, x.1 < 5 ∧ 0 ≤ x.2 ∧ x.2 ≤ 4 := by
  have h2 : ∃ a2, script2 cfg w k = .ok a2 ∧ 0 ≤ a2 ∧ a2 ≤ 4 := by
    unfold script2
    split
    · obtain ⟨b, hb, hbb⟩ := hM.wf.named hs 2 (by decide)
      rw [hb]
      simp only
      have hmv := (hM.wf.bad b hbb).2
      simp only [mover, Bool.and_eq_true] at hmv
      rw [if_pos hmv.2]
      split
      · exact ⟨1, rfl, by decide, by decide⟩
      · exact ⟨3, rfl, by decide, by decide⟩
    · exact ⟨0, rfl, by decide, by decide⟩
  obtain ⟨a2, ha2, h20, h24⟩ := h2
  have r01 := script01_range k
  have r34 := script34_range k
  refine ⟨_, by unfold script; rw [ha2], ?_⟩
  intro x hx
  simp only [List.mem_cons, List.mem_nil_iff, or_false] at hx
  rcases hx with rfl | rfl | rfl | rfl | rfl
  · exact ⟨by simp, r01.1, r01.2.1⟩
  · exact ⟨by simp, r01.2.2.1, r01.2.2.2⟩
  · exact ⟨by simp, h20, h24⟩
  · exact ⟨by simp, r34.1, r34.2.1⟩
  · exact ⟨by simp, r34.2.2.1, r34.2.2.2⟩

/-! ## the two `step`s -/

theorem stepFull_done {cfg : Cfg} {N : Nat} (hs : cfg.simple = false) (p : PS) (acts : List (Aid × Int)) (hG : PG cfg N p)
    (hq : (p.w.stOf cfg.pacman).active = true) {act : Int} (hl : acts.lookup cfg.pacman = some act) (h0 : 0 ≤ act)
    (h4 : act ≤ 4) (hacts : ∀ x ∈ acts, ItemOK cfg N x) : Done cfg (stepFull cfg p acts) := by
  unfold stepFull
  rw [hl]
  simp only
  refine andThen_done (moveTele_mid hG (by rw [← hG.2.1]; exact hG.1.wf.qn) hG.1.wf.qmover hq h0 h4 true) fun p1 h1 => ?_
  refine andThen_done (overlapLoop_fin (eat1_step hs) p1 h1) fun p2 h2 => ?_
  refine andThen_done (loopR_fin acts (fun p x hx hG' => baddie1_fin p x (hacts x hx) hG') p2 h2) fun p3 h3 => ?_
  refine andThen_done (overlapLoop_fin (bite1_step hs) p3 h3) fun p4 h4 => ?_
  exact finish_done p4 h4

theorem stepSimple_done {cfg : Cfg} {N : Nat} (hs : cfg.simple = true) (p : PS) (k : Nat) (acts : List (Aid × Int))
    (hG : PG cfg N p) (hq : (p.w.stOf cfg.pacman).active = true) {act : Int} (hl : acts.lookup cfg.pacman = some act)
    (h0 : 0 ≤ act) (h4 : act ≤ 4) : Done cfg (stepSimple cfg p k acts) := by
  unfold stepSimple
  rw [hl]
  simp only
  refine andThen_done (moveTele_mid hG (by rw [← hG.2.1]; exact hG.1.wf.qn) hG.1.wf.qmover hq h0 h4 true) fun p1 h1 => ?_
  refine andThen_done (overlapLoop_fin eat1S_step p1 h1) fun p2 h2 => ?_
  obtain ⟨sc, hsc, hscr⟩ := script_ok hs h2.1 k
  rw [hsc]
  simp only
  have hfin : Fin cfg N (andThen (loopR (baddie1S cfg) p2 sc) fun p3 => overlapLoop cfg (bite1S cfg) p3) :=
    andThen_fin (loopR_fin sc (fun p x hx hG' => baddie1S_fin hs p x (hscr x hx) hG') p2 h2)
      (fun p3 h3 => overlapLoop_fin bite1S_step p3 h3)
  -- a fall-through at the end of `PacmanSimSimple.step`: pacman is alive
  unfold Fin at hfin
  unfold Done
  split
  · rename_i e he; rw [he] at hfin; exact hfin
  · rename_i hne
    cases hc : (andThen (loopR (baddie1S cfg) p2 sc) fun p3 => overlapLoop cfg (bite1S cfg) p3).2 with
    | go => rw [hc] at hfin; exact ⟨hfin.1.toWInv (hfin.1.simple hs), hfin.1.ts⟩
    | ret => rw [hc] at hfin; exact hfin
    | err e => exact absurd hc (hne e)

theorem mem_of_lookup_nat {β : Type} (l : List (Nat × β)) (e : Nat) (s : β) (h : l.lookup e = some s) : (e, s) ∈ l := by
  induction l with
  | nil => simp at h
  | cons p ps ih =>
    by_cases he : e = p.1
    · have : (e == p.1) = true := by simpa using he
      simp only [List.lookup, this, Option.some.injEq] at h
      subst h; subst he; simp
    · have : (e == p.1) = false := by simpa using he
      simp only [List.lookup, this] at h
      exact List.mem_cons_of_mem _ (ih h)

/-- **a `step` from a `stepPre` state does not raise and leaves a world satisfying `WInv` and `teleSafe`** (on `stepR`) -/
theorem stepR_done {cfg : Cfg} {w : World} {r : Ledger} {acts : List (Aid × Int)} (t : Tape) (k : Nat)
    (hpre : stepPre cfg w r acts = true) : Done cfg (stepR cfg ⟨w, r, t⟩ k acts) := by
  simp only [stepPre, Bool.and_eq_true, List.all_eq_true, allAgents, List.mem_range, Bool.or_eq_true, beq_iff_eq,
    List.contains_eq_mem, decide_eq_true_eq, keysNodup, actInSpace] at hpre
  obtain ⟨⟨⟨⟨⟨⟨⟨⟨hI, hwf⟩, hts⟩, hq⟩, hal⟩, hlk⟩, _⟩, hacts⟩, hfull⟩ := hpre
  have hM : Mid cfg w := mid_of_WInv hI hwf hts hq (fun a ha haq haf => by
    rcases hal a ha with (h | h) | h
    · exact absurd h haq
    · exact absurd h haf
    · exact h)
  have hG : PG cfg w.n ⟨w, r, t⟩ := ⟨hM, rfl, fun a ha hl => by
    simp only [ledgerFullb, List.all_eq_true, List.mem_filter, List.mem_range] at hfull
    exact hfull a ⟨ha, hl⟩⟩
  obtain ⟨act, hact⟩ := Option.isSome_iff_exists.mp hlk
  have hitems : ∀ x ∈ acts, ItemOK cfg w.n x := by
    intro x hx
    obtain ⟨⟨⟨h1, h2⟩, h3⟩, h4⟩ := hacts x hx
    exact ⟨h1, h2, h3, h4⟩
  have hqa := hitems _ (mem_of_lookup_nat acts cfg.pacman act hact)
  unfold stepR
  split
  · rename_i hs
    exact stepSimple_done hs _ k acts hG hq hact hqa.2.1 hqa.2.2.1
  · rename_i hs
    exact stepFull_done (by simpa using hs) _ acts hG hq hact hqa.2.1 hqa.2.2.1 hitems

theorem step_of_stepPre (cfg : Cfg) (s : St) (r : Ledger) (acts : List (Aid × Int)) (hr : s.ex.rewards = some r)
    (hpre : stepPre cfg s.ex.w r acts = true) :
    (step cfg s acts).2 = none ∧ (step cfg s acts).1.ex.w.WInv = true ∧ teleSafe cfg (step cfg s acts).1.ex.w = true := by
  have hD := stepR_done (cfg := cfg) s.ex.tape s.count hpre
  unfold step
  rw [hr]
  simp only
  generalize stepR cfg ⟨s.ex.w, r, s.ex.tape⟩ s.count acts = x at hD
  obtain ⟨p, c⟩ := x
  cases c with
  | go => exact ⟨rfl, hD.1, (ts_iff _ _).mpr hD.2⟩
  | ret => exact ⟨rfl, hD.1, (ts_iff _ _).mpr hD.2⟩
  | err e => exact hD.elim

end PM
end Abmarl
