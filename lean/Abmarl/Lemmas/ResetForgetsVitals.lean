import Abmarl.Lemmas.ResetForgetsBase
/-!
# Reset forgets — health, ammunition, orientation

Each of the three vitals components writes, for every agent of the listing, a value computed from
the configuration and the tape alone; so it maps agreeing worlds to agreeing worlds with its own flag
switched on for the agents of the listing, and leaves the same tape.
-/
namespace Abmarl
open World

/-! ## health -/

/-- the value `HealthState.reset` writes for an agent of configuration `c`, and the tape left -/
def healthDraw (closed : Bool) (c : AgentCfg) (t : Tape) : Rat × Tape :=
  match c.initHealth with
  | some h => (h, t)
  | none => if closed then Oracle.uniform01Closed t else Oracle.uniform01 t

theorem healthResetFrom_cons (closed : Bool) (a : Aid) (as : List Aid) (w : World) (t : Tape) :
    healthResetFrom closed (a :: as) w t =
      healthResetFrom closed as (w.setHealth a (healthDraw closed (w.cfgOf a) t).1)
        (healthDraw closed (w.cfgOf a) t).2 := by
  cases hi : (w.cfgOf a).initHealth with
  | some h => simp only [healthResetFrom, healthDraw, hi]
  | none => simp only [healthResetFrom, healthDraw, hi]

theorem WAgree.setHealth {cf : List AgentCfg} {F : Flags} {C : Prop} {x1 x2 : World} (h : WAgree cf F C x1 x2) (a : Aid)
    (v : Rat) :
    WAgree cf { F with H := fun b => F.H b ∨ b = a } C (x1.setHealth a v) (x2.setHealth a v) := by
  simp only [World.setHealth]
  refine h.setSt a _ _ ⟨fun p => (h.st a).pos p, fun _ => rfl, fun _ => rfl,
    fun p => (h.st a).ammo p, fun p => (h.st a).orient p⟩ (fun b hb => ⟨id, ?_, id, id⟩)
  intro hh
  rcases hh with hh | hh
  · exact hh
  · exact (hb hh).elim

theorem healthResetFrom_agree (closed : Bool) {cf : List AgentCfg} {C : Prop} (l : List Aid) :
    ∀ (F : Flags) (x1 x2 : World) (t : Tape), WAgree cf F C x1 x2 →
      WAgree cf { F with H := fun b => F.H b ∨ b ∈ l } C
        (healthResetFrom closed l x1 t).1 (healthResetFrom closed l x2 t).1 ∧
      (healthResetFrom closed l x1 t).2 = (healthResetFrom closed l x2 t).2 := by
  induction l with
  | nil =>
    intro F x1 x2 t h
    refine ⟨h.mono (fun b _ => ⟨id, ?_, id, id⟩) id, rfl⟩
    intro hh
    rcases hh with hh | hh
    · exact hh
    · cases hh
  | cons a as ih =>
    intro F x1 x2 t h
    rw [healthResetFrom_cons, healthResetFrom_cons, ← h.cfgOf_eq a]
    obtain ⟨i1, i2⟩ := ih _ _ _ (healthDraw closed (x1.cfgOf a) t).2
      (h.setHealth a (healthDraw closed (x1.cfgOf a) t).1)
    refine ⟨i1.mono (fun b _ => ⟨id, ?_, id, id⟩) id, i2⟩
    intro hh
    rcases hh with hh | hh
    · exact Or.inl (Or.inl hh)
    · rcases List.mem_cons.mp hh with hh | hh
      · exact Or.inl (Or.inr hh)
      · exact Or.inr hh

/-! ## ammunition -/

theorem WAgree.ammoStep {cf : List AgentCfg} {F : Flags} {C : Prop} {x1 x2 : World} (h : WAgree cf F C x1 x2) (a : Aid) :
    WAgree cf { F with A := fun b => F.A b ∨ b = a } C
      (if (x1.cfgOf a).hasAmmo then x1.setAmmo a (x1.cfgOf a).initAmmo else x1)
      (if (x2.cfgOf a).hasAmmo then x2.setAmmo a (x2.cfgOf a).initAmmo else x2) := by
  rw [← h.cfgOf_eq a]
  by_cases hA : (x1.cfgOf a).hasAmmo = true
  · simp only [hA, if_true, World.setAmmo]
    refine h.setSt a _ _ ⟨fun p => (h.st a).pos p, fun p => (h.st a).health p,
      fun p => (h.st a).active p, fun _ => rfl, fun p => (h.st a).orient p⟩
      (fun b hb => ⟨id, id, ?_, id⟩)
    intro hh
    rcases hh with hh | hh
    · exact hh
    · exact (hb hh).elim
  · simp only [hA, Bool.false_eq_true, if_false]
    have hA' : (cf.getD a {}).hasAmmo = false := by rw [← h.cfgOf1 a]; simpa using hA
    refine h.mono_st (fun b _ hs => ⟨hs.pos, hs.health, hs.active, ?_, hs.orient⟩) id
    intro hh
    rcases hh with (hh | hh) | hh
    · exact hs.ammo (Or.inl hh)
    · subst hh; exact hs.ammo (Or.inr hA')
    · exact hs.ammo (Or.inr hh)

theorem ammoResetFrom_agree {cf : List AgentCfg} {C : Prop} (l : List Aid) :
    ∀ (F : Flags) (x1 x2 : World), WAgree cf F C x1 x2 →
      WAgree cf { F with A := fun b => F.A b ∨ b ∈ l } C (ammoResetFrom l x1) (ammoResetFrom l x2) := by
  induction l with
  | nil =>
    intro F x1 x2 h
    refine h.mono (fun b _ => ⟨id, id, ?_, id⟩) id
    intro hh
    rcases hh with hh | hh
    · exact hh
    · cases hh
  | cons a as ih =>
    intro F x1 x2 h
    simp only [ammoResetFrom]
    refine (ih _ _ _ (h.ammoStep a)).mono (fun b _ => ⟨id, id, ?_, id⟩) id
    intro hh
    rcases hh with hh | hh
    · exact Or.inl (Or.inl hh)
    · rcases List.mem_cons.mp hh with hh | hh
      · exact Or.inl (Or.inr hh)
      · exact Or.inr hh

/-! ## orientation -/

/-- the value `OrientationState.reset` writes for an orientation agent of configuration `c` -/
def orientDraw (c : AgentCfg) (t : Tape) : Nat × Tape :=
  match c.initOrient with
  | some (o + 1) => (o + 1, t)
  | _ => ((Oracle.randint 1 5 t).1.toNat, (Oracle.randint 1 5 t).2)

theorem orientResetFrom_cons (a : Aid) (as : List Aid) (w : World) (t : Tape) :
    orientResetFrom (a :: as) w t =
      if (w.cfgOf a).hasOrient then
        orientResetFrom as (w.setSt a { w.stOf a with orient := (orientDraw (w.cfgOf a) t).1 })
          (orientDraw (w.cfgOf a) t).2
      else orientResetFrom as w t := by
  by_cases hO : (w.cfgOf a).hasOrient = true
  · simp only [orientResetFrom, hO, if_true, orientDraw]
    cases hi : (w.cfgOf a).initOrient with
    | none => rfl
    | some o =>
      cases o with
      | zero => rfl
      | succ o => rfl
  · simp only [orientResetFrom, hO, Bool.false_eq_true, if_false]

theorem WAgree.setOrient {cf : List AgentCfg} {F : Flags} {C : Prop} {x1 x2 : World} (h : WAgree cf F C x1 x2) (a : Aid)
    (v : Nat) :
    WAgree cf { F with O := fun b => F.O b ∨ b = a } C
      (x1.setSt a { x1.stOf a with orient := v }) (x2.setSt a { x2.stOf a with orient := v }) := by
  refine h.setSt a _ _ ⟨fun p => (h.st a).pos p, fun p => (h.st a).health p,
    fun p => (h.st a).active p, fun p => (h.st a).ammo p, fun _ => rfl⟩
    (fun b hb => ⟨id, id, id, ?_⟩)
  intro hh
  rcases hh with hh | hh
  · exact hh
  · exact (hb hh).elim

theorem orientResetFrom_agree {cf : List AgentCfg} {C : Prop} (l : List Aid) :
    ∀ (F : Flags) (x1 x2 : World) (t : Tape), WAgree cf F C x1 x2 →
      WAgree cf { F with O := fun b => F.O b ∨ b ∈ l } C
        (orientResetFrom l x1 t).1 (orientResetFrom l x2 t).1 ∧
      (orientResetFrom l x1 t).2 = (orientResetFrom l x2 t).2 := by
  induction l with
  | nil =>
    intro F x1 x2 t h
    refine ⟨h.mono (fun b _ => ⟨id, id, id, ?_⟩) id, rfl⟩
    intro hh
    rcases hh with hh | hh
    · exact hh
    · cases hh
  | cons a as ih =>
    intro F x1 x2 t h
    rw [orientResetFrom_cons, orientResetFrom_cons, ← h.cfgOf_eq a]
    have hmem : ∀ b, (F.O b ∨ b ∈ a :: as) → ((F.O b ∨ b = a) ∨ b ∈ as) := by
      intro b hh
      rcases hh with hh | hh
      · exact Or.inl (Or.inl hh)
      · rcases List.mem_cons.mp hh with hh | hh
        · exact Or.inl (Or.inr hh)
        · exact Or.inr hh
    by_cases hO : (x1.cfgOf a).hasOrient = true
    · simp only [hO, if_true]
      obtain ⟨i1, i2⟩ := ih _ _ _ (orientDraw (x1.cfgOf a) t).2
        (h.setOrient a (orientDraw (x1.cfgOf a) t).1)
      exact ⟨i1.mono (fun b _ => ⟨id, id, id, hmem b⟩) id, i2⟩
    · simp only [hO, Bool.false_eq_true, if_false]
      have hO' : (cf.getD a {}).hasOrient = false := by rw [← h.cfgOf1 a]; simpa using hO
      have h' : WAgree cf { F with O := fun b => F.O b ∨ b = a } C x1 x2 := by
        refine h.mono_st (fun b _ hs => ⟨hs.pos, hs.health, hs.active, hs.ammo, ?_⟩) id
        intro hh
        rcases hh with (hh | hh) | hh
        · exact hs.orient (Or.inl hh)
        · subst hh; exact hs.orient (Or.inr hO')
        · exact hs.orient (Or.inr hh)
      obtain ⟨i1, i2⟩ := ih _ _ _ t h'
      exact ⟨i1.mono (fun b _ => ⟨id, id, id, hmem b⟩) id, i2⟩

/-! ## the three components, over the whole listing -/

theorem healthReset_agree {cf : List AgentCfg} {F : Flags} {C : Prop} {x1 x2 : World} (t : Tape)
    (closed : Bool) (h : WAgree cf F C x1 x2) :
    WAgree cf { F with H := fun _ => True } C (x1.healthReset t closed).1 (x2.healthReset t closed).1 ∧
    (x1.healthReset t closed).2 = (x2.healthReset t closed).2 := by
  simp only [World.healthReset, ← h.n_eq]
  obtain ⟨i1, i2⟩ := healthResetFrom_agree closed (List.range x1.n) F x1 x2 t h
  refine ⟨i1.mono (fun b hb => ⟨id, fun _ => Or.inr (List.mem_range.mpr ?_), id, id⟩) id, i2⟩
  rw [h.n1]; exact hb

theorem ammoReset_agree {cf : List AgentCfg} {F : Flags} {C : Prop} {x1 x2 : World}
    (h : WAgree cf F C x1 x2) :
    WAgree cf { F with A := fun _ => True } C x1.ammoReset x2.ammoReset := by
  simp only [World.ammoReset, ← h.n_eq]
  refine (ammoResetFrom_agree (List.range x1.n) F x1 x2 h).mono
    (fun b hb => ⟨id, id, fun _ => Or.inr (List.mem_range.mpr ?_), id⟩) id
  rw [h.n1]; exact hb

theorem orientReset_agree {cf : List AgentCfg} {F : Flags} {C : Prop} {x1 x2 : World} (t : Tape)
    (h : WAgree cf F C x1 x2) :
    WAgree cf { F with O := fun _ => True } C (x1.orientReset t).1 (x2.orientReset t).1 ∧
    (x1.orientReset t).2 = (x2.orientReset t).2 := by
  simp only [World.orientReset, ← h.n_eq]
  obtain ⟨i1, i2⟩ := orientResetFrom_agree (List.range x1.n) F x1 x2 t h
  refine ⟨i1.mono (fun b hb => ⟨id, id, id, fun _ => Or.inr (List.mem_range.mpr ?_)⟩) id, i2⟩
  rw [h.n1]; exact hb

end Abmarl
