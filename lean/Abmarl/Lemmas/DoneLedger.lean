import Abmarl.Lemmas.DoneSmart
/-!
# Helper lemmas for C17, part 3: the reward accumulator against the reference ledger

The model keeps `self.rewards` as a Python-like dict (item list, keyed by the learning agents);
the judge `specRewardOnce` keeps a plain vector of integers.  `LedgerInv` links the two and is
preserved by every operation of the smart simulation.
-/
namespace Abmarl
variable {σ κ υ : Type} [DecidableEq κ]

/-- the dict `r` holds exactly the learning agents below `n`, with the values of the vector `x` -/
def LedgerInv (n : Nat) (learning : Aid → Bool) (r : List (Aid × Int)) (x : List Int) : Prop :=
  x.length = n ∧ ∀ a, r.lookup a = if a < n ∧ learning a = true then some (x.getD a 0) else none

def Linked (n : Nat) (learning : Aid → Bool) (rw : Option (List (Aid × Int)))
    (exp : Option (List Int)) : Prop :=
  match rw, exp with
  | none, none => True
  | some r, some x => LedgerInv n learning r x
  | _, _ => False

theorem lookup_map_zero (a : Aid) :
    ∀ l : List Aid, (l.map (fun b => (b, (0 : Int)))).lookup a = if a ∈ l then some 0 else none
  | [] => by simp
  | b :: l => by
    simp only [List.map_cons, List.lookup_cons, List.mem_cons]
    by_cases h : a = b
    · simp [h]
    · have : (a == b) = false := by simpa using h
      rw [this]
      simp only [h, false_or]
      exact lookup_map_zero a l

theorem getD_set_int (x : List Int) (a b : Nat) (v : Int) :
    (x.set a v).getD b 0 = if a = b ∧ a < x.length then v else x.getD b 0 := by
  simp only [List.getD_eq_getElem?_getD, List.getElem?_set]
  by_cases h : a = b
  · subst h
    by_cases hl : a < x.length
    · simp [hl]
    · simp [hl]
  · simp [h]

omit [DecidableEq κ] in
theorem inv_zero (S : Smart σ κ υ) : LedgerInv S.n S.learning S.zeroRewards (List.replicate S.n 0) := by
  refine ⟨List.length_replicate, fun a => ?_⟩
  unfold Smart.zeroRewards
  rw [lookup_map_zero]
  simp only [List.mem_filter, List.mem_range]
  by_cases h : a < S.n ∧ S.learning a = true
  · rw [if_pos h, if_pos h]
    simp [List.getD_eq_getElem?_getD, h.1]
  · rw [if_neg h, if_neg h]

theorem inv_set {n : Nat} {learning : Aid → Bool} {r : List (Aid × Int)} {x : List Int}
    (h : LedgerInv n learning r x) {a : Aid} (ha : a < n) (hl : learning a = true) (v : Int) :
    LedgerInv n learning (dictSet r a v) (x.set a v) := by
  refine ⟨by rw [List.length_set]; exact h.1, fun b => ?_⟩
  rw [lookup_dictSet, getD_set_int, h.1]
  by_cases hb : b = a
  · subst hb
    simp [ha, hl]
  · rw [if_neg hb, h.2 b]
    have : ¬ (a = b ∧ a < n) := fun e => hb e.1.symm
    rw [if_neg this]

theorem inv_applyAcc {n : Nat} {learning : Aid → Bool} :
    ∀ (acc : List (Aid × Int)) (r : List (Aid × Int)) (x : List Int),
      LedgerInv n learning r x → (∀ p ∈ acc, p.1 < n ∧ learning p.1 = true) →
      LedgerInv n learning (Smart.applyAcc r acc)
        (acc.foldl (fun x p => x.set p.1 (x.getD p.1 0 + p.2)) x)
  | [], _, _, h, _ => h
  | p :: acc, r, x, h, hp => by
    unfold Smart.applyAcc
    rw [List.foldl_cons, List.foldl_cons]
    have hp0 := hp p (by simp)
    have hl : r.lookup p.1 = some (x.getD p.1 0) := by rw [h.2 p.1, if_pos hp0]
    rw [hl]
    simp only [Option.getD_some]
    exact inv_applyAcc acc _ _ (inv_set h hp0.1 hp0.2 _) (fun q hq => hp q (by simp [hq]))

theorem pendVec_of_inv {n : Nat} {learning : Aid → Bool} {r : List (Aid × Int)} {x : List Int}
    (h : LedgerInv n learning r x) : pendVec n (some r) = some (expVec n learning x) := by
  simp only [pendVec, expVec, Option.map_some, Option.some.injEq]
  apply List.map_congr_left
  intro a ha
  rw [h.2 a]
  simp [List.mem_range.mp ha]

theorem pendVec_of_linked {n : Nat} {learning : Aid → Bool} {rw : Option (List (Aid × Int))}
    {exp : Option (List Int)} (h : Linked n learning rw exp) :
    pendVec n rw = exp.map (expVec n learning) := by
  cases rw with
  | none => cases exp with
    | none => rfl
    | some x => exact absurd h (by simp [Linked])
  | some r => cases exp with
    | none => exact absurd h (by simp [Linked])
    | some x => exact pendVec_of_inv h

/-! ### what each call does, case by case -/
section eqns
variable (S : Smart σ κ υ) (s : SmartSt σ)

theorem runOp_reset_none (h : S.states = none) :
    S.runOp s .reset = (⟨.reset, .err .assertion, s.rewards, s.sim, [], []⟩, s) := by
  simp [Smart.runOp, Smart.reset, h]

theorem runOp_reset_some {fs : List (σ → σ)} (h : S.states = some fs) :
    S.runOp s .reset =
      (⟨.reset, .unit, some S.zeroRewards, fs.foldl (fun x f => f x) s.sim, List.range fs.length, []⟩,
       { sim := fs.foldl (fun x f => f x) s.sim, rewards := some S.zeroRewards }) := by
  simp [Smart.runOp, Smart.reset, h]

theorem runOp_step_none (f : σ → σ) (acc : List (Aid × Int)) (h : s.rewards = none) :
    S.runOp s (.step f acc) = (⟨.step f acc, .err .other, s.rewards, s.sim, [], []⟩, s) := by
  simp [Smart.runOp, Smart.step, h]

theorem runOp_step_missing (f : σ → σ) (acc : List (Aid × Int)) {r : List (Aid × Int)}
    (h : s.rewards = some r) (hall : acc.all (fun p => (r.lookup p.1).isSome) = false) :
    S.runOp s (.step f acc) = (⟨.step f acc, .err .keyError, s.rewards, s.sim, [], []⟩, s) := by
  simp [Smart.runOp, Smart.step, h, hall]

theorem runOp_step_ok (f : σ → σ) (acc : List (Aid × Int)) {r : List (Aid × Int)}
    (h : s.rewards = some r) (hall : acc.all (fun p => (r.lookup p.1).isSome) = true) :
    S.runOp s (.step f acc) =
      (⟨.step f acc, .unit, some (Smart.applyAcc r acc), f s.sim, [], []⟩,
       { sim := f s.sim, rewards := some (Smart.applyAcc r acc) }) := by
  simp [Smart.runOp, Smart.step, h, hall]

theorem runOp_reward_none (a : Aid) (h : s.rewards = none) :
    S.runOp s (.reward a) = (⟨.reward a, .err .other, s.rewards, s.sim, [], []⟩, s) := by
  simp [Smart.runOp, Smart.getReward, h]

theorem runOp_reward_missing (a : Aid) {r : List (Aid × Int)} (h : s.rewards = some r)
    (hl : r.lookup a = none) :
    S.runOp s (.reward a) = (⟨.reward a, .err .keyError, s.rewards, s.sim, [], []⟩, s) := by
  simp [Smart.runOp, Smart.getReward, h, hl]

theorem runOp_reward_ok (a : Aid) {r : List (Aid × Int)} {v : Int} (h : s.rewards = some r)
    (hl : r.lookup a = some v) :
    S.runOp s (.reward a) =
      (⟨.reward a, .int v, some (dictSet r a 0), s.sim, [], []⟩,
       { s with rewards := some (dictSet r a 0) }) := by
  simp [Smart.runOp, Smart.getReward, h, hl]

theorem runOp_obs_ok (a : Aid) {o : List (κ × υ)} (h : S.getObs s a = .ok o) :
    S.runOp s (.obs a) =
      (⟨.obs a, .obs o, s.rewards, s.sim, List.range (S.observers.getD []).length,
        (S.observers.getD []).map (fun ob => ob s.sim a)⟩, s) := by
  simp [Smart.runOp, h]

theorem runOp_obs_err (a : Aid) {e : GErr} (h : S.getObs s a = .error e) :
    S.runOp s (.obs a) = (⟨.obs a, .err e, s.rewards, s.sim, [], []⟩, s) := by
  simp [Smart.runOp, h]

theorem runOp_done (a : Aid) :
    S.runOp s (.done a) = (⟨.done a, resOfBool (S.getDone s a), s.rewards, s.sim, [], []⟩, s) := rfl

theorem runOp_allDone :
    S.runOp s .allDone = (⟨.allDone, resOfBool (S.getAllDone s), s.rewards, s.sim, [], []⟩, s) := rfl

/-- the getters that do not touch the accumulators -/
theorem runOp_pure (op : SOp σ) (h : match op with | .obs _ | .done _ | .allDone => True | _ => False) :
    (S.runOp s op).2 = s ∧ (S.runOp s op).1.pending = s.rewards ∧ (S.runOp s op).1.op = op ∧
      (S.runOp s op).1.sim = s.sim ∧
      (match (S.runOp s op).1.res with | .unit | .int _ => False | _ => True) := by
  cases op with
  | reset => cases h
  | step f acc => cases h
  | reward a => cases h
  | obs a =>
    cases hg : S.getObs s a with
    | ok o => rw [runOp_obs_ok S s a hg]; exact ⟨rfl, rfl, rfl, rfl, trivial⟩
    | error e => rw [runOp_obs_err S s a hg]; exact ⟨rfl, rfl, rfl, rfl, trivial⟩
  | done a =>
    rw [runOp_done]
    refine ⟨rfl, rfl, rfl, rfl, ?_⟩
    cases S.getDone s a <;> trivial
  | allDone =>
    rw [runOp_allDone]
    refine ⟨rfl, rfl, rfl, rfl, ?_⟩
    cases S.getAllDone s <;> trivial

end eqns

theorem linked_none_iff {n : Nat} {learning : Aid → Bool} {exp : Option (List Int)} :
    Linked n learning none exp ↔ exp = none := by
  cases exp <;> simp [Linked]

theorem linked_some {n : Nat} {learning : Aid → Bool} {r : List (Aid × Int)} {exp : Option (List Int)}
    (h : Linked n learning (some r) exp) : ∃ x, exp = some x ∧ LedgerInv n learning r x := by
  cases exp with
  | none => exact absurd h (by simp [Linked])
  | some x => exact ⟨x, rfl, h⟩

/-- one call of the smart simulation keeps the accumulator in step with the reference ledger and
reads return what the ledger holds -/
theorem runOp_ledger (S : Smart σ κ υ) (s : SmartSt σ) (exp : Option (List Int)) (op : SOp σ)
    (h : Linked S.n S.learning s.rewards exp) :
    readOk S.n S.learning exp (S.runOp s op).1 = true ∧
    (S.runOp s op).1.pending = (S.runOp s op).2.rewards ∧
    Linked S.n S.learning (S.runOp s op).2.rewards (ledgerNext S.n exp (S.runOp s op).1) := by
  cases op with
  | reset =>
    cases hS : S.states with
    | none =>
      rw [runOp_reset_none S s hS]
      exact ⟨rfl, rfl, by cases exp <;> exact h⟩
    | some fs =>
      rw [runOp_reset_some S s hS]
      exact ⟨rfl, rfl, inv_zero S⟩
  | step f acc =>
    cases hr : s.rewards with
    | none =>
      rw [runOp_step_none S s f acc hr]
      rw [hr] at h
      have := linked_none_iff.mp h
      subst this
      exact ⟨rfl, rfl, by rw [hr]; exact h⟩
    | some r =>
      rw [hr] at h
      obtain ⟨x, rfl, hinv⟩ := linked_some h
      cases hall : acc.all (fun p => (r.lookup p.1).isSome) with
      | true =>
        rw [runOp_step_ok S s f acc hr hall]
        refine ⟨rfl, rfl, ?_⟩
        show LedgerInv _ _ _ _
        apply inv_applyAcc acc r x hinv
        intro p hp
        have := List.all_eq_true.mp hall p hp
        rw [hinv.2 p.1] at this
        by_cases hc : p.1 < S.n ∧ S.learning p.1 = true
        · exact hc
        · rw [if_neg hc] at this; cases this
      | false =>
        rw [runOp_step_missing S s f acc hr hall]
        exact ⟨rfl, rfl, by rw [hr]; exact h⟩
  | reward a =>
    cases hr : s.rewards with
    | none =>
      rw [runOp_reward_none S s a hr]
      rw [hr] at h
      have := linked_none_iff.mp h
      subst this
      exact ⟨rfl, rfl, by rw [hr]; exact h⟩
    | some r =>
      rw [hr] at h
      obtain ⟨x, rfl, hinv⟩ := linked_some h
      cases hl : r.lookup a with
      | none =>
        rw [runOp_reward_missing S s a hr hl]
        refine ⟨?_, rfl, by rw [hr]; exact h⟩
        have := hinv.2 a
        rw [hl] at this
        by_cases hc : a < S.n ∧ S.learning a = true
        · rw [if_pos hc] at this; cases this
        · simp only [readOk, Option.isNone_some, Bool.false_or, Bool.not_eq_true',
            Bool.and_eq_false_iff, decide_eq_false_iff_not]
          by_cases hla : S.learning a = true
          · exact .inr (fun ha => hc ⟨ha, hla⟩)
          · exact .inl (by simpa using hla)
      | some v =>
        rw [runOp_reward_ok S s a hr hl]
        have := hinv.2 a
        rw [hl] at this
        by_cases hc : a < S.n ∧ S.learning a = true
        · rw [if_pos hc] at this
          cases this
          refine ⟨by simp [readOk, hc.1, hc.2], rfl, ?_⟩
          show LedgerInv _ _ _ _
          exact inv_set hinv hc.1 hc.2 0
        · rw [if_neg hc] at this; cases this
  | obs a =>
    obtain ⟨h1, h2, h3, _, h5⟩ := runOp_pure S s (.obs a) trivial
    refine ⟨by simp [readOk, h3], by rw [h1, h2], ?_⟩
    rw [h1]
    have : ledgerNext S.n exp (S.runOp s (.obs a)).1 = exp := by
      unfold ledgerNext; rw [h3]
    rw [this]; exact h
  | done a =>
    obtain ⟨h1, h2, h3, _, h5⟩ := runOp_pure S s (.done a) trivial
    refine ⟨by simp [readOk, h3], by rw [h1, h2], ?_⟩
    rw [h1]
    have : ledgerNext S.n exp (S.runOp s (.done a)).1 = exp := by
      unfold ledgerNext; rw [h3]
    rw [this]; exact h
  | allDone =>
    obtain ⟨h1, h2, h3, _, h5⟩ := runOp_pure S s .allDone trivial
    refine ⟨by simp [readOk, h3], by rw [h1, h2], ?_⟩
    rw [h1]
    have : ledgerNext S.n exp (S.runOp s .allDone).1 = exp := by
      unfold ledgerNext; rw [h3]
    rw [this]; exact h

/-- the ledger clause holds along every history -/
theorem rewardLoop_runOps (S : Smart σ κ υ) :
    ∀ (ops : List (SOp σ)) (s : SmartSt σ) (exp : Option (List Int)),
      Linked S.n S.learning s.rewards exp →
      rewardLoop S.n S.learning exp (S.runOps s ops).1 = true
  | [], _, _, _ => rfl
  | op :: ops, s, exp, h => by
    obtain ⟨h1, h2, h3⟩ := runOp_ledger S s exp op h
    unfold Smart.runOps
    simp only [rewardLoop, Bool.and_eq_true, beq_iff_eq]
    refine ⟨⟨h1, ?_⟩, rewardLoop_runOps S ops _ _ h3⟩
    rw [h2]
    exact pendVec_of_linked h3

end Abmarl
