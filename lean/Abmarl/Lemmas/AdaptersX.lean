import Abmarl.Lemmas.Adapters
/-!
# Lemmas behind C15 with the `current_player` setter in the call alphabet

`OSInvX` is `OSInv` without the conjunct "the current player has not been reported done": after
`current_player = a` the current player is only known to be a learning agent (the fake step that
answers an action for a done agent re-establishes the full `OSInv`, repair C15-K1).  Whenever the current player *is* live, `OSInvX` is
`OSInv` again and the existing `osReset_sound` / `osStep_sound` apply unchanged; the new work is the
fake step, the setter, the ill-formed action lists and the derivation of the never-forwards clause.
-/
namespace Abmarl
variable {σ α ω ι : Type}

/-- `OSInv` minus "the current player has not been reported done" -/
structure OSInvX (S : SimIface σ α ω ι) (k : MKind) (st : OSState σ) (gh : OSGhost) : Prop where
  sr : gh.shouldReset = st.shouldReset
  cur : gh.current = st.current
  live : st.shouldReset = false →
    Inv S k st.m gh.g ∧ gh.g.started = true ∧ gh.g.over = false ∧
    (k = .turnBased → st.current ∈ S.learners) ∧
    (∃ a ∈ S.learners, a ∉ gh.g.R)

theorem OSInv.toX {S : SimIface σ α ω ι} {k : MKind} {st : OSState σ} {gh : OSGhost}
    (h : OSInv S k st gh) : OSInvX S k st gh :=
  ⟨h.sr, h.cur, fun hs =>
    ⟨(h.live hs).1, (h.live hs).2.1, (h.live hs).2.2.1, fun hk => ((h.live hs).2.2.2.1 hk).1,
     (h.live hs).2.2.2.2⟩⟩

theorem OSInvX.toInv {S : SimIface σ α ω ι} {k : MKind} {st : OSState σ} {gh : OSGhost}
    (h : OSInvX S k st gh)
    (hc : k = .turnBased → st.shouldReset = false → st.current ∉ gh.g.R) : OSInv S k st gh :=
  ⟨h.sr, h.cur, fun hs =>
    ⟨(h.live hs).1, (h.live hs).2.1, (h.live hs).2.2.1,
     fun hk => ⟨(h.live hs).2.2.2.1 hk, hc hk hs⟩, (h.live hs).2.2.2.2⟩⟩

theorem isLearner_iff_mem {S : SimIface σ α ω ι} (a : Aid) :
    isLearner S.n S.learning a = true ↔ a ∈ S.learners := by
  rw [mem_learners]
  simp [isLearner]

/-! ## the setter -/

theorem osSetCurrent_sound [DecidableEq α] [DecidableEq ω] {S : SimIface σ α ω ι} {k : MKind}
    (st : OSState σ) (gh : OSGhost) (hI : OSInvX S k st gh) (a : Aid) :
    c15XItem (α := α) (ω := ω) (ι := ι) k S.n S.learning gh (.setCurrent a)
      (.set (osSetCurrent S st a).1) = true ∧
    OSInvX S k (osSetCurrent S st a).2
      (osGhostNextX (α := α) (ω := ω) (ι := ι) gh (.setCurrent a) (.set (osSetCurrent S st a).1)) := by
  by_cases h : a ∈ S.learners
  · have hE : osSetCurrent S st a = (.ok (), { st with current := a }) := by simp [osSetCurrent, h]
    rw [hE]
    refine ⟨by simpa [c15XItem] using (isLearner_iff_mem a).mpr h, ?_⟩
    simp only [osGhostNextX]
    exact ⟨hI.sr, rfl, fun hs =>
      ⟨(hI.live hs).1, (hI.live hs).2.1, (hI.live hs).2.2.1, fun _ => h, (hI.live hs).2.2.2.2⟩⟩
  · have hE : osSetCurrent S st a = (.error .rejected, st) := by simp [osSetCurrent, h]
    rw [hE]
    have hn : isLearner S.n S.learning a = false := by
      cases hx : isLearner S.n S.learning a with
      | false => rfl
      | true => exact absurd ((isLearner_iff_mem a).mp hx) h
    refine ⟨by simp [c15XItem, hn], ?_⟩
    simpa [osGhostNextX] using hI

/-! ## the never-forwards clause follows from the per-call specification -/

theorem noFwdDone_of_c15Call [DecidableEq α] [DecidableEq ω] {k : MKind} {n : Nat} {learning : Aid → Bool}
    {gh : OSGhost} {call : Option (List α)} {c : OSCall α ω ι}
    (h : c15Call k n learning gh call c = true)
    (hcur : k = .turnBased → gh.shouldReset = false → call.isSome = true → gh.current ∉ gh.g.R) :
    noFwdDone gh.g c.mgrCalls = true := by
  cases hr : c.res with
  | error e => simp [c15Call, hr] at h
  | ok ts =>
    simp only [c15Call, hr, Bool.and_eq_true] at h
    obtain ⟨⟨_, h4⟩, _⟩ := h
    cases hm : c.mgrCalls with
    | nil => simp [noFwdDone]
    | cons e rest =>
      cases rest with
      | cons e' rest' =>
        rw [hm] at h4
        split at h4 <;> simp at h4
      | nil =>
        rw [hm] at h4
        cases hop : e.op with
        | reset => simp [noFwdDone, hop]
        | step sent =>
          simp only [noFwdDone, hop, Bool.and_true, List.all_eq_true, decide_eq_true_eq]
          by_cases hbr : (call.isNone || gh.shouldReset) = true
          · simp [hbr, hop] at h4
          · simp only [hbr, Bool.false_eq_true, if_false] at h4
            cases call with
            | none => simp at hbr
            | some acts =>
              have hsr : gh.shouldReset = false := by simpa using hbr
              cases hres : e.res with
              | resetOk _ => simp [hop, hres] at h4
              | err _ => simp [hop, hres] at h4
              | stepOk out =>
                simp only [hop, hres, Bool.and_eq_true, decide_eq_true_eq] at h4
                have hs := h4.1.1.1
                intro p hp
                by_cases hkt : k = .turnBased
                · subst hkt
                  simp only [beq_self_eq_true, if_true] at hs
                  cases acts with
                  | nil => simp at hs
                  | cons a as =>
                    cases sent with
                    | nil => simp at hs
                    | cons q qs =>
                      cases qs with
                      | cons _ _ => simp at hs
                      | nil =>
                        simp only [decide_eq_true_eq] at hs
                        simp only [List.mem_singleton] at hp
                        rw [hp, hs]
                        exact hcur rfl hsr rfl
                · have hkt' : (k == MKind.turnBased) = false := by simpa using hkt
                  simp only [hkt', Bool.false_eq_true, if_false, decide_eq_true_eq] at hs
                  rw [hs] at hp
                  simpa using (List.mem_filter.mp hp).2

/-! ## the fake step -/

theorem pickFake_spec (obs : List (Aid × ω)) (ds : List Aid) (hex : ∃ p ∈ obs, p.1 ∉ ds) :
    ∃ cur, pickFake obs ds = some cur ∧ cur ∈ keys obs ∧ cur ∉ ds := by
  unfold pickFake
  cases hf : (obs.filter fun p => !(decide (p.1 ∈ ds))).head? with
  | some p =>
    have hp := List.mem_filter.mp (List.mem_of_head? hf)
    exact ⟨p.1, rfl, List.mem_map.mpr ⟨p, hp.1, rfl⟩, by simpa using hp.2⟩
  | none =>
    exfalso
    obtain ⟨p, hp, hpd⟩ := hex
    have hnil : (obs.filter fun p => !(decide (p.1 ∈ ds))) = [] := by
      cases hh : (obs.filter fun p => !(decide (p.1 ∈ ds))) with
      | nil => rfl
      | cons y ys => rw [hh] at hf; simp at hf
    have : p ∈ obs.filter fun p => !(decide (p.1 ∈ ds)) := List.mem_filter.mpr ⟨hp, by simp [hpd]⟩
    rw [hnil] at this; cases this

/-- turn-based play, the current player has been reported done: nothing is forwarded, the answer is the
fake MID time step naming a learning agent that has not been reported done (repair C15-K1), nothing but
the simulation's read counters and the current player changes, and the full invariant holds again -/
theorem osStep_fake_sound [DecidableEq α] [DecidableEq ω] {S : SimIface σ α ω ι} {k : MKind} (hW : WF S k)
    (hkt : k = .turnBased) (st : OSState σ) (gh : OSGhost) (hI : OSInvX S k st gh)
    (hsr : st.shouldReset = false) (hcur : st.current ∈ gh.g.R) (acts : List α)
    (hc : callOK k S.learners.length (some acts) = true) :
    c15Fake S.n S.learning gh (osStep S k st acts).1 = true ∧
    (osStep S k st acts).1.mgrCalls = [] ∧
    OSInv S k (osStep S k st acts).2 (osGhostNext gh (osStep S k st acts).1) := by
  have hS := hW.lawful
  obtain ⟨hInv, hst, hov, hturn, hex⟩ := hI.live hsr
  obtain ⟨a, rest, hacts⟩ : ∃ a rest, acts = a :: rest := by
    cases acts with
    | nil => simp [callOK, hkt] at hc
    | cons a rest => exact ⟨a, rest, rfl⟩
  have hdict : osDict S k st.current acts = .ok [(st.current, a)] := by simp [osDict, hkt, hacts]
  have hds : st.current ∈ st.m.doneSet := (hInv.ds st.current).mpr (Or.inl hcur)
  have hfil : ([(st.current, a)].filter fun p => !(decide (p.1 ∈ st.m.doneSet))) = [] := by
    simp [hds]
  have hlearnR : ∀ x, x ∈ S.learners → (x ∈ st.m.doneSet ↔ x ∈ gh.g.R) := by
    intro x hx
    have hxl := (mem_learners S x).mp hx
    rw [hInv.ds x]
    constructor
    · rintro (h | ⟨_, h⟩)
      · exact h
      · have := (mem_nonLearners S x).mp h; simp [hxl.2] at this
    · exact Or.inl
  obtain ⟨ao, hao⟩ : ∃ ao, ao = appendObs S S.learners [] st.m.sim := ⟨_, rfl⟩
  obtain ⟨_, haok, _, haop⟩ := appendObs_spec hS S.learners [] st.m.sim
  rw [← hao] at haok haop
  have hkl : ∀ x, x ∈ keys ao.1 ↔ x ∈ S.learners := by
    intro x; rw [haok x]; simp [keys]
  -- somebody can still act, so the fake step names such an agent
  obtain ⟨cur, hpick, hcurk, hcurd⟩ : ∃ cur, pickFake ao.1 st.m.doneSet = some cur ∧ cur ∈ keys ao.1 ∧
      cur ∉ st.m.doneSet := by
    apply pickFake_spec
    obtain ⟨b, hb, hbR⟩ := hex
    obtain ⟨p, hp, hpe⟩ := List.mem_map.mp ((hkl b).mpr hb)
    exact ⟨p, hp, by rw [hpe]; exact fun h => hbR ((hlearnR b hb).mp h)⟩
  have hcl : cur ∈ S.learners := (hkl cur).mp hcurk
  have hcR : cur ∉ gh.g.R := fun h => hcurd ((hlearnR cur hcl).mpr h)
  have hE : osStep S k st acts =
      (⟨.ok { infoState := ao.1, legal := S.learners, current := cur,
              rewards := some (appendReward S.learners []), stepType := .mid }, []⟩,
       { st with m := { st.m with sim := ao.2 }, current := cur }) := by
    simp only [osStep, hsr, Bool.false_eq_true, if_false, hdict, hfil, List.isEmpty_nil, if_true, ← hao, hpick]
  rw [hE]
  obtain ⟨_, hrw2, hrwk⟩ := appendReward_spec S.learners []
  refine ⟨?_, rfl, ?_⟩
  · simp only [c15Fake, List.isEmpty_nil, Bool.true_and, Bool.and_eq_true, decide_eq_true_eq,
      List.all_eq_true, beq_iff_eq]
    refine ⟨⟨⟨⟨⟨?_, ?_⟩, ?_, ?_⟩, trivial⟩, isLearner_of_mem hcl⟩, hcR⟩
    · apply sameSet_of_iff
      intro x; rw [haok x]
      simp [keys, SimIface.learners, SimIface.agents]
    · simp [SimIface.learners, SimIface.agents]
    · apply sameSet_of_iff
      intro x; rw [hrwk x]
      simp [keys, SimIface.learners, SimIface.agents]
    · intro p hp
      rcases hrw2 p hp with h | h
      · cases h
      · exact h
  · refine ⟨by simp [osGhostNext, hsr], by simp [osGhostNext], ?_⟩
    intro _
    simp only [osGhostNext, foldG, List.foldl_nil]
    exact ⟨Inv.of_sim hInv ao.2 haop, hst, hov, fun _ => ⟨hcl, hcR⟩, hex⟩

/-! ## ill-formed action lists -/

/-- an action list of the wrong shape, outside a restart: the call raises before anything happens -/
theorem osStep_bad {S : SimIface σ α ω ι} {k : MKind} (st : OSState σ) (hsr : st.shouldReset = false)
    (acts : List α) (hc : callOK k S.learners.length (some acts) = false) :
    ∃ e, osStep (ω := ω) (ι := ι) S k st acts = (⟨.error e, []⟩, st) := by
  by_cases hkt : k = .turnBased
  · have : acts = [] := by simpa [callOK, hkt] using hc
    exact ⟨.crash, by simp [osStep, hsr, osDict, hkt, this]⟩
  · have hkt' : (k == MKind.turnBased) = false := by simpa using hkt
    have : acts.length ≠ S.learners.length := by simpa [callOK, hkt'] using hc
    exact ⟨.rejected, by simp [osStep, hsr, osDict, hkt, this]⟩

/-! ## one call of the richer alphabet -/

theorem osGhostNext_err_nil (gh : OSGhost) (e : Err) :
    osGhostNext gh (⟨.error e, []⟩ : OSCall α ω ι) = gh := by
  cases gh; simp [osGhostNext, foldG]

theorem osStepX_sound [DecidableEq α] [DecidableEq ω] {S : SimIface σ α ω ι} {k : MKind} (hW : WF S k)
    (hk : k ≠ .dynamic) (hl : S.learners ≠ []) (st : OSState σ) (gh : OSGhost) (hI : OSInvX S k st gh)
    (acts : List α) :
    c15XItem k S.n S.learning gh (.step acts) (.ts (osStep S k st acts).1) = true ∧
    OSInvX S k (osStep S k st acts).2 (osGhostNext gh (osStep S k st acts).1) := by
  by_cases hsr : st.shouldReset = true
  · -- a restart, whatever the action list
    have hE : osStep S k st acts = osReset S k st := by simp [osStep, hsr]
    have hgsr : gh.shouldReset = true := by rw [hI.sr]; exact hsr
    obtain ⟨h1, h2⟩ := osReset_sound hW hk hl st gh (some acts) (by simp [hgsr])
    rw [hE]
    refine ⟨?_, h2.toX⟩
    simp only [c15XItem, Bool.and_eq_true, Bool.or_eq_true]
    refine ⟨noFwdDone_of_c15Call h1 (fun _ h => by rw [hgsr] at h; cases h), Or.inr ?_⟩
    have : fakeDue k gh = false := by simp [fakeDue, hgsr]
    rw [this]; exact h1
  have hsr' : st.shouldReset = false := by simpa using hsr
  have hgsr : gh.shouldReset = false := by rw [hI.sr]; exact hsr'
  by_cases hc : callOK k S.learners.length (some acts) = true
  · have hc' : callOK k ((List.range S.n).filter S.learning).length (some acts) = true := hc
    by_cases hfd : k = .turnBased ∧ st.current ∈ gh.g.R
    · -- the action is for a done agent: fake step
      obtain ⟨h1, h2, h3⟩ := osStep_fake_sound hW hfd.1 st gh hI hsr' hfd.2 acts hc
      refine ⟨?_, h3.toX⟩
      have : fakeDue k gh = true := by simp [fakeDue, hfd.1, hgsr, hI.cur, hfd.2]
      simp only [c15XItem, h2, noFwdDone, this, if_true, h1, Bool.or_true, Bool.and_self]
    · -- the current player is live: the state is as without the setter
      have hcl : k = .turnBased → st.shouldReset = false → st.current ∉ gh.g.R :=
        fun hkt _ hR => hfd ⟨hkt, hR⟩
      obtain ⟨h1, h2⟩ := osStep_sound hW hk hl st gh (hI.toInv hcl) acts hc
      refine ⟨?_, h2.toX⟩
      have hnf : fakeDue k gh = false := by
        by_cases hkt : k = .turnBased
        · have : st.current ∉ gh.g.R := hcl hkt hsr'
          simp [fakeDue, hI.cur, this]
        · have hkt' : (k == MKind.turnBased) = false := by simpa using hkt
          simp [fakeDue, hkt']
      simp only [c15XItem, Bool.and_eq_true, Bool.or_eq_true, hnf, Bool.false_eq_true, if_false]
      refine ⟨noFwdDone_of_c15Call h1 (fun hkt _ _ => by rw [hI.cur]; exact hcl hkt hsr'), Or.inr h1⟩
  · -- ill-formed action list: raises before anything happens
    have hc0 : callOK k S.learners.length (some acts) = false := by simpa using hc
    have hc' : callOK k ((List.range S.n).filter S.learning).length (some acts) = false := hc0
    obtain ⟨e, hE⟩ := osStep_bad (ω := ω) (ι := ι) st hsr' acts hc0
    rw [hE, osGhostNext_err_nil]
    exact ⟨by simp [c15XItem, noFwdDone, hc'], hI⟩

theorem osResetX_sound [DecidableEq α] [DecidableEq ω] {S : SimIface σ α ω ι} {k : MKind} (hW : WF S k)
    (hk : k ≠ .dynamic) (hl : S.learners ≠ []) (st : OSState σ) (gh : OSGhost) :
    c15XItem (α := α) k S.n S.learning gh .reset (.ts (osReset S k st).1) = true ∧
    OSInvX S k (osReset (α := α) S k st).2 (osGhostNext gh (osReset (α := α) S k st).1) := by
  obtain ⟨h1, h2⟩ := osReset_sound (α := α) hW hk hl st gh none (by simp)
  refine ⟨?_, h2.toX⟩
  simp only [c15XItem, Bool.and_eq_true]
  exact ⟨noFwdDone_of_c15Call h1 (fun _ _ h => by cases h), h1⟩

/-! ## reading `noFwdDone` -/

theorem noFwdDone_append (g : GSt) (l1 l2 : List (Entry α ω ι)) :
    noFwdDone g (l1 ++ l2) = (noFwdDone g l1 && noFwdDone (foldG g l1) l2) := by
  induction l1 generalizing g with
  | nil => simp [noFwdDone, foldG]
  | cons e es ih =>
    simp only [List.cons_append, noFwdDone, ih, foldG, List.foldl_cons, Bool.and_assoc]

theorem noFwdDone_split {g : GSt} {l : List (Entry α ω ι)} (h : noFwdDone g l = true)
    {pre post : List (Entry α ω ι)} {e : Entry α ω ι} (hl : l = pre ++ e :: post)
    {sent : List (Aid × α)} (hop : e.op = .step sent) : ∀ p ∈ sent, p.1 ∉ (foldG g pre).R := by
  rw [hl, noFwdDone_append] at h
  simp only [noFwdDone, hop, Bool.and_eq_true, List.all_eq_true, decide_eq_true_eq] at h
  exact h.2.1

theorem foldG_append (g : GSt) (l1 l2 : List (Entry α ω ι)) :
    foldG g (l1 ++ l2) = foldG (foldG g l1) l2 := by
  simp [foldG, List.foldl_append]

theorem osGhostNext_g (gh : OSGhost) (c : OSCall α ω ι) :
    (osGhostNext gh c).g = foldG gh.g c.mgrCalls := by
  unfold osGhostNext
  split <;> rfl

/-- a play-through that satisfies the per-call clauses never forwards, in any of its manager calls, an
action for an agent reported done earlier in the episode -/
theorem noFwdDone_of_loop [DecidableEq α] [DecidableEq ω] {k : MKind} {n : Nat}
    {learning : Aid → Bool} :
    ∀ (calls : List (OSIn α)) (tr : List (OSOut α ω ι)) (gh : OSGhost),
      c15XLoop k n learning gh calls tr = true → noFwdDone gh.g (mgrCallsOf tr) = true := by
  intro calls
  induction calls with
  | nil =>
    intro tr gh h
    cases tr with
    | nil => simp [mgrCallsOf, noFwdDone]
    | cons _ _ => simp [c15XLoop] at h
  | cons call calls ih =>
    intro tr gh h
    cases tr with
    | nil => simp [c15XLoop] at h
    | cons o os =>
      simp only [c15XLoop, Bool.and_eq_true] at h
      obtain ⟨h1, h2⟩ := h
      have := ih os _ h2
      cases o with
      | set r =>
        cases call with
        | reset => simp [c15XItem] at h1
        | step _ => simp [c15XItem] at h1
        | setCurrent a =>
          simp only [mgrCallsOf]
          cases r <;> simpa [osGhostNextX] using this
      | ts c =>
        simp only [mgrCallsOf, noFwdDone_append, Bool.and_eq_true]
        have hg : (osGhostNextX gh call (.ts c)).g = foldG gh.g c.mgrCalls := by
          cases call <;> simp [osGhostNextX, osGhostNext_g]
        rw [hg] at this
        refine ⟨?_, this⟩
        cases call with
        | setCurrent _ => simp [c15XItem] at h1
        | reset =>
          simp only [c15XItem, Bool.and_eq_true] at h1
          exact h1.1
        | step _ =>
          simp only [c15XItem, Bool.and_eq_true] at h1
          exact h1.1

/-! ## `specC15X` contains `specC15` (histories without setter calls) -/

theorem c15Call_next_current_live [DecidableEq α] [DecidableEq ω] {k : MKind} {n : Nat} {learning : Aid → Bool}
    {gh : OSGhost} {call : Option (List α)} {c : OSCall α ω ι} (h : c15Call k n learning gh call c = true)
    (hkt : k = .turnBased) (hns : (osGhostNext gh c).shouldReset = false) :
    (osGhostNext gh c).current ∉ (osGhostNext gh c).g.R := by
  cases hr : c.res with
  | error e => simp [c15Call, hr] at h
  | ok ts =>
    simp only [c15Call, hr, Bool.and_eq_true] at h
    have h5 := h.2
    simp only [osGhostNext, hr, decide_eq_false_iff_not] at hns ⊢
    subst hkt
    simp only [beq_self_eq_true, Bool.not_true, Bool.false_or, Bool.or_eq_true, decide_eq_true_eq,
      Bool.and_eq_true] at h5
    rcases h5 with h5 | h5
    · exact absurd h5 hns
    · exact h5.2

theorem c15Loop_of_X [DecidableEq α] [DecidableEq ω] {k : MKind} {n : Nat}
    {learning : Aid → Bool} :
    ∀ (calls : List (Option (List α))) (tr : List (OSCall α ω ι)) (gh : OSGhost),
      (k = .turnBased → gh.shouldReset = false → gh.current ∉ gh.g.R) →
      c15XLoop k n learning gh (calls.map OSIn.ofPlain) (tr.map OSOut.ts) = true →
      c15Loop k n learning gh calls tr = true := by
  intro calls
  induction calls with
  | nil =>
    intro tr gh _ h
    cases tr with
    | nil => simp [c15Loop]
    | cons _ _ => simp [c15XLoop] at h
  | cons call calls ih =>
    intro tr gh hinv h
    cases tr with
    | nil => simp [c15XLoop] at h
    | cons c cs =>
      simp only [List.map_cons, c15XLoop, Bool.and_eq_true] at h
      obtain ⟨h1, h2⟩ := h
      simp only [c15Loop]
      cases hco : callOK k ((List.range n).filter learning).length call with
      | false => simp
      | true =>
        simp only [Bool.not_true, Bool.false_eq_true, if_false, Bool.and_eq_true]
        have hcall : c15Call k n learning gh call c = true := by
          cases call with
          | none =>
            simp only [OSIn.ofPlain, c15XItem, Bool.and_eq_true] at h1
            exact h1.2
          | some acts =>
            simp only [OSIn.ofPlain, c15XItem, hco, Bool.not_true, Bool.false_or, Bool.and_eq_true] at h1
            have hnf : fakeDue k gh = false := by
              cases hfd : fakeDue k gh with
              | false => rfl
              | true =>
                simp only [fakeDue, Bool.and_eq_true, beq_iff_eq, Bool.not_eq_true', decide_eq_true_eq] at hfd
                exact absurd hfd.2 (hinv hfd.1.1 hfd.1.2)
            simpa [hnf] using h1.2
        have hg : osGhostNextX gh (OSIn.ofPlain call) (OSOut.ts c) = osGhostNext gh c := by
          cases call <;> simp [osGhostNextX]
        rw [hg] at h2
        exact ⟨hcall, ih cs _ (fun hkt hns => c15Call_next_current_live hcall hkt hns) h2⟩


end Abmarl
