import Abmarl.Lemmas.DoneLedger
/-!
# Helper lemmas for C17, part 4: every call of a smart simulation built from the built-in done
components satisfies the per-call judge
-/
namespace Abmarl
variable {σ κ υ : Type} [DecidableEq κ] [DecidableEq υ]

/-- the smart simulation `S` is the one the facts `F` describe: built-in done components read
off a world, so many observers, so many state components -/
structure Agrees (S : Smart σ κ υ) (F : SmartFacts σ) : Prop where
  n        : S.n = F.n
  learning : S.learning = F.learning
  dones    : S.dones = F.comps.map (fun cs => cs.map (DoneComp.iface F.worldOf))
  dict     : ∀ cs, F.comps = some cs → ∀ c ∈ cs, c.isDict = true
  obs      : S.observers.map List.length = F.nObs
  states   : S.states.map List.length = F.nStates

theorem anyLazy_map {δ ε : Type} (f : ε → Except GErr Bool) (g : δ → ε) :
    ∀ l : List δ, anyLazy f (l.map g) = anyLazy (fun d => f (g d)) l
  | [] => rfl
  | d :: l => by
    simp only [List.map_cons, anyLazy]
    rw [anyLazy_map f g l]

omit [DecidableEq κ] [DecidableEq υ] in
theorem exceptOfRes_resOfBool (x : Except GErr Bool) :
    exceptOfRes (resOfBool x : SRes κ υ) = some x := by
  cases x <;> rfl

theorem answerOK_of_specAllDone {c : DoneComp} {w : World} {out : Except GErr Bool}
    (h : specAllDone c w out = true) : answerOK (some (docAllDone c w)) out = true := by
  cases out with
  | error e => simp [specAllDone] at h
  | ok b =>
    simp only [specAllDone, beq_iff_eq] at h
    simp [answerOK, h]

theorem specSmartEntry_runOp (S : Smart σ κ υ) (F : SmartFacts σ) (hA : Agrees S F)
    (s : SmartSt σ) (op : SOp σ) : specSmartEntry F (S.runOp s op).1 = true := by
  cases op with
  | step f acc =>
    cases hr : s.rewards with
    | none => rw [runOp_step_none S s f acc hr]; rfl
    | some r =>
      cases hall : acc.all (fun p => (r.lookup p.1).isSome) with
      | true => rw [runOp_step_ok S s f acc hr hall]; rfl
      | false => rw [runOp_step_missing S s f acc hr hall]; rfl
  | reward a =>
    cases hr : s.rewards with
    | none => rw [runOp_reward_none S s a hr]; rfl
    | some r =>
      cases hl : r.lookup a with
      | none => rw [runOp_reward_missing S s a hr hl]; rfl
      | some v => rw [runOp_reward_ok S s a hr hl]; rfl
  | reset =>
    cases hS : S.states with
    | none =>
      rw [runOp_reset_none S s hS]
      have : F.nStates = none := by rw [← hA.states, hS]; rfl
      simp [specSmartEntry, this]
    | some fs =>
      rw [runOp_reset_some S s hS]
      have : F.nStates = some fs.length := by rw [← hA.states, hS]; rfl
      simp [specSmartEntry, this, specResetAll_range]
  | obs a =>
    cases hO : S.observers with
    | none =>
      have hg : S.getObs s a = .error .assertion := by simp [Smart.getObs, hO]
      rw [runOp_obs_err S s a hg]
      have : F.nObs = none := by rw [← hA.obs, hO]; rfl
      simp [specSmartEntry, this]
    | some os =>
      have hk : F.nObs = some os.length := by rw [← hA.obs, hO]; rfl
      by_cases ha : a < S.n
      · have hg : S.getObs s a = .ok (mergeObs (os.map (fun o => o s.sim a))) := by
          simp [Smart.getObs, hO, ha]
        rw [runOp_obs_ok S s a hg]
        have ha' : a < F.n := hA.n ▸ ha
        simp [specSmartEntry, hk, hO, specResetAll_range, specMerge_mergeObs, ha']
      · have hg : S.getObs s a = .error .keyError := by simp [Smart.getObs, hO, ha]
        rw [runOp_obs_err S s a hg]
        have ha' : ¬ a < F.n := hA.n ▸ ha
        simp [specSmartEntry, ha']
  | done a =>
    rw [runOp_done]
    simp only [specSmartEntry, exceptOfRes_resOfBool]
    cases hc : F.comps with
    | none =>
      have hd : S.dones = none := by rw [hA.dones, hc]; rfl
      have : S.getDone s a = .error .assertion := by simp [Smart.getDone, hd]
      rw [this]
    | some cs =>
      have hd : S.dones = some (cs.map (DoneComp.iface F.worldOf)) := by rw [hA.dones, hc]; rfl
      by_cases ha : a < S.n
      · have ha' : a < F.n := hA.n ▸ ha
        have hg : S.getDone s a =
            anyLazy (fun c => Done.getDone c (F.worldOf s.sim) a) cs := by
          simp only [Smart.getDone, hd, ha, if_true]
          rw [anyLazy_map]
          rfl
        rw [hg]
        simp only [ha', if_true]
        cases hx : anyLazy (fun c => Done.getDone c (F.worldOf s.sim) a) cs <;>
        · rw [← hx]
          exact specAny_anyLazy _ (fun c => docDone c (F.worldOf s.sim) a) cs
            (fun c hcm => getDone_eq_doc c _ a (hA.dict cs hc c hcm))
      · have ha' : ¬ a < F.n := hA.n ▸ ha
        have : S.getDone s a = .error .keyError := by simp [Smart.getDone, hd, ha]
        rw [this]
        simp [ha']
  | allDone =>
    rw [runOp_allDone]
    simp only [specSmartEntry, exceptOfRes_resOfBool]
    cases hc : F.comps with
    | none =>
      have hd : S.dones = none := by rw [hA.dones, hc]; rfl
      have : S.getAllDone s = .error .assertion := by simp [Smart.getAllDone, hd]
      rw [this]
    | some cs =>
      have hd : S.dones = some (cs.map (DoneComp.iface F.worldOf)) := by rw [hA.dones, hc]; rfl
      have hg : S.getAllDone s = anyLazy (fun c => Done.getAllDone c (F.worldOf s.sim)) cs := by
        simp only [Smart.getAllDone, hd]
        rw [anyLazy_map]
        rfl
      rw [hg]
      cases hx : anyLazy (fun c => Done.getAllDone c (F.worldOf s.sim)) cs <;>
      · show specSmartAllDone cs (F.worldOf s.sim) _ = true
        rw [← hx]
        exact specAny_anyLazy _ (fun c => some (docAllDone c (F.worldOf s.sim))) cs
          (fun c hcm => answerOK_of_specAllDone (getAllDone_eq_doc c _ (hA.dict cs hc c hcm)))

theorem specSmartEntries_runOps (S : Smart σ κ υ) (F : SmartFacts σ) (hA : Agrees S F) :
    ∀ (ops : List (SOp σ)) (s : SmartSt σ), (S.runOps s ops).1.all (specSmartEntry F) = true
  | [], _ => rfl
  | op :: ops, s => by
    unfold Smart.runOps
    simp only [List.all_cons, Bool.and_eq_true]
    exact ⟨specSmartEntry_runOp S F hA s op, specSmartEntries_runOps S F hA ops _⟩

end Abmarl
