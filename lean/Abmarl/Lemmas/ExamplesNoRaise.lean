import Abmarl.Lemmas.ExamplesHist
import Abmarl.Props.C11
/-!
# A `step` of a packaged example with in-space actions does not raise
-/
namespace Abmarl
open World
namespace Ex

/-- every learning agent of the simulation has an entry in the reward dict -/
def LedgerFull (cfg : Cfg) (n : Nat) (r : Ledger) : Prop :=
  ∀ a < n, cfg.isLearning a = true → (r.lookup a).isSome = true

theorem zeroRewards_full (cfg : Cfg) (n : Nat) : LedgerFull cfg n (zeroRewards cfg n) := by
  intro a ha hl
  unfold zeroRewards
  have : ((List.range n).filter cfg.isLearning).map (fun a => (a, (0 : Int))) =
      ((List.range n).filter cfg.isLearning).map (fun a => (a, (fun _ => (0 : Int)) a)) := rfl
  rw [this, lookup_map_self]
  simp [ha, hl]

theorem accrue_ok {cfg : Cfg} {n : Nat} {r : Ledger} (hL : LedgerFull cfg n r) {a : Aid} (ha : a < n)
    (hl : cfg.isLearning a = true) (x : Int) : ∃ r', accrue r a x = .ok r' ∧ LedgerFull cfg n r' := by
  unfold accrue
  cases hlk : r.lookup a with
  | none => have := hL a ha hl; rw [hlk] at this; cases this
  | some v =>
    refine ⟨dictSet r a (v + x), rfl, ?_⟩
    intro b hb hbl
    rw [lookup_dictSet]
    by_cases h : b = a
    · simp [h]
    · simp only [h, if_false]; exact hL b hb hbl

/-- a loop none of whose passes raises -/
theorem foldE_ok {σ β : Type} (f : σ → β → Except GErr σ) (P : σ → Prop) (Q : β → Prop)
    (hstep : ∀ (p : σ) (x : β), P p → Q x → ∃ p', f p x = .ok p' ∧ P p') :
    ∀ (l : List β) (p : σ), P p → (∀ x ∈ l, Q x) → ∃ p', foldE f p l = .ok p' ∧ P p' := by
  intro l
  induction l with
  | nil => intro p hP _; exact ⟨p, rfl, hP⟩
  | cons x xs ih =>
    intro p hP hQ
    obtain ⟨p1, h1, hP1⟩ := hstep p x hP (hQ x List.mem_cons_self)
    obtain ⟨p2, h2, hP2⟩ := ih p1 hP1 (fun y hy => hQ y (List.mem_cons_of_mem _ hy))
    exact ⟨p2, by simp only [foldE, h1, h2], hP2⟩

theorem inSpace_attack_sframe {w0 w : World} (hF : SFrame w0 w) (cfg : AttackCfg) (a : Aid) (act : AttackAct) :
    inSpace cfg w a act = inSpace cfg w0 a act := by
  simp only [inSpace, sframe_cfgOf hF, sframe_encOf hF]

/-- what one item of the action dict has to satisfy (seen from the constructed world) -/
structure ItemOK (cfg : Cfg) (w0 : World) (x : Aid × Act) : Prop where
  lt : x.1 < w0.n
  learning : cfg.isLearning x.1 = true
  move : (MoveCall.move x.1 x.2.move).inSpace w0 = true
  attack : (cfg.which = .teamBattle ∨ cfg.which = .predatorPrey) → (w0.cfgOf x.1).attacking = true →
    inSpace cfg.attack w0 x.1 x.2.attack = true

/-- the state of a loop: invariant of the world, full ledger -/
structure PSOK (cfg : Cfg) (w0 : World) (p : PS) : Prop where
  x : XInv w0 p.w
  full : LedgerFull cfg w0.n p.r

theorem kill_ok {cfg : Cfg} {w0 : World} (w' : World) (a : Aid) (ha : a < w0.n) (hl : cfg.isLearning a = true)
    (r : Ledger) (v : Aid) (hr : LedgerFull cfg w0.n r) (hv : v < w0.n) :
    ∃ r', (if cfg.which == .predatorPrey then preyKill cfg w' a else teamKill cfg w' a) r v = .ok r' ∧
      LedgerFull cfg w0.n r' := by
  split
  · simp only [preyKill]
    split
    · obtain ⟨r1, h1, hf1⟩ := accrue_ok hr ha hl 100
      simp only [h1]
      split
      · rename_i hlv
        exact accrue_ok hf1 hv hlv (-100)
      · exact ⟨r1, rfl, hf1⟩
    · exact ⟨r, rfl, hr⟩
  · simp only [teamKill]
    split
    · by_cases hlv : cfg.isLearning v = true
      · obtain ⟨r1, h1, hf1⟩ := accrue_ok hr hv hlv (-100)
        obtain ⟨r2, h2, hf2⟩ := accrue_ok hf1 ha hl 100
        exact ⟨r2, by simp only [hlv, if_true, h1, h2], hf2⟩
      · obtain ⟨r2, h2, hf2⟩ := accrue_ok hr ha hl 100
        exact ⟨r2, by simp only [hlv, Bool.false_eq_true, if_false, h2], hf2⟩
    · exact ⟨r, rfl, hr⟩

theorem attack1_ok {cfg : Cfg} {w0 : World} (hcfg : CfgOK w0)
    (hw : cfg.which = .teamBattle ∨ cfg.which = .predatorPrey)
    (p : PS) (x : Aid × Act) (hP : PSOK cfg w0 p) (hx : ItemOK cfg w0 x) :
    ∃ p', attack1 cfg p x = .ok p' ∧ PSOK cfg w0 p' := by
  have hn : p.w.n = w0.n := sframe_n hP.x.frame
  have hlt : x.1 < p.w.n := by rw [hn]; exact hx.lt
  suffices h : ∃ p', attack1 cfg p x = .ok p' ∧ LedgerFull cfg w0.n p'.r by
    obtain ⟨p', h1, h2⟩ := h
    exact ⟨p', h1, ⟨xinv_step hcfg hP.x (fun cs hc => by cases hc) (attack1_shape h1), h2⟩⟩
  unfold attack1
  rw [if_neg (Nat.not_le.mpr hlt)]
  by_cases hact : (p.w.stOf x.1).active = true
  · rw [if_pos hact]
    -- the attack actor returns
    obtain ⟨st, H, w', t', hp, hH⟩ : ∃ st H w' t', processAttack cfg.attack p.w x.1 x.2.attack p.t = .ok ((st, H), w', t') ∧
        ∀ v ∈ H, v < w0.n := by
      by_cases hatt : (p.w.cfgOf x.1).attacking = true
      · have hsp : inSpace cfg.attack p.w x.1 x.2.attack = true := by
          rw [inSpace_attack_sframe hP.x.frame]
          exact hx.attack hw (by rw [← sframe_cfgOf hP.x.frame]; exact hatt)
        have hpre : attackPre cfg.attack p.w x.1 x.2.attack = true := by
          simp [attackPre, hP.x.inv, hlt, hact, hsp]
        obtain ⟨st, H, w', t', hp, hs, _⟩ := attackOK_all cfg.attack p.w x.1 x.2.attack p.t hpre
        refine ⟨st, H, w', t', hp, ?_⟩
        simp only [AttackSpec, hatt, if_true, Bool.and_eq_true, specWho, List.all_eq_true, decide_eq_true_eq] at hs
        intro v hv
        rw [← hn]
        exact (hs.1.1 v hv).1.1
      · refine ⟨false, [], p.w, p.t, by simp [processAttack, hatt], fun _ h => by cases h⟩
    simp only [hp]
    by_cases hst : st = true
    · simp only [hst, if_true]
      by_cases hemp : H.isEmpty = true
      · rw [if_pos hemp]
        obtain ⟨r', h1, hf⟩ := accrue_ok hP.full hx.lt hx.learning (-10)
        exact ⟨⟨w', r', t'⟩, by simp [h1, Except.map], hf⟩
      · rw [if_neg hemp]
        obtain ⟨r', h1, hf⟩ := foldE_ok
          (if cfg.which == .predatorPrey then preyKill cfg w' x.1 else teamKill cfg w' x.1)
          (LedgerFull cfg w0.n) (fun v => v < w0.n)
          (fun r v hr hv => kill_ok w' x.1 hx.lt hx.learning r v hr hv) H p.r hP.full hH
        exact ⟨⟨w', r', t'⟩, by simp only [h1, Except.map], hf⟩
    · simp only [hst, Bool.false_eq_true, if_false]
      exact ⟨⟨w', p.r, t'⟩, rfl, hP.full⟩
  · rw [if_neg hact]
    exact ⟨p, rfl, hP.full⟩

/-- `MoveActor.process_action` of an active agent with an in-space move returns -/
theorem moveAct_ok {w : World} {a : Aid} {d : Pos} (hI : w.WInv = true) (ha : a < w.n)
    (hact : (w.stOf a).active = true) (hsp : (MoveCall.move a d).inSpace w = true) :
    ∃ res w', w.moveAct a d = .ok (res, w') := by
  have h12 := C12_moves w (.move a d) hI ha hact hsp
  cases hm : w.moveAct a d with
  | error e => simp [runMoveCall, hm, Except.map, specC12] at h12
  | ok r => exact ⟨r.1, r.2, rfl⟩

theorem moveAcc_ok {cfg : Cfg} {w0 : World} (p : PS) (a : Aid) (d : Pos) (hP : PSOK cfg w0 p) (ha : a < w0.n)
    (hl : cfg.isLearning a = true) (hact : (p.w.stOf a).active = true)
    (hsp : (MoveCall.move a d).inSpace w0 = true) :
    ∃ p', moveAcc p a d = .ok p' ∧ LedgerFull cfg w0.n p'.r := by
  have hn : p.w.n = w0.n := sframe_n hP.x.frame
  obtain ⟨res, w', hm⟩ := moveAct_ok hP.x.inv (by rw [hn]; exact ha) hact
    (by rw [inSpace_move_sframe hP.x.frame]; exact hsp)
  unfold moveAcc
  simp only [hm]
  split
  · exact ⟨_, rfl, hP.full⟩
  · obtain ⟨r', h1, hf⟩ := accrue_ok hP.full ha hl (-10)
    exact ⟨⟨w', r', p.t⟩, by simp [h1, Except.map], hf⟩

theorem moveGuarded1_ok {cfg : Cfg} {w0 : World} (hcfg : CfgOK w0) (p : PS) (x : Aid × Act)
    (hP : PSOK cfg w0 p) (hx : ItemOK cfg w0 x) : ∃ p', moveGuarded1 p x = .ok p' ∧ PSOK cfg w0 p' := by
  have hn : p.w.n = w0.n := sframe_n hP.x.frame
  have hlt : x.1 < p.w.n := by rw [hn]; exact hx.lt
  suffices h : ∃ p', moveGuarded1 p x = .ok p' ∧ LedgerFull cfg w0.n p'.r by
    obtain ⟨p', h1, h2⟩ := h
    have hs := moveGuarded1_shape (Or.inr (by rw [inSpace_move_sframe hP.x.frame]; exact hx.move)) h1
    exact ⟨p', h1, ⟨xinv_step hcfg hP.x (fun cs hc => by cases hc) hs, h2⟩⟩
  unfold moveGuarded1
  rw [if_neg (Nat.not_le.mpr hlt)]
  by_cases hact : (p.w.stOf x.1).active = true
  · rw [if_pos hact]
    exact moveAcc_ok p x.1 x.2.move hP hx.lt hx.learning hact hx.move
  · rw [if_neg hact]
    exact ⟨p, rfl, hP.full⟩

theorem entropy1_ok {cfg : Cfg} {w0 : World} (p : PS) (x : Aid × Act) (hP : PSOK cfg w0 p)
    (hx : ItemOK cfg w0 x) : ∃ p', entropy1 p x = .ok p' ∧ PSOK cfg w0 p' := by
  obtain ⟨r', h1, hf⟩ := accrue_ok hP.full hx.lt hx.learning (-1)
  exact ⟨⟨p.w, r', p.t⟩, by simp [entropy1, h1, Except.map], ⟨hP.x, hf⟩⟩

theorem stepBattle_ok {cfg : Cfg} {w0 : World} (hcfg : CfgOK w0)
    (hw : cfg.which = .teamBattle ∨ cfg.which = .predatorPrey)
    (p : PS) (acts : List (Aid × Act)) (hP : PSOK cfg w0 p) (hA : ∀ x ∈ acts, ItemOK cfg w0 x) :
    ∃ p', stepBattle cfg p acts = .ok p' := by
  obtain ⟨p1, h1, hP1⟩ := foldE_ok (attack1 cfg) (PSOK cfg w0) (ItemOK cfg w0)
    (attack1_ok hcfg hw) acts p hP hA
  obtain ⟨p2, h2, hP2⟩ := foldE_ok moveGuarded1 (PSOK cfg w0) (ItemOK cfg w0)
    (moveGuarded1_ok hcfg) acts p1 hP1 hA
  obtain ⟨p3, h3, _⟩ := foldE_ok entropy1 (PSOK cfg w0) (ItemOK cfg w0) entropy1_ok acts p2 hP2 hA
  exact ⟨p3, by simp only [stepBattle, h1, h2, h3]⟩

/-! ## the classes without `if agent.active:` -/

structure PSOKA (cfg : Cfg) (w0 : World) (p : PS) : Prop where
  x : XInvA w0 p.w
  full : LedgerFull cfg w0.n p.r

theorem PSOKA.toPSOK {cfg : Cfg} {w0 : World} {p : PS} (h : PSOKA cfg w0 p) : PSOK cfg w0 p :=
  ⟨h.x.toXInv, h.full⟩

theorem moveAccA_ok {cfg : Cfg} {w0 : World} (hcfg : CfgOK w0) (p : PS) (a : Aid) (d : Pos) (hP : PSOKA cfg w0 p)
    (ha : a < w0.n) (hl : cfg.isLearning a = true) (hsp : (MoveCall.move a d).inSpace w0 = true) :
    ∃ p', moveAcc p a d = .ok p' ∧ PSOKA cfg w0 p' := by
  have hn : p.w.n = w0.n := sframe_n hP.x.frame
  have hact : (p.w.stOf a).active = true := (hP.x.alive a (by rw [hn]; exact ha)).2.2
  obtain ⟨p', h1, hf⟩ := moveAcc_ok p a d hP.toPSOK ha hl hact hsp
  exact ⟨p', h1, ⟨(xinvA_move hcfg hP.x ha hsp h1).2, hf⟩⟩

theorem multi1_ok {cfg : Cfg} {w0 : World} (hcfg : CfgOK w0) (p : PS) (x : Aid × Act) (hP : PSOKA cfg w0 p)
    (hx : ItemOK cfg w0 x) : ∃ p', multi1 cfg p x = .ok p' ∧ PSOKA cfg w0 p' := by
  have hn : p.w.n = w0.n := sframe_n hP.x.frame
  obtain ⟨p1, h1, hP1⟩ := moveAccA_ok hcfg p x.1 x.2.move hP hx.lt hx.learning hx.move
  have hn1 : p1.w.n = w0.n := sframe_n hP1.x.frame
  have hd : multiDone cfg p1.w x.1 = .ok (decide (p1.w.posOf x.1 = p1.w.posOf cfg.target)) := by
    simp only [multiDone, hn1, hx.lt, if_true]
  unfold multi1
  rw [if_neg (Nat.not_le.mpr (by rw [hn]; exact hx.lt))]
  simp only [h1, hd]
  cases decide (p1.w.posOf x.1 = p1.w.posOf cfg.target) with
  | true =>
    obtain ⟨r1, h2, hf1⟩ := accrue_ok hP1.full hx.lt hx.learning 100
    obtain ⟨r2, h3, hf2⟩ := accrue_ok hf1 hx.lt hx.learning (-1)
    exact ⟨⟨p1.w, r2, p1.t⟩, by simp only [if_true, h2, h3, Except.map], ⟨hP1.x, hf2⟩⟩
  | false =>
    obtain ⟨r2, h3, hf2⟩ := accrue_ok hP1.full hx.lt hx.learning (-1)
    exact ⟨⟨p1.w, r2, p1.t⟩, by simp only [Bool.false_eq_true, if_false, h3, Except.map], ⟨hP1.x, hf2⟩⟩

/-- the done components `TrafficCorridorSimulation.step` consults answer for the acting agent -/
def DoneTotalFor (cfg : Cfg) (a : Aid) : Prop :=
  ∃ ds, cfg.dones = some ds ∧ ∀ c ∈ ds,
    match c with
    | .targetOverlap m | .targetInactive m => (m.lookup a).isSome = true
    | _ => True

theorem anyLazy_ok {δ : Type} (f : δ → Except GErr Bool) :
    ∀ (ds : List δ), (∀ d ∈ ds, ∃ b, f d = .ok b) → ∃ b, anyLazy f ds = .ok b := by
  intro ds
  induction ds with
  | nil => intro _; exact ⟨false, rfl⟩
  | cons d ds ih =>
    intro h
    obtain ⟨b, hb⟩ := h d List.mem_cons_self
    cases b with
    | true => exact ⟨true, by simp only [anyLazy, hb]⟩
    | false =>
      obtain ⟨b', hb'⟩ := ih (fun d' hd' => h d' (List.mem_cons_of_mem _ hd'))
      exact ⟨b', by simp only [anyLazy, hb, hb']⟩

theorem smartDone_ok {cfg : Cfg} {w : World} {a : Aid} (ha : a < w.n) (hd : DoneTotalFor cfg a) :
    ∃ b, smartDone cfg w a = .ok b := by
  obtain ⟨ds, hds, hall⟩ := hd
  unfold smartDone
  simp only [hds, ha, if_true]
  apply anyLazy_ok
  intro c hc
  have := hall c hc
  cases c with
  | active => exact ⟨_, rfl⟩
  | oneTeam => exact ⟨_, rfl⟩
  | targetEncoding m one =>
    simp only [Done.getDone]
    cases m.lookup (w.encOf a) <;> exact ⟨_, rfl⟩
  | targetOverlap m =>
    simp only at this
    simp only [Done.getDone, Done.overlapDone]
    cases hl : m.lookup a with
    | none => rw [hl] at this; cases this
    | some t => exact ⟨_, rfl⟩
  | targetInactive m =>
    simp only at this
    simp only [Done.getDone, Done.inactiveDone]
    cases hl : m.lookup a with
    | none => rw [hl] at this; cases this
    | some t => exact ⟨_, rfl⟩

theorem traffic1_ok {cfg : Cfg} {w0 : World} (hcfg : CfgOK w0) (p : PS) (x : Aid × Act) (hP : PSOKA cfg w0 p)
    (hx : ItemOK cfg w0 x ∧ DoneTotalFor cfg x.1) : ∃ p', traffic1 cfg p x = .ok p' ∧ PSOKA cfg w0 p' := by
  have hn : p.w.n = w0.n := sframe_n hP.x.frame
  obtain ⟨p1, h1, hP1⟩ := moveAccA_ok hcfg p x.1 x.2.move hP hx.1.lt hx.1.learning hx.1.move
  have hn1 : p1.w.n = w0.n := sframe_n hP1.x.frame
  obtain ⟨b, hb⟩ := smartDone_ok (cfg := cfg) (w := p1.w) (a := x.1) (by rw [hn1]; exact hx.1.lt) hx.2
  unfold traffic1
  rw [if_neg (Nat.not_le.mpr (by rw [hn]; exact hx.1.lt))]
  simp only [h1, hb]
  cases b with
  | true =>
    obtain ⟨r', h2, hf⟩ := accrue_ok hP1.full hx.1.lt hx.1.learning 100
    exact ⟨⟨p1.w, r', p1.t⟩, by simp only [h2, Except.map], ⟨hP1.x, hf⟩⟩
  | false => exact ⟨p1, rfl, hP1⟩

theorem stepMaze_ok {cfg : Cfg} {w0 : World} (hcfg : CfgOK w0) (p : PS) (acts : List (Aid × Act))
    (hP : PSOKA cfg w0 p) (act : Act) (hl : acts.lookup cfg.navigator = some act)
    (hx : ItemOK cfg w0 (cfg.navigator, act)) : ∃ p', stepMaze cfg p acts = .ok p' := by
  obtain ⟨p1, h1, hP1⟩ := moveAccA_ok hcfg p cfg.navigator act.move hP hx.lt hx.learning hx.move
  unfold stepMaze
  simp only [hl, h1]
  by_cases hd : mazeDone cfg p1.w = true
  · obtain ⟨r1, h2, hf1⟩ := accrue_ok hP1.full hx.lt hx.learning 100
    obtain ⟨r2, h3, _⟩ := accrue_ok hf1 hx.lt hx.learning (-1)
    exact ⟨⟨p1.w, r2, p1.t⟩, by simp only [hd, if_true, h2, h3, Except.map]⟩
  · obtain ⟨r2, h3, _⟩ := accrue_ok hP1.full hx.lt hx.learning (-1)
    exact ⟨⟨p1.w, r2, p1.t⟩, by simp only [hd, Bool.false_eq_true, if_false, h3, Except.map]⟩

/-! ## every class -/

/-- **the hypotheses under which `step` must not raise**: every item of the action dict is a point of
the declared action space of a learning agent of the simulation (`ItemOK`: the agent exists, is a
learning agent — it has a reward entry —, its move is in the declared `move` space and, if it can
attack, its attack in the declared `attack` space) — nothing more for `TeamBattleSim`,
`PredatorPreyResourcesSim` (since the repairs afc90bd, c275832: any number of simultaneous attacks,
victims with or without reward entry) and `MultiMazeNavigationSim`; `MazeNavigationSim`: the dict
has an item for the navigator (the class reads `action_dict['navigator']` unconditionally);
`TrafficCorridorSimulation`: the done components answer for the acting agents (its `step` calls
`self.get_done(agent_id)`; a `TargetAgentOverlapDone` without an entry for the agent raises) -/
def StepOK (cfg : Cfg) (w0 : World) (acts : List (Aid × Act)) : Prop :=
  (∀ x ∈ acts, ItemOK cfg w0 x) ∧
  (cfg.which = .mazeNav → ∃ act, acts.lookup cfg.navigator = some act ∧ ItemOK cfg w0 (cfg.navigator, act)) ∧
  (cfg.which = .traffic → ∀ x ∈ acts, DoneTotalFor cfg x.1)

theorem stepPS_ok {cfg : Cfg} {w0 : World} (hcfg : CfgOK w0) (p : PS) (acts : List (Aid × Act))
    (hI : Inv cfg w0 p.w) (hL : LedgerFull cfg w0.n p.r) (hS : StepOK cfg w0 acts) :
    ∃ p', stepPS cfg p acts = .ok p' := by
  obtain ⟨hitems, hmaze, htr⟩ := hS
  unfold stepPS
  unfold Inv at hI
  cases hc : cfg.which <;> rw [hc] at hI <;> simp only at hI ⊢
  · exact stepBattle_ok hcfg (Or.inl hc) p acts ⟨hI, hL⟩ hitems
  · exact stepBattle_ok hcfg (Or.inr hc) p acts ⟨hI, hL⟩ hitems
  · obtain ⟨act, hl, hx⟩ := hmaze hc
    exact stepMaze_ok hcfg p acts ⟨hI, hL⟩ act hl hx
  · obtain ⟨p', h, _⟩ := foldE_ok (multi1 cfg) (PSOKA cfg w0) (ItemOK cfg w0) (multi1_ok hcfg) acts p ⟨hI, hL⟩ hitems
    exact ⟨p', h⟩
  · obtain ⟨p', h, _⟩ := foldE_ok (traffic1 cfg) (PSOKA cfg w0) (fun x => ItemOK cfg w0 x ∧ DoneTotalFor cfg x.1)
      (traffic1_ok hcfg) acts p ⟨hI, hL⟩ (fun x hx => ⟨hitems x hx, htr hc x hx⟩)
    exact ⟨p', h⟩

/-! ## what every accrual preserves, every `step` preserves -/

/-- a relation on reward dicts that every successful `self.rewards[a] += x` respects -/
structure AccRel (R : Ledger → Ledger → Prop) : Prop where
  refl : ∀ r, R r r
  trans : ∀ a b c, R a b → R b c → R a c
  acc : ∀ r a x r', accrue r a x = .ok r' → R r r'

theorem foldE_rel {σ β : Type} (f : σ → β → Except GErr σ) (R : σ → σ → Prop) (hrefl : ∀ s, R s s)
    (htrans : ∀ a b c, R a b → R b c → R a c) (hstep : ∀ s x s', f s x = .ok s' → R s s') :
    ∀ (l : List β) (s s' : σ), foldE f s l = .ok s' → R s s' := by
  intro l
  induction l with
  | nil => intro s s' h; simp only [foldE, Except.ok.injEq] at h; subst h; exact hrefl s
  | cons x xs ih =>
    intro s s' h
    simp only [foldE] at h
    cases h1 : f s x with
    | error e => rw [h1] at h; cases h
    | ok s1 => rw [h1] at h; exact htrans _ _ _ (hstep s x s1 h1) (ih s1 s' h)

section rel
variable {R : Ledger → Ledger → Prop} (hR : AccRel R)
include hR

theorem accrue_map_rel {r : Ledger} {a : Aid} {v : Int} {w : World} {t : Tape} {p' : PS}
    (h : (accrue r a v).map (fun r' => (⟨w, r', t⟩ : PS)) = .ok p') : R r p'.r := by
  obtain ⟨r', hr, he⟩ := map_ok h
  subst he; exact hR.acc _ _ _ _ hr

theorem teamKill_rel (cfg : Cfg) (w : World) (a : Aid) (r : Ledger) (v : Aid) (r' : Ledger)
    (h : teamKill cfg w a r v = .ok r') : R r r' := by
  unfold teamKill at h
  split at h
  · split at h
    · cases h
    · rename_i r1 h1
      refine hR.trans _ _ _ ?_ (hR.acc _ _ _ _ h)
      split at h1
      · exact hR.acc _ _ _ _ h1
      · simp only [Except.ok.injEq] at h1; subst h1; exact hR.refl r
  · simp only [Except.ok.injEq] at h; subst h; exact hR.refl r

theorem preyKill_rel (cfg : Cfg) (w : World) (a : Aid) (r : Ledger) (v : Aid) (r' : Ledger)
    (h : preyKill cfg w a r v = .ok r') : R r r' := by
  unfold preyKill at h
  split at h
  · split at h
    · cases h
    · rename_i r1 h1
      split at h
      · exact hR.trans _ _ _ (hR.acc _ _ _ _ h1) (hR.acc _ _ _ _ h)
      · simp only [Except.ok.injEq] at h; subst h; exact hR.acc _ _ _ _ h1
  · simp only [Except.ok.injEq] at h; subst h; exact hR.refl r

theorem attack1_rel (cfg : Cfg) (p : PS) (x : Aid × Act) (p' : PS) (h : attack1 cfg p x = .ok p') :
    R p.r p'.r := by
  unfold attack1 at h
  split at h
  · cases h
  · split at h
    · split at h
      · cases h
      · rename_i status H w' t' _
        split at h
        · split at h
          · exact accrue_map_rel hR h
          · obtain ⟨r', hr, he⟩ := map_ok h
            subst he
            refine foldE_rel _ R hR.refl hR.trans ?_ H p.r r' hr
            intro r v r1 h1
            split at h1
            · exact preyKill_rel hR cfg w' x.1 r v r1 h1
            · exact teamKill_rel hR cfg w' x.1 r v r1 h1
        · simp only [Except.ok.injEq] at h; subst h; exact hR.refl _
    · simp only [Except.ok.injEq] at h; subst h; exact hR.refl _

theorem moveAcc_rel {p p' : PS} {a : Aid} {d : Pos} (h : moveAcc p a d = .ok p') : R p.r p'.r := by
  unfold moveAcc at h
  split at h
  · cases h
  · split at h
    · simp only [Except.ok.injEq] at h; subst h; exact hR.refl _
    · exact accrue_map_rel hR h

theorem moveGuarded1_rel (p : PS) (x : Aid × Act) (p' : PS) (h : moveGuarded1 p x = .ok p') :
    R p.r p'.r := by
  unfold moveGuarded1 at h
  split at h
  · cases h
  · split at h
    · exact moveAcc_rel hR h
    · simp only [Except.ok.injEq] at h; subst h; exact hR.refl _

theorem entropy1_rel (p : PS) (x : Aid × Act) (p' : PS) (h : entropy1 p x = .ok p') : R p.r p'.r :=
  accrue_map_rel hR h

theorem multi1_rel (cfg : Cfg) (p : PS) (x : Aid × Act) (p' : PS) (h : multi1 cfg p x = .ok p') :
    R p.r p'.r := by
  unfold multi1 at h
  split at h
  · cases h
  · split at h
    · cases h
    · rename_i p1 hm
      split at h
      · cases h
      · split at h
        · cases h
        · rename_i r1 h1
          obtain ⟨r2, h2, he⟩ := map_ok h
          subst he
          refine hR.trans _ _ _ (moveAcc_rel hR hm) (hR.trans _ _ _ ?_ (hR.acc _ _ _ _ h2))
          split at h1
          · exact hR.acc _ _ _ _ h1
          · simp only [Except.ok.injEq] at h1; subst h1; exact hR.refl _

theorem traffic1_rel (cfg : Cfg) (p : PS) (x : Aid × Act) (p' : PS) (h : traffic1 cfg p x = .ok p') :
    R p.r p'.r := by
  unfold traffic1 at h
  split at h
  · cases h
  · split at h
    · cases h
    · rename_i p1 hm
      split at h
      · cases h
      · exact hR.trans _ _ _ (moveAcc_rel hR hm) (accrue_map_rel hR h)
      · simp only [Except.ok.injEq] at h; subst h; exact moveAcc_rel hR hm

/-- **whatever every accrual respects, `step` respects** -/
theorem stepPS_rel {cfg : Cfg} {p p' : PS} {acts : List (Aid × Act)} (h : stepPS cfg p acts = .ok p') :
    R p.r p'.r := by
  have hPS : ∀ (f : PS → Aid × Act → Except GErr PS), (∀ q x q', f q x = .ok q' → R q.r q'.r) →
      ∀ q q', foldE f q acts = .ok q' → R q.r q'.r := fun f hf q q' hq =>
    foldE_rel f (fun a b => R a.r b.r) (fun _ => hR.refl _) (fun _ _ _ => hR.trans _ _ _) hf acts q q' hq
  unfold stepPS at h
  cases hc : cfg.which <;> rw [hc] at h <;> simp only at h
  · unfold stepBattle at h
    split at h
    · cases h
    · rename_i p1 h1
      split at h
      · cases h
      · rename_i p2 h2
        exact hR.trans _ _ _ (hR.trans _ _ _ (hPS _ (attack1_rel hR cfg) _ _ h1) (hPS _ (moveGuarded1_rel hR) _ _ h2))
          (hPS _ (entropy1_rel hR) _ _ h)
  · unfold stepBattle at h
    split at h
    · cases h
    · rename_i p1 h1
      split at h
      · cases h
      · rename_i p2 h2
        exact hR.trans _ _ _ (hR.trans _ _ _ (hPS _ (attack1_rel hR cfg) _ _ h1) (hPS _ (moveGuarded1_rel hR) _ _ h2))
          (hPS _ (entropy1_rel hR) _ _ h)
  · unfold stepMaze at h
    split at h
    · cases h
    · split at h
      · cases h
      · rename_i p1 hm
        split at h
        · cases h
        · rename_i r1 h1
          obtain ⟨r2, h2, he⟩ := map_ok h
          subst he
          refine hR.trans _ _ _ (moveAcc_rel hR hm) (hR.trans _ _ _ ?_ (hR.acc _ _ _ _ h2))
          split at h1
          · exact hR.acc _ _ _ _ h1
          · simp only [Except.ok.injEq] at h1; subst h1; exact hR.refl _
  · exact hPS _ (multi1_rel hR cfg) _ _ h
  · exact hPS _ (traffic1_rel hR cfg) _ _ h

end rel

/-! ### the reward dict never loses a key; its key list never changes -/

def KeysLe (r r' : Ledger) : Prop := ∀ b, (r.lookup b).isSome = true → (r'.lookup b).isSome = true

theorem KeysLe.refl (r : Ledger) : KeysLe r r := fun _ h => h
theorem KeysLe.trans {a b c : Ledger} (h1 : KeysLe a b) (h2 : KeysLe b c) : KeysLe a c :=
  fun x h => h2 x (h1 x h)

theorem dictSet_keys (r : Ledger) (a : Aid) (v : Int) : KeysLe r (dictSet r a v) := by
  intro b hb
  rw [lookup_dictSet]
  by_cases h : b = a
  · simp [h]
  · simpa [h] using hb

theorem accrue_keys {r r' : Ledger} {a : Aid} {x : Int} (h : accrue r a x = .ok r') : KeysLe r r' := by
  unfold accrue at h
  split at h
  · cases h
  · simp only [Except.ok.injEq] at h
    subst h; exact dictSet_keys _ _ _

theorem keysLe_accRel : AccRel KeysLe :=
  ⟨KeysLe.refl, fun _ _ _ => KeysLe.trans, fun _ _ _ _ => accrue_keys⟩

theorem stepPS_keys {cfg : Cfg} {p p' : PS} {acts : List (Aid × Act)} (h : stepPS cfg p acts = .ok p') :
    KeysLe p.r p'.r := stepPS_rel keysLe_accRel h

/-- writing an entry that exists keeps the list of keys -/
theorem dictSet_keylist (r : Ledger) (a : Aid) (v : Int) (h : (r.lookup a).isSome = true) :
    (dictSet r a v).map (·.1) = r.map (·.1) := by
  induction r with
  | nil => cases h
  | cons p rest ih =>
    obtain ⟨k, x⟩ := p
    simp only [dictSet]
    by_cases hk : k = a
    · simp [hk]
    · simp only [hk, if_false, List.map_cons, List.cons.injEq, true_and]
      apply ih
      have : (a == k) = false := by simpa using (Ne.symm hk)
      simpa [List.lookup, this] using h

theorem accrue_keylist {r r' : Ledger} {a : Aid} {x : Int} (h : accrue r a x = .ok r') :
    r.map (·.1) = r'.map (·.1) := by
  unfold accrue at h
  split at h
  · cases h
  · rename_i v hv
    simp only [Except.ok.injEq] at h
    subst h
    exact (dictSet_keylist r a _ (by rw [hv]; rfl)).symm

theorem keylist_accRel : AccRel (fun r r' => r.map (·.1) = r'.map (·.1)) :=
  ⟨fun _ => rfl, fun _ _ _ h1 h2 => h1.trans h2, fun _ _ _ _ => accrue_keylist⟩

/-- **`step` keeps the key list of the reward dict** -/
theorem stepPS_keylist {cfg : Cfg} {p p' : PS} {acts : List (Aid × Act)} (h : stepPS cfg p acts = .ok p') :
    p.r.map (·.1) = p'.r.map (·.1) := stepPS_rel keylist_accRel h

/-! ## the invariant with the ledger -/

/-- `Good`, and the reward dict (once it exists) has an entry for every learning agent -/
def GoodL (cfg : Cfg) (w0 : World) (s : St) : Prop :=
  Good cfg w0 s ∧ ∀ r, s.rewards = some r → LedgerFull cfg w0.n r

theorem LedgerFull.of_keys {cfg : Cfg} {n : Nat} {r r' : Ledger} (h : LedgerFull cfg n r) (hk : KeysLe r r') :
    LedgerFull cfg n r' := fun a ha hl => hk a (h a ha hl)

theorem runOp_goodL {cfg : Cfg} {w0 : World} (hcfg : CfgOK w0) (hfresh : w0.vitalsAlive = true)
    (s : St) (op : EOp) (hop : OpOK cfg w0 op) (hG : GoodL cfg w0 s) : GoodL cfg w0 (runOp cfg s op).2 := by
  refine ⟨runOp_good hcfg hfresh s op hop hG.1, ?_⟩
  cases op with
  | reset order tape =>
    simp only [runOp]
    cases h : reset cfg order { s with tape := tape } with
    | error e => exact hG.2
    | ok s' =>
      obtain ⟨_, hX⟩ := reset_good hcfg hfresh hop (s := { s with tape := tape }) hG.1 h
      intro r hr
      unfold reset at h
      split at h
      · cases h
      · split at h
        · cases h
        · simp only [Except.ok.injEq] at h
          subst h
          simp only [Option.some.injEq] at hr
          subst hr
          have hn : _ = w0.n := sframe_n hX.frame
          simp only at hn
          rw [hn]
          exact zeroRewards_full cfg w0.n
  | step acts tape =>
    simp only [runOp]
    cases h : step cfg { s with tape := tape } acts with
    | error e => exact hG.2
    | ok s' =>
      intro r' hr'
      unfold step at h
      split at h
      · cases h
      · rename_i r hr
        split at h
        · cases h
        · rename_i p hp
          simp only [Except.ok.injEq] at h
          subst h
          simp only [Option.some.injEq] at hr'
          subst hr'
          exact (hG.2 r hr).of_keys (stepPS_keys hp)
  | obs a tape =>
    simp only [runOp]
    cases h : getObs cfg { s with tape := tape } a with
    | error e => exact hG.2
    | ok r =>
      obtain ⟨o, s'⟩ := r
      obtain ⟨t', rfl⟩ := getObs_shape h
      exact hG.2
  | rew a =>
    simp only [runOp]
    cases h : getReward cfg s a with
    | error e => exact hG.2
    | ok r =>
      obtain ⟨x, s'⟩ := r
      obtain ⟨r0, hr0, _, rfl⟩ := getReward_shape h
      intro r' hr'
      simp only [Option.some.injEq] at hr'
      subst hr'
      exact (hG.2 r0 hr0).of_keys (dictSet_keys _ _ _)
  | done a => exact hG.2
  | allDone => exact hG.2

theorem runOps_goodL {cfg : Cfg} {w0 : World} (hcfg : CfgOK w0) (hfresh : w0.vitalsAlive = true)
    (ops : List EOp) (s : St) (hops : ∀ op ∈ ops, OpOK cfg w0 op) (hG : GoodL cfg w0 s) :
    GoodL cfg w0 (runOps cfg s ops).2 :=
  runOps_inv (GoodL cfg w0) ops s (fun op ho s' hs' => runOp_goodL hcfg hfresh s' op (hops op ho) hs') hG

/-- **`step` does not raise** in a good state with a full ledger, for an action dict satisfying `StepOK` -/
theorem step_ok {cfg : Cfg} {w0 : World} (hcfg : CfgOK w0) (s : St) (hG : GoodL cfg w0 s)
    (hs : s.rewards.isSome = true) (acts : List (Aid × Act)) (hS : StepOK cfg w0 acts) :
    ∃ s', step cfg s acts = .ok s' := by
  cases hr : s.rewards with
  | none => rw [hr] at hs; cases hs
  | some r =>
    have hI : Inv cfg w0 s.w := by
      have := hG.1
      unfold Good at this
      rw [hr] at this
      exact this
    obtain ⟨p', hp⟩ := stepPS_ok hcfg ⟨s.w, r, s.tape⟩ acts hI (hG.2 r hr) hS
    exact ⟨{ w := p'.w, rewards := some p'.r, tape := p'.t }, by simp only [step, hr, hp]⟩

end Ex
end Abmarl
