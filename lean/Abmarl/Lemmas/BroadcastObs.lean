import Abmarl.Lemmas.Broadcast
import Abmarl.Lemmas.ExamplesJudge
import Abmarl.Lemmas.ExamplesPos
/-!
# `BroadcastSim.get_obs` in a state of the invariant: it returns, and what it returns is what the judge asks for

The grid part is the centred observer's (`Ex.getObs_obsInSpace`, re-used through a one-observer smart configuration);
the `message` part is characterised exactly (`getObs_spec`): slots = one per broadcaster in listing order, each carrying
what `slotOf` says, the read empties the agent's list, the new message is the clamped exact average.
-/
namespace Abmarl
namespace BC
open World Ex

/-- a smart-simulation configuration whose only observer is the centred one -/
def ecfg (os : Bool) : Ex.Cfg :=
  { which := .multiMaze, learning := [], comps := [], observers := some [.centered os], dones := none }

theorem mergeObs_single (k : Observers.Kind) (g : Observers.Obs) : mergeObs [itemsOf k g] = itemsOf k g := by
  cases g <;> rfl

theorem grid_inSpace {w : World} {a : Aid} {os : Bool} {t t' : Tape} {g : Observers.Obs} (hI : w.WInv = true)
    (hP : AllInGrid w) (henc : ∀ b < w.n, 0 < w.encOf b) (hammo : ∀ b < w.n, 0 ≤ (w.cfgOf b).initAmmo) (ha : a < w.n)
    (h : Observers.getObsCentered w a os t = .ok (g, t')) :
    obsInSpace w a [.centered os] (itemsOf (.centered os) g) = true := by
  have hE : Ex.getObs (ecfg os) { w := w, rewards := some [], tape := t } a =
      .ok (itemsOf (.centered os) g, { w := w, rewards := some [], tape := t' }) := by
    simp only [Ex.getObs, ecfg, ha, if_true, obsOuts, Observers.getObs, h, mergeObs_single]
  exact getObs_obsInSpace (cfg := ecfg os) (s := { w := w, rewards := some [], tape := t }) rfl hI hP henc hammo hE

theorem lastFrom_mem (o : Aid) : ∀ (rf : List (Aid × Rat)) (k i : Nat) (m : Rat),
    lastFrom o rf k = some (i, m) → (o, m) ∈ rf := by
  intro rf
  induction rf with
  | nil => intro k i m h; cases h
  | cons x rest ih =>
    intro k i m h
    obtain ⟨s, m'⟩ := x
    simp only [lastFrom] at h
    cases hr : lastFrom o rest (k + 1) with
    | some r =>
      rw [hr] at h
      simp only [Option.some.injEq] at h
      subst h
      exact List.mem_cons_of_mem _ (ih _ _ _ hr)
    | none =>
      rw [hr] at h
      simp only at h
      split at h
      · rename_i hs
        simp only [Option.some.injEq, Prod.mk.injEq] at h
        rw [hs, h.2]; exact List.mem_cons_self
      · cases h

/-- the slots the model produces satisfy the judge's slot clause -/
theorem slots_ok (cfg : Cfg) (n : Nat) (a : Aid) (new : Rat) (rf : List (Aid × Rat)) (hnew : inUnit new = true)
    (hrf : ∀ x ∈ rf, inUnit x.2 = true) :
    slotsOK cfg n a rf ((bcasters cfg n).map fun o => (o, slotOf a new rf o)) = true := by
  simp only [slotsOK, Bool.and_eq_true, beq_iff_eq, List.all_eq_true, List.map_map]
  refine ⟨by simp [Function.comp_def], ?_⟩
  intro p hp
  obtain ⟨o, _, rfl⟩ := List.mem_map.mp hp
  simp only [slotOf]
  by_cases hoa : o = a
  · simp [hoa, hnew]
  · simp only [hoa, if_false, beq_iff_eq]
    cases hl : lastFrom o rf 0 with
    | none => simp [inUnit]
    | some r =>
      obtain ⟨k, m⟩ := r
      simp only [List.contains_cons, List.contains_nil, Bool.or_false, beq_self_eq_true, Bool.and_true]
      exact ⟨hrf (o, m) (lastFrom_mem o rf 0 k m hl), trivial⟩

/-- **`get_obs` in a state of the invariant, exactly** -/
theorem getObs_spec {cfg : Cfg} {w0 : World} {s : St} {a : Aid} (hG : Good cfg w0 s) (ha : a < s.w.n)
    (henc : ∀ b < s.w.n, 0 < s.w.encOf b) (hammo : ∀ b < s.w.n, 0 ≤ (s.w.cfgOf b).initAmmo) :
    ∃ g t', Observers.getObsCentered s.w a cfg.observeSelf s.tape = .ok (g, t') ∧
      obsInSpace s.w a [.centered cfg.observeSelf] (itemsOf (.centered cfg.observeSelf) g) = true ∧
      (cfg.isB a = false →
        getObs cfg s a = .ok (⟨itemsOf (.centered cfg.observeSelf) g, none⟩, { s with tape := t' })) ∧
      (cfg.isB a = true → ∃ rv rf own, s.recv = some rv ∧ rv.lookup a = some rf ∧ s.msgs.getD a none = some own ∧
        inUnit own = true ∧ (∀ x ∈ rf, inUnit x.2 = true) ∧
        getObs cfg s a = .ok
          (⟨itemsOf (.centered cfg.observeSelf) g,
            some ((bcasters cfg s.w.n).map fun o =>
              (o, slotOf a (clamp (average (rf.map (·.2) ++ [own]))) rf o))⟩,
           { s with msgs := s.msgs.set a (some (clamp (average (rf.map (·.2) ++ [own])))),
                    recv := some (dictSet rv a []), tape := t' })) := by
  obtain ⟨r, hr, hk⟩ := hG.led
  obtain ⟨rv, hrv, hR⟩ := hG.recv
  have hI := hG.x.inv
  have hP := allInGrid_of_alive hI hG.x.alive
  obtain ⟨g, t', hget, _⟩ := Observers.getObs_declared s.w a (.centered cfg.observeSelf) s.tape hI ha (hP a ha) henc
    (hammo a ha)
  have hget' : Observers.getObsCentered s.w a cfg.observeSelf s.tape = .ok (g, t') := hget
  refine ⟨g, t', hget', grid_inSpace hI hP henc hammo ha hget', ?_, ?_⟩
  · intro hb
    simp [getObs, hr, Nat.not_le.mpr ha, hget', hb]
  · intro hb
    have hkey : a ∈ rv.map (·.1) := by rw [hR.1]; exact (mem_bcasters cfg _ a).mpr ⟨ha, hb⟩
    have hsome := lookup_isSome_of_mem_keys rv a hkey
    obtain ⟨rf, hrf⟩ := Option.isSome_iff_exists.mp hsome
    obtain ⟨own, hown, hu⟩ := (hG.msgs.2 a ha).1 hb
    have hall : ∀ x ∈ rf, cfg.isB x.1 = true ∧ x.1 < s.w.n ∧ inUnit x.2 = true :=
      hR.2 (a, rf) (mem_of_lookup rv a rf hrf)
    refine ⟨rv, rf, own, hrv, hrf, hown, hu, fun x hx => (hall x hx).2.2, ?_⟩
    have hallb : (rf.all fun p => cfg.isB p.1) = true := by
      simp only [List.all_eq_true]; exact fun x hx => (hall x hx).1
    have hown' : s.msgs[a]?.getD none = some own := by simpa [List.getD_eq_getElem?_getD] using hown
    simp [getObs, hr, Nat.not_le.mpr ha, hget', hb, hrv, hrf, St.msgOf, hown', hallb, bcasters]

end BC
end Abmarl
