import Abmarl.Spec.Attacks
import Abmarl.Lemmas.Grid
import Mathlib.Tactic.Linarith
import Mathlib.Data.List.Perm.Subperm
/-!
# The tail of `process_action` of the attack actors: ammunition filter and health loop

* `Oracle.choiceNoRepl_subperm`, `Oracle.choiceNoRepl_length` — selection without replacement
  returns a sub-selection of its input, of the requested size;
* `WInvP` — the consistency invariant `WInv` (C03) in `Prop` form, `WInv_iff`;
* `WInvP.transfer` — the invariant survives any change in which positions stay, vitals stay in
  range, nobody is revived and every cell keeps exactly its still-active occupants;
* `HitsRel` — what the health loop does; `hitStep_sound`, `applyHits_sound`;
* `ammoFilter_sound`, `tail_sound` — the filter and the loop together satisfy `specBook`.
-/
namespace Abmarl
namespace Oracle

theorem choiceNoRepl_cons_succ {β : Type} (x : β) (xs : List β) (k : Nat) (t : Tape) :
    choiceNoRepl (x :: xs) (k + 1) t =
      ((x :: xs).getD (t.headD 0 % (xs.length + 1)) x ::
          (choiceNoRepl ((x :: xs).eraseIdx (t.headD 0 % (xs.length + 1))) k t.tail).1,
        (choiceNoRepl ((x :: xs).eraseIdx (t.headD 0 % (xs.length + 1))) k t.tail).2) := by
  rw [choiceNoRepl]
  rfl

theorem choiceNoRepl_subperm {β : Type} (l : List β) (k : Nat) (t : Tape) :
    (choiceNoRepl l k t).1.Subperm l := by
  induction k generalizing l t with
  | zero => simp [choiceNoRepl]
  | succ k ih =>
    cases l with
    | nil => simp [choiceNoRepl]
    | cons x xs =>
      rw [choiceNoRepl_cons_succ]
      have hi : t.headD 0 % (xs.length + 1) < (x :: xs).length := by
        simp only [List.length_cons]; exact Nat.mod_lt _ (by omega)
      have hget : (x :: xs).getD (t.headD 0 % (xs.length + 1)) x = (x :: xs)[t.headD 0 % (xs.length + 1)] := by
        rw [List.getD_eq_getElem?_getD, List.getElem?_eq_getElem hi]; rfl
      simp only [hget]
      exact ((List.subperm_cons _).2 (ih _ _)).trans (List.getElem_cons_eraseIdx_perm hi).subperm

theorem choiceNoRepl_length {β : Type} (l : List β) (k : Nat) (t : Tape) :
    (choiceNoRepl l k t).1.length = min k l.length := by
  induction k generalizing l t with
  | zero => rw [choiceNoRepl]; simp
  | succ k ih =>
    cases l with
    | nil => rw [choiceNoRepl]; simp
    | cons x xs =>
      rw [choiceNoRepl_cons_succ]
      have hi : t.headD 0 % (xs.length + 1) < (x :: xs).length := by
        simp only [List.length_cons]; exact Nat.mod_lt _ (by omega)
      simp only [List.length_cons, ih, List.length_eraseIdx_of_lt hi]
      omega

end Oracle
end Abmarl

namespace Abmarl
namespace World

/-! ## Prop form of the invariant -/

structure CellOK (w : World) (i : Nat) : Prop where
  nodup : (w.cells.getD i []).Nodup
  occ   : ∀ a ∈ w.cells.getD i [], a < w.n ∧ (w.stOf a).active = true ∧
            w.inGrid (w.stOf a).pos = true ∧ w.idx (w.stOf a).pos = i
  pair  : ∀ a ∈ w.cells.getD i [], ∀ b ∈ w.cells.getD i [],
            a = b ∨ w.pairOK (w.encOf a) (w.encOf b) = true

structure VitalsOK (c : AgentCfg) (x : AgentSt) : Prop where
  h0     : 0 ≤ x.health
  h1     : x.health ≤ 1
  act    : x.active = decide (0 < x.health)
  ammo0  : 0 ≤ x.ammo
  ammo1  : c.hasAmmo = true → x.ammo ≤ max 0 c.initAmmo
  orient : c.hasOrient = true → 1 ≤ x.orient ∧ x.orient ≤ 4

structure AgentOK (w : World) (a : Aid) : Prop where
  placed : (w.stOf a).active = true → w.inGrid (w.stOf a).pos = true ∧ a ∈ w.cell (w.stOf a).pos
  vit    : VitalsOK (w.cfgOf a) (w.stOf a)

structure WInvP (w : World) : Prop where
  lenC  : w.cells.length = w.rows * w.cols
  lenS  : w.st.length = w.cfg.length
  cell  : ∀ i, i < w.rows * w.cols → CellOK w i
  agent : ∀ a, a < w.n → AgentOK w a
  ov    : w.wOverlapSym = true

theorem wCell_iff (w : World) (i : Nat) : w.wCell i = true ↔ CellOK w i := by
  simp only [wCell, Bool.and_eq_true, List.all_eq_true, decide_eq_true_eq, beq_iff_eq,
    Bool.or_eq_true]
  constructor
  · rintro ⟨⟨h1, h2⟩, h3⟩
    exact ⟨h1, fun a ha => ⟨(h2 a ha).1.1.1, (h2 a ha).1.1.2, (h2 a ha).1.2, (h2 a ha).2⟩, h3⟩
  · rintro ⟨h1, h2, h3⟩
    exact ⟨⟨h1, fun a ha => ⟨⟨⟨(h2 a ha).1, (h2 a ha).2.1⟩, (h2 a ha).2.2.1⟩, (h2 a ha).2.2.2⟩⟩, h3⟩

theorem wAgent_iff (w : World) (a : Aid) : w.wAgent a = true ↔ AgentOK w a := by
  simp only [wAgent, Bool.and_eq_true, Bool.or_eq_true, Bool.not_eq_true', decide_eq_true_eq,
    beq_iff_eq]
  constructor
  · rintro ⟨⟨⟨⟨⟨⟨h1, h2⟩, h3⟩, h4⟩, h5⟩, h6⟩, h7⟩
    refine ⟨fun hact => ?_, h2, h3, h4, h5, fun hc => ?_, fun hc => ?_⟩
    · rcases h1 with h1 | h1
      · rw [hact] at h1; cases h1
      · exact h1
    · rcases h6 with h6 | h6
      · rw [hc] at h6; cases h6
      · exact h6
    · rcases h7 with h7 | h7
      · rw [hc] at h7; cases h7
      · exact h7
  · rintro ⟨h1, h2, h3, h4, h5, h6, h7⟩
    refine ⟨⟨⟨⟨⟨⟨?_, h2⟩, h3⟩, h4⟩, h5⟩, ?_⟩, ?_⟩
    · cases hact : (w.stOf a).active
      · exact Or.inl rfl
      · exact Or.inr (h1 hact)
    · cases hc : (w.cfgOf a).hasAmmo
      · exact Or.inl rfl
      · exact Or.inr (h6 hc)
    · cases hc : (w.cfgOf a).hasOrient
      · exact Or.inl rfl
      · exact Or.inr (h7 hc)

theorem WInv_iff (w : World) : w.WInv = true ↔ WInvP w := by
  simp only [WInv, Bool.and_eq_true, List.all_eq_true, wShape, beq_iff_eq, allCells, allAgents,
    List.mem_range, wCell_iff, wAgent_iff]
  constructor
  · rintro ⟨⟨⟨⟨h1, h2⟩, h3⟩, h4⟩, h5⟩
    exact ⟨h1, h2, h3, h4, h5⟩
  · rintro ⟨h1, h2, h3, h4, h5⟩
    exact ⟨⟨⟨⟨h1, h2⟩, h3⟩, h4⟩, h5⟩


/-! ## small facts -/

theorem getD_nil_of_le {β : Type} (l : List (List β)) (i : Nat) (h : l.length ≤ i) : l.getD i [] = [] := by
  rw [List.getD_eq_getElem?_getD, List.getElem?_eq_none h]; rfl

theorem stOf_default {w : World} {b : Aid} (h : w.st.length ≤ b) : w.stOf b = {} := by
  unfold stOf
  rw [List.getD_eq_getElem?_getD, List.getElem?_eq_none h]; rfl

theorem cfgOf_default {w : World} {b : Aid} (h : w.n ≤ b) : w.cfgOf b = {} := by
  unfold cfgOf
  rw [List.getD_eq_getElem?_getD, List.getElem?_eq_none h]; rfl

theorem WInvP.cellAll {w : World} (hI : WInvP w) (i : Nat) : CellOK w i := by
  by_cases hi : i < w.rows * w.cols
  · exact hI.cell i hi
  · have : w.cells.getD i [] = [] := getD_nil_of_le _ _ (by rw [hI.lenC]; omega)
    refine ⟨?_, ?_, ?_⟩ <;> rw [this] <;> simp

theorem WInvP.actAll {w : World} (hI : WInvP w) (b : Aid) :
    (w.stOf b).active = decide (0 < (w.stOf b).health) := by
  by_cases hb : b < w.n
  · exact (hI.agent b hb).vit.act
  · rw [stOf_default (by rw [hI.lenS]; exact Nat.le_of_not_lt hb)]
    decide

theorem WInvP.lt_st {w : World} (hI : WInvP w) {a : Aid} (ha : a < w.n) : a < w.st.length := by
  rw [hI.lenS]; exact ha

theorem stOf_setSt_ne (w : World) {a b : Aid} (s : AgentSt) (h : b ≠ a) :
    (w.setSt a s).stOf b = w.stOf b := stOf_set_ne _ _ _ _ (fun e => h e.symm)

/-! ## the arithmetic of hits -/

theorem hitOnce_of_not_pos {h : Rat} (s : Rat) (hh : ¬ 0 < h) : hitOnce h s = h := if_neg hh

theorem hitOnce_of_pos {h : Rat} (s : Rat) (hh : 0 < h) : hitOnce h s = min (max (h - s) 0) 1 := if_pos hh

theorem hitOnce_bounds {h : Rat} (s : Rat) (h0 : 0 ≤ h) (h1 : h ≤ 1) :
    0 ≤ hitOnce h s ∧ hitOnce h s ≤ 1 := by
  unfold hitOnce
  split
  · exact ⟨le_min (le_max_right _ _) (by norm_num), min_le_right _ _⟩
  · exact ⟨h0, h1⟩

theorem healthAfter_of_not_pos {h : Rat} (s : Rat) (m : Nat) (hh : ¬ 0 < h) : healthAfter h s m = h := by
  induction m with
  | zero => rfl
  | succ m ih => rw [healthAfter, hitOnce_of_not_pos s hh, ih]

theorem healthAfter_bounds {h : Rat} (s : Rat) (m : Nat) (h0 : 0 ≤ h) (h1 : h ≤ 1) :
    0 ≤ healthAfter h s m ∧ healthAfter h s m ≤ 1 := by
  induction m generalizing h with
  | zero => exact ⟨h0, h1⟩
  | succ m ih => rw [healthAfter]; exact ih (hitOnce_bounds s h0 h1).1 (hitOnce_bounds s h0 h1).2

theorem pos_of_healthAfter_pos {h : Rat} {s : Rat} {m : Nat} (hp : 0 < healthAfter h s m) : 0 < h := by
  by_cases hh : 0 < h
  · exact hh
  · rw [healthAfter_of_not_pos s m hh] at hp; exact hp

theorem healthAfter_add (h s : Rat) (k m : Nat) :
    healthAfter (healthAfter h s k) s m = healthAfter h s (k + m) := by
  induction k generalizing h with
  | zero => rw [Nat.zero_add]; rfl
  | succ k ih => rw [Nat.succ_add, healthAfter, healthAfter, ih]

/-- the state of an agent after `m` hits of strength `s` -/
def hitSt (x : AgentSt) (s : Rat) (m : Nat) : AgentSt :=
  { x with health := healthAfter x.health s m, active := decide (0 < healthAfter x.health s m) }

theorem hitSt_zero {x : AgentSt} (s : Rat) (h : x.active = decide (0 < x.health)) : hitSt x s 0 = x := by
  cases x with
  | mk p hl ac am o =>
    have h' : ac = decide (0 < hl) := h
    subst h'
    rfl

theorem hitSt_add (x : AgentSt) (s : Rat) (k m : Nat) : hitSt (hitSt x s k) s m = hitSt x s (k + m) := by
  simp only [hitSt, healthAfter_add]

theorem hitSt_active_mono {x : AgentSt} {s : Rat} {k m : Nat} (h : (hitSt x s (k + m)).active = true) :
    (hitSt x s k).active = true := by
  simp only [hitSt, decide_eq_true_eq, ← healthAfter_add] at h ⊢
  exact pos_of_healthAfter_pos h


/-! ## transfer of the invariant along "victims may die and leave, nothing else moves" -/

theorem WInvP.transfer {w w' : World} (hI : WInvP w)
    (hrows : w'.rows = w.rows) (hcols : w'.cols = w.cols) (hov : w'.overlap = w.overlap)
    (hcfg : w'.cfg = w.cfg) (hlenC : w'.cells.length = w.cells.length)
    (hlenS : w'.st.length = w.st.length)
    (hpos : ∀ b, b < w.n → (w'.stOf b).pos = (w.stOf b).pos)
    (hvit : ∀ b, b < w.n → VitalsOK (w.cfgOf b) (w'.stOf b))
    (hact : ∀ b, b < w.n → (w'.stOf b).active = true → (w.stOf b).active = true)
    (hcells : ∀ i, w'.cells.getD i [] = (w.cells.getD i []).filter fun b => (w'.stOf b).active) :
    WInvP w' := by
  have hn : w'.n = w.n := by simp only [n, hcfg]
  have hinG : ∀ p, w'.inGrid p = w.inGrid p := by intro p; simp only [inGrid, hrows, hcols]
  have hidx : ∀ p, w'.idx p = w.idx p := by intro p; simp only [idx, hcols]
  have hpair : ∀ x y, w'.pairOK x y = w.pairOK x y := by intro x y; simp only [pairOK, hov]
  have henc : ∀ b, w'.encOf b = w.encOf b := by intro b; simp only [encOf, cfgOf, hcfg]
  have hcfgOf : ∀ b, w'.cfgOf b = w.cfgOf b := by intro b; simp only [cfgOf, hcfg]
  refine ⟨?_, ?_, ?_, ?_, ?_⟩
  · rw [hlenC, hrows, hcols]; exact hI.lenC
  · rw [hlenS, hcfg]; exact hI.lenS
  · intro i _
    have hc := hI.cellAll i
    refine ⟨?_, ?_, ?_⟩
    · rw [hcells]; exact hc.nodup.filter _
    · intro a ha
      rw [hcells, List.mem_filter] at ha
      obtain ⟨h1, _, h3, h4⟩ := hc.occ a ha.1
      refine ⟨by rw [hn]; exact h1, ha.2, ?_, ?_⟩
      · rw [hinG, hpos a h1]; exact h3
      · rw [hidx, hpos a h1]; exact h4
    · intro a ha b hb
      rw [hcells, List.mem_filter] at ha hb
      rw [hpair, henc, henc]
      exact hc.pair a ha.1 b hb.1
  · intro a ha
    rw [hn] at ha
    refine ⟨?_, ?_⟩
    · intro hact'
      obtain ⟨h1, h2⟩ := (hI.agent a ha).placed (hact a ha hact')
      refine ⟨by rw [hinG, hpos a ha]; exact h1, ?_⟩
      unfold World.cell at h2 ⊢
      rw [hcells, hidx, hpos a ha, List.mem_filter]
      exact ⟨h2, hact'⟩
    · rw [hcfgOf]; exact hvit a ha
  · have : w'.wOverlapSym = w.wOverlapSym := by
      simp only [wOverlapSym, hov]
      congr 1; funext p; congr 1; funext x; exact hpair _ _
    rw [this]; exact hI.ov

/-- what the health loop does, agent by agent and cell by cell -/
structure HitsRel (w : World) (s : Rat) (H : List Aid) (w' : World) : Prop where
  rows  : w'.rows = w.rows
  cols  : w'.cols = w.cols
  ov    : w'.overlap = w.overlap
  cfg   : w'.cfg = w.cfg
  lenC  : w'.cells.length = w.cells.length
  lenS  : w'.st.length = w.st.length
  st    : ∀ b, w'.stOf b = { w.stOf b with
            health := healthAfter (w.stOf b).health s (H.count b),
            active := decide (0 < healthAfter (w.stOf b).health s (H.count b)) }
  cells : ∀ i, w'.cells.getD i [] = (w.cells.getD i []).filter fun b => (w'.stOf b).active

theorem HitsRel.st' {w w' : World} {s : Rat} {H : List Aid} (h : HitsRel w s H w') (b : Aid) :
    w'.stOf b = hitSt (w.stOf b) s (H.count b) := h.st b

theorem HitsRel.winv {w w' : World} {s : Rat} {H : List Aid} (hI : WInvP w) (h : HitsRel w s H w') :
    WInvP w' := by
  refine hI.transfer h.rows h.cols h.ov h.cfg h.lenC h.lenS ?_ ?_ ?_ h.cells
  · intro b _; rw [h.st' b]; rfl
  · intro b hb
    have hv := (hI.agent b hb).vit
    rw [h.st' b]
    have hb' := healthAfter_bounds s (H.count b) hv.h0 hv.h1
    exact ⟨hb'.1, hb'.2, rfl, hv.ammo0, hv.ammo1, hv.orient⟩
  · intro b _ hact
    rw [h.st' b] at hact
    rw [hI.actAll b]
    simp only [hitSt, decide_eq_true_eq] at hact ⊢
    exact pos_of_healthAfter_pos hact

theorem HitsRel.trans {w w1 w2 : World} {s : Rat} {H1 H2 : List Aid}
    (h1 : HitsRel w s H1 w1) (h2 : HitsRel w1 s H2 w2) : HitsRel w s (H1 ++ H2) w2 := by
  have hst : ∀ b, w2.stOf b = hitSt (w.stOf b) s ((H1 ++ H2).count b) := by
    intro b; rw [h2.st' b, h1.st' b, hitSt_add, List.count_append]
  refine ⟨h2.rows.trans h1.rows, h2.cols.trans h1.cols, h2.ov.trans h1.ov, h2.cfg.trans h1.cfg,
    h2.lenC.trans h1.lenC, h2.lenS.trans h1.lenS, hst, ?_⟩
  intro i
  rw [h2.cells i, h1.cells i, List.filter_filter]
  apply List.filter_congr
  intro b _
  cases h : (w2.stOf b).active
  · rfl
  · rw [hst b, List.count_append] at h
    rw [h1.st' b, hitSt_active_mono h]; rfl

theorem HitsRel.nil {w : World} (hI : WInvP w) (s : Rat) : HitsRel w s [] w := by
  refine ⟨rfl, rfl, rfl, rfl, rfl, rfl, ?_, ?_⟩
  · intro b
    exact (hitSt_zero s (hI.actAll b)).symm
  · intro i
    symm
    rw [List.filter_eq_self]
    intro b hb
    exact ((hI.cellAll i).occ b hb).2.1


/-! ## one pass of the health loop -/

theorem count_single (v b : Aid) : [v].count b = if b = v then 1 else 0 := by
  by_cases h : b = v
  · subst h; simp
  · have : ¬ v = b := fun e => h e.symm
    simp [h, this]

theorem setHealth_eq {w : World} {v : Aid} (s : Rat) (hp : 0 < (w.stOf v).health) :
    w.setHealth v ((w.stOf v).health - s) = w.setSt v (hitSt (w.stOf v) s 1) := by
  have e : healthAfter (w.stOf v).health s 1 = min (max ((w.stOf v).health - s) 0) 1 := by
    show hitOnce _ _ = _
    exact if_pos hp
  unfold setHealth hitSt
  rw [e]

/-- the states after a hit on the living agent `v` -/
theorem stOf_hit {w : World} (hI : WInvP w) (s : Rat) {v : Aid} (hv : v < w.n) (b : Aid) :
    (w.setSt v (hitSt (w.stOf v) s 1)).stOf b = hitSt (w.stOf b) s ([v].count b) := by
  rw [count_single]
  by_cases h : b = v
  · subst h
    rw [if_pos rfl, stOf_setSt_same _ _ _ (hI.lt_st hv)]
  · rw [if_neg h, stOf_setSt_ne _ _ h, hitSt_zero s (hI.actAll b)]

theorem hitStep_sound {w : World} (hI : WInvP w) (s : Rat) {v : Aid} (hv : v < w.n) :
    ∃ w1, hitStep w s v = .ok w1 ∧ HitsRel w s [v] w1 := by
  by_cases hact : (w.stOf v).active = true
  · have hpos : 0 < (w.stOf v).health := by
      have := hI.actAll v
      rw [hact] at this
      exact of_decide_eq_true this.symm
    obtain ⟨w1, hw1⟩ : ∃ w1, w1 = w.setSt v (hitSt (w.stOf v) s 1) := ⟨_, rfl⟩
    have hst1 : ∀ b, w1.stOf b = hitSt (w.stOf b) s ([v].count b) := by
      intro b; rw [hw1]; exact stOf_hit hI s hv b
    have hposv : (w1.stOf v).pos = (w.stOf v).pos := by rw [hst1 v]; rfl
    have hlenS : w1.st.length = w.st.length := by rw [hw1]; simp only [setSt, List.length_set]
    -- occupants other than `v` are still active
    have hocc : ∀ i, ∀ b ∈ w.cells.getD i [], b ≠ v → (w1.stOf b).active = true := by
      intro i b hb hbv
      rw [hw1, stOf_setSt_ne _ _ hbv]
      exact ((hI.cellAll i).occ b hb).2.1
    unfold hitStep
    simp only [hact, Bool.not_true, Bool.false_eq_true, if_false, setHealth_eq s hpos, ← hw1]
    by_cases hact1 : (w1.stOf v).active = true
    · refine ⟨w1, by simp only [hact1, Bool.not_true, Bool.false_eq_true, if_false], ?_⟩
      refine ⟨by rw [hw1]; rfl, by rw [hw1]; rfl, by rw [hw1]; rfl, by rw [hw1]; rfl,
        by rw [hw1]; rfl, hlenS, hst1, ?_⟩
      intro i
      have : w1.cells = w.cells := by rw [hw1]; rfl
      rw [this]
      symm
      rw [List.filter_eq_self]
      intro b hb
      by_cases hbv : b = v
      · rw [hbv]; exact hact1
      · exact hocc i b hb hbv
    · have hact1' : (w1.stOf v).active = false := by simpa using hact1
      obtain ⟨hinG, hmem⟩ := (hI.agent v hv).placed hact
      have hcell1 : w1.cell (w.stOf v).pos = w.cell (w.stOf v).pos := by rw [hw1]; rfl
      have hidx1 : w1.idx (w.stOf v).pos = w.idx (w.stOf v).pos := by rw [hw1]; rfl
      have hcells1 : w1.cells = w.cells := by rw [hw1]; rfl
      simp only [hact1', Bool.not_false, if_true, hposv, remove, hcell1, hmem, hidx1, hcells1]
      refine ⟨_, rfl, ?_⟩
      refine ⟨by rw [hw1]; rfl, by rw [hw1]; rfl, by rw [hw1]; rfl, by rw [hw1]; rfl,
        by simp only [List.length_set], hlenS, hst1, ?_⟩
      intro i
      show (w.cells.set (w.idx (w.stOf v).pos) ((w.cell (w.stOf v).pos).erase v)).getD i [] =
        (w.cells.getD i []).filter fun b => (w1.stOf b).active
      by_cases hi : i = w.idx (w.stOf v).pos
      · subst hi
        rw [getD_set_same _ _ _ _ (by rw [hI.lenC]; exact idx_lt hinG)]
        unfold World.cell
        rw [(hI.cellAll _).nodup.erase_eq_filter]
        apply List.filter_congr
        intro b hb
        by_cases hbv : b = v
        · rw [hbv, hact1']; simp
        · rw [hocc _ b hb hbv]; simpa using hbv
      · rw [getD_set_ne _ _ _ _ _ (fun e => hi e.symm)]
        symm
        rw [List.filter_eq_self]
        intro b hb
        apply hocc i b hb
        intro hbv
        rw [hbv] at hb
        exact hi ((hI.cellAll i).occ v hb).2.2.2.symm
  · have hact' : (w.stOf v).active = false := by simpa using hact
    refine ⟨w, by unfold hitStep; simp only [hact', Bool.not_false, if_true], ?_⟩
    have hnp : ¬ 0 < (w.stOf v).health := by
      have := hI.actAll v
      rw [hact'] at this
      exact of_decide_eq_false this.symm
    have h0 := HitsRel.nil hI s
    refine ⟨rfl, rfl, rfl, rfl, rfl, rfl, ?_, h0.cells⟩
    intro b
    show w.stOf b = hitSt (w.stOf b) s ([v].count b)
    rw [count_single]
    by_cases h : b = v
    · subst h
      rw [if_pos rfl]
      have e : healthAfter (w.stOf b).health s 1 = (w.stOf b).health := healthAfter_of_not_pos s 1 hnp
      have e0 : hitSt (w.stOf b) s 1 = hitSt (w.stOf b) s 0 := by
        unfold hitSt; rw [e]; rfl
      rw [e0, hitSt_zero s (hI.actAll b)]
    · rw [if_neg h, hitSt_zero s (hI.actAll b)]


/-! ## the health loop -/

theorem applyHits_soundP {w : World} (hI : WInvP w) (s : Rat) (H : List Aid) (hH : ∀ v ∈ H, v < w.n) :
    ∃ w', applyHits w s H = .ok w' ∧ HitsRel w s H w' := by
  induction H generalizing w with
  | nil => exact ⟨w, rfl, HitsRel.nil hI s⟩
  | cons v vs ih =>
    obtain ⟨w1, h1, r1⟩ := hitStep_sound hI s (hH v List.mem_cons_self)
    have hn : w1.n = w.n := by simp only [n, r1.cfg]
    obtain ⟨w2, h2, r2⟩ := ih (r1.winv hI) (fun u hu => by rw [hn]; exact hH u (List.mem_cons_of_mem _ hu))
    refine ⟨w2, ?_, r1.trans r2⟩
    rw [applyHits, h1]; exact h2

/-! ## the ammunition filter -/

theorem lt_n_of_hasAmmo {w : World} {a : Aid} (hc : (w.cfgOf a).hasAmmo = true) : a < w.n := by
  by_contra h
  rw [cfgOf_default (Nat.le_of_not_lt h)] at hc
  cases hc

theorem setAmmo_sound {w : World} (hI : WInvP w) {a : Aid} (hc : (w.cfgOf a).hasAmmo = true) (k : Int)
    (hk0 : 0 ≤ k) (hk : k ≤ (w.stOf a).ammo) :
    w.setAmmo a ((w.stOf a).ammo - k) = w.setSt a { w.stOf a with ammo := (w.stOf a).ammo - k } ∧
    WInvP (w.setSt a { w.stOf a with ammo := (w.stOf a).ammo - k }) := by
  have ha := lt_n_of_hasAmmo hc
  refine ⟨?_, ?_⟩
  · unfold setAmmo
    rw [if_neg (by omega)]
  · obtain ⟨x, hx⟩ : ∃ x : AgentSt, x = { w.stOf a with ammo := (w.stOf a).ammo - k } := ⟨_, rfl⟩
    rw [← hx]
    have hsame : (w.setSt a x).stOf a = x := stOf_setSt_same _ _ _ (hI.lt_st ha)
    have hactb : ∀ b, ((w.setSt a x).stOf b).active = (w.stOf b).active := by
      intro b
      by_cases h : b = a
      · rw [h, hsame, hx]
      · rw [stOf_setSt_ne _ _ h]
    refine hI.transfer rfl rfl rfl rfl rfl (by simp only [setSt, List.length_set]) ?_ ?_ ?_ ?_
    · intro b _
      by_cases h : b = a
      · rw [h, hsame, hx]
      · rw [stOf_setSt_ne _ _ h]
    · intro b hb
      by_cases h : b = a
      · rw [h, hsame, hx]
        have hv := (hI.agent a ha).vit
        refine ⟨hv.h0, hv.h1, hv.act, ?_, ?_, hv.orient⟩
        · show 0 ≤ (w.stOf a).ammo - k
          omega
        · intro hc'
          have := hv.ammo1 hc'
          show (w.stOf a).ammo - k ≤ _
          omega
      · rw [stOf_setSt_ne _ _ h]; exact (hI.agent b hb).vit
    · intro b _ h
      rw [hactb] at h; exact h
    · intro i
      show w.cells.getD i [] = _
      symm
      rw [List.filter_eq_self]
      intro b hb
      rw [hactb]
      exact ((hI.cellAll i).occ b hb).2.1

theorem ammoFilter_soundP {w : World} (hI : WInvP w) (a : Aid) (L : List Aid) (t : Tape) :
    ∃ H w1 t1, w.ammoFilter a L t = .ok (H, w1, t1) ∧ WInvP w1 ∧ H.Subperm L ∧
      ((w.cfgOf a).hasAmmo = false → H = L ∧ w1 = w) ∧
      ((w.cfgOf a).hasAmmo = true →
          H.length = min L.length (w.stOf a).ammo.toNat ∧ ((L.length : Int) ≤ (w.stOf a).ammo → H = L) ∧
          (H.length : Int) ≤ (w.stOf a).ammo ∧
          w1 = w.setSt a { w.stOf a with ammo := (w.stOf a).ammo - (H.length : Int) }) := by
  by_cases hc : (w.cfgOf a).hasAmmo = true
  · have ha := lt_n_of_hasAmmo hc
    have h0 := (hI.agent a ha).vit.ammo0
    by_cases hgt : (L.length : Int) > (w.stOf a).ammo
    · obtain ⟨r, hr⟩ : ∃ r, r = Oracle.choiceNoRepl L (w.stOf a).ammo.toNat t := ⟨_, rfl⟩
      have hlen : r.1.length = min (w.stOf a).ammo.toNat L.length := by
        rw [hr]; exact Oracle.choiceNoRepl_length _ _ _
      have hsub : r.1.Subperm L := by rw [hr]; exact Oracle.choiceNoRepl_subperm _ _ _
      have hk : (r.1.length : Int) ≤ (w.stOf a).ammo := by omega
      obtain ⟨e1, e2⟩ := setAmmo_sound hI hc (r.1.length : Int) (by omega) hk
      refine ⟨r.1, _, r.2, ?_, e2, hsub, ?_, ?_⟩
      · unfold ammoFilter
        rw [if_pos hc]
        simp only []
        rw [if_pos hgt, if_neg (not_lt.mpr h0), ← hr, e1]
      · intro h; rw [hc] at h; cases h
      · intro _
        exact ⟨by rw [hlen]; exact Nat.min_comm _ _, fun h => absurd h (by omega), hk, rfl⟩
    · obtain ⟨e1, e2⟩ := setAmmo_sound hI hc (L.length : Int) (by omega) (by omega)
      refine ⟨L, _, t, ?_, e2, List.Subperm.refl L, ?_, ?_⟩
      · unfold ammoFilter
        rw [if_pos hc]
        simp only []
        rw [if_neg hgt, e1]
      · intro h; rw [hc] at h; cases h
      · intro _
        exact ⟨by omega, fun _ => rfl, by omega, rfl⟩
  · have hc' : (w.cfgOf a).hasAmmo = false := by simpa using hc
    refine ⟨L, w, t, ?_, hI, List.Subperm.refl L, fun _ => ⟨rfl, rfl⟩, ?_⟩
    · unfold ammoFilter
      rw [if_neg hc]
    · intro h; rw [hc'] at h; cases h


/-! ## filter + loop against the bookkeeping clause of the C11 specification -/

theorem specBook_of {w w1 w2 : World} {a : Aid} {H : List Aid} (hP1 : WInvP w1)
    (hrows : w1.rows = w.rows) (hcols : w1.cols = w.cols) (hov : w1.overlap = w.overlap)
    (hcfg : w1.cfg = w.cfg) (hcells : w1.cells = w.cells) (hlenS : w1.st.length = w.st.length)
    (hst : ∀ b, b ≠ a → w1.stOf b = w.stOf b)
    (hsta : w1.stOf a = if (w.cfgOf a).hasAmmo = true then
        { w.stOf a with ammo := (w.stOf a).ammo - (H.length : Int) } else w.stOf a)
    (hamm : (w.cfgOf a).hasAmmo = true → (H.length : Int) ≤ (w.stOf a).ammo)
    (haH : a ∉ H)
    (r : HitsRel w1 (w.cfgOf a).strength H w2) : specBook w a H w2 = true := by
  have hunhit : ∀ b, b ∉ H → w2.stOf b = w1.stOf b := by
    intro b hb
    rw [r.st' b, List.count_eq_zero_of_not_mem hb, hitSt_zero _ (hP1.actAll b)]
  unfold specBook
  simp only [Bool.and_eq_true, List.all_eq_true, allAgents, allCells, List.mem_range]
  refine ⟨⟨⟨?_, ?_⟩, ?_⟩, ?_⟩
  · simp only [sameStatic, Bool.and_eq_true, beq_iff_eq]
    exact ⟨⟨⟨⟨⟨(r.rows.trans hrows).symm, (r.cols.trans hcols).symm⟩, (r.ov.trans hov).symm⟩,
      (r.cfg.trans hcfg).symm⟩, by rw [r.lenC, hcells]⟩, (r.lenS.trans hlenS).symm⟩
  · by_cases hc : (w.cfgOf a).hasAmmo = true
    · rw [if_pos hc] at hsta
      rw [if_pos hc]
      simp only [Bool.and_eq_true, decide_eq_true_eq, beq_iff_eq]
      exact ⟨hamm hc, by rw [hunhit a haH, hsta]⟩
    · rw [if_neg hc] at hsta
      rw [if_neg hc]
      simp only [beq_iff_eq]
      rw [hunhit a haH, hsta]
  · intro b _
    by_cases hba : b = a
    · simp [hba]
    · simp only [Bool.or_eq_true, beq_iff_eq]
      right
      by_cases hcnt : H.count b = 0
      · rw [if_pos hcnt]
        simp only [beq_iff_eq]
        rw [hunhit b (List.count_eq_zero.mp hcnt), hst b hba]
      · rw [if_neg hcnt]
        simp only [beq_iff_eq]
        rw [r.st' b, hst b hba]
        rfl
  · intro i _
    simp only [beq_iff_eq]
    rw [r.cells i, hcells]
    apply List.filter_congr
    intro b hb
    by_cases hbH : b ∈ H
    · simp [hbH]
    · have : (w2.stOf b).active = true := by
        rw [hunhit b hbH]
        exact ((hP1.cellAll i).occ b (by rw [hcells]; exact hb)).2.1
      simp [hbH, this]

/-! ## the final statements, on the decidable invariant -/

/-- the sequential health loop never raises on a consistent world, keeps it consistent, and is
described by `HitsRel` -/
theorem applyHits_sound {w : World} (hI : w.WInv = true) (s : Rat) (H : List Aid)
    (hH : ∀ v ∈ H, v < w.n) :
    ∃ w', applyHits w s H = .ok w' ∧ w'.WInv = true ∧ HitsRel w s H w' := by
  have hP := (WInv_iff w).1 hI
  obtain ⟨w', h1, r⟩ := applyHits_soundP hP s H hH
  exact ⟨w', h1, (WInv_iff w').2 (r.winv hP), r⟩

/-- the ammunition filter: never raises on a consistent world, keeps it consistent; the kept
hits are a sub-selection of `L` -/
theorem ammoFilter_sound {w : World} (hI : w.WInv = true) (a : Aid) (L : List Aid) (t : Tape) :
    ∃ H w1 t1, w.ammoFilter a L t = .ok (H, w1, t1) ∧ w1.WInv = true ∧ H.Subperm L ∧
      ((w.cfgOf a).hasAmmo = false → H = L ∧ w1 = w) ∧
      ((w.cfgOf a).hasAmmo = true →
          H.length = min L.length (w.stOf a).ammo.toNat ∧ ((L.length : Int) ≤ (w.stOf a).ammo → H = L) ∧
          (H.length : Int) ≤ (w.stOf a).ammo ∧
          w1 = w.setSt a { w.stOf a with ammo := (w.stOf a).ammo - (H.length : Int) }) := by
  obtain ⟨H, w1, t1, h1, h2, h3⟩ := ammoFilter_soundP ((WInv_iff w).1 hI) a L t
  exact ⟨H, w1, t1, h1, (WInv_iff w1).2 h2, h3⟩

/-- ammunition filter + health loop together satisfy the bookkeeping part of the C11
specification -/
theorem tail_sound {w : World} (hI : w.WInv = true) (a : Aid) (ha : a < w.n) (L : List Aid) (t : Tape)
    (hL : ∀ v ∈ L, v < w.n ∧ v ≠ a) :
    ∃ H w1 t1 w2, w.ammoFilter a L t = .ok (H, w1, t1) ∧ applyHits w1 (w.cfgOf a).strength H = .ok w2 ∧
      w2.WInv = true ∧ specBook w a H w2 = true ∧ H.Subperm L ∧
      ((w.cfgOf a).hasAmmo = false → H = L) ∧
      ((w.cfgOf a).hasAmmo = true → H.length = min L.length (w.stOf a).ammo.toNat ∧
          ((L.length : Int) ≤ (w.stOf a).ammo → H = L)) := by
  have hP := (WInv_iff w).1 hI
  obtain ⟨H, w1, t1, hf, hP1, hsub, hno, hyes⟩ := ammoFilter_soundP hP a L t
  have haH : a ∉ H := fun h => (hL a (hsub.subset h)).2 rfl
  have hHn : ∀ v ∈ H, v < w.n := fun v hv => (hL v (hsub.subset hv)).1
  by_cases hc : (w.cfgOf a).hasAmmo = true
  · obtain ⟨hlen, hall, hk, hw1⟩ := hyes hc
    have hn1 : w1.n = w.n := by rw [hw1]; rfl
    obtain ⟨w2, h2, r⟩ := applyHits_soundP hP1 (w.cfgOf a).strength H (fun v hv => by rw [hn1]; exact hHn v hv)
    refine ⟨H, w1, t1, w2, hf, h2, (WInv_iff w2).2 (r.winv hP1), ?_, hsub,
      fun h => (by rw [hc] at h; cases h), fun _ => ⟨hlen, hall⟩⟩
    refine specBook_of hP1 (by rw [hw1]; rfl) (by rw [hw1]; rfl) (by rw [hw1]; rfl) (by rw [hw1]; rfl)
      (by rw [hw1]; rfl) (by rw [hw1]; simp only [setSt, List.length_set]) ?_ ?_ (fun _ => hk) haH r
    · intro b hb; rw [hw1]; exact stOf_setSt_ne _ _ hb
    · rw [if_pos hc, hw1]; exact stOf_setSt_same _ _ _ (hP.lt_st ha)
  · have hc' : (w.cfgOf a).hasAmmo = false := by simpa using hc
    obtain ⟨hHL, hw1⟩ := hno hc'
    subst hw1
    obtain ⟨w2, h2, r⟩ := applyHits_soundP hP1 (w1.cfgOf a).strength H hHn
    refine ⟨H, w1, t1, w2, hf, h2, (WInv_iff w2).2 (r.winv hP1), ?_, hsub,
      fun _ => hHL, fun h => absurd h hc⟩
    exact specBook_of hP1 rfl rfl rfl rfl rfl rfl (fun _ _ => rfl) (by rw [if_neg hc])
      (fun h => absurd h hc) haH r

/-- invariant preservation of the filter, stated on an observed outcome -/
theorem ammoFilter_WInv {w : World} (hI : w.WInv = true) {a : Aid} {L : List Aid} {t : Tape}
    {H : List Aid} {w1 : World} {t1 : Tape} (h : w.ammoFilter a L t = .ok (H, w1, t1)) :
    w1.WInv = true ∧ H.Subperm L ∧ w1.n = w.n := by
  obtain ⟨H', w1', t1', h', hI1, hsub, hno, hyes⟩ := ammoFilter_sound hI a L t
  rw [h] at h'
  injection h' with h'
  injection h' with e1 h'
  injection h' with e2 e3
  subst e1 e2
  refine ⟨hI1, hsub, ?_⟩
  by_cases hc : (w.cfgOf a).hasAmmo = true
  · rw [(hyes hc).2.2.2]; rfl
  · rw [(hno (by simpa using hc)).2]

/-- invariant preservation of the health loop, stated on an observed outcome -/
theorem applyHits_WInv {w : World} (hI : w.WInv = true) {s : Rat} {H : List Aid}
    (hH : ∀ v ∈ H, v < w.n) {w' : World} (h : applyHits w s H = .ok w') :
    w'.WInv = true ∧ HitsRel w s H w' := by
  obtain ⟨w'', h', hI', r⟩ := applyHits_sound hI s H hH
  rw [h] at h'
  injection h' with e
  subst e
  exact ⟨hI', r⟩

end World
end Abmarl
