import Abmarl.Spec.Corridor
import Abmarl.Lemmas.AttacksBook
import Abmarl.Lemmas.ManagersInv
/-!
# `MultiCorridor`: the invariant of every reachable state, `Lawful`, no-raise, reset

`Cor.Inv` is the Prop form of `Cor.invb` (Spec/Corridor.lean).  `reset` establishes it
(`reset_inv`), every item of every action dict preserves it (`step1_inv`: also the items of agents
that are already done — such an agent may walk back into the corridor —, hence also the state a
raising `step` leaves), the getters keep it.
-/
namespace Abmarl
namespace Cor

theorem getD_set {β : Type} (l : List β) (i j : Nat) (v d : β) :
    (l.set i v).getD j d = if i = j ∧ i < l.length then v else l.getD j d := by
  simp only [List.getD_eq_getElem?_getD, List.getElem?_set]
  by_cases h : i = j
  · subst h
    by_cases h2 : i < l.length
    · simp [h2]
    · have : l[i]? = none := by simp; omega
      simp [h2, this]
  · simp [h]

structure Inv (cfg : Cfg) (d : Dyn) : Prop where
  lp  : d.pos.length = cfg.n
  lc  : d.cor.length = cfg.endp
  lr  : d.rew.length = cfg.n
  inb : ∀ a < cfg.n, d.pos.getD a 0 < cfg.endp
  cor : ∀ q < cfg.endp, ∀ a < cfg.n,
          d.cor.getD q none = some a ↔ (d.pos.getD a 0 = q ∧ q + 1 ≠ cfg.endp)
  own : ∀ q < cfg.endp, ∀ a, d.cor.getD q none = some a → a < cfg.n

theorem invb_iff (cfg : Cfg) (d : Dyn) : invb cfg d = true ↔ Inv cfg d := by
  have hown : (∀ q < cfg.endp, (match d.cor.getD q none with
        | none => true
        | some a => decide (a < cfg.n)) = true) ↔ ∀ q < cfg.endp, ∀ a, d.cor.getD q none = some a → a < cfg.n := by
    constructor
    · intro h q hq a ha
      have := h q hq
      rw [ha] at this
      simpa using this
    · intro h q hq
      cases hc : d.cor.getD q none with
      | none => rfl
      | some a => simpa using h q hq a hc
  unfold invb
  simp only [Bool.and_eq_true, List.all_eq_true, List.mem_range, decide_eq_true_eq]
  constructor
  · rintro ⟨⟨⟨⟨⟨h1, h2⟩, h3⟩, h4⟩, h5⟩, h6⟩
    exact ⟨h1, h2, h3, h4, h5, hown.mp h6⟩
  · intro h
    exact ⟨⟨⟨⟨⟨h.lp, h.lc⟩, h.lr⟩, h.inb⟩, h.cor⟩, hown.mpr h.own⟩

theorem Inv.withRew {cfg : Cfg} {d : Dyn} (h : Inv cfg d) {rew' : List Int} (hr : rew'.length = d.rew.length) :
    Inv cfg { d with rew := rew' } :=
  ⟨h.lp, h.lc, hr.trans h.lr, h.inb, h.cor, h.own⟩

/-- the last cell never stores anybody -/
theorem Inv.last_none {cfg : Cfg} {d : Dyn} (h : Inv cfg d) {q : Nat} (hq : q + 1 = cfg.endp) :
    d.cor.getD q none = none := by
  cases hc : d.cor.getD q none with
  | none => rfl
  | some b =>
    have hb := h.own q (by omega) b hc
    exact absurd hq ((h.cor q (by omega) b hb).mp hc).2

/-- agent `a` leaves its cell for cell `p'` (free, or the last one): the invariant is kept -/
theorem move_inv {cfg : Cfg} {d : Dyn} (hI : Inv cfg d) {a : Aid} (ha : a < cfg.n) {p' : Nat}
    (hp' : p' < cfg.endp) (hfree : p' + 1 ≠ cfg.endp → d.cor.getD p' none = none)
    (hne : d.pos.getD a 0 ≠ p') {cor' : List (Option Aid)} (hlen : cor'.length = cfg.endp)
    (hc : ∀ q < cfg.endp, cor'.getD q none =
        if q = p' then (if p' + 1 = cfg.endp then none else some a)
        else if q = d.pos.getD a 0 then none else d.cor.getD q none)
    {rew' : List Int} (hr : rew'.length = cfg.n) :
    Inv cfg { pos := d.pos.set a p', cor := cor', rew := rew' } := by
  have hpos : ∀ b, (d.pos.set a p').getD b 0 = if b = a then p' else d.pos.getD b 0 := by
    intro b
    rw [getD_set]
    by_cases hba : b = a
    · subst hba; simp [hI.lp, ha]
    · have : ¬ a = b := fun h => hba h.symm
      simp [hba, this]
  refine ⟨by simp [hI.lp], hlen, hr, ?_, ?_, ?_⟩
  · intro b hb
    simp only [hpos]
    by_cases hba : b = a
    · simp [hba, hp']
    · simp [hba]; exact hI.inb b hb
  · intro q hq b hb
    simp only [hpos, hc q hq]
    by_cases hqp : q = p'
    · subst hqp
      by_cases hend : q + 1 = cfg.endp
      · simp [hend]
      · simp only [hend, if_false, if_true]
        by_cases hba : b = a
        · subst hba; simp [hend]
        · have hab : ¬ a = b := fun h => hba h.symm
          simp only [hba, if_false, Option.some.injEq, hab, false_iff, not_and, not_not]
          intro hpb
          have := (hI.cor q hq b hb).mpr ⟨hpb, hend⟩
          rw [hfree hend] at this
          cases this
    · simp only [hqp, if_false]
      by_cases hqa : q = d.pos.getD a 0
      · simp only [hqa, if_true]
        constructor
        · intro h; cases h
        · rintro ⟨h1, h2⟩
          by_cases hba : b = a
          · subst hba; simp only [if_true] at h1; exact absurd h1.symm (by rw [← hqa]; exact hqp)
          · simp only [hba, if_false] at h1
            have hb' := (hI.cor q hq b hb).mpr ⟨by rw [hqa]; exact h1, by rw [hqa]; exact h2⟩
            have ha' := (hI.cor q hq a ha).mpr ⟨hqa.symm, by rw [hqa]; exact h2⟩
            rw [hb'] at ha'
            exact absurd (Option.some.inj ha') hba
      · simp only [hqa, if_false]
        by_cases hba : b = a
        · subst hba
          simp only [if_true]
          constructor
          · intro h; exact absurd ((hI.cor q hq b hb).mp h).1.symm hqa
          · rintro ⟨h1, _⟩; exact absurd h1.symm hqp
        · simp only [hba, if_false]
          exact hI.cor q hq b hb
  · intro q hq b
    simp only [hc q hq]
    split
    · split
      · intro h; cases h
      · intro h; cases h; exact ha
    · split
      · intro h; cases h
      · exact hI.own q hq b

/-- what one item of the action dict can do -/
inductive Step1R (cfg : Cfg) (d : Dyn) (a : Aid) : Dyn → Prop where
  | rewOnly (rew' : List Int) : rew'.length = d.rew.length → Step1R cfg d a { d with rew := rew' }
  | move (p' : Nat) (cor' : List (Option Aid)) (rew' : List Int) :
      p' < cfg.endp → (p' + 1 ≠ cfg.endp → d.cor.getD p' none = none) → d.pos.getD a 0 ≠ p' →
      cor'.length = cfg.endp →
      (∀ q < cfg.endp, cor'.getD q none =
        if q = p' then (if p' + 1 = cfg.endp then none else some a)
        else if q = d.pos.getD a 0 then none else d.cor.getD q none) →
      rew'.length = d.rew.length →
      Step1R cfg d a { pos := d.pos.set a p', cor := cor', rew := rew' }

theorem addAt_length (r : List Int) (a : Aid) (x : Int) : (addAt r a x).length = r.length := by
  simp [addAt]

theorem step1_shape {cfg : Cfg} {d d' : Dyn} {x : Aid × Int} (hI : Inv cfg d)
    (h : step1 cfg d x = .ok d') : x.1 < cfg.n ∧ Step1R cfg d x.1 d' := by
  unfold step1 at h
  by_cases hn : cfg.n ≤ x.1
  · simp [hn] at h
  · simp only [hn, if_false] at h
    have ha : x.1 < cfg.n := Nat.lt_of_not_le hn
    refine ⟨ha, ?_⟩
    have hp := hI.inb x.1 ha
    obtain ⟨p, hpdef⟩ : ∃ p, p = d.pos.getD x.1 0 := ⟨_, rfl⟩
    rw [← hpdef] at h hp
    by_cases h0 : x.2 = 0
    · simp only [h0, if_true] at h
      by_cases hp0 : p = 0
      · simp only [hp0, if_true, Except.ok.injEq] at h
        rw [← h]; exact .rewOnly _ (addAt_length _ _ _)
      · simp only [hp0, if_false] at h
        cases hc : d.cor.getD (p - 1) none with
        | none =>
          simp only [hc, Except.ok.injEq] at h
          rw [← h]
          refine .move (p - 1) _ _ (by omega) (fun _ => hc) (by rw [← hpdef]; omega) (by simp [hI.lc]) ?_
            (addAt_length _ _ _)
          intro q hq
          rw [getD_set, getD_set, ← hpdef]
          have h1 : p - 1 + 1 ≠ cfg.endp := by omega
          by_cases hq1 : q = p - 1
          · subst hq1
            have hlt : p - 1 < d.cor.length := by rw [hI.lc]; omega
            simp [hlt, h1]
          · have : ¬ p - 1 = q := fun h => hq1 h.symm
            simp only [this, false_and, if_false, hq1]
            by_cases hq2 : q = p
            · subst hq2; simp [hI.lc, hp]
            · have : ¬ p = q := fun h => hq2 h.symm
              simp [this, hq2]
        | some b =>
          simp only [hc, Except.ok.injEq] at h
          rw [← h]; exact .rewOnly _ (by simp [addAt_length])
    · simp only [h0, if_false] at h
      by_cases h2 : x.2 = 2
      · simp only [h2, if_true] at h
        by_cases hl : d.cor.length ≤ p + 1
        · simp [hl] at h
        · simp only [hl, if_false] at h
          rw [hI.lc] at hl
          cases hc : d.cor.getD (p + 1) none with
          | none =>
            simp only [hc] at h
            by_cases hend : p + 1 = cfg.endp - 1
            · simp only [hend, if_true, Except.ok.injEq] at h
              rw [← h, ← hend]
              refine .move (p + 1) _ _ (by omega) (fun _ => hc) (by rw [← hpdef]; omega) (by simp [hI.lc]) ?_
                (addAt_length _ _ _)
              intro q hq
              rw [getD_set, ← hpdef]
              have h1 : p + 1 + 1 = cfg.endp := by omega
              by_cases hq1 : q = p + 1
              · subst hq1
                rw [if_neg (by omega), hc]
                simp [h1]
              · simp only [hq1, if_false]
                by_cases hq2 : q = p
                · subst hq2; simp [hI.lc, hp]
                · have : ¬ p = q := fun h => hq2 h.symm
                  simp [this, hq2]
            · simp only [hend, if_false, Except.ok.injEq] at h
              rw [← h]
              refine .move (p + 1) _ _ (by omega) (fun _ => hc) (by rw [← hpdef]; omega) (by simp [hI.lc]) ?_
                (addAt_length _ _ _)
              intro q hq
              rw [getD_set, getD_set, ← hpdef]
              have h1 : p + 1 + 1 ≠ cfg.endp := by omega
              by_cases hq1 : q = p + 1
              · subst hq1
                have hlt : p + 1 < d.cor.length := by rw [hI.lc]; omega
                simp [hlt, h1]
              · have : ¬ p + 1 = q := fun h => hq1 h.symm
                simp only [this, false_and, if_false, hq1]
                by_cases hq2 : q = p
                · subst hq2; simp [hI.lc, hp]
                · have : ¬ p = q := fun h => hq2 h.symm
                  simp [this, hq2]
          | some b =>
            simp only [hc, Except.ok.injEq] at h
            rw [← h]; exact .rewOnly _ (by simp [addAt_length])
      · simp only [h2, if_false] at h
        by_cases h1 : x.2 = 1
        · simp only [h1, if_true, Except.ok.injEq] at h
          rw [← h]; exact .rewOnly _ (addAt_length _ _ _)
        · simp only [h1, if_false, Except.ok.injEq] at h
          rw [← h]; exact .rewOnly d.rew rfl

theorem Step1R.inv {cfg : Cfg} {d d' : Dyn} {a : Aid} (hI : Inv cfg d) (ha : a < cfg.n)
    (h : Step1R cfg d a d') : Inv cfg d' := by
  cases h with
  | rewOnly rew' hr => exact hI.withRew hr
  | move p' cor' rew' h1 h2 h3 h4 h5 h6 => exact move_inv hI ha h1 h2 h3 h4 h5 (h6.trans hI.lr)

theorem Step1R.frame {cfg : Cfg} {d d' : Dyn} {a : Aid} (h : Step1R cfg d a d') (b : Aid) (hb : b ≠ a) :
    d'.pos.getD b 0 = d.pos.getD b 0 := by
  cases h with
  | rewOnly rew' hr => rfl
  | move p' cor' rew' h1 h2 h3 h4 h5 h6 =>
    simp only [getD_set]
    have : ¬ a = b := fun h => hb h.symm
    simp [this]

/-- **every item of every action dict keeps the invariant** -/
theorem step1_inv {cfg : Cfg} {d d' : Dyn} {x : Aid × Int} (hI : Inv cfg d)
    (h : step1 cfg d x = .ok d') : Inv cfg d' :=
  let ⟨ha, hs⟩ := step1_shape hI h
  hs.inv hI ha

theorem stepLoop_inv {cfg : Cfg} (acts : List (Aid × Int)) : ∀ {d : Dyn}, Inv cfg d →
    Inv cfg (stepLoop cfg d acts).1 := by
  induction acts with
  | nil => intro d h; exact h
  | cons x xs ih =>
    intro d h
    simp only [stepLoop]
    cases hs : step1 cfg d x with
    | error e => exact h
    | ok d' => exact ih (step1_inv h hs)

theorem stepLoop_frame {cfg : Cfg} (acts : List (Aid × Int)) : ∀ {d : Dyn}, Inv cfg d →
    ∀ b, b ∉ acts.map (·.1) → (stepLoop cfg d acts).1.pos.getD b 0 = d.pos.getD b 0 := by
  induction acts with
  | nil => intro d _ b _; rfl
  | cons x xs ih =>
    intro d h b hb
    simp only [List.map_cons, List.mem_cons, not_or] at hb
    simp only [stepLoop]
    cases hs : step1 cfg d x with
    | error e => rfl
    | ok d' =>
      obtain ⟨ha, hr⟩ := step1_shape h hs
      simp only
      rw [ih (hr.inv h ha) b hb.2, hr.frame b hb.1]

/-- an item for an agent of the simulation that is not done is processed without exception,
whatever the action value -/
theorem step1_ok {cfg : Cfg} {d : Dyn} (hI : Inv cfg d) (x : Aid × Int) (ha : x.1 < cfg.n)
    (hd : doneOf cfg d x.1 = false) : ∃ d', step1 cfg d x = .ok d' := by
  have hp := hI.inb x.1 ha
  have hd' : d.pos.getD x.1 0 + 1 ≠ cfg.endp := by simpa [doneOf] using hd
  unfold step1
  have hn : ¬ cfg.n ≤ x.1 := Nat.not_le.mpr ha
  simp only [hn, if_false]
  by_cases h0 : x.2 = 0
  · simp only [h0, if_true]
    split
    · exact ⟨_, rfl⟩
    · split <;> exact ⟨_, rfl⟩
  · simp only [h0, if_false]
    by_cases h2 : x.2 = 2
    · simp only [h2, if_true]
      have : ¬ d.cor.length ≤ d.pos.getD x.1 0 + 1 := by rw [hI.lc]; omega
      simp only [this, if_false]
      split
      · split <;> exact ⟨_, rfl⟩
      · exact ⟨_, rfl⟩
    · simp only [h2, if_false]
      split <;> exact ⟨_, rfl⟩

/-- **a step with items for distinct agents that are not done never raises** -/
theorem stepLoop_ok {cfg : Cfg} (acts : List (Aid × Int)) : ∀ {d : Dyn}, Inv cfg d →
    (acts.map (·.1)).Nodup → (∀ x ∈ acts, x.1 < cfg.n ∧ doneOf cfg d x.1 = false) →
    (stepLoop cfg d acts).2 = none := by
  induction acts with
  | nil => intro d _ _ _; rfl
  | cons x xs ih =>
    intro d h hnd hall
    simp only [List.map_cons, List.nodup_cons] at hnd
    obtain ⟨hx1, hx2⟩ := hall x (List.mem_cons_self ..)
    obtain ⟨d', hs⟩ := step1_ok h x hx1 hx2
    simp only [stepLoop, hs]
    obtain ⟨ha, hr⟩ := step1_shape h hs
    apply ih (hr.inv h ha) hnd.2
    intro y hy
    obtain ⟨hy1, hy2⟩ := hall y (List.mem_cons_of_mem _ hy)
    refine ⟨hy1, ?_⟩
    have hne : y.1 ≠ x.1 := by
      intro he
      exact hnd.1 (by rw [← he]; exact List.mem_map_of_mem hy)
    simp only [doneOf] at hy2 ⊢
    rw [hr.frame y.1 hne]
    exact hy2

/-! ## `reset` -/

theorem place_length (cor : List (Option Aid)) (ps : List Nat) (i : Aid) :
    (place cor ps i).length = cor.length := by
  induction ps generalizing cor i with
  | nil => rfl
  | cons p ps ih => simp [place, ih]

theorem place_getD (ps : List Nat) : ∀ (cor : List (Option Aid)) (i : Aid), ps.Nodup →
    (∀ p ∈ ps, p < cor.length) → ∀ q,
    (place cor ps i).getD q none = if q ∈ ps then some (i + ps.idxOf q) else cor.getD q none := by
  induction ps with
  | nil => intro cor i _ _ q; simp [place]
  | cons p ps ih =>
    intro cor i hnd hlt q
    simp only [List.nodup_cons] at hnd
    simp only [place]
    rw [ih (cor.set p (some i)) (i + 1) hnd.2 (by intro r hr; simp; exact hlt r (List.mem_cons_of_mem _ hr)) q]
    by_cases hqp : q = p
    · subst hqp
      have hlt' := hlt q (List.mem_cons_self ..)
      simp [hnd.1, getD_set, hlt']
    · have hpq : ¬ p = q := fun h => hqp h.symm
      by_cases hq : q ∈ ps
      · simp only [hq, if_true, List.mem_cons, or_true]
        rw [List.idxOf_cons_ne _ hpq]
        simp only [Option.some.injEq]
        exact Nat.add_right_comm i 1 _
      · simp [hq, hqp, getD_set, hpq]

theorem reset_shape {cfg : Cfg} {s s' : St} (h : reset cfg s = .ok s') :
    2 ≤ cfg.endp ∧ cfg.n ≤ cfg.endp - 1 ∧
    s' = { dyn := some { pos := (Oracle.choiceNoRepl (List.range (cfg.endp - 1)) cfg.n s.tape).1,
                         cor := place (List.replicate cfg.endp none)
                                  (Oracle.choiceNoRepl (List.range (cfg.endp - 1)) cfg.n s.tape).1 0,
                         rew := List.replicate cfg.n 0 },
           tape := (Oracle.choiceNoRepl (List.range (cfg.endp - 1)) cfg.n s.tape).2 } := by
  unfold reset at h
  by_cases h1 : cfg.endp ≤ 1
  · simp [h1] at h
  · simp only [h1, if_false] at h
    by_cases h2 : cfg.endp - 1 < cfg.n
    · simp [h2] at h
    · simp only [h2, if_false, Except.ok.injEq] at h
      exact ⟨by omega, by omega, h.symm⟩

/-- what the draw of `reset` looks like: `n` pairwise different cells, none of them the last one -/
theorem draw_facts (cfg : Cfg) (t : Tape) (hn : cfg.n ≤ cfg.endp - 1) :
    (Oracle.choiceNoRepl (List.range (cfg.endp - 1)) cfg.n t).1.length = cfg.n ∧
    (Oracle.choiceNoRepl (List.range (cfg.endp - 1)) cfg.n t).1.Nodup ∧
    ∀ p ∈ (Oracle.choiceNoRepl (List.range (cfg.endp - 1)) cfg.n t).1, p < cfg.endp - 1 := by
  have hsub : (Oracle.choiceNoRepl (List.range (cfg.endp - 1)) cfg.n t).1.Subperm (List.range (cfg.endp - 1)) :=
    Oracle.choiceNoRepl_subperm _ _ _
  refine ⟨?_, ?_, ?_⟩
  · have := Oracle.choiceNoRepl_length (List.range (cfg.endp - 1)) cfg.n t
    simp only [List.length_range] at this
    omega
  · obtain ⟨l, hp, hs⟩ := hsub
    exact hp.nodup_iff.mp (hs.nodup List.nodup_range)
  · intro p hp'
    obtain ⟨l, hp, hs⟩ := hsub
    exact List.mem_range.mp (hs.subset (hp.mem_iff.mpr hp'))

/-- **`reset` establishes the invariant**, with every reward 0 and nobody done -/
theorem reset_inv {cfg : Cfg} {s s' : St} (h : reset cfg s = .ok s') :
    ∃ d, s'.dyn = some d ∧ Inv cfg d ∧ d.rew = List.replicate cfg.n 0 ∧
      ∀ a < cfg.n, doneOf cfg d a = false := by
  obtain ⟨h2, hn, rfl⟩ := reset_shape h
  obtain ⟨hlen, hnd, hlt⟩ := draw_facts cfg s.tape hn
  obtain ⟨locs, hlocs⟩ : ∃ l, l = (Oracle.choiceNoRepl (List.range (cfg.endp - 1)) cfg.n s.tape).1 := ⟨_, rfl⟩
  rw [← hlocs] at hlen hnd hlt
  simp only [← hlocs]
  have hget : ∀ a < cfg.n, locs.getD a 0 ∈ locs := by
    intro a ha
    rw [List.getD_eq_getElem?_getD, List.getElem?_eq_getElem (by omega)]
    simp
  have hcor : ∀ q, (place (List.replicate cfg.endp none) locs 0).getD q none =
      if q ∈ locs then some (locs.idxOf q) else none := by
    intro q
    rw [place_getD locs _ 0 hnd (by intro p hp; simp; have := hlt p hp; omega) q]
    have : (List.replicate cfg.endp (none : Option Aid)).getD q none = none := by
      rw [List.getD_eq_getElem?_getD, List.getElem?_replicate]
      split <;> rfl
    rw [this]
    simp
  refine ⟨_, rfl, ⟨hlen, by simp [place_length], by simp, ?_, ?_, ?_⟩, rfl, ?_⟩
  · intro a ha
    have := hlt _ (hget a ha)
    show locs.getD a 0 < cfg.endp
    omega
  · intro q hq a ha
    show (place (List.replicate cfg.endp none) locs 0).getD q none = some a ↔ (locs.getD a 0 = q ∧ q + 1 ≠ cfg.endp)
    rw [hcor q]
    have hal : a < locs.length := by omega
    constructor
    · intro hh
      by_cases hm : q ∈ locs
      · simp only [hm, if_true, Option.some.injEq] at hh
        refine ⟨?_, by have := hlt q hm; omega⟩
        rw [← hh, List.getD_eq_getElem?_getD, List.getElem?_eq_getElem (List.idxOf_lt_length_iff.mpr hm)]
        simp
      · simp [hm] at hh
    · rintro ⟨h1, _⟩
      have hm : q ∈ locs := by rw [← h1]; exact hget a ha
      simp only [hm, if_true, Option.some.injEq]
      rw [← h1, List.getD_eq_getElem?_getD, List.getElem?_eq_getElem hal]
      simp only [Option.getD_some]
      exact hnd.idxOf_getElem a hal
  · intro q hq a
    show (place (List.replicate cfg.endp none) locs 0).getD q none = some a → a < cfg.n
    rw [hcor q]
    by_cases hm : q ∈ locs
    · simp only [hm, if_true, Option.some.injEq]
      intro hh
      rw [← hh, ← hlen]
      exact List.idxOf_lt_length_iff.mpr hm
    · simp [hm]
  · intro a ha
    have := hlt _ (hget a ha)
    simp only [doneOf, decide_eq_false_iff_not]
    show ¬ locs.getD a 0 + 1 = cfg.endp
    omega

/-- **`reset` forgets** (C08): the state after `reset` is a function of the configuration and the tape
only — whatever positions, corridor, rewards the object had (or whether it had been reset at all) -/
theorem reset_forgets (cfg : Cfg) (s1 s2 : St) (ht : s1.tape = s2.tape) : reset cfg s1 = reset cfg s2 := by
  unfold reset
  rw [ht]

/-! ## `Lawful` -/

theorem getReward_shape {cfg : Cfg} {s s' : St} {a : Aid} {x : Int} (h : getReward cfg s a = .ok (x, s')) :
    ∃ d, s.dyn = some d ∧ a < cfg.n ∧ x = d.rew.getD a 0 ∧
      s' = { s with dyn := some { d with rew := d.rew.set a 0 } } := by
  unfold getReward at h
  cases hd : s.dyn with
  | none => simp [hd] at h
  | some d =>
    simp only [hd] at h
    by_cases hn : cfg.n ≤ a
    · simp [hn] at h
    · simp only [hn, if_false, Except.ok.injEq, Prod.mk.injEq] at h
      exact ⟨d, rfl, Nat.lt_of_not_le hn, h.1.symm, h.2.symm⟩

theorem getReward_error {cfg : Cfg} {s : St} {a : Aid} {e : GErr} (h : getReward cfg s a = .error e) :
    pendingOf cfg s a = 0 := by
  unfold getReward at h
  unfold pendingOf
  cases hd : s.dyn with
  | none => rfl
  | some d =>
    simp only [hd] at h ⊢
    by_cases hn : cfg.n ≤ a
    · simp [hn]
    · simp [hn] at h

/-- **`Lawful`** for `MultiCorridor`: every `end`, every number of agents -/
theorem cor_lawful (cfg : Cfg) : Lawful (toSimIface cfg) where
  obs_done := by intros; rfl
  obs_allDone := by intros; rfl
  obs_next := by intros; rfl
  obs_pending := by intros; rfl
  rew_done := by
    intro s a b
    simp only [toSimIface]
    cases h : getReward cfg s a with
    | error e => rfl
    | ok r =>
      obtain ⟨x, s'⟩ := r
      obtain ⟨d, hd, _, _, rfl⟩ := getReward_shape h
      simp only [getDone, hd, doneOf]
  rew_allDone := by
    intro s a
    simp only [toSimIface]
    cases h : getReward cfg s a with
    | error e => rfl
    | ok r =>
      obtain ⟨x, s'⟩ := r
      obtain ⟨d, hd, _, _, rfl⟩ := getReward_shape h
      simp only [getAllDone, hd, allDoneOf]; rfl
  rew_next := by intros; rfl
  rew_val := by
    intro s a
    simp only [toSimIface]
    cases h : getReward cfg s a with
    | error e => simp only; exact (getReward_error h).symm
    | ok r =>
      obtain ⟨x, s'⟩ := r
      obtain ⟨d, hd, ha, hx, rfl⟩ := getReward_shape h
      have : ¬ cfg.n ≤ a := Nat.not_le.mpr ha
      simp only [pendingOf, hd, this, if_false, hx]
  rew_pending := by
    intro s a b
    simp only [toSimIface]
    cases h : getReward cfg s a with
    | error e =>
      simp only
      by_cases hb : b = a
      · subst hb; simp only [if_true]; exact getReward_error h
      · simp [hb]
    | ok r =>
      obtain ⟨x, s'⟩ := r
      obtain ⟨d, hd, ha, hx, rfl⟩ := getReward_shape h
      simp only [pendingOf, hd, getD_set]
      by_cases hb : b = a
      · subst hb
        by_cases hn : cfg.n ≤ b
        · simp [hn]
        · by_cases hl : b < d.rew.length
          · simp [hn, hl]
          · have : d.rew.getD b 0 = 0 := by
              rw [List.getD_eq_getElem?_getD]
              have : d.rew[b]? = none := List.getElem?_eq_none (Nat.le_of_not_lt hl)
              simp [this]
            simp [hn, hl, this]
      · have : ¬ a = b := fun h => hb h.symm
        simp [hb, this]

/-- `WF` for the two managers that can drive `MultiCorridor` (it is not a `DynamicOrderSimulation`);
the turn-based manager needs an agent -/
theorem cor_WF (cfg : Cfg) (k : MKind) (hk : k ≠ .dynamic) (hl : k = .turnBased → 0 < cfg.n) :
    WF (toSimIface cfg) k where
  lawful := cor_lawful cfg
  turn := by
    intro hk' he
    have : 0 ∈ (toSimIface cfg).learners := (mem_learners _ 0).mpr ⟨hl hk', rfl⟩
    rw [he] at this; cases this
  dyn := fun h => absurd h hk

end Cor
end Abmarl
