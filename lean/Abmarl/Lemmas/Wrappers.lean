import Abmarl.Spec.Wrappers
import Abmarl.Lemmas.Managers
import Abmarl.Lemmas.ManagersInv
import Abmarl.Lemmas.Ravel
import Abmarl.Lemmas.Flatten
/-!
# Helper lemmas for C06: the SAR functor, `unflatten` is total on arrays of the right length,
equality on points is lawful, the `unwrapped` chain
-/
namespace Abmarl

/-! ## one call of the wrapped simulation = the decoded call on the inner simulation -/

section sar
variable {σ α α' ω ω' ι : Type}

/-- **per-call commuting**: a call on the SAR-wrapped simulation is the decoded call on the inner
simulation, its returned value seen through `enc`; an undecodable action raises and nothing moves -/
theorem sarCall_eq (S : SimIface σ α ω ι) (dec : Aid → α' → Except Err α) (enc : Aid → ω → ω')
    (s : σ) (c : WCall α') :
    sarCall S dec enc s c =
      (encRet enc (simCallE S s (decodeCall dec c)).1, (simCallE S s (decodeCall dec c)).2.1,
        (simCallE S s (decodeCall dec c)).2.2) := by
  cases c with
  | reset => rfl
  | step acts =>
    simp only [sarCall, decodeCall]
    cases decodeAll dec acts with
    | ok d => rfl
    | error e => rfl
  | obs a => rfl
  | reward a => rfl
  | done a => rfl
  | allDone => rfl
  | info a => rfl

/-- the trace of a wrapped run seen from outside: values through `enc`, ghosts unchanged -/
def encTrace (enc : Aid → ω → ω') (tr : List (SRet ω ι × Option (List (Aid × α)))) :
    List (SRet ω' ι × Option (List (Aid × α))) :=
  tr.map fun e => (encRet enc e.1, e.2)

/-- **C06 commuting, every history** (undecodable actions included) -/
theorem runWith_sar (S : SimIface σ α ω ι) (dec : Aid → α' → Except Err α) (enc : Aid → ω → ω') :
    ∀ (cs : List (WCall α')) (s : σ),
      runWith (sarCall S dec enc) s cs =
        (encTrace enc (runWith (simCallE S) s (cs.map (decodeCall dec))).1,
         (runWith (simCallE S) s (cs.map (decodeCall dec))).2)
  | [], _ => rfl
  | c :: cs, s => by
    simp only [runWith, List.map_cons, sarCall_eq, runWith_sar S dec enc cs, encTrace]

/-- decode a whole history (fails at the first undecodable action) -/
def decodeCalls (dec : Aid → α' → Except Err α) : List (WCall α') → Except Err (List (WCall α))
  | [] => .ok []
  | c :: cs =>
    match decodeCall dec c with
    | .error e => .error e
    | .ok d =>
      match decodeCalls dec cs with
      | .error e => .error e
      | .ok ds => .ok (d :: ds)

theorem runWith_simCallE_ok (S : SimIface σ α ω ι) (dec : Aid → α' → Except Err α) :
    ∀ (cs : List (WCall α')) (ds : List (WCall α)) (s : σ), decodeCalls dec cs = .ok ds →
      runWith (simCallE S) s (cs.map (decodeCall dec)) = runWith (simCall S) s ds
  | [], ds, s, h => by
    simp only [decodeCalls, Except.ok.injEq] at h
    subst h; rfl
  | c :: cs, ds, s, h => by
    simp only [decodeCalls] at h
    cases hc : decodeCall dec c with
    | error e => simp [hc] at h
    | ok d =>
      cases hcs : decodeCalls dec cs with
      | error e => simp [hc, hcs] at h
      | ok ds' =>
        simp only [hc, hcs, Except.ok.injEq] at h
        subst h
        simp only [List.map_cons, runWith, hc, simCallE, runWith_simCallE_ok S dec cs ds' _ hcs]

/-- the ghost of a plain call is the argument of `step` -/
theorem simCall_ghost (S : SimIface σ α ω ι) (s : σ) (c : WCall α) : (simCall S s c).2.2 = c.stepArgs := by
  cases c <;> rfl

theorem runWith_simCall_ghosts (S : SimIface σ α ω ι) :
    ∀ (ds : List (WCall α)) (s : σ),
      (runWith (simCall S) s ds).1.map (·.2) = ds.map WCall.stepArgs
  | [], _ => rfl
  | d :: ds, s => by
    simp only [runWith, List.map_cons, simCall_ghost, runWith_simCall_ghosts S ds]

/-! ### the total `SimIface` agrees with the `Except`-valued step -/

theorem sarSim_step_ok (S : SimIface σ α ω ι) (dec : Aid → α' → Except Err α) (enc : Aid → ω → ω')
    (s : σ) (acts : List (Aid × α')) (d : List (Aid × α)) (h : decodeAll dec acts = .ok d) :
    (sarSim S dec enc).step s acts = S.step s d := by
  simp only [sarSim, sarStep, h]

theorem sarSim_step_err (S : SimIface σ α ω ι) (dec : Aid → α' → Except Err α) (enc : Aid → ω → ω')
    (s : σ) (acts : List (Aid × α')) (e : Err) (h : decodeAll dec acts = .error e) :
    (sarSim S dec enc).step s acts = s := by
  simp only [sarSim, sarStep, h]

/-- the state of the total `SimIface` always is the state of the faithful (raising) wrapper -/
theorem sarSim_state (S : SimIface σ α ω ι) (dec : Aid → α' → Except Err α) (enc : Aid → ω → ω')
    (s : σ) (c : WCall α') :
    (simCall (sarSim S dec enc) s c).2.1 = (sarCall S dec enc s c).2.1 := by
  cases c with
  | step acts =>
    simp only [simCall, sarCall]
    cases h : decodeAll dec acts with
    | ok d => simp [sarSim_step_ok S dec enc s acts d h]
    | error e => simp [sarSim_step_err S dec enc s acts e h]
  | reset => rfl
  | obs a => rfl
  | reward a => rfl
  | done a => rfl
  | allDone => rfl
  | info a => rfl

/-- and its returned value too, whenever the wrapper does not raise -/
theorem sarSim_call_ok (S : SimIface σ α ω ι) (dec : Aid → α' → Except Err α) (enc : Aid → ω → ω')
    (s : σ) (c : WCall α') (d : WCall α) (h : decodeCall dec c = .ok d) :
    (simCall (sarSim S dec enc) s c).1 = (sarCall S dec enc s c).1 ∧
    (simCall (sarSim S dec enc) s c).2.1 = (sarCall S dec enc s c).2.1 := by
  refine ⟨?_, sarSim_state S dec enc s c⟩
  cases c with
  | step acts =>
    simp only [decodeCall] at h
    cases hd : decodeAll dec acts with
    | ok d' => simp [simCall, sarCall, hd]
    | error e => simp [hd] at h
  | reset => rfl
  | obs a => rfl
  | reward a => rfl
  | done a => rfl
  | allDone => rfl
  | info a => rfl

/-! ### functor lemmas: frame conditions and reset-forgetting pass through the wrapper -/

theorem sarSim_lawful {S : SimIface σ α ω ι} (hS : Lawful S) (dec : Aid → α' → Except Err α)
    (enc : Aid → ω → ω') : Lawful (sarSim S dec enc) where
  obs_done := hS.obs_done
  obs_allDone := hS.obs_allDone
  obs_next := hS.obs_next
  obs_pending := hS.obs_pending
  rew_done := hS.rew_done
  rew_allDone := hS.rew_allDone
  rew_next := hS.rew_next
  rew_val := hS.rew_val
  rew_pending := hS.rew_pending

theorem sarSim_WF {S : SimIface σ α ω ι} {k : MKind} (hW : WF S k) (dec : Aid → α' → Except Err α)
    (enc : Aid → ω → ω') : WF (sarSim S dec enc) k where
  lawful := sarSim_lawful hW.lawful dec enc
  turn := hW.turn
  dyn := hW.dyn

end sar

/-! ## equality on points is lawful -/

instance : LawfulBEq Pt where
  rfl := by intro p; exact Pt.beq_refl p
  eq_of_beq := by intro p q h; exact Pt.eq_of_beq p q h

/-! ## `unflatten` succeeds on every array of the right length -/

theorem split_lengths : ∀ (ds : List Nat) (x : List Num), ds ≠ [] → x.length = sum ds →
    (split ds x).map List.length = ds
  | [], _, h, _ => absurd rfl h
  | [d], x, _, hl => by
    simp only [sum] at hl
    simp only [split, List.map_cons, List.map_nil]
    congr 1
  | d :: d' :: ds, x, _, hl => by
    simp only [sum] at hl
    have ih := split_lengths (d' :: ds) (x.drop d) (by simp) (by simp only [List.length_drop, sum]; omega)
    simp only [split, List.map_cons, List.length_take, ih]
    congr 1
    omega

mutual
theorem unflatten_total : ∀ (s : Space) (x : List Num), wfF s = true → x.length = flatdim s →
    ∃ p, unflatten s x = some p
  | .discrete n st, x, _, hl => by
    simp only [flatdim] at hl
    cases x with
    | nil => simp at hl
    | cons v vs => exact ⟨_, rfl⟩
  | .multiBinary n, x, _, _ => ⟨_, rfl⟩
  | .multiDiscrete nvec, x, _, _ => ⟨_, rfl⟩
  | .box shape lo hi wide, x, _, hl => by
    simp only [flatdim] at hl
    exact ⟨_, by rw [unflatten, if_pos hl]⟩
  | .fbox shape lo hi, x, _, hl => by
    simp only [flatdim] at hl
    exact ⟨_, by rw [unflatten, if_pos hl]⟩
  | .ubox shape, x, hw, _ => by simp [wfF] at hw
  | .dict keys ss, x, hw, hl => by
    simp only [wfF, Bool.and_eq_true, Bool.not_eq_true', List.isEmpty_eq_false_iff] at hw
    simp only [flatdim] at hl
    have hne := flatdimL_ne_nil ss hw.1.2
    obtain ⟨ps, hps⟩ := unflattenL_total ss (split (flatdimL ss) x) hw.2 (split_lengths _ x hne hl)
    exact ⟨_, by rw [unflatten, hps]; rfl⟩
  | .tuple ss, x, hw, hl => by
    simp only [wfF, Bool.and_eq_true, Bool.not_eq_true', List.isEmpty_eq_false_iff] at hw
    simp only [flatdim] at hl
    have hne := flatdimL_ne_nil ss hw.1
    obtain ⟨ps, hps⟩ := unflattenL_total ss (split (flatdimL ss) x) hw.2 (split_lengths _ x hne hl)
    exact ⟨_, by rw [unflatten, hps]; rfl⟩
theorem unflattenL_total : ∀ (ss : List Space) (cs : List (List Num)), wfFL ss = true →
    cs.map List.length = flatdimL ss → ∃ ps, unflattenL ss cs = some ps
  | [], _, _, _ => ⟨[], rfl⟩
  | _ :: _, [], _, h => by simp [flatdimL] at h
  | s :: ss, c :: cs, hw, h => by
    simp only [wfFL, Bool.and_eq_true] at hw
    simp only [List.map_cons, flatdimL, List.cons.injEq] at h
    obtain ⟨p, hp⟩ := unflatten_total s c hw.1 h.1
    obtain ⟨ps, hps⟩ := unflattenL_total ss cs hw.2 h.2
    exact ⟨p :: ps, by simp only [unflattenL, hp, hps]⟩
end

/-! ## the `unwrapped` chain -/

/-- **C06, `unwrapped`**: whatever the stack, `unwrapped` of the outermost wrapper is the base -/
theorem unwrapped_wrapAll : ∀ (stack : List Layer) (b : Nat), stack ≠ [] →
    (wrapAll stack (.base b)).unwrapped? = some (.base b)
  | [], _, h => absurd rfl h
  | [l], b, _ => rfl
  | l :: l' :: ls, b, _ => by
    have ih := unwrapped_wrapAll (l' :: ls) b (by simp)
    simp only [wrapAll] at ih ⊢
    rw [SimObj.unwrapped?, ih]

theorem posOf_base : ∀ (stack : List Layer) (b : Nat),
    posOf (.base b) (wrapAll stack (.base b)).chain = stack.length
  | [], b => by simp [wrapAll, SimObj.chain, posOf]
  | l :: ls, b => by
    have ih := posOf_base ls b
    simp only [wrapAll, SimObj.chain, posOf, ih, List.length_cons]
    have hne : ¬ (SimObj.wrap l (wrapAll ls (.base b)) = .base b) := by intro h; cases h
    simp only [hne, if_false]
    have : ¬ ((ls.length : Int) < 0) := by omega
    simp only [this, if_false]
    omega

theorem unwrappedIdxAux_wrapAll (ch : List SimObj) : ∀ (stack : List Layer) (b : Nat),
    unwrappedIdxAux ch (wrapAll stack (.base b)) = List.replicate stack.length (posOf (.base b) ch)
  | [], b => rfl
  | l :: ls, b => by
    have h := unwrapped_wrapAll (l :: ls) b (by simp)
    simp only [wrapAll] at h
    simp only [wrapAll, unwrappedIdxAux, h, unwrappedIdxAux_wrapAll ch ls b, List.length_cons,
      List.replicate_succ]

end Abmarl
