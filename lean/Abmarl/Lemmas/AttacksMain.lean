import Abmarl.Lemmas.AttacksBook
import Abmarl.Lemmas.AttacksWin
/-!
# C11 lemmas, part 4: provenance of the hits (any action, any tape) and assembly of
`process_action`

* `determineAttack_mem` — whatever an actor returns (for **any** action, also outside the action
  space, and any tape) was read from a cell of the grid and is not the attacker; with the
  invariant: a real agent index.  This is all the health loop needs in order to keep the
  invariant (`processAttack_WInv`) and to satisfy the bookkeeping clause (`processAttack_book`).
* `processAttack_of_SelOK` — `_determine_attack` returning a list that satisfies `SelOK`
  makes the whole call satisfy `AttackSpec`.
-/
namespace Abmarl
namespace World

/-! ## Provenance -/

theorem basicCriteria_true {cfg : AttackCfg} {w : World} {a b : Aid} {t t' : Tape}
    (h : basicCriteria cfg w a b t = .ok (true, t')) : b ≠ a := by
  intro hba
  unfold basicCriteria at h
  rw [if_pos hba] at h
  cases h

theorem scanCands_mem {cfg : AttackCfg} {w : World} {a : Aid} (C : List Aid) (t : Tape) {S : List Aid}
    {t' : Tape} (h : scanCands cfg w a C t = .ok (S, t')) : ∀ x ∈ S, x ∈ C ∧ x ≠ a := by
  induction C generalizing t S t' with
  | nil =>
    simp only [scanCands] at h
    injection h with h; injection h with h1 _; subst h1
    intro x hx; cases hx
  | cons b bs ih =>
    unfold scanCands at h
    cases hb : basicCriteria cfg w a b t with
    | error e => rw [hb] at h; cases h
    | ok r =>
      obtain ⟨ok, t1⟩ := r
      rw [hb] at h
      simp only at h
      cases hs : scanCands cfg w a bs t1 with
      | error e => rw [hs] at h; cases h
      | ok r2 =>
        obtain ⟨rest, t2⟩ := r2
        rw [hs] at h
        simp only at h
        injection h with h; injection h with h1 _
        have hrest := ih t1 hs
        intro x hx
        rw [← h1] at hx
        cases ok with
        | true =>
          simp only [if_true] at hx
          rcases List.mem_cons.mp hx with e | e
          · rw [e]; exact ⟨List.mem_cons_self, basicCriteria_true hb⟩
          · exact ⟨List.mem_cons_of_mem _ (hrest x e).1, (hrest x e).2⟩
        | false =>
          simp only [Bool.false_eq_true, if_false] at hx
          exact ⟨List.mem_cons_of_mem _ (hrest x hx).1, (hrest x hx).2⟩

theorem lt_of_mem_cellCands {w : World} (hI : w.WInv = true) {a : Aid} {R : Nat} {m : List (List Bool)}
    {i j : Nat} {b : Aid} (h : b ∈ w.cellCands a R m i j) : b < w.n := by
  unfold cellCands at h
  rw [localCell_eq] at h
  split at h
  · by_cases hg : w.inGrid (w.winPos a R i j) = true
    · simp only [hg, if_true] at h
      exact ((winv_cell hI (idx_lt hg)).2 b h).1
    · simp only [hg] at h; cases h
  · cases h

theorem lt_of_mem_windowCands {w : World} (hI : w.WInv = true) {a : Aid} {R : Nat} {m : List (List Bool)}
    {b : Aid} (h : b ∈ w.windowCands a R m) : b < w.n := by
  unfold windowCands at h
  rw [List.mem_flatMap] at h
  obtain ⟨ij, _, hb⟩ := h
  exact lt_of_mem_cellCands hI hb

/-- agents that are real indices and not the attacker -/
def Prov (w : World) (a : Aid) (L : List Aid) : Prop := ∀ v ∈ L, v < w.n ∧ v ≠ a

theorem Prov.nil (w : World) (a : Aid) : Prov w a [] := fun _ h => by cases h

theorem Prov.append {w : World} {a : Aid} {L M : List Aid} (h1 : Prov w a L) (h2 : Prov w a M) :
    Prov w a (L ++ M) := by
  intro v hv
  rcases List.mem_append.mp hv with h | h
  · exact h1 v h
  · exact h2 v h

theorem Prov.of_subset {w : World} {a : Aid} {L M : List Aid} (h : Prov w a M) (hs : ∀ x ∈ L, x ∈ M) :
    Prov w a L := fun v hv => h v (hs v hv)

theorem subsetAttackables_mem (stacked : Bool) (S : List Aid) (k : Nat) (t : Tape) :
    ∀ x ∈ (subsetAttackables stacked S k t).1, x ∈ S :=
  (subsetAttackables_picked stacked S k t).mem

theorem scan_prov {cfg : AttackCfg} {w : World} {a : Aid} {C : List Aid} {t : Tape}
    {S : List Aid} {t' : Tape} (hC : ∀ x ∈ C, x < w.n) (h : scanCands cfg w a C t = .ok (S, t')) :
    Prov w a S := fun v hv => ⟨hC v (scanCands_mem C t h v hv).1, (scanCands_mem C t h v hv).2⟩

theorem determineBinary_prov {cfg : AttackCfg} {w : World} (hI : w.WInv = true) {a : Aid} {k : Nat}
    {t : Tape} {st : Bool} {L : List Aid} {t1 : Tape}
    (h : determineBinary cfg w a k t = .ok ((st, L), t1)) : Prov w a L := by
  unfold determineBinary at h
  split at h
  · injection h with h; injection h with h _; injection h with _ h; rw [← h]; exact Prov.nil w a
  · simp only at h
    split at h
    · cases h
    · rename_i S t2 hs
      have hp := scan_prov (fun x hx => lt_of_mem_windowCands hI hx) hs
      split at h
      · injection h with h; injection h with h _; injection h with _ h; rw [← h]; exact Prov.nil w a
      · injection h with h; injection h with h _; injection h with _ h; rw [← h]
        exact hp.of_subset (subsetAttackables_mem _ _ _ _)

theorem encLoop_mem (w : World) (stacked : Bool) (S : List Aid) (act : List (Int × Nat)) (t : Tape) :
    ∀ x ∈ (encLoop w stacked S act t).1, x ∈ S := by
  induction act generalizing t with
  | nil => intro x hx; simp [encLoop] at hx
  | cons p rest ih =>
    obtain ⟨e, k⟩ := p
    intro x hx
    unfold encLoop at hx
    simp only at hx
    split at hx
    · exact ih _ x hx
    · rcases List.mem_append.mp hx with h | h
      · exact (List.mem_filter.mp (subsetAttackables_mem _ _ _ _ x h)).1
      · exact ih _ x h

theorem determineEncoding_prov {cfg : AttackCfg} {w : World} (hI : w.WInv = true) {a : Aid}
    {act : List (Int × Nat)} {t : Tape} {st : Bool} {L : List Aid} {t1 : Tape}
    (h : determineEncoding cfg w a act t = .ok ((st, L), t1)) : Prov w a L := by
  unfold determineEncoding at h
  split at h
  · injection h with h; injection h with h _; injection h with _ h; rw [← h]; exact Prov.nil w a
  · simp only at h
    split at h
    · cases h
    · rename_i S t2 hs
      have hp := scan_prov (fun x hx => lt_of_mem_windowCands hI hx) hs
      split at h
      · injection h with h; injection h with h _; injection h with _ h; rw [← h]
        exact hp.of_subset (encLoop_mem _ _ _ _ _)
      · cases h

theorem selLoop_prov {cfg : AttackCfg} {w : World} (hI : w.WInv = true) {a : Aid} {R : Nat}
    {m : List (List Bool)} {act : List Nat} (cs : List (Nat × Nat)) (t : Tape) {L : List Aid} {t1 : Tape}
    (h : selLoop cfg w a R m act cs t = .ok (L, t1)) : Prov w a L := by
  induction cs generalizing t L t1 with
  | nil =>
    simp only [selLoop] at h
    injection h with h; injection h with h _; rw [← h]; exact Prov.nil w a
  | cons ij rest ih =>
    obtain ⟨i, j⟩ := ij
    unfold selLoop at h
    simp only at h
    split at h
    · exact ih t h
    · split at h
      · cases h
      · rename_i S t2 hs
        have hp := scan_prov (fun x hx => lt_of_mem_cellCands hI hx) hs
        split at h
        · exact ih t2 h
        · split at h
          · cases h
          · rename_i Q t3 hq
            injection h with h; injection h with h _; rw [← h]
            exact (hp.of_subset (subsetAttackables_mem _ _ _ _)).append (ih _ hq)

theorem determineSelective_prov {cfg : AttackCfg} {w : World} (hI : w.WInv = true) {a : Aid}
    {act : List Nat} {t : Tape} {st : Bool} {L : List Aid} {t1 : Tape}
    (h : determineSelective cfg w a act t = .ok ((st, L), t1)) : Prov w a L := by
  unfold determineSelective at h
  simp only at h
  split at h
  · cases h
  · split at h
    · injection h with h; injection h with h _; injection h with _ h; rw [← h]; exact Prov.nil w a
    · split at h
      · cases h
      · rename_i L' t2 hl
        injection h with h; injection h with h _; injection h with _ h; rw [← h]
        exact selLoop_prov hI _ _ hl

theorem resLoop_prov {cfg : AttackCfg} {w : World} (hI : w.WInv = true) {a : Aid} {R : Nat}
    {m : List (List Bool)} (l : List Nat) (acc : List Aid) (t : Tape) {L : List Aid} {t1 : Tape}
    (hacc : Prov w a acc) (h : resLoop cfg w a R m l acc t = .ok (L, t1)) : Prov w a L := by
  induction l generalizing acc t L t1 with
  | nil =>
    simp only [resLoop] at h
    injection h with h; injection h with h _; rw [← h]; exact hacc
  | cons k rest ih =>
    unfold resLoop at h
    split at h
    · exact ih acc t hacc h
    · simp only at h
      split at h
      · cases h
      · split at h
        · cases h
        · rename_i S t2 hs
          have hp := scan_prov (fun x hx => lt_of_mem_cellCands hI hx) hs
          generalize hS'def : (if cfg.stacked = true then S else List.filter (fun b => !acc.contains b) S) = S' at h
          have hS' : ∀ x ∈ S', x ∈ S := by
            intro x hx
            rw [← hS'def] at hx
            split at hx
            · exact hx
            · exact (List.mem_filter.mp hx).1
          split at h
          · exact ih acc t2 hacc h
          · rename_i hne
            have hne' : S' ≠ [] := fun e => hne (by rw [e]; rfl)
            obtain ⟨v', hv', hm⟩ := Oracle.choice_spec S' hne' t2
            rw [hv'] at h
            simp only at h
            refine ih (acc ++ [v']) _ (hacc.append ?_) h
            intro x hx
            rw [List.mem_singleton] at hx
            rw [hx]; exact hp v' (hS' v' hm)

theorem determineRestricted_prov {cfg : AttackCfg} {w : World} (hI : w.WInv = true) {a : Aid}
    {act : List Nat} {t : Tape} {st : Bool} {L : List Aid} {t1 : Tape}
    (h : determineRestricted cfg w a act t = .ok ((st, L), t1)) : Prov w a L := by
  unfold determineRestricted at h
  split at h
  · injection h with h; injection h with h _; injection h with _ h; rw [← h]; exact Prov.nil w a
  · simp only at h
    split at h
    · cases h
    · rename_i L' t2 hl
      injection h with h; injection h with h _; injection h with _ h; rw [← h]
      exact resLoop_prov hI _ _ _ (Prov.nil w a) hl

/-- whatever any of the four actors selects, for any action and any tape, is a list of real
agents other than the attacker -/
theorem determineAttack_prov {cfg : AttackCfg} {w : World} (hI : w.WInv = true) {a : Aid}
    {act : AttackAct} {t : Tape} {st : Bool} {L : List Aid} {t1 : Tape}
    (h : determineAttack cfg w a act t = .ok ((st, L), t1)) : Prov w a L := by
  unfold determineAttack at h
  split at h
  · exact determineBinary_prov hI h
  · exact determineEncoding_prov hI h
  · exact determineSelective_prov hI h
  · exact determineRestricted_prov hI h
  · cases h

/-! ## Assembly of `process_action` -/

/-- **the invariant is kept** by every successful call: any actor, any attacker (active or not,
real index or not), any action (inside the action space or not), any tape -/
theorem processAttack_WInv {cfg : AttackCfg} {w : World} {a : Aid} {act : AttackAct} {t : Tape}
    {r : Bool × List Aid} {w' : World} {t' : Tape} (hI : w.WInv = true)
    (h : processAttack cfg w a act t = .ok (r, w', t')) : w'.WInv = true := by
  unfold processAttack at h
  split at h
  · split at h
    · cases h
    · rename_i status L t1 hdet
      have hprov := determineAttack_prov hI hdet
      split at h
      · cases h
      · rename_i H w1 t2 hfil
        obtain ⟨hI1, hsub, hn⟩ := ammoFilter_WInv hI hfil
        split at h
        · cases h
        · rename_i w2 happ
          injection h with h; injection h with _ h; injection h with h _
          rw [← h]
          exact (applyHits_WInv hI1 (fun v hv => by rw [hn]; exact (hprov v (hsub.subset hv)).1) happ).1
  · injection h with h; injection h with _ h; injection h with h _
    rw [← h]; exact hI

/-- the deterministic tail of `process_action` after `_determine_attack` returned `L` -/
theorem processAttack_tail {cfg : AttackCfg} {w : World} {a : Aid} {act : AttackAct} {t : Tape}
    {st : Bool} {L : List Aid} {t1 : Tape} (hI : w.WInv = true) (ha : a < w.n)
    (hatt : (w.cfgOf a).attacking = true)
    (hdet : determineAttack cfg w a act t = .ok ((st, L), t1)) :
    ∃ H w' t', processAttack cfg w a act t = .ok ((st, H), w', t') ∧ w'.WInv = true ∧
      specBook w a H w' = true ∧ H.Subperm L ∧
      ((w.cfgOf a).hasAmmo = false → H = L) ∧
      ((w.cfgOf a).hasAmmo = true → H.length = min L.length (w.stOf a).ammo.toNat ∧
          ((L.length : Int) ≤ (w.stOf a).ammo → H = L)) := by
  obtain ⟨H, w1, t2, w2, hf, happ, hI2, hbook, hsub, hno, hyes⟩ :=
    tail_sound hI a ha L t1 (determineAttack_prov hI hdet)
  refine ⟨H, w2, t2, ?_, hI2, hbook, hsub, hno, hyes⟩
  unfold processAttack
  rw [if_pos hatt, hdet]
  simp only [hf, happ]

/-- **bookkeeping / frame** for every successful call of an attacking agent: any actor, any
action (inside the action space or not), any tape -/
theorem processAttack_book {cfg : AttackCfg} {w : World} {a : Aid} {act : AttackAct} {t : Tape}
    {st : Bool} {H : List Aid} {w' : World} {t' : Tape} (hI : w.WInv = true) (ha : a < w.n)
    (h : processAttack cfg w a act t = .ok ((st, H), w', t')) :
    ((w.cfgOf a).attacking = true → specBook w a H w' = true) ∧
    ((w.cfgOf a).attacking = false → H = [] ∧ w' = w) := by
  constructor
  · intro hatt
    cases hdet : determineAttack cfg w a act t with
    | error e =>
      unfold processAttack at h
      rw [if_pos hatt, hdet] at h
      cases h
    | ok r =>
      obtain ⟨⟨st0, L⟩, t1⟩ := r
      obtain ⟨H', w2, t2, hp, _, hbook, _⟩ := processAttack_tail hI ha hatt hdet
      rw [hp] at h
      injection h with h; injection h with h1 h2; injection h1 with _ h1; injection h2 with h2 _
      rw [← h1, ← h2]; exact hbook
  · intro hatt
    unfold processAttack at h
    rw [hatt] at h
    simp only [Bool.false_eq_true, if_false] at h
    injection h with h; injection h with h1 h2; injection h1 with _ h1; injection h2 with h2 _
    exact ⟨h1.symm, h2.symm⟩

/-- an actor whose `_determine_attack` returns a list with `SelOK` satisfies `AttackSpec` -/
theorem processAttack_of_SelOK {cfg : AttackCfg} {w : World} {a : Aid} {act : AttackAct} {t : Tape}
    {st : Bool} {L : List Aid} {t1 : Tape} (hI : w.WInv = true) (ha : a < w.n)
    (hatt : (w.cfgOf a).attacking = true)
    (hdet : determineAttack cfg w a act t = .ok ((st, L), t1)) (sel : SelOK cfg w a act L) :
    ∃ H w' t', processAttack cfg w a act t = .ok ((st, H), w', t') ∧
      AttackSpec cfg w a act H w' = true ∧ w'.WInv = true := by
  obtain ⟨H, w', t', hp, hI', hbook, hsub, hno, hyes⟩ := processAttack_tail hI ha hatt hdet
  exact ⟨H, w', t', hp, AttackSpec_of_SelOK hatt sel hsub hno hyes hbook, hI'⟩

/-- an agent that is not an `AttackingAgent`: `(False, [])`, nothing changes -/
theorem processAttack_not_attacking {cfg : AttackCfg} {w : World} {a : Aid} (act : AttackAct) (t : Tape)
    (hatt : (w.cfgOf a).attacking = false) :
    processAttack cfg w a act t = .ok ((false, []), w, t) ∧ AttackSpec cfg w a act [] w = true := by
  constructor
  · unfold processAttack; rw [hatt]; rfl
  · unfold AttackSpec; rw [hatt]; simp

end World
end Abmarl
