import Abmarl.Spec.Builders
/-!
# Helper lemmas for C18, part 1: loops, dictionaries, the array builder

* a double `for r in range(rows): for c in range(cols)` loop is one loop over the flat index
  `i` with `(r, c) = (i / cols, i % cols)` (`forRange_nested_flat`, `forRangeE_nested_flat`);
* the flat loop over a list indexed by `getD` is a structural scan of the list (`scan`);
* `dictSet` (assignment into an insertion-ordered dictionary): key set, membership;
* `layoutFrom`: the recursive form of `layoutAgents`, ids distinct, positions = flat indices;
* `fromArray_eq`: the array builder returns `extras` updated with `layoutAgents` in order.
-/
namespace Abmarl
namespace Builders

/-! ## Loops -/

theorem divmod_flat {cols r c : Nat} (h : c < cols) :
    (r * cols + c) / cols = r ∧ (r * cols + c) % cols = c := by
  have hd : (r * cols + c) / cols = r :=
    Nat.div_eq_of_lt_le (by omega) (by rw [Nat.succ_mul]; omega)
  refine ⟨hd, ?_⟩
  have := Nat.div_add_mod (r * cols + c) cols
  rw [hd, Nat.mul_comm] at this
  omega

theorem pos_inj {cols i j : Nat} (h : (i / cols, i % cols) = (j / cols, j % cols)) : i = j := by
  have h1 : i / cols = j / cols := congrArg Prod.fst h
  have h2 : i % cols = j % cols := congrArg Prod.snd h
  have a := Nat.div_add_mod i cols
  have b := Nat.div_add_mod j cols
  rw [h1, h2] at a
  omega

section loops
variable {σ : Type}

theorem forRange_add (f : σ → Nat → σ) (a b : Nat) :
    ∀ i st, forRange f (a + b) i st = forRange f b (i + a) (forRange f a i st) := by
  induction a with
  | zero => intro i st; simp [forRange]
  | succ a ih =>
    intro i st
    have e : a + 1 + b = (a + b) + 1 := by omega
    rw [e, forRange, forRange, ih]
    have e2 : i + 1 + a = i + (a + 1) := by omega
    rw [e2]

theorem forRange_inner_flat (f : σ → Nat → Nat → σ) (cols r : Nat) :
    ∀ k c0 st, c0 + k ≤ cols →
      forRange (fun st c => f st r c) k c0 st =
        forRange (fun st i => f st (i / cols) (i % cols)) k (r * cols + c0) st := by
  intro k
  induction k with
  | zero => intro c0 st _; simp [forRange]
  | succ k ih =>
    intro c0 st h
    rw [forRange, forRange]
    obtain ⟨hd, hm⟩ := divmod_flat (cols := cols) (r := r) (c := c0) (by omega)
    simp only [hd, hm]
    rw [ih (c0 + 1) _ (by omega)]
    rfl

/-- the double loop over rows and columns is the single loop over the flat row-major index -/
theorem forRange_nested_flat (f : σ → Nat → Nat → σ) (cols : Nat) :
    ∀ k r0 st,
      forRange (fun st r => forRange (fun st c => f st r c) cols 0 st) k r0 st =
        forRange (fun st i => f st (i / cols) (i % cols)) (k * cols) (r0 * cols) st := by
  intro k
  induction k with
  | zero => intro r0 st; simp [forRange]
  | succ k ih =>
    intro r0 st
    rw [forRange, ih]
    have e : (k + 1) * cols = cols + k * cols := by rw [Nat.succ_mul]; omega
    rw [e, forRange_add]
    have e2 : (r0 + 1) * cols = r0 * cols + cols := Nat.succ_mul _ _
    rw [e2]
    have := forRange_inner_flat f cols r0 cols 0 st (by omega)
    simp only [Nat.add_zero] at this
    rw [this]

theorem forRangeE_add (f : σ → Nat → Except Err σ) (a b : Nat) :
    ∀ i st, forRangeE f (a + b) i st =
      match forRangeE f a i st with
      | .error e => .error e
      | .ok st' => forRangeE f b (i + a) st' := by
  induction a with
  | zero => intro i st; simp [forRangeE]
  | succ a ih =>
    intro i st
    have e : a + 1 + b = (a + b) + 1 := by omega
    rw [e, forRangeE, forRangeE]
    cases hf : f st i with
    | error e => rfl
    | ok st' =>
      simp only []
      rw [ih]
      have e2 : i + 1 + a = i + (a + 1) := by omega
      rw [e2]

theorem forRangeE_inner_flat (f : σ → Nat → Nat → Except Err σ) (cols r : Nat) :
    ∀ k c0 st, c0 + k ≤ cols →
      forRangeE (fun st c => f st r c) k c0 st =
        forRangeE (fun st i => f st (i / cols) (i % cols)) k (r * cols + c0) st := by
  intro k
  induction k with
  | zero => intro c0 st _; simp [forRangeE]
  | succ k ih =>
    intro c0 st h
    rw [forRangeE, forRangeE]
    obtain ⟨hd, hm⟩ := divmod_flat (cols := cols) (r := r) (c := c0) (by omega)
    simp only [hd, hm]
    cases f st r c0 with
    | error e => rfl
    | ok st' =>
      simp only []
      rw [ih (c0 + 1) _ (by omega)]
      rfl

theorem forRangeE_nested_flat (f : σ → Nat → Nat → Except Err σ) (cols : Nat) :
    ∀ k r0 st,
      forRangeE (fun st r => forRangeE (fun st c => f st r c) cols 0 st) k r0 st =
        forRangeE (fun st i => f st (i / cols) (i % cols)) (k * cols) (r0 * cols) st := by
  intro k
  induction k with
  | zero => intro r0 st; simp [forRangeE]
  | succ k ih =>
    intro r0 st
    have e : (k + 1) * cols = cols + k * cols := by rw [Nat.succ_mul]; omega
    rw [forRangeE, e, forRangeE_add]
    have := forRangeE_inner_flat f cols r0 cols 0 st (by omega)
    simp only [Nat.add_zero] at this
    rw [this]
    cases forRangeE (fun st i => f st (i / cols) (i % cols)) cols (r0 * cols) st with
    | error e => rfl
    | ok st' =>
      simp only []
      rw [ih]
      have e2 : (r0 + 1) * cols = r0 * cols + cols := Nat.succ_mul _ _
      rw [e2]

end loops

/-! ## The array loop as a scan of the cell list -/

/-- process the entries of `l`, the first of which has flat index `i` -/
def scan (reg : Registry) (cols : Nat) : List Nat → Nat → St → St
  | [], _, st => st
  | ch :: rest, i, st => scan reg cols rest (i + 1) (cellStep reg st ch (i / cols) (i % cols))

theorem scan_append (reg : Registry) (cols : Nat) (l1 l2 : List Nat) :
    ∀ i st, scan reg cols (l1 ++ l2) i st = scan reg cols l2 (i + l1.length) (scan reg cols l1 i st) := by
  induction l1 with
  | nil => intro i st; simp [scan]
  | cons ch l1 ih =>
    intro i st
    simp only [List.cons_append, scan, ih, List.length_cons]
    have e : i + 1 + l1.length = i + (l1.length + 1) := by omega
    rw [e]

theorem flat_eq_scan (reg : Registry) (cols : Nat) (cells : List Nat) :
    ∀ k i0 st, i0 + k ≤ cells.length →
      forRange (fun st i => cellStep reg st (cells.getD i 0) (i / cols) (i % cols)) k i0 st =
        scan reg cols ((cells.drop i0).take k) i0 st := by
  intro k
  induction k with
  | zero => intro i0 st _; simp [forRange, scan]
  | succ k ih =>
    intro i0 st h
    have hi : i0 < cells.length := by omega
    rw [forRange, List.drop_eq_getElem_cons hi, List.take_succ_cons, scan, ih (i0 + 1) _ (by omega)]
    have : cells.getD i0 0 = cells[i0] := by
      simp [List.getD_eq_getElem?_getD, List.getElem?_eq_getElem hi]
    rw [this]

theorem arrayLoop_eq_scan (reg : Registry) (rows cols : Nat) (cells : List Nat) (st : St)
    (hlen : cells.length = rows * cols) :
    arrayLoop reg rows cols cells st = scan reg cols cells 0 st := by
  unfold arrayLoop
  rw [forRange_nested_flat (fun st r c => cellStep reg st (cells.getD (r * cols + c) 0) r c) cols rows 0 st]
  simp only [Nat.div_add_mod', Nat.zero_mul]
  rw [flat_eq_scan reg cols cells (rows * cols) 0 st (by omega)]
  simp [← hlen]

/-! ## Insertion-ordered dictionaries -/

theorem mem_dictSet {d : List Agent} {a x : Agent} (hd : (d.map (·.id)).Nodup) :
    x ∈ dictSet d a ↔ x = a ∨ (x ∈ d ∧ x.id ≠ a.id) := by
  induction d with
  | nil => simp [dictSet]
  | cons b bs ih =>
    simp only [List.map_cons, List.nodup_cons, List.mem_map, not_exists, not_and] at hd
    unfold dictSet
    by_cases hb : b.id = a.id
    · rw [if_pos hb]
      simp only [List.mem_cons]
      constructor
      · rintro (h | h)
        · exact Or.inl h
        · refine Or.inr ⟨Or.inr h, fun he => hd.1 x h ?_⟩
          rw [he, hb]
      · rintro (h | ⟨h | h, hne⟩)
        · exact Or.inl h
        · subst h; exact absurd hb hne
        · exact Or.inr h
    · rw [if_neg hb]
      simp only [List.mem_cons, ih hd.2]
      constructor
      · rintro (h | h | ⟨h, hne⟩)
        · subst h; exact Or.inr ⟨Or.inl rfl, hb⟩
        · exact Or.inl h
        · exact Or.inr ⟨Or.inr h, hne⟩
      · rintro (h | ⟨h | h, hne⟩)
        · exact Or.inr (Or.inl h)
        · exact Or.inl h
        · exact Or.inr (Or.inr ⟨h, hne⟩)

/-- in a dictionary an id names one agent -/
theorem eq_of_id_eq : ∀ {L : List Agent}, (L.map (·.id)).Nodup → ∀ {a b : Agent}, a ∈ L → b ∈ L →
    a.id = b.id → a = b := by
  intro L
  induction L with
  | nil => intro _ a b ha; simp at ha
  | cons c L ih =>
    intro hnd a b ha hb h
    simp only [List.map_cons, List.nodup_cons, List.mem_map, not_exists, not_and] at hnd
    rcases List.mem_cons.mp ha with ea | ha' <;> rcases List.mem_cons.mp hb with eb | hb'
    · rw [ea, eb]
    · subst ea; exact absurd h.symm (hnd.1 b hb')
    · subst eb; exact absurd h (hnd.1 a ha')
    · exact ih hnd.2 ha' hb' h

theorem ids_dictSet (d : List Agent) (a : Agent) :
    ∀ i, i ∈ (dictSet d a).map (·.id) ↔ i = a.id ∨ i ∈ d.map (·.id) := by
  induction d with
  | nil => intro i; simp [dictSet]
  | cons b bs ih =>
    intro i
    unfold dictSet
    by_cases hb : b.id = a.id
    · rw [if_pos hb]
      simp only [List.map_cons, List.mem_cons, hb]
      constructor
      · rintro (h | h)
        · exact Or.inl h
        · exact Or.inr (Or.inr h)
      · rintro (h | h | h)
        · exact Or.inl h
        · exact Or.inl h
        · exact Or.inr h
    · rw [if_neg hb]
      simp only [List.map_cons, List.mem_cons, ih]
      constructor
      · rintro (h | h | h)
        · exact Or.inr (Or.inl h)
        · exact Or.inl h
        · exact Or.inr (Or.inr h)
      · rintro (h | h | h)
        · exact Or.inr (Or.inl h)
        · exact Or.inl h
        · exact Or.inr (Or.inr h)

theorem nodup_dictSet {d : List Agent} (a : Agent) (hd : (d.map (·.id)).Nodup) :
    ((dictSet d a).map (·.id)).Nodup := by
  induction d with
  | nil => simp [dictSet]
  | cons b bs ih =>
    simp only [List.map_cons, List.nodup_cons] at hd
    unfold dictSet
    by_cases hb : b.id = a.id
    · rw [if_pos hb]
      simp only [List.map_cons, List.nodup_cons]
      exact ⟨hb ▸ hd.1, hd.2⟩
    · rw [if_neg hb]
      simp only [List.map_cons, List.nodup_cons]
      refine ⟨fun h => ?_, ih hd.2⟩
      rcases (ids_dictSet bs a b.id).mp h with h | h
      · exact hb h
      · exact hd.1 h

theorem nodup_foldl_dictSet (L : List Agent) :
    ∀ d : List Agent, (d.map (·.id)).Nodup → ((L.foldl dictSet d).map (·.id)).Nodup := by
  induction L with
  | nil => intro d hd; exact hd
  | cons a L ih => intro d hd; exact ih _ (nodup_dictSet a hd)

/-- updating a dictionary with a list of agents with distinct ids: the list's agents are all
there, and of the old agents exactly those whose id is not in the list -/
theorem mem_foldl_dictSet (L : List Agent) :
    ∀ (d : List Agent) (x : Agent), (d.map (·.id)).Nodup → (L.map (·.id)).Nodup →
      (x ∈ L.foldl dictSet d ↔ x ∈ L ∨ (x ∈ d ∧ x.id ∉ L.map (·.id))) := by
  induction L with
  | nil => intro d x _ _; simp
  | cons a L ih =>
    intro d x hd hL
    simp only [List.map_cons, List.nodup_cons] at hL
    simp only [List.foldl_cons]
    rw [ih _ x (nodup_dictSet a hd) hL.2, mem_dictSet hd]
    simp only [List.mem_cons, List.map_cons, not_or]
    constructor
    · rintro (h | ⟨h | ⟨h, hne⟩, hn⟩)
      · exact Or.inl (Or.inr h)
      · exact Or.inl (Or.inl h)
      · exact Or.inr ⟨h, hne, hn⟩
    · rintro ((h | h) | ⟨h, hne, hn⟩)
      · subst h
        exact Or.inr ⟨Or.inl rfl, hL.1⟩
      · exact Or.inl h
      · exact Or.inr ⟨Or.inr ⟨h, hne⟩, hn⟩

/-! ## The layout's agents, recursively -/

/-- the agent (if any) for an entry `ch` that comes after the entries `pre` -/
def headAgent (reg : Registry) (cols : Nat) (pre : List Nat) (ch : Nat) : List Agent :=
  match reg.lookup ch with
  | none => []
  | some enc =>
    [{ id := .gen ch (pre.count ch), enc := enc, ipos := some (pre.length / cols, pre.length % cols) }]

/-- the agents for the entries `suf` that come after the entries `pre` -/
def layoutFrom (reg : Registry) (cols : Nat) : List Nat → List Nat → List Agent
  | _, [] => []
  | pre, ch :: rest => headAgent reg cols pre ch ++ layoutFrom reg cols (pre ++ [ch]) rest

theorem layoutAgents_aux (reg : Registry) (cols : Nat) :
    ∀ suf pre : List Nat,
      (suf.zipIdx pre.length).filterMap (fun p =>
        (reg.lookup p.1).map fun enc =>
          ({ id := .gen p.1 (((pre ++ suf).take p.2).count p.1), enc := enc,
             ipos := some (p.2 / cols, p.2 % cols) } : Agent)) = layoutFrom reg cols pre suf := by
  intro suf
  induction suf with
  | nil => intro pre; simp [layoutFrom]
  | cons ch rest ih =>
    intro pre
    have ih' := ih (pre ++ [ch])
    simp only [List.length_append, List.length_cons, List.length_nil, Nat.zero_add,
      List.append_assoc, List.singleton_append] at ih'
    rw [List.zipIdx_cons, List.filterMap_cons, layoutFrom, headAgent, ih']
    cases reg.lookup ch with
    | none => simp
    | some enc => simp

theorem layoutAgents_eq (reg : Registry) (cols : Nat) (cells : List Nat) :
    layoutAgents reg cols cells = layoutFrom reg cols [] cells := by
  have := layoutAgents_aux reg cols cells []
  simpa [layoutAgents] using this

theorem layoutFrom_id_ge (reg : Registry) (cols : Nat) :
    ∀ (suf pre : List Nat) (a : Agent), a ∈ layoutFrom reg cols pre suf →
      ∃ x n, a.id = .gen x n ∧ pre.count x ≤ n ∧ (reg.lookup x).isSome := by
  intro suf
  induction suf with
  | nil => intro pre a h; simp [layoutFrom] at h
  | cons ch rest ih =>
    intro pre a h
    rw [layoutFrom, List.mem_append] at h
    rcases h with h | h
    · unfold headAgent at h
      cases hl : reg.lookup ch with
      | none => simp [hl] at h
      | some enc =>
        simp only [hl, List.mem_singleton] at h
        subst h
        exact ⟨ch, _, rfl, Nat.le_refl _, by simp [hl]⟩
    · obtain ⟨x, n, h1, h2, h3⟩ := ih _ a h
      refine ⟨x, n, h1, ?_, h3⟩
      rw [List.count_append] at h2
      omega

theorem layoutFrom_pos (reg : Registry) (cols : Nat) :
    ∀ (suf pre : List Nat) (a : Agent), a ∈ layoutFrom reg cols pre suf →
      ∃ j, pre.length ≤ j ∧ j < pre.length + suf.length ∧ a.ipos = some (j / cols, j % cols) := by
  intro suf
  induction suf with
  | nil => intro pre a h; simp [layoutFrom] at h
  | cons ch rest ih =>
    intro pre a h
    rw [layoutFrom, List.mem_append] at h
    rcases h with h | h
    · unfold headAgent at h
      cases hl : reg.lookup ch with
      | none => simp [hl] at h
      | some enc =>
        simp only [hl, List.mem_singleton] at h
        subst h
        exact ⟨pre.length, Nat.le_refl _, by simp, rfl⟩
    · obtain ⟨j, h1, h2, h3⟩ := ih _ a h
      simp only [List.length_append, List.length_cons, List.length_nil] at h1 h2
      exact ⟨j, by omega, by simp only [List.length_cons]; omega, h3⟩

theorem layoutFrom_ids_nodup (reg : Registry) (cols : Nat) :
    ∀ suf pre : List Nat, ((layoutFrom reg cols pre suf).map (·.id)).Nodup := by
  intro suf
  induction suf with
  | nil => intro pre; simp [layoutFrom]
  | cons ch rest ih =>
    intro pre
    rw [layoutFrom, List.map_append, List.nodup_append]
    refine ⟨?_, ih _, ?_⟩
    · unfold headAgent; cases reg.lookup ch <;> simp
    · intro i hi j hj hij
      subst hij
      unfold headAgent at hi
      cases hl : reg.lookup ch with
      | none => simp [hl] at hi
      | some enc =>
        simp only [hl, List.map_cons, List.map_nil, List.mem_singleton] at hi
        obtain ⟨b, hb, hbi⟩ := List.mem_map.mp hj
        obtain ⟨x, n, h1, h2, _⟩ := layoutFrom_id_ge reg cols rest _ b hb
        rw [hbi, hi] at h1
        injection h1 with hx hn
        subst hx hn
        simp [List.count_append] at h2
        omega

theorem layoutAgents_ids_nodup (reg : Registry) (cols : Nat) (cells : List Nat) :
    ((layoutAgents reg cols cells).map (·.id)).Nodup := by
  rw [layoutAgents_eq]; exact layoutFrom_ids_nodup reg cols cells []

/-- a layout agent's initial position is the cell of a flat index inside the layout -/
theorem layoutAgents_pos (reg : Registry) (cols : Nat) (cells : List Nat) (a : Agent)
    (h : a ∈ layoutAgents reg cols cells) :
    ∃ j, j < cells.length ∧ a.ipos = some (j / cols, j % cols) := by
  rw [layoutAgents_eq] at h
  obtain ⟨j, _, h2, h3⟩ := layoutFrom_pos reg cols cells [] a h
  exact ⟨j, by simpa using h2, h3⟩

/-! ## The scan produces the layout's agents -/

theorem scan_agents (reg : Registry) (cols : Nat) :
    ∀ (suf pre : List Nat) (st : St),
      (∀ ch, (reg.lookup ch).isSome → st.ndx ch = pre.count ch) →
      (scan reg cols suf pre.length st).agents =
        (layoutFrom reg cols pre suf).foldl dictSet st.agents := by
  intro suf
  induction suf with
  | nil => intro pre st _; simp [scan, layoutFrom]
  | cons ch rest ih =>
    intro pre st hinv
    have ih' := ih (pre ++ [ch])
    simp only [List.length_append, List.length_cons, List.length_nil, Nat.zero_add] at ih'
    rw [scan, layoutFrom, List.foldl_append]
    cases hl : reg.lookup ch with
    | none =>
      have hst : cellStep reg st ch (pre.length / cols) (pre.length % cols) = st := by
        simp [cellStep, hl]
      rw [hst, ih' st]
      · simp [headAgent, hl]
      · intro x hx
        rw [hinv x hx, List.count_append]
        have : ch ≠ x := by
          intro e; subst e; simp [hl] at hx
        simp [this]
    | some enc =>
      rw [ih']
      · simp [cellStep, headAgent, hl, hinv ch (by simp [hl])]
      · intro x hx
        simp only [cellStep, hl, List.count_append]
        by_cases hxc : x = ch
        · subst hxc; simp [hinv x hx]
        · have : ch ≠ x := fun e => hxc e.symm
          simp [hxc, this, hinv x hx]

/-- **the array builder, characterised**: the caller's extra agents updated, in reading order,
with the layout's agents -/
theorem fromArray_eq (rows cols : Nat) (cells : List Nat) (reg : Registry) (extras : List Agent)
    (hlen : cells.length = rows * cols) (hres : reservedInRegistry reg = false) :
    fromArray rows cols cells reg extras =
      buildSim rows cols ((layoutAgents reg cols cells).foldl dictSet extras) := by
  unfold fromArray
  rw [hres, arrayLoop_eq_scan reg rows cols cells _ hlen]
  have := scan_agents reg cols cells [] (St.init extras) (by intro ch _; simp [St.init])
  simp only [List.length_nil] at this
  rw [this, layoutAgents_eq]
  simp [St.init]

/-! ## From the characterisation to the specification -/

theorem mem_keptExtras {lay extras : List Agent} {x : Agent} :
    x ∈ keptExtras lay extras ↔ x ∈ extras ∧ x.id ∉ lay.map (·.id) := by
  simp only [keptExtras, List.mem_filter, Bool.not_eq_true', List.any_eq_false, decide_eq_true_eq,
    List.mem_map, not_exists, not_and]

theorem sameAgents_iff {a b : List Agent} : sameAgents a b = true ↔ ∀ x, x ∈ a ↔ x ∈ b := by
  simp only [sameAgents, Bool.and_eq_true, List.all_eq_true, decide_eq_true_eq]
  constructor
  · rintro ⟨h1, h2⟩ x; exact ⟨h1 x, h2 x⟩
  · intro h; exact ⟨fun x => (h x).mp, fun x => (h x).mpr⟩

/-- any outcome whose agents are, as a set, "layout agents plus the extras with other ids" and
whose ids are distinct satisfies `specBuild` -/
theorem specBuild_of_mem (rows cols : Nat) (cells : List Nat) (reg : Registry) (extras D : List Agent)
    (hmem : ∀ x, x ∈ D ↔ x ∈ layoutAgents reg cols cells ∨
      (x ∈ extras ∧ x.id ∉ (layoutAgents reg cols cells).map (·.id)))
    (hnd : (D.map (·.id)).Nodup) :
    specBuild rows cols cells reg extras (.ok { rows := rows, cols := cols, agents := D }) = true := by
  simp only [specBuild, idsNodup, Bool.and_eq_true, beq_self_eq_true, decide_eq_true_eq, true_and,
    sameAgents_iff]
  refine ⟨hnd, fun x => ?_⟩
  rw [hmem x, expectedAgents, List.mem_append, mem_keptExtras]

theorem mem_update_layout (reg : Registry) (cols : Nat) (cells : List Nat) (extras : List Agent)
    (hex : (extras.map (·.id)).Nodup) (x : Agent) :
    x ∈ (layoutAgents reg cols cells).foldl dictSet extras ↔
      x ∈ layoutAgents reg cols cells ∨ (x ∈ extras ∧ x.id ∉ (layoutAgents reg cols cells).map (·.id)) :=
  mem_foldl_dictSet _ extras x hex (layoutAgents_ids_nodup reg cols cells)

end Builders
end Abmarl
