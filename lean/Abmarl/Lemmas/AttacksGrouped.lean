import Abmarl.Lemmas.AttacksWin
/-!
# C11 lemmas, part 3b: actors that spend their attacks group by group

`EncodingBasedAttackActor` (one group per item of the action) and `SelectiveAttackActor` (one
group per window cell) return the concatenation of one pick per group.  `Grouped gs L` records
exactly that; together with the mutual exclusiveness of the groups on eligible agents it yields
every clause of `SelOK` (`Grouped.selOK`).
-/
namespace Abmarl
namespace World

/-- `L` is the concatenation, in the order of the groups `gs`, of one list of picks per group -/
inductive Grouped (cfg : AttackCfg) (w : World) (a : Aid) : List Group → List Aid → Prop
  | nil : Grouped cfg w a [] []
  | cons {g : Group} {gs : List Group} {P L : List Aid}
      (hmem : ∀ b ∈ P, b < w.n ∧ eligible cfg w a b = true ∧ g.mem b = true)
      (hlen : P.length ≤ g.lim)
      (hnd : cfg.stacked = false → P.Nodup)
      (hex : 1 ≤ (w.cfgOf a).accuracy →
        P.length = expected cfg.stacked g.lim ((eligList cfg w a).countP g.mem))
      (rest : Grouped cfg w a gs L) : Grouped cfg w a (g :: gs) (P ++ L)

/-- no eligible agent belongs to two groups -/
def Excl (cfg : AttackCfg) (w : World) (a : Aid) (gs : List Group) : Prop :=
  gs.Pairwise fun g g' => ∀ b, eligible cfg w a b = true → ¬(g.mem b = true ∧ g'.mem b = true)

theorem expected_zero_lim (stacked : Bool) (E : Nat) : expected stacked 0 E = 0 := by
  unfold expected; cases stacked <;> simp

/-- nothing is spent anywhere -/
theorem Grouped.zeros {cfg : AttackCfg} {w : World} {a : Aid} (gs : List Group)
    (h : ∀ g ∈ gs, g.lim = 0) : Grouped cfg w a gs [] := by
  induction gs with
  | nil => exact Grouped.nil
  | cons g gs ih =>
    have h0 : g.lim = 0 := h g List.mem_cons_self
    exact Grouped.cons (P := []) (fun b hb => (by cases hb)) (Nat.zero_le _) (fun _ => List.nodup_nil)
      (fun _ => by rw [h0, expected_zero_lim]; rfl) (ih fun g' hg' => h g' (List.mem_cons_of_mem _ hg'))

/-- the premises of `Grouped.cons` from a scan of the group's candidates and a legal pick -/
theorem group_facts {cfg : AttackCfg} {w : World} {a : Aid} {g : Group} {C S P : List Aid}
    (hC : C.Nodup) (hCmem : ∀ b, b ∈ C ↔ b < w.n ∧ eligible cfg w a b = true ∧ g.mem b = true)
    (hsub : S.Sublist C) (hall : 1 ≤ (w.cfgOf a).accuracy → S = C) (hpick : Picked cfg.stacked S g.lim P) :
    (∀ b ∈ P, b < w.n ∧ eligible cfg w a b = true ∧ g.mem b = true) ∧ P.length ≤ g.lim ∧
    (cfg.stacked = false → P.Nodup) ∧
    (1 ≤ (w.cfgOf a).accuracy → P.length = expected cfg.stacked g.lim ((eligList cfg w a).countP g.mem)) := by
  refine ⟨fun b hb => (hCmem b).mp (hsub.subset (hpick.mem b hb)), hpick.length_le, ?_, ?_⟩
  · intro hst
    rw [hst] at hpick
    exact hpick.nodup (hsub.nodup hC)
  · intro hacc
    rw [hpick.length_eq, hall hacc, length_eq_countP g.mem hC hCmem]

theorem Grouped.props {cfg : AttackCfg} {w : World} {a : Aid} {gs : List Group} {L : List Aid}
    (h : Grouped cfg w a gs L) (hx : Excl cfg w a gs) :
    (∀ b ∈ L, b < w.n ∧ eligible cfg w a b = true ∧ ∃ g ∈ gs, g.mem b = true ∧ 0 < g.lim) ∧
    (∀ g ∈ gs, L.countP g.mem ≤ g.lim) ∧
    (cfg.stacked = false → L.Nodup) ∧
    (1 ≤ (w.cfgOf a).accuracy → ∀ g ∈ gs,
      L.countP g.mem = expected cfg.stacked g.lim ((eligList cfg w a).countP g.mem)) ∧
    (1 ≤ (w.cfgOf a).accuracy → L.length =
      (gs.map fun g => expected cfg.stacked g.lim ((eligList cfg w a).countP g.mem)).sum) := by
  induction h with
  | nil =>
    refine ⟨fun b hb => (by cases hb), fun g hg => (by cases hg), fun _ => List.nodup_nil,
      fun _ g hg => (by cases hg), fun _ => rfl⟩
  | @cons g gs P L hmem hlen hnd hex rest ih =>
    unfold Excl at hx
    rw [List.pairwise_cons] at hx
    obtain ⟨hxg, hxs⟩ := hx
    obtain ⟨ih1, ih2, ih3, ih4, ih5⟩ := ih hxs
    -- members of the later picks are not in group `g`; members of `P` are in no later group
    have K1 : ∀ b ∈ L, ¬(g.mem b = true) := by
      intro b hb hgb
      obtain ⟨_, hel, g', hg', hm', _⟩ := ih1 b hb
      exact hxg g' hg' b hel ⟨hgb, hm'⟩
    have K2 : ∀ g' ∈ gs, ∀ b ∈ P, ¬(g'.mem b = true) := by
      intro g' hg' b hb hm'
      obtain ⟨_, hel, hgb⟩ := hmem b hb
      exact hxg g' hg' b hel ⟨hgb, hm'⟩
    have cP : P.countP g.mem = P.length := List.countP_eq_length.mpr fun b hb => (hmem b hb).2.2
    have cL : L.countP g.mem = 0 := List.countP_eq_zero.mpr fun b hb => K1 b hb
    have cP' : ∀ g' ∈ gs, P.countP g'.mem = 0 := fun g' hg' =>
      List.countP_eq_zero.mpr fun b hb => K2 g' hg' b hb
    refine ⟨?_, ?_, ?_, ?_, ?_⟩
    · intro b hb
      rcases List.mem_append.mp hb with hb | hb
      · obtain ⟨h1, h2, h3⟩ := hmem b hb
        have : 0 < P.length := List.length_pos_of_mem hb
        exact ⟨h1, h2, g, List.mem_cons_self, h3, by omega⟩
      · obtain ⟨h1, h2, g', hg', h3, h4⟩ := ih1 b hb
        exact ⟨h1, h2, g', List.mem_cons_of_mem _ hg', h3, h4⟩
    · intro g' hg'
      rw [List.countP_append]
      rcases List.mem_cons.mp hg' with e | e
      · rw [e, cP, cL]; omega
      · rw [cP' g' e]; have := ih2 g' e; omega
    · intro hst
      rw [List.nodup_append]
      refine ⟨hnd hst, ih3 hst, ?_⟩
      intro b hb b' hb' e
      exact K1 b' hb' (e ▸ (hmem b hb).2.2)
    · intro hacc g' hg'
      rw [List.countP_append]
      rcases List.mem_cons.mp hg' with e | e
      · rw [e, cP, cL, hex hacc]; rfl
      · rw [cP' g' e, ih4 hacc g' e]; omega
    · intro hacc
      rw [List.length_append, hex hacc, ih5 hacc, List.map_cons, List.sum_cons]

/-- a grouped selection over the action's groups satisfies every selection clause -/
theorem Grouped.selOK {cfg : AttackCfg} {w : World} {a : Aid} {act : AttackAct} {L : List Aid}
    (h : Grouped cfg w a (attackGroups cfg w a act) L) (hx : Excl cfg w a (attackGroups cfg w a act))
    (hlim : ∀ g ∈ attackGroups cfg w a act, g.lim ≤ (w.cfgOf a).simAttacks)
    (hkind : cfg.kind = .encoding ∨ cfg.kind = .selective) : SelOK cfg w a act L := by
  obtain ⟨h1, h2, h3, h4, h5⟩ := h.props hx
  refine ⟨h1, fun g hg => ⟨h2 g hg, hlim g hg⟩, ?_, h3, h4, h5⟩
  intro hk
  rcases hk with hk | hk <;> rcases hkind with hk' | hk' <;> rw [hk] at hk' <;> cases hk'

end World
end Abmarl
