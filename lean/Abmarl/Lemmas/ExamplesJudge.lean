import Abmarl.Lemmas.ExamplesObsKeys
import Abmarl.Spec.Examples
/-!
# The model's own trace passes the judge `specEx` (`examples_hist`)
-/
namespace Abmarl
open World
namespace Ex

/-! ## the Boolean hypotheses are the Prop hypotheses -/

theorem frameb_of_sframe {w0 w : World} (h : SFrame w0 w) : frameb w0 w = true := by
  simp [frameb, h.rows, h.cols, h.overlap, h.cfg, h.len]

theorem resetOK_of_b {cfg : Cfg} {w0 : World} {order : List StateComp} (h : resetOKb cfg w0 order = true) :
    ResetOK cfg w0 order := by
  simp only [resetOKb, Bool.and_eq_true, Bool.not_eq_true'] at h
  obtain ⟨⟨⟨h1, h2⟩, h3⟩, h4⟩ := h
  refine ⟨(any_isPosition_iff order).mp h1, ?_, (all_wfOn_iff w0 order).mp h3, ?_⟩
  · intro hm
    have := (any_isHealthClosed_iff order).mpr hm
    rw [h2] at this; cases this
  · rintro (hc | hc) <;> rw [hc] at h4 <;> exact (any_isHealth_iff order).mp h4

theorem actsOK_of_b {cfg : Cfg} {w0 : World} {acts : List (Aid × Act)} (h : actsOKb cfg w0 acts = true) :
    ActsOK cfg w0 acts := by
  unfold actsOKb at h
  unfold ActsOK
  cases hc : cfg.which <;> rw [hc] at h <;> simp only at h ⊢
  · exact fun x hx => List.all_eq_true.mp h x hx
  · exact fun x hx => List.all_eq_true.mp h x hx
  · simp only [Bool.and_eq_true, decide_eq_true_eq] at h
    refine ⟨h.1, fun act hl => ?_⟩
    have := h.2
    rw [hl] at this
    exact this
  · intro x hx
    have := List.all_eq_true.mp h x hx
    simpa using this
  · intro x hx
    have := List.all_eq_true.mp h x hx
    simpa using this

theorem ledgerFull_of_b {cfg : Cfg} {n : Nat} {r : Ledger} (h : ledgerFullb cfg n r = true) :
    LedgerFull cfg n r := by
  intro a ha hl
  simp only [ledgerFullb, List.all_eq_true, List.mem_filter, List.mem_range] at h
  exact h a ⟨ha, hl⟩

theorem mem_of_lookup {β : Type} (l : List (Aid × β)) (a : Aid) (v : β) (h : l.lookup a = some v) : (a, v) ∈ l := by
  induction l with
  | nil => cases h
  | cons p rest ih =>
    obtain ⟨k, x⟩ := p
    simp only [List.lookup] at h
    split at h
    · rename_i hk
      simp only [Option.some.injEq] at h
      have : a = k := by simpa using hk
      subst this; subst h
      exact List.mem_cons_self
    · exact List.mem_cons_of_mem _ (ih h)

theorem stepOK_of_b {cfg : Cfg} {w0 w : World} {acts : List (Aid × Act)} (hF : SFrame w0 w)
    (h1 : stepMustNotRaise cfg w acts = true) : StepOK cfg w0 acts := by
  have hn : w.n = w0.n := sframe_n hF
  simp only [stepMustNotRaise, Bool.and_eq_true, List.all_eq_true] at h1
  obtain ⟨⟨⟨⟨hin, _⟩, hlearn⟩, hdt⟩, hcls⟩ := h1
  have hitem : ∀ x ∈ acts, ItemOK cfg w0 x := by
    intro x hx
    have hi := hin x hx
    simp only [actInSpace, Bool.and_eq_true, decide_eq_true_eq] at hi
    obtain ⟨⟨hlt, hmv⟩, hat⟩ := hi
    refine ⟨by rw [← hn]; exact hlt, hlearn x hx, by rw [← inSpace_move_sframe hF]; exact hmv, ?_⟩
    intro hw hatt
    rcases hw with hw | hw <;> rw [hw] at hat <;> simp only [Bool.or_eq_true, Bool.not_eq_true'] at hat
    · rcases hat with hat | hat
      · rw [sframe_cfgOf hF, hatt] at hat; cases hat
      · rw [← inSpace_attack_sframe hF]; exact hat
    · rcases hat with hat | hat
      · rw [sframe_cfgOf hF, hatt] at hat; cases hat
      · rw [← inSpace_attack_sframe hF]; exact hat
  refine ⟨hitem, ?_, ?_⟩
  · intro hw
    rw [hw] at hcls
    simp only [Bool.and_eq_true, decide_eq_true_eq] at hcls
    obtain ⟨⟨hl, hlr⟩, hlt⟩ := hcls
    obtain ⟨act, hact⟩ := Option.isSome_iff_exists.mp hl
    have hmem := mem_of_lookup acts cfg.navigator act hact
    have := hitem (cfg.navigator, act) hmem
    exact ⟨act, hact, this⟩
  · intro hw x hx
    unfold donesTotal at hdt
    rw [hw] at hdt
    simp only at hdt
    cases hd : cfg.dones with
    | none => rw [hd] at hdt; cases hdt
    | some ds =>
      rw [hd] at hdt
      simp only [List.all_eq_true] at hdt
      refine ⟨ds, hd, fun c hc => ?_⟩
      have := hdt c hc
      cases c with
      | active => trivial
      | oneTeam => trivial
      | targetEncoding m one => trivial
      | targetOverlap m => simp only [List.all_eq_true] at this; exact this x hx
      | targetInactive m => simp only [List.all_eq_true] at this; exact this x hx

/-! ## one call -/

theorem runOp_entry_state (cfg : Cfg) (s : St) (op : EOp) (h : (runOp cfg s op).1.res.isErr = false) :
    (runOp cfg s op).1.w = (runOp cfg s op).2.w ∧ (runOp cfg s op).1.rewards = (runOp cfg s op).2.rewards := by
  cases op with
  | reset order tape =>
    simp only [runOp] at h ⊢
    split <;> simp_all [ERes.isErr]
  | step acts tape =>
    simp only [runOp] at h ⊢
    split <;> simp_all [ERes.isErr]
  | obs a tape =>
    simp only [runOp] at h ⊢
    split <;> simp_all [ERes.isErr]
  | rew a =>
    simp only [runOp] at h ⊢
    split <;> simp_all [ERes.isErr]
  | done a => exact ⟨rfl, rfl⟩
  | allDone => exact ⟨rfl, rfl⟩

/-- observers with the same key support the same agents -/
theorem supports_of_key {w : World} {a : Aid} {k k' : Observers.Kind} (h : keyOf k = keyOf k') :
    supports w a k = supports w a k' := by
  cases k <;> cases k' <;> first | rfl | (simp [keyOf] at h)

/-- the observation of the model lies in the declared space, with exactly the declared keys -/
theorem getObs_obsInSpace {cfg : Cfg} {s s' : St} {a : Aid} {o : List (String × Observers.Obs)}
    {ks : List Observers.Kind} (hobs : cfg.observers = some ks) (hI : s.w.WInv = true) (hP : AllInGrid s.w)
    (henc : ∀ b < s.w.n, 0 < s.w.encOf b) (hammo : ∀ b < s.w.n, 0 ≤ (s.w.cfgOf b).initAmmo)
    (h : getObs cfg s a = .ok (o, s')) : obsInSpace s.w a ks o = true := by
  unfold getObs at h
  split at h
  · cases h
  · rw [hobs] at h
    simp only at h
    split at h
    · rename_i ha
      split at h
      · cases h
      · rename_i outs t' hout
        simp only [Except.ok.injEq, Prod.mk.injEq] at h
        obtain ⟨hkeys, hitems⟩ := obsOuts_keys s.w a ks s.tape t' outs hout
        obtain ⟨outs', t'', hout', hdecl⟩ := obsOuts_declared s.w a hI ha (hP a ha) henc (hammo a ha) ks s.tape
        rw [hout] at hout'
        simp only [Except.ok.injEq, Prod.mk.injEq] at hout'
        rw [← hout'.1] at hdecl
        rw [← h.1]
        simp only [obsInSpace, Bool.and_eq_true, beq_iff_eq, List.all_eq_true, List.any_eq_true, bne_iff_ne, ne_eq]
        refine ⟨?_, ?_⟩
        · rw [keys_mergeObs, hkeys]; rfl
        · intro p hp
          obtain ⟨items, hi, hpi⟩ := mem_mergeObs outs p hp
          obtain ⟨hne, _⟩ := hitems items hi p hpi
          refine ⟨hne, ?_⟩
          -- the observer that produced the item declared the space its value lies in; it supports the agent
          obtain ⟨k, hk, hkey, hd⟩ := hdecl items hi p hpi
          refine ⟨k, hk, ⟨hkey, ?_⟩, hd⟩
          -- `declared` of a value that is not `unsupported` for kind `k` forces `supports`
          cases hs : supports s.w a k with
          | true => rfl
          | false =>
            exfalso
            -- the item came from SOME observer k' with this key that supports the agent; kinds with the same key
            -- have the same support (`supports` depends on the key only)
            obtain ⟨_, k', _, hkey', hs'⟩ := hitems items hi p hpi
            have : supports s.w a k = supports s.w a k' := supports_of_key (hkey.trans hkey'.symm)
            rw [this, hs'] at hs; cases hs
    · cases h

theorem reset_shape {cfg : Cfg} {order : List StateComp} {s s' : St} (h : reset cfg order s = .ok s') :
    s'.rewards = some (zeroRewards cfg s'.w.n) := by
  unfold reset at h
  split at h
  · cases h
  · split at h
    · cases h
    · simp only [Except.ok.injEq] at h
      subst h; rfl

theorem step_shape {cfg : Cfg} {s s' : St} {acts : List (Aid × Act)} (h : step cfg s acts = .ok s') :
    ∃ r p, s.rewards = some r ∧ stepPS cfg ⟨s.w, r, s.tape⟩ acts = .ok p ∧ s' = ⟨p.w, some p.r, p.t⟩ := by
  unfold step at h
  split at h
  · cases h
  · rename_i r hr
    split at h
    · cases h
    · rename_i p hp
      simp only [Except.ok.injEq] at h
      exact ⟨r, p, hr, hp, h.symm⟩

theorem getObs_observers {cfg : Cfg} {s s' : St} {a : Aid} {o : List (String × Observers.Obs)}
    (h : getObs cfg s a = .ok (o, s')) : ∃ ks, cfg.observers = some ks ∧ s.rewards.isSome = true := by
  unfold getObs at h
  split at h
  · cases h
  · rename_i r hr
    split at h
    · cases h
    · rename_i ks hks
      exact ⟨ks, hks, by rw [hr]; rfl⟩

/-- the hypotheses on the constructed world -/
structure WorldOK (w0 : World) : Prop where
  cfgok : CfgOK w0
  fresh : w0.vitalsAlive = true
  enc : ∀ b < w0.n, 0 < w0.encOf b
  ammo : ∀ b < w0.n, 0 ≤ (w0.cfgOf b).initAmmo

theorem good_inv {cfg : Cfg} {w0 : World} {s : St} {r : Ledger} (hG : Good cfg w0 s) (hr : s.rewards = some r) :
    Inv cfg w0 s.w := by
  unfold Good at hG
  rw [hr] at hG
  exact hG

/-- **one call of the model passes the judge** -/
theorem judge1_model {cfg : Cfg} {w0 : World} (hW : WorldOK w0) (s : St) (op : EOp) (hop : OpOK cfg w0 op)
    (hG : GoodP cfg w0 s) : judge1 cfg w0 ⟨s.w, s.rewards⟩ op (runOp cfg s op).1 = true := by
  cases op with
  | reset order tape =>
    simp only [runOp]
    cases h : reset cfg order { s with tape := tape } with
    | error e => simp [judge1]
    | ok s' =>
      obtain ⟨_, hX⟩ := reset_good hW.cfgok hW.fresh hop (s := { s with tape := tape }) hG.1.1 h
      simp [judge1, hX.inv, frameb_of_sframe hX.frame, reset_shape h]
  | step acts tape =>
    simp only [runOp]
    cases h : step cfg { s with tape := tape } acts with
    | error e =>
      simp only [judge1]
      cases hr : s.rewards with
      | none => rfl
      | some r =>
        simp only [Bool.not_eq_true', Bool.and_eq_false_iff]
        by_cases h1 : s.w.WInv = true
        · by_cases h2 : stepMustNotRaise cfg s.w acts = true
          · by_cases h3 : ledgerFullb cfg s.w.n r = true
            · exfalso
              have hI := good_inv hG.1.1 hr
              have hS := stepOK_of_b hI.xinv.frame h2
              obtain ⟨s', hs'⟩ := step_ok hW.cfgok { s with tape := tape } hG.1 (by simp [hr]) acts hS
              rw [hs'] at h; cases h
            · exact Or.inr (by simpa using h3)
          · exact Or.inl (Or.inr (by simpa using h2))
        · exact Or.inl (Or.inl (by simpa using h1))
    | ok s' =>
      obtain ⟨r, p, hr, hp, hs'⟩ := step_shape h
      obtain ⟨_, _, _, _, hI⟩ := step_good hW.cfgok hop (s := { s with tape := tape }) hG.1.1 h
      have hk := stepPS_keylist hp
      simp only at hr hk
      subst hs'
      simp [judge1, hI.xinv.inv, frameb_of_sframe hI.xinv.frame, hr, hk]
  | obs a tape =>
    simp only [runOp]
    cases h : getObs cfg { s with tape := tape } a with
    | error e => simp [judge1]
    | ok r =>
      obtain ⟨o, s'⟩ := r
      obtain ⟨ks, hks, hsome⟩ := getObs_observers h
      obtain ⟨t', rfl⟩ := getObs_shape h
      obtain ⟨r0, hr0⟩ := Option.isSome_iff_exists.mp hsome
      have hI := good_inv hG.1.1 hr0
      have hn : s.w.n = w0.n := sframe_n hI.xinv.frame
      have hos := getObs_obsInSpace (s := { s with tape := tape }) hks hI.xinv.inv (hG.2 hsome)
        (fun b hb => by rw [sframe_encOf hI.xinv.frame]; exact hW.enc b (by rw [← hn]; exact hb))
        (fun b hb => by rw [sframe_cfgOf hI.xinv.frame]; exact hW.ammo b (by rw [← hn]; exact hb)) h
      simp only at hos
      simp [judge1, hks, hos]
  | rew a =>
    simp only [runOp]
    cases h : getReward cfg s a with
    | error e => simp [judge1]
    | ok r =>
      obtain ⟨x, s'⟩ := r
      obtain ⟨r0, hr0, hv, rfl⟩ := getReward_shape h
      simp only [judge1, hr0, beq_self_eq_true, Bool.true_and, beq_iff_eq]
      simp only [rewardVal] at hv
      cases hlk : r0.lookup a with
      | none => rw [hlk] at hv; cases hv
      | some y => rw [hlk] at hv; cases hv; rfl
  | done a =>
    simp only [runOp, getDone]
    cases hr : s.rewards with
    | none => simp [judge1, resOfBool]
    | some r =>
      simp only
      cases hd : doneW cfg s.w a with
      | error e => simp [judge1, resOfBool]
      | ok b => simp [judge1, resOfBool, hd]
  | allDone =>
    simp only [runOp, getAllDone]
    cases hr : s.rewards with
    | none => simp [judge1, resOfBool]
    | some r =>
      simp only
      cases hd : allDoneW cfg s.w with
      | error e => simp [judge1, resOfBool]
      | ok b => simp [judge1, resOfBool, hd]

/-- **the model's own trace passes the judge**, from any good state -/
theorem specFrom_model {cfg : Cfg} {w0 : World} (hW : WorldOK w0) :
    ∀ (ops : List EOp) (s : St), (∀ op ∈ ops, OpOK cfg w0 op) → GoodP cfg w0 s →
      specFrom cfg w0 ⟨s.w, s.rewards⟩ (zipOps ops (runOps cfg s ops).1) = true := by
  intro ops
  induction ops with
  | nil => intro s _ _; rfl
  | cons op ops ih =>
    intro s hops hG
    have hj := judge1_model hW s op (hops op List.mem_cons_self) hG
    have hG' := runOp_goodP hW.cfgok hW.fresh s op (hops op List.mem_cons_self) hG
    simp only [runOps]
    cases he : (runOp cfg s op).1.res.isErr with
    | true =>
      simp only [if_true, zipOps, specFrom, hj, Bool.true_and]
      cases hres : (runOp cfg s op).1.res <;> simp_all [ERes.isErr]
    | false =>
      simp only [Bool.false_eq_true, if_false, zipOps, specFrom, hj, Bool.true_and]
      obtain ⟨e1, e2⟩ := runOp_entry_state cfg s op he
      have := ih (runOp cfg s op).2 (fun o ho => hops o (List.mem_cons_of_mem _ ho)) hG'
      rw [← e1, ← e2] at this
      cases hres : (runOp cfg s op).1.res <;> simp_all [ERes.isErr]

/-- `exPre` is the conjunction of the hypotheses -/
theorem exPre_hyps {cfg : Cfg} {w0 : World} {ops : List EOp} (h : exPre cfg w0 ops = true) :
    WorldOK w0 ∧ ∀ op ∈ ops, OpOK cfg w0 op := by
  simp only [exPre, Bool.and_eq_true, List.all_eq_true, allAgents, List.mem_range, decide_eq_true_eq] at h
  obtain ⟨⟨⟨⟨⟨h1, h2⟩, _⟩, h4⟩, _⟩, h6⟩ := h
  refine ⟨⟨(cfgOKb_iff w0).mp h1, h2, fun b hb => (h4 b hb).1, fun b hb => (h4 b hb).2⟩, ?_⟩
  intro op hop
  have := h6 op hop
  cases op with
  | reset order tape => exact resetOK_of_b this
  | step acts tape => exact actsOK_of_b this
  | obs a tape => trivial
  | rew a => trivial
  | done a => trivial
  | allDone => trivial

end Ex
end Abmarl
