import Abmarl.Lemmas.AttacksWin
/-!
# C11 lemmas, part 3a: `BinaryAttackActor._determine_attack`
-/
namespace Abmarl
namespace World

theorem expected_zero (stacked : Bool) (E : Nat) : expected stacked 0 E = 0 := by
  unfold expected; cases stacked <;> simp

theorem attackGroups_binary {cfg : AttackCfg} (w : World) (a : Aid) (k : Nat) (hk : cfg.kind = .binary) :
    attackGroups cfg w a (.count k) = [⟨fun _ => true, k⟩] := by
  unfold attackGroups; rw [hk]

/-- the scan of the whole window followed by `_subset_attackables`, in the form the
specification needs: some sublist `S` of the eligible candidates (all of them at accuracy 1),
and a legal pick from `S` -/
theorem binary_scan {cfg : AttackCfg} {w : World} {a : Aid} {s : List Int}
    (hmap : cfg.mapping.lookup (w.encOf a) = some s) (k : Nat) (hk : k ≠ 0) (t : Tape) :
    ∃ S L t1, determineBinary cfg w a k t = .ok ((true, L), t1) ∧
      S.Sublist ((w.windowCands a (w.cfgOf a).attackRange
          (Mask.maskOf (w.cfgOf a).attackRange (w.attackBlockers a))).filter (detOK cfg w a)) ∧
      (1 ≤ (w.cfgOf a).accuracy → S = (w.windowCands a (w.cfgOf a).attackRange
          (Mask.maskOf (w.cfgOf a).attackRange (w.attackBlockers a))).filter (detOK cfg w a)) ∧
      Picked cfg.stacked S k L := by
  obtain ⟨S, t1, hs, hsub, hall⟩ := scanCands_sound hmap
    (w.windowCands a (w.cfgOf a).attackRange (Mask.maskOf (w.cfgOf a).attackRange (w.attackBlockers a))) t
  unfold determineBinary
  rw [if_neg hk]
  simp only [hs]
  by_cases hS : S.isEmpty = true
  · refine ⟨S, [], t1, by simp [hS], hsub, hall, ?_⟩
    rw [List.isEmpty_iff.mp hS]; exact Picked.nil _ _
  · exact ⟨S, (subsetAttackables cfg.stacked S k t1).1, (subsetAttackables cfg.stacked S k t1).2,
      by simp [hS], hsub, hall, subsetAttackables_picked _ _ _ _⟩

theorem determineBinary_sound {cfg : AttackCfg} {w : World} {a : Aid} {s : List Int} (hI : w.WInv = true)
    (hmap : cfg.mapping.lookup (w.encOf a) = some s) (hkind : cfg.kind = .binary) (k : Nat)
    (hk : k ≤ (w.cfgOf a).simAttacks) (t : Tape) :
    ∃ st L t1, determineBinary cfg w a k t = .ok ((st, L), t1) ∧ SelOK cfg w a (.count k) L := by
  by_cases hk0 : k = 0
  · refine ⟨false, [], t, by simp [determineBinary, hk0], ?_⟩
    subst hk0
    refine ⟨fun b hb => (by cases hb), ?_, fun _ => Nat.zero_le _, fun _ => List.nodup_nil, ?_, ?_⟩
    · intro g hg; rw [attackGroups_binary w a 0 hkind] at hg
      simp only [List.mem_singleton] at hg; subst hg; simp
    · intro _ g hg; rw [attackGroups_binary w a 0 hkind] at hg
      simp only [List.mem_singleton] at hg; subst hg; simp [expected_zero]
    · intro _; simp [totalExpected, attackGroups_binary w a 0 hkind, expected_zero]
  · obtain ⟨S, L, t1, hdet, hsub, hall, hpick⟩ := binary_scan hmap k hk0 t
    refine ⟨true, L, t1, hdet, ?_⟩
    obtain ⟨C, hC⟩ : ∃ C, C = (w.windowCands a (w.cfgOf a).attackRange
          (Mask.maskOf (w.cfgOf a).attackRange (w.attackBlockers a))).filter (detOK cfg w a) := ⟨_, rfl⟩
    rw [← hC] at hsub hall
    have hCnd : C.Nodup := by rw [hC]; exact (nodup_windowCands hI a _).filter _
    have hCmem : ∀ b, b ∈ C ↔ b < w.n ∧ eligible cfg w a b = true := by
      intro b; rw [hC]; exact mem_windowCands_det hI cfg a b
    have hlen : L.length ≤ k := hpick.length_le
    refine ⟨?_, ?_, fun _ => le_trans hlen hk, ?_, ?_, ?_⟩
    · intro b hb
      have := (hCmem b).mp (hsub.subset (hpick.mem b hb))
      exact ⟨this.1, this.2, ⟨fun _ => true, k⟩, by rw [attackGroups_binary w a k hkind]; simp,
        rfl, Nat.pos_of_ne_zero hk0⟩
    · intro g hg; rw [attackGroups_binary w a k hkind] at hg
      simp only [List.mem_singleton] at hg; subst hg
      simp only [List.countP_true]; exact ⟨hlen, hk⟩
    · intro hst
      rw [hst] at hpick
      exact hpick.nodup (hsub.nodup hCnd)
    · intro hacc g hg; rw [attackGroups_binary w a k hkind] at hg
      simp only [List.mem_singleton] at hg; subst hg
      rw [List.countP_true, hpick.length_eq, hall hacc,
        length_eq_countP (cfg := cfg) (w := w) (a := a) (fun _ => true) hCnd
          (fun b => by rw [hCmem b]; simp)]
      simp only [List.countP_true]
    · intro hacc
      simp only [totalExpected, attackGroups_binary w a k hkind, List.map_cons, List.map_nil,
        List.sum_cons, List.sum_nil, Nat.add_zero]
      rw [hpick.length_eq, hall hacc,
        length_eq_countP (cfg := cfg) (w := w) (a := a) (fun _ => true) hCnd
          (fun b => by rw [hCmem b]; simp)]

end World
end Abmarl
