import Abmarl.Lemmas.ExamplesHist
/-!
# Observations of a packaged example lie in the declared spaces
-/
namespace Abmarl
open World
namespace Ex

theorem mem_dictSet {κ υ : Type} [DecidableEq κ] (d : List (κ × υ)) (k : κ) (v : υ) (q : κ × υ)
    (h : q ∈ dictSet d k v) : q ∈ d ∨ q = (k, v) := by
  induction d with
  | nil => simp only [dictSet, List.mem_singleton] at h; exact Or.inr h
  | cons p rest ih =>
    obtain ⟨k', v'⟩ := p
    simp only [dictSet] at h
    split at h
    · rename_i hk
      rcases List.mem_cons.mp h with h | h
      · exact Or.inr (by rw [h, hk])
      · exact Or.inl (List.mem_cons_of_mem _ h)
    · rcases List.mem_cons.mp h with h | h
      · exact Or.inl (by rw [h]; exact List.mem_cons_self)
      · rcases ih h with h | h
        · exact Or.inl (List.mem_cons_of_mem _ h)
        · exact Or.inr h

theorem mem_foldl_dictSet {κ υ : Type} [DecidableEq κ] (items : List (κ × υ)) :
    ∀ (d : List (κ × υ)) (q : κ × υ), q ∈ items.foldl (fun d p => dictSet d p.1 p.2) d → q ∈ d ∨ q ∈ items := by
  induction items with
  | nil => intro d q h; exact Or.inl h
  | cons p rest ih =>
    intro d q h
    simp only [List.foldl_cons] at h
    rcases ih _ q h with h | h
    · rcases mem_dictSet d p.1 p.2 q h with h | h
      · exact Or.inl h
      · exact Or.inr (by rw [h]; exact List.mem_cons_self)
    · exact Or.inr (List.mem_cons_of_mem _ h)

/-- every item of the merged dict was returned by one of the observers -/
theorem mem_mergeObs {κ υ : Type} [DecidableEq κ] (outs : List (List (κ × υ))) (q : κ × υ)
    (h : q ∈ mergeObs outs) : ∃ items ∈ outs, q ∈ items := by
  unfold mergeObs dictOf at h
  rcases mem_foldl_dictSet _ [] q h with h | h
  · cases h
  · exact List.mem_flatten.mp h

theorem mem_itemsOf {k : Observers.Kind} {o : Observers.Obs} {p : String × Observers.Obs}
    (h : p ∈ itemsOf k o) : p = (keyOf k, o) := by
  cases o <;> simp_all [itemsOf]

/-- in a world satisfying the invariant every observer of the list returns, and what it returns lies
in the space it declared -/
theorem obsOuts_declared (w : World) (a : Aid) (hI : w.WInv = true) (ha : a < w.n)
    (hpos : w.inGrid (w.stOf a).pos = true) (henc : ∀ b < w.n, 0 < w.encOf b)
    (hammo : 0 ≤ (w.cfgOf a).initAmmo) :
    ∀ (ks : List Observers.Kind) (t : Tape), ∃ outs t', obsOuts w a ks t = .ok (outs, t') ∧
      ∀ items ∈ outs, ∀ p ∈ items, ∃ k ∈ ks, keyOf k = p.1 ∧ Observers.declared w a k p.2 = true := by
  intro ks
  induction ks with
  | nil => intro t; exact ⟨[], t, rfl, fun _ h => by cases h⟩
  | cons k ks ih =>
    intro t
    obtain ⟨o, t1, hget, hdecl⟩ := Observers.getObs_declared w a k t hI ha hpos henc hammo
    obtain ⟨rest, t2, hrest, hall⟩ := ih t1
    refine ⟨itemsOf k o :: rest, t2, by simp only [obsOuts, hget, hrest], ?_⟩
    intro items hi p hp
    rcases List.mem_cons.mp hi with hi | hi
    · subst hi
      have := mem_itemsOf hp
      subst this
      exact ⟨k, List.mem_cons_self, rfl, hdecl⟩
    · obtain ⟨k', hk', h1, h2⟩ := hall items hi p hp
      exact ⟨k', List.mem_cons_of_mem _ hk', h1, h2⟩

/-- **`get_obs` in a world of the invariant**: it returns, and every channel of the observation dict
is the channel of one of the simulation's observers with a value inside the space that observer
declared -/
theorem getObs_in_space (cfg : Cfg) (s : St) (a : Aid) (ks : List Observers.Kind)
    (hobs : cfg.observers = some ks) (hstarted : s.rewards.isSome = true) (hI : s.w.WInv = true)
    (ha : a < s.w.n) (hpos : (s.w.stOf a).active = true ∨ s.w.inGrid (s.w.stOf a).pos = true)
    (henc : ∀ b < s.w.n, 0 < s.w.encOf b) (hammo : 0 ≤ (s.w.cfgOf a).initAmmo) :
    ∃ o s', getObs cfg s a = .ok (o, s') ∧
      ∀ p ∈ o, ∃ k ∈ ks, keyOf k = p.1 ∧ Observers.declared s.w a k p.2 = true := by
  have hpos' : s.w.inGrid (s.w.stOf a).pos = true := by
    rcases hpos with hact | hp
    · exact (placed_of_WInv hI ha hact).inG
    · exact hp
  obtain ⟨outs, t', hout, hall⟩ := obsOuts_declared s.w a hI ha hpos' henc hammo ks s.tape
  cases hr : s.rewards with
  | none => rw [hr] at hstarted; cases hstarted
  | some r =>
    refine ⟨mergeObs outs, { s with tape := t' }, by simp only [getObs, hr, hobs, ha, if_true, hout], ?_⟩
    intro p hp
    obtain ⟨items, hi, hpi⟩ := mem_mergeObs outs p hp
    exact hall items hi p hpi

end Ex
end Abmarl
