import Abmarl.Lemmas.MixedRadix
import Abmarl.Spec.Spaces
/-!
# Ravel / unravel: leaf lemmas and the two mutual inductions over `Space` / `List Space`

`ravel_fwd`  : a member is ravelled to a number below `card`, the recomputed dimension is
               `card`, and unravelling that number gives the member back.
`unravel_bwd`: a number below `card` is unravelled to a member which ravels to the number.
-/
namespace Abmarl

/-! ## leaves: arrays of digits -/

theorem ints?_natNums (ds : List Nat) : ints? (ds.map natNum) = some (ofNats ds) := by
  induction ds with
  | nil => rfl
  | cons d ds ih => simp only [List.map_cons, natNum, ints?, ih, ofNats_cons]

theorem memMD_digits : ∀ (rs : List Nat) (vs : List Num), memMD rs vs = true →
    ∃ ds, vs = ds.map natNum ∧ inRange rs ds
  | [], [], _ => ⟨[], rfl, trivial⟩
  | [], _ :: _, h => by simp [memMD] at h
  | _ :: _, [], h => by simp [memMD] at h
  | _ :: _, .flt _ :: _, h => by simp [memMD] at h
  | r :: rs, .int v :: vs, h => by
    simp only [memMD, Bool.and_eq_true, decide_eq_true_eq] at h
    obtain ⟨ds, hds, hr⟩ := memMD_digits rs vs h.2
    refine ⟨v.toNat :: ds, ?_, ?_⟩
    · simp only [List.map_cons, natNum, hds]
      congr 2
      exact (Int.toNat_of_nonneg h.1.1).symm
    · exact ⟨by omega, hr⟩

theorem memMD_of_inRange : ∀ (rs ds : List Nat), inRange rs ds → memMD rs (ds.map natNum) = true
  | [], [], _ => rfl
  | [], _ :: _, h => by simp [inRange] at h
  | _ :: _, [], h => by simp [inRange] at h
  | r :: rs, d :: ds, h => by
    simp only [inRange] at h
    simp only [List.map_cons, natNum, memMD, Bool.and_eq_true, decide_eq_true_eq]
    exact ⟨⟨Int.natCast_nonneg d, by show (d : Int) < (r : Int); omega⟩, memMD_of_inRange rs ds h.2⟩

theorem memMB_eq_memMD : ∀ (n : Nat) (vs : List Num), memMB n vs = memMD (List.replicate n 2) vs
  | 0, [] => rfl
  | 0, _ :: _ => by simp [memMB, memMD]
  | _ + 1, [] => by simp [memMB, memMD, List.replicate_succ]
  | _ + 1, .flt _ :: _ => by simp [memMB, memMD, List.replicate_succ]
  | n + 1, .int v :: vs => by
    simp only [memMB, List.replicate_succ, memMD, memMB_eq_memMD n vs]
    congr 1
    rw [Bool.eq_iff_iff]
    simp only [Bool.or_eq_true, Bool.and_eq_true, decide_eq_true_eq]
    constructor
    · rintro (h | h) <;> subst h <;> decide
    · rintro ⟨h1, h2⟩
      have : v < 2 := h2
      omega

theorem memBoxI_digits : ∀ (lo hi : List Int) (vs : List Num), memBoxI lo hi vs = true →
    ∃ ds is, vs = addLow ds lo ∧ inRange (radices lo hi) ds ∧ ints? vs = some is ∧
      subLow is lo = some (ofNats ds)
  | [], [], [], _ => ⟨[], [], rfl, trivial, rfl, rfl⟩
  | [], [], _ :: _, h => by simp [memBoxI] at h
  | [], _ :: _, _, h => by simp [memBoxI] at h
  | _ :: _, [], _, h => by simp [memBoxI] at h
  | _ :: _, _ :: _, [], h => by simp [memBoxI] at h
  | _ :: _, _ :: _, .flt _ :: _, h => by simp [memBoxI] at h
  | l :: ls, h' :: hs, .int v :: vs, h => by
    simp only [memBoxI, Bool.and_eq_true, decide_eq_true_eq] at h
    obtain ⟨ds, is, hvs, hr, hi, hs'⟩ := memBoxI_digits ls hs vs h.2
    refine ⟨(v - l).toNat :: ds, v :: is, ?_, ?_, ?_, ?_⟩
    · simp only [addLow, hvs]
      congr 2
      have : ((v - l).toNat : Int) = v - l := Int.toNat_of_nonneg (by omega)
      omega
    · simp only [radices, inRange]
      exact ⟨by omega, hr⟩
    · simp only [ints?, hi]
    · simp only [subLow, hs', ofNats_cons]
      congr 2
      exact (Int.toNat_of_nonneg (by omega)).symm

theorem memBoxI_of_inRange : ∀ (lo hi : List Int) (ds : List Nat), lo.length = hi.length →
    inRange (radices lo hi) ds → memBoxI lo hi (addLow ds lo) = true
  | [], [], [], _, _ => rfl
  | [], [], _ :: _, _, h => by simp [radices, inRange] at h
  | [], _ :: _, _, hl, _ => by simp at hl
  | _ :: _, [], _, hl, _ => by simp at hl
  | _ :: _, _ :: _, [], _, h => by simp [radices, inRange] at h
  | l :: ls, h' :: hs, d :: ds, hl, h => by
    simp only [radices, inRange] at h
    simp only [addLow, memBoxI, Bool.and_eq_true, decide_eq_true_eq]
    refine ⟨⟨by omega, by omega⟩, memBoxI_of_inRange ls hs ds (by simpa using hl) h.2⟩

theorem addLow_digits : ∀ (lo hi : List Int) (ds : List Nat), lo.length = hi.length →
    inRange (radices lo hi) ds →
    ∃ is, ints? (addLow ds lo) = some is ∧ subLow is lo = some (ofNats ds) := by
  intro lo hi ds hl h
  obtain ⟨ds', is, hvs, hr, hi', hs⟩ := memBoxI_digits lo hi _ (memBoxI_of_inRange lo hi ds hl h)
  refine ⟨is, hi', ?_⟩
  -- the digits recovered from `addLow ds lo` are `ds` again
  have : ∀ (lo : List Int) (ds ds' : List Nat), ds.length = lo.length → ds'.length = lo.length →
      addLow ds lo = addLow ds' lo → ds = ds' := by
    intro lo
    induction lo with
    | nil => intro ds ds' h1 h2 _; simp at h1 h2; rw [h1, h2]
    | cons l ls ih =>
      intro ds ds' h1 h2 he
      cases ds with
      | nil => simp at h1
      | cons d ds =>
        cases ds' with
        | nil => simp at h2
        | cons d' ds' =>
          simp only [addLow, List.cons.injEq, Num.int.injEq] at he
          have := ih ds ds' (by simpa using h1) (by simpa using h2) he.2
          rw [this]
          congr 1
          omega
  have hlen : ∀ (lo hi : List Int), lo.length = hi.length → (radices lo hi).length = lo.length := by
    intro lo
    induction lo with
    | nil => intro hi _; cases hi <;> rfl
    | cons l ls ih =>
      intro hi hl
      cases hi with
      | nil => simp at hl
      | cons h hs => simp [radices, ih hs (by simpa using hl)]
  have h1 := inRange_length _ _ h
  have h2 := inRange_length _ _ hr
  rw [hlen lo hi hl] at h1 h2
  rw [this lo ds ds' h1 h2 hvs]
  exact hs

theorem boundsOk_length : ∀ (lo hi : List Int), boundsOk lo hi = true → lo.length = hi.length
  | [], [], _ => rfl
  | [], _ :: _, h => by simp [boundsOk] at h
  | _ :: _, [], h => by simp [boundsOk] at h
  | _ :: ls, _ :: hs, h => by
    simp only [boundsOk, Bool.and_eq_true] at h
    simp [boundsOk_length ls hs h.2]

theorem radices_pos : ∀ (lo hi : List Int), boundsOk lo hi = true → ∀ r ∈ radices lo hi, 0 < r
  | [], [], _ => by simp [radices]
  | [], _ :: _, h => by simp [boundsOk] at h
  | _ :: _, [], h => by simp [boundsOk] at h
  | l :: ls, h' :: hs, h => by
    simp only [boundsOk, Bool.and_eq_true, decide_eq_true_eq] at h
    intro r hr
    simp only [radices, List.mem_cons] at hr
    rcases hr with hr | hr
    · subst hr; omega
    · exact radices_pos ls hs h.2 r hr

theorem allPos_iff : ∀ (rs : List Nat), allPos rs = true → ∀ r ∈ rs, 0 < r
  | [], _ => by simp
  | r :: rs, h => by
    simp only [allPos, Bool.and_eq_true, decide_eq_true_eq] at h
    intro x hx
    simp only [List.mem_cons] at hx
    rcases hx with hx | hx
    · subst hx; exact h.1
    · exact allPos_iff rs h.2 x hx

/-! ## the forward induction: members -/

mutual
theorem ravel_fwd : ∀ (s : Space) (p : Pt), wf s = true → mem s p = true →
    ∃ k : Nat, ravelH s p = some ((k : Int), card s) ∧ k < card s ∧ unravel s k = some p
  | .discrete n st, p, hw, hm => by
    simp only [wf, Bool.and_eq_true, decide_eq_true_eq] at hw
    obtain ⟨_, hst⟩ := hw
    subst hst
    cases p with
    | scalar v =>
      cases v with
      | int v =>
        simp only [mem, Bool.and_eq_true, decide_eq_true_eq] at hm
        refine ⟨v.toNat, ?_, ?_, ?_⟩
        · simp only [ravelH, card]; rw [Int.toNat_of_nonneg hm.1]
        · simp only [card]; omega
        · simp only [unravel]; rw [Int.toNat_of_nonneg hm.1]
      | flt q => simp [mem] at hm
    | arr vs => simp [mem] at hm
    | dict k ps => simp [mem] at hm
    | tuple ps => simp [mem] at hm
  | .multiBinary n, p, _, hm => by
    cases p with
    | arr vs =>
      simp only [mem, memMB_eq_memMD] at hm
      obtain ⟨ds, hds, hr⟩ := memMD_digits _ _ hm
      obtain ⟨k, hk, hlt, hdec⟩ := encode_spec _ _ hr
      subst hds
      refine ⟨k, ?_, ?_, ?_⟩
      · simp only [ravelH, ints?_natNums, hk, card]
      · simpa [card, prod_replicate] using hlt
      · simp only [unravel, hdec, Option.map_some, natsToPt]
    | scalar v => simp [mem] at hm
    | dict k ps => simp [mem] at hm
    | tuple ps => simp [mem] at hm
  | .multiDiscrete nvec, p, _, hm => by
    cases p with
    | arr vs =>
      simp only [mem] at hm
      obtain ⟨ds, hds, hr⟩ := memMD_digits _ _ hm
      obtain ⟨k, hk, hlt, hdec⟩ := encode_spec _ _ hr
      subst hds
      refine ⟨k, ?_, ?_, ?_⟩
      · simp only [ravelH, ints?_natNums, hk, card]
      · simpa [card] using hlt
      · simp only [unravel, hdec, Option.map_some, natsToPt]
    | scalar v => simp [mem] at hm
    | dict k ps => simp [mem] at hm
    | tuple ps => simp [mem] at hm
  | .box shape lo hi wide, p, _, hm => by
    cases p with
    | arr vs =>
      simp only [mem] at hm
      obtain ⟨ds, is, hvs, hr, hi', hs⟩ := memBoxI_digits _ _ _ hm
      obtain ⟨k, hk, hlt, hdec⟩ := encode_spec _ _ hr
      refine ⟨k, ?_, ?_, ?_⟩
      · simp only [ravelH, hi', hs, hk, card]
      · simpa [card] using hlt
      · simp only [unravel, hdec, Option.map_some, hvs]
    | scalar v => simp [mem] at hm
    | dict k ps => simp [mem] at hm
    | tuple ps => simp [mem] at hm
  | .fbox _ _ _, _, hw, _ => by simp [wf] at hw
  | .ubox _, _, hw, _ => by simp [wf] at hw
  | .dict keys ss, p, hw, hm => by
    simp only [wf, Bool.and_eq_true] at hw
    cases p with
    | dict pk ps =>
      simp only [mem, Bool.and_eq_true, decide_eq_true_eq] at hm
      obtain ⟨hk, hm⟩ := hm
      subst hk
      obtain ⟨ks, h1, h2, h3⟩ := ravelL_fwd ss ps hw.2 hm
      obtain ⟨k, hk, hlt, hdec⟩ := encode_spec _ _ h2
      refine ⟨k, ?_, ?_, ?_⟩
      · simp only [ravelH, if_true, h1, hk, card]
      · simpa [card] using hlt
      · simp only [unravel, hdec, h3, Option.map_some]
    | scalar v => simp [mem] at hm
    | arr vs => simp [mem] at hm
    | tuple ps => simp [mem] at hm
  | .tuple ss, p, hw, hm => by
    simp only [wf, Bool.and_eq_true] at hw
    cases p with
    | tuple ps =>
      simp only [mem] at hm
      obtain ⟨ks, h1, h2, h3⟩ := ravelL_fwd ss ps hw.2 hm
      obtain ⟨k, hk, hlt, hdec⟩ := encode_spec _ _ h2
      refine ⟨k, ?_, ?_, ?_⟩
      · simp only [ravelH, h1, hk, card]
      · simpa [card] using hlt
      · simp only [unravel, hdec, h3, Option.map_some]
    | scalar v => simp [mem] at hm
    | arr vs => simp [mem] at hm
    | dict k ps => simp [mem] at hm
theorem ravelL_fwd : ∀ (ss : List Space) (ps : List Pt), wfL ss = true → memL ss ps = true →
    ∃ ks : List Nat, ravelL ss ps = some (ofNats ks, cardL ss) ∧ inRange (cardL ss) ks ∧
      unravelL ss ks = some ps
  | [], [], _, _ => ⟨[], rfl, trivial, rfl⟩
  | [], _ :: _, _, hm => by simp [memL] at hm
  | _ :: _, [], _, hm => by simp [memL] at hm
  | s :: ss, p :: ps, hw, hm => by
    simp only [wfL, Bool.and_eq_true] at hw
    simp only [memL, Bool.and_eq_true] at hm
    obtain ⟨k, h1, h2, h3⟩ := ravel_fwd s p hw.1 hm.1
    obtain ⟨ks, g1, g2, g3⟩ := ravelL_fwd ss ps hw.2 hm.2
    refine ⟨k :: ks, ?_, ?_, ?_⟩
    · simp only [ravelL, h1, g1, cardL, ofNats_cons]; rfl
    · exact ⟨h2, g2⟩
    · simp only [unravelL, h3, g3]
end

/-! ## the backward induction: numbers below `card` -/

mutual
theorem unravel_bwd : ∀ (s : Space) (k : Nat), wf s = true → k < card s →
    ∃ p, unravel s k = some p ∧ mem s p = true ∧ ravelH s p = some ((k : Int), card s)
  | .discrete n st, k, hw, hk => by
    simp only [wf, Bool.and_eq_true, decide_eq_true_eq] at hw
    obtain ⟨_, hst⟩ := hw
    subst hst
    simp only [card] at hk
    refine ⟨.scalar (.int (k : Int)), rfl, ?_, rfl⟩
    simp only [mem, Bool.and_eq_true, decide_eq_true_eq]
    omega
  | .multiBinary n, k, _, hk => by
    simp only [card, ← prod_replicate] at hk
    obtain ⟨ds, hdec, hr, henc⟩ := decode_spec _ _ hk
    refine ⟨natsToPt ds, ?_, ?_, ?_⟩
    · simp only [unravel, hdec, Option.map_some]
    · simp only [natsToPt, mem, memMB_eq_memMD]; exact memMD_of_inRange _ _ hr
    · simp only [natsToPt, ravelH, ints?_natNums, henc, card]
  | .multiDiscrete nvec, k, _, hk => by
    simp only [card] at hk
    obtain ⟨ds, hdec, hr, henc⟩ := decode_spec _ _ hk
    refine ⟨natsToPt ds, ?_, ?_, ?_⟩
    · simp only [unravel, hdec, Option.map_some]
    · simp only [natsToPt, mem]; exact memMD_of_inRange _ _ hr
    · simp only [natsToPt, ravelH, ints?_natNums, henc, card]
  | .box shape lo hi wide, k, hw, hk => by
    simp only [wf, Bool.and_eq_true] at hw
    have hl := boundsOk_length _ _ hw.2
    simp only [card] at hk
    obtain ⟨ds, hdec, hr, henc⟩ := decode_spec _ _ hk
    obtain ⟨is, hi', hs⟩ := addLow_digits lo hi ds hl hr
    refine ⟨.arr (addLow ds lo), ?_, ?_, ?_⟩
    · simp only [unravel, hdec, Option.map_some]
    · simp only [mem]; exact memBoxI_of_inRange _ _ _ hl hr
    · simp only [ravelH, hi', hs, henc, card]
  | .fbox _ _ _, _, hw, _ => by simp [wf] at hw
  | .ubox _, _, hw, _ => by simp [wf] at hw
  | .dict keys ss, k, hw, hk => by
    simp only [wf, Bool.and_eq_true] at hw
    simp only [card] at hk
    obtain ⟨ds, hdec, hr, henc⟩ := decode_spec _ _ hk
    obtain ⟨ps, h1, h2, h3⟩ := unravelL_bwd ss ds hw.2 hr
    refine ⟨.dict keys ps, ?_, ?_, ?_⟩
    · simp only [unravel, hdec, h1, Option.map_some]
    · simp only [mem, decide_true, Bool.true_and, h2]
    · simp only [ravelH, if_true, h3, henc, card]
  | .tuple ss, k, hw, hk => by
    simp only [wf, Bool.and_eq_true] at hw
    simp only [card] at hk
    obtain ⟨ds, hdec, hr, henc⟩ := decode_spec _ _ hk
    obtain ⟨ps, h1, h2, h3⟩ := unravelL_bwd ss ds hw.2 hr
    refine ⟨.tuple ps, ?_, ?_, ?_⟩
    · simp only [unravel, hdec, h1, Option.map_some]
    · simp only [mem, h2]
    · simp only [ravelH, h3, henc, card]
theorem unravelL_bwd : ∀ (ss : List Space) (ks : List Nat), wfL ss = true → inRange (cardL ss) ks →
    ∃ ps, unravelL ss ks = some ps ∧ memL ss ps = true ∧ ravelL ss ps = some (ofNats ks, cardL ss)
  | [], [], _, _ => ⟨[], rfl, rfl, rfl⟩
  | [], _ :: _, _, h => by simp [cardL, inRange] at h
  | _ :: _, [], _, h => by simp [cardL, inRange] at h
  | s :: ss, k :: ks, hw, h => by
    simp only [wfL, Bool.and_eq_true] at hw
    simp only [cardL, inRange] at h
    obtain ⟨p, h1, h2, h3⟩ := unravel_bwd s k hw.1 h.1
    obtain ⟨ps, g1, g2, g3⟩ := unravelL_bwd ss ks hw.2 h.2
    refine ⟨p :: ps, ?_, ?_, ?_⟩
    · simp only [unravelL, h1, g1]
    · simp only [memL, h2, g2, Bool.and_self]
    · simp only [ravelL, h3, g3, cardL, ofNats_cons]; rfl
end

/-! ## every well-formed space has at least one point -/

mutual
theorem card_pos : ∀ (s : Space), wf s = true → 0 < card s
  | .discrete n st, hw => by
    simp only [wf, Bool.and_eq_true, decide_eq_true_eq] at hw
    exact hw.1
  | .multiBinary n, _ => by simp only [card]; exact Nat.pow_pos (by decide)
  | .multiDiscrete nvec, hw => by
    simp only [wf, Bool.and_eq_true] at hw
    exact prod_pos_of_allPos _ (allPos_iff _ hw.2)
  | .box shape lo hi wide, hw => by
    simp only [wf, Bool.and_eq_true] at hw
    exact prod_pos_of_allPos _ (radices_pos _ _ hw.2)
  | .fbox _ _ _, hw => by simp [wf] at hw
  | .ubox _, hw => by simp [wf] at hw
  | .dict keys ss, hw => by
    simp only [wf, Bool.and_eq_true] at hw
    exact prod_pos_of_allPos _ (cardL_pos ss hw.2)
  | .tuple ss, hw => by
    simp only [wf, Bool.and_eq_true] at hw
    exact prod_pos_of_allPos _ (cardL_pos ss hw.2)
theorem cardL_pos : ∀ (ss : List Space), wfL ss = true → ∀ r ∈ cardL ss, 0 < r
  | [], _ => by simp [cardL]
  | s :: ss, hw => by
    simp only [wfL, Bool.and_eq_true] at hw
    intro r hr
    simp only [cardL, List.mem_cons] at hr
    rcases hr with hr | hr
    · subst hr; exact card_pos s hw.1
    · exact cardL_pos ss hw.2 r hr
end

mutual
theorem checkSpace_eq_supported : ∀ (s : Space), checkSpace s = supported s
  | .discrete _ _ => rfl
  | .multiBinary _ => rfl
  | .multiDiscrete _ => rfl
  | .box _ _ _ _ => rfl
  | .fbox _ _ _ => rfl
  | .ubox _ => rfl
  | .dict _ ss => by simp only [checkSpace, supported, checkSpaceL_eq_supportedL ss]
  | .tuple ss => by simp only [checkSpace, supported, checkSpaceL_eq_supportedL ss]
theorem checkSpaceL_eq_supportedL : ∀ (ss : List Space), checkSpaceL ss = supportedL ss
  | [] => rfl
  | s :: ss => by
    simp only [checkSpaceL, supportedL, checkSpace_eq_supported s, checkSpaceL_eq_supportedL ss]
end

mutual
theorem wf_supported : ∀ (s : Space), wf s = true → supported s = true
  | .discrete _ _, _ => rfl
  | .multiBinary _, _ => rfl
  | .multiDiscrete _, _ => rfl
  | .box _ _ _ wide, hw => by
    simp only [wf, Bool.and_eq_true] at hw
    simp only [supported]; exact hw.1.1.1
  | .fbox _ _ _, hw => by simp [wf] at hw
  | .ubox _, hw => by simp [wf] at hw
  | .dict _ ss, hw => by
    simp only [wf, Bool.and_eq_true] at hw
    simp only [supported]; exact wfL_supportedL ss hw.2
  | .tuple ss, hw => by
    simp only [wf, Bool.and_eq_true] at hw
    simp only [supported]; exact wfL_supportedL ss hw.2
theorem wfL_supportedL : ∀ (ss : List Space), wfL ss = true → supportedL ss = true
  | [], _ => rfl
  | s :: ss, hw => by
    simp only [wfL, Bool.and_eq_true] at hw
    simp only [supportedL, wf_supported s hw.1, wfL_supportedL ss hw.2, Bool.and_self]
end

/-! ## `==` on points is equality -/

mutual
theorem Pt.beq_refl : ∀ (p : Pt), Pt.beq p p = true
  | .scalar _ => by simp [Pt.beq]
  | .arr _ => by simp [Pt.beq]
  | .dict _ ps => by simp [Pt.beq, Pt.beqL_refl ps]
  | .tuple ps => by simp [Pt.beq, Pt.beqL_refl ps]
theorem Pt.beqL_refl : ∀ (ps : List Pt), Pt.beqL ps ps = true
  | [] => rfl
  | p :: ps => by simp [Pt.beqL, Pt.beq_refl p, Pt.beqL_refl ps]
end

mutual
theorem Pt.eq_of_beq : ∀ (p q : Pt), Pt.beq p q = true → p = q
  | .scalar a, .scalar b, h => by simp only [Pt.beq, decide_eq_true_eq] at h; rw [h]
  | .arr a, .arr b, h => by simp only [Pt.beq, decide_eq_true_eq] at h; rw [h]
  | .dict k ps, .dict k' qs, h => by
    simp only [Pt.beq, Bool.and_eq_true, decide_eq_true_eq] at h
    rw [h.1, Pt.eq_of_beqL ps qs h.2]
  | .tuple ps, .tuple qs, h => by
    simp only [Pt.beq] at h
    rw [Pt.eq_of_beqL ps qs h]
  | .scalar _, .arr _, h => by simp [Pt.beq] at h
  | .scalar _, .dict _ _, h => by simp [Pt.beq] at h
  | .scalar _, .tuple _, h => by simp [Pt.beq] at h
  | .arr _, .scalar _, h => by simp [Pt.beq] at h
  | .arr _, .dict _ _, h => by simp [Pt.beq] at h
  | .arr _, .tuple _, h => by simp [Pt.beq] at h
  | .dict _ _, .scalar _, h => by simp [Pt.beq] at h
  | .dict _ _, .arr _, h => by simp [Pt.beq] at h
  | .dict _ _, .tuple _, h => by simp [Pt.beq] at h
  | .tuple _, .scalar _, h => by simp [Pt.beq] at h
  | .tuple _, .arr _, h => by simp [Pt.beq] at h
  | .tuple _, .dict _ _, h => by simp [Pt.beq] at h
theorem Pt.eq_of_beqL : ∀ (ps qs : List Pt), Pt.beqL ps qs = true → ps = qs
  | [], [], _ => rfl
  | [], _ :: _, h => by simp [Pt.beqL] at h
  | _ :: _, [], h => by simp [Pt.beqL] at h
  | p :: ps, q :: qs, h => by
    simp only [Pt.beqL, Bool.and_eq_true] at h
    rw [Pt.eq_of_beq p q h.1, Pt.eq_of_beqL ps qs h.2]
end

theorem Pt.beq_iff (p q : Pt) : (p == q) = true ↔ p = q :=
  ⟨Pt.eq_of_beq p q, fun h => by subst h; exact Pt.beq_refl p⟩

theorem optPt_beq_iff (a b : Option Pt) : (a == b) = true ↔ a = b := by
  cases a <;> cases b
  · simp
  · constructor <;> intro h <;> cases h
  · constructor <;> intro h <;> cases h
  · rename_i x y
    show (x == y) = true ↔ some x = some y
    rw [Pt.beq_iff]
    simp

end Abmarl
