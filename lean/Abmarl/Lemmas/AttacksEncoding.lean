import Abmarl.Lemmas.AttacksGrouped
/-!
# C11 lemmas, part 3c: `EncodingBasedAttackActor._determine_attack`
-/
namespace Abmarl
namespace World

/-- the group of one item `(encoding, count)` of the action dictionary -/
def encGroup (w : World) (p : Int × Nat) : Group := ⟨fun b => w.encOf b == p.1, p.2⟩

theorem attackGroups_encoding {cfg : AttackCfg} (w : World) (a : Aid) (l : List (Int × Nat))
    (hk : cfg.kind = .encoding) : attackGroups cfg w a (.perEnc l) = l.map (encGroup w) := by
  unfold attackGroups; rw [hk]; rfl

/-- the loop over the items of the action, for **any** list of items and any tape -/
theorem encLoop_grouped {cfg : AttackCfg} {w : World} {a : Aid} {C S : List Aid} (hC : C.Nodup)
    (hCmem : ∀ b, b ∈ C ↔ b < w.n ∧ eligible cfg w a b = true) (hsub : S.Sublist C)
    (hall : 1 ≤ (w.cfgOf a).accuracy → S = C) (act : List (Int × Nat)) (t : Tape) :
    Grouped cfg w a (act.map (encGroup w)) (encLoop w cfg.stacked S act t).1 := by
  induction act generalizing t with
  | nil => exact Grouped.nil
  | cons p rest ih =>
    obtain ⟨e, k⟩ := p
    have facts : ∀ P, Picked cfg.stacked (S.filter fun b => w.encOf b == e) k P → _ :=
      fun P hP => group_facts (g := encGroup w (e, k)) (C := C.filter fun b => w.encOf b == e)
        (hC.filter _)
        (fun b => by
          rw [List.mem_filter, hCmem b]
          simp only [encGroup]; tauto)
        (hsub.filter _) (fun hacc => by rw [hall hacc]) hP
    unfold encLoop
    simp only [List.map_cons]
    by_cases hG : (S.filter fun b => w.encOf b == e).isEmpty = true
    · rw [if_pos hG]
      obtain ⟨f1, f2, f3, f4⟩ := facts [] (by rw [List.isEmpty_iff.mp hG]; exact Picked.nil _ _)
      exact Grouped.cons (P := []) f1 f2 f3 f4 (ih t)
    · rw [if_neg hG]
      obtain ⟨f1, f2, f3, f4⟩ := facts _ (subsetAttackables_picked cfg.stacked _ k t)
      exact Grouped.cons f1 f2 f3 f4 (ih _)

theorem excl_encoding (cfg : AttackCfg) (w : World) (a : Aid) (l : List (Int × Nat))
    (hnd : (l.map (·.1)).Nodup) : Excl cfg w a (l.map (encGroup w)) := by
  unfold Excl
  rw [List.pairwise_map]
  unfold List.Nodup at hnd
  rw [List.pairwise_map] at hnd
  refine hnd.imp ?_
  intro p q hpq b _ hb
  simp only [encGroup, beq_iff_eq] at hb
  exact hpq (hb.1.symm.trans hb.2)

theorem determineEncoding_sound {cfg : AttackCfg} {w : World} {a : Aid} {s : List Int} (hI : w.WInv = true)
    (hmap : cfg.mapping.lookup (w.encOf a) = some s) (hkind : cfg.kind = .encoding) (l : List (Int × Nat))
    (hnd : (l.map (·.1)).Nodup) (hl : ∀ p ∈ l, p.2 ≤ (w.cfgOf a).simAttacks)
    (hcov : ∀ e ∈ s, ∃ p ∈ l, p.1 = e) (t : Tape) :
    ∃ st L t1, determineEncoding cfg w a l t = .ok ((st, L), t1) ∧ SelOK cfg w a (.perEnc l) L := by
  have hx : Excl cfg w a (attackGroups cfg w a (.perEnc l)) := by
    rw [attackGroups_encoding w a l hkind]; exact excl_encoding cfg w a l hnd
  have hlim : ∀ g ∈ attackGroups cfg w a (.perEnc l), g.lim ≤ (w.cfgOf a).simAttacks := by
    rw [attackGroups_encoding w a l hkind]
    intro g hg
    rw [List.mem_map] at hg
    obtain ⟨p, hp, rfl⟩ := hg
    exact hl p hp
  by_cases h0 : l.all (fun p => p.2 == 0) = true
  · refine ⟨false, [], t, by simp only [determineEncoding, h0, if_true], ?_⟩
    refine Grouped.selOK ?_ hx hlim (Or.inl hkind)
    rw [attackGroups_encoding w a l hkind]
    apply Grouped.zeros
    intro g hg
    rw [List.mem_map] at hg
    obtain ⟨p, hp, rfl⟩ := hg
    rw [List.all_eq_true] at h0
    simpa [encGroup] using h0 p hp
  · obtain ⟨C, hC⟩ : ∃ C, C = (w.windowCands a (w.cfgOf a).attackRange
          (Mask.maskOf (w.cfgOf a).attackRange (w.attackBlockers a))).filter (detOK cfg w a) := ⟨_, rfl⟩
    obtain ⟨S, t1, hs, hsub, hall⟩ := scanCands_sound hmap
      (w.windowCands a (w.cfgOf a).attackRange (Mask.maskOf (w.cfgOf a).attackRange (w.attackBlockers a))) t
    rw [← hC] at hsub hall
    have hCnd : C.Nodup := by rw [hC]; exact (nodup_windowCands hI a _).filter _
    have hCmem : ∀ b, b ∈ C ↔ b < w.n ∧ eligible cfg w a b = true := by
      intro b; rw [hC]; exact mem_windowCands_det hI cfg a b
    -- every scanned agent's encoding is a key of the action
    have hkeys : S.all (fun b => l.any (fun p => p.1 == w.encOf b)) = true := by
      rw [List.all_eq_true]
      intro b hb
      have hel := ((hCmem b).mp (hsub.subset hb)).2
      rw [eligible_eq] at hel
      simp only [Bool.and_eq_true, detOK, mayAttack, hmap, decide_eq_true_eq] at hel
      obtain ⟨p, hp, he⟩ := hcov _ hel.1.1.1.2
      rw [List.any_eq_true]
      exact ⟨p, hp, by simpa using he⟩
    refine ⟨true, (encLoop w cfg.stacked S l t1).1, (encLoop w cfg.stacked S l t1).2, ?_, ?_⟩
    · simp only [determineEncoding, h0, Bool.false_eq_true, if_false, hs, hkeys, if_true]
    · refine Grouped.selOK ?_ hx hlim (Or.inl hkind)
      rw [attackGroups_encoding w a l hkind]
      exact encLoop_grouped hCnd hCmem hsub hall l t1

end World
end Abmarl
