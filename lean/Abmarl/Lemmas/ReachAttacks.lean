import Abmarl.Lemmas.Reach
import Abmarl.Lemmas.ReachMoves
/-!
# Attacks keep `WInvWeak` (the other half of `RT.CompsKeepWeak`)

Direct proofs on the model of `AttackActorBaseComponent.process_action` (`processAttack`, Model/Attacks.lean), for
EVERY attack actor, attacker, action and tape: `_determine_attack` only reads; the ammunition filter writes the
attacker's ammunition (`weak_setSt`); every pass of the health loop either skips an inactive victim, lowers the health
of a victim that stays alive (`weak_setSt`), or kills it and takes it off the grid (`weak_remove`, the general form of
`RT.takeOff_weak`).
-/
namespace Abmarl
namespace RT
open World

theorem setSt_of_ge {w : World} {a : Aid} (s : AgentSt) (h : w.st.length ≤ a) : w.setSt a s = w := by
  unfold setSt
  rw [List.set_eq_of_length_le h]

/-- a change of one agent's vitals that keeps position and activity keeps `WInvWeak` -/
theorem weak_setSt {w : World} (hW : w.WInvWeak = true) {a : Aid} (ha : a < w.n) (s' : AgentSt)
    (hpos : s'.pos = (w.stOf a).pos) (hact : s'.active = (w.stOf a).active)
    (h0 : 0 ≤ s'.health) (h1 : s'.health ≤ 1) (hah : s'.active = true → 0 < s'.health) (ham0 : 0 ≤ s'.ammo)
    (ham1 : (w.cfgOf a).hasAmmo = true → s'.ammo ≤ max 0 (w.cfgOf a).initAmmo)
    (hor : (w.cfgOf a).hasOrient = true → 1 ≤ s'.orient ∧ s'.orient ≤ 4) :
    (w.setSt a s').WInvWeak = true ∧ SFrame w (w.setSt a s') := by
  obtain ⟨hshape, hcells, hagents, hsym⟩ := (WInvWeak_parts_iff w).mp hW
  simp only [wShape, Bool.and_eq_true, beq_iff_eq] at hshape
  obtain ⟨hcl, hsl⟩ := hshape
  have hal : a < w.st.length := by rw [hsl]; exact ha
  have hstOf : ∀ b, (w.setSt a s').stOf b = if b = a then s' else w.stOf b := by
    intro b
    rw [stOf_setSt]
    by_cases hba : b = a
    · simp [hba, hal]
    · simp [hba]
  refine ⟨?_, ⟨rfl, rfl, rfl, rfl, by simp [setSt]⟩⟩
  rw [WInvWeak_parts_iff]
  refine ⟨?_, ?_, ?_, ?_⟩
  · simp only [wShape, Bool.and_eq_true, beq_iff_eq]
    exact ⟨hcl, by simp [setSt, hsl]⟩
  · intro i hi
    have hi' : i < w.rows * w.cols := hi
    rw [wCell_reading]
    obtain ⟨hnd, hall, hpairs⟩ := (wCell_reading w i).mp (hcells i hi')
    refine ⟨hnd, ?_, hpairs⟩
    intro b hb
    obtain ⟨k1, k2, k3, k4⟩ := hall b hb
    rw [hstOf b]
    by_cases hba : b = a
    · subst hba
      simp only [if_true]
      refine ⟨k1, by rw [hact]; exact k2, ?_, ?_⟩
      · show w.inGrid s'.pos = true
        rw [hpos]; exact k3
      · show w.idx s'.pos = i
        rw [hpos]; exact k4
    · simp only [hba, if_false]
      exact ⟨k1, k2, k3, k4⟩
  · intro b hb
    have hb' : b < w.n := hb
    rw [wAgentWeak_reading, hstOf b]
    obtain ⟨g1, g2, g3, g4, g5, g6, g7⟩ := (wAgentWeak_reading w b).mp (hagents b hb')
    by_cases hba : b = a
    · subst hba
      simp only [if_true]
      refine ⟨?_, h0, h1, hah, ham0, ham1, hor⟩
      intro hh
      rw [hact] at hh
      obtain ⟨m1, m2⟩ := g1 hh
      show w.inGrid s'.pos = true ∧ b ∈ w.cell s'.pos
      rw [hpos]; exact ⟨m1, m2⟩
    · simp only [hba, if_false]
      exact ⟨g1, g2, g3, g4, g5, g6, g7⟩
  · exact hsym

/-- an agent is taken out of the cell of its position and becomes inactive (by death or by hand): `WInvWeak` is kept -/
theorem weak_remove {w : World} (hW : w.WInvWeak = true) {a : Aid} (ha : a < w.n) (s' : AgentSt)
    (hact : s'.active = false) (h0 : 0 ≤ s'.health) (h1 : s'.health ≤ 1) (ham0 : 0 ≤ s'.ammo)
    (ham1 : (w.cfgOf a).hasAmmo = true → s'.ammo ≤ max 0 (w.cfgOf a).initAmmo)
    (hor : (w.cfgOf a).hasOrient = true → 1 ≤ s'.orient ∧ s'.orient ≤ 4)
    {p : Pos} (hp : p = (w.stOf a).pos) (hmem : a ∈ w.cell p) {w' : World}
    (hw' : w' = { w with cells := w.cells.set (w.idx p) ((w.cell p).erase a), st := w.st.set a s' }) :
    w'.WInvWeak = true ∧ SFrame w w' := by
  obtain ⟨hshape, hcells, hagents, hsym⟩ := (WInvWeak_parts_iff w).mp hW
  simp only [wShape, Bool.and_eq_true, beq_iff_eq] at hshape
  obtain ⟨hcl, hsl⟩ := hshape
  have hal : a < w.st.length := by rw [hsl]; exact ha
  have hidx : w.idx p < w.cells.length := by
    by_contra hge
    have : w.cell p = [] := by
      simp only [cell, List.getD_eq_getElem?_getD]
      rw [List.getElem?_eq_none (Nat.le_of_not_lt hge)]; rfl
    rw [this] at hmem; cases hmem
  have hstOf : ∀ b, w'.stOf b = if b = a then s' else w.stOf b := by
    intro b
    rw [hw']
    simp only [stOf]
    rw [Cor.getD_set]
    by_cases hba : b = a
    · subst hba; simp [hal]
    · have : ¬ a = b := fun e => hba e.symm
      simp [hba, this]
  have hcellsOf : ∀ i, w'.cells.getD i [] = if i = w.idx p then (w.cell p).erase a else w.cells.getD i [] := by
    intro i
    rw [hw']
    simp only
    rw [Cor.getD_set]
    by_cases hi : i = w.idx p
    · subst hi; simp [hidx]
    · have : ¬ w.idx p = i := fun e => hi e.symm
      simp [hi, this]
  have hn : w'.n = w.n := by rw [hw']; rfl
  have hrows : w'.rows = w.rows := by rw [hw']
  have hcols : w'.cols = w.cols := by rw [hw']
  have hov : w'.overlap = w.overlap := by rw [hw']
  have hcfg : w'.cfg = w.cfg := by rw [hw']
  have hidxf : ∀ q, w'.idx q = w.idx q := by intro q; simp only [idx, hcols]
  have hing : ∀ q, w'.inGrid q = w.inGrid q := by intro q; simp only [inGrid, hrows, hcols]
  have hpair : ∀ x y, w'.pairOK x y = w.pairOK x y := by intro x y; simp only [pairOK, hov]
  have henc : ∀ b, w'.encOf b = w.encOf b := by intro b; simp only [encOf, cfgOf, hcfg]
  have hcfgOf : ∀ b, w'.cfgOf b = w.cfgOf b := by intro b; simp only [cfgOf, hcfg]
  -- where `a` is: in the cell of its position, and in no other
  have hpa : (w.stOf a).pos = p := hp.symm
  have hcellp : w.cell p = w.cells.getD (w.idx p) [] := rfl
  have hin : w.idx p < w.rows * w.cols := by rw [← hcl]; exact hidx
  have hCp := (wCell_reading w (w.idx p)).mp (hcells _ hin)
  have honly : ∀ i < w.rows * w.cols, a ∈ w.cells.getD i [] → i = w.idx p := by
    intro i hi hai
    have := ((wCell_reading w i).mp (hcells i hi)).2.1 a hai
    rw [← this.2.2.2, hpa]
  refine ⟨?_, ⟨hrows, hcols, hov, hcfg, by rw [hw']; simp⟩⟩
  · rw [WInvWeak_parts_iff]
    refine ⟨?_, ?_, ?_, ?_⟩
    · simp only [wShape, Bool.and_eq_true, beq_iff_eq, hrows, hcols, hcfg]
      rw [hw']; simp [hcl, hsl]
    · intro i hi
      rw [hrows, hcols] at hi
      rw [wCell_reading, hcellsOf i]
      obtain ⟨hnd, hall, hpairs⟩ := (wCell_reading w i).mp (hcells i hi)
      by_cases hip : i = w.idx p
      · subst hip
        simp only [if_true]
        rw [hcellp]
        refine ⟨hnd.erase a, ?_, ?_⟩
        · intro b hb
          have hbm := List.mem_of_mem_erase hb
          have hba : b ≠ a := fun e => by
            subst e; exact (List.Nodup.not_mem_erase hnd) hb
          obtain ⟨h1, h2, h3, h4⟩ := hall b hbm
          rw [hn, hstOf b, if_neg hba, hing, hidxf]
          exact ⟨h1, h2, h3, h4⟩
        · intro b hb c hc
          rw [henc, henc, hpair]
          exact hpairs b (List.mem_of_mem_erase hb) c (List.mem_of_mem_erase hc)
      · simp only [hip, if_false]
        refine ⟨hnd, ?_, ?_⟩
        · intro b hb
          have hba : b ≠ a := fun e => by subst e; exact hip (honly i hi hb)
          obtain ⟨h1, h2, h3, h4⟩ := hall b hb
          rw [hn, hstOf b, if_neg hba, hing, hidxf]
          exact ⟨h1, h2, h3, h4⟩
        · intro b hb c hc
          rw [henc, henc, hpair]
          exact hpairs b hb c hc
    · intro b hb
      rw [hn] at hb
      rw [wAgentWeak_reading, hstOf b, hcfgOf]
      obtain ⟨g1, g2, g3, g4, g5, g6, g7⟩ := (wAgentWeak_reading w b).mp (hagents b hb)
      by_cases hba : b = a
      · subst hba
        simp only [if_true]
        exact ⟨fun hh => (by rw [hact] at hh; cases hh), h0, h1, fun hh => (by rw [hact] at hh; cases hh), ham0, ham1, hor⟩
      · simp only [hba, if_false]
        refine ⟨?_, g2, g3, g4, g5, g6, g7⟩
        intro hact
        obtain ⟨k1, k2⟩ := g1 hact
        rw [hing]
        refine ⟨k1, ?_⟩
        simp only [cell, hidxf]
        rw [hcellsOf]
        by_cases hq : w.idx (w.stOf b).pos = w.idx p
        · simp only [hq, if_true]
          have : b ∈ w.cell p := by
            simp only [cell] at k2 ⊢
            rw [← hq]; exact k2
          exact (List.mem_erase_of_ne hba).mpr this
        · simp only [hq, if_false]
          exact k2
    · simp only [wOverlapSym, hov, List.all_eq_true] at hsym ⊢
      intro x hx y hy
      rw [hpair]
      exact hsym x hx y hy

theorem clamp_bounds (x : Rat) : 0 ≤ min (max x 0) 1 ∧ min (max x 0) 1 ≤ 1 :=
  ⟨le_min (le_max_right _ _) (by norm_num), min_le_right _ _⟩

/-- one pass of the health loop keeps `WInvWeak` -/
theorem hitStep_weak {w w' : World} {s : Rat} {v : Aid} (hW : w.WInvWeak = true)
    (h : w.hitStep s v = .ok w') : w'.WInvWeak = true ∧ SFrame w w' := by
  unfold hitStep at h
  by_cases hact : (w.stOf v).active = true
  · simp only [hact, Bool.not_true, Bool.false_eq_true, if_false] at h
    obtain ⟨hn, hhn⟩ : ∃ hn : Rat, hn = min (max ((w.stOf v).health - s) 0) 1 := ⟨_, rfl⟩
    obtain ⟨s1, hs1⟩ : ∃ s1 : AgentSt, s1 = { w.stOf v with health := hn, active := decide (0 < hn) } := ⟨_, rfl⟩
    have hw1 : w.setHealth v ((w.stOf v).health - s) = w.setSt v s1 := by
      unfold setHealth; rw [hs1, hhn]
    rw [hw1] at h
    obtain ⟨hb0, hb1⟩ : 0 ≤ hn ∧ hn ≤ 1 := by rw [hhn]; exact clamp_bounds _
    by_cases hv : v < w.n
    · obtain ⟨hshape, _, hagents, _⟩ := (WInvWeak_parts_iff w).mp hW
      simp only [wShape, Bool.and_eq_true, beq_iff_eq] at hshape
      have hvl : v < w.st.length := by rw [hshape.2]; exact hv
      obtain ⟨g1, g2, g3, g4, g5, g6, g7⟩ := (wAgentWeak_reading w v).mp (hagents v hv)
      have hst1 : (w.setSt v s1).stOf v = s1 := stOf_setSt_same _ _ _ hvl
      rw [hst1] at h
      by_cases hp : 0 < hn
      · -- the victim stays alive
        have ha1 : s1.active = true := by rw [hs1]; simpa using hp
        simp only [ha1, Bool.not_true, Bool.false_eq_true, if_false, Except.ok.injEq] at h
        rw [← h]
        exact weak_setSt hW hv s1 (by rw [hs1]) (by rw [ha1, hact]) (by rw [hs1]; exact hb0) (by rw [hs1]; exact hb1)
          (fun _ => by rw [hs1]; exact hp) (by rw [hs1]; exact g5) (by rw [hs1]; exact g6) (by rw [hs1]; exact g7)
      · -- the victim dies and is taken off the grid
        have ha1 : s1.active = false := by rw [hs1]; simpa using hp
        simp only [ha1, Bool.not_false, if_true] at h
        have hpos1 : s1.pos = (w.stOf v).pos := by rw [hs1]
        rw [hpos1] at h
        unfold World.remove at h
        have hcell : (w.setSt v s1).cell (w.stOf v).pos = w.cell (w.stOf v).pos := rfl
        rw [hcell] at h
        have hmem : v ∈ w.cell (w.stOf v).pos := (g1 hact).2
        simp only [hmem, if_true, Except.ok.injEq] at h
        exact weak_remove hW hv s1 ha1 (by rw [hs1]; exact hb0) (by rw [hs1]; exact hb1) (by rw [hs1]; exact g5)
          (by rw [hs1]; exact g6) (by rw [hs1]; exact g7) rfl hmem (by rw [← h]; rfl)
    · -- not an agent of the simulation: the setter writes nothing
      have hge : w.st.length ≤ v := by
        obtain ⟨hshape, _, _, _⟩ := (WInvWeak_parts_iff w).mp hW
        simp only [wShape, Bool.and_eq_true, beq_iff_eq] at hshape
        rw [hshape.2]; exact Nat.le_of_not_lt hv
      rw [setSt_of_ge s1 hge] at h
      simp only [hact, Bool.not_true, Bool.false_eq_true, if_false, Except.ok.injEq] at h
      rw [← h]; exact ⟨hW, SFrame.refl w⟩
  · have : (w.stOf v).active = false := by simpa using hact
    simp only [this, Bool.not_false, if_true, Except.ok.injEq] at h
    rw [← h]; exact ⟨hW, SFrame.refl w⟩

theorem applyHits_weak {s : Rat} (H : List Aid) : ∀ {w w' : World}, w.WInvWeak = true →
    applyHits w s H = .ok w' → w'.WInvWeak = true ∧ SFrame w w' := by
  induction H with
  | nil =>
    intro w w' hW h
    simp only [applyHits, Except.ok.injEq] at h
    rw [← h]; exact ⟨hW, SFrame.refl w⟩
  | cons v vs ih =>
    intro w w' hW h
    simp only [applyHits] at h
    cases h1 : w.hitStep s v with
    | error e => rw [h1] at h; cases h
    | ok w1 =>
      rw [h1] at h
      obtain ⟨hW1, hF1⟩ := hitStep_weak hW h1
      obtain ⟨hW2, hF2⟩ := ih hW1 h
      exact ⟨hW2, hF1.trans hF2⟩

/-- `attacking_agent.ammo -= k` for a non-negative `k` keeps `WInvWeak` -/
theorem setAmmo_weak {w : World} (hW : w.WInvWeak = true) {a : Aid} (ha : a < w.n) (k : Int) (hk : 0 ≤ k) :
    (w.setAmmo a ((w.stOf a).ammo - k)).WInvWeak = true ∧ SFrame w (w.setAmmo a ((w.stOf a).ammo - k)) := by
  obtain ⟨_, _, hagents, _⟩ := (WInvWeak_parts_iff w).mp hW
  obtain ⟨g1, g2, g3, g4, g5, g6, g7⟩ := (wAgentWeak_reading w a).mp (hagents a ha)
  unfold setAmmo
  refine weak_setSt hW ha _ rfl rfl g2 g3 g4 ?_ ?_ g7
  · show 0 ≤ (if (w.stOf a).ammo - k < 0 then 0 else (w.stOf a).ammo - k)
    split <;> omega
  · intro hc
    have := g6 hc
    show (if (w.stOf a).ammo - k < 0 then 0 else (w.stOf a).ammo - k) ≤ max 0 (w.cfgOf a).initAmmo
    split <;> omega

theorem ammoFilter_weak {w w1 : World} {a : Aid} {L H : List Aid} {t t1 : Tape} (hW : w.WInvWeak = true)
    (h : w.ammoFilter a L t = .ok (H, w1, t1)) : w1.WInvWeak = true ∧ SFrame w w1 := by
  unfold ammoFilter at h
  by_cases hc : (w.cfgOf a).hasAmmo = true
  · have ha : a < w.n := lt_n_of_hasAmmo hc
    simp only [hc, if_true] at h
    by_cases hgt : ((L.length : Int) > (w.stOf a).ammo)
    · simp only [hgt, if_true] at h
      by_cases hneg : (w.stOf a).ammo < 0
      · simp [hneg] at h
      · simp only [hneg, if_false, Except.ok.injEq, Prod.mk.injEq] at h
        rw [← h.2.1]
        exact setAmmo_weak hW ha _ (Int.natCast_nonneg _)
    · simp only [hgt, if_false, Except.ok.injEq, Prod.mk.injEq] at h
      rw [← h.2.1]
      exact setAmmo_weak hW ha _ (Int.natCast_nonneg _)
  · simp only [hc, Bool.false_eq_true, if_false, Except.ok.injEq, Prod.mk.injEq] at h
    rw [← h.2.1]; exact ⟨hW, SFrame.refl w⟩

/-- **`process_action` of every attack actor keeps `WInvWeak` and the static part** — any attacker (active or not,
agent of the simulation or not), any action, any tape -/
theorem processAttack_weak {cfg : AttackCfg} {w w' : World} {a : Aid} {act : AttackAct} {t t' : Tape}
    {r : Bool × List Aid} (hW : w.WInvWeak = true) (h : processAttack cfg w a act t = .ok (r, w', t')) :
    w'.WInvWeak = true ∧ SFrame w w' := by
  unfold processAttack at h
  by_cases hatt : (w.cfgOf a).attacking = true
  · simp only [hatt, if_true] at h
    cases hdet : determineAttack cfg w a act t with
    | error e => rw [hdet] at h; cases h
    | ok d =>
      obtain ⟨⟨status, L⟩, t1⟩ := d
      rw [hdet] at h
      simp only at h
      cases hfil : w.ammoFilter a L t1 with
      | error e => rw [hfil] at h; cases h
      | ok f =>
        obtain ⟨H, w1, t2⟩ := f
        rw [hfil] at h
        simp only at h
        obtain ⟨hW1, hF1⟩ := ammoFilter_weak hW hfil
        cases happ : applyHits w1 (w.cfgOf a).strength H with
        | error e => rw [happ] at h; cases h
        | ok w2 =>
          rw [happ] at h
          simp only [Except.ok.injEq, Prod.mk.injEq] at h
          obtain ⟨hW2, hF2⟩ := applyHits_weak H hW1 happ
          rw [← h.2.1]
          exact ⟨hW2, hF1.trans hF2⟩
  · simp only [hatt, Bool.false_eq_true, if_false, Except.ok.injEq, Prod.mk.injEq] at h
    rw [← h.2.1]; exact ⟨hW, SFrame.refl w⟩

/-- both component calls keep `WInvWeak`: `RT.CompsKeepWeak` holds for every attack configuration -/
theorem compsKeepWeak (acfg : AttackCfg) : CompsKeepWeak acfg :=
  ⟨fun hI ha hact hm => moveAct_weak hI ha hact hm, fun hI hp => processAttack_weak hI hp⟩

end RT
end Abmarl
