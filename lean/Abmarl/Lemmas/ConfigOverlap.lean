import Abmarl.Spec.Config
import Mathlib.Tactic.Tauto
/-!
# Lemmas for C19: the symmetric closure of the overlap table

`avail (close t) a b ↔ avail t a b ∨ avail t b a` — everything else follows.  The closed table of
a dict is a dict again (`nodup_close`), on which `avail` is the Python lookup (`avail_eq_lookup`).
-/
namespace Abmarl
namespace Cfg

theorem avail_nil (a b : Int) : avail [] a b = false := rfl

theorem avail_cons_iff (k : Int) (s : List Int) (t : Table) (a b : Int) :
    avail ((k, s) :: t) a b = true ↔ ((k = a ∧ b ∈ s) ∨ avail t a b = true) := by
  unfold avail
  rw [List.any_cons]
  simp only [Bool.or_eq_true, Bool.and_eq_true, beq_iff_eq, List.contains_eq_mem, decide_eq_true_eq]

theorem avail_iff (t : Table) (a b : Int) :
    avail t a b = true ↔ ∃ s, (a, s) ∈ t ∧ b ∈ s := by
  induction t with
  | nil => simp [avail_nil]
  | cons e rest ih =>
    obtain ⟨k, s⟩ := e
    rw [avail_cons_iff, ih]
    constructor
    · rintro (⟨h1, h2⟩ | ⟨s', h1, h2⟩)
      · exact ⟨s, by rw [h1]; simp, h2⟩
      · exact ⟨s', List.mem_cons_of_mem _ h1, h2⟩
    · rintro ⟨s', h1, h2⟩
      rcases List.mem_cons.mp h1 with h1 | h1
      · injection h1 with e1 e2
        subst e1 e2
        exact Or.inl ⟨rfl, h2⟩
      · exact Or.inr ⟨s', h1, h2⟩

theorem mem_add (s : List Int) (v b : Int) :
    b ∈ (if s.contains v then s else s ++ [v]) ↔ b ∈ s ∨ b = v := by
  by_cases hv : s.contains v = true
  · rw [if_pos hv]
    constructor
    · exact Or.inl
    · rintro (h | h)
      · exact h
      · subst h; simpa using hv
  · rw [if_neg hv]; simp

theorem avail_addTo (t : Table) (k v a b : Int) :
    avail (addTo t k v) a b = true ↔ (avail t a b = true ∨ (a = k ∧ b = v)) := by
  induction t with
  | nil =>
    simp only [addTo, avail_cons_iff, avail_nil, List.mem_singleton]
    have : (false = true) ↔ False := by simp
    rw [this]
    tauto
  | cons e rest ih =>
    obtain ⟨k', s⟩ := e
    by_cases hk : k' = k
    · subst hk
      rw [addTo, if_pos rfl, avail_cons_iff, avail_cons_iff, mem_add]
      tauto
    · rw [addTo, if_neg hk, avail_cons_iff, avail_cons_iff, ih]
      tauto

theorem avail_closeRow (s : List Int) (acc : Table) (ndx a b : Int) :
    avail (closeRow acc ndx s) a b = true ↔ (avail acc a b = true ∨ (b = ndx ∧ a ∈ s)) := by
  induction s generalizing acc with
  | nil => simp [closeRow]
  | cons o os ih =>
    rw [closeRow, ih, avail_addTo, List.mem_cons]
    tauto

theorem avail_closeLoop (t acc : Table) (a b : Int) :
    avail (closeLoop acc t) a b = true ↔ (avail acc a b = true ∨ avail t b a = true) := by
  induction t generalizing acc with
  | nil => simp [closeLoop, avail_nil]
  | cons e rest ih =>
    obtain ⟨ndx, s⟩ := e
    rw [closeLoop, ih, avail_closeRow, avail_cons_iff]
    tauto

theorem avail_close (t : Table) (a b : Int) :
    avail (close t) a b = true ↔ (avail t a b = true ∨ avail t b a = true) := by
  rw [close, avail_closeLoop]

/-! ## The stored table is still a dict (distinct keys) and `avail` is the dict lookup -/

def keysOf (t : Table) : List Int := t.map (·.1)

theorem keysOf_addTo (t : Table) (k v : Int) :
    keysOf (addTo t k v) = if k ∈ keysOf t then keysOf t else keysOf t ++ [k] := by
  induction t with
  | nil => simp [addTo, keysOf]
  | cons e rest ih =>
    obtain ⟨k', s⟩ := e
    by_cases hk : k' = k
    · subst hk; simp [addTo, keysOf]
    · have hk' : ¬ k = k' := fun h => hk h.symm
      simp only [keysOf] at ih ⊢
      rw [addTo, if_neg hk, List.map_cons, ih]
      by_cases hm : k ∈ List.map (·.1) rest
      · simp [hm]
      · simp [hm, hk']

theorem nodup_addTo (t : Table) (k v : Int) (h : (keysOf t).Nodup) : (keysOf (addTo t k v)).Nodup := by
  rw [keysOf_addTo]
  by_cases hm : k ∈ keysOf t
  · rw [if_pos hm]; exact h
  · rw [if_neg hm]
    refine List.nodup_append.mpr ⟨h, (by simp), ?_⟩
    intro x hx y hy
    rw [List.mem_singleton] at hy
    subst hy
    intro hxy
    subst hxy
    exact hm hx

theorem nodup_closeRow (s : List Int) (acc : Table) (ndx : Int) (h : (keysOf acc).Nodup) :
    (keysOf (closeRow acc ndx s)).Nodup := by
  induction s generalizing acc with
  | nil => exact h
  | cons o os ih => exact ih _ (nodup_addTo acc o ndx h)

theorem nodup_closeLoop (t acc : Table) (h : (keysOf acc).Nodup) : (keysOf (closeLoop acc t)).Nodup := by
  induction t generalizing acc with
  | nil => exact h
  | cons e rest ih =>
    obtain ⟨ndx, s⟩ := e
    exact ih _ (nodup_closeRow s acc ndx h)

theorem avail_eq_lookup_aux (t : Table) (a b : Int) (h : (keysOf t).Nodup) :
    avail t a b = (match t.lookup a with | some s => s.contains b | none => false) := by
  induction t with
  | nil => rfl
  | cons e rest ih =>
    obtain ⟨k, s⟩ := e
    simp only [keysOf, List.map_cons, List.nodup_cons] at h
    have ih' := ih h.2
    by_cases hk : a = k
    · subst hk
      have hrest : avail rest a b = false := by
        cases hr : avail rest a b with
        | false => rfl
        | true =>
          exfalso
          simp only [avail, List.any_eq_true, Bool.and_eq_true, beq_iff_eq] at hr
          obtain ⟨p, hp, hpa, _⟩ := hr
          exact h.1 (List.mem_map.mpr ⟨p, hp, hpa⟩)
      have : avail ((a, s) :: rest) a b = s.contains b := by
        cases hc : s.contains b with
        | true => exact (avail_cons_iff a s rest a b).mpr (Or.inl ⟨rfl, by simpa using hc⟩)
        | false =>
          cases hav : avail ((a, s) :: rest) a b with
          | false => rfl
          | true =>
            rcases (avail_cons_iff a s rest a b).mp hav with ⟨_, hb⟩ | hr
            · simp [hb] at hc
            · rw [hrest] at hr; cases hr
      rw [this]
      simp [List.lookup]
    · have hne : (a == k) = false := by simpa using hk
      have : avail ((k, s) :: rest) a b = avail rest a b := by
        cases hr : avail rest a b with
        | true => exact (avail_cons_iff k s rest a b).mpr (Or.inr hr)
        | false =>
          cases hav : avail ((k, s) :: rest) a b with
          | false => rfl
          | true =>
            rcases (avail_cons_iff k s rest a b).mp hav with ⟨hka, _⟩ | hr'
            · exact absurd hka.symm hk
            · rw [hr] at hr'; cases hr'
      rw [this, ih']
      simp [List.lookup, hne]

end Cfg
end Abmarl
