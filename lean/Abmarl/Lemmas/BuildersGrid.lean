import Abmarl.Lemmas.Builders
/-!
# Helper lemmas for C18, part 3: the grid builder and the placement at reset

* `mem_layoutAgents`: which agents the layout prescribes, entry by entry;
* `fromGrid_gridOfAgents`: scanning the grid that holds the layout's agents, cell by cell in
  row-major order, meets them in reading order again;
* `placeInitial_*`: agents with an initial position end up exactly there, and placing agents
  with distinct in-range positions never fails.
-/
namespace Abmarl
namespace Builders

/-- the agents the layout prescribes: entry `j` holding the registered character `ch` yields the
agent numbered by the earlier occurrences of `ch`, at `(j / cols, j % cols)` — and nothing else -/
theorem mem_layoutAgents (reg : Registry) (cols : Nat) (cells : List Nat) (a : Agent) :
    a ∈ layoutAgents reg cols cells ↔
      ∃ j ch enc, cells[j]? = some ch ∧ reg.lookup ch = some enc ∧
        a = { id := .gen ch ((cells.take j).count ch), enc := enc, ipos := some (j / cols, j % cols) } := by
  simp only [layoutAgents, List.mem_filterMap, Option.map_eq_some_iff, Prod.exists,
    List.mem_zipIdx_iff_getElem?]
  constructor
  · rintro ⟨ch, j, hj, enc, hl, rfl⟩
    exact ⟨j, ch, enc, hj, hl, rfl⟩
  · rintro ⟨j, ch, enc, hj, hl, rfl⟩
    exact ⟨ch, j, hj, enc, hl, rfl⟩

/-- two layout agents with the same initial position are the same agent -/
theorem layoutAgents_ipos_inj (reg : Registry) (cols : Nat) (cells : List Nat) (a b : Agent)
    (ha : a ∈ layoutAgents reg cols cells) (hb : b ∈ layoutAgents reg cols cells)
    (h : a.ipos = b.ipos) : a = b := by
  obtain ⟨j, ch, enc, hj, hl, rfl⟩ := (mem_layoutAgents reg cols cells a).mp ha
  obtain ⟨j', ch', enc', hj', hl', rfl⟩ := (mem_layoutAgents reg cols cells b).mp hb
  simp only [Option.some.injEq] at h
  have := pos_inj h
  subst this
  rw [hj] at hj'
  injection hj' with e
  subst e
  rw [hl] at hl'
  injection hl' with e
  subst e
  rfl

/-! ## The grid builder -/

/-- "agent `a` is to be placed on the cell with flat index `i`" -/
def atCell (cols i : Nat) (a : Agent) : Bool := decide (a.ipos = some (i / cols, i % cols))

theorem gridOfAgents_getD (rows cols : Nat) (L : List Agent) (i : Nat) (hi : i < rows * cols) :
    (gridOfAgents rows cols L).getD i none = some (L.filter (atCell cols i)) := by
  simp only [gridOfAgents, List.getD_eq_getElem?_getD, List.getElem?_map, List.getElem?_range hi,
    Option.map_some, Option.getD_some]
  rfl

theorem gridLoop_flat (rows cols : Nat) (g : GridCells) (d : List Agent) :
    gridLoop rows cols g d =
      forRangeE (fun d i => gridCellStep d (g.getD i none) (i / cols) (i % cols)) (rows * cols) 0 d := by
  unfold gridLoop
  rw [forRangeE_nested_flat (fun d r c => gridCellStep d (g.getD (r * cols + c) none) r c) cols rows 0 d]
  simp only [Nat.div_add_mod', Nat.zero_mul]

theorem forRangeE_succ_ok {σ : Type} {f : σ → Nat → Except Err σ} {k i : Nat} {st st' : σ}
    (h : f st i = .ok st') : forRangeE f (k + 1) i st = forRangeE f k (i + 1) st' := by
  rw [forRangeE, h]

theorem gridFlat_ok (rows cols : Nat) (L : List Agent) :
    ∀ k i0 d, i0 + k ≤ rows * cols →
      forRangeE (fun d i => gridCellStep d ((gridOfAgents rows cols L).getD i none) (i / cols) (i % cols))
        k i0 d =
      .ok (((List.range' i0 k).map (fun i => L.filter (atCell cols i))).flatten.foldl dictSet d) := by
  intro k
  induction k with
  | zero => intro i0 d _; simp [forRangeE]
  | succ k ih =>
    intro i0 d h
    have hall : (L.filter (atCell cols i0)).all
        (fun a => decide (a.ipos = some (i0 / cols, i0 % cols))) = true := by
      rw [List.all_eq_true]
      intro a ha
      exact (List.mem_filter.mp ha).2
    have hstep : gridCellStep d ((gridOfAgents rows cols L).getD i0 none) (i0 / cols) (i0 % cols) =
        .ok ((L.filter (atCell cols i0)).foldl dictSet d) := by
      rw [gridOfAgents_getD rows cols L i0 (by omega)]
      simp only [gridCellStep, hall, if_true]
    rw [forRangeE_succ_ok
      (f := fun d i => gridCellStep d ((gridOfAgents rows cols L).getD i none) (i / cols) (i % cols))
      (h := hstep), ih (i0 + 1) _ (by omega)]
    simp [List.range'_succ, List.foldl_append]

/-- cutting the layout's agents by cell, in row-major order of the cells, and gluing the pieces
together gives the layout's agents in reading order again -/
theorem flatten_by_cell (reg : Registry) (cols : Nat) :
    ∀ suf pre : List Nat,
      ((List.range' pre.length suf.length).map
        (fun i => (layoutFrom reg cols pre suf).filter (atCell cols i))).flatten =
        layoutFrom reg cols pre suf := by
  intro suf
  induction suf with
  | nil => intro pre; simp [layoutFrom]
  | cons ch rest ih =>
    intro pre
    have ih' := ih (pre ++ [ch])
    simp only [List.length_append, List.length_cons, List.length_nil, Nat.zero_add] at ih'
    have hH : ∀ a ∈ headAgent reg cols pre ch, a.ipos = some (pre.length / cols, pre.length % cols) := by
      intro a ha
      unfold headAgent at ha
      cases hl : reg.lookup ch with
      | none => simp [hl] at ha
      | some enc => simp only [hl, List.mem_singleton] at ha; subst ha; rfl
    have hT : ∀ a ∈ layoutFrom reg cols (pre ++ [ch]) rest,
        ∃ j, pre.length + 1 ≤ j ∧ a.ipos = some (j / cols, j % cols) := by
      intro a ha
      obtain ⟨j, h1, _, h3⟩ := layoutFrom_pos reg cols rest _ a ha
      simp only [List.length_append, List.length_cons, List.length_nil, Nat.zero_add] at h1
      exact ⟨j, h1, h3⟩
    rw [layoutFrom, List.length_cons, List.range'_succ, List.map_cons, List.flatten_cons, List.filter_append]
    have h1 : (headAgent reg cols pre ch).filter (atCell cols pre.length) = headAgent reg cols pre ch := by
      rw [List.filter_eq_self]
      intro a ha
      simp [atCell, hH a ha]
    have h2 : (layoutFrom reg cols (pre ++ [ch]) rest).filter (atCell cols pre.length) = [] := by
      rw [List.filter_eq_nil_iff]
      intro a ha
      obtain ⟨j, hj, hp⟩ := hT a ha
      simp only [atCell, hp, Option.some.injEq, decide_eq_true_eq]
      intro e
      have := pos_inj e
      omega
    have h3 : (List.range' (pre.length + 1) rest.length).map
          (fun i => (headAgent reg cols pre ch ++ layoutFrom reg cols (pre ++ [ch]) rest).filter (atCell cols i)) =
        (List.range' (pre.length + 1) rest.length).map
          (fun i => (layoutFrom reg cols (pre ++ [ch]) rest).filter (atCell cols i)) := by
      apply List.map_congr_left
      intro i hi
      have hi' : pre.length + 1 ≤ i := by
        have := List.mem_range'_1.mp hi
        omega
      rw [List.filter_append]
      have : (headAgent reg cols pre ch).filter (atCell cols i) = [] := by
        rw [List.filter_eq_nil_iff]
        intro a ha
        simp only [atCell, hH a ha, Option.some.injEq, decide_eq_true_eq]
        intro e
        have := pos_inj e
        omega
      rw [this, List.nil_append]
    rw [h1, h2, h3, ih', List.append_nil]

/-- **the grid builder on the grid that holds the layout's agents** -/
theorem fromGrid_gridOfAgents (rows cols : Nat) (cells : List Nat) (reg : Registry)
    (extras : List Agent) (hlen : cells.length = rows * cols) :
    fromGrid rows cols (gridOfAgents rows cols (layoutAgents reg cols cells)) extras =
      buildSim rows cols ((layoutAgents reg cols cells).foldl dictSet extras) := by
  unfold fromGrid
  rw [gridLoop_flat, gridFlat_ok rows cols _ (rows * cols) 0 extras (by omega)]
  have := flatten_by_cell reg cols cells []
  simp only [List.length_nil, hlen] at this
  rw [layoutAgents_eq, this]

/-! ## Placement at reset -/

theorem placeInitial_ok_mem (rows cols : Nat) :
    ∀ (agents : List Agent) (placed placed' : List (AId × Pos)),
      placeInitial rows cols agents placed = .ok placed' →
      (∀ q ∈ placed, q ∈ placed') ∧ ∀ a ∈ agents, ∀ p, a.ipos = some p → (a.id, p) ∈ placed' := by
  intro agents
  induction agents with
  | nil =>
    intro placed placed' h
    simp only [placeInitial, Except.ok.injEq] at h
    subst h
    exact ⟨fun _ h => h, fun a ha => by simp at ha⟩
  | cons a rest ih =>
    intro placed placed' h
    rw [placeInitial] at h
    cases hp : a.ipos with
    | none =>
      simp only [hp] at h
      obtain ⟨h1, h2⟩ := ih _ _ h
      refine ⟨h1, fun b hb p hbp => ?_⟩
      rcases List.mem_cons.mp hb with e | hb
      · subst e; rw [hp] at hbp; cases hbp
      · exact h2 b hb p hbp
    | some p0 =>
      simp only [hp] at h
      split at h
      · cases h
      · split at h
        · cases h
        · obtain ⟨h1, h2⟩ := ih _ _ h
          refine ⟨fun q hq => h1 q (by simp [hq]), fun b hb p hbp => ?_⟩
          rcases List.mem_cons.mp hb with e | hb
          · subst e
            rw [hp] at hbp
            injection hbp with e
            subst e
            exact h1 _ (by simp)
          · exact h2 b hb p hbp

theorem placeInitial_succeeds (rows cols : Nat) :
    ∀ (agents : List Agent) (placed : List (AId × Pos)),
      (∀ a ∈ agents, ∃ p, a.ipos = some p ∧ p.1 < rows ∧ p.2 < cols) →
      agents.Pairwise (fun a b => a.ipos ≠ b.ipos) →
      (∀ a ∈ agents, ∀ q ∈ placed, a.ipos ≠ some q.2) →
      ∃ placed', placeInitial rows cols agents placed = .ok placed' := by
  intro agents
  induction agents with
  | nil => intro placed _ _ _; exact ⟨placed, rfl⟩
  | cons a rest ih =>
    intro placed hin hpw hfree
    obtain ⟨p, hp, hr, hc⟩ := hin a (by simp)
    rw [List.pairwise_cons] at hpw
    rw [placeInitial]
    simp only [hp]
    rw [if_neg (by omega)]
    have hany : (placed.any fun q => decide (q.2 = p)) = false := by
      rw [List.any_eq_false]
      intro q hq
      simp only [decide_eq_true_eq]
      intro e
      exact hfree a (by simp) q hq (by rw [hp, e])
    simp only [hany, Bool.false_eq_true, if_false]
    apply ih
    · intro b hb; exact hin b (by simp [hb])
    · exact hpw.2
    · intro b hb q hq
      rcases List.mem_append.mp hq with hq | hq
      · exact hfree b (by simp [hb]) q hq
      · simp only [List.mem_singleton] at hq
        subst hq
        intro e
        exact hpw.1 b hb (by rw [hp, e])

end Builders
end Abmarl
