import Abmarl.Spec.Membership
import Abmarl.Props.C04
import Abmarl.Props.C05
import Abmarl.Props.C14
import Abmarl.Props.C20
import Mathlib.Data.Rat.Floor
import Mathlib.Tactic.Linarith
/-!
# Helper lemmas for C02 (wrapper part): each wrapper layer keeps membership
-/
namespace Abmarl

/-! ## lists of children -/

theorem memL_of_forall {β : Type} (f : β → Space) (g : β → Pt) :
    ∀ l : List β, (∀ x ∈ l, mem (f x) (g x) = true) → memL (l.map f) (l.map g) = true := by
  intro l
  induction l with
  | nil => intro _; simp [memL]
  | cons x xs ih =>
    intro h
    simp only [List.map_cons, memL, Bool.and_eq_true]
    exact ⟨h x List.mem_cons_self, ih fun y hy => h y (List.mem_cons_of_mem _ hy)⟩

theorem mem_bitPt (b : Bool) : mem (.discrete 2 0) (bitPt b) = true := by
  cases b <;> decide

theorem mem_bitArr (b : Bool) : mem (.multiBinary 1) (bitArr b) = true := by
  cases b <;> decide

/-! ## the flattened Box as a space -/

theorem ratCeil_le (l : Rat) (v : Int) : ratCeil l ≤ v ↔ l ≤ (v : Rat) := by
  unfold ratCeil
  constructor
  · intro h
    have h1 : -v ≤ Rat.floor (-l) := by omega
    have h2 := Rat.le_floor_iff.mp h1
    push_cast at h2
    linarith
  · intro h
    have h1 : ((-v : Int) : Rat) ≤ -l := by push_cast; linarith
    have h2 := Rat.le_floor_iff.mpr h1
    omega

theorem memBoxI_ceil_floor : ∀ (lo hi : List Rat) (a : List Num),
    memBoxI (lo.map ratCeil) (hi.map Rat.floor) a = (a.all Num.isInt && memBoxQ lo hi a) := by
  intro lo
  induction lo with
  | nil =>
    intro hi a
    cases hi <;> cases a <;> simp [memBoxI, memBoxQ]
  | cons l ls ih =>
    intro hi a
    cases hi with
    | nil => cases a <;> simp [memBoxI, memBoxQ]
    | cons h hs =>
      cases a with
      | nil => simp [memBoxI, memBoxQ]
      | cons v vs =>
        cases v with
        | int i =>
          have h1 : decide (ratCeil l ≤ i) = decide (l ≤ ((i : Int) : Rat)) := by
            rw [decide_eq_decide]; exact ratCeil_le l i
          have h2 : decide (i ≤ Rat.floor h) = decide (((i : Int) : Rat) ≤ h) := by
            rw [decide_eq_decide]; exact Rat.le_floor_iff
          simp only [List.map_cons, memBoxI, memBoxQ, List.all_cons, Num.isInt, Num.val, Bool.true_and,
            ih, h1, h2]
          rw [Bool.eq_iff_iff]
          simp only [Bool.and_eq_true, decide_eq_true_eq]
          constructor
          · rintro ⟨⟨a1, a2⟩, a3, a4⟩; exact ⟨a3, ⟨decide_eq_true a1, decide_eq_true a2⟩, a4⟩
          · rintro ⟨a3, ⟨a1, a2⟩, a4⟩; exact ⟨⟨of_decide_eq_true a1, of_decide_eq_true a2⟩, a3, a4⟩
        | flt q => simp [memBoxI, memBoxQ, Num.isInt]

/-- membership in the flattened Box read as a `Space` is `memFlat` (`abmarl.tools.Box.contains` on a
one-dimensional array) -/
theorem toSpace_mem (b : FlatBox) (a : List Num) : mem b.toSpace (.arr a) = memFlat b a := by
  unfold FlatBox.toSpace memFlat
  by_cases hk : b.kind = .f
  · simp [hk, mem]
  · simp only [hk, if_false, mem, decide_false, Bool.false_or]
    exact memBoxI_ceil_floor b.lo b.hi a

/-! ## the four layers -/

theorem ravel_sound : MLayer.ravel.Sound (fun s => WF04 s = true) := by
  intro s p hW hm
  obtain ⟨k, hk, hlt⟩ := C04_ravel_lt s p hW hm
  refine ⟨.discrete (card s) 0, .scalar (.int (k : Int)), C04_ravelSpace_card s hW, ?_, ?_⟩
  · simp [MLayer.ravel, hk]
  · simp only [mem, Bool.and_eq_true, decide_eq_true_eq]
    omega

theorem flatten_sound : MLayer.flatten.Sound (fun s => WF05 s = true) := by
  intro s p hW hm
  obtain ⟨a, fb, h1, h2, h3⟩ := C05_flatten_mem s p hW hm
  refine ⟨fb.toSpace, .arr a, by simp [MLayer.flatten, h2], by simp [MLayer.flatten, h1], ?_⟩
  rw [toSpace_mem]; exact h3

theorem commPt_mem (kb ko : Nat) (oth : List Nat) (buffer : List (Nat × Bool)) (s : Space) (p : Pt)
    (hkeys : buffer.map (·.1) = oth) (hm : mem s p = true) :
    mem (commSpace kb ko oth s) (commPt kb ko buffer p) = true := by
  subst hkeys
  have hb : memL ((buffer.map (·.1)).map fun _ => Space.discrete 2 0) (buffer.map fun q => bitPt q.2) = true := by
    rw [List.map_map]
    exact memL_of_forall _ _ buffer fun q _ => mem_bitPt q.2
  simp only [commSpace, commPt, mem, memL, decide_true, Bool.true_and, Bool.and_true, Bool.and_eq_true]
  exact ⟨hb, hm⟩

theorem comm_sound (kb ko : Nat) (oth : List Nat) (buffer : List (Nat × Bool))
    (hkeys : buffer.map (·.1) = oth) : (MLayer.comm kb ko oth buffer).Sound (fun _ => True) := by
  intro s p _ hm
  exact ⟨_, _, rfl, rfl, commPt_mem kb ko oth buffer s p hkeys hm⟩

theorem superPt_mem (km : Nat) (sp : Nat → Space) (items : List (Nat × Bool × Pt))
    (h : ∀ i ∈ items, mem (sp i.1) i.2.2 = true) :
    mem (superSpace km (items.map (·.1)) sp)
      (superPt km (items.map fun i => (i.1, i.2.1)) (items.map fun i => (i.1, i.2.2))) = true := by
  have hmask : mem (.dict (items.map (·.1)) ((items.map (·.1)).map fun _ => Space.multiBinary 1))
      (.dict ((items.map fun i => (i.1, i.2.1)).map (·.1))
        ((items.map fun i => (i.1, i.2.1)).map fun q => bitArr q.2)) = true := by
    simp only [mem, List.map_map, Function.comp_def, decide_true, Bool.true_and]
    exact memL_of_forall _ _ items fun i _ => mem_bitArr i.2.1
  have hobs : memL ((items.map (·.1)).map sp) ((items.map fun i => (i.1, i.2.2)).map (·.2)) = true := by
    simp only [List.map_map, Function.comp_def]
    exact memL_of_forall _ _ items h
  simp only [superSpace, superPt, mem, memL, List.map_map, Function.comp_def, decide_true, Bool.true_and,
    Bool.and_eq_true]
  simp only [mem, List.map_map, Function.comp_def] at hmask hobs
  exact ⟨hmask, hobs⟩

/-! ## the super agent's observation loop (model of C14) keeps membership -/

section super
variable {σ α ι : Type}

theorem supObs1_mem (S : SimIface σ α Pt ι) (cfg : SuperCfg Pt) (sp : Aid → Space) (I : σ → Prop)
    (hobs : ∀ s c, I s → mem (sp c) (S.obs s c).1 = true ∧ I (S.obs s c).2)
    (hnull : ∀ c o, cfg.usableNull c = some o → mem (sp c) o = true)
    (st : SupSt σ) (c : Aid) (hI : I st.sim) :
    (supObs1 S cfg st c).1.agent = c ∧ mem (sp c) (supObs1 S cfg st c).1.obs = true ∧
      I (supObs1 S cfg st c).2.sim := by
  by_cases hd : S.done st.sim c = true
  · by_cases hl : c ∈ st.lastObs
    · cases hu : cfg.usableNull c with
      | some o =>
        have e : supObs1 S cfg st c = (⟨c, false, o, false⟩, st) := by simp [supObs1, hd, hl, hu]
        rw [e]; exact ⟨rfl, hnull c o hu, hI⟩
      | none =>
        have e : supObs1 S cfg st c =
            (⟨c, false, (S.obs st.sim c).1, true⟩, { st with sim := (S.obs st.sim c).2 }) := by
          simp [supObs1, hd, hl, hu]
        rw [e]; exact ⟨rfl, (hobs _ c hI).1, (hobs _ c hI).2⟩
    · have e : supObs1 S cfg st c =
          (⟨c, false, (S.obs st.sim c).1, true⟩,
           { st with sim := (S.obs st.sim c).2, lastObs := c :: st.lastObs }) := by
        simp [supObs1, hd, hl]
      rw [e]; exact ⟨rfl, (hobs _ c hI).1, (hobs _ c hI).2⟩
  · have e : supObs1 S cfg st c =
        (⟨c, true, (S.obs st.sim c).1, true⟩, { st with sim := (S.obs st.sim c).2 }) := by
      simp [supObs1, hd]
    rw [e]; exact ⟨rfl, (hobs _ c hI).1, (hobs _ c hI).2⟩

theorem supObsLoop_mem (S : SimIface σ α Pt ι) (cfg : SuperCfg Pt) (sp : Aid → Space) (I : σ → Prop)
    (hobs : ∀ s c, I s → mem (sp c) (S.obs s c).1 = true ∧ I (S.obs s c).2)
    (hnull : ∀ c o, cfg.usableNull c = some o → mem (sp c) o = true) :
    ∀ (cov : List Aid) (st : SupSt σ), I st.sim →
      (supObsLoop S cfg cov st).1.map (·.agent) = cov ∧
      (∀ i ∈ (supObsLoop S cfg cov st).1, mem (sp i.agent) i.obs = true) ∧
      I (supObsLoop S cfg cov st).2.sim := by
  intro cov
  induction cov with
  | nil => intro st hI; simp [supObsLoop, hI]
  | cons c cs ih =>
    intro st hI
    obtain ⟨h1, h2, h3⟩ := supObs1_mem S cfg sp I hobs hnull st c hI
    obtain ⟨g1, g2, g3⟩ := ih (supObs1 S cfg st c).2 h3
    simp only [supObsLoop, List.map_cons, List.mem_cons]
    refine ⟨by rw [h1, g1], ?_, g3⟩
    rintro i (rfl | hi)
    · rw [h1]; exact h2
    · exact g2 i hi

end super

/-! ## stacks -/

theorem stack_sound : ∀ (Ls : List (MLayer × (Space → Prop))) (s : Space) (p : Pt),
    (∀ Ld ∈ Ls, Ld.1.Sound Ld.2) → stackDom Ls s → mem s p = true →
    ∃ s' p', stackRun (Ls.map (·.1)) s p = some (s', p') ∧ mem s' p' = true := by
  intro Ls
  induction Ls with
  | nil => intro s p _ _ hm; exact ⟨s, p, rfl, hm⟩
  | cons Ld Ls ih =>
    intro s p hS hD hm
    obtain ⟨L, dom⟩ := Ld
    obtain ⟨hdom, hrest⟩ := hD
    obtain ⟨s1, p1, hs1, hp1, hm1⟩ := hS (L, dom) List.mem_cons_self s p hdom hm
    obtain ⟨s', p', hrun, hm'⟩ := ih s1 p1 (fun Ld hLd => hS Ld (List.mem_cons_of_mem _ hLd))
      (hrest s1 hs1) hm1
    refine ⟨s', p', ?_, hm'⟩
    simp only [] at hs1 hp1
    simp only [List.map_cons, stackRun]
    rw [hs1, hp1]
    exact hrun

end Abmarl
