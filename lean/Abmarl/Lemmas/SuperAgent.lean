import Abmarl.Spec.SuperAgent
import Abmarl.Lemmas.ManagersInv
/-!
# Lemmas behind C14: the two loops of `SuperAgentWrapper` over a lawful inner simulation

`supObs1_spec` / `supObsLoop_spec` characterise `get_obs` of a super agent, `supRewLoop_spec`
characterises `get_reward`; both are stated for an arbitrary inner `SimIface` satisfying `Lawful`.
-/
namespace Abmarl
variable {σ α ω ι : Type}

/-! ### the mapping -/

theorem mem_covered_of_group {cfg : SuperCfg ω} {i : Nat} {cov : List Aid}
    (h : cfg.groups[i]? = some cov) {c : Aid} (hc : c ∈ cov) : c ∈ cfg.covered := by
  unfold SuperCfg.covered
  exact List.mem_flatten.mpr ⟨cov, List.mem_of_getElem? h, hc⟩

theorem nodup_group {cfg : SuperCfg ω} (hnd : cfg.covered.Nodup) {i : Nat} {cov : List Aid}
    (h : cfg.groups[i]? = some cov) : cov.Nodup := by
  unfold SuperCfg.covered List.Nodup at hnd
  exact (List.pairwise_flatten.mp hnd).1 cov (List.mem_of_getElem? h)

/-- what the constructor's assertions establish -/
theorem ctorOK_iff {n : Nat} {learning : Aid → Bool} {cfg : SuperCfg ω} :
    ctorOK n learning cfg = true ↔
      (∀ c ∈ cfg.covered, c < n ∧ learning c = true) ∧ cfg.covered.Nodup := by
  simp [ctorOK, List.all_eq_true]

/-- every declared null observation is truthy in Python (so that `_get_null_obs` uses it) -/
def NullTruthy (cfg : SuperCfg ω) : Prop :=
  ∀ c ∈ cfg.covered, (cfg.declared c).isSome = true → cfg.nullTruthy.getD c false = true

theorem usableNull_isNone {cfg : SuperCfg ω} (hn : NullTruthy cfg) {c : Aid} (hc : c ∈ cfg.covered) :
    cfg.usableNull c = cfg.declared c := by
  unfold SuperCfg.usableNull
  cases hd : cfg.declared c with
  | none => simp
  | some o => rw [if_pos (hn c hc (by simp [hd]))]

/-! ### one covered agent of `get_obs` -/

theorem supObs1_spec {S : SimIface σ α ω ι} (hS : Lawful S) (cfg : SuperCfg ω) (st : SupSt σ) (c : Aid) :
    (supObs1 S cfg st c).1.agent = c ∧
    (supObs1 S cfg st c).1.mask = !S.done st.sim c ∧
    (supObs1 S cfg st c).1.real =
      (!S.done st.sim c || !decide (c ∈ st.lastObs) || (cfg.usableNull c).isNone) ∧
    ((supObs1 S cfg st c).1.real = false → cfg.usableNull c = some (supObs1 S cfg st c).1.obs) ∧
    SameView S st.sim (supObs1 S cfg st c).2.sim ∧
    (∀ b, S.pending (supObs1 S cfg st c).2.sim b = S.pending st.sim b) ∧
    (supObs1 S cfg st c).2.lastRew = st.lastRew ∧
    (∀ x, x ∈ (supObs1 S cfg st c).2.lastObs ↔ x ∈ st.lastObs ∨ (x = c ∧ S.done st.sim c = true)) := by
  have hv : SameView S st.sim (S.obs st.sim c).2 :=
    ⟨hS.obs_done st.sim c, hS.obs_allDone st.sim c, hS.obs_next st.sim c⟩
  unfold supObs1
  by_cases hd : S.done st.sim c = true
  · rw [if_pos hd]
    by_cases hl : c ∈ st.lastObs
    · rw [if_pos hl]
      cases hu : cfg.usableNull c with
      | some o =>
        refine ⟨rfl, by simp [hd], by simp [hd, hl], fun _ => rfl, SameView.refl S _, fun _ => rfl, rfl, ?_⟩
        intro x
        constructor
        · exact Or.inl
        · rintro (h | ⟨rfl, _⟩)
          · exact h
          · exact hl
      | none =>
        refine ⟨rfl, by simp [hd], by simp [hd, hl], by simp, hv, hS.obs_pending st.sim c, rfl, ?_⟩
        intro x
        constructor
        · exact Or.inl
        · rintro (h | ⟨rfl, _⟩)
          · exact h
          · exact hl
    · rw [if_neg hl]
      refine ⟨rfl, by simp [hd], by simp [hd, hl], by simp, hv, hS.obs_pending st.sim c, rfl, ?_⟩
      intro x
      simp only [List.mem_cons]
      constructor
      · rintro (rfl | h)
        · exact Or.inr ⟨rfl, hd⟩
        · exact Or.inl h
      · rintro (h | ⟨rfl, _⟩)
        · exact Or.inr h
        · exact Or.inl rfl
  · rw [if_neg hd]
    have hd' : S.done st.sim c = false := by simpa using hd
    refine ⟨rfl, by simp [hd'], by simp [hd'], by simp, hv, hS.obs_pending st.sim c, rfl, ?_⟩
    intro x
    constructor
    · exact Or.inl
    · rintro (h | ⟨_, h⟩)
      · exact h
      · rw [hd'] at h; cases h

theorem readsOf_cons (i : ObsItem ω) (l : List (ObsItem ω)) :
    readsOf (i :: l) = if i.real then (i.agent, i.obs) :: readsOf l else readsOf l := by
  unfold readsOf
  by_cases h : i.real = true <;> simp [h]

/-- `get_obs` of a super agent over a lawful inner simulation: the hand-over rule `expectObs`
replayed against the model's own read log yields the model's entries; the mask is `!done`;
the inner simulation's done flags and pending rewards are untouched; exactly the covered agents
that are done get marked as reported. -/
theorem supObsLoop_spec {S : SimIface σ α ω ι} (hS : Lawful S) (cfg : SuperCfg ω) (due : Aid → Bool) :
    ∀ (cov : List Aid) (st : SupSt σ), cov.Nodup →
      (∀ c ∈ cov, due c = (!S.done st.sim c || !decide (c ∈ st.lastObs) || (cfg.declared c).isNone)) →
      (∀ c ∈ cov, cfg.usableNull c = cfg.declared c) →
      expectObs due cfg.declared cov (readsOf (supObsLoop S cfg cov st).1) =
        some ((supObsLoop S cfg cov st).1.map fun i => (i.agent, i.obs)) ∧
      (supObsLoop S cfg cov st).1.map (fun i => (i.agent, i.mask)) =
        cov.map (fun c => (c, !S.done st.sim c)) ∧
      SameView S st.sim (supObsLoop S cfg cov st).2.sim ∧
      (∀ b, S.pending (supObsLoop S cfg cov st).2.sim b = S.pending st.sim b) ∧
      (supObsLoop S cfg cov st).2.lastRew = st.lastRew ∧
      (∀ x, x ∈ (supObsLoop S cfg cov st).2.lastObs ↔
        x ∈ st.lastObs ∨ (x ∈ cov ∧ S.done st.sim x = true)) := by
  intro cov
  induction cov with
  | nil =>
    intro st _ _ _
    refine ⟨by simp [supObsLoop, readsOf, expectObs], by simp [supObsLoop], SameView.refl S _,
      fun _ => rfl, rfl, by simp [supObsLoop]⟩
  | cons c cs ih =>
    intro st hnd hdue hnull
    have hnd' := List.nodup_cons.mp hnd
    obtain ⟨r1, hr1⟩ : ∃ r1, r1 = supObs1 S cfg st c := ⟨_, rfl⟩
    obtain ⟨ha, hm, hreal, hnl, hv, hp, hlr, hlo⟩ := supObs1_spec hS cfg st c
    rw [← hr1] at ha hm hreal hnl hv hp hlr hlo
    have hdue' : ∀ c' ∈ cs, due c' =
        (!S.done r1.2.sim c' || !decide (c' ∈ r1.2.lastObs) || (cfg.declared c').isNone) := by
      intro c' hc'
      rw [hdue c' (List.mem_cons_of_mem _ hc'), hv.1 c']
      have hne : c' ≠ c := fun e => hnd'.1 (e ▸ hc')
      have : (c' ∈ r1.2.lastObs) ↔ (c' ∈ st.lastObs) := by
        rw [hlo c']; simp [hne]
      simp only [this]
    obtain ⟨i1, i2, i3, i4, i5, i6⟩ :=
      ih r1.2 hnd'.2 hdue' (fun c' hc' => hnull c' (List.mem_cons_of_mem _ hc'))
    have hE : supObsLoop S cfg (c :: cs) st = (r1.1 :: (supObsLoop S cfg cs r1.2).1, (supObsLoop S cfg cs r1.2).2) := by
      simp only [supObsLoop, ← hr1]
    rw [hE]
    have hduec : due c = r1.1.real := by
      rw [hdue c (List.mem_cons_self ..), hreal, hnull c (List.mem_cons_self ..)]
    refine ⟨?_, ?_, hv.trans i3, fun b => by rw [i4 b, hp b], by rw [i5, hlr], ?_⟩
    · simp only [readsOf_cons, List.map_cons]
      by_cases hr : r1.1.real = true
      · rw [if_pos hr]
        unfold expectObs
        rw [if_pos (by rw [hduec]; exact hr)]
        simp only [ha, if_true, i1, Option.map_some]
      · have hr' : r1.1.real = false := by simpa using hr
        rw [if_neg hr]
        unfold expectObs
        rw [if_neg (by rw [hduec]; exact hr)]
        have := hnl hr'
        rw [hnull c (List.mem_cons_self ..)] at this
        simp only [this, i1, Option.map_some, ha]
    · simp only [List.map_cons, i2, ha, hm]
      congr 1
      apply List.map_congr_left
      intro c' _
      rw [hv.1 c']
    · intro x
      rw [i6 x, hlo x, hv.1 x]
      simp only [List.mem_cons]
      constructor
      · rintro ((h | ⟨rfl, h⟩) | ⟨h1, h2⟩)
        · exact Or.inl h
        · exact Or.inr ⟨Or.inl rfl, h⟩
        · exact Or.inr ⟨Or.inr h1, h2⟩
      · rintro (h | ⟨rfl | h1, h2⟩)
        · exact Or.inl (Or.inl h)
        · exact Or.inl (Or.inr ⟨rfl, h2⟩)
        · exact Or.inr ⟨h1, h2⟩

/-! ### `get_reward` -/

/-- `get_reward` of a super agent over a lawful inner simulation: the sum of what is pending for
the covered agents that have not had their final count; exactly those are emptied; exactly the done
ones get marked as finally counted. -/
theorem supRewLoop_spec {S : SimIface σ α ω ι} (hS : Lawful S) :
    ∀ (cov : List Aid) (st : SupSt σ) (sum : Int), cov.Nodup →
      (supRewLoop S cov st sum).1 = sum +
        ((cov.filter fun c => !(S.done st.sim c && decide (c ∈ st.lastRew))).map (S.pending st.sim)).sum ∧
      SameView S st.sim (supRewLoop S cov st sum).2.sim ∧
      (∀ b, S.pending (supRewLoop S cov st sum).2.sim b =
        if b ∈ cov.filter (fun c => !(S.done st.sim c && decide (c ∈ st.lastRew))) then 0
        else S.pending st.sim b) ∧
      (supRewLoop S cov st sum).2.lastObs = st.lastObs ∧
      (∀ x, x ∈ (supRewLoop S cov st sum).2.lastRew ↔
        x ∈ st.lastRew ∨ (x ∈ cov ∧ S.done st.sim x = true)) := by
  intro cov
  induction cov with
  | nil =>
    intro st sum _
    refine ⟨by simp [supRewLoop], SameView.refl S _, by simp [supRewLoop], rfl, by simp [supRewLoop]⟩
  | cons c cs ih =>
    intro st sum hnd
    have hnd' := List.nodup_cons.mp hnd
    have hv : SameView S st.sim (S.reward st.sim c).2 :=
      ⟨hS.rew_done st.sim c, hS.rew_allDone st.sim c, hS.rew_next st.sim c⟩
    by_cases hskip : (S.done st.sim c && decide (c ∈ st.lastRew)) = true
    · -- finally counted already: skipped
      have hd : S.done st.sim c = true := by
        simp only [Bool.and_eq_true] at hskip; exact hskip.1
      have hl : c ∈ st.lastRew := by
        simp only [Bool.and_eq_true, decide_eq_true_eq] at hskip; exact hskip.2
      have hE : supRewLoop S (c :: cs) st sum = supRewLoop S cs st sum := by
        rw [supRewLoop, if_pos hd, if_pos hl]
      have hF : (c :: cs).filter (fun c => !(S.done st.sim c && decide (c ∈ st.lastRew))) =
          cs.filter (fun c => !(S.done st.sim c && decide (c ∈ st.lastRew))) := by
        rw [List.filter_cons, hskip]; rfl
      rw [hE, hF]
      obtain ⟨i1, i2, i3, i4, i5⟩ := ih st sum hnd'.2
      refine ⟨i1, i2, i3, i4, ?_⟩
      intro x
      rw [i5 x]
      simp only [List.mem_cons]
      constructor
      · rintro (h | ⟨h1, h2⟩)
        · exact Or.inl h
        · exact Or.inr ⟨Or.inr h1, h2⟩
      · rintro (h | ⟨rfl | h1, h2⟩)
        · exact Or.inl h
        · exact Or.inl hl
        · exact Or.inr ⟨h1, h2⟩
    · -- read: the agent is not done, or done and not yet finally counted
      have hskip' : (S.done st.sim c && decide (c ∈ st.lastRew)) = false := by simpa using hskip
      obtain ⟨st1, hst1⟩ : ∃ st1 : SupSt σ, st1 =
          { st with sim := (S.reward st.sim c).2,
                    lastRew := if S.done st.sim c then c :: st.lastRew else st.lastRew } := ⟨_, rfl⟩
      have hE : supRewLoop S (c :: cs) st sum = supRewLoop S cs st1 (sum + (S.reward st.sim c).1) := by
        rw [supRewLoop, hst1]
        by_cases hd : S.done st.sim c = true
        · have hl : c ∉ st.lastRew := by
            intro h; simp [hd, h] at hskip'
          rw [if_pos hd, if_neg hl]; simp [hd]
        · rw [if_neg hd]; simp [hd]
      have hsim : st1.sim = (S.reward st.sim c).2 := by rw [hst1]
      have hlo : st1.lastObs = st.lastObs := by rw [hst1]
      have hlr : ∀ x, x ∈ st1.lastRew ↔ x ∈ st.lastRew ∨ (x = c ∧ S.done st.sim c = true) := by
        intro x
        rw [hst1]
        by_cases hd : S.done st.sim c = true
        · simp only [hd, if_true, List.mem_cons, and_true]
          constructor
          · rintro (h | h)
            · exact Or.inr h
            · exact Or.inl h
          · rintro (h | h)
            · exact Or.inr h
            · exact Or.inl h
        · simp [hd]
      have hFc : ∀ c' ∈ cs, (!(S.done st1.sim c' && decide (c' ∈ st1.lastRew))) =
          (!(S.done st.sim c' && decide (c' ∈ st.lastRew))) := by
        intro c' hc'
        have hne : c' ≠ c := fun e => hnd'.1 (e ▸ hc')
        have : (c' ∈ st1.lastRew) ↔ (c' ∈ st.lastRew) := by rw [hlr c']; simp [hne]
        rw [hsim, hv.1 c']
        simp only [this]
      have hF1 : cs.filter (fun c' => !(S.done st1.sim c' && decide (c' ∈ st1.lastRew))) =
          cs.filter (fun c' => !(S.done st.sim c' && decide (c' ∈ st.lastRew))) :=
        List.filter_congr hFc
      have hF : (c :: cs).filter (fun c => !(S.done st.sim c && decide (c ∈ st.lastRew))) =
          c :: cs.filter (fun c => !(S.done st.sim c && decide (c ∈ st.lastRew))) := by
        rw [List.filter_cons, hskip']; rfl
      obtain ⟨i1, i2, i3, i4, i5⟩ := ih st1 (sum + (S.reward st.sim c).1) hnd'.2
      rw [hE, hF]
      rw [hF1] at i1 i3
      refine ⟨?_, ?_, ?_, by rw [i4, hlo], ?_⟩
      · rw [i1, hS.rew_val]
        simp only [List.map_cons, List.sum_cons]
        have : (cs.filter fun c => !(S.done st.sim c && decide (c ∈ st.lastRew))).map (S.pending st1.sim) =
            (cs.filter fun c => !(S.done st.sim c && decide (c ∈ st.lastRew))).map (S.pending st.sim) := by
          apply List.map_congr_left
          intro c' hc'
          have hne : c' ≠ c := fun e => hnd'.1 (e ▸ (List.mem_filter.mp hc').1)
          rw [hsim, hS.rew_pending]; simp [hne]
        rw [this]; omega
      · rw [← hsim] at hv; exact hv.trans i2
      · intro b
        rw [i3 b, hsim, hS.rew_pending]
        simp only [List.mem_cons]
        by_cases hb : b = c
        · subst hb; simp
        · simp [hb]
      · intro x
        rw [i5 x, hlr x, hsim, hv.1 x]
        simp only [List.mem_cons]
        constructor
        · rintro ((h | ⟨rfl, h⟩) | ⟨h1, h2⟩)
          · exact Or.inl h
          · exact Or.inr ⟨Or.inl rfl, h⟩
          · exact Or.inr ⟨Or.inr h1, h2⟩
        · rintro (h | ⟨rfl | h1, h2⟩)
          · exact Or.inl (Or.inl h)
          · exact Or.inl (Or.inr ⟨rfl, h2⟩)
          · exact Or.inr ⟨h1, h2⟩

end Abmarl
