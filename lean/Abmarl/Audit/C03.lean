import Abmarl.Props.C03
#print axioms Abmarl.C03_reachable
#print axioms Abmarl.C03_every_step
#print axioms Abmarl.C03_moves_preserve
#print axioms Abmarl.C03_reset_establishes
#print axioms Abmarl.applyComps_spec
#print axioms Abmarl.applyComp_spec
#print axioms Abmarl.WInv_of_specC12
#print axioms Abmarl.WInv_of_clauses
#print axioms Abmarl.runGOp_step
#print axioms Abmarl.runGOps_inv
#print axioms Abmarl.trace_prefix
#print axioms Abmarl.move_sframe
#print axioms Abmarl.C03_attacks
#print axioms Abmarl.attack_preserves_WInv_any
#print axioms Abmarl.successive_attacks
#print axioms Abmarl.World.move_preserves_WInv
#print axioms Abmarl.World.orient_preserves_WInv
