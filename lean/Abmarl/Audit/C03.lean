import Abmarl.Props.C03
import Abmarl.Props.Examples
import Abmarl.Props.Corridor
import Abmarl.Props.MultiGrid
import Abmarl.Props.Reach
import Abmarl.Props.Broadcast
#print axioms Abmarl.C03_reachable
#print axioms Abmarl.C03_every_step
#print axioms Abmarl.C03_hist
#print axioms Abmarl.C03_place
#print axioms Abmarl.histPre_iff
#print axioms Abmarl.fullResetb_iff
#print axioms Abmarl.cfgOKb_iff
#print axioms Abmarl.noAmmoCb_iff
#print axioms Abmarl.runGOp_noRaise
#print axioms Abmarl.first_reset_step
#print axioms Abmarl.specHist_from
#print axioms Abmarl.specC03Hist_worlds
#print axioms Abmarl.placement_clauses
#print axioms Abmarl.WInvWeak_of_WInv
#print axioms Abmarl.C03_moves_preserve
#print axioms Abmarl.C03_reset_establishes
#print axioms Abmarl.applyComps_spec
#print axioms Abmarl.applyComp_spec
#print axioms Abmarl.WInv_of_specC12
#print axioms Abmarl.WInv_of_clauses
#print axioms Abmarl.runGOp_step
#print axioms Abmarl.runGOps_inv
#print axioms Abmarl.trace_prefix
#print axioms Abmarl.move_sframe
#print axioms Abmarl.C03_attacks
#print axioms Abmarl.attack_preserves_WInv_any
#print axioms Abmarl.successive_attacks
#print axioms Abmarl.World.move_preserves_WInv
#print axioms Abmarl.World.orient_preserves_WInv
#print axioms Abmarl.examples_step_is_history
#print axioms Abmarl.examples_reachable_WInv
#print axioms Abmarl.examples_simIface_reachable
#print axioms Abmarl.Ex.stepPS_hist
#print axioms Abmarl.Ex.reset_establishes
#print axioms Abmarl.Ex.runOp_good
#print axioms Abmarl.Ex.runOps_good
#print axioms Abmarl.examples_hist
#print axioms Abmarl.Ex.specFrom_model
#print axioms Abmarl.Ex.runOp_goodP
#print axioms Abmarl.corridor_reachable_inv
#print axioms Abmarl.corridor_inv_reading
#print axioms Abmarl.corridor_hist
#print axioms Abmarl.multigrid_reachable_WInv
#print axioms Abmarl.multigrid_simIface_reachable
#print axioms Abmarl.multigrid_hist
#print axioms Abmarl.MAG.reset_good
#print axioms Abmarl.reach_reset_establishes
#print axioms Abmarl.RT.takeOff_weak
#print axioms Abmarl.RT.stepPS_weak
#print axioms Abmarl.RT.moveAct_weak
#print axioms Abmarl.World.move_preserves_WInvWeak
#print axioms Abmarl.reach_reachable_WInvWeak
#print axioms Abmarl.reach_simIface_reachable
#print axioms Abmarl.RT.processAttack_weak
#print axioms Abmarl.RT.compsKeepWeak
#print axioms Abmarl.RT.hitStep_weak
#print axioms Abmarl.RT.weak_remove
#print axioms Abmarl.RT.weak_setSt
#print axioms Abmarl.broadcast_reachable_inv
#print axioms Abmarl.broadcast_messages_in_unit
