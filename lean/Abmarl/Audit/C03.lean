import Abmarl.Props.C03
