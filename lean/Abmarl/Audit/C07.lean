import Abmarl.Props.C07
