import Abmarl.Props.C07
import Abmarl.Props.Examples
import Abmarl.Props.Corridor
import Abmarl.Props.MultiGrid
import Abmarl.Props.Reach
import Abmarl.Props.Pacman
#print axioms Abmarl.C07_fair_turns_and_progress
#print axioms Abmarl.C07_every_call_returns
#print axioms Abmarl.C07_stub
#print axioms Abmarl.turnSearch_total
#print axioms Abmarl.c07_allStep_reports
#print axioms Abmarl.c07_turnBased_one_live
#print axioms Abmarl.turnExpect_shape
#print axioms Abmarl.c07_dynamic_reports
#print axioms Abmarl.c07_progress
#print axioms Abmarl.C07_examples
#print axioms Abmarl.C07_examples_every_call_returns
#print axioms Abmarl.C07_TeamBattle
#print axioms Abmarl.C07_PredatorPrey
#print axioms Abmarl.C07_MazeNavigation
#print axioms Abmarl.C07_TrafficCorridor
#print axioms Abmarl.Ex.ex_WF
#print axioms Abmarl.C07_MultiMaze
#print axioms Abmarl.C07_MultiCorridor
#print axioms Abmarl.C07_MultiCorridor_every_call_returns
#print axioms Abmarl.Cor.cor_WF
#print axioms Abmarl.C07_MultiAgentGridSim
#print axioms Abmarl.C07_MultiAgentGridSim_every_call_returns
#print axioms Abmarl.MAG.mag_WF
#print axioms Abmarl.C07_ReachTheTarget
#print axioms Abmarl.C07_ReachTheTarget_every_call_returns
#print axioms Abmarl.RT.rt_WF
#print axioms Abmarl.C07_Pacman
#print axioms Abmarl.C07_Pacman_every_call_returns
#print axioms Abmarl.PM.pm_WF
