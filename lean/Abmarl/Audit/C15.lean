import Abmarl.Props.C15
