import Abmarl.Props.C15
#print axioms Abmarl.C15_openspiel
#print axioms Abmarl.C15_gym_projection
#print axioms Abmarl.gymCall_sound
#print axioms Abmarl.osRun_sound
#print axioms Abmarl.osStep_sound
#print axioms Abmarl.osReset_sound
#print axioms Abmarl.C15_stub
#print axioms Abmarl.C15_gym_stub
#print axioms Abmarl.c15_all_learning_present
#print axioms Abmarl.c15_one_manager_step
#print axioms Abmarl.c15_current_player_live
