import Abmarl.Props.C16
#print axioms Abmarl.C16_generate_episode
#print axioms Abmarl.C16_generate_episode_prop
#print axioms Abmarl.specC16_of_EpOK
#print axioms Abmarl.c16_asks_only_live
#print axioms Abmarl.C16_alignment
#print axioms Abmarl.C16_stub
#print axioms Abmarl.generateEpisode_ok
#print axioms Abmarl.episodeLoop_ok
#print axioms Abmarl.C16_train
