import Abmarl.Props.C08
import Abmarl.Props.Examples
import Abmarl.Props.Corridor
import Abmarl.Props.MultiGrid
import Abmarl.Props.Reach
import Abmarl.Props.Pacman
import Abmarl.Props.Broadcast
#print axioms Abmarl.fresh_twin_managers
#print axioms Abmarl.mgr_reset_forgets
#print axioms Abmarl.runOp_reset_eq
#print axioms Abmarl.fresh_twin_openspiel
#print axioms Abmarl.os_reset_eq
#print axioms Abmarl.gymabs_reset_forgets
#print axioms Abmarl.gymabs_reset_clears
#print axioms Abmarl.stubFlat_forgets
#print axioms Abmarl.C08_grid_reset_fresh
#print axioms Abmarl.applyComps_decl
#print axioms Abmarl.applyComp_decl
#print axioms Abmarl.World.healthResetFrom_declared
#print axioms Abmarl.World.orientResetFrom_declared
#print axioms Abmarl.C03_reset_establishes
#print axioms Abmarl.grid_reset_forgets
#print axioms Abmarl.grid_reset_forgets_covers
#print axioms Abmarl.grid_fresh_twin
#print axioms Abmarl.grid_fresh_twin_covers
#print axioms Abmarl.grid_fresh_twin_run
#print axioms Abmarl.examples_reset_forgets
#print axioms Abmarl.examples_fresh_twin
#print axioms Abmarl.Ex.comps_reset_forgets
#print axioms Abmarl.runOps_reset_eq_of
#print axioms Abmarl.examples_fresh_twin_reachable
#print axioms Abmarl.examples_used_sameBut_fresh
#print axioms Abmarl.examples_reach_keeps
#print axioms Abmarl.Ex.applyComps_keeps
#print axioms Abmarl.Ex.ops_keeps
#print axioms Abmarl.corridor_reset_forgets
#print axioms Abmarl.corridor_reset_fresh
#print axioms Abmarl.corridor_fresh_twin
#print axioms Abmarl.Cor.reset_inv
#print axioms Abmarl.multigrid_reset_forgets
#print axioms Abmarl.multigrid_fresh_twin
#print axioms Abmarl.multigrid_used_sameBut_fresh
#print axioms Abmarl.multigrid_reach_keeps
#print axioms Abmarl.multigrid_fresh_twin_reachable
#print axioms Abmarl.reach_reset_establishes
#print axioms Abmarl.reach_reset_forgets
#print axioms Abmarl.reach_fresh_twin
#print axioms Abmarl.pacman_reset_establishes
#print axioms Abmarl.pacman_reset_forgets
#print axioms Abmarl.pacman_fresh_twin
#print axioms Abmarl.broadcast_reset_forgets
#print axioms Abmarl.broadcast_fresh_twin
