import Abmarl.Props.C08
#print axioms Abmarl.fresh_twin_managers
#print axioms Abmarl.mgr_reset_forgets
#print axioms Abmarl.runOp_reset_eq
#print axioms Abmarl.fresh_twin_openspiel
#print axioms Abmarl.os_reset_eq
#print axioms Abmarl.gymabs_reset_forgets
#print axioms Abmarl.gymabs_reset_clears
#print axioms Abmarl.stubFlat_forgets
#print axioms Abmarl.C08_grid_reset_fresh
#print axioms Abmarl.applyComps_decl
#print axioms Abmarl.applyComp_decl
#print axioms Abmarl.World.healthResetFrom_declared
#print axioms Abmarl.World.orientResetFrom_declared
#print axioms Abmarl.C03_reset_establishes
