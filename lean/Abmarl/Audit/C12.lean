import Abmarl.Props.C12
#print axioms Abmarl.C12_moves
#print axioms Abmarl.World.moveBy_sound
#print axioms Abmarl.World.specMoveBy_reading
#print axioms Abmarl.c12_move_succeeds_iff
#print axioms Abmarl.c12_move_effect
#print axioms Abmarl.c12_cross_table
#print axioms Abmarl.placed_of_WInv
