import Abmarl.Props.C01
import Abmarl.Props.Examples
import Abmarl.Props.Corridor
import Abmarl.Props.MultiGrid
import Abmarl.Props.Reach
import Abmarl.Props.Pacman
#print axioms Abmarl.C01_managers_honour_done_protocol
#print axioms Abmarl.C01_stub
#print axioms Abmarl.specLoop_at
#print axioms Abmarl.c01_keys_agree
#print axioms Abmarl.c01_never_reports_done_agent
#print axioms Abmarl.c01_rejects_before_step
#print axioms Abmarl.c01_error_is_clean_rejection
#print axioms Abmarl.c01_actions_reach_sim
#print axioms Abmarl.c01_allDone_iff
#print axioms Abmarl.c01_ledger
#print axioms Abmarl.shuffle_perm
#print axioms Abmarl.c01_final_report
#print axioms Abmarl.C01_examples
#print axioms Abmarl.C01_TeamBattle
#print axioms Abmarl.C01_PredatorPrey
#print axioms Abmarl.C01_MazeNavigation
#print axioms Abmarl.C01_TrafficCorridor
#print axioms Abmarl.Ex.ex_lawful
#print axioms Abmarl.Ex.ex_WF
#print axioms Abmarl.examples_hist
#print axioms Abmarl.examples_get_reward_total
#print axioms Abmarl.C01_MultiMaze
#print axioms Abmarl.C01_MultiCorridor
#print axioms Abmarl.Cor.cor_lawful
#print axioms Abmarl.Cor.cor_WF
#print axioms Abmarl.corridor_hist
#print axioms Abmarl.C01_MultiAgentGridSim
#print axioms Abmarl.MAG.mag_lawful
#print axioms Abmarl.MAG.mag_WF
#print axioms Abmarl.multigrid_hist
#print axioms Abmarl.C01_ReachTheTarget
#print axioms Abmarl.RT.rt_lawful
#print axioms Abmarl.RT.rt_WF
#print axioms Abmarl.C01_Pacman
#print axioms Abmarl.PM.pm_lawful
#print axioms Abmarl.PM.pm_WF
