import Abmarl.Props.C01
