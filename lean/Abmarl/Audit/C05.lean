import Abmarl.Props.C05
#print axioms Abmarl.C05_flatten_length
#print axioms Abmarl.C05_flatten_mem
#print axioms Abmarl.C05_unflatten_flatten
#print axioms Abmarl.C05_flattenSpace_int_iff
#print axioms Abmarl.C05_int_roundtrip_mem
#print axioms Abmarl.C05_flatten_dtype
#print axioms Abmarl.C05_specFlatten
#print axioms Abmarl.C05_specRoundTrip
#print axioms Abmarl.C05_specFlatSpace
#print axioms Abmarl.specFlatten_reading
#print axioms Abmarl.specRoundTrip_reading
#print axioms Abmarl.specFlatSpace_reading
#print axioms Abmarl.valsEq_iff
