import Abmarl.Lemmas.ResetForgetsComps
import Abmarl.Props.C03
/-!
# C08 for the grid world — reset forgets

A full reset of a grid-world simulation (a placement state, health, ammunition, orientation — in any
order, on any tape) does not depend on the dynamic state it starts from: two worlds with the same
configuration are mapped to the **same** outcome — the same error, or the same world and the same
remaining tape — whatever cells, positions, health, activity, ammunition and orientation they had
before.  Consequently an episode played after a reset is indistinguishable from the same seeded
episode on a newly built copy, for every history of moves, attacks and further resets.

The model keeps an `ammo` field for agents without ammunition and an `orient` field for agents
without orientation ("ghost" fields: the real agents do not have the attributes; every dump writes
the default).  No component writes them, so they are part of what has to be the same (`SameCfg`);
`ghost_needed` below shows that the clause cannot be dropped.

Neither `wfPlacement` nor the exclusion of `healthClosed` (both in `FullReset`) is needed: the
statement holds for ill-formed placement options (both runs then fail alike) and for the
out-of-domain oracle stream; `grid_reset_forgets_covers` is the statement under the weaker
hypothesis `Covers`, `grid_reset_forgets` its instance for `FullReset`.
-/
namespace Abmarl
open World

/-- same static part, state lists as long as the configuration, and the same ghost fields -/
structure SameCfg (w1 w2 : World) : Prop where
  rows : w1.rows = w2.rows
  cols : w1.cols = w2.cols
  overlap : w1.overlap = w2.overlap
  cfg : w1.cfg = w2.cfg
  len1 : w1.st.length = w1.cfg.length
  len2 : w2.st.length = w2.cfg.length
  ghostAmmo : ∀ a, (w1.cfgOf a).hasAmmo = false → (w1.stOf a).ammo = (w2.stOf a).ammo
  ghostOrient : ∀ a, (w1.cfgOf a).hasOrient = false → (w1.stOf a).orient = (w2.stOf a).orient

/-- the components reset every field group: a placement state, a health state (either oracle
stream), the ammunition state and the orientation state are among them (any order, repetitions and
several placement states allowed) -/
structure Covers (cs : List StateComp) : Prop where
  pos : ∃ kind o, StateComp.position kind o ∈ cs
  health : StateComp.health ∈ cs ∨ StateComp.healthClosed ∈ cs
  ammo : StateComp.ammo ∈ cs
  orient : StateComp.orient ∈ cs

theorem Covers.of_fullReset {w : World} {cs : List StateComp} (h : FullReset w cs) : Covers cs :=
  ⟨h.1, Or.inl h.2.1, h.2.2.1, h.2.2.2.1⟩

/-- worlds with the same configuration agree on nothing but the ghost fields -/
theorem SameCfg.wagree {w1 w2 : World} (h : SameCfg w1 w2) :
    WAgree w1.cfg (FB false false false false) (false = true) w1 w2 := by
  refine ⟨h.rows, h.cols, h.overlap, rfl, h.cfg.symm, h.len1, by rw [h.len2, h.cfg],
    fun hh => (by cases hh), fun a => ⟨fun hh => (by cases hh), fun hh => (by cases hh),
      fun hh => (by cases hh), fun hh => ?_, fun hh => ?_⟩⟩
  · rcases hh with hh | hh
    · cases hh
    · exact h.ghostAmmo a hh
  · rcases hh with hh | hh
    · cases hh
    · exact h.ghostOrient a hh

/-- **reset forgets** (weakest hypotheses): resetting every field group of two worlds with the same
configuration, on the same tape, gives the same outcome — the same error, or the same world and the
same remaining tape. -/
theorem grid_reset_forgets_covers (cs : List StateComp) (w1 w2 : World) (t : Tape)
    (h : SameCfg w1 w2) (hc : Covers cs) : applyComps cs w1 t = applyComps cs w2 t := by
  have hp : cs.any StateComp.resetsPos = true := by
    obtain ⟨kind, o, hm⟩ := hc.pos
    exact List.any_eq_true.mpr ⟨_, hm, rfl⟩
  have hh : cs.any StateComp.resetsHealth = true := by
    rcases hc.health with hm | hm
    · exact List.any_eq_true.mpr ⟨_, hm, rfl⟩
    · exact List.any_eq_true.mpr ⟨_, hm, rfl⟩
  have ha : cs.any StateComp.resetsAmmo = true := List.any_eq_true.mpr ⟨_, hc.ammo, rfl⟩
  have ho : cs.any StateComp.resetsOrient = true := List.any_eq_true.mpr ⟨_, hc.orient, rfl⟩
  have hr := applyComps_agree cs false false false false w1 w2 t h.wagree
  rw [hp, hh, ha, ho] at hr
  refine hr.eq_of (fun r1 r2 hr' => ?_)
  obtain ⟨hw, ht⟩ := hr'
  have hw' : WAgree w1.cfg Flags.all True r1.1 r2.1 :=
    hw.mono (fun b _ => ⟨fun _ => rfl, fun _ => rfl, fun _ => rfl, fun _ => rfl⟩) (fun _ => rfl)
  exact Prod.ext hw'.eq_of_all ht

/-- **reset forgets**: a full reset (a placement state, health, ammunition, orientation — in any
order, any tape) of two worlds with the same configuration gives the SAME outcome: the same error,
or the same world and the same remaining tape — whatever cells, positions, health, ammunition and
orientation the two worlds had before. -/
theorem grid_reset_forgets (cs : List StateComp) (w1 w2 : World) (t : Tape) (h : SameCfg w1 w2)
    (hfull : FullReset w1 cs) : applyComps cs w1 t = applyComps cs w2 t :=
  grid_reset_forgets_covers cs w1 w2 t h (Covers.of_fullReset hfull)

/-- **fresh twin** (weakest hypotheses): an episode played after a reset is indistinguishable from
the same seeded episode on another world of the same configuration — e.g. a newly built copy — for
every history of moves, attacks and further resets (of any kind). -/
theorem grid_fresh_twin_covers (w1 w2 : World) (cs0 : List StateComp) (t0 : Tape)
    (ops : List (GOp × Tape)) (h : SameCfg w1 w2) (h0 : Covers cs0) :
    traceGOps w1 ((.reset cs0, t0) :: ops) = traceGOps w2 ((.reset cs0, t0) :: ops) := by
  simp only [traceGOps, runGOp]
  rw [grid_reset_forgets_covers cs0 w1 w2 t0 h h0]

/-- **fresh twin**: an episode played after a reset is indistinguishable from the same seeded episode
on a newly built copy — for every history of moves, attacks and further resets. -/
theorem grid_fresh_twin (w1 w2 : World) (cs0 : List StateComp) (t0 : Tape) (ops : List (GOp × Tape))
    (h : SameCfg w1 w2) (h0 : FullReset w1 cs0) :
    traceGOps w1 ((.reset cs0, t0) :: ops) = traceGOps w2 ((.reset cs0, t0) :: ops) :=
  grid_fresh_twin_covers w1 w2 cs0 t0 ops h (Covers.of_fullReset h0)

/-- the same for the final world of the history -/
theorem grid_fresh_twin_run (w1 w2 : World) (cs0 : List StateComp) (t0 : Tape) (ops : List (GOp × Tape))
    (h : SameCfg w1 w2) (h0 : Covers cs0) :
    runGOps w1 ((.reset cs0, t0) :: ops) = runGOps w2 ((.reset cs0, t0) :: ops) := by
  simp only [runGOps, runGOp]
  rw [grid_reset_forgets_covers cs0 w1 w2 t0 h h0]

/-! ## Non-vacuity: a dirty world and a newly built one -/

/-- a newly built copy of `exDirtyWorld`: empty grid, default dynamic state -/
def exFreshWorld : World :=
  { exDirtyWorld with cells := List.replicate 6 [], st := [{}, {}, {}] }

example : exDirtyWorld ≠ exFreshWorld := by decide +kernel

theorem exSameCfg : SameCfg exDirtyWorld exFreshWorld := by
  refine ⟨rfl, rfl, rfl, rfl, rfl, rfl, ?_, ?_⟩
  · intro a ha
    rcases a with _ | _ | _ | a <;> simp [exDirtyWorld, exFreshWorld, stOf, cfgOf] at ha ⊢
  · intro a ha
    rcases a with _ | _ | _ | a <;> simp [exDirtyWorld, exFreshWorld, stOf, cfgOf] at ha ⊢

/-- the hypotheses are met by two different worlds -/
example : SameCfg exDirtyWorld exFreshWorld ∧ FullReset exDirtyWorld exResetComps :=
  ⟨exSameCfg, exDirtyFull⟩

/-- the reset succeeds (the theorem does not merely equate two failures) … -/
example : (applyComps exResetComps exDirtyWorld [3, 1, 4, 1, 5, 9, 2, 6]).toOption.isSome = true := by
  decide +kernel

/-- … and the dirty world's episode is the fresh world's episode, by the theorem -/
example : traceGOps exDirtyWorld ((.reset exResetComps, [3, 1, 4, 1, 5, 9, 2, 6]) :: exHist) =
    traceGOps exFreshWorld ((.reset exResetComps, [3, 1, 4, 1, 5, 9, 2, 6]) :: exHist) :=
  grid_fresh_twin _ _ _ _ _ exSameCfg exDirtyFull

/-- the ghost clause cannot be dropped: agent 1 has no ammunition, the model keeps its `ammo` field,
and no component writes it -/
def exGhostWorld : World :=
  { exFreshWorld with st := [{}, { ammo := 7 }, {}] }

theorem ghost_needed :
    (applyComps exResetComps exFreshWorld [3, 1, 4, 1, 5, 9, 2, 6]).toOption ≠
    (applyComps exResetComps exGhostWorld [3, 1, 4, 1, 5, 9, 2, 6]).toOption := by
  decide +kernel

end Abmarl
