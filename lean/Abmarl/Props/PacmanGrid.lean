import Abmarl.Props.PacmanHist
/-!
# The packaged configuration (`examples/rllib_pacman.py`: `PacmanSimSimple.example_grid`) satisfies `PM.cfgWF ∧ PM.teleSafe`

`exGrid` is `PacmanSimSimple.example_grid` of `abmarl/examples/sim/pacman.py` (21 rows × 19 columns) with the encodings of the
object registry of `examples/rllib_pacman.py` in place of the characters (`_` = 0, `P` = 1, `W` = 2, `F` = 3, `B` = 4);
`build_sim_from_array` creates the agents in row-major order (366 of them: pacman, 5 baddies `baddie_0 … baddie_4` in that
order, 166 pieces of food, 194 walls).  `exGridWorld` is the world after `reset` (everybody on its initial position, alive,
orientation 1); the overlap table is `{1: {3, 4}, 4: {3, 4}}` after the symmetrisation of `Grid.overlapping`'s setter;
`exGridCfg` the `PM.Cfg` of that `PacmanSimSimple` (reward scheme `bad_move 0, entropy -0.01, eat_food 0.2, die -1`).

All 366 agents are within reach of the kernel: the whole configuration is decided, not only the corridor row.  The world is
also written out as a literal (`exGridWorldLit`, `exGridWorld_eq`), on which the kernel evaluates faster.
-/
namespace Abmarl
open World

/-- `PacmanSimSimple.example_grid`, encodings for characters -/
def exGrid : List (List Nat) :=
  [[2, 2, 2, 2, 2, 2, 2, 2, 2, 2, 2, 2, 2, 2, 2, 2, 2, 2, 2],
   [2, 4, 3, 3, 3, 3, 3, 3, 3, 2, 3, 3, 3, 3, 3, 3, 3, 4, 2],
   [2, 3, 2, 2, 3, 2, 2, 2, 3, 2, 3, 2, 2, 2, 3, 2, 2, 3, 2],
   [2, 3, 3, 3, 3, 3, 3, 3, 3, 3, 3, 3, 3, 3, 3, 3, 3, 3, 2],
   [2, 3, 2, 2, 3, 2, 3, 2, 2, 2, 2, 2, 3, 2, 3, 2, 2, 3, 2],
   [2, 3, 3, 3, 3, 2, 3, 3, 3, 2, 3, 3, 3, 2, 3, 3, 3, 3, 2],
   [2, 2, 2, 2, 3, 2, 2, 2, 0, 2, 0, 2, 2, 2, 3, 2, 2, 2, 2],
   [2, 3, 3, 2, 3, 2, 0, 0, 0, 0, 0, 0, 0, 2, 3, 2, 3, 3, 2],
   [2, 3, 3, 2, 3, 2, 0, 2, 2, 3, 2, 2, 0, 2, 3, 2, 3, 3, 2],
   [0, 0, 0, 0, 3, 0, 0, 2, 3, 3, 3, 2, 4, 0, 3, 0, 0, 0, 0],
   [2, 3, 3, 2, 3, 2, 0, 2, 2, 2, 2, 2, 0, 2, 3, 2, 3, 3, 2],
   [2, 3, 3, 2, 3, 2, 0, 0, 0, 0, 0, 0, 0, 2, 3, 2, 3, 3, 2],
   [2, 2, 2, 2, 3, 2, 0, 2, 2, 2, 2, 2, 0, 2, 3, 2, 2, 2, 2],
   [2, 4, 3, 3, 3, 3, 3, 3, 3, 2, 3, 3, 3, 3, 3, 3, 3, 4, 2],
   [2, 3, 2, 2, 3, 2, 2, 2, 3, 2, 3, 2, 2, 2, 3, 2, 2, 3, 2],
   [2, 3, 3, 2, 3, 3, 3, 3, 3, 1, 3, 3, 3, 3, 3, 2, 3, 3, 2],
   [2, 2, 3, 2, 3, 2, 3, 2, 2, 2, 2, 2, 3, 2, 3, 2, 3, 2, 2],
   [2, 3, 3, 3, 3, 2, 3, 3, 3, 2, 3, 3, 3, 2, 3, 3, 3, 3, 2],
   [2, 3, 2, 2, 2, 2, 2, 2, 3, 2, 3, 2, 2, 2, 2, 2, 2, 3, 2],
   [2, 3, 3, 3, 3, 3, 3, 3, 3, 3, 3, 3, 3, 3, 3, 3, 3, 3, 2],
   [2, 2, 2, 2, 2, 2, 2, 2, 2, 2, 2, 2, 2, 2, 2, 2, 2, 2, 2]]

/-- the objects in row-major order: `(position, encoding)` -/
def exGridObjs : List (Pos × Nat) :=
  (exGrid.zipIdx.map fun (row, r) => (row.zipIdx.filter fun (e, _) => e != 0).map fun (e, c) => (((r : Int), (c : Int)), e)).flatten

/-- the cell table after `reset`: the `k`-th object (row-major) stands alone on its cell -/
def gridCells : List Nat → Nat → List (List Aid)
  | [], _ => []
  | e :: es, k => if e = 0 then [] :: gridCells es k else [k] :: gridCells es (k + 1)

def gridAgentCfg (p : Pos) (e : Nat) : AgentCfg :=
  if e = 1 then
    { enc := 1, initPos := some p, initHealth := some 1, moving := true, moveRange := 1, hasOrient := true,
      initOrient := some 1, observing := true, viewRange := 2 }
  else if e = 4 then
    { enc := 4, initPos := some p, initHealth := some 1, moving := true, moveRange := 1, hasOrient := true,
      initOrient := some 1, observing := true, viewRange := 0 }
  else { enc := e, initPos := some p, initHealth := some 1 }

/-- the world of the packaged `PacmanSimSimple` after `reset` -/
def exGridWorld : World :=
  { rows := 21, cols := 19, overlap := [(1, [3, 4]), (4, [3, 4, 1]), (3, [1, 4])],
    cells := gridCells exGrid.flatten 0,
    cfg := exGridObjs.map fun x => gridAgentCfg x.1 x.2,
    st := exGridObjs.map fun x => { pos := x.1 } }

def idxsOf (e : Nat) : List Aid := (exGridObjs.zipIdx.filter fun (x, _) => x.2 == e).map (·.2)

/-- the `PM.Cfg` of the packaged `PacmanSimSimple` -/
def exGridCfg : PM.Cfg :=
  { simple := true, learning := exGridObjs.map fun x => x.2 == 1 || x.2 == 4,
    comps := [.position .position {}, .orient, .health], observers := some [.absolute],
    pacman := (idxsOf 1).headD 0, food := idxsOf 3, baddies := idxsOf 4,
    scheme := { badMove := some 0, entropy := some (-1), eatFood := some 20, kill := none, die := some (-100) },
    named := (idxsOf 4).map some }

/-- `exGridWorld` written out (generated from the same grid; equality is `exGridWorld_eq`) -/
def exGridWorldLit : World :=
  { rows := 21, cols := 19, overlap := [(1, [3, 4]), (4, [3, 4, 1]), (3, [1, 4])],
    cells :=
    [[0], [1], [2], [3], [4], [5], [6], [7], [8], [9], [10], [11], [12], [13], [14], [15], [16], [17], [18],
     [19], [20], [21], [22], [23], [24], [25], [26], [27], [28], [29], [30], [31], [32], [33], [34], [35], [36], [37],
     [38], [39], [40], [41], [42], [43], [44], [45], [46], [47], [48], [49], [50], [51], [52], [53], [54], [55], [56],
     [57], [58], [59], [60], [61], [62], [63], [64], [65], [66], [67], [68], [69], [70], [71], [72], [73], [74], [75],
     [76], [77], [78], [79], [80], [81], [82], [83], [84], [85], [86], [87], [88], [89], [90], [91], [92], [93], [94],
     [95], [96], [97], [98], [99], [100], [101], [102], [103], [104], [105], [106], [107], [108], [109], [110], [111], [112], [113],
     [114], [115], [116], [117], [118], [119], [120], [121], [], [122], [], [123], [124], [125], [126], [127], [128], [129], [130],
     [131], [132], [133], [134], [135], [136], [], [], [], [], [], [], [], [137], [138], [139], [140], [141], [142],
     [143], [144], [145], [146], [147], [148], [], [149], [150], [151], [152], [153], [], [154], [155], [156], [157], [158], [159],
     [], [], [], [], [160], [], [], [161], [162], [163], [164], [165], [166], [], [167], [], [], [], [],
     [168], [169], [170], [171], [172], [173], [], [174], [175], [176], [177], [178], [], [179], [180], [181], [182], [183], [184],
     [185], [186], [187], [188], [189], [190], [], [], [], [], [], [], [], [191], [192], [193], [194], [195], [196],
     [197], [198], [199], [200], [201], [202], [], [203], [204], [205], [206], [207], [], [208], [209], [210], [211], [212], [213],
     [214], [215], [216], [217], [218], [219], [220], [221], [222], [223], [224], [225], [226], [227], [228], [229], [230], [231], [232],
     [233], [234], [235], [236], [237], [238], [239], [240], [241], [242], [243], [244], [245], [246], [247], [248], [249], [250], [251],
     [252], [253], [254], [255], [256], [257], [258], [259], [260], [261], [262], [263], [264], [265], [266], [267], [268], [269], [270],
     [271], [272], [273], [274], [275], [276], [277], [278], [279], [280], [281], [282], [283], [284], [285], [286], [287], [288], [289],
     [290], [291], [292], [293], [294], [295], [296], [297], [298], [299], [300], [301], [302], [303], [304], [305], [306], [307], [308],
     [309], [310], [311], [312], [313], [314], [315], [316], [317], [318], [319], [320], [321], [322], [323], [324], [325], [326], [327],
     [328], [329], [330], [331], [332], [333], [334], [335], [336], [337], [338], [339], [340], [341], [342], [343], [344], [345], [346],
     [347], [348], [349], [350], [351], [352], [353], [354], [355], [356], [357], [358], [359], [360], [361], [362], [363], [364], [365]],
    cfg :=
    [{ enc := 2, initPos := some (0, 0), initHealth := some 1 },
     { enc := 2, initPos := some (0, 1), initHealth := some 1 },
     { enc := 2, initPos := some (0, 2), initHealth := some 1 },
     { enc := 2, initPos := some (0, 3), initHealth := some 1 },
     { enc := 2, initPos := some (0, 4), initHealth := some 1 },
     { enc := 2, initPos := some (0, 5), initHealth := some 1 },
     { enc := 2, initPos := some (0, 6), initHealth := some 1 },
     { enc := 2, initPos := some (0, 7), initHealth := some 1 },
     { enc := 2, initPos := some (0, 8), initHealth := some 1 },
     { enc := 2, initPos := some (0, 9), initHealth := some 1 },
     { enc := 2, initPos := some (0, 10), initHealth := some 1 },
     { enc := 2, initPos := some (0, 11), initHealth := some 1 },
     { enc := 2, initPos := some (0, 12), initHealth := some 1 },
     { enc := 2, initPos := some (0, 13), initHealth := some 1 },
     { enc := 2, initPos := some (0, 14), initHealth := some 1 },
     { enc := 2, initPos := some (0, 15), initHealth := some 1 },
     { enc := 2, initPos := some (0, 16), initHealth := some 1 },
     { enc := 2, initPos := some (0, 17), initHealth := some 1 },
     { enc := 2, initPos := some (0, 18), initHealth := some 1 },
     { enc := 2, initPos := some (1, 0), initHealth := some 1 },
     { enc := 4, initPos := some (1, 1), initHealth := some 1, moving := true, moveRange := 1, hasOrient := true, initOrient := some 1, observing := true, viewRange := 0 },
     { enc := 3, initPos := some (1, 2), initHealth := some 1 },
     { enc := 3, initPos := some (1, 3), initHealth := some 1 },
     { enc := 3, initPos := some (1, 4), initHealth := some 1 },
     { enc := 3, initPos := some (1, 5), initHealth := some 1 },
     { enc := 3, initPos := some (1, 6), initHealth := some 1 },
     { enc := 3, initPos := some (1, 7), initHealth := some 1 },
     { enc := 3, initPos := some (1, 8), initHealth := some 1 },
     { enc := 2, initPos := some (1, 9), initHealth := some 1 },
     { enc := 3, initPos := some (1, 10), initHealth := some 1 },
     { enc := 3, initPos := some (1, 11), initHealth := some 1 },
     { enc := 3, initPos := some (1, 12), initHealth := some 1 },
     { enc := 3, initPos := some (1, 13), initHealth := some 1 },
     { enc := 3, initPos := some (1, 14), initHealth := some 1 },
     { enc := 3, initPos := some (1, 15), initHealth := some 1 },
     { enc := 3, initPos := some (1, 16), initHealth := some 1 },
     { enc := 4, initPos := some (1, 17), initHealth := some 1, moving := true, moveRange := 1, hasOrient := true, initOrient := some 1, observing := true, viewRange := 0 },
     { enc := 2, initPos := some (1, 18), initHealth := some 1 },
     { enc := 2, initPos := some (2, 0), initHealth := some 1 },
     { enc := 3, initPos := some (2, 1), initHealth := some 1 },
     { enc := 2, initPos := some (2, 2), initHealth := some 1 },
     { enc := 2, initPos := some (2, 3), initHealth := some 1 },
     { enc := 3, initPos := some (2, 4), initHealth := some 1 },
     { enc := 2, initPos := some (2, 5), initHealth := some 1 },
     { enc := 2, initPos := some (2, 6), initHealth := some 1 },
     { enc := 2, initPos := some (2, 7), initHealth := some 1 },
     { enc := 3, initPos := some (2, 8), initHealth := some 1 },
     { enc := 2, initPos := some (2, 9), initHealth := some 1 },
     { enc := 3, initPos := some (2, 10), initHealth := some 1 },
     { enc := 2, initPos := some (2, 11), initHealth := some 1 },
     { enc := 2, initPos := some (2, 12), initHealth := some 1 },
     { enc := 2, initPos := some (2, 13), initHealth := some 1 },
     { enc := 3, initPos := some (2, 14), initHealth := some 1 },
     { enc := 2, initPos := some (2, 15), initHealth := some 1 },
     { enc := 2, initPos := some (2, 16), initHealth := some 1 },
     { enc := 3, initPos := some (2, 17), initHealth := some 1 },
     { enc := 2, initPos := some (2, 18), initHealth := some 1 },
     { enc := 2, initPos := some (3, 0), initHealth := some 1 },
     { enc := 3, initPos := some (3, 1), initHealth := some 1 },
     { enc := 3, initPos := some (3, 2), initHealth := some 1 },
     { enc := 3, initPos := some (3, 3), initHealth := some 1 },
     { enc := 3, initPos := some (3, 4), initHealth := some 1 },
     { enc := 3, initPos := some (3, 5), initHealth := some 1 },
     { enc := 3, initPos := some (3, 6), initHealth := some 1 },
     { enc := 3, initPos := some (3, 7), initHealth := some 1 },
     { enc := 3, initPos := some (3, 8), initHealth := some 1 },
     { enc := 3, initPos := some (3, 9), initHealth := some 1 },
     { enc := 3, initPos := some (3, 10), initHealth := some 1 },
     { enc := 3, initPos := some (3, 11), initHealth := some 1 },
     { enc := 3, initPos := some (3, 12), initHealth := some 1 },
     { enc := 3, initPos := some (3, 13), initHealth := some 1 },
     { enc := 3, initPos := some (3, 14), initHealth := some 1 },
     { enc := 3, initPos := some (3, 15), initHealth := some 1 },
     { enc := 3, initPos := some (3, 16), initHealth := some 1 },
     { enc := 3, initPos := some (3, 17), initHealth := some 1 },
     { enc := 2, initPos := some (3, 18), initHealth := some 1 },
     { enc := 2, initPos := some (4, 0), initHealth := some 1 },
     { enc := 3, initPos := some (4, 1), initHealth := some 1 },
     { enc := 2, initPos := some (4, 2), initHealth := some 1 },
     { enc := 2, initPos := some (4, 3), initHealth := some 1 },
     { enc := 3, initPos := some (4, 4), initHealth := some 1 },
     { enc := 2, initPos := some (4, 5), initHealth := some 1 },
     { enc := 3, initPos := some (4, 6), initHealth := some 1 },
     { enc := 2, initPos := some (4, 7), initHealth := some 1 },
     { enc := 2, initPos := some (4, 8), initHealth := some 1 },
     { enc := 2, initPos := some (4, 9), initHealth := some 1 },
     { enc := 2, initPos := some (4, 10), initHealth := some 1 },
     { enc := 2, initPos := some (4, 11), initHealth := some 1 },
     { enc := 3, initPos := some (4, 12), initHealth := some 1 },
     { enc := 2, initPos := some (4, 13), initHealth := some 1 },
     { enc := 3, initPos := some (4, 14), initHealth := some 1 },
     { enc := 2, initPos := some (4, 15), initHealth := some 1 },
     { enc := 2, initPos := some (4, 16), initHealth := some 1 },
     { enc := 3, initPos := some (4, 17), initHealth := some 1 },
     { enc := 2, initPos := some (4, 18), initHealth := some 1 },
     { enc := 2, initPos := some (5, 0), initHealth := some 1 },
     { enc := 3, initPos := some (5, 1), initHealth := some 1 },
     { enc := 3, initPos := some (5, 2), initHealth := some 1 },
     { enc := 3, initPos := some (5, 3), initHealth := some 1 },
     { enc := 3, initPos := some (5, 4), initHealth := some 1 },
     { enc := 2, initPos := some (5, 5), initHealth := some 1 },
     { enc := 3, initPos := some (5, 6), initHealth := some 1 },
     { enc := 3, initPos := some (5, 7), initHealth := some 1 },
     { enc := 3, initPos := some (5, 8), initHealth := some 1 },
     { enc := 2, initPos := some (5, 9), initHealth := some 1 },
     { enc := 3, initPos := some (5, 10), initHealth := some 1 },
     { enc := 3, initPos := some (5, 11), initHealth := some 1 },
     { enc := 3, initPos := some (5, 12), initHealth := some 1 },
     { enc := 2, initPos := some (5, 13), initHealth := some 1 },
     { enc := 3, initPos := some (5, 14), initHealth := some 1 },
     { enc := 3, initPos := some (5, 15), initHealth := some 1 },
     { enc := 3, initPos := some (5, 16), initHealth := some 1 },
     { enc := 3, initPos := some (5, 17), initHealth := some 1 },
     { enc := 2, initPos := some (5, 18), initHealth := some 1 },
     { enc := 2, initPos := some (6, 0), initHealth := some 1 },
     { enc := 2, initPos := some (6, 1), initHealth := some 1 },
     { enc := 2, initPos := some (6, 2), initHealth := some 1 },
     { enc := 2, initPos := some (6, 3), initHealth := some 1 },
     { enc := 3, initPos := some (6, 4), initHealth := some 1 },
     { enc := 2, initPos := some (6, 5), initHealth := some 1 },
     { enc := 2, initPos := some (6, 6), initHealth := some 1 },
     { enc := 2, initPos := some (6, 7), initHealth := some 1 },
     { enc := 2, initPos := some (6, 9), initHealth := some 1 },
     { enc := 2, initPos := some (6, 11), initHealth := some 1 },
     { enc := 2, initPos := some (6, 12), initHealth := some 1 },
     { enc := 2, initPos := some (6, 13), initHealth := some 1 },
     { enc := 3, initPos := some (6, 14), initHealth := some 1 },
     { enc := 2, initPos := some (6, 15), initHealth := some 1 },
     { enc := 2, initPos := some (6, 16), initHealth := some 1 },
     { enc := 2, initPos := some (6, 17), initHealth := some 1 },
     { enc := 2, initPos := some (6, 18), initHealth := some 1 },
     { enc := 2, initPos := some (7, 0), initHealth := some 1 },
     { enc := 3, initPos := some (7, 1), initHealth := some 1 },
     { enc := 3, initPos := some (7, 2), initHealth := some 1 },
     { enc := 2, initPos := some (7, 3), initHealth := some 1 },
     { enc := 3, initPos := some (7, 4), initHealth := some 1 },
     { enc := 2, initPos := some (7, 5), initHealth := some 1 },
     { enc := 2, initPos := some (7, 13), initHealth := some 1 },
     { enc := 3, initPos := some (7, 14), initHealth := some 1 },
     { enc := 2, initPos := some (7, 15), initHealth := some 1 },
     { enc := 3, initPos := some (7, 16), initHealth := some 1 },
     { enc := 3, initPos := some (7, 17), initHealth := some 1 },
     { enc := 2, initPos := some (7, 18), initHealth := some 1 },
     { enc := 2, initPos := some (8, 0), initHealth := some 1 },
     { enc := 3, initPos := some (8, 1), initHealth := some 1 },
     { enc := 3, initPos := some (8, 2), initHealth := some 1 },
     { enc := 2, initPos := some (8, 3), initHealth := some 1 },
     { enc := 3, initPos := some (8, 4), initHealth := some 1 },
     { enc := 2, initPos := some (8, 5), initHealth := some 1 },
     { enc := 2, initPos := some (8, 7), initHealth := some 1 },
     { enc := 2, initPos := some (8, 8), initHealth := some 1 },
     { enc := 3, initPos := some (8, 9), initHealth := some 1 },
     { enc := 2, initPos := some (8, 10), initHealth := some 1 },
     { enc := 2, initPos := some (8, 11), initHealth := some 1 },
     { enc := 2, initPos := some (8, 13), initHealth := some 1 },
     { enc := 3, initPos := some (8, 14), initHealth := some 1 },
     { enc := 2, initPos := some (8, 15), initHealth := some 1 },
     { enc := 3, initPos := some (8, 16), initHealth := some 1 },
     { enc := 3, initPos := some (8, 17), initHealth := some 1 },
     { enc := 2, initPos := some (8, 18), initHealth := some 1 },
     { enc := 3, initPos := some (9, 4), initHealth := some 1 },
     { enc := 2, initPos := some (9, 7), initHealth := some 1 },
     { enc := 3, initPos := some (9, 8), initHealth := some 1 },
     { enc := 3, initPos := some (9, 9), initHealth := some 1 },
     { enc := 3, initPos := some (9, 10), initHealth := some 1 },
     { enc := 2, initPos := some (9, 11), initHealth := some 1 },
     { enc := 4, initPos := some (9, 12), initHealth := some 1, moving := true, moveRange := 1, hasOrient := true, initOrient := some 1, observing := true, viewRange := 0 },
     { enc := 3, initPos := some (9, 14), initHealth := some 1 },
     { enc := 2, initPos := some (10, 0), initHealth := some 1 },
     { enc := 3, initPos := some (10, 1), initHealth := some 1 },
     { enc := 3, initPos := some (10, 2), initHealth := some 1 },
     { enc := 2, initPos := some (10, 3), initHealth := some 1 },
     { enc := 3, initPos := some (10, 4), initHealth := some 1 },
     { enc := 2, initPos := some (10, 5), initHealth := some 1 },
     { enc := 2, initPos := some (10, 7), initHealth := some 1 },
     { enc := 2, initPos := some (10, 8), initHealth := some 1 },
     { enc := 2, initPos := some (10, 9), initHealth := some 1 },
     { enc := 2, initPos := some (10, 10), initHealth := some 1 },
     { enc := 2, initPos := some (10, 11), initHealth := some 1 },
     { enc := 2, initPos := some (10, 13), initHealth := some 1 },
     { enc := 3, initPos := some (10, 14), initHealth := some 1 },
     { enc := 2, initPos := some (10, 15), initHealth := some 1 },
     { enc := 3, initPos := some (10, 16), initHealth := some 1 },
     { enc := 3, initPos := some (10, 17), initHealth := some 1 },
     { enc := 2, initPos := some (10, 18), initHealth := some 1 },
     { enc := 2, initPos := some (11, 0), initHealth := some 1 },
     { enc := 3, initPos := some (11, 1), initHealth := some 1 },
     { enc := 3, initPos := some (11, 2), initHealth := some 1 },
     { enc := 2, initPos := some (11, 3), initHealth := some 1 },
     { enc := 3, initPos := some (11, 4), initHealth := some 1 },
     { enc := 2, initPos := some (11, 5), initHealth := some 1 },
     { enc := 2, initPos := some (11, 13), initHealth := some 1 },
     { enc := 3, initPos := some (11, 14), initHealth := some 1 },
     { enc := 2, initPos := some (11, 15), initHealth := some 1 },
     { enc := 3, initPos := some (11, 16), initHealth := some 1 },
     { enc := 3, initPos := some (11, 17), initHealth := some 1 },
     { enc := 2, initPos := some (11, 18), initHealth := some 1 },
     { enc := 2, initPos := some (12, 0), initHealth := some 1 },
     { enc := 2, initPos := some (12, 1), initHealth := some 1 },
     { enc := 2, initPos := some (12, 2), initHealth := some 1 },
     { enc := 2, initPos := some (12, 3), initHealth := some 1 },
     { enc := 3, initPos := some (12, 4), initHealth := some 1 },
     { enc := 2, initPos := some (12, 5), initHealth := some 1 },
     { enc := 2, initPos := some (12, 7), initHealth := some 1 },
     { enc := 2, initPos := some (12, 8), initHealth := some 1 },
     { enc := 2, initPos := some (12, 9), initHealth := some 1 },
     { enc := 2, initPos := some (12, 10), initHealth := some 1 },
     { enc := 2, initPos := some (12, 11), initHealth := some 1 },
     { enc := 2, initPos := some (12, 13), initHealth := some 1 },
     { enc := 3, initPos := some (12, 14), initHealth := some 1 },
     { enc := 2, initPos := some (12, 15), initHealth := some 1 },
     { enc := 2, initPos := some (12, 16), initHealth := some 1 },
     { enc := 2, initPos := some (12, 17), initHealth := some 1 },
     { enc := 2, initPos := some (12, 18), initHealth := some 1 },
     { enc := 2, initPos := some (13, 0), initHealth := some 1 },
     { enc := 4, initPos := some (13, 1), initHealth := some 1, moving := true, moveRange := 1, hasOrient := true, initOrient := some 1, observing := true, viewRange := 0 },
     { enc := 3, initPos := some (13, 2), initHealth := some 1 },
     { enc := 3, initPos := some (13, 3), initHealth := some 1 },
     { enc := 3, initPos := some (13, 4), initHealth := some 1 },
     { enc := 3, initPos := some (13, 5), initHealth := some 1 },
     { enc := 3, initPos := some (13, 6), initHealth := some 1 },
     { enc := 3, initPos := some (13, 7), initHealth := some 1 },
     { enc := 3, initPos := some (13, 8), initHealth := some 1 },
     { enc := 2, initPos := some (13, 9), initHealth := some 1 },
     { enc := 3, initPos := some (13, 10), initHealth := some 1 },
     { enc := 3, initPos := some (13, 11), initHealth := some 1 },
     { enc := 3, initPos := some (13, 12), initHealth := some 1 },
     { enc := 3, initPos := some (13, 13), initHealth := some 1 },
     { enc := 3, initPos := some (13, 14), initHealth := some 1 },
     { enc := 3, initPos := some (13, 15), initHealth := some 1 },
     { enc := 3, initPos := some (13, 16), initHealth := some 1 },
     { enc := 4, initPos := some (13, 17), initHealth := some 1, moving := true, moveRange := 1, hasOrient := true, initOrient := some 1, observing := true, viewRange := 0 },
     { enc := 2, initPos := some (13, 18), initHealth := some 1 },
     { enc := 2, initPos := some (14, 0), initHealth := some 1 },
     { enc := 3, initPos := some (14, 1), initHealth := some 1 },
     { enc := 2, initPos := some (14, 2), initHealth := some 1 },
     { enc := 2, initPos := some (14, 3), initHealth := some 1 },
     { enc := 3, initPos := some (14, 4), initHealth := some 1 },
     { enc := 2, initPos := some (14, 5), initHealth := some 1 },
     { enc := 2, initPos := some (14, 6), initHealth := some 1 },
     { enc := 2, initPos := some (14, 7), initHealth := some 1 },
     { enc := 3, initPos := some (14, 8), initHealth := some 1 },
     { enc := 2, initPos := some (14, 9), initHealth := some 1 },
     { enc := 3, initPos := some (14, 10), initHealth := some 1 },
     { enc := 2, initPos := some (14, 11), initHealth := some 1 },
     { enc := 2, initPos := some (14, 12), initHealth := some 1 },
     { enc := 2, initPos := some (14, 13), initHealth := some 1 },
     { enc := 3, initPos := some (14, 14), initHealth := some 1 },
     { enc := 2, initPos := some (14, 15), initHealth := some 1 },
     { enc := 2, initPos := some (14, 16), initHealth := some 1 },
     { enc := 3, initPos := some (14, 17), initHealth := some 1 },
     { enc := 2, initPos := some (14, 18), initHealth := some 1 },
     { enc := 2, initPos := some (15, 0), initHealth := some 1 },
     { enc := 3, initPos := some (15, 1), initHealth := some 1 },
     { enc := 3, initPos := some (15, 2), initHealth := some 1 },
     { enc := 2, initPos := some (15, 3), initHealth := some 1 },
     { enc := 3, initPos := some (15, 4), initHealth := some 1 },
     { enc := 3, initPos := some (15, 5), initHealth := some 1 },
     { enc := 3, initPos := some (15, 6), initHealth := some 1 },
     { enc := 3, initPos := some (15, 7), initHealth := some 1 },
     { enc := 3, initPos := some (15, 8), initHealth := some 1 },
     { enc := 1, initPos := some (15, 9), initHealth := some 1, moving := true, moveRange := 1, hasOrient := true, initOrient := some 1, observing := true, viewRange := 2 },
     { enc := 3, initPos := some (15, 10), initHealth := some 1 },
     { enc := 3, initPos := some (15, 11), initHealth := some 1 },
     { enc := 3, initPos := some (15, 12), initHealth := some 1 },
     { enc := 3, initPos := some (15, 13), initHealth := some 1 },
     { enc := 3, initPos := some (15, 14), initHealth := some 1 },
     { enc := 2, initPos := some (15, 15), initHealth := some 1 },
     { enc := 3, initPos := some (15, 16), initHealth := some 1 },
     { enc := 3, initPos := some (15, 17), initHealth := some 1 },
     { enc := 2, initPos := some (15, 18), initHealth := some 1 },
     { enc := 2, initPos := some (16, 0), initHealth := some 1 },
     { enc := 2, initPos := some (16, 1), initHealth := some 1 },
     { enc := 3, initPos := some (16, 2), initHealth := some 1 },
     { enc := 2, initPos := some (16, 3), initHealth := some 1 },
     { enc := 3, initPos := some (16, 4), initHealth := some 1 },
     { enc := 2, initPos := some (16, 5), initHealth := some 1 },
     { enc := 3, initPos := some (16, 6), initHealth := some 1 },
     { enc := 2, initPos := some (16, 7), initHealth := some 1 },
     { enc := 2, initPos := some (16, 8), initHealth := some 1 },
     { enc := 2, initPos := some (16, 9), initHealth := some 1 },
     { enc := 2, initPos := some (16, 10), initHealth := some 1 },
     { enc := 2, initPos := some (16, 11), initHealth := some 1 },
     { enc := 3, initPos := some (16, 12), initHealth := some 1 },
     { enc := 2, initPos := some (16, 13), initHealth := some 1 },
     { enc := 3, initPos := some (16, 14), initHealth := some 1 },
     { enc := 2, initPos := some (16, 15), initHealth := some 1 },
     { enc := 3, initPos := some (16, 16), initHealth := some 1 },
     { enc := 2, initPos := some (16, 17), initHealth := some 1 },
     { enc := 2, initPos := some (16, 18), initHealth := some 1 },
     { enc := 2, initPos := some (17, 0), initHealth := some 1 },
     { enc := 3, initPos := some (17, 1), initHealth := some 1 },
     { enc := 3, initPos := some (17, 2), initHealth := some 1 },
     { enc := 3, initPos := some (17, 3), initHealth := some 1 },
     { enc := 3, initPos := some (17, 4), initHealth := some 1 },
     { enc := 2, initPos := some (17, 5), initHealth := some 1 },
     { enc := 3, initPos := some (17, 6), initHealth := some 1 },
     { enc := 3, initPos := some (17, 7), initHealth := some 1 },
     { enc := 3, initPos := some (17, 8), initHealth := some 1 },
     { enc := 2, initPos := some (17, 9), initHealth := some 1 },
     { enc := 3, initPos := some (17, 10), initHealth := some 1 },
     { enc := 3, initPos := some (17, 11), initHealth := some 1 },
     { enc := 3, initPos := some (17, 12), initHealth := some 1 },
     { enc := 2, initPos := some (17, 13), initHealth := some 1 },
     { enc := 3, initPos := some (17, 14), initHealth := some 1 },
     { enc := 3, initPos := some (17, 15), initHealth := some 1 },
     { enc := 3, initPos := some (17, 16), initHealth := some 1 },
     { enc := 3, initPos := some (17, 17), initHealth := some 1 },
     { enc := 2, initPos := some (17, 18), initHealth := some 1 },
     { enc := 2, initPos := some (18, 0), initHealth := some 1 },
     { enc := 3, initPos := some (18, 1), initHealth := some 1 },
     { enc := 2, initPos := some (18, 2), initHealth := some 1 },
     { enc := 2, initPos := some (18, 3), initHealth := some 1 },
     { enc := 2, initPos := some (18, 4), initHealth := some 1 },
     { enc := 2, initPos := some (18, 5), initHealth := some 1 },
     { enc := 2, initPos := some (18, 6), initHealth := some 1 },
     { enc := 2, initPos := some (18, 7), initHealth := some 1 },
     { enc := 3, initPos := some (18, 8), initHealth := some 1 },
     { enc := 2, initPos := some (18, 9), initHealth := some 1 },
     { enc := 3, initPos := some (18, 10), initHealth := some 1 },
     { enc := 2, initPos := some (18, 11), initHealth := some 1 },
     { enc := 2, initPos := some (18, 12), initHealth := some 1 },
     { enc := 2, initPos := some (18, 13), initHealth := some 1 },
     { enc := 2, initPos := some (18, 14), initHealth := some 1 },
     { enc := 2, initPos := some (18, 15), initHealth := some 1 },
     { enc := 2, initPos := some (18, 16), initHealth := some 1 },
     { enc := 3, initPos := some (18, 17), initHealth := some 1 },
     { enc := 2, initPos := some (18, 18), initHealth := some 1 },
     { enc := 2, initPos := some (19, 0), initHealth := some 1 },
     { enc := 3, initPos := some (19, 1), initHealth := some 1 },
     { enc := 3, initPos := some (19, 2), initHealth := some 1 },
     { enc := 3, initPos := some (19, 3), initHealth := some 1 },
     { enc := 3, initPos := some (19, 4), initHealth := some 1 },
     { enc := 3, initPos := some (19, 5), initHealth := some 1 },
     { enc := 3, initPos := some (19, 6), initHealth := some 1 },
     { enc := 3, initPos := some (19, 7), initHealth := some 1 },
     { enc := 3, initPos := some (19, 8), initHealth := some 1 },
     { enc := 3, initPos := some (19, 9), initHealth := some 1 },
     { enc := 3, initPos := some (19, 10), initHealth := some 1 },
     { enc := 3, initPos := some (19, 11), initHealth := some 1 },
     { enc := 3, initPos := some (19, 12), initHealth := some 1 },
     { enc := 3, initPos := some (19, 13), initHealth := some 1 },
     { enc := 3, initPos := some (19, 14), initHealth := some 1 },
     { enc := 3, initPos := some (19, 15), initHealth := some 1 },
     { enc := 3, initPos := some (19, 16), initHealth := some 1 },
     { enc := 3, initPos := some (19, 17), initHealth := some 1 },
     { enc := 2, initPos := some (19, 18), initHealth := some 1 },
     { enc := 2, initPos := some (20, 0), initHealth := some 1 },
     { enc := 2, initPos := some (20, 1), initHealth := some 1 },
     { enc := 2, initPos := some (20, 2), initHealth := some 1 },
     { enc := 2, initPos := some (20, 3), initHealth := some 1 },
     { enc := 2, initPos := some (20, 4), initHealth := some 1 },
     { enc := 2, initPos := some (20, 5), initHealth := some 1 },
     { enc := 2, initPos := some (20, 6), initHealth := some 1 },
     { enc := 2, initPos := some (20, 7), initHealth := some 1 },
     { enc := 2, initPos := some (20, 8), initHealth := some 1 },
     { enc := 2, initPos := some (20, 9), initHealth := some 1 },
     { enc := 2, initPos := some (20, 10), initHealth := some 1 },
     { enc := 2, initPos := some (20, 11), initHealth := some 1 },
     { enc := 2, initPos := some (20, 12), initHealth := some 1 },
     { enc := 2, initPos := some (20, 13), initHealth := some 1 },
     { enc := 2, initPos := some (20, 14), initHealth := some 1 },
     { enc := 2, initPos := some (20, 15), initHealth := some 1 },
     { enc := 2, initPos := some (20, 16), initHealth := some 1 },
     { enc := 2, initPos := some (20, 17), initHealth := some 1 },
     { enc := 2, initPos := some (20, 18), initHealth := some 1 }],
    st :=
    [{ pos := (0, 0) }, { pos := (0, 1) }, { pos := (0, 2) }, { pos := (0, 3) }, { pos := (0, 4) }, { pos := (0, 5) }, { pos := (0, 6) }, { pos := (0, 7) },
     { pos := (0, 8) }, { pos := (0, 9) }, { pos := (0, 10) }, { pos := (0, 11) }, { pos := (0, 12) }, { pos := (0, 13) }, { pos := (0, 14) }, { pos := (0, 15) },
     { pos := (0, 16) }, { pos := (0, 17) }, { pos := (0, 18) }, { pos := (1, 0) }, { pos := (1, 1) }, { pos := (1, 2) }, { pos := (1, 3) }, { pos := (1, 4) },
     { pos := (1, 5) }, { pos := (1, 6) }, { pos := (1, 7) }, { pos := (1, 8) }, { pos := (1, 9) }, { pos := (1, 10) }, { pos := (1, 11) }, { pos := (1, 12) },
     { pos := (1, 13) }, { pos := (1, 14) }, { pos := (1, 15) }, { pos := (1, 16) }, { pos := (1, 17) }, { pos := (1, 18) }, { pos := (2, 0) }, { pos := (2, 1) },
     { pos := (2, 2) }, { pos := (2, 3) }, { pos := (2, 4) }, { pos := (2, 5) }, { pos := (2, 6) }, { pos := (2, 7) }, { pos := (2, 8) }, { pos := (2, 9) },
     { pos := (2, 10) }, { pos := (2, 11) }, { pos := (2, 12) }, { pos := (2, 13) }, { pos := (2, 14) }, { pos := (2, 15) }, { pos := (2, 16) }, { pos := (2, 17) },
     { pos := (2, 18) }, { pos := (3, 0) }, { pos := (3, 1) }, { pos := (3, 2) }, { pos := (3, 3) }, { pos := (3, 4) }, { pos := (3, 5) }, { pos := (3, 6) },
     { pos := (3, 7) }, { pos := (3, 8) }, { pos := (3, 9) }, { pos := (3, 10) }, { pos := (3, 11) }, { pos := (3, 12) }, { pos := (3, 13) }, { pos := (3, 14) },
     { pos := (3, 15) }, { pos := (3, 16) }, { pos := (3, 17) }, { pos := (3, 18) }, { pos := (4, 0) }, { pos := (4, 1) }, { pos := (4, 2) }, { pos := (4, 3) },
     { pos := (4, 4) }, { pos := (4, 5) }, { pos := (4, 6) }, { pos := (4, 7) }, { pos := (4, 8) }, { pos := (4, 9) }, { pos := (4, 10) }, { pos := (4, 11) },
     { pos := (4, 12) }, { pos := (4, 13) }, { pos := (4, 14) }, { pos := (4, 15) }, { pos := (4, 16) }, { pos := (4, 17) }, { pos := (4, 18) }, { pos := (5, 0) },
     { pos := (5, 1) }, { pos := (5, 2) }, { pos := (5, 3) }, { pos := (5, 4) }, { pos := (5, 5) }, { pos := (5, 6) }, { pos := (5, 7) }, { pos := (5, 8) },
     { pos := (5, 9) }, { pos := (5, 10) }, { pos := (5, 11) }, { pos := (5, 12) }, { pos := (5, 13) }, { pos := (5, 14) }, { pos := (5, 15) }, { pos := (5, 16) },
     { pos := (5, 17) }, { pos := (5, 18) }, { pos := (6, 0) }, { pos := (6, 1) }, { pos := (6, 2) }, { pos := (6, 3) }, { pos := (6, 4) }, { pos := (6, 5) },
     { pos := (6, 6) }, { pos := (6, 7) }, { pos := (6, 9) }, { pos := (6, 11) }, { pos := (6, 12) }, { pos := (6, 13) }, { pos := (6, 14) }, { pos := (6, 15) },
     { pos := (6, 16) }, { pos := (6, 17) }, { pos := (6, 18) }, { pos := (7, 0) }, { pos := (7, 1) }, { pos := (7, 2) }, { pos := (7, 3) }, { pos := (7, 4) },
     { pos := (7, 5) }, { pos := (7, 13) }, { pos := (7, 14) }, { pos := (7, 15) }, { pos := (7, 16) }, { pos := (7, 17) }, { pos := (7, 18) }, { pos := (8, 0) },
     { pos := (8, 1) }, { pos := (8, 2) }, { pos := (8, 3) }, { pos := (8, 4) }, { pos := (8, 5) }, { pos := (8, 7) }, { pos := (8, 8) }, { pos := (8, 9) },
     { pos := (8, 10) }, { pos := (8, 11) }, { pos := (8, 13) }, { pos := (8, 14) }, { pos := (8, 15) }, { pos := (8, 16) }, { pos := (8, 17) }, { pos := (8, 18) },
     { pos := (9, 4) }, { pos := (9, 7) }, { pos := (9, 8) }, { pos := (9, 9) }, { pos := (9, 10) }, { pos := (9, 11) }, { pos := (9, 12) }, { pos := (9, 14) },
     { pos := (10, 0) }, { pos := (10, 1) }, { pos := (10, 2) }, { pos := (10, 3) }, { pos := (10, 4) }, { pos := (10, 5) }, { pos := (10, 7) }, { pos := (10, 8) },
     { pos := (10, 9) }, { pos := (10, 10) }, { pos := (10, 11) }, { pos := (10, 13) }, { pos := (10, 14) }, { pos := (10, 15) }, { pos := (10, 16) }, { pos := (10, 17) },
     { pos := (10, 18) }, { pos := (11, 0) }, { pos := (11, 1) }, { pos := (11, 2) }, { pos := (11, 3) }, { pos := (11, 4) }, { pos := (11, 5) }, { pos := (11, 13) },
     { pos := (11, 14) }, { pos := (11, 15) }, { pos := (11, 16) }, { pos := (11, 17) }, { pos := (11, 18) }, { pos := (12, 0) }, { pos := (12, 1) }, { pos := (12, 2) },
     { pos := (12, 3) }, { pos := (12, 4) }, { pos := (12, 5) }, { pos := (12, 7) }, { pos := (12, 8) }, { pos := (12, 9) }, { pos := (12, 10) }, { pos := (12, 11) },
     { pos := (12, 13) }, { pos := (12, 14) }, { pos := (12, 15) }, { pos := (12, 16) }, { pos := (12, 17) }, { pos := (12, 18) }, { pos := (13, 0) }, { pos := (13, 1) },
     { pos := (13, 2) }, { pos := (13, 3) }, { pos := (13, 4) }, { pos := (13, 5) }, { pos := (13, 6) }, { pos := (13, 7) }, { pos := (13, 8) }, { pos := (13, 9) },
     { pos := (13, 10) }, { pos := (13, 11) }, { pos := (13, 12) }, { pos := (13, 13) }, { pos := (13, 14) }, { pos := (13, 15) }, { pos := (13, 16) }, { pos := (13, 17) },
     { pos := (13, 18) }, { pos := (14, 0) }, { pos := (14, 1) }, { pos := (14, 2) }, { pos := (14, 3) }, { pos := (14, 4) }, { pos := (14, 5) }, { pos := (14, 6) },
     { pos := (14, 7) }, { pos := (14, 8) }, { pos := (14, 9) }, { pos := (14, 10) }, { pos := (14, 11) }, { pos := (14, 12) }, { pos := (14, 13) }, { pos := (14, 14) },
     { pos := (14, 15) }, { pos := (14, 16) }, { pos := (14, 17) }, { pos := (14, 18) }, { pos := (15, 0) }, { pos := (15, 1) }, { pos := (15, 2) }, { pos := (15, 3) },
     { pos := (15, 4) }, { pos := (15, 5) }, { pos := (15, 6) }, { pos := (15, 7) }, { pos := (15, 8) }, { pos := (15, 9) }, { pos := (15, 10) }, { pos := (15, 11) },
     { pos := (15, 12) }, { pos := (15, 13) }, { pos := (15, 14) }, { pos := (15, 15) }, { pos := (15, 16) }, { pos := (15, 17) }, { pos := (15, 18) }, { pos := (16, 0) },
     { pos := (16, 1) }, { pos := (16, 2) }, { pos := (16, 3) }, { pos := (16, 4) }, { pos := (16, 5) }, { pos := (16, 6) }, { pos := (16, 7) }, { pos := (16, 8) },
     { pos := (16, 9) }, { pos := (16, 10) }, { pos := (16, 11) }, { pos := (16, 12) }, { pos := (16, 13) }, { pos := (16, 14) }, { pos := (16, 15) }, { pos := (16, 16) },
     { pos := (16, 17) }, { pos := (16, 18) }, { pos := (17, 0) }, { pos := (17, 1) }, { pos := (17, 2) }, { pos := (17, 3) }, { pos := (17, 4) }, { pos := (17, 5) },
     { pos := (17, 6) }, { pos := (17, 7) }, { pos := (17, 8) }, { pos := (17, 9) }, { pos := (17, 10) }, { pos := (17, 11) }, { pos := (17, 12) }, { pos := (17, 13) },
     { pos := (17, 14) }, { pos := (17, 15) }, { pos := (17, 16) }, { pos := (17, 17) }, { pos := (17, 18) }, { pos := (18, 0) }, { pos := (18, 1) }, { pos := (18, 2) },
     { pos := (18, 3) }, { pos := (18, 4) }, { pos := (18, 5) }, { pos := (18, 6) }, { pos := (18, 7) }, { pos := (18, 8) }, { pos := (18, 9) }, { pos := (18, 10) },
     { pos := (18, 11) }, { pos := (18, 12) }, { pos := (18, 13) }, { pos := (18, 14) }, { pos := (18, 15) }, { pos := (18, 16) }, { pos := (18, 17) }, { pos := (18, 18) },
     { pos := (19, 0) }, { pos := (19, 1) }, { pos := (19, 2) }, { pos := (19, 3) }, { pos := (19, 4) }, { pos := (19, 5) }, { pos := (19, 6) }, { pos := (19, 7) },
     { pos := (19, 8) }, { pos := (19, 9) }, { pos := (19, 10) }, { pos := (19, 11) }, { pos := (19, 12) }, { pos := (19, 13) }, { pos := (19, 14) }, { pos := (19, 15) },
     { pos := (19, 16) }, { pos := (19, 17) }, { pos := (19, 18) }, { pos := (20, 0) }, { pos := (20, 1) }, { pos := (20, 2) }, { pos := (20, 3) }, { pos := (20, 4) },
     { pos := (20, 5) }, { pos := (20, 6) }, { pos := (20, 7) }, { pos := (20, 8) }, { pos := (20, 9) }, { pos := (20, 10) }, { pos := (20, 11) }, { pos := (20, 12) },
     { pos := (20, 13) }, { pos := (20, 14) }, { pos := (20, 15) }, { pos := (20, 16) }, { pos := (20, 17) }, { pos := (20, 18) }] }

theorem exGridWorld_eq : exGridWorld = exGridWorldLit := by decide +kernel

def exGridLearning : List Bool :=
    [false, false, false, false, false, false, false, false, false, false, false, false, false, false, false, false,
     false, false, false, false, true, false, false, false, false, false, false, false, false, false, false, false,
     false, false, false, false, true, false, false, false, false, false, false, false, false, false, false, false,
     false, false, false, false, false, false, false, false, false, false, false, false, false, false, false, false,
     false, false, false, false, false, false, false, false, false, false, false, false, false, false, false, false,
     false, false, false, false, false, false, false, false, false, false, false, false, false, false, false, false,
     false, false, false, false, false, false, false, false, false, false, false, false, false, false, false, false,
     false, false, false, false, false, false, false, false, false, false, false, false, false, false, false, false,
     false, false, false, false, false, false, false, false, false, false, false, false, false, false, false, false,
     false, false, false, false, false, false, false, false, false, false, false, false, false, false, false, false,
     false, false, false, false, false, false, true, false, false, false, false, false, false, false, false, false,
     false, false, false, false, false, false, false, false, false, false, false, false, false, false, false, false,
     false, false, false, false, false, false, false, false, false, false, false, false, false, false, false, false,
     false, false, false, false, false, false, false, true, false, false, false, false, false, false, false, false,
     false, false, false, false, false, false, false, true, false, false, false, false, false, false, false, false,
     false, false, false, false, false, false, false, false, false, false, false, false, false, false, false, false,
     false, false, false, false, false, true, false, false, false, false, false, false, false, false, false, false,
     false, false, false, false, false, false, false, false, false, false, false, false, false, false, false, false,
     false, false, false, false, false, false, false, false, false, false, false, false, false, false, false, false,
     false, false, false, false, false, false, false, false, false, false, false, false, false, false, false, false,
     false, false, false, false, false, false, false, false, false, false, false, false, false, false, false, false,
     false, false, false, false, false, false, false, false, false, false, false, false, false, false, false, false,
     false, false, false, false, false, false, false, false, false, false, false, false, false, false]

def exGridFood : List Aid :=
    [21, 22, 23, 24, 25, 26, 27, 29, 30, 31, 32, 33, 34, 35, 39, 42, 46, 48, 52, 55, 58, 59, 60, 61,
     62, 63, 64, 65, 66, 67, 68, 69, 70, 71, 72, 73, 74, 77, 80, 82, 88, 90, 93, 96, 97, 98, 99, 101,
     102, 103, 105, 106, 107, 109, 110, 111, 112, 118, 126, 132, 133, 135, 138, 140, 141, 144, 145, 147, 151, 155, 157, 158,
     160, 162, 163, 164, 167, 169, 170, 172, 180, 182, 183, 186, 187, 189, 192, 194, 195, 201, 209, 216, 217, 218, 219, 220,
     221, 222, 224, 225, 226, 227, 228, 229, 230, 234, 237, 241, 243, 247, 250, 253, 254, 256, 257, 258, 259, 260, 262, 263,
     264, 265, 266, 268, 269, 273, 275, 277, 283, 285, 287, 291, 292, 293, 294, 296, 297, 298, 300, 301, 302, 304, 305, 306,
     307, 310, 317, 319, 326, 329, 330, 331, 332, 333, 334, 335, 336, 337, 338, 339, 340, 341, 342, 343, 344, 345]

/-- `exGridCfg` written out -/
def exGridCfgLit : PM.Cfg :=
  { simple := true, learning := exGridLearning,
    comps := [.position .position {}, .orient, .health], observers := some [.absolute],
    pacman := 261, food := exGridFood, baddies := [20, 36, 166, 215, 231],
    scheme := { badMove := some 0, entropy := some (-1), eatFood := some 20, kill := none, die := some (-100) },
    named := [some 20, some 36, some 166, some 215, some 231] }

theorem exGridCfg_eq : exGridCfg = exGridCfgLit := by
  have h1 : (exGridObjs.map fun x => x.2 == 1 || x.2 == 4) = exGridLearning := by decide +kernel
  have h2 : (idxsOf 1).headD 0 = 261 := by decide +kernel
  have h3 : idxsOf 3 = exGridFood := by decide +kernel
  have h4 : idxsOf 4 = [20, 36, 166, 215, 231] := by decide +kernel
  unfold exGridCfg exGridCfgLit
  rw [h1, h2, h3, h4]
  rfl

/-- the transcription has the shape of the packaged layout: 21 × 19, 366 agents, pacman is agent 261 at (15, 9), five baddies,
166 pieces of food; both teleport cells `(9, 0)`, `(9, 18)` of `PacmanSimSimple` are empty -/
example : exGrid.length = 21 ∧ exGrid.all (fun r => r.length == 19) = true ∧ exGridWorld.n = 366 ∧
    exGridCfg.pacman = 261 ∧ (exGridWorld.stOf 261).pos = (15, 9) ∧ exGridCfg.baddies = [20, 36, 166, 215, 231] ∧
    exGridCfg.food.length = 166 ∧ exGridWorld.cell (9, 0) = [] ∧ exGridWorld.cell (9, 18) = [] ∧ exGridCfg.far = 18 := by
  rw [exGridWorld_eq, exGridCfg_eq]
  decide +kernel

/-! ### `WInv` of the world after `reset`, in chunks the kernel decides quickly -/

theorem exGrid_agents1 : (List.range' 0 92).all exGridWorldLit.wAgent = true := by decide +kernel
theorem exGrid_agents2 : (List.range' 92 92).all exGridWorldLit.wAgent = true := by decide +kernel
theorem exGrid_agents3 : (List.range' 184 92).all exGridWorldLit.wAgent = true := by decide +kernel
theorem exGrid_agents4 : (List.range' 276 90).all exGridWorldLit.wAgent = true := by decide +kernel
theorem exGrid_cells1 : (List.range' 0 200).all exGridWorldLit.wCell = true := by decide +kernel
theorem exGrid_cells2 : (List.range' 200 199).all exGridWorldLit.wCell = true := by decide +kernel

/-- the world after `reset` satisfies the whole invariant -/
theorem exGrid_WInv : exGridWorld.WInv = true := by
  rw [exGridWorld_eq]
  have ea : exGridWorldLit.allAgents =
      List.range' 0 92 ++ List.range' 92 92 ++ List.range' 184 92 ++ List.range' 276 90 := by decide +kernel
  have ec : exGridWorldLit.allCells = List.range' 0 200 ++ List.range' 200 199 := by decide +kernel
  have hs : exGridWorldLit.wShape = true := by decide +kernel
  have ho : exGridWorldLit.wOverlapSym = true := by decide +kernel
  unfold WInv
  rw [ea, ec, List.all_append, List.all_append, List.all_append, List.all_append, exGrid_agents1, exGrid_agents2,
    exGrid_agents3, exGrid_agents4, exGrid_cells1, exGrid_cells2, hs, ho]
  rfl

/-- **the packaged `example_grid` configuration satisfies `PM.cfgWF ∧ PM.teleSafe`** — all 366 agents, decided by the kernel -/
theorem pacman_example_grid_cfgWF_teleSafe :
    PM.cfgWF exGridCfg exGridWorld = true ∧ PM.teleSafe exGridCfg exGridWorld = true := by
  rw [exGridWorld_eq, exGridCfg_eq]
  constructor
  · decide +kernel
  · decide +kernel

/-! ### the rest of `PM.stepPre` for the first step of the packaged simulation: pacman left, `baddie_0` down -/

theorem exGrid_pre1 : (exGridWorldLit.stOf exGridCfgLit.pacman).active = true := by decide +kernel
theorem exGrid_pre2 : exGridWorldLit.allAgents.all
    (fun a => a == exGridCfgLit.pacman || exGridCfgLit.food.contains a || (exGridWorldLit.stOf a).active) = true := by
  decide +kernel
theorem exGrid_pre3 : ((List.lookup exGridCfgLit.pacman [(261, (1 : Int)), (20, 2)]).isSome && PM.keysNodup [(261, 1), (20, 2)] &&
    [((261 : Aid), (1 : Int)), (20, 2)].all (fun x => PM.actInSpace exGridWorldLit x && exGridCfgLit.isLearning x.1)) = true := by
  decide +kernel
theorem exGrid_pre4 : Ex.ledgerFullb exGridCfgLit.toEx exGridWorldLit.n (Ex.zeroRewards exGridCfgLit.toEx 366) = true := by
  decide +kernel

/-- hence the first step of the packaged simulation — here: pacman left, `baddie_0` down — is a `PM.stepPre` step: it returns
and leaves `WInv` and `teleSafe` (`pacman_step_keeps_WInv`) -/
theorem pacman_example_grid_first_step :
    let s : PM.St := { ex := { w := exGridWorld, rewards := some (Ex.zeroRewards exGridCfg.toEx 366) } }
    (PM.step exGridCfg s [(261, 1), (20, 2)]).2 = none ∧ (PM.step exGridCfg s [(261, 1), (20, 2)]).1.ex.w.WInv = true ∧
    PM.teleSafe exGridCfg (PM.step exGridCfg s [(261, 1), (20, 2)]).1.ex.w = true := by
  intro s
  refine pacman_step_keeps_WInv exGridCfg s _ _ rfl ?_
  show PM.stepPre exGridCfg exGridWorld _ _ = true
  have h1 := exGrid_WInv
  have h2 := pacman_example_grid_cfgWF_teleSafe
  have h3 := exGrid_pre3
  rw [exGridWorld_eq] at h1 h2 ⊢
  rw [exGridCfg_eq] at h2 ⊢
  simp only [Bool.and_eq_true] at h3
  simp only [PM.stepPre, Bool.and_eq_true]
  exact ⟨⟨⟨⟨⟨⟨⟨⟨h1, h2.1⟩, h2.2⟩, exGrid_pre1⟩, exGrid_pre2⟩, h3.1.1⟩, h3.1.2⟩, h3.2⟩, exGrid_pre4⟩

end Abmarl
