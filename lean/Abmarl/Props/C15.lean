import Abmarl.Lemmas.Adapters
import Abmarl.Lemmas.AdaptersX
import Abmarl.Model.StubSim
import Abmarl.Props.C01
/-!
# C15 — Gym and OpenSpiel adapters preserve the episode and let it finish

* `C15_gym_projection` — `GymWrapper.reset/step` return exactly the single learning agent's entries
  of the manager's output of the one manager call they make (or pass the manager's rejection on).
* `C15_openspiel` — for every simulation satisfying `WF` with at least one learning agent, for the
  turn-based and the simultaneous (all-step) manager and for **every** sequence of adapter calls
  (explicit resets and steps with well-formed action lists), the model's play-through satisfies
  `specC15`: every learning agent is present in every time step's observations, legal actions and
  rewards; only actions of agents not yet done are forwarded, unchanged; a time step is LAST exactly
  when the manager reports `__all__`; the call after LAST starts a new episode; in turn-based play the
  current player can still act; **every step call forwards exactly one manager call** (no fake step,
  no rejection), so a play-through reaches LAST exactly when the underlying episode ends.
* `c15_*` — readings of `specC15`.
* `C15_openspiel_with_setter` — the same over the richer call alphabet `OSIn` (resets, steps with
  **any** action list, and the public setter `current_player = a` for **any** `a`, learning agent or not,
  anywhere in the history): the model's play-through satisfies `specC15X` — all learning agents present,
  **never an action forwarded for an agent already reported done** (`osRunX_never_forwards_done`,
  `c15x_never_forwards_done`), LAST iff `__all__`, restart after LAST, the setter accepts exactly the
  learning agents, an action for a done agent is answered by the fake MID step that forwards nothing,
  and in turn-based play **every** time step, the fake step's included, names a current player who can
  still act.  (The last clause was false of the fake step before repair C15-K1, found by this check;
  `c15K1` is the regression history.)  `osRunX_of_plain`: without setter calls `osRunX` is `osRun`;
  `specC15_of_specC15X`: `specC15X` contains `specC15`.
-/
namespace Abmarl
variable {σ α ω ι : Type}

theorem lookup_some_of_mem_keys {β : Type} (l : List (Aid × β)) (a : Aid) (h : a ∈ keys l) :
    ∃ v, l.lookup a = some v := by
  induction l with
  | nil => cases h
  | cons p ps ih =>
    by_cases hp : a = p.1
    · exact ⟨p.2, by simp [List.lookup, hp]⟩
    · have hne : (a == p.1) = false := by simpa using hp
      have : a ∈ keys ps := by
        simp only [keys, List.map_cons, List.mem_cons] at h
        rcases h with h | h
        · exact absurd h hp
        · exact h
      obtain ⟨v, hv⟩ := ih this
      exact ⟨v, by simp [List.lookup, hne, hv]⟩

/-- one gym call under the manager invariant: it returns the single learning agent's entries of the
manager's output (or passes the rejection on) — never a `KeyError` -/
theorem gymCall_sound [DecidableEq α] [DecidableEq ω] [DecidableEq ι] {S : SimIface σ α ω ι} {k : MKind}
    (hW : WF S k) (hk : k ≠ .dynamic) {ag : Aid} (hag : S.learners = [ag]) (m : MState σ) (g : GSt)
    (c : Option α) (hI : g.started = true → g.over = false → Inv S k m g)
    (hp : c.isSome = true → g.started = true ∧ g.over = false) :
    specGym ag c (gymCall S k ag m c).1 (gymCall S k ag m c).2.1 = true ∧
    ((gNext g (gymCall S k ag m c).2.1).started = true → (gNext g (gymCall S k ag m c).2.1).over = false →
      Inv S k (gymCall S k ag m c).2.2 (gNext g (gymCall S k ag m c).2.1)) := by
  have hagL : ag ∈ S.learners := by rw [hag]; simp
  have hpart := participating_eq_learners (S := S) hk
  cases c with
  | none =>
    obtain ⟨h01, h07, _, hinv'⟩ := reset_sound (α := α) hW m g
    obtain ⟨rs, hrs⟩ : ∃ rs, rs = runOp (α := α) S k m .reset := ⟨_, rfl⟩
    rw [← hrs] at h01 h07 hinv'
    have hop : rs.1.op = .reset := by rw [hrs]; exact runOp_op S k m _
    obtain ⟨obs, hobs⟩ : ∃ obs, rs.1.res = .resetOk obs := by
      cases hr : rs.1.res with
      | resetOk o => exact ⟨o, rfl⟩
      | stepOk o => simp [c01Entry, hop, hr] at h01
      | err e => simp [c01Entry, hop, hr] at h01
    have hin : ag ∈ keys obs := by
      cases k with
      | dynamic => exact absurd rfl hk
      | allStep =>
        simp only [c07Entry, hop, hobs, Bool.and_eq_true, sameSet, List.all_eq_true, decide_eq_true_eq] at h07
        exact h07.1.2 ag hagL
      | turnBased =>
        simp only [c07Entry, hop, hobs, Bool.and_eq_true, beq_iff_eq] at h07
        have h1 : keys obs = S.learners.take 1 := h07.1
        rw [h1, hag]; simp
    obtain ⟨o, ho⟩ := lookup_some_of_mem_keys obs ag hin
    have hE : gymCall (α := α) S k ag m none = (.ok ⟨o, none, none, none⟩, rs.1, rs.2) := by
      simp only [gymCall, ← hrs, hobs, ho]
    rw [hE]
    exact ⟨by simp [specGym, hobs, ho], hinv'⟩
  | some a =>
    obtain ⟨hst, hov⟩ := hp rfl
    have hInv := hI hst hov
    obtain ⟨h01, h07, _, hinv'⟩ :=
      op_sound hW m g (.step [(ag, a)]) (fun _ _ => hInv) (fun _ _ => ⟨hst, hov⟩)
    obtain ⟨r, hr⟩ : ∃ r, r = runOp S k m (.step [(ag, a)]) := ⟨_, rfl⟩
    rw [← hr] at h01 h07 hinv'
    have hop : r.1.op = .step [(ag, a)] := by rw [hr]; exact runOp_op S k m _
    have h01' : c01Step k S.n S.learning m.shuffle g [(ag, a)] r.1 = true := by
      simpa [c01Entry, hop] using h01
    cases hres : r.1.res with
    | resetOk o => simp [c01Step, hres] at h01'
    | err er =>
      have hE : gymCall S k ag m (some a) = (.error er, r.1, r.2) := by
        simp only [gymCall, ← hr, hres]
      rw [hE]
      exact ⟨by simp [specGym, hres], hinv'⟩
    | stepOk out =>
      have u := c01Step_unpack h01' hres
      have hnR : ag ∉ g.R := by
        have := u.notBlocked
        simpa using this
      have hin : ag ∈ keys out.obs := by
        cases hAD : out.allDone with
        | true =>
          rcases u.final hAD ag (by rw [hpart]; exact hagL) with h | h
          · exact absurd h hnR
          · exact h
        | false =>
          rw [← u.keysD]
          cases k with
          | dynamic => exact absurd rfl hk
          | allStep =>
            simp only [c07Entry, hop, hres, hAD, Bool.false_or, Bool.and_eq_true, sameSet, List.all_eq_true,
              decide_eq_true_eq] at h07
            apply h07.1.2 ag
            have hagL' : ag ∈ (List.range S.n).filter S.learning := hagL
            exact List.mem_filter.mpr ⟨hagL', by simpa using hnR⟩
          | turnBased =>
            simp only [c07Entry, hop, hres, hAD, Bool.false_or, Bool.and_eq_true, beq_iff_eq] at h07
            obtain ⟨pre, live, post, hrot, _, _, _, hd⟩ := turnExpect_shape h07.1
            have hlive : live ∈ S.learners := by
              have hm : live ∈ rotAfter ((List.range S.n).filter S.learning) g.holder := by rw [hrot]; simp
              unfold rotAfter at hm
              cases hh : g.holder with
              | none => rw [hh] at hm; exact hm
              | some x => rw [hh] at hm; exact (mem_rotate _ _ _).mp hm
            rw [hag] at hlive
            simp only [List.mem_singleton] at hlive
            rw [hd, ← hlive]
            simp [keys]
      obtain ⟨o, ho⟩ := lookup_some_of_mem_keys out.obs ag hin
      obtain ⟨rw', hrw⟩ := lookup_some_of_mem_keys out.rewards ag (by rw [u.keysR]; exact hin)
      obtain ⟨d, hd⟩ := lookup_some_of_mem_keys out.dones ag (by rw [u.keysD]; exact hin)
      obtain ⟨i, hi⟩ := lookup_some_of_mem_keys out.infos ag (by rw [u.keysI]; exact hin)
      have hE : gymCall S k ag m (some a) = (.ok ⟨o, some rw', some d, some i⟩, r.1, r.2) := by
        simp only [gymCall, ← hr, hres, ho, hrw, hd, hi]
      rw [hE]
      exact ⟨by simp [specGym, hres, ho, hrw, hd, hi], hinv'⟩

/-- **C15 (gym)** for every simulation with a single learning agent, both manager kinds and every
sequence of gym calls. -/
theorem C15_gym_projection [DecidableEq α] [DecidableEq ω] [DecidableEq ι] (S : SimIface σ α ω ι)
    (k : MKind) (hW : WF S k) (hk : k ≠ .dynamic) (ag : Aid) (hag : S.learners = [ag]) :
    ∀ (calls : List (Option α)) (m : MState σ) (g : GSt),
      (g.started = true → g.over = false → Inv S k m g) →
      gymLoop ag g calls (gymRun S k ag m calls) = true := by
  intro calls
  induction calls with
  | nil => intro m g _; simp [gymRun, gymLoop]
  | cons c cs ih =>
    intro m g hI
    simp only [gymRun, gymLoop]
    by_cases hprot : (c.isSome && (!g.started || g.over)) = true
    · simp [hprot]
    · have hp : c.isSome = true → g.started = true ∧ g.over = false := by
        intro hc
        rw [hc] at hprot
        cases hs : g.started <;> cases ho : g.over <;> simp [hs, ho] at hprot ⊢
      obtain ⟨h1, h2⟩ := gymCall_sound hW hk hag m g c hI hp
      simp only [hprot, Bool.false_eq_true, if_false, Bool.and_eq_true]
      exact ⟨h1, ih _ _ h2⟩

/-- the judge is sound on the scripted family -/
theorem C15_gym_stub (sc : Script) (k : MKind) (hk : k ≠ .dynamic) (ag : Aid)
    (hag : (stubSim sc).learners = [ag]) (m : MState StubSt) (calls : List (Option Int)) :
    gymLoop ag {} calls (gymRun (stubSim sc) k ag m calls) = true := by
  have hW : WF (stubSim sc) k := stub_WF sc k
    (fun _ => by
      have : ag ∈ (stubSim sc).learners := by rw [hag]; simp
      have := (mem_learners _ ag).mp this
      exact ⟨ag, this.1, this.2⟩)
    (fun h => absurd h hk)
  exact C15_gym_projection _ k hW hk ag hag calls m {} (by intro h; simp at h)

theorem osRun_sound [DecidableEq α] [DecidableEq ω] {S : SimIface σ α ω ι} {k : MKind} (hW : WF S k)
    (hk : k ≠ .dynamic) (hl : S.learners ≠ []) :
    ∀ (calls : List (Option (List α))) (st : OSState σ) (gh : OSGhost), OSInv S k st gh →
      c15Loop k S.n S.learning gh calls (osRun S k st calls) = true := by
  intro calls
  induction calls with
  | nil => intro st gh _; simp [osRun, c15Loop]
  | cons c cs ih =>
    intro st gh hI
    simp only [osRun, c15Loop]
    by_cases hc : callOK k ((List.range S.n).filter S.learning).length c = true
    · have hc' : callOK k S.learners.length c = true := hc
      simp only [hc, Bool.not_true, Bool.false_eq_true, if_false, Bool.and_eq_true]
      cases c with
      | none =>
        obtain ⟨h1, h2⟩ := osReset_sound (α := α) hW hk hl st gh none (by simp)
        exact ⟨h1, ih _ _ h2⟩
      | some acts =>
        obtain ⟨h1, h2⟩ := osStep_sound hW hk hl st gh hI acts hc'
        exact ⟨h1, ih _ _ h2⟩
    · simp [hc]

/-- **C15 (OpenSpiel)** for every simulation, both manager kinds and every call sequence. -/
theorem C15_openspiel [DecidableEq α] [DecidableEq ω] (S : SimIface σ α ω ι) (k : MKind) (hW : WF S k)
    (hk : k ≠ .dynamic) (hl : S.learners ≠ []) (m0 : MState σ) (calls : List (Option (List α))) :
    specC15 k S.n S.learning calls (osRun S k { m := m0 } calls) = true :=
  osRun_sound hW hk hl calls { m := m0 } {} ⟨rfl, rfl, fun h => by cases h⟩

/-! ## Readings -/

section readings
variable [DecidableEq α] [DecidableEq ω] {k : MKind} {n : Nat} {learning : Aid → Bool} {gh : OSGhost}
  {call : Option (List α)} {c : OSCall α ω ι} {ts : TimeStep ω}

/-- every learning agent is in every time step's observations, legal actions and rewards -/
theorem c15_all_learning_present (h : c15Call k n learning gh call c = true) (hr : c.res = .ok ts) :
    (∀ a, a ∈ keys ts.infoState ↔ a ∈ (List.range n).filter learning) ∧
    ts.legal = (List.range n).filter learning ∧
    (∀ r, ts.rewards = some r → ∀ a, a ∈ keys r ↔ a ∈ (List.range n).filter learning) := by
  simp only [c15Call, hr, Bool.and_eq_true, decide_eq_true_eq, sameSet, List.all_eq_true] at h
  obtain ⟨⟨⟨⟨⟨h1, h1'⟩, h2⟩, h3⟩, _⟩, _⟩ := h
  refine ⟨fun a => ⟨h1 a, h1' a⟩, h2, ?_⟩
  intro r hrw a
  rw [hrw] at h3
  simp only [Bool.and_eq_true, List.all_eq_true, decide_eq_true_eq] at h3
  exact ⟨h3.1 a, h3.2 a⟩

/-- a step that is not a restart forwards exactly one accepted manager step, whose actions are those
of agents not yet done; the time step is LAST exactly when the manager reported `__all__` -/
theorem c15_one_manager_step (h : c15Call k n learning gh call c = true) (hr : c.res = .ok ts)
    (hns : gh.shouldReset = false) {acts : List α} (hcall : call = some acts) :
    ∃ e sent out, c.mgrCalls = [e] ∧ e.op = .step sent ∧ e.res = .stepOk out ∧
      (∀ p ∈ sent, p.1 ∉ gh.g.R ∨ k = .turnBased) ∧
      (ts.stepType = .last ↔ out.allDone = true) := by
  simp only [c15Call, hr, hcall, hns, Option.isNone_some, Bool.or_self, Bool.false_eq_true, if_false,
    Bool.and_eq_true] at h
  obtain ⟨⟨_, h4⟩, _⟩ := h
  cases hm : c.mgrCalls with
  | nil => simp [hm] at h4
  | cons e rest =>
    cases rest with
    | cons _ _ => simp [hm] at h4
    | nil =>
      rw [hm] at h4
      cases hop : e.op with
      | reset => simp [hop] at h4
      | step sent =>
        cases hres : e.res with
        | resetOk _ => simp [hop, hres] at h4
        | err _ => simp [hop, hres] at h4
        | stepOk out =>
          simp only [hop, hres, Bool.and_eq_true, decide_eq_true_eq] at h4
          refine ⟨e, sent, out, rfl, hop, hres, ?_, ?_⟩
          · intro p hp
            by_cases hkt : k = .turnBased
            · exact Or.inr hkt
            · left
              have hkt' : (k == MKind.turnBased) = false := by simpa using hkt
              have hs := h4.1.1.1
              simp only [hkt', Bool.false_eq_true, if_false, decide_eq_true_eq] at hs
              rw [hs] at hp
              simpa using (List.mem_filter.mp hp).2
          · rw [h4.1.1.2]
            cases out.allDone <;> simp

/-- in turn-based play the current player of a non-final time step has not been reported done -/
theorem c15_current_player_live (h : c15Call .turnBased n learning gh call c = true) (hr : c.res = .ok ts)
    (hnl : ts.stepType ≠ .last) :
    ts.current < n ∧ learning ts.current = true ∧ ts.current ∉ (foldG gh.g c.mgrCalls).R := by
  simp only [c15Call, hr, Bool.and_eq_true] at h
  have h5 := h.2
  simp only [beq_self_eq_true, Bool.not_true, Bool.false_or, Bool.or_eq_true, decide_eq_true_eq,
    Bool.and_eq_true, isLearner] at h5
  rcases h5 with h5 | h5
  · exact absurd h5 hnl
  · exact ⟨h5.1.1, h5.1.2, h5.2⟩

end readings

/-- the judge is sound on the scripted family -/
theorem C15_stub (sc : Script) (k : MKind) (hk : k ≠ .dynamic) (m0 : MState StubSt)
    (hl : ∃ a < sc.n, sc.learning.getD a false = true) (calls : List (Option (List Int))) :
    specC15 k sc.n (stubSim sc).learning calls (osRun (stubSim sc) k { m := m0 } calls) = true := by
  have hW : WF (stubSim sc) k := stub_WF sc k (fun _ => hl) (fun h => absurd h hk)
  have hne : (stubSim sc).learners ≠ [] := by
    obtain ⟨a, ha, hla⟩ := hl
    intro he
    have : a ∈ (stubSim sc).learners := (mem_learners _ a).mpr ⟨ha, hla⟩
    rw [he] at this; cases this
  exact C15_openspiel _ k hW hk hne m0 calls

/-- non-vacuity: a turn-based play-through in which an agent finishes on its first move (the F5
layout) reaches LAST, with one manager call per adapter call -/
example :
    let sc : Script := { n := 3, learning := [true, true, true], doneAt := [1, 9, 9], finishAt := 4, noms := [] }
    let calls : List (Option (List Int)) := List.replicate 6 (some [1])
    let tr := osRun (stubSim sc) .turnBased { m := mgrInit {} false [] } calls
    (tr.map fun c => c.mgrCalls.length) = [1, 1, 1, 1, 1, 1] ∧
    (tr.any fun c => match c.res with | .ok ts => decide (ts.stepType = .last) | _ => false) = true ∧
    specC15 .turnBased 3 (stubSim sc).learning calls tr = true := by decide

/-! ## The `current_player` setter in the call alphabet -/

/-- without setter calls `osRunX` is `osRun` -/
theorem osRunX_of_plain (S : SimIface σ α ω ι) (k : MKind) :
    ∀ (calls : List (Option (List α))) (st : OSState σ),
      osRunX S k st (calls.map OSIn.ofPlain) = (osRun S k st calls).map OSOut.ts := by
  intro calls
  induction calls with
  | nil => intro st; simp [osRunX, osRun]
  | cons c cs ih =>
    intro st
    cases c with
    | none => simp [OSIn.ofPlain, osRunX, osRun, ih]
    | some acts => simp [OSIn.ofPlain, osRunX, osRun, ih]

/-- `specC15X` from any state satisfying the weak invariant, for every history of the richer alphabet -/
theorem osRunX_sound [DecidableEq α] [DecidableEq ω] {S : SimIface σ α ω ι} {k : MKind} (hW : WF S k)
    (hk : k ≠ .dynamic) (hl : S.learners ≠ []) :
    ∀ (calls : List (OSIn α)) (st : OSState σ) (gh : OSGhost), OSInvX S k st gh →
      c15XLoop k S.n S.learning gh calls (osRunX S k st calls) = true := by
  intro calls
  induction calls with
  | nil => intro st gh _; simp [osRunX, c15XLoop]
  | cons c cs ih =>
    intro st gh hI
    cases c with
    | reset =>
      obtain ⟨h1, h2⟩ := osResetX_sound (α := α) hW hk hl st gh
      simp only [osRunX, c15XLoop, Bool.and_eq_true]
      exact ⟨h1, ih _ _ h2⟩
    | step acts =>
      obtain ⟨h1, h2⟩ := osStepX_sound hW hk hl st gh hI acts
      simp only [osRunX, c15XLoop, Bool.and_eq_true]
      exact ⟨h1, ih _ _ h2⟩
    | setCurrent a =>
      obtain ⟨h1, h2⟩ := osSetCurrent_sound (α := α) (ω := ω) (ι := ι) st gh hI a
      simp only [osRunX, c15XLoop, Bool.and_eq_true]
      exact ⟨h1, ih _ _ h2⟩

/-- **C15 (OpenSpiel, with the `current_player` setter)** for every simulation, both manager kinds and
every history of resets, steps (any action list) and setter calls (any agent, anywhere). -/
theorem C15_openspiel_with_setter [DecidableEq α] [DecidableEq ω] (S : SimIface σ α ω ι) (k : MKind)
    (hW : WF S k) (hk : k ≠ .dynamic) (hl : S.learners ≠ []) (m0 : MState σ) (calls : List (OSIn α)) :
    specC15X k S.n S.learning calls (osRunX S k { m := m0 } calls) = true :=
  osRunX_sound hW hk hl calls { m := m0 } {} ⟨rfl, rfl, fun h => by cases h⟩

/-- **never forwards an action for an already-done agent**, for every history of the richer alphabet:
whichever manager call `e` of the whole play-through is a step, none of the actions it was handed is
for an agent reported done since the latest manager reset before it -/
theorem osRunX_never_forwards_done [DecidableEq α] [DecidableEq ω] (S : SimIface σ α ω ι) (k : MKind)
    (hW : WF S k) (hk : k ≠ .dynamic) (hl : S.learners ≠ []) (m0 : MState σ) (calls : List (OSIn α))
    (pre post : List (Entry α ω ι)) (e : Entry α ω ι) (sent : List (Aid × α))
    (hsplit : mgrCallsOf (osRunX S k { m := m0 } calls) = pre ++ e :: post) (hop : e.op = .step sent) :
    ∀ p ∈ sent, p.1 ∉ (foldG {} pre).R :=
  noFwdDone_split
    (noFwdDone_of_loop calls _ {} (C15_openspiel_with_setter S k hW hk hl m0 calls)) hsplit hop

/-! ### Readings of `specC15X` -/

/-- what the never-forwards clause of `specC15X` means: in a play-through that satisfies the
specification, no manager step — of any adapter call, whatever the history of resets, steps and
`current_player = …` before it — carries an action for an agent the manager has reported done earlier
in the episode (`(foldG {} pre).R`: the agents output with `done = true` by the manager calls `pre`
made so far since the latest manager reset) -/
theorem c15x_never_forwards_done [DecidableEq α] [DecidableEq ω] {k : MKind} {n : Nat} {learning : Aid → Bool}
    {calls : List (OSIn α)} {tr : List (OSOut α ω ι)} (h : specC15X k n learning calls tr = true)
    {pre post : List (Entry α ω ι)} {e : Entry α ω ι} {sent : List (Aid × α)}
    (hsplit : mgrCallsOf tr = pre ++ e :: post) (hop : e.op = .step sent) :
    ∀ p ∈ sent, p.1 ∉ (foldG {} pre).R :=
  noFwdDone_split (noFwdDone_of_loop calls tr {} h) hsplit hop

/-- a turn-based step whose action is for an agent reported done (only possible after the caller named
it through the setter) forwards nothing, is MID, and names a current player who can still act -/
theorem c15x_fake_step [DecidableEq α] [DecidableEq ω] {n : Nat} {learning : Aid → Bool} {gh : OSGhost}
    {acts : List α} {c : OSCall α ω ι}
    (h : c15XItem .turnBased n learning gh (.step acts) (.ts c) = true) (hne : acts ≠ [])
    (hns : gh.shouldReset = false) (hd : gh.current ∈ gh.g.R) :
    ∃ ts, c.res = .ok ts ∧ c.mgrCalls = [] ∧ ts.stepType = .mid ∧
      ts.current < n ∧ learning ts.current = true ∧ ts.current ∉ gh.g.R := by
  have hfd : fakeDue .turnBased gh = true := by simp [fakeDue, hns, hd]
  have hco : callOK .turnBased ((List.range n).filter learning).length (some acts) = true := by
    cases acts with
    | nil => exact absurd rfl hne
    | cons a as => simp [callOK]
  simp only [c15XItem, hfd, hco, if_true, Bool.not_true, Bool.false_or, Bool.and_eq_true] at h
  have h2 := h.2
  cases hr : c.res with
  | error e => simp [c15Fake, hr] at h2
  | ok ts =>
    simp only [c15Fake, hr, Bool.and_eq_true, decide_eq_true_eq, isLearner,
      List.isEmpty_iff] at h2
    exact ⟨ts, rfl, h2.1.1.1.1.1.1, h2.1.1.2, h2.1.2.1, h2.1.2.2, h2.2⟩

/-- `specC15X` contains `specC15`: a play-through without setter calls that satisfies the richer
specification satisfies the original one -/
theorem specC15_of_specC15X [DecidableEq α] [DecidableEq ω] {k : MKind} {n : Nat} {learning : Aid → Bool}
    {calls : List (Option (List α))} {tr : List (OSCall α ω ι)}
    (h : specC15X k n learning (calls.map OSIn.ofPlain) (tr.map OSOut.ts) = true) :
    specC15 k n learning calls tr = true :=
  c15Loop_of_X calls tr {} (fun _ h => by cases h) h

/-- the setter accepts exactly the learning agents and refuses everything else with its assertion -/
theorem c15x_setter_accepts_learners [DecidableEq α] [DecidableEq ω] {k : MKind} {n : Nat}
    {learning : Aid → Bool} {gh : OSGhost} {a : Aid} {r : Except Err Unit}
    (h : c15XItem (α := α) (ω := ω) (ι := ι) k n learning gh (.setCurrent a) (.set r) = true) :
    (a < n ∧ learning a = true → r = .ok ()) ∧ (¬(a < n ∧ learning a = true) → r = .error .rejected) := by
  cases r with
  | ok u =>
    simp only [c15XItem, isLearner, Bool.and_eq_true, decide_eq_true_eq] at h
    exact ⟨fun _ => rfl, fun hn => absurd h hn⟩
  | error e =>
    simp only [c15XItem, isLearner, Bool.and_eq_true, Bool.not_eq_true', decide_eq_true_eq] at h
    refine ⟨fun hl => ?_, fun _ => by rw [h.2]⟩
    have := h.1
    simp [hl.1, hl.2] at this

/-- the judge is sound on the scripted family -/
theorem C15X_stub (sc : Script) (k : MKind) (hk : k ≠ .dynamic) (m0 : MState StubSt)
    (hl : ∃ a < sc.n, sc.learning.getD a false = true) (calls : List (OSIn Int)) :
    specC15X k sc.n (stubSim sc).learning calls (osRunX (stubSim sc) k { m := m0 } calls) = true := by
  have hW : WF (stubSim sc) k := stub_WF sc k (fun _ => hl) (fun h => absurd h hk)
  have hne : (stubSim sc).learners ≠ [] := by
    obtain ⟨a, ha, hla⟩ := hl
    intro he
    have : a ∈ (stubSim sc).learners := (mem_learners _ a).mpr ⟨ha, hla⟩
    rw [he] at this; cases this
  exact C15_openspiel_with_setter _ k hW hk hne m0 calls

/-- non-vacuity: turn-based play, `a1` finishes at its first move and is reported done; the caller then
names it through the setter (`p 1`), also tries a non-learning agent and an unknown id (both refused):
the step is a fake step (no manager call), the first learning agent `a0` is live and takes over, and
the play-through reaches LAST; the full `specC15X` holds -/
example :
    let sc : Script := { n := 4, learning := [true, true, true, false], doneAt := [9, 1, 9, 9], finishAt := 4, noms := [] }
    let calls : List (OSIn Int) :=
      [.step [1], .step [1], .step [1], .step [1], .setCurrent 3, .setCurrent 7, .setCurrent 1, .step [1],
       .step [1], .step [1], .step [1]]
    let tr := osRunX (stubSim sc) .turnBased { m := mgrInit {} false [] } calls
    (tr.map fun o => match o with | .ts c => c.mgrCalls.length | .set (.ok _) => 7 | .set (.error _) => 9)
      = [1, 1, 1, 1, 9, 9, 7, 0, 1, 1, 1] ∧
    (tr.any fun o => match o with
      | .ts c => (match c.res with | .ok ts => decide (ts.stepType = .last) | _ => false)
      | _ => false) = true ∧
    specC15X .turnBased 4 (stubSim sc).learning calls tr = true := by decide

/-- **finding C15-K1, repaired** (regression history): `a0` finishes at its first move.  Once it has been
reported done the caller names it through the setter.  Before the repair the fake step that answers
the action named `next(iter(obs))`, the first learning agent — `a0` again, who is done — and so did every
following call (no manager call any more, never LAST).  Now the fake step names `a1`, the first
learning agent that can still act, the play-through goes on with one manager call per step and reaches
LAST; `specC15X` holds. -/
def c15K1 : Script × List (OSIn Int) :=
  ({ n := 3, learning := [true, true, true], doneAt := [1, 9, 9], finishAt := 7, noms := [] },
   [.step [1], .step [1], .step [1], .step [1], .setCurrent 0, .step [1], .step [1], .step [1], .step [1],
    .step [1]])

example :
    let tr := osRunX (stubSim c15K1.1) .turnBased { m := mgrInit {} false [] } c15K1.2
    (tr.map fun o => match o with | .ts c => c.mgrCalls.length | _ => 7) = [1, 1, 1, 1, 7, 0, 1, 1, 1, 1] ∧
    (tr.map fun o => match o with
      | .ts c => (match c.res with | .ok ts => ts.current | _ => 9)
      | _ => 7) = [0, 1, 2, 1, 7, 1, 2, 1, 2, 1] ∧
    (tr.any fun o => match o with
      | .ts c => (match c.res with | .ok ts => decide (ts.stepType = .last) | _ => false)
      | _ => false) = true ∧
    specC15X .turnBased 3 (stubSim c15K1.1).learning c15K1.2 tr = true := by decide

end Abmarl
