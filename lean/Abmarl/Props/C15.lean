import Abmarl.Spec.Adapters
