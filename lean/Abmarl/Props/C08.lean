import Abmarl.Props.C08Base
import Abmarl.Props.C03Base
import Abmarl.Lemmas.VitalsDecl
import Abmarl.Props.C08Grid
/-!
# C08, grid-world state components: a reset restores every agent, whatever happened before

(The managers, the OpenSpiel adapter, `GymABS`: `Props/C08Base.lean`; the super-agent and
communication wrappers: the reset clauses of `C14_trace` and `C20`.)

`C08_grid_reset_fresh`: from **any** prior world — dirty grid, dead agents, spent ammunition,
turned agents, any number of earlier episodes cut anywhere — a successful reset through a placement
state, `HealthState`, `AmmoState` and `OrientationState` (in any order, any tape) leaves a world in
which every agent is alive, has its declared health / ammunition / orientation / position (or a
freshly drawn legal one), stands in the cell of its position, and the grid holds exactly the agents:
everything the property lists, and nothing in the statement refers to the prior world.
-/
namespace Abmarl
open World

/-- declared values are back -/
def HealthDeclC (w : World) : Prop :=
  ∀ a < w.n, ∀ h0, (w.cfgOf a).initHealth = some h0 → (w.stOf a).health = h0
def AmmoExactC (w : World) : Prop :=
  ∀ a < w.n, (w.cfgOf a).hasAmmo = true → (w.stOf a).ammo = max 0 (w.cfgOf a).initAmmo
def OrientDeclC (w : World) : Prop :=
  ∀ a < w.n, (w.cfgOf a).hasOrient = true → ∀ o, (w.cfgOf a).initOrient = some (o + 1) →
    (w.stOf a).orient = o + 1
def PosDeclC (w : World) : Prop :=
  ∀ a < w.n, ∀ q, (w.cfgOf a).initPos = some q → (w.stOf a).pos = q

/-- what one component's reset does to the "declared values" clause groups -/
theorem applyComp_decl (c : StateComp) (w : World) (t : Tape) (w' : World) (t' : Tape)
    (hwf : ∀ kind o, c = .position kind o → wfPlacement kind o w = true) (hcfg : CfgOK w)
    (hnc : c ≠ .healthClosed)
    (hlen : w.st.length = w.cfg.length) (h : applyComp c w t = .ok (w', t')) :
    ((∃ kind o, c = .position kind o) ∨ PosDeclC w → PosDeclC w') ∧
    (c = .health ∨ HealthDeclC w → HealthDeclC w') ∧
    (c = .ammo ∨ AmmoExactC w → AmmoExactC w') ∧
    (c = .orient ∨ OrientDeclC w → OrientDeclC w') := by
  obtain ⟨hS, _⟩ := applyComp_spec c w t w' t' hwf hcfg hnc hlen h
  obtain ⟨hn, hcf⟩ := clause_frame hS
  cases c with
  | healthClosed => exact absurd rfl hnc
  | position kind o =>
    have hspec := place_ok_spec kind o w t (hwf kind o rfl)
    simp only [applyComp, placementReset, PlaceOut.toExcept] at h
    cases herr : (resetX kind o w t).1.err with
    | some e => rw [herr] at h; cases h
    | none =>
      rw [herr] at h
      simp only [Except.ok.injEq, Prod.mk.injEq] at h
      have hfix := (spec_ok_parts hspec herr).2.1
      unfold specPlacement at hspec
      simp only [Bool.and_eq_true] at hspec
      obtain ⟨⟨⟨⟨_, _⟩, hvk⟩, _⟩, _⟩ := hspec
      rw [h.1] at hvk hfix
      have hv : ∀ a < w.n, w'.stOf a = { w.stOf a with pos := (w'.stOf a).pos } := by
        simp only [vitalsKept, List.all_eq_true, allAgents, List.mem_range, beq_iff_eq] at hvk
        exact hvk
      refine ⟨fun _ => ?_, ?_, ?_, ?_⟩
      · intro a ha q hq
        simp only [fixedOnInit, List.all_eq_true, allAgents, List.mem_range] at hfix
        have := hfix a ha
        rw [hq] at this
        simpa using this
      · rintro (hc | hH)
        · cases hc
        · intro a ha h0 hi; rw [hn] at ha; rw [hcf] at hi; rw [hv a ha]; exact hH a ha h0 hi
      · rintro (hc | hA)
        · cases hc
        · intro a ha hAm; rw [hn] at ha; rw [hcf] at hAm ⊢; rw [hv a ha]; exact hA a ha hAm
      · rintro (hc | hO)
        · cases hc
        · intro a ha hOr o hi; rw [hn] at ha; rw [hcf] at hOr hi; rw [hv a ha]; exact hO a ha hOr o hi
  | health =>
    simp only [applyComp, Except.ok.injEq] at h
    obtain ⟨hF, h2, h3, h4⟩ := healthResetFrom_spec (List.range w.n) w t List.nodup_range hcfg
    have hd := healthResetFrom_declared (List.range w.n) w t List.nodup_range hcfg
    have hw' : w' = (healthResetFrom false (List.range w.n) w t).1 := by
      have := congrArg Prod.fst h; exact this.symm
    rw [← hw'] at hF h2 h3 h4 hd
    refine ⟨?_, ?_, ?_, ?_⟩
    · rintro (⟨_, _, hc⟩ | hP)
      · cases hc
      · intro a ha q hq; rw [hn] at ha; rw [hcf] at hq; rw [hF.pos a]; exact hP a ha q hq
    · intro _ a ha h0 hi
      rw [hn] at ha; rw [hcf] at hi
      exact hd a (List.mem_range.mpr ha) (by rw [hlen]; exact ha) h0 hi
    · rintro (hc | hA)
      · cases hc
      · intro a ha hAm; rw [hn] at ha; rw [hcf] at hAm ⊢; rw [(h3 a).1]; exact hA a ha hAm
    · rintro (hc | hO)
      · cases hc
      · intro a ha hOr o hi; rw [hn] at ha; rw [hcf] at hOr hi; rw [(h3 a).2]; exact hO a ha hOr o hi
  | ammo =>
    simp only [applyComp, Except.ok.injEq, Prod.mk.injEq] at h
    obtain ⟨hF, h2, h3, h4, h5⟩ := ammoResetFrom_spec (List.range w.n) w List.nodup_range
    have hw' : w' = ammoResetFrom (List.range w.n) w := h.1.symm
    rw [← hw'] at hF h2 h3 h4 h5
    refine ⟨?_, ?_, ?_, ?_⟩
    · rintro (⟨_, _, hc⟩ | hP)
      · cases hc
      · intro a ha q hq; rw [hn] at ha; rw [hcf] at hq; rw [hF.pos a]; exact hP a ha q hq
    · rintro (hc | hH)
      · cases hc
      · intro a ha h0 hi; rw [hn] at ha; rw [hcf] at hi; rw [(h3 a).1]; exact hH a ha h0 hi
    · intro _ a ha hAm
      rw [hn] at ha; rw [hcf] at hAm ⊢
      exact h4 a (List.mem_range.mpr ha) (by rw [hlen]; exact ha) hAm
    · rintro (hc | hO)
      · cases hc
      · intro a ha hOr o hi; rw [hn] at ha; rw [hcf] at hOr hi; rw [(h3 a).2.2]; exact hO a ha hOr o hi
  | orient =>
    simp only [applyComp, Except.ok.injEq] at h
    obtain ⟨hF, h2, h3, h4⟩ := orientResetFrom_spec (List.range w.n) w t List.nodup_range hcfg
    have hd := orientResetFrom_declared (List.range w.n) w t List.nodup_range hcfg
    have hw' : w' = (orientResetFrom (List.range w.n) w t).1 := by
      have := congrArg Prod.fst h; exact this.symm
    rw [← hw'] at hF h2 h3 h4 hd
    refine ⟨?_, ?_, ?_, ?_⟩
    · rintro (⟨_, _, hc⟩ | hP)
      · cases hc
      · intro a ha q hq; rw [hn] at ha; rw [hcf] at hq; rw [hF.pos a]; exact hP a ha q hq
    · rintro (hc | hH)
      · cases hc
      · intro a ha h0 hi; rw [hn] at ha; rw [hcf] at hi; rw [(h3 a).1]; exact hH a ha h0 hi
    · rintro (hc | hA)
      · cases hc
      · intro a ha hAm; rw [hn] at ha; rw [hcf] at hAm ⊢; rw [(h3 a).2.2]; exact hA a ha hAm
    · intro _ a ha hOr o hi
      rw [hn] at ha; rw [hcf] at hOr hi
      exact hd a (List.mem_range.mpr ha) (by rw [hlen]; exact ha) hOr o hi

/-- the same for a list of components reset one after the other — **in any order** -/
theorem applyComps_decl (cs : List StateComp) :
    ∀ (w : World) (t : Tape) (w' : World) (t' : Tape),
      (∀ kind o, StateComp.position kind o ∈ cs → wfPlacement kind o w = true) → CfgOK w →
      StateComp.healthClosed ∉ cs →
      w.st.length = w.cfg.length → applyComps cs w t = .ok (w', t') →
      ((∃ kind o, StateComp.position kind o ∈ cs) ∨ PosDeclC w → PosDeclC w') ∧
      (StateComp.health ∈ cs ∨ HealthDeclC w → HealthDeclC w') ∧
      (StateComp.ammo ∈ cs ∨ AmmoExactC w → AmmoExactC w') ∧
      (StateComp.orient ∈ cs ∨ OrientDeclC w → OrientDeclC w') := by
  induction cs with
  | nil =>
    intro w t w' t' _ _ _ _ h
    simp only [applyComps, Except.ok.injEq, Prod.mk.injEq] at h
    rw [← h.1]
    refine ⟨?_, ?_, ?_, ?_⟩
    · rintro (⟨_, _, h⟩ | h); cases h; exact h
    · rintro (h | h); cases h; exact h
    · rintro (h | h); cases h; exact h
    · rintro (h | h); cases h; exact h
  | cons c cs ih =>
    intro w t w' t' hwf hcfg hnc hlen h
    have hnc1 : c ≠ .healthClosed := fun e => hnc (by rw [e]; exact List.mem_cons_self)
    have hnc2 : StateComp.healthClosed ∉ cs := fun hm => hnc (List.mem_cons_of_mem _ hm)
    simp only [applyComps] at h
    cases h1 : applyComp c w t with
    | error e => rw [h1] at h; cases h
    | ok r =>
      obtain ⟨w1, t1⟩ := r
      rw [h1] at h
      simp only at h
      have hwf1 : ∀ k o, c = .position k o → wfPlacement k o w = true :=
        fun k o hc => hwf k o (by rw [hc]; exact List.mem_cons_self)
      obtain ⟨hS1, _⟩ := applyComp_spec c w t w1 t1 hwf1 hcfg hnc1 hlen h1
      obtain ⟨hP1, hH1, hA1, hO1⟩ := applyComp_decl c w t w1 t1 hwf1 hcfg hnc1 hlen h1
      have hlen1 : w1.st.length = w1.cfg.length := by rw [hS1.len, hS1.cfg]; exact hlen
      obtain ⟨hP2, hH2, hA2, hO2⟩ := ih w1 t1 w' t'
        (fun k o hm => by rw [wfPlacement_of_sframe hS1]; exact hwf k o (List.mem_cons_of_mem _ hm))
        (cfgOK_of_sframe hS1 hcfg) hnc2 hlen1 h
      refine ⟨?_, ?_, ?_, ?_⟩
      · rintro (⟨k, o, hm⟩ | hp)
        · rcases List.mem_cons.mp hm with hm | hm
          · exact hP2 (Or.inr (hP1 (Or.inl ⟨k, o, hm.symm⟩)))
          · exact hP2 (Or.inl ⟨k, o, hm⟩)
        · exact hP2 (Or.inr (hP1 (Or.inr hp)))
      · rintro (hm | hp)
        · rcases List.mem_cons.mp hm with hm | hm
          · exact hH2 (Or.inr (hH1 (Or.inl hm.symm)))
          · exact hH2 (Or.inl hm)
        · exact hH2 (Or.inr (hH1 (Or.inr hp)))
      · rintro (hm | hp)
        · rcases List.mem_cons.mp hm with hm | hm
          · exact hA2 (Or.inr (hA1 (Or.inl hm.symm)))
          · exact hA2 (Or.inl hm)
        · exact hA2 (Or.inr (hA1 (Or.inr hp)))
      · rintro (hm | hp)
        · rcases List.mem_cons.mp hm with hm | hm
          · exact hO2 (Or.inr (hO1 (Or.inl hm.symm)))
          · exact hO2 (Or.inl hm)
        · exact hO2 (Or.inr (hO1 (Or.inr hp)))

/-- **C08, grid-world state components.**  Whatever the prior world `w` (any earlier episodes, cut
anywhere: moved, dead, disarmed, turned agents; a dirty grid), after a successful reset through a
placement state and the three vitals components, in any order and under any tape:

* the consistency invariant holds (`WInv`): the grid holds exactly the agents, each once, in the
  cell of its position, co-occupants may overlap;
* every agent is alive, with health in (0,1] — the declared one if one is declared;
* ammunition is the declared initial ammunition; orientation is one of the four directions — the
  declared one if one is declared; every agent with a declared initial position stands on it;
* every agent stands in a grid cell that stores it. -/
theorem C08_grid_reset_fresh (cs : List StateComp) (w : World) (t : Tape) (w' : World) (t' : Tape)
    (hpos : ∃ kind o, StateComp.position kind o ∈ cs) (hh : StateComp.health ∈ cs)
    (ha : StateComp.ammo ∈ cs) (ho : StateComp.orient ∈ cs) (hnc : StateComp.healthClosed ∉ cs)
    (hwf : ∀ kind o, StateComp.position kind o ∈ cs → wfPlacement kind o w = true) (hcfg : CfgOK w)
    (hn : NoAmmoC w) (h : applyComps cs w t = .ok (w', t')) :
    w'.WInv = true ∧ w'.n = w.n ∧
    (∀ a < w.n,
      (w'.stOf a).active = true ∧ 0 < (w'.stOf a).health ∧ (w'.stOf a).health ≤ 1 ∧
      (∀ h0, (w.cfgOf a).initHealth = some h0 → (w'.stOf a).health = h0) ∧
      ((w.cfgOf a).hasAmmo = true → (w'.stOf a).ammo = max 0 (w.cfgOf a).initAmmo) ∧
      ((w.cfgOf a).hasOrient = true → 1 ≤ (w'.stOf a).orient ∧ (w'.stOf a).orient ≤ 4 ∧
        ∀ o, (w.cfgOf a).initOrient = some (o + 1) → (w'.stOf a).orient = o + 1) ∧
      (∀ q, (w.cfgOf a).initPos = some q → (w'.stOf a).pos = q) ∧
      w'.inGrid (w'.stOf a).pos = true ∧ a ∈ w'.cell (w'.stOf a).pos) := by
  have hI := C03_reset_establishes cs w t w' t' hpos hh ha ho hnc hwf hcfg hn h
  obtain ⟨k0, o0, hm0⟩ := hpos
  have hlen : w.st.length = w.cfg.length := by
    have := hwf k0 o0 hm0
    simp only [wfPlacement, Bool.and_eq_true, beq_iff_eq] at this
    exact this.1.1.1.2
  obtain ⟨hS, _, _, hH, _, hO⟩ := applyComps_spec cs w t w' t' hwf hcfg hnc hlen h
  obtain ⟨hPd, hHd, hAd, hOd⟩ := applyComps_decl cs w t w' t' hwf hcfg hnc hlen h
  obtain ⟨hn', hcf⟩ := clause_frame hS
  refine ⟨hI, hn', ?_⟩
  intro a haw
  have ha' : a < w'.n := by rw [hn']; exact haw
  obtain ⟨h0, h1, hact⟩ := hH (Or.inl hh) a ha'
  have hpl := placed_of_WInv hI ha' hact
  refine ⟨hact, h0, h1, ?_, ?_, ?_, ?_, hpl.inG, hpl.mem⟩
  · intro x hx; exact hHd (Or.inl hh) a ha' x (by rw [hcf]; exact hx)
  · intro hA; rw [← hcf a]; exact hAd (Or.inl ha) a ha' (by rw [hcf]; exact hA)
  · intro hOr
    have := hO (Or.inl ho) a ha' (by rw [hcf]; exact hOr)
    exact ⟨this.1, this.2, fun o hi => hOd (Or.inl ho) a ha' (by rw [hcf]; exact hOr) o (by rw [hcf]; exact hi)⟩
  · intro q hq; exact hPd (Or.inl ⟨k0, o0, hm0⟩) a ha' q (by rw [hcf]; exact hq)

end Abmarl
