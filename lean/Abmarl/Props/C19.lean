import Abmarl.Lemmas.ConfigOverlap
import Abmarl.Lemmas.ConfigAttrSpec
/-!
# C19 — Invalid configuration is rejected and the overlap relation is symmetric

Property theorems only (helper lemmas live in `Lemmas/Config*.lean`).  The model is
`Model/Config.lean` (every validating setter of the agent classes, `Grid` and the components,
the `overlapping` setter with `query`/`place`, `abmarl.tools.Box.contains`), the decidable
specifications are `specAccept`, `specOverlapSym`, `specBox` in `Spec/Config.lean`.

1. **Overlap.** `overlap_closure_symmetric` (for *every* table, int- or set-valued, one-sided or
   not), `close_superset`, `close_minimal`, `query_symmetric`, `place_symmetric`, `close_is_dict`,
   `avail_eq_lookup`, `model_meets_specOverlapSym`, reading `specOverlapSym_reading`.
2. **Rejection.** One `accepts_*_iff` per validated attribute: acceptance by the model's setter ⇔ a
   first-order description of the admissible values, for **all** Python values of the universe
   `PyVal`; `rejected_at_finalize_only` (which attributes are checked late);
   `model_meets_specAccept` (the model's outcome satisfies the documented rule on every modelled
   input); `null_point_outside_space_rejected` (former finding K19a, repaired);
   readings `specAccept_reading`, `doc_*`.
3. **Box.** `box_contains_iff` characterises the model's `Box.contains` on all of `PyVal`, without
   exception; `box_int_rejects_fractional` (former finding K2, repaired in 9e72b84) and a decided
   example that the former witnesses (`[1.9] in Box(0, 1, (1,), int)` …) are rejected;
   `model_meets_specBox`; readings.
-/
namespace Abmarl
namespace Cfg

/-! ## 1. The overlap relation -/

/-- **C19, symmetry.** Whatever table is supplied, in the table the setter stores a cell holding
`b` is available to `a` exactly when a cell holding `a` is available to `b`. -/
theorem overlap_closure_symmetric (table : Table) (a b : Int) :
    avail (close table) a b = true ↔ avail (close table) b a = true := by
  rw [avail_close, avail_close]; exact Or.comm

/-- the same for tables with int-valued entries (normalised to singleton sets first) -/
theorem overlap_closure_symmetric_raw (raw : RawTable) (a b : Int) :
    avail (closeRaw raw) a b = true ↔ avail (closeRaw raw) b a = true :=
  overlap_closure_symmetric (normalise raw) a b

/-- nothing the user wrote is lost -/
theorem close_superset (table : Table) (a b : Int) (h : avail table a b = true) :
    avail (close table) a b = true :=
  (avail_close table a b).mpr (Or.inl h)

/-- and nothing but mirror images is added -/
theorem close_minimal (table : Table) (a b : Int) (h : avail (close table) a b = true) :
    avail table a b = true ∨ avail table b a = true :=
  (avail_close table a b).mp h

/-- an int-valued entry means the singleton set -/
theorem normalise_int (k i : Int) (rest : RawTable) :
    normalise ((k, .int i) :: rest) = (k, [i]) :: normalise rest := rfl

theorem query_single (t : Table) (a b : Int) : query t a [b] = avail t a b := by
  simp [query]

/-- **C19, symmetry of `Grid.query`** on single-occupant cells -/
theorem query_symmetric (table : Table) (a b : Int) :
    query (close table) a [b] = query (close table) b [a] := by
  rw [query_single, query_single, Bool.eq_iff_iff]
  exact overlap_closure_symmetric table a b

/-- an empty cell is available to everybody -/
theorem query_empty (t : Table) (a : Int) : query t a [] = true := rfl

/-- `Grid.place` succeeds for `a` onto `b` exactly when it succeeds for `b` onto `a` -/
theorem place_symmetric (table : Table) (a b : Int) :
    (place (close table) a [b]).isSome = (place (close table) b [a]).isSome := by
  have := query_symmetric table a b
  unfold place
  rw [this]
  cases query (close table) b [a] <;> rfl

/-- the stored table of a dict (distinct keys) is a dict again … -/
theorem close_is_dict (table : Table) (h : (keysOf table).Nodup) : (keysOf (close table)).Nodup :=
  nodup_closeLoop table table h

/-- … on which `avail` is literally `b in self._overlapping[a]`, a `KeyError` giving `False` -/
theorem avail_eq_lookup (table : Table) (h : (keysOf table).Nodup) (a b : Int) :
    avail (close table) a b =
      (match (close table).lookup a with
       | some s => s.contains b
       | none => false) :=
  avail_eq_lookup_aux (close table) a b (close_is_dict table h)

theorem mem_availMatrix (t : Table) (univ : List Int) (e : Int × Int × Bool)
    (h : e ∈ availMatrix t univ) : e.2.2 = avail t e.1 e.2.1 := by
  simp only [availMatrix, List.mem_flatMap, List.mem_map] at h
  obtain ⟨a, _, b, _, rfl⟩ := h
  exact query_single t a b

/-- **the model's stored table and availability matrix satisfy the overlap specification** -/
theorem model_meets_specOverlapSym (raw : RawTable) (univ : List Int) :
    specOverlapSym raw (closeRaw raw) (availMatrix (closeRaw raw) univ) = true := by
  unfold specOverlapSym
  simp only [Bool.and_eq_true, List.all_eq_true, Bool.or_eq_true, Bool.not_eq_true', beq_iff_eq,
    Bool.and_eq_false_imp]
  have hsup : ∀ kv ∈ normalise raw, ∀ o ∈ kv.2, avail (closeRaw raw) kv.1 o = true := by
    intro kv hkv o ho
    apply close_superset
    rw [avail_iff]
    exact ⟨kv.2, hkv, ho⟩
  refine ⟨⟨⟨?_, hsup⟩, ?_⟩, ?_⟩
  · intro e he e' he'
    by_cases hc : (e'.1 == e.2.1 && e'.2.1 == e.1) = true
    · right
      simp only [Bool.and_eq_true, beq_iff_eq] at hc
      rw [mem_availMatrix _ _ e he, mem_availMatrix _ _ e' he', hc.1, hc.2, Bool.eq_iff_iff]
      exact overlap_closure_symmetric_raw raw _ _
    · left; simpa using hc
  · intro kv hkv o ho e he
    by_cases hc : (e.1 == kv.1 && e.2.1 == o) = true
    · right
      simp only [Bool.and_eq_true, beq_iff_eq] at hc
      rw [mem_availMatrix _ _ e he, hc.1, hc.2]
      exact hsup kv hkv o ho
    · left; simpa using hc
  · intro kv hkv o ho
    apply (overlap_closure_symmetric_raw raw o kv.1).mpr
    rw [avail_iff]
    exact ⟨kv.2, hkv, ho⟩

/-- **what `specOverlapSym` says**: observed availability is symmetric, every pair the user wrote
is in the stored table and is honoured by the behaviour, and the stored table is symmetric -/
theorem specOverlapSym_reading (raw : RawTable) (closed : Table) (mat : List (Int × Int × Bool))
    (h : specOverlapSym raw closed mat = true) :
    (∀ a b r r', (a, b, r) ∈ mat → (b, a, r') ∈ mat → r' = r) ∧
    (∀ k s o, (k, s) ∈ normalise raw → o ∈ s → avail closed k o = true) ∧
    (∀ k s o r, (k, s) ∈ normalise raw → o ∈ s → (k, o, r) ∈ mat → r = true) ∧
    (∀ k s o, (k, s) ∈ closed → o ∈ s → avail closed o k = true) := by
  unfold specOverlapSym at h
  simp only [Bool.and_eq_true, List.all_eq_true] at h
  obtain ⟨⟨⟨h1, h2⟩, h3⟩, h4⟩ := h
  refine ⟨?_, ?_, ?_, ?_⟩
  · intro a b r r' he he'
    have := h1 _ he _ he'
    simpa using this
  · intro k s o hk ho
    exact h2 _ hk o (by simpa using ho)
  · intro k s o r hk ho he
    have := h3 _ hk o (by simpa using ho) _ he
    simpa using this
  · intro k s o hk ho
    exact h4 _ hk o (by simpa using ho)

/-! ## 2. Rejection of malformed configuration -/

section accepts
variable (c : Ctx) (v : PyVal)

/-- `PrincipleAgent.id`: strings only -/
theorem accepts_id_iff : accepts .id c v = true ↔ ∃ s, v = .str s := id_accepts_iff v
/-- `seed`: `None` or a Python `int` (not `True`, not a numpy integer) -/
theorem accepts_seed_iff : accepts .seed c v = true ↔ (v = .none ∨ ∃ i, v = .int i) := seed_accepts_iff v
/-- `active`: a `bool` -/
theorem accepts_active_iff : accepts .active c v = true ↔ ∃ b, v = .bool b := flag_accepts_iff v
/-- `blocking`, `stacked_attacks`, `no_overlap_at_reset`, `randomize_placement_order`,
`cluster_barriers`, `scatter_free_agents`: a `bool` -/
theorem accepts_flag_iff : accepts .flag c v = true ↔ ∃ b, v = .bool b := flag_accepts_iff v
/-- `sim_ends_if_one_done`: `None` or a `bool` -/
theorem accepts_optFlag_iff : accepts .optFlag c v = true ↔ (v = .none ∨ ∃ b, v = .bool b) :=
  optFlag_accepts_iff v
/-- `encoding`: a Python `int` other than the reserved −2, −1, 0 -/
theorem accepts_encoding_iff :
    accepts .encoding c v = true ↔ ∃ i, v = .int i ∧ i ≠ -2 ∧ i ≠ -1 ∧ i ≠ 0 := encoding_accepts_iff v
/-- `initial_position`: `None` or an int64/float64 array of shape `(2,)` -/
theorem accepts_initialPosition_iff :
    accepts .initialPosition c v = true ↔
      (v = .none ∨ ∃ dt xs, v = .ndarray dt [2] xs ∧ (dt = .i64 ∨ dt = .f64)) :=
  initialPosition_accepts_iff v
/-- `render_shape`: one of the 21 marker strings -/
theorem accepts_renderShape_iff : accepts .renderShape c v = true ↔ ∃ s, v = .str s ∧ s ∈ renderShapes :=
  renderShape_accepts_iff v
/-- `render_color` is not validated -/
theorem accepts_renderColor : accepts .renderColor c v = true := rfl
/-- `render_size`: a positive Python `int` -/
theorem accepts_renderSize_iff : accepts .renderSize c v = true ↔ ∃ i, v = .int i ∧ 0 < i :=
  renderSize_accepts_iff v
/-- `health` (setter): any Python `int` or `float`; the stored value is clamped (`clampHealth_bounds`) -/
theorem accepts_health_iff : accepts .health c v = true ↔ ((∃ i, v = .int i) ∨ ∃ f, v = .float f) :=
  health_accepts_iff v
/-- `initial_health`: `None`, or a Python `int`/`float` with `0 < h ≤ 1` (`nan` rejected) -/
theorem accepts_initialHealth_iff :
    accepts .initialHealth c v = true ↔
      (v = .none ∨ (∃ i, v = .int i ∧ 0 < (i : Rat) ∧ (i : Rat) ≤ 1) ∨
        ∃ q, v = .float (.fin q) ∧ 0 < q ∧ q ≤ 1) := initialHealth_accepts_iff v
/-- `view_range`, `move_range`, `attack_range`: the string `"FULL"` or a non-negative Python `int` -/
theorem accepts_range_iff : accepts .range c v = true ↔ (v = .str "FULL" ∨ ∃ i, v = .int i ∧ 0 ≤ i) :=
  range_accepts_iff v
/-- `attack_strength`, `attack_accuracy`: a Python `int`/`float` in `[0, 1]` (`nan` rejected) -/
theorem accepts_unit_iff :
    accepts .unit c v = true ↔
      ((∃ i, v = .int i ∧ 0 ≤ (i : Rat) ∧ (i : Rat) ≤ 1) ∨ ∃ q, v = .float (.fin q) ∧ 0 ≤ q ∧ q ≤ 1) :=
  unit_accepts_iff v
/-- `simultaneous_attacks`: a non-negative Python `int` -/
theorem accepts_simAttacks_iff : accepts .simAttacks c v = true ↔ ∃ i, v = .int i ∧ 0 ≤ i :=
  simAttacks_accepts_iff v
/-- `initial_ammo`: any Python `int` (no lower bound; `None` is rejected) -/
theorem accepts_initialAmmo_iff : accepts .initialAmmo c v = true ↔ ∃ i, v = .int i := ammo_accepts_iff v
/-- `ammo` (setter): any Python `int` -/
theorem accepts_ammo_iff : accepts .ammo c v = true ↔ ∃ i, v = .int i := ammo_accepts_iff v
/-- `orientation`: anything that *equals* 1, 2, 3 or 4 (`value in range(1, 5)`: also `True`, `2.0`,
`np.int64(3)`, `np.array([2])`) -/
theorem accepts_orientation_iff :
    accepts .orientation c v = true ↔ ∃ i, EqualsInt v i ∧ 1 ≤ i ∧ i ≤ 4 := orientation_accepts_iff v
/-- `initial_orientation`: `None` or as `orientation` -/
theorem accepts_initialOrientation_iff :
    accepts .initialOrientation c v = true ↔ (v = .none ∨ ∃ i, EqualsInt v i ∧ 1 ≤ i ∧ i ≤ 4) :=
  initialOrientation_accepts_iff v
/-- `AgentBasedSimulation.agents`: a dict whose values are agents and whose keys are their ids -/
theorem accepts_agentsSim_iff :
    accepts .agentsSim c v = true ↔
      ∃ items, v = .dict items ∧ ∀ kv ∈ items, ∃ gw id, kv.2 = .agent gw id ∧ kv.1 = .str id ∧
        (false = true → gw = true) := agents_accepts_iff false v
/-- `GridWorldBaseComponent.agents`: the same, and every agent is a `GridWorldAgent` -/
theorem accepts_agentsComp_iff :
    accepts .agentsComp c v = true ↔
      ∃ items, v = .dict items ∧ ∀ kv ∈ items, ∃ gw id, kv.2 = .agent gw id ∧ kv.1 = .str id ∧
        (true = true → gw = true) := agents_accepts_iff true v
/-- `attack_mapping`: a dict; every key equals an encoding of the simulation; every value is such an
`int` or a set of values equal to such encodings -/
theorem accepts_attackMapping_iff :
    accepts .attackMapping c v = true ↔
      ∃ items, v = .dict items ∧ ∀ kv ∈ items, InSim c.encs kv.1 ∧ TargetsOk c.encs kv.2 :=
  attackMapping_accepts_iff c.encs v
/-- `TargetEncodingInactiveDone.target_mapping`: as above, and no encoding targets itself -/
theorem accepts_targetEncMapping_iff :
    accepts .targetEncMapping c v = true ↔
      ∃ items, v = .dict items ∧ ∀ kv ∈ items, InSim c.encs kv.1 ∧ EncTargetsOk c.encs kv.1 kv.2 :=
  targetEncMapping_accepts_iff c.encs v
/-- `TargetAgentOverlapDone` / `TargetAgentInactiveDone.target_mapping`: ids of agents on both sides -/
theorem accepts_targetIdMapping_iff :
    accepts .targetIdMapping c v = true ↔
      ∃ items, v = .dict items ∧ ∀ kv ∈ items,
        (∃ a, kv.1 = .str a ∧ a ∈ c.ids) ∧ (∃ t, kv.2 = .str t ∧ t ∈ c.ids) :=
  targetIdMapping_accepts_iff c.ids v
/-- `barrier_encodings`, `free_encodings`: `None`, an encoding of the simulation, or a set of such -/
theorem accepts_encSet_iff : accepts .encSet c v = true ↔ (v = .none ∨ TargetsOk c.encs v) :=
  encSet_accepts_iff c.encs v
/-- `Grid(rows, cols)`: positive Python `int`s -/
theorem accepts_gridDim_iff : accepts .gridDim c v = true ↔ ∃ i, v = .int i ∧ 0 < i := gridDim_accepts_iff v
/-- `Grid(overlapping=…)`: `None` or a dict with `int` keys and `int` or set-of-`int` values -/
theorem accepts_overlapping_iff :
    accepts .overlapping c v = true ↔
      (v = .none ∨ ∃ items, v = .dict items ∧ ∀ kv ∈ items,
        (∃ k, kv.1 = .int k) ∧
        ((∃ i, kv.2 = .int i) ∨ ∃ elems, kv.2 = .set elems ∧ ∀ e ∈ elems, ∃ j, e = .int j)) :=
  overlapping_accepts_iff v
/-- null points are never rejected when supplied … -/
theorem accepts_nullPoint : accepts .nullPoint c v = true := rfl
/-- … `finalize` accepts them iff none was given (`None`, stored as the empty dict) or the point is
a member of the space; falsy points are checked like any other (repair fc3584a of finding K19a) -/
theorem accepts_nullPoint_finalize_iff :
    outcome .nullPoint c v = .accepted ↔
      (v = .none ∨ v = .dict [] ∨ spaceContains c.space v = .yes) :=
  nullPoint_accepted_iff c.space v

end accepts

/-- *when* a rejection happens: only null points (at `finalize`) and the barrier/free cover (at
`reset`) are rejected late; everything else is rejected the moment it is supplied -/
theorem rejected_at_finalize_only (a : Attr) (c : Ctx) (v : PyVal) (h : outcome a c v = .rejFinal) :
    a = .nullPoint ∨ a = .barrierFree := by
  cases a <;> first
    | exact Or.inl rfl
    | exact Or.inr rfl
    | (exfalso; simp only [outcome] at h; split at h <;> cases h)

/-- for the attributes checked when supplied the outcome is decided by `accepts` -/
theorem outcome_eq_assign (a : Attr) (c : Ctx) (v : PyVal) (h1 : a ≠ .nullPoint) (h2 : a ≠ .barrierFree) :
    outcome a c v = if accepts a c v then .accepted else .rejAssign := by
  cases a <;> first
    | rfl
    | exact absurd rfl h1
    | exact absurd rfl h2

/-- **C19, rejection clause, for the model**: for every attribute, context and Python value the
model's outcome satisfies `specAccept`, on every modelled input (both findings that used to be
excepted, K19a and K2, are repaired). -/
theorem model_meets_specAccept (a : Attr) (c : Ctx) (v : PyVal) (hm : outcome a c v ≠ .unmodelled) :
    specAccept a c v (outcome a c v) = true :=
  model_meets_specAccept_aux a c v hm

/-- **the former finding K19a cannot recur in the model**: any null point that was given and is not
a member of the space — falsy or not — is rejected at finalize (or the input is unmodelled) -/
theorem null_point_outside_space_rejected (c : Ctx) (v : PyVal)
    (hg : v ≠ .none ∧ v ≠ .dict []) (hn : spaceContains c.space v ≠ .yes) :
    outcome .nullPoint c v = .rejFinal ∨ outcome .nullPoint c v = .unmodelled := by
  have hacc : outcome .nullPoint c v ≠ .accepted := by
    intro h
    rcases (nullPoint_accepted_iff c.space v).mp h with h | h | h
    · exact hg.1 h
    · exact hg.2 h
    · exact hn h
  have hra := nullPoint_never_rejAssign c.space v
  show nullOutcome c.space v = .rejFinal ∨ nullOutcome c.space v = .unmodelled
  cases ho : nullOutcome c.space v with
  | accepted => exact absurd ho hacc
  | rejAssign => exact absurd ho hra
  | rejFinal => exact Or.inl rfl
  | unmodelled => exact Or.inr rfl

/-- **what `specAccept` says**: a value the documented rule calls malformed is rejected (when
supplied or at finalize/reset), a clearly well-formed one is accepted -/
theorem specAccept_reading (a : Attr) (c : Ctx) (v : PyVal) (out : Outcome)
    (h : specAccept a c v out = true) :
    (docAttr a c v = .malformed → out = .rejAssign ∨ out = .rejFinal) ∧
    (docAttr a c v = .valid → out = .accepted) := by
  unfold specAccept at h
  constructor
  · intro hd; rw [hd] at h; simpa using h
  · intro hd; rw [hd] at h; simpa using h

/-! ### the documented rule says what C19 lists (readings of `docAttr`) -/

/-- non-string ids are malformed -/
theorem doc_nonstring_id (c : Ctx) (v : PyVal) (h : ∀ s, v ≠ .str s) : docAttr .id c v = .malformed := by
  cases v <;> first | rfl | exact absurd rfl (h _)

/-- an agent dictionary with a key that differs from the agent's id is malformed -/
theorem doc_key_differs_from_id (c : Ctx) (k id : String) (gw : Bool) (rest : List (PyVal × PyVal))
    (h : k ≠ id) : docAttr .agentsSim c (.dict ((.str k, .agent gw id) :: rest)) = .malformed := by
  simp [docAttr, docAgents, docAgentEntry, h]

/-- reserved encodings are malformed -/
theorem doc_reserved_encoding (c : Ctx) :
    docAttr .encoding c (.int 0) = .malformed ∧ docAttr .encoding c (.int (-1)) = .malformed ∧
    docAttr .encoding c (.int (-2)) = .malformed := by
  refine ⟨?_, ?_, ?_⟩ <;>
    simp [docAttr, docEncoding, docNum, numView, wholeWhere, wholeOf]

/-- non-integer encodings are malformed: strings, `None`, containers, fractional floats -/
theorem doc_noninteger_encoding (c : Ctx) (v : PyVal) (h : intView v = none) :
    docAttr .encoding c v = .malformed := by
  simp only [docAttr, docEncoding]
  rw [docNum_malformed_iff]
  intro x hx
  simp only [intView, hx] at h
  simp [wholeWhere, h]

/-- out-of-range strengths and accuracies are malformed -/
theorem doc_unit_out_of_range (c : Ctx) (q : Rat) (h : ¬ (0 ≤ q ∧ q ≤ 1)) :
    docAttr .unit c (.float (.fin q)) = .malformed := by
  simp only [docAttr]
  rw [docNum_malformed_iff]
  intro x hx
  simp only [numView, Option.some.injEq] at hx
  subst hx
  simpa [unitOk, finWhere] using h

/-- negative ranges are malformed -/
theorem doc_negative_range (c : Ctx) (i : Int) (h : i < 0) : docAttr .range c (.int i) = .malformed := by
  simp only [docAttr, docRange]
  rw [docNum_malformed_iff]
  intro x hx
  simp only [numView, Option.some.injEq] at hx
  subst hx
  rw [wholeWhere_int]
  simpa using h

/-- an initial health outside `(0, 1]` is malformed -/
theorem doc_health_out_of_range (c : Ctx) (q : Rat) (h : ¬ (0 < q ∧ q ≤ 1)) :
    docAttr .initialHealth c (.float (.fin q)) = .malformed := by
  simp only [docAttr, docOpt]
  rw [docNum_malformed_iff]
  intro x hx
  simp only [numView, Option.some.injEq] at hx
  subst hx
  simpa [finWhere] using h

/-- orientations other than 1..4 are malformed, whatever numeric type carries them -/
theorem doc_orientation_out_of_range (c : Ctx) (v : PyVal) (i : Int) (hv : intView v = some i)
    (h : ¬ (1 ≤ i ∧ i ≤ 4)) : docAttr .orientation c v = .malformed := by
  simp only [docAttr]
  rw [docNum_malformed_iff]
  intro x hx
  simp only [intView, hx] at hv
  simpa [wholeWhere, hv] using h

/-- a null point outside a `Discrete(n)` space is malformed -/
theorem doc_null_outside_discrete (c : Ctx) (n : Nat) (i : Int) (hc : c.space = .discrete n)
    (h : ¬ (0 ≤ i ∧ i < n)) : docAttr .nullPoint c (.int i) = .malformed := by
  simp only [docAttr, docNullPoint, docInSpace, hc]
  rw [docNum_malformed_iff]
  intro x hx
  simp only [numView, Option.some.injEq] at hx
  subst hx
  rw [wholeWhere_int]
  simpa using h

/-- an attack mapping whose key is an encoding absent from the simulation is malformed -/
theorem doc_mapping_absent_key (c : Ctx) (i : Int) (val : PyVal) (rest : List (PyVal × PyVal))
    (h : i ∉ c.encs) : docAttr .attackMapping c (.dict ((.int i, val) :: rest)) = .malformed := by
  simp [docAttr, docAttackMapping, docAll, docAttackEntry, docEncKey, h, Doc.and]

/-- … and so is one whose value mentions an absent encoding -/
theorem doc_mapping_absent_target (c : Ctx) (k : PyVal) (i : Int) (rest : List (PyVal × PyVal))
    (h : i ∉ c.encs) : docAttr .attackMapping c (.dict ((k, .int i) :: rest)) = .malformed := by
  have : docAttackEntry c.encs (k, .int i) = .malformed := by
    simp only [docAttackEntry, docEncTargets, and_malformed_iff]
    right; simp [h]
  simp [docAttr, docAttackMapping, docAll, this, Doc.and]

/-! ## 3. `abmarl.tools.Box.contains` -/

/-- **`Box.contains` characterised on all Python values, without exception**:
membership is exactly the declarative `DocMember` (scalars as one-element vectors, arrays of safely
castable dtype, rectangular nestings of numbers — all of the box's shape and within its bounds;
for an integer box every float leaf must be whole). -/
theorem box_contains_iff (b : BoxSp) (v : PyVal) : boxContains b v = .yes ↔ DocMember b v :=
  boxContains_yes_iff b v

/-- **former finding K2 cannot recur in the model** (repaired in 9e72b84): an integer box accepts
nothing that holds a finite non-integral float, however it is wrapped (list, tuple, nesting, numpy
scalar, Python scalar) — there is no acceptance "after truncation" -/
theorem box_int_rejects_fractional (b : BoxSp) (v : PyVal) (hI : b.isInt = true)
    (h : ∃ l ∈ leaves v, fracFloatLeaf l = true) : boxContains b v ≠ .yes := by
  intro hy
  obtain ⟨l, hl, hfr⟩ := h
  rcases (box_contains_iff b v).mp hy with ⟨i, rfl, _⟩ | ⟨f, rfl, hf, _⟩ | ⟨dt, sh, xs, rfl, _⟩ | ⟨_, _, hall⟩
  · simp only [leaves, List.mem_singleton] at hl
    subst hl; simp [fracFloatLeaf] at hfr
  · rw [hI] at hf; cases hf
  · simp only [leaves, List.mem_singleton] at hl
    subst hl; simp [fracFloatLeaf] at hfr
  · obtain ⟨x, hx, _⟩ := hall l hl
    rw [hI, frac_no_den l hfr] at hx
    cases hx

/-- the double nearest to 1.9, exactly -/
def q19 : Rat := ⟨4278419646001971, 2251799813685248, by decide, by decide⟩
/-- −0.5 -/
def qmh : Rat := ⟨-1, 2, by decide, by decide⟩

/-- **the former K2 witnesses are rejected now**: `[1.9]`, `[-0.5]`, `(1.9,)`, `[[1.9]]`-style
nestings and `np.float64(1.9)` are no members of `Box(0, 1, …, int)` (the judge agrees: certain
non-members, `specBox` holds for the model's answer); `[1.0]`, `[True]`, `[1]`, `np.float64(1.0)`
still are members; the float box is unchanged (`[0.5]` stays a member). -/
example :
    boxContains ⟨true, [1], 0, 1⟩ (.list [.float (.fin q19)]) = .no ∧
    boxContains ⟨true, [1], 0, 1⟩ (.list [.float (.fin qmh)]) = .no ∧
    boxContains ⟨true, [1], 0, 1⟩ (.tuple [.float (.fin q19)]) = .no ∧
    boxContains ⟨true, [1], 0, 1⟩ (.list [.npFloat (.fin q19)]) = .no ∧
    boxContains ⟨true, [1, 1], 0, 1⟩ (.list [.list [.float (.fin q19)]]) = .no ∧
    boxContains ⟨true, [], 0, 1⟩ (.npFloat (.fin q19)) = .no ∧
    mustRejectBox ⟨true, [1], 0, 1⟩ (.list [.float (.fin q19)]) = true ∧
    specBox ⟨true, [1], 0, 1⟩ (.list [.float (.fin q19)]) (boxContains ⟨true, [1], 0, 1⟩ (.list [.float (.fin q19)])) = true ∧
    specBox ⟨true, [1], 0, 1⟩ (.list [.float (.fin q19)]) .yes = false ∧
    boxContains ⟨true, [1], 0, 1⟩ (.list [.float (.fin 1)]) = .yes ∧
    boxContains ⟨true, [1], 0, 1⟩ (.list [.bool true]) = .yes ∧
    boxContains ⟨true, [1], 0, 1⟩ (.list [.int 1]) = .yes ∧
    boxContains ⟨true, [], 0, 1⟩ (.npFloat (.fin 1)) = .yes ∧
    boxContains ⟨false, [1], 0, 1⟩ (.list [.float (.fin ⟨1, 2, by decide, by decide⟩)]) = .yes := by
  decide

/-- **the model's `Box.contains` satisfies the Box clause of C19**, for every box and every value -/
theorem model_meets_specBox (b : BoxSp) (v : PyVal) : specBox b v (boxContains b v) = true :=
  model_meets_specBox_aux b v

/-- the judge's two classes are sound for the declarative rule, and disjoint -/
theorem judge_classes_sound (b : BoxSp) (v : PyVal) :
    (mustAcceptBox b v = true → DocMember b v) ∧ (mustRejectBox b v = true → ¬ DocMember b v) ∧
    (mustAcceptBox b v = true → mustRejectBox b v = false) := by
  refine ⟨mustAccept_docMember b v, mustReject_not_docMember b v, ?_⟩
  intro ha
  cases hr : mustRejectBox b v with
  | false => rfl
  | true => exact absurd (mustAccept_docMember b v ha) (mustReject_not_docMember b v hr)

/-- **what `specBox` says**: certain members are accepted, certain non-members are not -/
theorem specBox_reading (b : BoxSp) (v : PyVal) (out : BoxOut) (h : specBox b v out = true) :
    (mustAcceptBox b v = true → out = .yes) ∧ (mustRejectBox b v = true → out ≠ .yes) := by
  unfold specBox docBox at h
  constructor
  · intro ha; rw [if_pos ha] at h; simpa using h
  · intro hr
    have ha : mustAcceptBox b v = false := by
      cases ha : mustAcceptBox b v with
      | false => rfl
      | true => have := (judge_classes_sound b v).2.2 ha; rw [hr] at this; cases this
    rw [ha] at h
    simp only [Bool.false_eq_true, if_false, if_pos hr] at h
    simpa using h

/-- in-bounds Python ints in a matching list are certain members; an out-of-bounds element makes
the list a certain non-member (two instances of the documented rule, decided) -/
example : mustAcceptBox ⟨true, [2], -2, 5⟩ (.list [.int 5, .int (-2)]) = true ∧
    mustRejectBox ⟨true, [2], -2, 5⟩ (.list [.int 6, .int 0]) = true ∧
    mustRejectBox ⟨false, [2], 0, 1⟩ (.list [.int 0]) = true := by decide

/-! ## Non-vacuity: concrete inputs exercising every clause -/

/-- a one-sided, partly int-valued table: `{1: 2, 3: {1, 3}}` -/
def exRaw : RawTable := [(1, .int 2), (3, .set [1, 3])]

example : closeRaw exRaw = [(1, [2, 3]), (3, [1, 3]), (2, [1])] := by decide
example : avail (normalise exRaw) 2 1 = false ∧ avail (closeRaw exRaw) 2 1 = true ∧
    avail (closeRaw exRaw) 1 3 = true ∧ avail (closeRaw exRaw) 2 3 = false ∧
    avail (closeRaw exRaw) 9 1 = false := by decide
example : specOverlapSym exRaw (closeRaw exRaw) (availMatrix (closeRaw exRaw) [1, 2, 3, 9]) = true := by
  decide
/-- a one-sided stored table fails the specification (what a broken setter would produce) -/
example : specOverlapSym exRaw (normalise exRaw) (availMatrix (normalise exRaw) [1, 2, 3, 9]) = false := by
  decide

/-- `True` is not an encoding, `0` is reserved, `5` is fine; `np.int64(3)` is no seed -/
example : outcome .encoding {} (.bool true) = .rejAssign ∧ outcome .encoding {} (.int 0) = .rejAssign ∧
    outcome .encoding {} (.int 5) = .accepted ∧ outcome .seed {} (.npInt 3) = .rejAssign := by decide

/-- orientation goes by equality: `True` and `np.array([2])` pass, `5` does not -/
example : outcome .orientation {} (.bool true) = .accepted ∧
    outcome .orientation {} (.ndarray .i64 [1] [.fin 2]) = .accepted ∧
    outcome .orientation {} (.int 5) = .rejAssign := by decide

/-- mappings: an absent encoding is rejected when supplied; an incomplete barrier/free cover at reset -/
example : outcome .attackMapping { encs := [1, 2, 3] } (.dict [(.int 1, .set [.int 2, .int 4])]) = .rejAssign ∧
    outcome .attackMapping { encs := [1, 2, 3] } (.dict [(.int 1, .int 2)]) = .accepted ∧
    outcome .barrierFree { encs := [1, 2, 3] } (.tuple [.set [.int 1], .int 2]) = .rejFinal ∧
    outcome .barrierFree { encs := [1, 2, 3] } (.tuple [.set [.int 1, .int 3], .int 2]) = .accepted := by
  decide

/-- null points: `3 ∉ Discrete(3)` is rejected at finalize.  **Former K19a witness** (repaired in
fc3584a): the falsy `0` outside `Box(1, 3, (1,), int)` — and `[]`, `""`, `False`, `np.array([0])` —
is now rejected at finalize, as the documented rule (malformed) demands; no exception is needed.
A valid two-element array null point is accepted (the truthiness test that raised is gone);
`None` and `{}` still mean "no null point". -/
example : outcome .nullPoint { space := .discrete 3 } (.int 3) = .rejFinal ∧
    outcome .nullPoint { space := .box ⟨true, [1], 1, 3⟩ } (.int 0) = .rejFinal ∧
    docAttr .nullPoint { space := .box ⟨true, [1], 1, 3⟩ } (.int 0) = .malformed ∧
    specAccept .nullPoint { space := .box ⟨true, [1], 1, 3⟩ } (.int 0) .accepted = false ∧
    outcome .nullPoint { space := .discrete 3 } (.list []) = .rejFinal ∧
    outcome .nullPoint { space := .discrete 3 } (.str "") = .rejFinal ∧
    outcome .nullPoint { space := .box ⟨true, [1], 1, 3⟩ } (.bool false) = .rejFinal ∧
    outcome .nullPoint { space := .box ⟨true, [1], 1, 3⟩ } (.ndarray .i64 [1] [.fin 0]) = .rejFinal ∧
    outcome .nullPoint { space := .box ⟨false, [2], 0, 1⟩ } (.ndarray .f64 [2] [.fin 0, .fin 1]) = .accepted ∧
    outcome .nullPoint { space := .discrete 3 } (.int 0) = .accepted ∧
    outcome .nullPoint { space := .discrete 3 } .none = .accepted ∧
    outcome .nullPoint { space := .discrete 3 } (.dict []) = .accepted := by decide

/-- the K2 variant seen through a null point is gone too: `null_action=[1.9]` on
`Box(1, 3, (1,), int)` is rejected at finalize (it used to pass because `Box.contains` truncated) -/
example : outcome .nullPoint { space := .box ⟨true, [1], 1, 3⟩ } (.list [.float (.fin q19)]) = .rejFinal ∧
    docAttr .nullPoint { space := .box ⟨true, [1], 1, 3⟩ } (.list [.float (.fin q19)]) = .malformed ∧
    outcome .nullPoint { space := .box ⟨true, [1], 1, 3⟩ } (.list [.int 1]) = .accepted := by decide

end Cfg
end Abmarl
