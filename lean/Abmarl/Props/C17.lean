import Abmarl.Lemmas.DoneTrace
import Abmarl.Props.C12
/-!
# C17 — Done components and the smart simulation combine them as documented

Models: `Model/Done.lean` (the five built-in done components, branch for branch, with the
`KeyError` of an agent that has no entry in a target mapping) and `Model/Smart.lean`
(`SmartGridWorldSimulation` over abstract components).  Judges and first-order documented
conditions: `Spec/Done.lean`.

**Components** (all worlds, all mappings, all agents; a target mapping is a Python dict, i.e. has
distinct keys — `DoneComp.isDict`, `Doc.IsDict`):
* `C17_done_components` — every getter's outcome satisfies the judge `specDone`/`specAllDone`;
* `C17_done_iff`, `C17_allDone_iff`, `C17_done_error_iff` — the getter answers, and answers
  `True` **iff** the documented condition (`Doc.DoneCond`, `Doc.AllDoneCond`) holds; it raises
  **iff** the agent has no entry in an agent→target mapping, and then a `KeyError`;
* `c17_*` — the same, spelled out per component and getter;
* `docDone_none_iff`, `docDone_some_iff`, `docAllDone_iff` — the Bool judge says what the
  first-order conditions say;
* `c17_overlap_on_grid` — for two *active* agents of a consistent world (C03) "same stored
  position" is "both stand in the same cell of the grid"; `c17_overlap_stale_position` is the
  machine-checked reminder that for an inactive agent the stored position is stale and still
  compared (see MERGE_NOTES: observation O-C17-1).

**Smart simulation** (every component list — hence every iteration order of the Python sets —
every simulation state type, every `step`, every history):
* `smart_done_any`, `smart_allDone_any` (+ `_total`, `anyLazy_perm`), `smart_obs_merge`,
  `smart_obs_distinct_keys`, `smart_obs_order_irrelevant`, `smart_reset_all`,
  `smart_reward_once`, `smart_reward_second_read_zero`;
* `C17_smart` — the trace of every history satisfies the judge `specSmart`;
* `c17_smartDone_reading`, `c17_merge_reading`, `c17_resetAll_reading`, `rewardLoop_at` —
  readings of the judges.
-/
namespace Abmarl
open World Done Doc

/-! ## Readings of the component judges -/

theorem any_pair_iff {α β : Type} [DecidableEq α] (m : List (α × β)) (a : α) (q : β → Bool) :
    m.any (fun p => p.1 == a && q p.2) = true ↔ ∃ t, (a, t) ∈ m ∧ q t = true := by
  simp only [List.any_eq_true, Bool.and_eq_true, beq_iff_eq]
  constructor
  · rintro ⟨p, hp, rfl, hq⟩; exact ⟨p.2, hp, hq⟩
  · rintro ⟨t, ht, hq⟩; exact ⟨(a, t), ht, rfl, hq⟩

theorem inactiveB_iff (w : World) (a : Aid) : w.inactiveB a = true ↔ Inactive w a := by
  simp [inactiveB, Inactive]

theorem samePosB_iff (w : World) (a t : Aid) : w.samePosB a t = true ↔ SamePos w a t := by
  simp [samePosB, SamePos]

/-- the judge prescribes no answer exactly for an agent without a target -/
theorem docDone_none_iff (c : DoneComp) (w : World) (a : Aid) :
    docDone c w a = none ↔ ¬ HasTarget c a := by
  cases c with
  | active => simp [docDone, HasTarget]
  | oneTeam => simp [docDone, HasTarget]
  | targetEncoding m one => simp [docDone, HasTarget]
  | targetOverlap m =>
    simp only [docDone, HasTarget, ← hasEntry_iff]
    cases hasEntry m a <;> simp
  | targetInactive m =>
    simp only [docDone, HasTarget, ← hasEntry_iff]
    cases hasEntry m a <;> simp

/-- where the judge prescribes an answer it is the documented condition -/
theorem docDone_some_iff (c : DoneComp) (w : World) (a : Aid) (b : Bool)
    (h : docDone c w a = some b) : b = true ↔ DoneCond c w a := by
  cases c with
  | active =>
    simp only [docDone, Option.some.injEq] at h
    rw [← h]; exact inactiveB_iff w a
  | oneTeam =>
    simp only [docDone, Option.some.injEq] at h
    rw [← h]; exact inactiveB_iff w a
  | targetOverlap m =>
    simp only [docDone] at h
    cases he : hasEntry m a with
    | false => rw [he] at h; simp at h
    | true =>
      rw [he] at h
      simp only [if_true, Option.some.injEq] at h
      rw [← h, any_pair_iff m a (fun t => w.samePosB a t)]
      simp only [samePosB_iff, DoneCond]
  | targetInactive m =>
    simp only [docDone] at h
    cases he : hasEntry m a with
    | false => rw [he] at h; simp at h
    | true =>
      rw [he] at h
      simp only [if_true, Option.some.injEq] at h
      rw [← h, any_pair_iff m a (fun t => w.inactiveB t)]
      simp only [inactiveB_iff, DoneCond]
  | targetEncoding m one =>
    simp only [docDone, Option.some.injEq] at h
    rw [← h, any_pair_iff m (w.encOf a) (fun ts => w.teamDoneB ts)]
    simp only [teamDoneB_iff, DoneCond]

/-- the judge's `get_all_done` answer is the documented condition -/
theorem docAllDone_iff (c : DoneComp) (w : World) : docAllDone c w = true ↔ AllDoneCond c w := by
  cases c with
  | active =>
    simp only [docAllDone, List.all_eq_true, mem_allAgents, inactiveB_iff, AllDoneCond]
  | oneTeam => exact atMostOneTeamB_iff w
  | targetOverlap m => simp only [docAllDone, List.all_eq_true, samePosB_iff, AllDoneCond]
  | targetInactive m => simp only [docAllDone, List.all_eq_true, inactiveB_iff, AllDoneCond]
  | targetEncoding m one =>
    cases one with
    | true => simp only [docAllDone, if_true, List.any_eq_true, teamDoneB_iff, AllDoneCond]
    | false =>
      simp only [docAllDone, Bool.false_eq_true, if_false, List.all_eq_true, teamDoneB_iff, AllDoneCond]

/-! ## The components: model ⇔ documented condition -/

/-- **C17 (components)**: for every component, configuration with dict mappings, world and agent,
the outcomes of both getters satisfy the judges. -/
theorem C17_done_components (c : DoneComp) (hd : c.isDict = true) (w : World) (a : Aid) :
    specDone c w a (getDone c w a) = true ∧ specAllDone c w (getAllDone c w) = true :=
  ⟨getDone_eq_doc c w a hd, getAllDone_eq_doc c w hd⟩

/-- `get_done` answers for every agent the documentation speaks about, and answers `True`
exactly under the documented condition -/
theorem C17_done_iff (c : DoneComp) (hd : c.isDict = true) (w : World) (a : Aid)
    (ht : HasTarget c a) : ∃ b, getDone c w a = .ok b ∧ (b = true ↔ DoneCond c w a) := by
  have h := getDone_eq_doc c w a hd
  unfold specDone at h
  cases hdoc : docDone c w a with
  | none => exact absurd ht ((docDone_none_iff c w a).mp hdoc)
  | some b0 =>
    rw [hdoc] at h
    cases hout : getDone c w a with
    | error e => rw [hout] at h; simp [answerOK] at h
    | ok b =>
      rw [hout] at h
      have hb : b0 = b := by simpa [answerOK] using h
      exact ⟨b, rfl, hb ▸ docDone_some_iff c w a b0 hdoc⟩

/-- the error branch, for every mapping (dict or not): `get_done` raises exactly for an agent
that has no entry in an agent→target mapping, and what it raises is a `KeyError` -/
theorem C17_done_error_iff (c : DoneComp) (w : World) (a : Aid) (e : GErr) :
    getDone c w a = .error e ↔ (e = .keyError ∧ ¬ HasTarget c a) := by
  cases c with
  | active => simp [getDone, HasTarget]
  | oneTeam => simp [getDone, HasTarget]
  | targetEncoding m one =>
    simp only [getDone, HasTarget, not_true_eq_false, and_false, iff_false]
    cases m.lookup (w.encOf a) <;> simp
  | targetOverlap m =>
    simp only [getDone, overlapDone, HasTarget]
    cases hl : m.lookup a with
    | none =>
      have := (lookup_none_iff m a).mp hl
      constructor
      · intro h; cases h; exact ⟨rfl, fun ⟨t, ht⟩ => this t ht⟩
      · rintro ⟨rfl, _⟩; rfl
    | some t =>
      constructor
      · intro h; cases h
      · rintro ⟨_, h⟩; exact absurd ⟨t, mem_of_lookup_done hl⟩ h
  | targetInactive m =>
    simp only [getDone, inactiveDone, HasTarget]
    cases hl : m.lookup a with
    | none =>
      have := (lookup_none_iff m a).mp hl
      constructor
      · intro h; cases h; exact ⟨rfl, fun ⟨t, ht⟩ => this t ht⟩
      · rintro ⟨rfl, _⟩; rfl
    | some t =>
      constructor
      · intro h; cases h
      · rintro ⟨_, h⟩; exact absurd ⟨t, mem_of_lookup_done hl⟩ h

/-- `get_all_done` never raises and answers `True` exactly under the documented condition -/
theorem C17_allDone_iff (c : DoneComp) (hd : c.isDict = true) (w : World) :
    ∃ b, getAllDone c w = .ok b ∧ (b = true ↔ AllDoneCond c w) := by
  have h := getAllDone_eq_doc c w hd
  unfold specAllDone at h
  cases hout : getAllDone c w with
  | error e => rw [hout] at h; cases h
  | ok b =>
    rw [hout] at h
    have hb : b = docAllDone c w := by simpa using h
    exact ⟨b, rfl, hb ▸ docAllDone_iff c w⟩

/-! ### … spelled out per component and getter -/

/-- `ActiveDone.get_done`: done iff inactive -/
theorem c17_active_done (w : World) (a : Aid) :
    ∃ b, getDone .active w a = .ok b ∧ (b = true ↔ Inactive w a) :=
  C17_done_iff .active rfl w a trivial

/-- `ActiveDone.get_all_done`: iff every agent is inactive -/
theorem c17_active_allDone (w : World) :
    ∃ b, getAllDone .active w = .ok b ∧ (b = true ↔ ∀ a, a < w.n → Inactive w a) :=
  C17_allDone_iff .active rfl w

theorem unique_target {β : Type} {m : List (Aid × β)} (hd : IsDict m) {a : Aid} {t t' : β}
    (h : (a, t) ∈ m) (h' : (a, t') ∈ m) : t' = t := by
  have h1 := lookup_of_mem m a t hd h
  have h2 := lookup_of_mem m a t' hd h'
  rw [h1] at h2; cases h2; rfl

/-- `TargetAgentOverlapDone.get_done`: an agent with target `t` is done iff it is at `t`'s
position -/
theorem c17_overlap_done {m : AgentMap} (hd : IsDict m) {a t : Aid} (ht : (a, t) ∈ m) (w : World) :
    ∃ b, getDone (.targetOverlap m) w a = .ok b ∧ (b = true ↔ SamePos w a t) := by
  obtain ⟨b, hb, hiff⟩ := C17_done_iff (.targetOverlap m) (decide_eq_true hd) w a ⟨t, ht⟩
  refine ⟨b, hb, hiff.trans ⟨?_, fun h => ⟨t, ht, h⟩⟩⟩
  rintro ⟨t', ht', hs⟩
  rw [unique_target hd ht ht'] at hs; exact hs

/-- `TargetAgentOverlapDone.get_done` / `TargetAgentInactiveDone.get_done` of an agent without
an entry: `KeyError` -/
theorem c17_target_done_unmapped (m : AgentMap) (w : World) (a : Aid) (h : ∀ t, (a, t) ∉ m) :
    getDone (.targetOverlap m) w a = .error .keyError ∧
    getDone (.targetInactive m) w a = .error .keyError :=
  ⟨(C17_done_error_iff _ w a _).mpr ⟨rfl, fun ⟨t, ht⟩ => h t ht⟩,
   (C17_done_error_iff _ w a _).mpr ⟨rfl, fun ⟨t, ht⟩ => h t ht⟩⟩

/-- `TargetAgentOverlapDone.get_all_done`: iff every mapped agent is at its target's position
(in particular `True` for the empty mapping) -/
theorem c17_overlap_allDone {m : AgentMap} (hd : IsDict m) (w : World) :
    ∃ b, getAllDone (.targetOverlap m) w = .ok b ∧ (b = true ↔ ∀ p ∈ m, SamePos w p.1 p.2) :=
  C17_allDone_iff (.targetOverlap m) (decide_eq_true hd) w

/-- `TargetAgentInactiveDone.get_done`: an agent with target `t` is done iff `t` is inactive -/
theorem c17_targetInactive_done {m : AgentMap} (hd : IsDict m) {a t : Aid} (ht : (a, t) ∈ m)
    (w : World) : ∃ b, getDone (.targetInactive m) w a = .ok b ∧ (b = true ↔ Inactive w t) := by
  obtain ⟨b, hb, hiff⟩ := C17_done_iff (.targetInactive m) (decide_eq_true hd) w a ⟨t, ht⟩
  refine ⟨b, hb, hiff.trans ⟨?_, fun h => ⟨t, ht, h⟩⟩⟩
  rintro ⟨t', ht', hs⟩
  rw [unique_target hd ht ht'] at hs; exact hs

/-- `TargetAgentInactiveDone.get_all_done`: iff every target is inactive -/
theorem c17_targetInactive_allDone {m : AgentMap} (hd : IsDict m) (w : World) :
    ∃ b, getAllDone (.targetInactive m) w = .ok b ∧ (b = true ↔ ∀ p ∈ m, Inactive w p.2) :=
  C17_allDone_iff (.targetInactive m) (decide_eq_true hd) w

/-- `TargetEncodingInactiveDone.get_done`: an agent whose encoding has the target set `ts` is
done iff every agent of every encoding in `ts` is inactive -/
theorem c17_encoding_done {m : EncMap} (hd : IsDict m) (one : Bool) (w : World) {a : Aid}
    {ts : List Int} (ht : (w.encOf a, ts) ∈ m) :
    ∃ b, getDone (.targetEncoding m one) w a = .ok b ∧ (b = true ↔ TeamDone w ts) := by
  obtain ⟨b, hb, hiff⟩ := C17_done_iff (.targetEncoding m one) (decide_eq_true hd) w a trivial
  refine ⟨b, hb, hiff.trans ⟨?_, fun h => ⟨ts, ht, h⟩⟩⟩
  rintro ⟨ts', ht', hs⟩
  have h1 := lookup_of_mem m _ ts hd ht
  have h2 := lookup_of_mem m _ ts' hd ht'
  rw [h1] at h2; cases h2; exact hs

/-- … and an agent whose encoding has no entry is not done -/
theorem c17_encoding_done_unmapped (m : EncMap) (one : Bool) (w : World) (a : Aid)
    (h : ∀ ts, (w.encOf a, ts) ∉ m) : getDone (.targetEncoding m one) w a = .ok false := by
  simp only [getDone]
  rw [(lookup_none_iff m (w.encOf a)).mpr h]

/-- `TargetEncodingInactiveDone.get_all_done` with `sim_ends_if_one_done`: iff some team is done -/
theorem c17_encoding_allDone_any {m : EncMap} (hd : IsDict m) (w : World) :
    ∃ b, getAllDone (.targetEncoding m true) w = .ok b ∧ (b = true ↔ ∃ p ∈ m, TeamDone w p.2) :=
  C17_allDone_iff (.targetEncoding m true) (decide_eq_true hd) w

/-- … without it: iff every team is done -/
theorem c17_encoding_allDone_all {m : EncMap} (hd : IsDict m) (w : World) :
    ∃ b, getAllDone (.targetEncoding m false) w = .ok b ∧ (b = true ↔ ∀ p ∈ m, TeamDone w p.2) :=
  C17_allDone_iff (.targetEncoding m false) (decide_eq_true hd) w

/-- `OneTeamRemainingDone.get_done` (inherited): done iff inactive -/
theorem c17_oneTeam_done (w : World) (a : Aid) :
    ∃ b, getDone .oneTeam w a = .ok b ∧ (b = true ↔ Inactive w a) :=
  C17_done_iff .oneTeam rfl w a trivial

/-- `OneTeamRemainingDone.get_all_done`: iff all active agents have the same encoding -/
theorem c17_oneTeam_allDone (w : World) :
    ∃ b, getAllDone .oneTeam w = .ok b ∧ (b = true ↔ AtMostOneTeam w) :=
  C17_allDone_iff .oneTeam rfl w

/-- "overlapping" on the grid: in a consistent world (C03) two *active* agents have the same
stored position iff the one stands in the cell of the other -/
theorem c17_overlap_on_grid {w : World} (hI : w.WInv = true) {a t : Aid} (ha : a < w.n)
    (ht : t < w.n) (hact : (w.stOf a).active = true) (htct : (w.stOf t).active = true) :
    SamePos w a t ↔ a ∈ w.cell (w.stOf t).pos := by
  have hPa := placed_of_WInv hI ha hact
  have hPt := placed_of_WInv hI ht htct
  constructor
  · intro h
    unfold SamePos at h
    rw [← h]; exact hPa.mem
  · intro h
    have := hPa.only _ h
    exact (idx_inj hPt.inG hPa.inG this).symm

/-! ## The smart simulation -/
section smart
variable {σ κ υ : Type} [DecidableEq κ]

omit [DecidableEq κ] in
/-- **`get_done` = lazy `any` over the done components**: `True` iff some component says `True`
and all before it said `False`; `False` iff all say `False`; an exception iff some component
raises it and all before it said `False`. -/
theorem smart_done_any (S : Smart σ κ υ) (s : SmartSt σ) (a : Aid) {ds : List (DoneIface σ)}
    (hds : S.dones = some ds) (ha : a < S.n) :
    (S.getDone s a = .ok true ↔
      ∃ pre d post, ds = pre ++ d :: post ∧ (∀ x ∈ pre, x.getDone s.sim a = .ok false) ∧
        d.getDone s.sim a = .ok true) ∧
    (S.getDone s a = .ok false ↔ ∀ d ∈ ds, d.getDone s.sim a = .ok false) ∧
    (∀ e, S.getDone s a = .error e ↔
      ∃ pre d post, ds = pre ++ d :: post ∧ (∀ x ∈ pre, x.getDone s.sim a = .ok false) ∧
        d.getDone s.sim a = .error e) := by
  have hg : S.getDone s a = anyLazy (fun d => d.getDone s.sim a) ds := by
    simp [Smart.getDone, hds, ha]
  rw [hg]
  exact ⟨anyLazy_stop _ _ (by simp) ds, anyLazy_ok_false _ ds,
    fun e => anyLazy_stop _ _ (by simp) ds⟩

omit [DecidableEq κ] in
/-- when no component raises: done iff **any** component reports done -/
theorem smart_done_any_total (S : Smart σ κ υ) (s : SmartSt σ) (a : Aid) {ds : List (DoneIface σ)}
    (hds : S.dones = some ds) (ha : a < S.n) (hok : ∀ d ∈ ds, ∃ b, d.getDone s.sim a = .ok b) :
    ∃ b, S.getDone s a = .ok b ∧ (b = true ↔ ∃ d ∈ ds, d.getDone s.sim a = .ok true) := by
  have hg : S.getDone s a = anyLazy (fun d => d.getDone s.sim a) ds := by
    simp [Smart.getDone, hds, ha]
  let g : DoneIface σ → Bool := fun d => match d.getDone s.sim a with | .ok b => b | .error _ => false
  have hgd : ∀ d ∈ ds, d.getDone s.sim a = .ok (g d) := by
    intro d hd
    obtain ⟨b, hb⟩ := hok d hd
    simp only [g, hb]
  refine ⟨ds.any g, by rw [hg]; exact anyLazy_total _ g ds hgd, ?_⟩
  rw [List.any_eq_true]
  constructor
  · rintro ⟨d, hd, hgt⟩; exact ⟨d, hd, by rw [hgd d hd, hgt]⟩
  · rintro ⟨d, hd, ht⟩
    exact ⟨d, hd, Except.ok.inj ((hgd d hd).symm.trans ht)⟩

omit [DecidableEq κ] in
/-- **`get_all_done` = lazy `any` over the done components** -/
theorem smart_allDone_any (S : Smart σ κ υ) (s : SmartSt σ) {ds : List (DoneIface σ)}
    (hds : S.dones = some ds) :
    (S.getAllDone s = .ok true ↔
      ∃ pre d post, ds = pre ++ d :: post ∧ (∀ x ∈ pre, x.getAllDone s.sim = .ok false) ∧
        d.getAllDone s.sim = .ok true) ∧
    (S.getAllDone s = .ok false ↔ ∀ d ∈ ds, d.getAllDone s.sim = .ok false) ∧
    (∀ e, S.getAllDone s = .error e ↔
      ∃ pre d post, ds = pre ++ d :: post ∧ (∀ x ∈ pre, x.getAllDone s.sim = .ok false) ∧
        d.getAllDone s.sim = .error e) := by
  have hg : S.getAllDone s = anyLazy (fun d => d.getAllDone s.sim) ds := by
    simp [Smart.getAllDone, hds]
  rw [hg]
  exact ⟨anyLazy_stop _ _ (by simp) ds, anyLazy_ok_false _ ds,
    fun e => anyLazy_stop _ _ (by simp) ds⟩

omit [DecidableEq κ] in
/-- when no component raises: the simulation is done iff **any** component reports it -/
theorem smart_allDone_any_total (S : Smart σ κ υ) (s : SmartSt σ) {ds : List (DoneIface σ)}
    (hds : S.dones = some ds) (hok : ∀ d ∈ ds, ∃ b, d.getAllDone s.sim = .ok b) :
    ∃ b, S.getAllDone s = .ok b ∧ (b = true ↔ ∃ d ∈ ds, d.getAllDone s.sim = .ok true) := by
  have hg : S.getAllDone s = anyLazy (fun d => d.getAllDone s.sim) ds := by
    simp [Smart.getAllDone, hds]
  let g : DoneIface σ → Bool := fun d => match d.getAllDone s.sim with | .ok b => b | .error _ => false
  have hgd : ∀ d ∈ ds, d.getAllDone s.sim = .ok (g d) := by
    intro d hd
    obtain ⟨b, hb⟩ := hok d hd
    simp only [g, hb]
  refine ⟨ds.any g, by rw [hg]; exact anyLazy_total _ g ds hgd, ?_⟩
  rw [List.any_eq_true]
  constructor
  · rintro ⟨d, hd, hgt⟩; exact ⟨d, hd, by rw [hgd d hd, hgt]⟩
  · rintro ⟨d, hd, ht⟩
    exact ⟨d, hd, Except.ok.inj ((hgd d hd).symm.trans ht)⟩

/-- the iteration order of the component set does not matter as long as no component raises
(if one does, whether the exception or an earlier `True` is seen depends on the order) -/
theorem anyLazy_perm {δ : Type} (f : δ → Except GErr Bool) {ds ds' : List δ} (hp : ds.Perm ds')
    (hok : ∀ d ∈ ds, ∃ b, f d = .ok b) : anyLazy f ds = anyLazy f ds' := by
  let g : δ → Bool := fun d => match f d with | .ok b => b | .error _ => false
  have hgd : ∀ d ∈ ds, f d = .ok (g d) := by
    intro d hd
    obtain ⟨b, hb⟩ := hok d hd
    simp only [g, hb]
  rw [anyLazy_total f g ds hgd, anyLazy_total f g ds' (fun d hd => hgd d (hp.mem_iff.mpr hd)),
    hp.any_eq]

/-- **`get_obs` merges the channels of all observers**: every channel of every observer appears
exactly once, and carries the value of the last observer (in iteration order) that has it. -/
theorem smart_obs_merge (S : Smart σ κ υ) (s : SmartSt σ) (a : Aid)
    {os : List (σ → Aid → List (κ × υ))} (hos : S.observers = some os) (ha : a < S.n) :
    ∃ o, S.getObs s a = .ok o ∧ (o.map (·.1)).Nodup ∧
      (∀ k, k ∈ o.map (·.1) ↔ ∃ ob ∈ os, k ∈ (ob s.sim a).map (·.1)) ∧
      (∀ k v, (k, v) ∈ o ↔
        ∃ l1 l2, (os.map (fun ob => ob s.sim a)).flatten = l1 ++ (k, v) :: l2 ∧ ∀ p ∈ l2, p.1 ≠ k) := by
  refine ⟨mergeObs (os.map (fun ob => ob s.sim a)), by simp [Smart.getObs, hos, ha],
    nodup_keys_dictOf _, ?_, ?_⟩
  · intro k
    unfold mergeObs
    rw [mem_keys_dictOf]
    simp only [List.mem_map, List.mem_flatten]
    constructor
    · rintro ⟨p, ⟨l, ⟨ob, hob, rfl⟩, hp⟩, rfl⟩
      exact ⟨ob, hob, p, hp, rfl⟩
    · rintro ⟨ob, hob, p, hp, rfl⟩
      exact ⟨p, ⟨_, ⟨ob, hob, rfl⟩, hp⟩, rfl⟩
  · intro k v
    rw [← lastVal_eq_some_iff, ← lookup_dictOf]
    constructor
    · intro h; exact lookup_of_mem _ k v (nodup_keys_dictOf _) h
    · intro h; exact mem_of_lookup_done h

/-- observers with pairwise distinct channels (all built-in observers: one fixed key each): the
merged observation is just all their items -/
theorem smart_obs_distinct_keys (outs : List (List (κ × υ)))
    (hk : (outs.flatten.map (·.1)).Nodup) : mergeObs outs = outs.flatten :=
  dictOf_of_nodup _ hk

/-- … and therefore the same set of (channel, value) pairs for every order of the observers -/
theorem smart_obs_order_irrelevant (outs outs' : List (List (κ × υ))) (hp : outs.Perm outs')
    (hk : (outs.flatten.map (·.1)).Nodup) : (mergeObs outs).Perm (mergeObs outs') := by
  have hk' : (outs'.flatten.map (·.1)).Nodup := ((hp.flatten.map _).nodup_iff).mp hk
  rw [smart_obs_distinct_keys outs hk, smart_obs_distinct_keys outs' hk']
  exact hp.flatten

/-- a state component instrumented to log its tag when it is reset -/
def tagged (i : Nat) (f : σ → σ) : σ × List Nat → σ × List Nat := fun p => (f p.1, p.2 ++ [i])

theorem foldl_tagged :
    ∀ (fs : List (σ → σ)) (k : Nat) (x : σ) (log : List Nat),
      ((fs.zipIdx k).map (fun p => tagged p.2 p.1)).foldl (fun x f => f x) (x, log) =
        (fs.foldl (fun x f => f x) x, log ++ List.range' k fs.length)
  | [], _, _, _ => by simp
  | f :: fs, k, x, log => by
    rw [List.zipIdx_cons, List.map_cons, List.foldl_cons, List.foldl_cons]
    simp only [tagged]
    rw [foldl_tagged fs (k + 1) (f x) (log ++ [k])]
    simp [List.range'_succ, List.append_assoc]

omit [DecidableEq κ] in
/-- **`reset` goes through all state components**: for every list of state components (every
iteration order) the new simulation state is their composition in that order; running the same
loop with each component instrumented to log its position yields the log `0, 1, …, k-1` — each
component is reset exactly once; the reward dict is created afresh. -/
theorem smart_reset_all (S : Smart σ κ υ) (s : SmartSt σ) {fs : List (σ → σ)}
    (hfs : S.states = some fs) :
    ∃ s', S.reset s = .ok s' ∧ s'.sim = fs.foldl (fun x f => f x) s.sim ∧
      ((fs.zipIdx.map (fun p => tagged p.2 p.1)).foldl (fun x f => f x) (s.sim, [])
        = (s'.sim, List.range fs.length)) ∧
      (∀ i, i < fs.length → (List.range fs.length).count i = 1) ∧
      s'.rewards = some S.zeroRewards := by
  refine ⟨{ sim := fs.foldl (fun x f => f x) s.sim, rewards := some S.zeroRewards },
    by simp [Smart.reset, hfs], rfl, ?_, ?_, rfl⟩
  · rw [foldl_tagged fs 0 s.sim []]
    simp [List.range_eq_range']
  · intro i hi
    rw [List.count_range, if_pos hi]

/-! ### the reward accumulator -/

/-- what the accruals of one step add to agent `a`'s account -/
def accOf (a : Aid) : List (Aid × Int) → Int
  | [] => 0
  | p :: ps => (if p.1 = a then p.2 else 0) + accOf a ps

/-- what a trace entry hands out to agent `a` -/
def ret1 (a : Aid) (e : SEntry σ κ υ) : Int :=
  match e.op, e.res with
  | .reward b, .int r => if b = a then r else 0
  | _, _ => 0

/-- what a trace entry accrues for agent `a` -/
def acc1 (a : Aid) (e : SEntry σ κ υ) : Int :=
  match e.op, e.res with
  | .step _ acc, .unit => accOf a acc
  | _, _ => 0

def returnedTo (a : Aid) (tr : List (SEntry σ κ υ)) : Int := (tr.map (ret1 a)).sum
def accruedTo (a : Aid) (tr : List (SEntry σ κ υ)) : Int := (tr.map (acc1 a)).sum

/-- what is pending for agent `a` (0 when there is no account) -/
def pendingOf (p : Option (List (Aid × Int))) (a : Aid) : Int :=
  match p with
  | none => 0
  | some r => (r.lookup a).getD 0

def SOp.isReset : SOp σ → Bool
  | .reset => true
  | _ => false

theorem lookup_applyAcc (a : Aid) :
    ∀ (acc r : List (Aid × Int)),
      ((Smart.applyAcc r acc).lookup a).getD 0 = (r.lookup a).getD 0 + accOf a acc
  | [], r => by simp [Smart.applyAcc, accOf]
  | p :: acc, r => by
    unfold Smart.applyAcc
    rw [List.foldl_cons]
    have ih := lookup_applyAcc a acc (dictSet r p.1 ((r.lookup p.1).getD 0 + p.2))
    unfold Smart.applyAcc at ih
    rw [ih, lookup_dictSet]
    simp only [accOf]
    by_cases h : a = p.1
    · subst h; simp; omega
    · have : ¬ p.1 = a := fun e => h e.symm
      simp [h, this]

theorem runOp_conserve (S : Smart σ κ υ) (s : SmartSt σ) (a : Aid) (op : SOp σ)
    (hnr : op.isReset = false) :
    ret1 a (S.runOp s op).1 + pendingOf (S.runOp s op).2.rewards a =
      pendingOf s.rewards a + acc1 a (S.runOp s op).1 := by
  cases op with
  | reset => cases hnr
  | step f acc =>
    cases hr : s.rewards with
    | none => rw [runOp_step_none S s f acc hr]; simp [ret1, acc1, hr]
    | some r =>
      cases hall : acc.all (fun p => (r.lookup p.1).isSome) with
      | true =>
        rw [runOp_step_ok S s f acc hr hall]
        simp only [ret1, acc1, pendingOf, lookup_applyAcc]
        omega
      | false => rw [runOp_step_missing S s f acc hr hall]; simp [ret1, acc1, hr]
  | reward b =>
    cases hr : s.rewards with
    | none => rw [runOp_reward_none S s b hr]; simp [ret1, acc1, hr]
    | some r =>
      cases hl : r.lookup b with
      | none => rw [runOp_reward_missing S s b hr hl]; simp [ret1, acc1, hr]
      | some v =>
        rw [runOp_reward_ok S s b hr hl]
        simp only [ret1, acc1, pendingOf, lookup_dictSet]
        by_cases h : b = a
        · subst h; simp [hl]
        · have : ¬ a = b := fun e => h e.symm
          simp [h, this]
  | obs b =>
    obtain ⟨h1, _, h3, _, _⟩ := runOp_pure S s (.obs b) trivial
    simp [ret1, acc1, h1, h3]
  | done b =>
    obtain ⟨h1, _, h3, _, _⟩ := runOp_pure S s (.done b) trivial
    simp [ret1, acc1, h1, h3]
  | allDone =>
    obtain ⟨h1, _, h3, _, _⟩ := runOp_pure S s .allDone trivial
    simp [ret1, acc1, h1, h3]

/-- **the accrued reward is handed out exactly once**: along every interleaving of steps
(accruals), reads and other getters between two resets, for every agent: what was read plus what
is still pending equals what was pending at the start plus what was accrued.  (After a reset the
start value is 0: `smart_reset_all`.) -/
theorem smart_reward_once (S : Smart σ κ υ) (a : Aid) :
    ∀ (ops : List (SOp σ)) (s : SmartSt σ), (∀ op ∈ ops, op.isReset = false) →
      returnedTo a (S.runOps s ops).1 + pendingOf (S.runOps s ops).2.rewards a =
        pendingOf s.rewards a + accruedTo a (S.runOps s ops).1
  | [], s, _ => by simp [Smart.runOps, returnedTo, accruedTo]
  | op :: ops, s, h => by
    have h1 := runOp_conserve S s a op (h op (by simp))
    have ih := smart_reward_once S a ops (S.runOp s op).2 (fun o ho => h o (by simp [ho]))
    unfold Smart.runOps
    simp only [returnedTo, accruedTo, List.map_cons, List.sum_cons] at ih ⊢
    omega

omit [DecidableEq κ] in
/-- a read directly after a read returns 0: nothing is handed out twice -/
theorem smart_reward_second_read_zero (S : Smart σ κ υ) (s s' : SmartSt σ) (a : Aid) (r : Int)
    (h : S.getReward s a = .ok (r, s')) : ∃ s'', S.getReward s' a = .ok (0, s'') := by
  unfold Smart.getReward at h
  cases hr : s.rewards with
  | none => simp [hr] at h
  | some d =>
    cases hl : d.lookup a with
    | none => simp [hr, hl] at h
    | some v =>
      simp only [hr, hl, Except.ok.injEq, Prod.mk.injEq] at h
      obtain ⟨_, rfl⟩ := h
      exact ⟨{ sim := s.sim, rewards := some (dictSet (dictSet d a 0) a 0) },
        by simp [Smart.getReward, lookup_dictSet]⟩

variable [DecidableEq υ]

/-- **C17 (smart simulation)**: for every simulation state type, every smart simulation built
from built-in done components (with dict mappings), any observers and any state components, in
any iteration order, every initial state without a reward dict, every `step` behaviour and every
interleaving of resets, steps and reads, the trace satisfies the judge `specSmart`. -/
theorem C17_smart (S : Smart σ κ υ) (F : SmartFacts σ) (hA : Agrees S F) (s0 : SmartSt σ)
    (h0 : s0.rewards = none) (ops : List (SOp σ)) :
    specSmart F (S.runOps s0 ops).1 = true := by
  unfold specSmart specRewardOnce
  rw [Bool.and_eq_true]
  refine ⟨specSmartEntries_runOps S F hA ops s0, ?_⟩
  rw [← hA.n, ← hA.learning]
  exact rewardLoop_runOps S ops s0 none (by rw [h0]; trivial)

/-! ### readings of the smart judges -/

/-- a `Bool` answer is the disjunction of the documented answers; an exception is excused only
by a component for which the documents prescribe nothing (an agent without a target) -/
theorem c17_smartDone_reading {cs : List DoneComp} {w : World} {a : Aid} {out : Except GErr Bool}
    (h : specSmartDone cs w a out = true) :
    (∀ b, out = .ok b → (b = true ↔ ∃ c ∈ cs, HasTarget c a ∧ DoneCond c w a)) ∧
    (∀ e, out = .error e → ∃ c ∈ cs, ¬ HasTarget c a) := by
  unfold specSmartDone specAny at h
  constructor
  · intro b hb
    rw [hb] at h
    simp only [beq_iff_eq] at h
    rw [h, List.any_eq_true]
    constructor
    · rintro ⟨d, hd, hdt⟩
      obtain ⟨c, hc, rfl⟩ := List.mem_map.mp hd
      have hdoc : docDone c w a = some true := by simpa using hdt
      refine ⟨c, hc, ?_, (docDone_some_iff c w a true hdoc).mp rfl⟩
      apply Classical.byContradiction
      intro hn
      rw [(docDone_none_iff c w a).mpr hn] at hdoc
      cases hdoc
    · rintro ⟨c, hc, ht, hcond⟩
      refine ⟨docDone c w a, List.mem_map.mpr ⟨c, hc, rfl⟩, ?_⟩
      cases hdoc : docDone c w a with
      | none => exact absurd ht ((docDone_none_iff c w a).mp hdoc)
      | some b0 =>
        have := (docDone_some_iff c w a b0 hdoc).mpr hcond
        simp [this]
  · intro e he
    rw [he] at h
    obtain ⟨d, hd, hdn⟩ := List.any_eq_true.mp h
    obtain ⟨c, hc, rfl⟩ := List.mem_map.mp hd
    exact ⟨c, hc, (docDone_none_iff c w a).mp (by simpa using hdn)⟩

/-- the simulation is reported done iff some component's documented condition holds; never an
exception -/
theorem c17_smartAllDone_reading {cs : List DoneComp} {w : World} {out : Except GErr Bool}
    (h : specSmartAllDone cs w out = true) :
    ∃ b, out = .ok b ∧ (b = true ↔ ∃ c ∈ cs, AllDoneCond c w) := by
  unfold specSmartAllDone specAny at h
  cases out with
  | error e =>
    obtain ⟨d, hd, hdn⟩ := List.any_eq_true.mp h
    obtain ⟨c, _, rfl⟩ := List.mem_map.mp hd
    simp at hdn
  | ok b =>
    refine ⟨b, rfl, ?_⟩
    simp only [beq_iff_eq] at h
    rw [h, List.any_eq_true]
    constructor
    · rintro ⟨d, hd, hdt⟩
      obtain ⟨c, hc, rfl⟩ := List.mem_map.mp hd
      exact ⟨c, hc, (docAllDone_iff c w).mp (by simpa using hdt)⟩
    · rintro ⟨c, hc, hcond⟩
      exact ⟨_, List.mem_map.mpr ⟨c, hc, rfl⟩, by simpa using (docAllDone_iff c w).mpr hcond⟩

/-- the merged observation has each channel once, exactly the channels of the observers, each
with the value of the last observer output that has it -/
theorem c17_merge_reading {outs : List (List (κ × υ))} {merged : List (κ × υ)}
    (h : specMerge outs merged = true) :
    (merged.map (·.1)).Nodup ∧
    (∀ k, k ∈ merged.map (·.1) ↔ ∃ o ∈ outs, k ∈ o.map (·.1)) ∧
    (∀ k v, (k, v) ∈ merged →
      ∃ l1 l2, outs.flatten = l1 ++ (k, v) :: l2 ∧ ∀ p ∈ l2, p.1 ≠ k) := by
  simp only [specMerge, Bool.and_eq_true, decide_eq_true_eq, List.all_eq_true, beq_iff_eq] at h
  obtain ⟨⟨hn, hval⟩, hkeys⟩ := h
  refine ⟨hn, ?_, ?_⟩
  · intro k
    constructor
    · intro hk
      obtain ⟨p, hp, rfl⟩ := List.mem_map.mp hk
      have := hval p hp
      obtain ⟨l1, l2, hsplit, _⟩ := (lastVal_eq_some_iff p.1 p.2 _).mp this
      have hmem : (p.1, p.2) ∈ outs.flatten := by rw [hsplit]; simp
      obtain ⟨o, ho, hpo⟩ := List.mem_flatten.mp hmem
      exact ⟨o, ho, List.mem_map.mpr ⟨_, hpo, rfl⟩⟩
    · rintro ⟨o, ho, hk⟩
      obtain ⟨p, hp, rfl⟩ := List.mem_map.mp hk
      exact hkeys p (List.mem_flatten.mpr ⟨o, ho, hp⟩)
  · intro k v hkv
    exact (lastVal_eq_some_iff k v _).mp (hval (k, v) hkv)

omit [DecidableEq κ] [DecidableEq υ] in
/-- each of the `k` components was called exactly once -/
theorem c17_resetAll_reading {k : Nat} {calls : List Nat} (h : specResetAll k calls = true) :
    calls.length = k ∧ ∀ i, i < k → calls.count i = 1 := by
  simp only [specResetAll, Bool.and_eq_true, beq_iff_eq, List.all_eq_true, List.mem_range] at h
  exact h

/-- reference ledger before entry `i` of a trace -/
def ledgerAt (n : Nat) (exp : Option (List Int)) (tr : List (SEntry σ κ υ)) (i : Nat) :
    Option (List Int) := (tr.take i).foldl (ledgerNext n) exp

omit [DecidableEq κ] [DecidableEq υ] in
/-- `specRewardOnce` means: at every entry a read returns what the reference ledger holds for
the reader, and the accumulators seen after the call are the reference ledger after it -/
theorem rewardLoop_at (n : Nat) (learning : Aid → Bool) :
    ∀ (tr : List (SEntry σ κ υ)) (exp : Option (List Int)), rewardLoop n learning exp tr = true →
      ∀ i e, tr[i]? = some e →
        readOk n learning (ledgerAt n exp tr i) e = true ∧
        pendVec n e.pending = (ledgerNext n (ledgerAt n exp tr i) e).map (expVec n learning) := by
  intro tr
  induction tr with
  | nil => intro exp _ i e h; simp at h
  | cons e0 es ih =>
    intro exp hspec i e hi
    simp only [rewardLoop, Bool.and_eq_true, beq_iff_eq] at hspec
    cases i with
    | zero =>
      simp only [List.getElem?_cons_zero, Option.some.injEq] at hi
      subst hi
      simpa [ledgerAt] using hspec.1
    | succ i =>
      simp only [List.getElem?_cons_succ] at hi
      have := ih (ledgerNext n exp e0) hspec.2 i e hi
      simpa [ledgerAt] using this

end smart

/-! ## Non-vacuity and concrete instances

Four agents on a 2×3 grid: `0` (encoding 1) stands on its target `1` (encoding 2, both active,
they may overlap); `2` (encoding 3) is dead and its stale position is the cell of `3`
(encoding 1), which is active. -/

deriving instance DecidableEq for Except

def exDoneWorld : World :=
  { rows := 2, cols := 3, overlap := [(1, [2]), (2, [1])],
    cells := [[0, 1], [], [], [], [], [3]],
    cfg := [{ enc := 1 }, { enc := 2 }, { enc := 3 }, { enc := 1 }],
    st := [{ pos := (0, 0) }, { pos := (0, 0) },
           { pos := (1, 2), health := 0, active := false }, { pos := (1, 2) }] }

def exAgentMap : AgentMap := [(0, 1), (3, 2)]
def exEncMap : EncMap := [(1, [3]), (2, [1, 3])]

example : exDoneWorld.WInv = true := by decide
example : (DoneComp.targetOverlap exAgentMap).isDict = true ∧
    (DoneComp.targetEncoding exEncMap true).isDict = true := by decide

/-- every branch: done / not done / `KeyError`; any versus all -/
example :
    getDone .active exDoneWorld 2 = .ok true ∧ getDone .active exDoneWorld 0 = .ok false ∧
    getAllDone .active exDoneWorld = .ok false ∧
    getDone (.targetOverlap exAgentMap) exDoneWorld 0 = .ok true ∧
    getDone (.targetOverlap exAgentMap) exDoneWorld 1 = .error .keyError ∧
    getDone (.targetInactive exAgentMap) exDoneWorld 0 = .ok false ∧
    getDone (.targetInactive exAgentMap) exDoneWorld 3 = .ok true ∧
    getAllDone (.targetInactive exAgentMap) exDoneWorld = .ok false ∧
    getDone (.targetEncoding exEncMap true) exDoneWorld 0 = .ok true ∧      -- nobody of encoding 3 is active
    getDone (.targetEncoding exEncMap true) exDoneWorld 1 = .ok false ∧     -- encoding 1 is
    getDone (.targetEncoding exEncMap true) exDoneWorld 2 = .ok false ∧     -- encoding 3 has no entry
    getAllDone (.targetEncoding exEncMap true) exDoneWorld = .ok true ∧     -- any team
    getAllDone (.targetEncoding exEncMap false) exDoneWorld = .ok false ∧   -- all teams
    getAllDone .oneTeam exDoneWorld = .ok false ∧
    getAllDone (.targetOverlap []) exDoneWorld = .ok true ∧                 -- `all([])`
    getAllDone (.targetEncoding [] false) exDoneWorld = .ok true ∧          -- `all([])`
    getAllDone (.targetEncoding [] true) exDoneWorld = .ok false := by decide

/-- **stale positions are compared** (observation O-C17-1): agent `3` is active and alone in its
cell, its target `2` is dead and *not on the grid*, yet `TargetAgentOverlapDone` reports `3` done
because the dead agent's stored position was never cleared -/
theorem c17_overlap_stale_position :
    getDone (.targetOverlap exAgentMap) exDoneWorld 3 = .ok true ∧
    (exDoneWorld.stOf 2).active = false ∧ 2 ∉ exDoneWorld.cell (exDoneWorld.stOf 2).pos ∧
    getAllDone (.targetOverlap exAgentMap) exDoneWorld = .ok true := by decide

/-! a concrete smart simulation: simulation state = world; two done components; two observers
sharing channel `1`; two state components the second of which revives agent `2` -/

def exSmart : Smart World Nat Int :=
  { n := 4, learning := fun a => a == 0 || a == 3,
    dones := some ([.active, .targetOverlap exAgentMap].map (DoneComp.iface id)),
    observers := some [fun _ a => [(0, (a : Int)), (1, 10)], fun _ _ => [(1, 20), (2, 30)]],
    states := some [fun w => w, fun w => w.setHealth 2 1] }

def exFacts : SmartFacts World :=
  { n := 4, learning := fun a => a == 0 || a == 3,
    comps := some [.active, .targetOverlap exAgentMap], nObs := some 2, nStates := some 2,
    worldOf := id }

example : Agrees exSmart exFacts :=
  ⟨rfl, rfl, rfl, by intro cs h c hc; cases h; revert c; decide, rfl, rfl⟩

def exSmartOps : List (SOp World) :=
  [.reward 0, .reset, .step id [(0, 5), (3, 2), (0, -1)], .reward 0, .reward 0, .reward 1,
   .obs 3, .done 2, .done 1, .done 3, .allDone, .step (fun w => w.setHealth 0 0) [(3, 1)],
   .done 0, .reset, .reward 3]

/-- results as integer codes: 0 unit, 1 r, 2 bool, 3 obs items, 4 KeyError, 5 assertion, 6 other -/
def resCode : SRes Nat Int → List Int
  | .unit => [0]
  | .int r => [1, r]
  | .bool b => [2, if b then 1 else 0]
  | .obs o => 3 :: o.flatMap (fun p => [(p.1 : Int), p.2])
  | .err .keyError => [4]
  | .err .assertion => [5]
  | .err _ => [6]

/-- reads: error before the first reset; 4 = 5 − 1 once, then 0; `KeyError` for a non-learning
agent; observation: channel 1 from the later observer; agents 2 (revived by the reset) and 1 are
active and have no target (`KeyError` after `ActiveDone` said `False`); agent 3 is at its
target's position; so is agent 0, hence the simulation is done; after agent 0 died `ActiveDone`
answers first; the second reset drops agent 3's unread reward -/
example :
    (exSmart.runOps { sim := exDoneWorld } exSmartOps).1.map (fun e => resCode e.res) =
      [[6], [0], [0], [1, 4], [1, 0], [4], [3, 0, 3, 1, 20, 2, 30], [4], [4], [2, 1], [2, 1],
       [0], [2, 1], [0], [1, 0]] ∧
    specSmart exFacts (exSmart.runOps { sim := exDoneWorld } exSmartOps).1 = true := by
  decide

end Abmarl
