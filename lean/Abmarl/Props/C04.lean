import Abmarl.Lemmas.Ravel
/-!
# C04 — Ravelling is a bijection between a space and Discrete(n)

Property theorems only (helper lemmas: `Lemmas/MixedRadix.lean`, `Lemmas/Ravel.lean`).
The model is `Model/Spaces.lean` (`ravel`, `unravel`, `ravelSpace`, `checkSpace`, `card`, `mem`
written after `ravel_discrete_wrapper.py`), the decidable specifications are `specRavel`,
`specUnravel`, `specRavelSpace`, `specCheckSpace` in `Spec/Spaces.lean`.

Every theorem is for **every** space `s` with `WF04 s` — any nesting depth, any number of
children, any bounds, any (sorted) key list — and **every** member `p` of it / **every**
`k < card s`.  `WF04` excludes `Discrete(start ≠ 0)` (finding K1), `2^63` points or more
(finding K3: the model's integers are unbounded, numpy's are not), integer Boxes that are not
of dtype `int` (finding K5) and spaces without cells or children.
-/
namespace Abmarl

theorem WF04_wf {s : Space} (h : WF04 s = true) : wf s = true := by
  simp only [WF04, Bool.and_eq_true] at h
  exact h.1

/-- ravelling a member gives a number in `0..n-1`, `n` the number of points -/
theorem C04_ravel_lt (s : Space) (p : Pt) (hW : WF04 s = true) (hm : mem s p = true) :
    ∃ k : Nat, ravel s p = some (k : Int) ∧ k < card s := by
  obtain ⟨k, h1, h2, _⟩ := ravel_fwd s p (WF04_wf hW) hm
  exact ⟨k, by simp [ravel, h1], h2⟩

/-- unravelling is a left inverse of ravelling on the space -/
theorem C04_unravel_ravel (s : Space) (p : Pt) (hW : WF04 s = true) (hm : mem s p = true) :
    ∃ k : Nat, ravel s p = some (k : Int) ∧ unravel s k = some p := by
  obtain ⟨k, h1, _, h3⟩ := ravel_fwd s p (WF04_wf hW) hm
  exact ⟨k, by simp [ravel, h1], h3⟩

/-- unravelling any `k < n` yields a member of the space, and ravelling it gives `k` back -/
theorem C04_ravel_unravel (s : Space) (k : Nat) (hW : WF04 s = true) (hk : k < card s) :
    ∃ p, unravel s k = some p ∧ mem s p = true ∧ ravel s p = some (k : Int) := by
  obtain ⟨p, h1, h2, h3⟩ := unravel_bwd s k (WF04_wf hW) hk
  exact ⟨p, h1, h2, by simp [ravel, h3]⟩

/-- one-to-one: two members with the same ravelled number are the same point -/
theorem C04_ravel_injective (s : Space) (p q : Pt) (hW : WF04 s = true)
    (hp : mem s p = true) (hq : mem s q = true) (h : ravel s p = ravel s q) : p = q := by
  obtain ⟨k, h1, h3⟩ := C04_unravel_ravel s p hW hp
  obtain ⟨k', g1, g3⟩ := C04_unravel_ravel s q hW hq
  rw [h1, g1] at h
  have : k = k' := by
    simp only [Option.some.injEq] at h
    exact Int.ofNat.inj h
  subst this
  rw [h3] at g3
  exact Option.some.inj g3

/-- onto: every number in `0..n-1` is the ravelled value of a member -/
theorem C04_ravel_surjective (s : Space) (k : Nat) (hW : WF04 s = true) (hk : k < card s) :
    ∃ p, mem s p = true ∧ ravel s p = some (k : Int) := by
  obtain ⟨p, _, h2, h3⟩ := C04_ravel_unravel s k hW hk
  exact ⟨p, h2, h3⟩

/-- `card s` *is* the number of points: the members of the space are in bijection with
`Fin (card s)` (the bijection is `ravel`) -/
theorem C04_card_counts_points (s : Space) (hW : WF04 s = true) :
    ∃ f : {p : Pt // mem s p = true} → Fin (card s),
      (∀ a b, f a = f b → a = b) ∧ (∀ y, ∃ a, f a = y) ∧ ∀ a, ravel s a.1 = some ((f a).1 : Int) := by
  have hex : ∀ a : {p : Pt // mem s p = true}, ∃ k : Nat, ravel s a.1 = some (k : Int) ∧ k < card s :=
    fun a => C04_ravel_lt s a.1 hW a.2
  refine ⟨fun a => ⟨(hex a).choose, (hex a).choose_spec.2⟩, ?_, ?_, ?_⟩
  · intro a b hab
    have ha := (hex a).choose_spec.1
    have hb := (hex b).choose_spec.1
    have : (hex a).choose = (hex b).choose := congrArg Fin.val hab
    rw [this] at ha
    exact Subtype.ext (C04_ravel_injective s a.1 b.1 hW a.2 b.2 (ha.trans hb.symm))
  · intro y
    obtain ⟨p, hp, hr⟩ := C04_ravel_surjective s y.1 hW y.2
    refine ⟨⟨p, hp⟩, ?_⟩
    apply Fin.ext
    have h : ravel s p = some (((hex ⟨p, hp⟩).choose : Nat) : Int) := (hex ⟨p, hp⟩).choose_spec.1
    have h' := hr.symm.trans h
    simp only [Option.some.injEq] at h'
    exact (Int.ofNat.inj h').symm
  · intro a
    exact (hex a).choose_spec.1

/-- the ravelled space is `Discrete(n)` with `n` the number of points -/
theorem C04_ravelSpace_card (s : Space) (hW : WF04 s = true) :
    ravelSpace s = some (.discrete (card s) 0) := by
  unfold ravelSpace
  rw [if_pos (card_pos s (WF04_wf hW))]

/-- the dimension `_ravel_helper` recomputes on the way agrees with `_nested_dim_helper` -/
theorem C04_ravelH_dim (s : Space) (p : Pt) (hW : WF04 s = true) (hm : mem s p = true) :
    ∃ v, ravelH s p = some (v, card s) := by
  obtain ⟨k, h1, _, _⟩ := ravel_fwd s p (WF04_wf hW) hm
  exact ⟨_, h1⟩

/-- the admission predicate accepts exactly the supported spaces, in particular every space
the theorems are about -/
theorem C04_checkSpace_iff (s : Space) : checkSpace s = true ↔ supported s = true := by
  rw [checkSpace_eq_supported]

theorem C04_checkSpace_of_WF (s : Space) (hW : WF04 s = true) : checkSpace s = true := by
  rw [checkSpace_eq_supported]
  exact wf_supported s (WF04_wf hW)

/-! ## The model's outcome satisfies each specification (what the driver self-tests) -/

theorem C04_specRavel (s : Space) (p : Pt) (hW : WF04 s = true) (hm : mem s p = true) :
    specRavel s p (outRavel s p) = true := by
  obtain ⟨k, h1, h2, h3⟩ := ravel_fwd s p (WF04_wf hW) hm
  have hr : outRavel s p = some (k : Int) := by simp [outRavel, ravel, h1]
  rw [hr]
  simp only [specRavel, Int.toNat_natCast, h3, Bool.and_eq_true, decide_eq_true_eq]
  exact ⟨⟨Int.natCast_nonneg k, h2⟩, (optPt_beq_iff _ _).mpr rfl⟩

theorem C04_specUnravel (s : Space) (k : Nat) (hW : WF04 s = true) (hk : k < card s) :
    specUnravel s k (outUnravel s k) = true := by
  obtain ⟨p, h1, h2, h3⟩ := unravel_bwd s k (WF04_wf hW) hk
  simp only [outUnravel, h1, Option.map_some, specUnravel, h2, Bool.true_and, ravel, h3]
  exact beq_self_eq_true _

theorem C04_specRavelSpace (s : Space) (hW : WF04 s = true) :
    specRavelSpace s (outRavelSpace s) = true := by
  simp [outRavelSpace, C04_ravelSpace_card s hW, specRavelSpace]

theorem C04_specCheckSpace (s : Space) : specCheckSpace s (outCheckSpace s) = true := by
  simp [outCheckSpace, specCheckSpace, checkSpace_eq_supported]

/-! ## What the specifications say (readings of the decidable predicates) -/

/-- `specRavel` holds of an outcome exactly when it is a number `k` in `0..n-1` whose
unravelling is the original point -/
theorem specRavel_reading (s : Space) (p : Pt) (out : Option Int) :
    specRavel s p out = true ↔
      ∃ k : Nat, out = some (k : Int) ∧ k < card s ∧ unravel s k = some p := by
  cases out with
  | none => simp [specRavel]
  | some v =>
    simp only [specRavel, Bool.and_eq_true, decide_eq_true_eq, optPt_beq_iff, Option.some.injEq]
    constructor
    · rintro ⟨⟨h0, h1⟩, h2⟩
      exact ⟨v.toNat, (Int.toNat_of_nonneg h0).symm, h1, h2⟩
    · rintro ⟨k, rfl, h1, h2⟩
      simp only [Int.toNat_natCast]
      exact ⟨⟨Int.natCast_nonneg k, h1⟩, h2⟩

/-- `specUnravel` holds of an outcome exactly when it is a point of the space — by the model's
membership *and* by gymnasium's own `in` — that ravels back to `k` -/
theorem specUnravel_reading (s : Space) (k : Nat) (out : Option (Pt × Bool)) :
    specUnravel s k out = true ↔
      ∃ q, out = some (q, true) ∧ mem s q = true ∧ ravel s q = some (k : Int) := by
  cases out with
  | none => simp [specUnravel]
  | some qb =>
    obtain ⟨q, b⟩ := qb
    simp only [specUnravel, Bool.and_eq_true, Option.some.injEq, Prod.mk.injEq]
    have hb : (ravel s q == some (Int.ofNat k)) = true ↔ ravel s q = some (k : Int) := by
      constructor
      · intro h; exact eq_of_beq h
      · intro h; rw [h]; exact beq_self_eq_true _
    rw [hb]
    constructor
    · rintro ⟨⟨h1, h2⟩, h3⟩
      exact ⟨q, ⟨rfl, h1⟩, h2, h3⟩
    · rintro ⟨q', ⟨rfl, rfl⟩, h2, h3⟩
      exact ⟨⟨rfl, h2⟩, h3⟩

/-- `specRavelSpace` holds exactly of `Discrete(number of points)` (with `start = 0`) -/
theorem specRavelSpace_reading (s : Space) (out : Option (Nat × Int)) :
    specRavelSpace s out = true ↔ out = some (card s, 0) := by
  cases out with
  | none => simp [specRavelSpace]
  | some ns =>
    obtain ⟨n, st⟩ := ns
    simp [specRavelSpace]

/-- `specCheckSpace` holds exactly of the answer "this space is supported" -/
theorem specCheckSpace_reading (s : Space) (out : Option Bool) :
    specCheckSpace s out = true ↔ out = some (supported s) := by
  cases out with
  | none => simp [specCheckSpace]
  | some b => simp [specCheckSpace]

/-! ## Non-vacuity: a nested space with every leaf kind, per-cell bounds, a negative low and a
Dict inside a Tuple meets the hypotheses; the specifications are evaluated on it for all of
its 288 points / numbers. -/

def exSpace04 : Space :=
  .tuple [.discrete 3 0,
          .dict [0, 2] [.multiBinary 2, .box [2, 1] [-1, 0] [1, 1] true],
          .multiDiscrete [2, 2]]

example : WF04 exSpace04 = true := by decide
example : card exSpace04 = 288 := by decide
example : mem exSpace04 (.tuple [.scalar (.int 2), .dict [0, 2] [.arr [.int 1, .int 0], .arr [.int (-1), .int 1]],
    .arr [.int 1, .int 0]]) = true := by decide
example : ravel exSpace04 (.tuple [.scalar (.int 2), .dict [0, 2] [.arr [.int 1, .int 0], .arr [.int (-1), .int 1]],
    .arr [.int 1, .int 0]]) = some 246 := by decide
example : (List.range (card exSpace04)).all (fun k => specUnravel exSpace04 k (outUnravel exSpace04 k) &&
    (match unravel exSpace04 k with
     | some p => specRavel exSpace04 p (outRavel exSpace04 p)
     | none => false)) = true := by decide +kernel
/-- the excluded spaces really are excluded, and the specification really fails there:
K1 `Discrete(3, start=1)`: the point 3 is ravelled to 3, which is not below 3 -/
example : WF04 (.discrete 3 1) = false ∧ mem (.discrete 3 1) (.scalar (.int 3)) = true ∧
    specRavel (.discrete 3 1) (.scalar (.int 3)) (outRavel (.discrete 3 1) (.scalar (.int 3))) = false := by
  decide
/-- K3 `MultiDiscrete([2^32+1, 2^32])` has more than `2^63` points -/
example : WF04 (.multiDiscrete [2 ^ 32 + 1, 2 ^ 32]) = false ∧ wf (.multiDiscrete [2 ^ 32 + 1, 2 ^ 32]) = true := by
  decide +kernel

end Abmarl
