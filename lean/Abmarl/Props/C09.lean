import Abmarl.Lemmas.ObserversViews
import Abmarl.Props.C12
/-!
# C09 — Grid observers report exactly what is in view

Model: `Model/Observers.lean` (the five `get_obs`, the `local_grid` slicing, the paste; the mask
is C10's `Mask.maskOf`).  Specification: `Spec/Observers.lean` (`specAbsolute`, `specCentered`,
`specStacked`, `specPosition`, `specAmmo`, written from the property text over inputs and
outcome only).

Every theorem is for **all** worlds satisfying the consistency invariant `WInv` (C03) — all grid
sizes, all overlap pile-ups, dead agents, blocking layouts —, **all** agents (supported or not),
**all** view ranges (`cfg.viewRange` is any natural number, also larger than the grid), both
`observe_self` values and **all tapes** (all random choices).  Hypotheses, stated explicitly:

* `hI : WInv w` — the world is consistent (cells ↔ positions, C03);
* `hpos : inGrid (pos a)` — the observer's stored position is a grid cell.  For an *active*
  observer this follows from `WInv` (`observer_inGrid_of_active`); a dead observer keeps the
  cell it died on;
* `henc : ∀ b < n, 0 < enc b` — encodings are positive (the agent class rejects −2, −1, 0;
  negative encodings ≤ −3 are accepted by the setter but would collide with nothing and are
  excluded here because `max encoding` must be a valid number of layers).

* `absolute_spec`, `centered_spec`, `stacked_spec`, `position_spec`, `ammo_spec` — `get_obs`
  never raises and its observation satisfies the judge; `C09_observers` bundles them.
* `window_embedding` (Lemmas/Observers.lean), `paste_spec` (Lemmas/ObserversViews.lean) — the
  index arithmetic; `choice_mem` — a random choice is a member, for every tape.
* `*_in_declared_space` — every observation satisfying the judge lies in the declared `Box`
  (C02's clause; derived from the judge, so it transfers to any implementation outcome the judge
  accepts).
* readings: `cenCellOK_reading`, `absCellOK_reading`, `stkCellOK_reading`, `hiddenFrom_iff`,
  `absolute_dead_observer_no_minus_one`, `absolute_own_cell`, `reportable_not_self`, ….
-/
namespace Abmarl
namespace Observers
open World

/-! ## The five observers -/

/-- **C09, centred view** (`PositionCenteredEncodingObserver`), both `observe_self` settings. -/
theorem centered_spec (w : World) (a : Aid) (os : Bool) (t : Tape) (hI : w.WInv = true)
    (hpos : w.inGrid (w.stOf a).pos = true) (henc : ∀ b < w.n, 0 < w.encOf b) :
    ∃ o t', getObsCentered w a os t = .ok (o, t') ∧ specCentered w a os o = true := by
  by_cases hobs : (w.cfgOf a).observing = true
  · obtain ⟨R, hR⟩ : ∃ R, R = (w.cfgOf a).viewRange := ⟨_, rfl⟩
    obtain ⟨g, t', hg, hP⟩ := convolve_ok R _ _ (cen_window_cell w a os R hI hpos henc) t
    refine ⟨.grid g, t', ?_, ?_⟩
    · simp only [getObsCentered, hobs, hpos, ← hR, hg, Bool.not_true, Bool.false_eq_true, if_false]
    · simp only [specCentered, hobs, if_true, ← hR]
      rw [specTab_iff]; exact hP
  · have hobs' : (w.cfgOf a).observing = false := by simpa using hobs
    exact ⟨.unsupported, t, by simp [getObsCentered, hobs'], by simp [specCentered, hobs']⟩

/-- **C09, absolute view** (`AbsoluteEncodingObserver`). -/
theorem absolute_spec (w : World) (a : Aid) (t : Tape) (hI : w.WInv = true)
    (hpos : w.inGrid (w.stOf a).pos = true) (henc : ∀ b < w.n, 0 < w.encOf b) :
    ∃ o t', getObsAbsolute w a t = .ok (o, t') ∧ specAbsolute w a o = true := by
  by_cases hobs : (w.cfgOf a).observing = true
  · obtain ⟨R, hR⟩ : ∃ R, R = (w.cfgOf a).viewRange := ⟨_, rfl⟩
    obtain ⟨g, t', hg, hP⟩ := convolve_ok R _ _ (abs_window_cell w a R hI hpos henc) t
    refine ⟨.grid (paste w.rows w.cols (w.stOf a).pos R g), t', ?_, ?_⟩
    · simp only [getObsAbsolute, hobs, hpos, ← hR, hg, Bool.not_true, Bool.false_eq_true, if_false]
    · simp only [specAbsolute, hobs, if_true, ← hR]
      rw [specTab_iff]; exact paste_spec w a R g hpos hP
  · have hobs' : (w.cfgOf a).observing = false := by simpa using hobs
    exact ⟨.unsupported, t, by simp [getObsAbsolute, hobs'], by simp [specAbsolute, hobs']⟩

/-- **C09, stacked view** (`StackedPositionCenteredEncodingObserver`): exact counts per encoding. -/
theorem stacked_spec (w : World) (a : Aid) (t : Tape) (ha : a < w.n)
    (hpos : w.inGrid (w.stOf a).pos = true) (henc : ∀ b < w.n, 0 < w.encOf b) :
    ∃ o t', getObsStacked w a t = .ok (o, t') ∧ specStacked w a o = true := by
  by_cases hobs : (w.cfgOf a).observing = true
  · obtain ⟨R, hR⟩ : ∃ R, (w.cfgOf a).viewRange = R := ⟨_, rfl⟩
    have hE : ¬ maxEnc w < 0 := by have := maxEnc_pos w ha henc; omega
    refine ⟨.stack (tab (2*R+1) (2*R+1) fun i j => (List.range (maxEnc w).toNat).map fun e =>
      stkCell w (at2 (maskFor w a R) i j false) (at2 (localGrid w a R) i j none) e), t, ?_, ?_⟩
    · simp only [getObsStacked, hobs, hpos, hE, hR, Bool.not_true, Bool.false_eq_true, if_false]
    · simp only [specStacked, hobs, if_true, hR, topEnc_eq w (Nat.lt_of_le_of_lt (Nat.zero_le _) ha)]
      rw [specTab_iff]
      apply TabP_tab
      intro i hi j hj
      simp only [List.length_map, List.length_range, beq_self_eq_true, Bool.true_and, List.all_eq_true,
        List.mem_range]
      intro e he
      rw [List.getElem?_map, List.getElem?_range he]
      exact stk_window_cell w a R hpos i hi j hj e
  · have hobs' : (w.cfgOf a).observing = false := by simpa using hobs
    exact ⟨.unsupported, t, by simp [getObsStacked, hobs'], by simp [specStacked, hobs']⟩

/-- **C09, position observer**: the agent's true position (no hypothesis at all). -/
theorem position_spec (w : World) (a : Aid) (t : Tape) :
    ∃ o t', getObsPosition w a t = .ok (o, t') ∧ specPosition w a o = true := by
  cases hobs : (w.cfgOf a).observing
  · exact ⟨.unsupported, t, by simp [getObsPosition, hobs], by simp [specPosition, hobs]⟩
  · exact ⟨.vec (w.stOf a).pos, t, by simp [getObsPosition, hobs], by simp [specPosition, hobs]⟩

/-- **C09, ammunition observer**: the agent's true ammunition (no hypothesis at all). -/
theorem ammo_spec (w : World) (a : Aid) (t : Tape) :
    ∃ o t', getObsAmmo w a t = .ok (o, t') ∧ specAmmo w a o = true := by
  cases hsup : ((w.cfgOf a).hasAmmo && (w.cfgOf a).observing)
  · exact ⟨.unsupported, t, by simp only [getObsAmmo, hsup]; rfl, by simp [specAmmo, hsup]⟩
  · exact ⟨.scalar (w.stOf a).ammo, t, by simp only [getObsAmmo, hsup]; rfl, by simp [specAmmo, hsup]⟩

/-- an active observer's position is a grid cell (so `hpos` is a hypothesis about dead observers only) -/
theorem observer_inGrid_of_active {w : World} {a : Aid} (hI : w.WInv = true) (ha : a < w.n)
    (hact : (w.stOf a).active = true) : w.inGrid (w.stOf a).pos = true :=
  (placed_of_WInv hI ha hact).inG

/-- **C09**: for every consistent world, every agent, every built-in observer (every option) and
every tape, `get_obs` returns without error and the observation satisfies the judge `specC09`. -/
theorem C09_observers (w : World) (a : Aid) (k : Kind) (t : Tape) (hI : w.WInv = true) (ha : a < w.n)
    (hpos : w.inGrid (w.stOf a).pos = true) (henc : ∀ b < w.n, 0 < w.encOf b) :
    ∃ o t', getObs w a k t = .ok (o, t') ∧ specC09 w a k (.ok o) = true := by
  cases k with
  | absolute => exact absolute_spec w a t hI hpos henc
  | centered os => exact centered_spec w a os t hI hpos henc
  | stacked => exact stacked_spec w a t ha hpos henc
  | position => exact position_spec w a t
  | ammo => exact ammo_spec w a t

/-! ## Readings: what the cell clauses say -/

theorem beq_beq_iff (v k : Int) (b : Bool) : (v == k) = b ↔ (v = k ↔ b = true) := by
  cases b <;> simp

/-- centred view, one cell -/
theorem cenCellOK_reading (w : World) (hidden inG : Bool) (rep : List Aid) (v : Int) :
    cenCellOK w hidden inG rep v = true ↔
      (v = -2 ↔ hidden = true) ∧
      (v = -1 ↔ hidden = false ∧ inG = false) ∧
      (v = 0 ↔ hidden = false ∧ inG = true ∧ rep = []) ∧
      (v ≠ -2 → v ≠ -1 → v ≠ 0 → ∃ b ∈ rep, w.encOf b = v) := by
  unfold cenCellOK
  simp only [Bool.and_eq_true, beq_beq_iff, Bool.or_eq_true, beq_iff_eq, List.any_eq_true,
    Bool.not_eq_true', List.isEmpty_iff, and_assoc]
  constructor
  · rintro ⟨h1, h2, h3, h4⟩
    refine ⟨h1, h2, h3, fun n1 n2 n3 => ?_⟩
    rcases h4 with ((h | h) | h) | h
    · exact absurd h n1
    · exact absurd h n2
    · exact absurd h n3
    · exact h
  · rintro ⟨h1, h2, h3, h4⟩
    refine ⟨h1, h2, h3, ?_⟩
    by_cases n1 : v = -2
    · exact Or.inl (Or.inl (Or.inl n1))
    · by_cases n2 : v = -1
      · exact Or.inl (Or.inl (Or.inr n2))
      · by_cases n3 : v = 0
        · exact Or.inl (Or.inr n3)
        · exact Or.inr (h4 n1 n2 n3)

/-- absolute view, one grid cell -/
theorem absCellOK_reading (w : World) (a : Aid) (masked : Bool) (occ : List Aid) (v : Int) :
    absCellOK w a masked occ v = true ↔
      (v = -2 ↔ masked = true) ∧
      (v = -1 ↔ masked = false ∧ a ∈ occ) ∧
      (v = 0 ↔ masked = false ∧ occ = []) ∧
      (v ≠ -2 → v ≠ -1 → v ≠ 0 → ∃ b ∈ occ, b ≠ a ∧ w.encOf b = v) := by
  unfold absCellOK
  simp only [Bool.and_eq_true, beq_beq_iff, Bool.or_eq_true, beq_iff_eq, List.any_eq_true,
    Bool.not_eq_true', List.isEmpty_iff, and_assoc, List.contains_iff_mem, bne_iff_ne, ne_eq]
  constructor
  · rintro ⟨h1, h2, h3, h4⟩
    refine ⟨h1, h2, h3, fun n1 n2 n3 => ?_⟩
    rcases h4 with ((h | h) | h) | h
    · exact absurd h n1
    · exact absurd h n2
    · exact absurd h n3
    · exact h
  · rintro ⟨h1, h2, h3, h4⟩
    refine ⟨h1, h2, h3, ?_⟩
    by_cases n1 : v = -2
    · exact Or.inl (Or.inl (Or.inl n1))
    · by_cases n2 : v = -1
      · exact Or.inl (Or.inl (Or.inr n2))
      · by_cases n3 : v = 0
        · exact Or.inl (Or.inr n3)
        · exact Or.inr (h4 n1 n2 n3)

/-- stacked view, one entry: the two markers, and otherwise the **exact** count -/
theorem stkCellOK_reading (w : World) (hidden inG : Bool) (occ : List Aid) (e : Nat) (v : Int) :
    stkCellOK w hidden inG occ e v = true ↔
      (v = -2 ↔ hidden = true) ∧
      (v = -1 ↔ hidden = false ∧ inG = false) ∧
      (hidden = false → inG = true →
        v = ((occ.countP fun b => w.encOf b == (e : Int) + 1 : Nat) : Int)) := by
  unfold stkCellOK
  simp only [Bool.and_eq_true, beq_beq_iff, Bool.or_eq_true, beq_iff_eq, Bool.not_eq_true', and_assoc]
  constructor
  · rintro ⟨h1, h2, h3⟩
    refine ⟨h1, h2, fun n1 n2 => ?_⟩
    rcases h3 with (h | h) | h
    · rw [h] at n1; cases n1
    · rw [h] at n2; cases n2
    · exact h
  · rintro ⟨h1, h2, h3⟩
    refine ⟨h1, h2, ?_⟩
    cases hidden
    · cases inG
      · exact Or.inl (Or.inr rfl)
      · exact Or.inr (h3 rfl rfl)
    · exact Or.inl (Or.inl rfl)

/-- "hidden" is: some blocking, active agent whose offset lies within the view window has the
cell in its shadow by C10's rule -/
theorem hiddenFrom_iff (w : World) (a : Aid) (R : Nat) (r c : Int) :
    hiddenFrom w a R r c = true ↔
      ∃ b < w.n, (w.cfgOf b).blocking = true ∧ (w.stOf b).active = true ∧
        Mask.inWin R (offsetOf w a b).1 = true ∧ Mask.inWin R (offsetOf w a b).2 = true ∧
        Mask.hiddenSpec (offsetOf w a b).1 (offsetOf w a b).2 r c = true := by
  unfold hiddenFrom allAgents
  simp only [List.any_eq_true, List.mem_range, Bool.and_eq_true, and_assoc]

/-- with self-observation off the observer is never among the reportable occupants -/
theorem reportable_not_self (w : World) (a : Aid) (q : Pos) : a ∉ reportable w a false q := by
  simp [reportable]

/-- with self-observation on every occupant is reportable -/
theorem reportable_all (w : World) (a : Aid) (q : Pos) : reportable w a true q = w.cell q := by
  simp [reportable]

/-- what the judge of the centred view says, entry by entry -/
theorem specCentered_reading (w : World) (a : Aid) (os : Bool) (g : List (List Int))
    (hobs : (w.cfgOf a).observing = true) :
    specCentered w a os (.grid g) = true ↔
      TabP (2*(w.cfgOf a).viewRange+1) (2*(w.cfgOf a).viewRange+1) (fun i j v =>
        cenCellOK w
          (hiddenFrom w a (w.cfgOf a).viewRange ((i : Int) - ((w.cfgOf a).viewRange : Int))
            ((j : Int) - ((w.cfgOf a).viewRange : Int)))
          (w.inGrid (winPos (w.stOf a).pos (w.cfgOf a).viewRange i j))
          (if w.inGrid (winPos (w.stOf a).pos (w.cfgOf a).viewRange i j) = true
            then reportable w a os (winPos (w.stOf a).pos (w.cfgOf a).viewRange i j) else []) v = true) g := by
  simp only [specCentered, hobs, if_true]
  rw [specTab_iff]

/-- what the judge of the absolute view says: the array has the shape of the grid and entry
`[gi, gj]` is about the grid cell `(gi, gj)` itself (true coordinates) -/
theorem specAbsolute_reading (w : World) (a : Aid) (g : List (List Int))
    (hobs : (w.cfgOf a).observing = true) :
    specAbsolute w a (.grid g) = true ↔
      TabP w.rows w.cols (fun gi gj v =>
        absCellOK w a
          (!(Mask.inWin (w.cfgOf a).viewRange ((gi : Int) - (w.stOf a).pos.1) &&
              Mask.inWin (w.cfgOf a).viewRange ((gj : Int) - (w.stOf a).pos.2)) ||
            hiddenFrom w a (w.cfgOf a).viewRange ((gi : Int) - (w.stOf a).pos.1) ((gj : Int) - (w.stOf a).pos.2))
          (w.cell ((gi : Int), (gj : Int))) v = true) g := by
  simp only [specAbsolute, hobs, if_true]
  rw [specTab_iff]

/-- what the judge of the stacked view says: shape `(2R+1, 2R+1, E)` with `E` the largest
encoding, and entry `[i, j, e]` satisfies the stacked cell clause for encoding `e + 1` -/
theorem specStacked_reading (w : World) (a : Aid) (g : List (List (List Int)))
    (hobs : (w.cfgOf a).observing = true) (hn : 0 < w.n) :
    specStacked w a (.stack g) = true ↔
      TabP (2*(w.cfgOf a).viewRange+1) (2*(w.cfgOf a).viewRange+1) (fun i j layers =>
        layers.length = (maxEnc w).toNat ∧ ∀ e < (maxEnc w).toNat, ∃ v, layers[e]? = some v ∧
          stkCellOK w
            (hiddenFrom w a (w.cfgOf a).viewRange ((i : Int) - ((w.cfgOf a).viewRange : Int))
              ((j : Int) - ((w.cfgOf a).viewRange : Int)))
            (w.inGrid (winPos (w.stOf a).pos (w.cfgOf a).viewRange i j))
            (if w.inGrid (winPos (w.stOf a).pos (w.cfgOf a).viewRange i j) = true
              then w.cell (winPos (w.stOf a).pos (w.cfgOf a).viewRange i j) else []) e v = true) g := by
  simp only [specStacked, hobs, if_true, topEnc_eq w hn]
  rw [specTab_iff]
  have key : ∀ (i j : Nat) (layers : List Int),
      ((layers.length == (maxEnc w).toNat) && (List.range (maxEnc w).toNat).all fun e =>
        match layers[e]? with
        | none => false
        | some v => stkCellOK w
            (hiddenFrom w a (w.cfgOf a).viewRange ((i : Int) - ((w.cfgOf a).viewRange : Int))
              ((j : Int) - ((w.cfgOf a).viewRange : Int)))
            (w.inGrid (winPos (w.stOf a).pos (w.cfgOf a).viewRange i j))
            (if w.inGrid (winPos (w.stOf a).pos (w.cfgOf a).viewRange i j) = true
              then w.cell (winPos (w.stOf a).pos (w.cfgOf a).viewRange i j) else []) e v) = true ↔
      (layers.length = (maxEnc w).toNat ∧ ∀ e < (maxEnc w).toNat, ∃ v, layers[e]? = some v ∧
          stkCellOK w
            (hiddenFrom w a (w.cfgOf a).viewRange ((i : Int) - ((w.cfgOf a).viewRange : Int))
              ((j : Int) - ((w.cfgOf a).viewRange : Int)))
            (w.inGrid (winPos (w.stOf a).pos (w.cfgOf a).viewRange i j))
            (if w.inGrid (winPos (w.stOf a).pos (w.cfgOf a).viewRange i j) = true
              then w.cell (winPos (w.stOf a).pos (w.cfgOf a).viewRange i j) else []) e v = true) := by
    intro i j layers
    simp only [Bool.and_eq_true, beq_iff_eq, List.all_eq_true, List.mem_range]
    constructor
    · rintro ⟨h1, h2⟩
      refine ⟨h1, fun e he => ?_⟩
      have := h2 e he
      cases hl : layers[e]? with
      | none => rw [hl] at this; cases this
      | some v => rw [hl] at this; exact ⟨v, rfl, this⟩
    · rintro ⟨h1, h2⟩
      refine ⟨h1, fun e he => ?_⟩
      obtain ⟨v, hv, hok⟩ := h2 e he
      rw [hv]; exact hok
  constructor
  · intro h; exact TabP_mono h fun i _ j _ layers hl => (key i j layers).mp hl
  · intro h; exact TabP_mono h fun i _ j _ layers hl => (key i j layers).mpr hl

/-- an unsupported agent gets `{}` from every grid observer -/
theorem unsupported_reading (w : World) (a : Aid) (o : Obs) (hobs : (w.cfgOf a).observing = false) :
    (specAbsolute w a o = true ↔ o = .unsupported) ∧
    (∀ os, specCentered w a os o = true ↔ o = .unsupported) ∧
    (specStacked w a o = true ↔ o = .unsupported) ∧
    (specPosition w a o = true ↔ o = .unsupported) := by
  simp [specAbsolute, specCentered, specStacked, specPosition, hobs]

theorem specPosition_reading (w : World) (a : Aid) (o : Obs) (hobs : (w.cfgOf a).observing = true) :
    specPosition w a o = true ↔ o = .vec (w.stOf a).pos := by
  simp [specPosition, hobs]

theorem specAmmo_reading (w : World) (a : Aid) (o : Obs)
    (hsup : (w.cfgOf a).hasAmmo = true ∧ (w.cfgOf a).observing = true) :
    specAmmo w a o = true ↔ o = .scalar (w.stOf a).ammo := by
  simp [specAmmo, hsup.1, hsup.2]

/-! ## The observer's own cell in the absolute view -/

/-- nothing hides the viewer's own cell -/
theorem hiddenSpec_origin (rd cd : Int) : Mask.hiddenSpec rd cd 0 0 = false := by
  rw [← Bool.not_eq_true, Mask.hiddenSpec_iff, Mask.HiddenP]
  rintro ⟨h0, _, h3, h4, _⟩
  have hr : rd = 0 := by
    rcases Int.lt_trichotomy rd 0 with h | h | h
    · rw [Int.sign_eq_neg_one_of_neg h] at h3; omega
    · exact h
    · rw [Int.sign_eq_one_of_pos h] at h3; omega
  have hc : cd = 0 := by
    rcases Int.lt_trichotomy cd 0 with h | h | h
    · rw [Int.sign_eq_neg_one_of_neg h] at h4; omega
    · exact h
    · rw [Int.sign_eq_one_of_pos h] at h4; omega
  exact h0 ⟨hr, hc⟩

theorem hiddenFrom_origin (w : World) (a : Aid) (R : Nat) : hiddenFrom w a R 0 0 = false := by
  rw [← Bool.not_eq_true, hiddenFrom_iff]
  rintro ⟨b, _, _, _, _, _, h⟩
  rw [hiddenSpec_origin] at h; cases h

/-- a **dead observer** (on no cell, by the consistency invariant) sees no −1 anywhere:
"own cell" means "the observer is among the occupants", not "the observer's stored position" -/
theorem absolute_dead_observer_no_minus_one (w : World) (a : Aid) (g : List (List Int))
    (hI : w.WInv = true) (hobs : (w.cfgOf a).observing = true) (hdead : (w.stOf a).active = false)
    (h : specAbsolute w a (.grid g) = true) :
    ∀ gi < w.rows, ∀ gj < w.cols, ∀ row v, g[gi]? = some row → row[gj]? = some v → v ≠ -1 := by
  rw [specAbsolute_reading w a g hobs] at h
  intro gi hgi gj hgj row v hrow hv hm1
  obtain ⟨row', hr', _, hrow'⟩ := h.2 gi hgi
  rw [hrow] at hr'; cases hr'
  obtain ⟨v', hv', hok⟩ := hrow' gj hgj
  rw [hv] at hv'; cases hv'
  rw [absCellOK_reading] at hok
  have hmem := (hok.2.1.mp hm1).2
  have hact := (cell_of_WInv hI hmem).2.1
  rw [hdead] at hact; cases hact

/-- an **active observer** sees −1 at its own position and nowhere else -/
theorem absolute_own_cell (w : World) (a : Aid) (g : List (List Int))
    (hI : w.WInv = true) (ha : a < w.n) (hobs : (w.cfgOf a).observing = true)
    (hact : (w.stOf a).active = true) (h : specAbsolute w a (.grid g) = true) :
    ∀ gi < w.rows, ∀ gj < w.cols, ∀ row v, g[gi]? = some row → row[gj]? = some v →
      (v = -1 ↔ ((gi : Int), (gj : Int)) = (w.stOf a).pos) := by
  have hP := placed_of_WInv hI ha hact
  rw [specAbsolute_reading w a g hobs] at h
  intro gi hgi gj hgj row v hrow hv
  obtain ⟨row', hr', _, hrow'⟩ := h.2 gi hgi
  rw [hrow] at hr'; cases hr'
  obtain ⟨v', hv', hok⟩ := hrow' gj hgj
  rw [hv] at hv'; cases hv'
  rw [absCellOK_reading] at hok
  have hq : w.inGrid ((gi : Int), (gj : Int)) = true := by
    rw [inGrid_iff]; simp only []; omega
  constructor
  · intro hm1
    have hmem := (hok.2.1.mp hm1).2
    exact idx_inj hq hP.inG (hP.only _ hmem)
  · intro heq
    apply hok.2.1.mpr
    have h1 : (gi : Int) = (w.stOf a).pos.1 := congrArg Prod.fst heq
    have h2 : (gj : Int) = (w.stOf a).pos.2 := congrArg Prod.snd heq
    refine ⟨?_, by rw [heq]; exact hP.mem⟩
    rw [h1, h2, Int.sub_self, Int.sub_self, hiddenFrom_origin]
    simp [Mask.inWin]

/-! ## Declared observation spaces (C02's clause, reused there) -/

theorem cell_enc_bounds {w : World} (hI : w.WInv = true) (henc : ∀ b < w.n, 0 < w.encOf b)
    {q : Pos} {b : Aid} (hb : b ∈ w.cell q) : 0 < w.encOf b ∧ w.encOf b ≤ maxEnc w :=
  ⟨henc b (cell_of_WInv hI hb).1, encOf_le_maxEnc w (cell_of_WInv hI hb).1⟩

/-- every observation accepted by the absolute judge lies in `Box(-2, max encoding, (rows, cols))` -/
theorem absolute_in_declared_space (w : World) (a : Aid) (o : Obs) (hI : w.WInv = true) (ha : a < w.n)
    (henc : ∀ b < w.n, 0 < w.encOf b) (h : specAbsolute w a o = true) :
    declared w a .absolute o = true := by
  have hE := maxEnc_pos w ha henc
  by_cases hobs : (w.cfgOf a).observing = true
  · cases o with
    | grid g =>
      rw [specAbsolute_reading w a g hobs] at h
      simp only [declared, topEnc_eq w (Nat.lt_of_le_of_lt (Nat.zero_le _) ha), inBox2]
      rw [specTab_iff]
      refine TabP_mono h fun gi _ gj _ v hv => ?_
      rw [absCellOK_reading] at hv
      simp only [Bool.and_eq_true, decide_eq_true_eq]
      by_cases n1 : v = -2
      · omega
      · by_cases n2 : v = -1
        · omega
        · by_cases n3 : v = 0
          · omega
          · obtain ⟨b, hb, _, hbv⟩ := hv.2.2.2 n1 n2 n3
            have := cell_enc_bounds hI henc hb
            omega
    | unsupported => rfl
    | stack _ => simp [specAbsolute, hobs] at h
    | vec _ => simp [specAbsolute, hobs] at h
    | scalar _ => simp [specAbsolute, hobs] at h
  · have hobs' : (w.cfgOf a).observing = false := by simpa using hobs
    have : o = .unsupported := by simpa [specAbsolute, hobs'] using h
    subst this; rfl

/-- every observation accepted by the centred judge lies in `Box(-2, max encoding, (2R+1, 2R+1))` -/
theorem centered_in_declared_space (w : World) (a : Aid) (os : Bool) (o : Obs) (hI : w.WInv = true)
    (ha : a < w.n) (henc : ∀ b < w.n, 0 < w.encOf b) (h : specCentered w a os o = true) :
    declared w a (.centered os) o = true := by
  have hE := maxEnc_pos w ha henc
  by_cases hobs : (w.cfgOf a).observing = true
  · cases o with
    | grid g =>
      rw [specCentered_reading w a os g hobs] at h
      simp only [declared, topEnc_eq w (Nat.lt_of_le_of_lt (Nat.zero_le _) ha), inBox2]
      rw [specTab_iff]
      refine TabP_mono h fun i _ j _ v hv => ?_
      rw [cenCellOK_reading] at hv
      simp only [Bool.and_eq_true, decide_eq_true_eq]
      by_cases n1 : v = -2
      · omega
      · by_cases n2 : v = -1
        · omega
        · by_cases n3 : v = 0
          · omega
          · obtain ⟨b, hb, hbv⟩ := hv.2.2.2 n1 n2 n3
            have hb' : b ∈ w.cell (winPos (w.stOf a).pos (w.cfgOf a).viewRange i j) := by
              by_cases hin : w.inGrid (winPos (w.stOf a).pos (w.cfgOf a).viewRange i j) = true
              · rw [if_pos hin] at hb
                unfold reportable at hb
                cases os
                · simp only [Bool.false_eq_true, if_false] at hb
                  exact (List.mem_filter.mp hb).1
                · simpa using hb
              · rw [if_neg hin] at hb; cases hb
            have := cell_enc_bounds hI henc hb'
            omega
    | unsupported => rfl
    | stack _ => simp [specCentered, hobs] at h
    | vec _ => simp [specCentered, hobs] at h
    | scalar _ => simp [specCentered, hobs] at h
  · have hobs' : (w.cfgOf a).observing = false := by simpa using hobs
    have : o = .unsupported := by simpa [specCentered, hobs'] using h
    subst this; rfl

/-- every observation accepted by the stacked judge lies in
`Box(-2, number of agents, (2R+1, 2R+1, max encoding))` -/
theorem stacked_in_declared_space (w : World) (a : Aid) (o : Obs) (hI : w.WInv = true)
    (ha : a < w.n) (h : specStacked w a o = true) :
    declared w a .stacked o = true := by
  have hn : 0 < w.n := Nat.lt_of_le_of_lt (Nat.zero_le _) ha
  by_cases hobs : (w.cfgOf a).observing = true
  · cases o with
    | stack g =>
      simp only [specStacked, hobs, if_true, topEnc_eq w hn] at h
      simp only [declared, topEnc_eq w hn]
      rw [specTab_iff] at h ⊢
      refine TabP_mono h fun i _ j _ layers hv => ?_
      simp only [Bool.and_eq_true, beq_iff_eq, List.all_eq_true, List.mem_range, decide_eq_true_eq] at hv ⊢
      refine ⟨hv.1, fun v hvmem => ?_⟩
      obtain ⟨e, he, hve⟩ := List.getElem_of_mem hvmem
      have hcell := hv.2 e (by omega)
      rw [List.getElem?_eq_getElem he, hve] at hcell
      simp only [] at hcell
      rw [stkCellOK_reading] at hcell
      obtain ⟨h1, h2, h3⟩ := hcell
      -- the count is bounded by the number of occupants, which is at most the number of agents
      have hcount : ∀ occ : List Aid, occ.length ≤ w.n →
          (((occ.countP fun b => w.encOf b == (e : Int) + 1 : Nat) : Int)) ≤ (w.n : Int) := by
        intro occ hocc
        have := List.countP_le_length (p := fun b => w.encOf b == (e : Int) + 1) (l := occ)
        omega
      cases hh : hiddenFrom w a (w.cfgOf a).viewRange ((i : Int) - ((w.cfgOf a).viewRange : Int))
          ((j : Int) - ((w.cfgOf a).viewRange : Int)) with
      | true => rw [hh] at h1; have := h1.mpr rfl; omega
      | false =>
        rw [hh] at h2 h3
        cases hg : w.inGrid (winPos (w.stOf a).pos (w.cfgOf a).viewRange i j) with
        | false => rw [hg] at h2; have := h2.mpr ⟨rfl, rfl⟩; omega
        | true =>
          rw [hg] at h3
          have := h3 rfl rfl
          rw [if_pos rfl] at this
          have hb := hcount _ (cell_length_le hI (winPos (w.stOf a).pos (w.cfgOf a).viewRange i j))
          omega
    | unsupported => rfl
    | grid _ => simp [specStacked, hobs] at h
    | vec _ => simp [specStacked, hobs] at h
    | scalar _ => simp [specStacked, hobs] at h
  · have hobs' : (w.cfgOf a).observing = false := by simpa using hobs
    have : o = .unsupported := by simpa [specStacked, hobs'] using h
    subst this; rfl

/-- the reported position lies in `Box([0, 0], [rows-1, cols-1])` -/
theorem position_in_declared_space (w : World) (a : Aid) (o : Obs)
    (hpos : w.inGrid (w.stOf a).pos = true) (h : specPosition w a o = true) :
    declared w a .position o = true := by
  rw [inGrid_iff] at hpos
  cases hobs : (w.cfgOf a).observing
  · have : o = .unsupported := by simpa [specPosition, hobs] using h
    subst this; rfl
  · have : o = .vec (w.stOf a).pos := by simpa [specPosition, hobs] using h
    subst this
    simp only [declared, Bool.and_eq_true, decide_eq_true_eq]
    omega

/-- the reported ammunition lies in `Box(0, initial_ammo, (1,))` -/
theorem ammo_in_declared_space (w : World) (a : Aid) (o : Obs) (hI : w.WInv = true) (ha : a < w.n)
    (hinit : 0 ≤ (w.cfgOf a).initAmmo) (h : specAmmo w a o = true) :
    declared w a .ammo o = true := by
  cases hsup : ((w.cfgOf a).hasAmmo && (w.cfgOf a).observing)
  · have : o = .unsupported := by simpa [specAmmo, hsup] using h
    subst this; rfl
  · have : o = .scalar (w.stOf a).ammo := by simpa [specAmmo, hsup] using h
    subst this
    simp only [Bool.and_eq_true] at hsup
    simp only [WInv, Bool.and_eq_true, List.all_eq_true] at hI
    have hA := hI.1.2 a (by simpa [allAgents] using ha)
    simp only [wAgent, hsup.1, Bool.not_true, Bool.false_or, Bool.and_eq_true, decide_eq_true_eq] at hA
    simp only [declared, Bool.and_eq_true, decide_eq_true_eq]
    have h1 := hA.1.1.2
    have h2 := hA.1.2
    omega

/-! ## Non-vacuity: a 3×3 world with a blocker, a pile-up, a hidden agent and a dead observer

```
      col 0      col 1        col 2
row 0 observer 0 blocker 1    agent 4 (enc 2, hidden behind the blocker)
row 1 .          2 (enc 2) + 3 (enc 4)   .  (hidden)
row 2 .          .            . (agent 5, enc 1, died here: on no cell; it observes with range 1)
```
-/

def exWorld : World :=
  { rows := 3, cols := 3, overlap := [(2, [4]), (4, [2])],
    cells := [[0], [1], [4],  [], [2, 3], [],  [], [], []],
    cfg := [{ enc := 1, observing := true, viewRange := 2, hasAmmo := true, initAmmo := 5 },
            { enc := 3, blocking := true }, { enc := 2 }, { enc := 4 }, { enc := 2 },
            { enc := 1, observing := true, viewRange := 1 }],
    st := [{ pos := (0, 0), ammo := 3 }, { pos := (0, 1) }, { pos := (1, 1) }, { pos := (1, 1) },
           { pos := (0, 2) }, { pos := (2, 2), health := 0, active := false }] }

/-- the hypotheses of the theorems are inhabited by this world, for the live and the dead observer -/
example : exWorld.WInv = true ∧ (∀ b < exWorld.n, 0 < exWorld.encOf b) ∧
    exWorld.inGrid (exWorld.stOf 0).pos = true ∧ exWorld.inGrid (exWorld.stOf 5).pos = true := by decide

/-- centred view from the corner, range 2, self-observation on; three draws in row-major order:
own cell, blocker, pile-up (third tape value 1 picks the second occupant, encoding 4).  Rows/columns
beyond the border are −1 — except the cell `(−1, 2)`, which lies in the blocker's shadow: −2 wins. -/
example : getObsCentered exWorld 0 true [0, 0, 1] =
    .ok (.grid [[-1, -1, -1, -1, -1],
                [-1, -1, -1, -1, -2],
                [-1, -1,  1,  3, -2],
                [-1, -1,  0,  4, -2],
                [-1, -1,  0,  0,  0]], []) := by decide

/-- self-observation off: the own cell reads 0 and draws nothing (the tape value 1 is left over) -/
example : getObsCentered exWorld 0 false [0, 0, 1] =
    .ok (.grid [[-1, -1, -1, -1, -1],
                [-1, -1, -1, -1, -2],
                [-1, -1,  0,  3, -2],
                [-1, -1,  0,  2, -2],
                [-1, -1,  0,  0,  0]], [1]) := by decide

/-- absolute view: true coordinates, −1 on the own cell (no draw there), the hidden agent 4 is −2 -/
example : getObsAbsolute exWorld 0 [0, 1] =
    .ok (.grid [[-1, 3, -2],
                [ 0, 4, -2],
                [ 0, 0,  0]], []) := by decide

/-- the dead observer (range 1, stored position (2, 2)) sees the pile-up, cells beyond its window
are −2, and there is no −1 anywhere -/
example : getObsAbsolute exWorld 5 [1] =
    .ok (.grid [[-2, -2, -2],
                [-2,  4,  0],
                [-2,  0,  0]], []) := by decide

/-- stacked view: layer `e` counts encoding `e + 1`; the pile-up cell holds one agent of encoding 2
and one of encoding 4; markers are uniform across the layers -/
example : getObsStacked exWorld 0 [7] =
    .ok (.stack
      [[[-1, -1, -1, -1], [-1, -1, -1, -1], [-1, -1, -1, -1], [-1, -1, -1, -1], [-1, -1, -1, -1]],
       [[-1, -1, -1, -1], [-1, -1, -1, -1], [-1, -1, -1, -1], [-1, -1, -1, -1], [-2, -2, -2, -2]],
       [[-1, -1, -1, -1], [-1, -1, -1, -1], [ 1,  0,  0,  0], [ 0,  0,  1,  0], [-2, -2, -2, -2]],
       [[-1, -1, -1, -1], [-1, -1, -1, -1], [ 0,  0,  0,  0], [ 0,  1,  0,  1], [-2, -2, -2, -2]],
       [[-1, -1, -1, -1], [-1, -1, -1, -1], [ 0,  0,  0,  0], [ 0,  0,  0,  0], [ 0,  0,  0,  0]]], [7]) := by
  decide

example : getObsPosition exWorld 0 [] = .ok (.vec (0, 0), []) ∧ getObsAmmo exWorld 0 [] = .ok (.scalar 3, []) ∧
    getObsAmmo exWorld 5 [] = .ok (.unsupported, []) ∧ getObsAbsolute exWorld 1 [] = .ok (.unsupported, []) := by
  decide

/-- the judge accepts these observations … -/
example :
    specCentered exWorld 0 true (.grid [[-1, -1, -1, -1, -1], [-1, -1, -1, -1, -2], [-1, -1, 1, 3, -2],
      [-1, -1, 0, 4, -2], [-1, -1, 0, 0, 0]]) = true ∧
    specCentered exWorld 0 true (.grid [[-1, -1, -1, -1, -1], [-1, -1, -1, -1, -2], [-1, -1, 1, 3, -2],
      [-1, -1, 0, 2, -2], [-1, -1, 0, 0, 0]]) = true ∧
    specAbsolute exWorld 0 (.grid [[-1, 3, -2], [0, 2, -2], [0, 0, 0]]) = true ∧
    specAbsolute exWorld 5 (.grid [[-2, -2, -2], [-2, 2, 0], [-2, 0, 0]]) = true := by decide

/-- … and rejects: an encoding that is not on the cell (3 on the pile-up), the transposed window, the
hidden agent shown, the own encoding under `observe_self = false`, a −1 for the dead observer's
stored position, a shifted paste, a wrong count -/
example :
    specCentered exWorld 0 true (.grid [[-1, -1, -1, -1, -1], [-1, -1, -1, -1, -2], [-1, -1, 1, 3, -2],
      [-1, -1, 0, 3, -2], [-1, -1, 0, 0, 0]]) = false ∧
    specCentered exWorld 0 true (.grid [[-1, -1, -1, -1, -1], [-1, -1, -1, -1, -1], [-1, -1, 1, 0, 0],
      [-1, -1, 3, 4, 0], [-1, -2, -2, -2, 0]]) = false ∧
    specCentered exWorld 0 true (.grid [[-1, -1, -1, -1, -1], [-1, -1, -1, -1, -2], [-1, -1, 1, 3, 2],
      [-1, -1, 0, 4, -2], [-1, -1, 0, 0, 0]]) = false ∧
    specCentered exWorld 0 false (.grid [[-1, -1, -1, -1, -1], [-1, -1, -1, -1, -2], [-1, -1, 1, 3, -2],
      [-1, -1, 0, 4, -2], [-1, -1, 0, 0, 0]]) = false ∧
    specAbsolute exWorld 5 (.grid [[-2, -2, -2], [-2, 2, 0], [-2, 0, -1]]) = false ∧
    specAbsolute exWorld 0 (.grid [[-2, -1, 3], [-2, 0, 2], [-2, 0, 0]]) = false ∧
    specStacked exWorld 0 (.stack
      [[[-1, -1, -1, -1], [-1, -1, -1, -1], [-1, -1, -1, -1], [-1, -1, -1, -1], [-1, -1, -1, -1]],
       [[-1, -1, -1, -1], [-1, -1, -1, -1], [-1, -1, -1, -1], [-1, -1, -1, -1], [-2, -2, -2, -2]],
       [[-1, -1, -1, -1], [-1, -1, -1, -1], [ 1,  0,  0,  0], [ 0,  0,  1,  0], [-2, -2, -2, -2]],
       [[-1, -1, -1, -1], [-1, -1, -1, -1], [ 0,  0,  0,  0], [ 0,  2,  0,  0], [-2, -2, -2, -2]],
       [[-1, -1, -1, -1], [-1, -1, -1, -1], [ 0,  0,  0,  0], [ 0,  0,  0,  0], [ 0,  0,  0,  0]]]) = false := by
  decide

/-- window embedding on the example: the corner viewer's window entry `[1, 4]` is outside the grid,
`[3, 3]` is the pile-up cell `(1, 1)` -/
example : localCell exWorld (0, 0) 2 1 4 = none ∧ localCell exWorld (0, 0) 2 3 3 = some [2, 3] ∧
    winPos (0, 0) 2 3 3 = (1, 1) := by decide

end Observers
end Abmarl
