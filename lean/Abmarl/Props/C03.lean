import Abmarl.Spec.Grid
