import Abmarl.Props.C03Base
import Abmarl.Model.GridSim
import Abmarl.Spec.GridSim
/-!
# C03 for every reachable state

`C03_reachable`: after a first full reset, **every** sequence of moves (three actors), attacks (four
actors), deaths and further resets — any agents, any actions, any tapes, any interleaving, any
length — ends in a world satisfying the invariant `WInv`.  Since the statement holds for every
sequence it holds for every prefix, i.e. after every single operation of a history.
-/
namespace Abmarl
open World

/-- a reset that goes through a placement state and the three vitals components (the order in the
list — the iteration order of the simulation's set of state components — is arbitrary), in the
regular oracle stream (a drawn initial health is never exactly 0; the other stream is the component
`healthClosed`, finding K4) -/
def FullReset (w0 : World) (cs : List StateComp) : Prop :=
  (∃ kind o, StateComp.position kind o ∈ cs) ∧ StateComp.health ∈ cs ∧ StateComp.ammo ∈ cs ∧
  StateComp.orient ∈ cs ∧ StateComp.healthClosed ∉ cs ∧
  ∀ kind o, StateComp.position kind o ∈ cs → wfPlacement kind o w0 = true

/-- every reset of the history is a full one -/
def ResetsFull (w0 : World) (ops : List (GOp × Tape)) : Prop :=
  ∀ cs t, (GOp.reset cs, t) ∈ ops → FullReset w0 cs

theorem sframe_of_sameStatic {w w' : World} (h : sameStatic w w' = true) : SFrame w w' := by
  obtain ⟨h1, h2, h3, h4, _, h6⟩ := (sameStatic_iff w w').mp h
  exact ⟨h1.symm, h2.symm, h3.symm, h4.symm, h6.symm⟩

/-- the ammunition clause for agents without ammunition is part of the invariant -/
theorem noAmmoC_of_WInv {w : World} (hI : w.WInv = true) : NoAmmoC w := by
  intro a ha _
  have hA := ((WInv_parts_iff w).mp hI).2.2.1 a ha
  simp only [wAgent, Bool.and_eq_true, decide_eq_true_eq] at hA
  exact hA.1.1.2

/-- a move call leaves the static part alone -/
theorem move_sframe {w : World} {c : MoveCall} {o : MoveOut} (hs : specC12 w c (.ok o) = true) :
    SFrame w o.post := by
  have key : ∀ {a d ok}, specMoveBy w a d ok o.post = true → SFrame w o.post := fun h =>
    sframe_of_sameStatic (specMoveBy_reading h).2.1
  have same : ∀ {b : Bool}, (b && o.post == w) = true → SFrame w o.post := by
    intro b h
    simp only [Bool.and_eq_true, beq_iff_eq] at h
    rw [h.2]; exact SFrame.refl w
  cases c with
  | move a d =>
    simp only [specC12] at hs
    split at hs
    · split at hs
      · exact key hs
      · cases hs
    · exact same hs
  | cross a x =>
    simp only [specC12] at hs
    split at hs
    · split at hs
      · exact key hs
      · cases hs
    · exact same hs
  | drift a x =>
    simp only [specC12, specDrift] at hs
    split at hs
    · split at hs
      · split at hs
        · simp only [Bool.and_eq_true] at hs
          have h := sframe_of_sameStatic (specMoveBy_reading hs.2).2.1
          exact ⟨h.rows, h.cols, h.overlap, h.cfg, by simpa [setSt] using h.len⟩
        · split at hs
          · exact key hs
          · cases hs
      · cases hs
    · exact same hs

/-- the step of the induction -/
theorem runGOp_step {w0 w w' : World} {t : Tape} {op : GOp} (hcfg : CfgOK w0)
    (hfull : ∀ cs, op = .reset cs → FullReset w0 cs)
    (hF : SFrame w0 w) (hI : w.WInv = true) (h : runGOp w t op = .ok w') :
    SFrame w0 w' ∧ w'.WInv = true := by
  cases op with
  | move c =>
    simp only [runGOp] at h
    split at h
    · rename_i hg
      simp only [Bool.and_eq_true, decide_eq_true_eq] at hg
      obtain ⟨⟨ha, hact⟩, hsp⟩ := hg
      have h12 := C12_moves w c hI ha hact hsp
      have h03 := C03_moves_preserve w c hI ha hact hsp
      cases hm : runMoveCall w c with
      | error e => rw [hm] at h; cases h
      | ok o =>
        rw [hm] at h h12 h03
        simp only [Except.map, Except.ok.injEq] at h
        subst h
        refine ⟨hF.trans (move_sframe h12), ?_⟩
        simpa [specC03Move, hI] using h03
    · cases h; exact ⟨hF, hI⟩
  | attack cfg a act =>
    simp only [runGOp] at h
    split at h
    · rename_i hg
      simp only [Bool.and_eq_true, decide_eq_true_eq] at hg
      cases hp : processAttack cfg w a act t with
      | error e => rw [hp] at h; cases h
      | ok r =>
        obtain ⟨⟨st, H⟩, w1, t1⟩ := r
        rw [hp] at h
        simp only [Except.map, Except.ok.injEq] at h
        subst h
        refine ⟨?_, processAttack_WInv hI hp⟩
        obtain ⟨hb, hn⟩ := attack_frame cfg w a act t hI hg.1 hp
        cases hatt : (w.cfgOf a).attacking with
        | true =>
          have hb := hb hatt
          simp only [specBook, Bool.and_eq_true] at hb
          exact hF.trans (sframe_of_sameStatic hb.1.1.1)
        | false => rw [(hn hatt).2]; exact hF
    · cases h; exact ⟨hF, hI⟩
  | reset cs =>
    obtain ⟨hpos, hh, ha, ho, hnc, hwf⟩ := hfull cs rfl
    simp only [runGOp] at h
    cases hr : applyComps cs w t with
    | error e => rw [hr] at h; cases h
    | ok r =>
      obtain ⟨w1, t1⟩ := r
      rw [hr] at h
      simp only [Except.map, Except.ok.injEq] at h
      subst h
      have hwf' : ∀ kind o, StateComp.position kind o ∈ cs → wfPlacement kind o w = true :=
        fun k o hm => by rw [wfPlacement_of_sframe hF]; exact hwf k o hm
      have hcfg' := cfgOK_of_sframe hF hcfg
      refine ⟨?_, C03_reset_establishes cs w t w1 t1 hpos hh ha ho hnc hwf' hcfg' (noAmmoC_of_WInv hI) hr⟩
      obtain ⟨k0, o0, hm0⟩ := hpos
      have hlen : w.st.length = w.cfg.length := by
        have := hwf' k0 o0 hm0
        simp only [wfPlacement, Bool.and_eq_true, beq_iff_eq] at this
        exact this.1.1.1.2
      exact hF.trans (applyComps_spec cs w t w1 t1 hwf' hcfg' hnc hlen hr).1

theorem runGOps_inv {w0 : World} (hcfg : CfgOK w0) (ops : List (GOp × Tape)) :
    ∀ (w w' : World), ResetsFull w0 ops → SFrame w0 w → w.WInv = true → runGOps w ops = .ok w' →
      SFrame w0 w' ∧ w'.WInv = true := by
  induction ops with
  | nil =>
    intro w w' _ hF hI h
    simp only [runGOps, Except.ok.injEq] at h
    subst h; exact ⟨hF, hI⟩
  | cons p rest ih =>
    intro w w' hR hF hI h
    obtain ⟨op, t⟩ := p
    simp only [runGOps] at h
    cases h1 : runGOp w t op with
    | error e => rw [h1] at h; cases h
    | ok w1 =>
      rw [h1] at h
      obtain ⟨hF1, hI1⟩ := runGOp_step hcfg
        (fun cs hc => hR cs t (by rw [hc]; exact List.mem_cons_self)) hF hI h1
      exact ih w1 w' (fun cs t' hm => hR cs t' (List.mem_cons_of_mem _ hm)) hF1 hI1 h

/-- **C03**: from **any** initial world `w0` (dirty grid, stale agents — whatever the constructors
left), after a first full reset every history of moves, attacks (with the deaths they cause) and
further full resets — any agents, actions, tapes, interleaving and length — that runs to its end
leaves a world satisfying the invariant.  Hypotheses: the configuration facts the constructors
guarantee (`CfgOK`, `wfPlacement`; C19) and that the ammunition field of agents without ammunition
was never written before the first reset. -/
theorem C03_reachable (w0 : World) (cs0 : List StateComp) (t0 : Tape) (ops : List (GOp × Tape))
    (hcfg : CfgOK w0) (hn : NoAmmoC w0) (h0 : FullReset w0 cs0) (hR : ResetsFull w0 ops) {w : World}
    (h : runGOps w0 ((.reset cs0, t0) :: ops) = .ok w) : w.WInv = true := by
  obtain ⟨hpos, hh, ha, ho, hnc, hwf⟩ := h0
  simp only [runGOps, runGOp] at h
  cases hr : applyComps cs0 w0 t0 with
  | error e => rw [hr] at h; cases h
  | ok r =>
    obtain ⟨w1, t1⟩ := r
    rw [hr] at h
    simp only [Except.map] at h
    have hI1 := C03_reset_establishes cs0 w0 t0 w1 t1 hpos hh ha ho hnc hwf hcfg hn hr
    obtain ⟨k0, o0, hm0⟩ := hpos
    have hlen : w0.st.length = w0.cfg.length := by
      have := hwf k0 o0 hm0
      simp only [wfPlacement, Bool.and_eq_true, beq_iff_eq] at this
      exact this.1.1.1.2
    have hF1 := (applyComps_spec cs0 w0 t0 w1 t1 hwf hcfg hnc hlen hr).1
    exact (runGOps_inv hcfg ops w1 w hR hF1 hI1 h).2

/-- every entry of the trace is the end of the run of a non-empty prefix -/
theorem trace_prefix (ops : List (GOp × Tape)) :
    ∀ (w : World) (r : Except GErr World), r ∈ traceGOps w ops → ∀ w', r = .ok w' →
      ∃ k, 0 < k ∧ runGOps w (ops.take k) = .ok w' := by
  induction ops with
  | nil => intro w r hr; simp [traceGOps] at hr
  | cons p rest ih =>
    intro w r hr w' hw
    obtain ⟨op, t⟩ := p
    simp only [traceGOps] at hr
    cases h1 : runGOp w t op with
    | error e =>
      rw [h1] at hr
      simp only [List.mem_singleton] at hr
      rw [hr] at hw; cases hw
    | ok w1 =>
      rw [h1] at hr
      rcases List.mem_cons.mp hr with hr | hr
      · refine ⟨1, Nat.one_pos, ?_⟩
        rw [hr] at hw; cases hw
        simp [List.take, runGOps, h1]
      · obtain ⟨k, _, hk⟩ := ih w1 r hr w' hw
        refine ⟨k + 1, Nat.succ_pos k, ?_⟩
        simp only [List.take_succ_cons, runGOps, h1]
        exact hk

/-- every intermediate world of a history satisfies the invariant too -/
theorem C03_every_step (w0 : World) (cs0 : List StateComp) (t0 : Tape) (ops : List (GOp × Tape))
    (hcfg : CfgOK w0) (hn : NoAmmoC w0) (h0 : FullReset w0 cs0) (hR : ResetsFull w0 ops) :
    ∀ r ∈ traceGOps w0 ((.reset cs0, t0) :: ops), ∀ w, r = .ok w → w.WInv = true := by
  intro r hr w hw
  obtain ⟨k, hk0, hk⟩ := trace_prefix _ _ r hr w hw
  cases k with
  | zero => cases hk0
  | succ k =>
    rw [List.take_succ_cons] at hk
    exact C03_reachable w0 cs0 t0 (ops.take k) hcfg hn h0
      (fun cs t hm => hR cs t (List.mem_of_mem_take hm)) hk

/-! ## The hypotheses as Booleans (what the driver evaluates as `pre`) -/

theorem cfgOf_mem_or_default (w : World) (a : Aid) : w.cfgOf a ∈ w.cfg ∨ w.cfgOf a = {} := by
  simp only [cfgOf, List.getD_eq_getElem?_getD]
  cases hg : w.cfg[a]? with
  | none => right; rfl
  | some c => left; exact List.mem_of_getElem? hg

theorem cfgOKb_iff (w : World) : cfgOKb w = true ↔ CfgOK w := by
  constructor
  · intro h
    simp only [cfgOKb, List.all_eq_true, Bool.and_eq_true] at h
    constructor
    · intro a x hx
      rcases cfgOf_mem_or_default w a with hm | hd
      · have := (h _ hm).1
        rw [hx] at this
        simpa using this
      · rw [hd] at hx; cases hx
    · intro a x hx
      rcases cfgOf_mem_or_default w a with hm | hd
      · have := (h _ hm).2
        rw [hx] at this
        simpa using this
      · rw [hd] at hx; cases hx
  · intro h
    simp only [cfgOKb, List.all_eq_true, Bool.and_eq_true]
    intro c hc
    obtain ⟨i, hi, rfl⟩ := List.getElem_of_mem hc
    have hcf : w.cfgOf i = w.cfg[i] := by
      simp [cfgOf, List.getD_eq_getElem?_getD, List.getElem?_eq_getElem hi]
    constructor
    · cases hh : (w.cfg[i]).initHealth with
      | none => rfl
      | some x =>
        have := h.health i x (by rw [hcf]; exact hh)
        simpa using this
    · cases ho : (w.cfg[i]).initOrient with
      | none => rfl
      | some x =>
        have := h.orient i x (by rw [hcf]; exact ho)
        simpa using this

theorem noAmmoCb_iff (w : World) : noAmmoCb w = true ↔ NoAmmoC w := by
  simp only [noAmmoCb, NoAmmoC, List.all_eq_true, allAgents, List.mem_range, Bool.or_eq_true,
    decide_eq_true_eq]
  constructor
  · intro h a ha hA
    rcases h a ha with h | h
    · rw [hA] at h; cases h
    · exact h
  · intro h a ha
    cases hA : (w.cfgOf a).hasAmmo with
    | false => right; exact h a ha hA
    | true => left; rfl

theorem any_isPosition_iff (cs : List StateComp) :
    cs.any StateComp.isPosition = true ↔ ∃ kind o, StateComp.position kind o ∈ cs := by
  simp only [List.any_eq_true]
  constructor
  · rintro ⟨c, hc, h⟩
    cases c with
    | position kind o => exact ⟨kind, o, hc⟩
    | _ => cases h
  · rintro ⟨kind, o, h⟩; exact ⟨_, h, rfl⟩

theorem any_isHealth_iff (cs : List StateComp) :
    cs.any StateComp.isHealth = true ↔ StateComp.health ∈ cs := by
  simp only [List.any_eq_true]
  constructor
  · rintro ⟨c, hc, h⟩
    cases c with
    | health => exact hc
    | _ => cases h
  · intro h; exact ⟨_, h, rfl⟩

theorem any_isAmmo_iff (cs : List StateComp) :
    cs.any StateComp.isAmmo = true ↔ StateComp.ammo ∈ cs := by
  simp only [List.any_eq_true]
  constructor
  · rintro ⟨c, hc, h⟩
    cases c with
    | ammo => exact hc
    | _ => cases h
  · intro h; exact ⟨_, h, rfl⟩

theorem any_isOrient_iff (cs : List StateComp) :
    cs.any StateComp.isOrient = true ↔ StateComp.orient ∈ cs := by
  simp only [List.any_eq_true]
  constructor
  · rintro ⟨c, hc, h⟩
    cases c with
    | orient => exact hc
    | _ => cases h
  · intro h; exact ⟨_, h, rfl⟩

theorem any_isHealthClosed_iff (cs : List StateComp) :
    cs.any StateComp.isHealthClosed = true ↔ StateComp.healthClosed ∈ cs := by
  simp only [List.any_eq_true]
  constructor
  · rintro ⟨c, hc, h⟩
    cases c with
    | healthClosed => exact hc
    | _ => cases h
  · intro h; exact ⟨_, h, rfl⟩

theorem all_wfOn_iff (w0 : World) (cs : List StateComp) :
    cs.all (StateComp.wfOn w0) = true ↔
      ∀ kind o, StateComp.position kind o ∈ cs → wfPlacement kind o w0 = true := by
  simp only [List.all_eq_true]
  constructor
  · intro h kind o hm; exact h _ hm
  · intro h c hc
    cases c with
    | position kind o => exact h kind o hc
    | _ => rfl

/-- the Boolean the driver evaluates is the hypothesis `FullReset` of the theorems -/
theorem fullResetb_iff (w0 : World) (cs : List StateComp) :
    fullResetb w0 cs = true ↔ FullReset w0 cs := by
  simp only [fullResetb, FullReset, Bool.and_eq_true, Bool.not_eq_true', any_isPosition_iff,
    any_isHealth_iff, any_isAmmo_iff, any_isOrient_iff, all_wfOn_iff, and_assoc,
    ← Bool.not_eq_true, any_isHealthClosed_iff]

/-- `histPre` is: the configuration facts, and the history is a full reset followed by operations
all of whose resets are full -/
theorem histPre_iff (w0 : World) (ops : List (GOp × Tape)) :
    histPre w0 ops = true ↔
      CfgOK w0 ∧ NoAmmoC w0 ∧
      ∃ cs0 t0 rest, ops = (.reset cs0, t0) :: rest ∧ FullReset w0 cs0 ∧ ResetsFull w0 rest := by
  have hall : ∀ l : List (GOp × Tape),
      (l.all fun p => p.1.resetsFullb w0) = true ↔ ResetsFull w0 l := by
    intro l
    simp only [List.all_eq_true, ResetsFull]
    constructor
    · intro h cs t hm
      have := h _ hm
      simpa only [GOp.resetsFullb, fullResetb_iff] using this
    · intro h p hp
      obtain ⟨op, t⟩ := p
      cases op with
      | reset cs => simpa only [GOp.resetsFullb, fullResetb_iff] using h cs t hp
      | _ => rfl
  simp only [histPre, Bool.and_eq_true, cfgOKb_iff, noAmmoCb_iff, and_assoc]
  constructor
  · rintro ⟨hc, hn, hfirst, hrest⟩
    refine ⟨hc, hn, ?_⟩
    cases ops with
    | nil => cases hfirst
    | cons p rest =>
      obtain ⟨op, t0⟩ := p
      cases op with
      | reset cs0 =>
        simp only [List.all_cons, Bool.and_eq_true, GOp.resetsFullb, fullResetb_iff] at hrest
        exact ⟨cs0, t0, rest, rfl, hrest.1, (hall rest).mp hrest.2⟩
      | _ => cases hfirst
  · rintro ⟨hc, hn, cs0, t0, rest, rfl, hf, hr⟩
    refine ⟨hc, hn, rfl, ?_⟩
    simp only [List.all_cons, Bool.and_eq_true, GOp.resetsFullb, fullResetb_iff]
    exact ⟨hf, (hall rest).mpr hr⟩

/-! ## C03 on a trace -/

/-- inside the invariant, a move or an attack by an active agent of the simulation with an action
of its action space does not raise -/
theorem runGOp_noRaise {w : World} {t : Tape} {op : GOp} (hI : w.WInv = true)
    (hm : op.mustNotRaise w = true) : ∃ w', runGOp w t op = .ok w' := by
  cases op with
  | move c =>
    simp only [GOp.mustNotRaise, Bool.and_eq_true, decide_eq_true_eq] at hm
    obtain ⟨⟨ha, hact⟩, hsp⟩ := hm
    have h12 := C12_moves w c hI ha hact hsp
    have hg : (decide (c.agent < w.n) && (w.stOf c.agent).active && c.inSpace w) = true := by
      simp [ha, hact, hsp]
    simp only [runGOp, hg, if_true]
    cases hr : runMoveCall w c with
    | error e =>
      rw [hr] at h12
      cases c <;> simp [specC12] at h12
    | ok o => exact ⟨o.post, rfl⟩
  | attack cfg a act =>
    simp only [GOp.mustNotRaise, Bool.and_eq_true, decide_eq_true_eq] at hm
    obtain ⟨⟨ha, hact⟩, hsp⟩ := hm
    have hpre : attackPre cfg w a act = true := by
      simp [attackPre, hI, ha, hact, hsp]
    obtain ⟨st, H, w', t', hp, _⟩ := attackOK_all cfg w a act t hpre
    have hg : (decide (a < w.n) && (w.stOf a).active) = true := by simp [ha, hact]
    exact ⟨w', by simp only [runGOp, hg, if_true, hp, Except.map]⟩
  | reset cs => cases hm

/-- the first, full reset from an arbitrary world -/
theorem first_reset_step {w0 w1 : World} {cs0 : List StateComp} {t0 : Tape} (hcfg : CfgOK w0)
    (hn : NoAmmoC w0) (h0 : FullReset w0 cs0) (h : runGOp w0 t0 (.reset cs0) = .ok w1) :
    SFrame w0 w1 ∧ w1.WInv = true := by
  obtain ⟨hpos, hh, ha, ho, hnc, hwf⟩ := h0
  simp only [runGOp] at h
  cases hr : applyComps cs0 w0 t0 with
  | error e => rw [hr] at h; cases h
  | ok r =>
    obtain ⟨w', t1⟩ := r
    rw [hr] at h
    simp only [Except.map, Except.ok.injEq] at h
    subst h
    have hI1 := C03_reset_establishes cs0 w0 t0 w' t1 hpos hh ha ho hnc hwf hcfg hn hr
    obtain ⟨k0, o0, hm0⟩ := hpos
    have hlen : w0.st.length = w0.cfg.length := by
      have := hwf k0 o0 hm0
      simp only [wfPlacement, Bool.and_eq_true, beq_iff_eq] at this
      exact this.1.1.1.2
    exact ⟨(applyComps_spec cs0 w0 t0 w' t1 hwf hcfg hnc hlen hr).1, hI1⟩

/-- from a world satisfying the invariant the model's trace passes the specification -/
theorem specHist_from {w0 : World} (hcfg : CfgOK w0) (ops : List (GOp × Tape)) :
    ∀ w : World, ResetsFull w0 ops → SFrame w0 w → w.WInv = true →
      specC03HistFrom w ops (traceGOps w ops) = true := by
  induction ops with
  | nil => intro w _ _ _; simp [traceGOps, specC03HistFrom]
  | cons p rest ih =>
    intro w hR hF hI
    obtain ⟨op, t⟩ := p
    simp only [traceGOps]
    cases h1 : runGOp w t op with
    | error e =>
      simp only [specC03HistFrom, List.isEmpty_nil, Bool.true_and, Bool.not_eq_true']
      cases hm : op.mustNotRaise w with
      | false => rfl
      | true =>
        obtain ⟨w', hw'⟩ := runGOp_noRaise (t := t) hI hm
        rw [h1] at hw'; cases hw'
    | ok w1 =>
      obtain ⟨hF1, hI1⟩ := runGOp_step hcfg
        (fun cs hc => hR cs t (by rw [hc]; exact List.mem_cons_self)) hF hI h1
      simp only [specC03HistFrom, Bool.and_eq_true]
      exact ⟨hI1, ih w1 (fun cs t' hm => hR cs t' (List.mem_cons_of_mem _ hm)) hF1 hI1⟩

/-- **C03, in the form the judge evaluates** (`ghist`): for every initial world, every history and
all tapes, if the hypotheses `histPre` hold — the history starts with a full reset, every reset is
full, placement options and agent configuration are well-formed — then the model's trace satisfies
`specC03Hist`: every world of the trace satisfies the invariant, no move or attack of an active agent
with an action of its action space raises, and the trace covers every operation up to the first
reset that fails.  A corollary of `C03_every_step` and its step lemma. -/
theorem C03_hist (w0 : World) (ops : List (GOp × Tape)) (hpre : histPre w0 ops = true) :
    specC03Hist w0 ops (traceGOps w0 ops) = true := by
  obtain ⟨hcfg, hn, cs0, t0, rest, rfl, h0, hR⟩ := (histPre_iff w0 ops).mp hpre
  simp only [specC03Hist, traceGOps]
  cases h1 : runGOp w0 t0 (.reset cs0) with
  | error e => simp [specC03HistFrom, GOp.mustNotRaise]
  | ok w1 =>
    obtain ⟨hF1, hI1⟩ := first_reset_step hcfg hn h0 h1
    simp only [specC03HistFrom, Bool.and_eq_true]
    exact ⟨hI1, specHist_from hcfg rest w1 hR hF1 hI1⟩

/-- reading of the specification: every world of a trace that passes it satisfies the invariant -/
theorem specC03Hist_worlds :
    ∀ (ops : List (GOp × Tape)) (w0 : World) (tr : List (Except GErr World)),
      specC03HistFrom w0 ops tr = true → ∀ w, Except.ok w ∈ tr → w.WInv = true := by
  intro ops
  induction ops with
  | nil =>
    intro w0 tr h w hw
    simp only [specC03HistFrom, List.isEmpty_iff] at h
    rw [h] at hw; cases hw
  | cons p rest ih =>
    intro w0 tr h w hw
    cases tr with
    | nil => cases hw
    | cons r tr =>
      cases r with
      | error e =>
        simp only [specC03HistFrom, Bool.and_eq_true, List.isEmpty_iff] at h
        rw [h.1] at hw
        simp at hw
      | ok w1 =>
        simp only [specC03HistFrom, Bool.and_eq_true] at h
        rcases List.mem_cons.mp hw with hw | hw
        · cases hw; exact h.1
        · exact ih w1 tr h.2 w hw

/-! ## Placement resets alone, the weak invariant -/

theorem vitalsAlive_clauses {w : World} (h : w.vitalsAlive = true) :
    HealthC w ∧ AmmoC w ∧ OrientC w ∧ NoAmmoC w := by
  simp only [vitalsAlive, List.all_eq_true, allAgents, List.mem_range, Bool.and_eq_true,
    decide_eq_true_eq, Bool.or_eq_true, Bool.not_eq_true'] at h
  refine ⟨fun a ha => ?_, fun a ha hA => ?_, fun a ha hO => ?_, fun a ha _ => ?_⟩
  · obtain ⟨⟨⟨⟨⟨h1, h2⟩, h3⟩, _⟩, _⟩, _⟩ := h a ha
    exact ⟨h1, h2, h3⟩
  · obtain ⟨⟨⟨_, h4⟩, h5⟩, _⟩ := h a ha
    refine ⟨h4, ?_⟩
    rcases h5 with h5 | h5
    · rw [hA] at h5; cases h5
    · exact h5
  · obtain ⟨_, h6⟩ := h a ha
    rcases h6 with h6 | h6
    · rw [hO] at h6; cases h6
    · exact h6
  · exact (h a ha).1.1.2

/-- **C03, placement states alone** (`gplace`, C03 component): for well-formed options a successful
reset of any of the three placement states that finds everybody alive with legal vitals leaves a
world satisfying the invariant -/
theorem C03_place (kind : PKind) (o : PlaceOpts) (w : World) (t : Tape)
    (hwf : wfPlacement kind o w = true) : specC03Place w (resetX kind o w t).1 = true := by
  unfold specC03Place
  cases herr : (resetX kind o w t).1.err with
  | some e => simp
  | none =>
    cases hv : w.vitalsAlive with
    | false => simp
    | true =>
      simp only [Option.isSome_none, Bool.not_true, Bool.or_self, Bool.false_or]
      obtain ⟨hH, hA, hO, hN⟩ := vitalsAlive_clauses hv
      have hlen : w.st.length = w.cfg.length := by
        have := hwf
        simp only [wfPlacement, Bool.and_eq_true, beq_iff_eq] at this
        exact this.1.1.1.2
      have hsym : w.wOverlapSym = true := by
        have := hwf
        simp only [wfPlacement, Bool.and_eq_true] at this
        exact this.1.1.2
      have hr : placementReset kind o w t = .ok ((resetX kind o w t).1.post, (resetX kind o w t).2) := by
        simp only [placementReset, PlaceOut.toExcept, herr]
      obtain ⟨hS, hN', hP', hH', hA', hO'⟩ := placement_clauses kind o w t _ _ hwf hlen hr
      have hsym' : (resetX kind o w t).1.post.wOverlapSym = true := by
        have hpk : (resetX kind o w t).1.post.pairOK = w.pairOK := by
          funext a b; simp [pairOK, hS.overlap]
        simp only [wOverlapSym, hS.overlap, hpk] at hsym ⊢
        exact hsym
      exact WInv_of_clauses hP' (hH' hH) (hA' hA) (hO' hO) (hN' hN) hsym'

/-- the invariant implies its form for simulations that deactivate agents by hand -/
theorem WInvWeak_of_WInv {w : World} (h : w.WInv = true) : w.WInvWeak = true := by
  simp only [WInv, WInvWeak, Bool.and_eq_true, List.all_eq_true] at h ⊢
  obtain ⟨⟨⟨h1, h2⟩, h3⟩, h4⟩ := h
  refine ⟨⟨⟨h1, h2⟩, fun a ha => ?_⟩, h4⟩
  have := h3 a ha
  simp only [wAgent, wAgentWeak, Bool.and_eq_true, decide_eq_true_eq, beq_iff_eq, Bool.or_eq_true,
    Bool.not_eq_true'] at this ⊢
  obtain ⟨⟨⟨⟨⟨⟨g1, g2⟩, g3⟩, g4⟩, g5⟩, g6⟩, g7⟩ := this
  refine ⟨⟨⟨⟨⟨⟨g1, g2⟩, g3⟩, ?_⟩, g5⟩, g6⟩, g7⟩
  cases hact : (w.stOf a).active with
  | false => left; rfl
  | true => right; rw [hact] at g4; simpa using g4.symm

/-! ## Examples: the hypotheses are inhabited, the judge rejects broken worlds, finding K4 -/

/-- a 1×3 world before the first reset: agent 0 (encoding 1, initial health 1) moves, drifts and
attacks with one round of ammunition and strength 1; agent 1 (encoding 2, initial health 1/2) and
agent 2 (encoding 2, health drawn) may share a cell with each other -/
def c03Sim : World :=
  { rows := 1, cols := 3, overlap := [(2, [2])], cells := [[], [], []],
    cfg := [{ enc := 1, initHealth := some 1, moving := true, moveRange := 1, hasOrient := true,
              attacking := true, attackRange := 1, strength := 1, hasAmmo := true, initAmmo := 1 },
            { enc := 2, initHealth := some (1 / 2) }, { enc := 2 }],
    st := [{}, {}, {}] }

def c03Full : List StateComp := [.orient, .position .position {}, .ammo, .health]
def c03Attack : AttackCfg := ⟨.binary, [(1, [2])], false⟩

/-- reset (orientation 3 = right; agent 0 on (0,0), agents 1 and 2 together on (0,2); agent 2 draws
the health 701/1024); the mover steps right; it attacks (one of the two agents next to it — agent 1 —
is hit, dies and leaves the grid; the ammunition is used up); its drift to the right is blocked by
agent 2; a second episode -/
def c03Ops : List (GOp × Tape) :=
  [(.reset c03Full, [2, 0, 1, 1, 700]), (.move (.cross 0 3), []), (.attack c03Attack 0 (.count 1), [0, 0, 0]),
   (.move (.drift 0 0), []), (.reset c03Full, [0, 2, 2, 0, 5])]

example : histPre c03Sim c03Ops = true := by decide +kernel
example : (match traceGOps c03Sim c03Ops with
    | [.ok w1, .ok w2, .ok w3, .ok w4, .ok w5] =>
      (w1.cells == [[0], [], [1, 2]]) && (w2.cells == [[], [0], [1, 2]]) && (w3.cells == [[], [0], [2]]) &&
      !(w3.stOf 1).active && ((w3.stOf 0).ammo == 0) && (w4 == w3) && (w5.cells == [[1, 2], [], [0]]) &&
      (w5.stOf 1).active && ((w5.stOf 0).ammo == 1)
    | _ => false) = true := by decide +kernel
example : specC03Hist c03Sim c03Ops (traceGOps c03Sim c03Ops) = true := C03_hist _ _ (by decide +kernel)

/-- the judge rejects a trace in which a dead agent still stands on the grid … -/
example : specC03Hist c03Sim [(.reset c03Full, [])]
    [.ok { c03Sim with
           cells := [[0], [1], [2]],
           st := [{ pos := (0, 0), ammo := 1 }, { pos := (0, 1), health := 1 / 2 },
                  { pos := (0, 2), health := 0, active := false }] }] = false := by decide +kernel
/-- … one in which an agent's position and its cell disagree, and one in which an in-space move of
an active agent raises -/
example : specC03Hist c03Sim [(.reset c03Full, [])]
    [.ok { c03Sim with
           cells := [[0], [1], [2]],
           st := [{ pos := (0, 1), ammo := 1 }, { pos := (0, 1), health := 1 / 2 },
                  { pos := (0, 2), health := 1 / 4 }] }] = false := by decide +kernel
example : specC03Hist c03Sim [(.reset c03Full, []), (.move (.cross 0 3), [])]
    [.ok { c03Sim with
           cells := [[0], [1], [2]],
           st := [{ pos := (0, 0), ammo := 1 }, { pos := (0, 1), health := 1 / 2 },
                  { pos := (0, 2), health := 1 / 4 }] }, .error .keyError] = false := by decide +kernel
/-- a reset may fail, and the history ends there -/
example : specC03Hist c03Sim [(.reset c03Full, []), (.move (.cross 0 3), [])] [.error .noCell] = true := by
  decide +kernel

/-- **finding K4** (outside `histPre`: the component `healthClosed` is the oracle stream in which
`np.random.uniform(0, 1)` may return exactly 0.0): agent 2 draws the health 0, is inactive right
after the reset and yet stands on the grid.  The model reproduces this and the specification
rejects it; with the agent taken out of its cell the world satisfies the invariant. -/
def c03K4 : List (GOp × Tape) :=
  [(.reset [.healthClosed, .position .position {}, .ammo, .orient], [0, 0, 1, 2, 0])]
example : histPre c03Sim c03K4 = false := by decide +kernel
example : (match traceGOps c03Sim c03K4 with
    | [.ok w] => ((w.stOf 2).health == 0) && !(w.stOf 2).active && (w.cells == [[0], [2], [1]]) &&
                 !w.WInv && (w.dropFromCells [2]).WInv
    | _ => false) = true := by decide +kernel
example : specC03Hist c03Sim c03K4 (traceGOps c03Sim c03K4) = false := by decide +kernel

/-! ## Non-vacuity: the hypotheses are met by a dirty world, and a history with a move, a kill, a
blocked move and a second episode runs to its end -/

/-- a dirty 2×3 world: a dead agent still listed in a cell, a ghost entry, spent ammunition -/
def exDirtyWorld : World :=
  { rows := 2, cols := 3, overlap := [(1, [1])],
    cells := [[0, 2], [], [1], [], [], [2]],
    cfg := [{ enc := 1, moving := true, moveRange := 1, hasOrient := true, attacking := true, attackRange := 2,
              strength := 1/2, hasAmmo := true, initAmmo := 3 },
            { enc := 2, initPos := some (0, 1), initHealth := some (1/2) },
            { enc := 1, hasOrient := true, initOrient := some 2 }],
    st := [{ pos := (1, 1), health := 0, active := false, ammo := 0, orient := 3 },
           { pos := (0, 2), health := 1/4 }, { pos := (1, 2), orient := 7 }] }

def exResetComps : List StateComp := [.orient, .position .position {}, .ammo, .health]

def exHist : List (GOp × Tape) :=
  [(.move (.move 0 (1, -1)), []), (.attack ⟨.binary, [(1, [2])], false⟩ 0 (.count 1), [0, 0, 0]),
   (.attack ⟨.binary, [(1, [2])], false⟩ 0 (.count 1), [0, 0, 0]),
   (.move (.cross 2 1), []), (.reset exResetComps, [5, 1, 2, 3, 4, 5, 6, 7])]

example : exDirtyWorld.WInv = false := by decide +kernel

theorem exDirtyCfgOK : CfgOK exDirtyWorld := by
  constructor
  · intro a h hh
    rcases a with _ | _ | _ | a <;> simp [exDirtyWorld, cfgOf] at hh
    subst hh; norm_num
  · intro a o ho
    rcases a with _ | _ | _ | a <;> simp [exDirtyWorld, cfgOf] at ho
    omega

theorem exDirtyNoAmmo : NoAmmoC exDirtyWorld := by
  intro a _ _
  rcases a with _ | _ | _ | a <;> simp [exDirtyWorld, stOf]

theorem exDirtyFull : FullReset exDirtyWorld exResetComps := by
  refine ⟨⟨.position, {}, by simp [exResetComps]⟩, by simp [exResetComps], by simp [exResetComps], by simp [exResetComps], by simp [exResetComps], ?_⟩
  intro kind o hm
  simp only [exResetComps, List.mem_cons, reduceCtorEq, StateComp.position.injEq, List.not_mem_nil, or_false, false_or] at hm
  obtain ⟨rfl, rfl⟩ := hm
  decide +kernel

theorem exHistResets : ResetsFull exDirtyWorld exHist := by
  intro cs t hm
  simp only [exHist, List.mem_cons, Prod.mk.injEq, reduceCtorEq, false_and, GOp.reset.injEq, List.not_mem_nil, or_false, false_or] at hm
  rw [hm.1]; exact exDirtyFull

/-- the history runs to its end (a move, a kill, a blocked move, a second episode) -/
example : (runGOps exDirtyWorld ((.reset exResetComps, [3, 1, 4, 1, 5, 9, 2, 6]) :: exHist)).toOption.isSome = true := by
  decide +kernel

/-- … and the invariant holds at its end, as `C03_reachable` says (here by the theorem, not by evaluation) -/
example {w : World}
    (h : runGOps exDirtyWorld ((.reset exResetComps, [3, 1, 4, 1, 5, 9, 2, 6]) :: exHist) = .ok w) : w.WInv = true :=
  C03_reachable exDirtyWorld exResetComps _ exHist exDirtyCfgOK exDirtyNoAmmo exDirtyFull exHistResets h

end Abmarl
