import Abmarl.Props.C03Base
import Abmarl.Model.GridSim
/-!
# C03 for every reachable state

`C03_reachable`: after a first full reset, **every** sequence of moves (three actors), attacks (four
actors), deaths and further resets — any agents, any actions, any tapes, any interleaving, any
length — ends in a world satisfying the invariant `WInv`.  Since the statement holds for every
sequence it holds for every prefix, i.e. after every single operation of a history.
-/
namespace Abmarl
open World

/-- a reset that goes through a placement state and the three vitals components (the order in the
list — the iteration order of the simulation's set of state components — is arbitrary) -/
def FullReset (w0 : World) (cs : List StateComp) : Prop :=
  (∃ kind o, StateComp.position kind o ∈ cs) ∧ StateComp.health ∈ cs ∧ StateComp.ammo ∈ cs ∧
  StateComp.orient ∈ cs ∧ ∀ kind o, StateComp.position kind o ∈ cs → wfPlacement kind o w0 = true

/-- every reset of the history is a full one -/
def ResetsFull (w0 : World) (ops : List (GOp × Tape)) : Prop :=
  ∀ cs t, (GOp.reset cs, t) ∈ ops → FullReset w0 cs

theorem sframe_of_sameStatic {w w' : World} (h : sameStatic w w' = true) : SFrame w w' := by
  obtain ⟨h1, h2, h3, h4, _, h6⟩ := (sameStatic_iff w w').mp h
  exact ⟨h1.symm, h2.symm, h3.symm, h4.symm, h6.symm⟩

/-- the ammunition clause for agents without ammunition is part of the invariant -/
theorem noAmmoC_of_WInv {w : World} (hI : w.WInv = true) : NoAmmoC w := by
  intro a ha _
  have hA := ((WInv_parts_iff w).mp hI).2.2.1 a ha
  simp only [wAgent, Bool.and_eq_true, decide_eq_true_eq] at hA
  exact hA.1.1.2

/-- a move call leaves the static part alone -/
theorem move_sframe {w : World} {c : MoveCall} {o : MoveOut} (hs : specC12 w c (.ok o) = true) :
    SFrame w o.post := by
  have key : ∀ {a d ok}, specMoveBy w a d ok o.post = true → SFrame w o.post := fun h =>
    sframe_of_sameStatic (specMoveBy_reading h).2.1
  have same : ∀ {b : Bool}, (b && o.post == w) = true → SFrame w o.post := by
    intro b h
    simp only [Bool.and_eq_true, beq_iff_eq] at h
    rw [h.2]; exact SFrame.refl w
  cases c with
  | move a d =>
    simp only [specC12] at hs
    split at hs
    · split at hs
      · exact key hs
      · cases hs
    · exact same hs
  | cross a x =>
    simp only [specC12] at hs
    split at hs
    · split at hs
      · exact key hs
      · cases hs
    · exact same hs
  | drift a x =>
    simp only [specC12, specDrift] at hs
    split at hs
    · split at hs
      · split at hs
        · simp only [Bool.and_eq_true] at hs
          have h := sframe_of_sameStatic (specMoveBy_reading hs.2).2.1
          exact ⟨h.rows, h.cols, h.overlap, h.cfg, by simpa [setSt] using h.len⟩
        · split at hs
          · exact key hs
          · cases hs
      · cases hs
    · exact same hs

/-- the step of the induction -/
theorem runGOp_step {w0 w w' : World} {t : Tape} {op : GOp} (hcfg : CfgOK w0)
    (hfull : ∀ cs, op = .reset cs → FullReset w0 cs)
    (hF : SFrame w0 w) (hI : w.WInv = true) (h : runGOp w t op = .ok w') :
    SFrame w0 w' ∧ w'.WInv = true := by
  cases op with
  | move c =>
    simp only [runGOp] at h
    split at h
    · rename_i hg
      simp only [Bool.and_eq_true, decide_eq_true_eq] at hg
      obtain ⟨⟨ha, hact⟩, hsp⟩ := hg
      have h12 := C12_moves w c hI ha hact hsp
      have h03 := C03_moves_preserve w c hI ha hact hsp
      cases hm : runMoveCall w c with
      | error e => rw [hm] at h; cases h
      | ok o =>
        rw [hm] at h h12 h03
        simp only [Except.map, Except.ok.injEq] at h
        subst h
        refine ⟨hF.trans (move_sframe h12), ?_⟩
        simpa [specC03Move, hI] using h03
    · cases h; exact ⟨hF, hI⟩
  | attack cfg a act =>
    simp only [runGOp] at h
    split at h
    · rename_i hg
      simp only [Bool.and_eq_true, decide_eq_true_eq] at hg
      cases hp : processAttack cfg w a act t with
      | error e => rw [hp] at h; cases h
      | ok r =>
        obtain ⟨⟨st, H⟩, w1, t1⟩ := r
        rw [hp] at h
        simp only [Except.map, Except.ok.injEq] at h
        subst h
        refine ⟨?_, processAttack_WInv hI hp⟩
        obtain ⟨hb, hn⟩ := attack_frame cfg w a act t hI hg.1 hp
        cases hatt : (w.cfgOf a).attacking with
        | true =>
          have hb := hb hatt
          simp only [specBook, Bool.and_eq_true] at hb
          exact hF.trans (sframe_of_sameStatic hb.1.1.1)
        | false => rw [(hn hatt).2]; exact hF
    · cases h; exact ⟨hF, hI⟩
  | reset cs =>
    obtain ⟨hpos, hh, ha, ho, hwf⟩ := hfull cs rfl
    simp only [runGOp] at h
    cases hr : applyComps cs w t with
    | error e => rw [hr] at h; cases h
    | ok r =>
      obtain ⟨w1, t1⟩ := r
      rw [hr] at h
      simp only [Except.map, Except.ok.injEq] at h
      subst h
      have hwf' : ∀ kind o, StateComp.position kind o ∈ cs → wfPlacement kind o w = true :=
        fun k o hm => by rw [wfPlacement_of_sframe hF]; exact hwf k o hm
      have hcfg' := cfgOK_of_sframe hF hcfg
      refine ⟨?_, C03_reset_establishes cs w t w1 t1 hpos hh ha ho hwf' hcfg' (noAmmoC_of_WInv hI) hr⟩
      obtain ⟨k0, o0, hm0⟩ := hpos
      have hlen : w.st.length = w.cfg.length := by
        have := hwf' k0 o0 hm0
        simp only [wfPlacement, Bool.and_eq_true, beq_iff_eq] at this
        exact this.1.1.1.2
      exact hF.trans (applyComps_spec cs w t w1 t1 hwf' hcfg' hlen hr).1

theorem runGOps_inv {w0 : World} (hcfg : CfgOK w0) (ops : List (GOp × Tape)) :
    ∀ (w w' : World), ResetsFull w0 ops → SFrame w0 w → w.WInv = true → runGOps w ops = .ok w' →
      SFrame w0 w' ∧ w'.WInv = true := by
  induction ops with
  | nil =>
    intro w w' _ hF hI h
    simp only [runGOps, Except.ok.injEq] at h
    subst h; exact ⟨hF, hI⟩
  | cons p rest ih =>
    intro w w' hR hF hI h
    obtain ⟨op, t⟩ := p
    simp only [runGOps] at h
    cases h1 : runGOp w t op with
    | error e => rw [h1] at h; cases h
    | ok w1 =>
      rw [h1] at h
      obtain ⟨hF1, hI1⟩ := runGOp_step hcfg
        (fun cs hc => hR cs t (by rw [hc]; exact List.mem_cons_self)) hF hI h1
      exact ih w1 w' (fun cs t' hm => hR cs t' (List.mem_cons_of_mem _ hm)) hF1 hI1 h

/-- **C03**: from **any** initial world `w0` (dirty grid, stale agents — whatever the constructors
left), after a first full reset every history of moves, attacks (with the deaths they cause) and
further full resets — any agents, actions, tapes, interleaving and length — that runs to its end
leaves a world satisfying the invariant.  Hypotheses: the configuration facts the constructors
guarantee (`CfgOK`, `wfPlacement`; C19) and that the ammunition field of agents without ammunition
was never written before the first reset. -/
theorem C03_reachable (w0 : World) (cs0 : List StateComp) (t0 : Tape) (ops : List (GOp × Tape))
    (hcfg : CfgOK w0) (hn : NoAmmoC w0) (h0 : FullReset w0 cs0) (hR : ResetsFull w0 ops) {w : World}
    (h : runGOps w0 ((.reset cs0, t0) :: ops) = .ok w) : w.WInv = true := by
  obtain ⟨hpos, hh, ha, ho, hwf⟩ := h0
  simp only [runGOps, runGOp] at h
  cases hr : applyComps cs0 w0 t0 with
  | error e => rw [hr] at h; cases h
  | ok r =>
    obtain ⟨w1, t1⟩ := r
    rw [hr] at h
    simp only [Except.map] at h
    have hI1 := C03_reset_establishes cs0 w0 t0 w1 t1 hpos hh ha ho hwf hcfg hn hr
    obtain ⟨k0, o0, hm0⟩ := hpos
    have hlen : w0.st.length = w0.cfg.length := by
      have := hwf k0 o0 hm0
      simp only [wfPlacement, Bool.and_eq_true, beq_iff_eq] at this
      exact this.1.1.1.2
    have hF1 := (applyComps_spec cs0 w0 t0 w1 t1 hwf hcfg hlen hr).1
    exact (runGOps_inv hcfg ops w1 w hR hF1 hI1 h).2

/-- every entry of the trace is the end of the run of a non-empty prefix -/
theorem trace_prefix (ops : List (GOp × Tape)) :
    ∀ (w : World) (r : Except GErr World), r ∈ traceGOps w ops → ∀ w', r = .ok w' →
      ∃ k, 0 < k ∧ runGOps w (ops.take k) = .ok w' := by
  induction ops with
  | nil => intro w r hr; simp [traceGOps] at hr
  | cons p rest ih =>
    intro w r hr w' hw
    obtain ⟨op, t⟩ := p
    simp only [traceGOps] at hr
    cases h1 : runGOp w t op with
    | error e =>
      rw [h1] at hr
      simp only [List.mem_singleton] at hr
      rw [hr] at hw; cases hw
    | ok w1 =>
      rw [h1] at hr
      rcases List.mem_cons.mp hr with hr | hr
      · refine ⟨1, Nat.one_pos, ?_⟩
        rw [hr] at hw; cases hw
        simp [List.take, runGOps, h1]
      · obtain ⟨k, _, hk⟩ := ih w1 r hr w' hw
        refine ⟨k + 1, Nat.succ_pos k, ?_⟩
        simp only [List.take_succ_cons, runGOps, h1]
        exact hk

/-- every intermediate world of a history satisfies the invariant too -/
theorem C03_every_step (w0 : World) (cs0 : List StateComp) (t0 : Tape) (ops : List (GOp × Tape))
    (hcfg : CfgOK w0) (hn : NoAmmoC w0) (h0 : FullReset w0 cs0) (hR : ResetsFull w0 ops) :
    ∀ r ∈ traceGOps w0 ((.reset cs0, t0) :: ops), ∀ w, r = .ok w → w.WInv = true := by
  intro r hr w hw
  obtain ⟨k, hk0, hk⟩ := trace_prefix _ _ r hr w hw
  cases k with
  | zero => cases hk0
  | succ k =>
    rw [List.take_succ_cons] at hk
    exact C03_reachable w0 cs0 t0 (ops.take k) hcfg hn h0
      (fun cs t hm => hR cs t (List.mem_of_mem_take hm)) hk

/-! ## Non-vacuity: the hypotheses are met by a dirty world, and a history with a move, a kill, a
blocked move and a second episode runs to its end -/

/-- a dirty 2×3 world: a dead agent still listed in a cell, a ghost entry, spent ammunition -/
def exDirtyWorld : World :=
  { rows := 2, cols := 3, overlap := [(1, [1])],
    cells := [[0, 2], [], [1], [], [], [2]],
    cfg := [{ enc := 1, moving := true, moveRange := 1, hasOrient := true, attacking := true, attackRange := 2,
              strength := 1/2, hasAmmo := true, initAmmo := 3 },
            { enc := 2, initPos := some (0, 1), initHealth := some (1/2) },
            { enc := 1, hasOrient := true, initOrient := some 2 }],
    st := [{ pos := (1, 1), health := 0, active := false, ammo := 0, orient := 3 },
           { pos := (0, 2), health := 1/4 }, { pos := (1, 2), orient := 7 }] }

def exResetComps : List StateComp := [.orient, .position .position {}, .ammo, .health]

def exHist : List (GOp × Tape) :=
  [(.move (.move 0 (1, -1)), []), (.attack ⟨.binary, [(1, [2])], false⟩ 0 (.count 1), [0, 0, 0]),
   (.attack ⟨.binary, [(1, [2])], false⟩ 0 (.count 1), [0, 0, 0]),
   (.move (.cross 2 1), []), (.reset exResetComps, [5, 1, 2, 3, 4, 5, 6, 7])]

example : exDirtyWorld.WInv = false := by decide +kernel

theorem exDirtyCfgOK : CfgOK exDirtyWorld := by
  constructor
  · intro a h hh
    rcases a with _ | _ | _ | a <;> simp [exDirtyWorld, cfgOf] at hh
    subst hh; norm_num
  · intro a o ho
    rcases a with _ | _ | _ | a <;> simp [exDirtyWorld, cfgOf] at ho
    omega

theorem exDirtyNoAmmo : NoAmmoC exDirtyWorld := by
  intro a _ _
  rcases a with _ | _ | _ | a <;> simp [exDirtyWorld, stOf]

theorem exDirtyFull : FullReset exDirtyWorld exResetComps := by
  refine ⟨⟨.position, {}, by simp [exResetComps]⟩, by simp [exResetComps], by simp [exResetComps], by simp [exResetComps], ?_⟩
  intro kind o hm
  simp only [exResetComps, List.mem_cons, reduceCtorEq, StateComp.position.injEq, List.not_mem_nil, or_false, false_or] at hm
  obtain ⟨rfl, rfl⟩ := hm
  decide +kernel

theorem exHistResets : ResetsFull exDirtyWorld exHist := by
  intro cs t hm
  simp only [exHist, List.mem_cons, Prod.mk.injEq, reduceCtorEq, false_and, GOp.reset.injEq, List.not_mem_nil, or_false, false_or] at hm
  rw [hm.1]; exact exDirtyFull

/-- the history runs to its end (a move, a kill, a blocked move, a second episode) -/
example : (runGOps exDirtyWorld ((.reset exResetComps, [3, 1, 4, 1, 5, 9, 2, 6]) :: exHist)).toOption.isSome = true := by
  decide +kernel

/-- … and the invariant holds at its end, as `C03_reachable` says (here by the theorem, not by evaluation) -/
example {w : World}
    (h : runGOps exDirtyWorld ((.reset exResetComps, [3, 1, 4, 1, 5, 9, 2, 6]) :: exHist) = .ok w) : w.WInv = true :=
  C03_reachable exDirtyWorld exResetComps _ exHist exDirtyCfgOK exDirtyNoAmmo exDirtyFull exHistResets h

end Abmarl
