import Abmarl.Lemmas.GridInv
import Abmarl.Props.C12
/-!
# C03 — Grid contents, agent positions and agent vitals stay mutually consistent

The invariant is `World.WInv` (Spec/Grid.lean): every cell holds only real, active agents whose
position is that cell, each once, pairwise allowed to overlap (the table is symmetric); every active
agent is stored in the cell of its in-grid position; `0 ≤ health ≤ 1`; `active ↔ health > 0`;
`ammo ≥ 0` (and never above the initial ammunition); orientation one of the four directions.

This file collects the preservation theorems, one per operation family, and lifts them to every
reachable state by induction over operation sequences:

* `C03_moves_preserve` — the three move actors (any action of the action space, any active agent);
* attacks and resets: see the sections below (imported from the C11 / C13 work).
-/
namespace Abmarl
open World

/-- the invariant follows from the C12 specification of a move call -/
theorem WInv_of_specC12 {w : World} {c : MoveCall} {o : Except GErr MoveOut} (hI : w.WInv = true)
    (ha : c.agent < w.n) (hact : (w.stOf c.agent).active = true) (hsp : c.inSpace w = true)
    (hs : specC12 w c o = true) : specC03Move w o = true := by
  have hst_len : c.agent < w.st.length := (placed_of_WInv hI ha hact).aSt
  simp only [specC03Move, hI, Bool.not_true, Bool.false_or]
  cases o with
  | error e => cases c <;> simp [specC12] at hs
  | ok out =>
    simp only
    cases c with
    | move a d =>
      simp only [MoveCall.agent] at ha hact
      by_cases hmv : (w.cfgOf a).moving = true
      · simp only [specC12, hmv, if_true] at hs
        cases hr : out.ret with
        | none => simp [hr] at hs
        | some ok => rw [hr] at hs; exact move_preserves_WInv hI ha hact hs
      · simp only [specC12, hmv, Bool.false_eq_true, if_false, Bool.and_eq_true, beq_iff_eq] at hs
        rw [hs.2]; exact hI
    | cross a x =>
      simp only [MoveCall.agent] at ha hact
      by_cases hmv : (w.cfgOf a).moving = true
      · simp only [specC12, hmv, if_true] at hs
        cases hd : crossTable x with
        | none => simp [hd] at hs
        | some d =>
          cases hr : out.ret with
          | none => simp [hd, hr] at hs
          | some ok => rw [hd, hr] at hs; exact move_preserves_WInv hI ha hact hs
      · simp only [specC12, hmv, Bool.false_eq_true, if_false, Bool.and_eq_true, beq_iff_eq] at hs
        rw [hs.2]; exact hI
    | drift a x =>
      simp only [MoveCall.agent] at ha hact hst_len
      simp only [MoveCall.inSpace, Bool.and_eq_true, decide_eq_true_eq] at hsp
      simp only [specC12, specDrift] at hs
      by_cases hsup : ((w.cfgOf a).moving && (w.cfgOf a).hasOrient) = true
      · rw [if_pos hsup] at hs
        cases hd : crossTable x with
        | none => simp [hd] at hs
        | some d =>
          cases hr : out.ret with
          | none => simp [hd, hr] at hs
          | some ok =>
            rw [hd, hr] at hs
            simp only at hs
            by_cases hnew : (x != 0 && w.destFree a d) = true
            · rw [if_pos hnew] at hs
              simp only [Bool.and_eq_true, beq_iff_eq] at hs
              obtain ⟨⟨_, horient⟩, hmove⟩ := hs
              -- the world with the old orientation restored satisfies the move specification …
              have hW := move_preserves_WInv hI ha hact hmove
              -- … and the outcome is that world with the new orientation
              have hlen' : a < out.post.st.length := by
                have hstat := (specMoveBy_reading hmove).2.1
                simp only [sameStatic, Bool.and_eq_true, beq_iff_eq, setSt, List.length_set] at hstat
                rw [← hstat.2]; exact hst_len
              have hback := setSt_back (w1 := out.post) (a := a) (w.stOf a).orient x.toNat hlen' horient
              have hx : 1 ≤ x.toNat ∧ x.toNat ≤ 4 := by
                simp only [Bool.and_eq_true, bne_iff_ne, ne_eq] at hnew
                omega
              have hn : a < (out.post.setSt a { out.post.stOf a with orient := (w.stOf a).orient }).n := by
                have hstat := (specMoveBy_reading hmove).2.1
                simp only [sameStatic, Bool.and_eq_true, beq_iff_eq] at hstat
                simp only [n, ← hstat.1.1.2]; exact ha
              have := orient_preserves_WInv hW hn x.toNat hx
              rw [hback] at this
              exact this
            · rw [if_neg hnew] at hs
              cases hdo : crossTable ((w.stOf a).orient : Int) with
              | none => simp [hdo] at hs
              | some d' => rw [hdo] at hs; exact move_preserves_WInv hI ha hact hs
      · rw [if_neg hsup] at hs
        simp only [Bool.and_eq_true, beq_iff_eq] at hs
        rw [hs.2]; exact hI

/-- **C03, moves**: for every world satisfying the invariant, every active agent and every action of
the action space, each of the three move actors returns a world satisfying the invariant. -/
theorem C03_moves_preserve (w : World) (c : MoveCall) (hI : w.WInv = true) (ha : c.agent < w.n)
    (hact : (w.stOf c.agent).active = true) (hsp : c.inSpace w = true) :
    specC03Move w (runMoveCall w c) = true :=
  WInv_of_specC12 hI ha hact hsp (C12_moves w c hI ha hact hsp)

end Abmarl
