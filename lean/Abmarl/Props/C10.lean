import Abmarl.Lemmas.MaskSym
/-!
# C10 — Blocking agents hide exactly the cells in their shadow

Property theorems only (helper lemmas live in `Lemmas/Mask*.lean`).  The model is
`Model/Mask.lean` (`hidden1`: the eight direction cases of `create_grid_and_mask`, `maskOf`: the
loop over the agents), the decidable specification is `hiddenSpec` / `specMask` in
`Spec/Mask.lean` (the documented rule, written once for all orientations).

Every theorem is for **all** ranges `R`, **all** offsets (inside or outside the window), **all**
cells and **all** lists of agents with any mix of blocking / non-blocking / inactive flags.

* `hidden1_iff_spec` — the eight hand-written cases are the orientation-free rule;
* `mask_iff_exists_blocker` — a cell is hidden iff some active blocking agent within range has
  it in its shadow; `nonblocking_inactive_ignored`, `out_of_range_ignored`,
  `blocker_on_viewer_ignored`;
* `own_cell_visible`, `nearer_cells_visible`, `on_ray_visible` — the exceptions the property lists;
* `hidden_flip_rows`, `hidden_flip_cols`, `hidden_transpose`, `mask_dihedral` — the rule and the
  whole mask commute with the eight symmetries of the square;
* `C10_model_satisfies_spec` — the model's mask passes the judge `specMask`, so evaluating
  `specMask` on the implementation's mask is evaluating the proved predicate;
* readings (`hiddenSpec_reading*`, `specMask_reading`, `oppSigns_iff_mul_neg`,
  `cross_zero_iff_on_ray`) show that the Bool predicates say what the property says.

Not a Lean theorem (paper argument, DESIGN.md §5 C10, supported by the exhaustive
correspondence): the real code compares a float `p·t/q` (one correctly rounded division of
small exact integers) with an integer; the model compares `x·q` with `p·t` exactly.
-/
namespace Abmarl
namespace Mask

/-! ## The eight cases are the documented rule -/

/-- **C10, core.**  For every range, every offset of the blocker and every cell: the model of
the eight direction cases zeroes the cell iff blocker and cell are inside the range window and
the cell is in the blocker's shadow by the orientation-free rule. -/
theorem hidden1_iff_spec (R : Nat) (rd cd r c : Int) :
    hidden1 R rd cd r c = true ↔
      (inWin R rd = true ∧ inWin R cd = true) ∧ (inWin R r = true ∧ inWin R c = true) ∧
        hiddenSpec rd cd r c = true := by
  rw [hidden1_eq]
  simp only [Bool.and_eq_true, and_assoc]

/-! ## What `hiddenSpec` says -/

/-- strictly opposite signs = negative product -/
theorem oppSigns_iff_mul_neg (x y : Int) : oppSigns x y = true ↔ x * y < 0 := by
  rw [oppSigns_iff, Opp, mul_neg_iff]
  constructor
  · rintro (⟨a, b⟩ | ⟨a, b⟩)
    · exact Or.inr ⟨a, b⟩
    · exact Or.inl ⟨a, b⟩
  · rintro (⟨a, b⟩ | ⟨a, b⟩)
    · exact Or.inr ⟨a, b⟩
    · exact Or.inl ⟨a, b⟩

/-- `cross a b r c = 0` says that the centre `(2r, 2c)` of the cell, the viewer's centre (the
origin) and the corner `(a, b)` are collinear: the centre is on the ray (or on its extension) -/
theorem cross_zero_iff_on_ray (a b r c : Int) : cross a b r c = 0 ↔ a * (2*c) = b * (2*r) := by
  unfold cross; constructor <;> intro h <;> linarith

/-- the rule, spelled out (general form) -/
theorem hiddenSpec_reading (rd cd r c : Int) :
    hiddenSpec rd cd r c = true ↔
      ¬(rd = 0 ∧ cd = 0) ∧ ¬(r = rd ∧ c = cd) ∧
      rd.sign * rd ≤ rd.sign * r ∧ cd.sign * cd ≤ cd.sign * c ∧
      cross (corners rd cd).1.1 (corners rd cd).1.2 r c *
        cross (corners rd cd).2.1 (corners rd cd).2.2 r c < 0 := by
  rw [hiddenSpec_iff, HiddenP, ← oppSigns_iff, oppSigns_iff_mul_neg]

/-- diagonal blocker: the rays go through the outermost corners `(2rd+sr, 2cd−sc)`, `(2rd−sr, 2cd+sc)` -/
theorem hiddenSpec_reading_diagonal (rd cd r c : Int) (hr : rd ≠ 0) (hc : cd ≠ 0) :
    hiddenSpec rd cd r c = true ↔
      ¬(r = rd ∧ c = cd) ∧ rd.sign * rd ≤ rd.sign * r ∧ cd.sign * cd ≤ cd.sign * c ∧
      ((2*rd+rd.sign)*c - (2*cd-cd.sign)*r) * ((2*rd-rd.sign)*c - (2*cd+cd.sign)*r) < 0 := by
  rw [hiddenSpec_reading, corners_diag hr hc]
  dsimp only [cross]
  constructor
  · rintro ⟨_, h⟩; exact h
  · intro h; exact ⟨fun h0 => hr h0.1, h⟩

/-- blocker in the viewer's row: the rays go through the two near corners `(±1, 2cd−sc)` -/
theorem hiddenSpec_reading_row (cd r c : Int) (hc : cd ≠ 0) :
    hiddenSpec 0 cd r c = true ↔
      ¬(r = 0 ∧ c = cd) ∧ cd.sign * cd ≤ cd.sign * c ∧
      (c - (2*cd-cd.sign)*r) * (-c - (2*cd-cd.sign)*r) < 0 := by
  rw [hiddenSpec_reading, corners_row]
  dsimp only [cross]
  simp only [Int.sign_zero, zero_mul, le_refl, true_and, mul_zero, zero_add, zero_sub, one_mul, neg_mul]
  constructor
  · rintro ⟨_, h⟩; exact h
  · intro h; exact ⟨hc, h⟩

/-- blocker in the viewer's column: the rays go through the two near corners `(2rd−sr, ±1)` -/
theorem hiddenSpec_reading_col (rd r c : Int) (hr : rd ≠ 0) :
    hiddenSpec rd 0 r c = true ↔
      ¬(r = rd ∧ c = 0) ∧ rd.sign * rd ≤ rd.sign * r ∧
      ((2*rd-rd.sign)*c - r) * ((2*rd-rd.sign)*c + r) < 0 := by
  rw [hiddenSpec_reading, corners_col hr]
  dsimp only [cross]
  simp only [Int.sign_zero, zero_mul, le_refl, true_and, mul_zero, zero_add, zero_sub, one_mul, neg_mul,
    sub_neg_eq_add]
  constructor
  · rintro ⟨_, h⟩; exact h
  · intro h; exact ⟨fun h0 => hr h0.1, h⟩

/-! ## The exceptions named by the property -/

/-- the blocker's own cell stays visible -/
theorem own_cell_visible (rd cd : Int) : hiddenSpec rd cd rd cd = false := by
  rw [← Bool.not_eq_true, hiddenSpec_iff, HiddenP]
  intro h; exact h.2.1 ⟨rfl, rfl⟩

/-- cells nearer than the blocker along one of its non-zero directions stay visible -/
theorem nearer_cells_visible (rd cd r c : Int)
    (h : rd.sign * r < rd.sign * rd ∨ cd.sign * c < cd.sign * cd) : hiddenSpec rd cd r c = false := by
  rw [← Bool.not_eq_true, hiddenSpec_iff, HiddenP]
  rintro ⟨_, _, h3, h4, _⟩
  rcases h with h | h <;> omega

/-- a cell whose centre lies exactly on one of the two rays stays visible -/
theorem on_ray_visible (rd cd r c : Int)
    (h : cross (corners rd cd).1.1 (corners rd cd).1.2 r c = 0 ∨
         cross (corners rd cd).2.1 (corners rd cd).2.2 r c = 0) : hiddenSpec rd cd r c = false := by
  rw [← Bool.not_eq_true, hiddenSpec_iff, HiddenP, Opp]
  rintro ⟨_, _, _, _, h5⟩
  rcases h with h | h <;> rw [h] at h5 <;> omega

/-- a blocking agent standing on the viewer's own cell (the viewer itself included) hides nothing -/
theorem blocker_on_viewer_ignored (r c : Int) : hiddenSpec 0 0 r c = false := by
  rw [← Bool.not_eq_true, hiddenSpec_iff, HiddenP]
  intro h; exact h.1 ⟨rfl, rfl⟩

/-! ## The whole mask -/

theorem hiddenBySpec_iff (R : Nat) (bs : List Blocker) (r c : Int) :
    hiddenBySpec R bs r c = true ↔
      ∃ b ∈ bs, b.2.2.1 = true ∧ b.2.2.2 = true ∧ (inWin R b.1 = true ∧ inWin R b.2.1 = true) ∧
        hiddenSpec b.1 b.2.1 r c = true := by
  unfold hiddenBySpec
  rw [List.any_eq_true]
  simp only [Bool.and_eq_true, and_assoc]

/-- **C10, whole mask.**  For every range, every list of agents (any flags, any offsets) and
every cell of the window: the model's mask has a 0 there iff some blocking, active agent within
range has the cell in its shadow — and a 1 otherwise. -/
theorem mask_iff_exists_blocker (R : Nat) (bs : List Blocker) (r c : Int)
    (hr : inWin R r = true) (hc : inWin R c = true) :
    (visibleAt R (maskOf R bs) r c = some false ↔
      ∃ b ∈ bs, b.2.2.1 = true ∧ b.2.2.2 = true ∧ (inWin R b.1 = true ∧ inWin R b.2.1 = true) ∧
        hiddenSpec b.1 b.2.1 r c = true) ∧
    (visibleAt R (maskOf R bs) r c = some true ↔
      ¬∃ b ∈ bs, b.2.2.1 = true ∧ b.2.2.2 = true ∧ (inWin R b.1 = true ∧ inWin R b.2.1 = true) ∧
        hiddenSpec b.1 b.2.1 r c = true) := by
  rw [visibleAt_maskOf R bs r c hr hc, ← hiddenBySpec_iff]
  cases hiddenBySpec R bs r c <;> simp

theorem maskStep_ignored (R : Nat) (m : List (List Bool)) (b : Blocker)
    (h : (b.2.2.1 && b.2.2.2) = false) : maskStep R m b = m := by
  unfold maskStep
  rw [Bool.and_comm, h]; rfl

/-- non-blocking agents and inactive agents do not influence the mask at all: removing them
from the agent dictionary gives the identical table -/
theorem nonblocking_inactive_ignored (R : Nat) (bs : List Blocker) :
    maskOf R bs = maskOf R (bs.filter fun b => b.2.2.1 && b.2.2.2) := by
  unfold maskOf
  generalize blankMask R = m
  induction bs generalizing m with
  | nil => rfl
  | cons b bs ih =>
    rw [List.foldl_cons, List.filter_cons]
    cases hb : (b.2.2.1 && b.2.2.2)
    · rw [maskStep_ignored R m b hb]
      simpa using ih m
    · simp only [if_true, List.foldl_cons]
      exact ih _

/-- agents outside the range window do not influence any cell -/
theorem out_of_range_ignored (R : Nat) (bs : List Blocker) (r c : Int)
    (hr : inWin R r = true) (hc : inWin R c = true) :
    visibleAt R (maskOf R bs) r c =
      visibleAt R (maskOf R (bs.filter fun b => inWin R b.1 && inWin R b.2.1)) r c := by
  rw [visibleAt_maskOf R bs r c hr hc, visibleAt_maskOf R _ r c hr hc]
  unfold hiddenBySpec
  rw [List.any_filter]
  congr 3
  funext b
  cases b.2.2.1 <;> cases b.2.2.2 <;> cases inWin R b.1 <;> cases inWin R b.2.1 <;> simp

/-! ## Same rule in all eight orientations -/

/-- reflecting blocker and cell in the viewer's row -/
theorem hidden_flip_rows (rd cd r c : Int) : hiddenSpec (-rd) cd (-r) c = hiddenSpec rd cd r c := by
  rw [Bool.eq_iff_iff, hiddenSpec_iff, hiddenSpec_iff]; exact HiddenP_flip_rows rd cd r c

/-- reflecting blocker and cell in the viewer's column -/
theorem hidden_flip_cols (rd cd r c : Int) : hiddenSpec rd (-cd) r (-c) = hiddenSpec rd cd r c := by
  rw [Bool.eq_iff_iff, hiddenSpec_iff, hiddenSpec_iff]; exact HiddenP_flip_cols rd cd r c

/-- exchanging rows and columns -/
theorem hidden_transpose (rd cd r c : Int) : hiddenSpec cd rd c r = hiddenSpec rd cd r c := by
  rw [Bool.eq_iff_iff, hiddenSpec_iff, hiddenSpec_iff]; exact HiddenP_transpose rd cd r c

/-- the same three facts for the *model* of the eight cases (each generator maps one
hand-written case onto another one) -/
theorem hidden1_flip_rows (R : Nat) (rd cd r c : Int) :
    hidden1 R (-rd) cd (-r) c = hidden1 R rd cd r c := by
  rw [hidden1_eq, hidden1_eq, hidden_flip_rows, inWin_neg, inWin_neg]

theorem hidden1_flip_cols (R : Nat) (rd cd r c : Int) :
    hidden1 R rd (-cd) r (-c) = hidden1 R rd cd r c := by
  rw [hidden1_eq, hidden1_eq, hidden_flip_cols, inWin_neg, inWin_neg]

theorem hidden1_transpose (R : Nat) (rd cd r c : Int) :
    hidden1 R cd rd c r = hidden1 R rd cd r c := by
  rw [hidden1_eq, hidden1_eq, hidden_transpose, Bool.and_comm (inWin R cd), Bool.and_comm (inWin R c)]

/-- the eight symmetries of the square -/
def allSyms : List Sym :=
  [⟨false, false, false⟩, ⟨false, true, false⟩, ⟨false, false, true⟩, ⟨false, true, true⟩,
   ⟨true, false, false⟩, ⟨true, true, false⟩, ⟨true, false, true⟩, ⟨true, true, true⟩]

/-- they really are eight different maps (the images of one generic offset are pairwise distinct)
and every `Sym` is one of them -/
theorem allSyms_distinct : (allSyms.map fun s => s.act (1, 2)).Nodup := by decide

theorem allSyms_complete (s : Sym) : s ∈ allSyms := by
  obtain ⟨a, b, c⟩ := s
  cases a <;> cases b <;> cases c <;> decide

/-- **C10, symmetry.**  Rotating or reflecting the whole layout (every agent's offset, flags
unchanged) rotates or reflects the set of hidden cells: the transformed layout's mask at the
transformed cell is the original mask at the original cell — for every one of the eight
symmetries, every range, every list of agents, every cell of the window. -/
theorem mask_dihedral (R : Nat) (s : Sym) (bs : List Blocker) (r c : Int)
    (hr : inWin R r = true) (hc : inWin R c = true) :
    visibleAt R (maskOf R (bs.map s.onBlocker)) (s.act (r, c)).1 (s.act (r, c)).2 =
      visibleAt R (maskOf R bs) r c := by
  have hw := inWin_act R s r c
  rw [hr, hc] at hw
  simp only [Bool.and_true, Bool.and_eq_true] at hw
  rw [visibleAt_maskOf R bs r c hr hc, visibleAt_maskOf R _ _ _ hw.1 hw.2, hiddenBySpec_act]

/-! ## The judge -/

/-- what `specMask` says: right shape, and every cell of the window is `false` (hidden) exactly
when some active blocking agent within range has it in its shadow -/
theorem specMask_reading (R : Nat) (bs : List Blocker) (out : List (List Bool)) :
    specMask R bs out = true ↔
      (out.length = 2*R+1 ∧ ∀ row ∈ out, row.length = 2*R+1) ∧
      ∀ i < 2*R+1, ∀ j < 2*R+1,
        cellAt out i j = some (!hiddenBySpec R bs ((i : Int) - (R : Int)) ((j : Int) - (R : Int))) := by
  unfold specMask
  simp only [Bool.and_eq_true, beq_iff_eq, List.all_eq_true, List.mem_range]

/-- the same, addressed by offsets -/
theorem specMask_visibleAt (R : Nat) (bs : List Blocker) (out : List (List Bool))
    (h : specMask R bs out = true) (r c : Int) (hr : inWin R r = true) (hc : inWin R c = true) :
    visibleAt R out r c = some (!hiddenBySpec R bs r c) := by
  rw [specMask_reading] at h
  rw [inWin_iff] at hr hc
  unfold visibleAt
  have e1 : (((r + (R : Int)).toNat : Nat) : Int) = r + R := Int.toNat_of_nonneg (by omega)
  have e2 : (((c + (R : Int)).toNat : Nat) : Int) = c + R := Int.toNat_of_nonneg (by omega)
  rw [h.2 _ (by omega) _ (by omega), e1, e2]
  congr 3 <;> omega

/-- **the model's outcome satisfies the judge**, for every range and every list of agents -/
theorem C10_model_satisfies_spec (R : Nat) (bs : List Blocker) : specMask R bs (maskOf R bs) = true := by
  rw [specMask_reading]
  exact ⟨shape_maskOf R bs, fun i hi j hj => cellAt_maskOf_spec R bs i j hi hj⟩

/-- two tables that both pass the judge are equal cell by cell (the judge determines the mask) -/
theorem specMask_unique (R : Nat) (bs : List Blocker) (o1 o2 : List (List Bool))
    (h1 : specMask R bs o1 = true) (h2 : specMask R bs o2 = true) :
    ∀ i < 2*R+1, ∀ j < 2*R+1, cellAt o1 i j = cellAt o2 i j := by
  rw [specMask_reading] at h1 h2
  intro i hi j hj
  rw [h1.2 i hi j hj, h2.2 i hi j hj]

/-! ## Non-vacuity: a diagonal blocker at range 3 -/

/-- blocker one step below-right of the viewer (numpy index (4, 4)): the cone behind it is hidden;
the blocker's own cell and the two cells whose centres are exactly on a ray — offsets (1, 3) and
(3, 1) — stay visible -/
example : maskOf 3 [(1, 1, true, true)] =
    [[true, true, true, true, true,  true,  true],
     [true, true, true, true, true,  true,  true],
     [true, true, true, true, true,  true,  true],
     [true, true, true, true, true,  true,  true],
     [true, true, true, true, true,  false, true],
     [true, true, true, true, false, false, false],
     [true, true, true, true, true,  false, false]] := by decide

example : specMask 3 [(1, 1, true, true)] (maskOf 3 [(1, 1, true, true)]) = true := by decide

/-- a knight's-move blocker at (1, 2): cells behind it and strictly between the rays are hidden,
its own cell (1, 2) and the cell (3, 3), whose centre is exactly on the ray through the corner
(3, 3)/2, are visible -/
example : hidden1 3 1 2 2 3 = true ∧ hidden1 3 1 2 1 2 = false ∧ hidden1 3 1 2 1 3 = true ∧
    hidden1 3 1 2 3 3 = false ∧ hiddenSpec 1 2 2 3 = true ∧ hiddenSpec 1 2 3 3 = false := by decide

/-- the F7 layout: range 16, blocker at (8, 5); the centre of (15, 11) is exactly on the ray
through the corner (17, 11)/2, so it is visible — and so is its transpose -/
example : hidden1 16 8 5 15 11 = false ∧ hidden1 16 5 8 11 15 = false ∧
    cross 15 11 15 11 = 0 ∧ hidden1 16 8 5 14 9 = true := by decide

/-- flags matter: the same blocker, non-blocking or inactive, hides nothing; the judge rejects a
mask that hides a cell without cause -/
example : maskOf 1 [(0, 1, false, true), (1, 0, true, false)] = blankMask 1 ∧
    specMask 1 [(0, 1, false, true)] [[true, true, true], [true, true, false], [true, true, true]] = false := by
  decide

end Mask
end Abmarl
