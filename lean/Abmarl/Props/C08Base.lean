import Abmarl.Lemmas.Adapters
import Abmarl.Model.StubSim
/-!
# C08 — Reset starts a fresh episode that does not depend on earlier episodes

The model state of every layer carries **every** mutable field the Python object carries (turn
pointer and done set of the managers; `_should_reset/_current_player` of the OpenSpiel adapter;
`_obs/_reward/_done/_info` of `GymABS`; …) and `reset` is written field by field as the code does,
so these theorems are false of a model that skips a field — which is how F3 (turn pointer), F4
(`GymABS._done/_reward`) and F8 (placement order) were found.

* `ResetForgets S` — the hypothesis on the wrapped simulation: its own `reset` does not depend on
  the prior state (the stub with a constant episode number satisfies it; the grid-world state
  components are proved to, in `…`).
* `mgr_reset_forgets` / `fresh_twin_managers` — for every simulation with `ResetForgets`, every
  manager kind, every prefix history (any number of earlier episodes, cut anywhere), every seed
  (tape) and every follow-up history: the trace of `reset :: follow-up` after the prefix equals the
  trace on a newly built manager.
* `os_reset_forgets` / `fresh_twin_openspiel`, `gymabs_reset_forgets` — the same for the OpenSpiel
  adapter and for `GymABS`.
-/
namespace Abmarl
variable {σ α ω ι : Type}

/-- the wrapped simulation's own reset does not depend on earlier episodes -/
def ResetForgets (S : SimIface σ α ω ι) : Prop := ∀ s1 s2, S.reset s1 = S.reset s2

/-- one `reset` brings two managers with the same configuration and seed into the same state and
produces the same output, whatever happened before -/
theorem runOp_reset_eq (S : SimIface σ α ω ι) (hR : ResetForgets S) (k : MKind)
    (hl : k = .turnBased → S.learners ≠ []) (m1 m2 : MState σ)
    (hsh : m1.shuffle = m2.shuffle) (ht : m1.tape = m2.tape) :
    runOp (α := α) S k m1 .reset = runOp (α := α) S k m2 .reset := by
  have hs : S.reset m1.sim = S.reset m2.sim := hR _ _
  cases k with
  | allStep => simp [runOp, mgrReset, hs, hsh, ht]
  | dynamic => simp [runOp, mgrReset, hs, hsh, ht]
  | turnBased =>
    obtain ⟨a, rest, hL⟩ : ∃ a rest, S.learners = a :: rest := by
      cases hL : S.learners with
      | nil => exact absurd hL (hl rfl)
      | cons a r => exact ⟨a, r, rfl⟩
    simp [runOp, mgrReset, hs, hL, hsh, ht]

/-- **C08 (managers)**: `reset` followed by any history gives the same trace on any two managers of
the same kind, configuration and seed over the same simulation — no matter what either went through
before (any number of earlier episodes, each cut anywhere). -/
theorem mgr_reset_forgets (S : SimIface σ α ω ι) (hR : ResetForgets S) (k : MKind)
    (hl : k = .turnBased → S.learners ≠ []) (m1 m2 : MState σ)
    (hsh : m1.shuffle = m2.shuffle) (ht : m1.tape = m2.tape) (ops : List (Op α)) :
    runOps S k m1 (.reset :: ops) = runOps S k m2 (.reset :: ops) := by
  simp only [runOps, runOp_reset_eq (α := α) S hR k hl m1 m2 hsh ht]

/-- the manager state after a history -/
def finalState (S : SimIface σ α ω ι) (k : MKind) : MState σ → List (Op α) → MState σ
  | m, [] => m
  | m, op :: ops => finalState S k (runOp S k m op).2 ops

theorem runOp_shuffle (S : SimIface σ α ω ι) (k : MKind) (m : MState σ) (op : Op α) :
    (runOp S k m op).2.shuffle = m.shuffle := by
  cases op with
  | reset =>
    cases k with
    | allStep => simp [runOp, mgrReset]
    | dynamic => simp [runOp, mgrReset]
    | turnBased =>
      simp only [runOp, mgrReset]
      cases S.learners <;> simp
  | step acts =>
    simp only [runOp]
    cases hm : mgrStep S k m acts with
    | error e => rfl
    | ok r =>
      obtain ⟨o, a, m'⟩ := r
      simp only
      by_cases hrej : acts.any (fun q => decide (q.1 ∈ m.doneSet)) = true
      · simp [mgrStep, hrej] at hm
      · have hacc : acts.any (fun q => decide (q.1 ∈ m.doneSet)) = false := by simpa using hrej
        cases k with
        | allStep =>
          simp only [mgrStep, hacc, Bool.false_eq_true, if_false, Except.ok.injEq, Prod.mk.injEq] at hm
          rw [← hm.2.2]
        | dynamic =>
          simp only [mgrStep, hacc, Bool.false_eq_true, if_false] at hm
          split at hm
          · simp only [Except.ok.injEq, Prod.mk.injEq] at hm; rw [← hm.2.2]
          · simp only [Except.ok.injEq, Prod.mk.injEq] at hm; rw [← hm.2.2]
        | turnBased =>
          simp only [mgrStep, hacc, Bool.false_eq_true, if_false] at hm
          split at hm
          · simp only [Except.ok.injEq, Prod.mk.injEq] at hm; rw [← hm.2.2]
          · split at hm
            · cases hm
            · simp only [Except.ok.injEq, Prod.mk.injEq] at hm; rw [← hm.2.2]

theorem finalState_shuffle (S : SimIface σ α ω ι) (k : MKind) :
    ∀ (ops : List (Op α)) (m : MState σ), (finalState S k m ops).shuffle = m.shuffle := by
  intro ops
  induction ops with
  | nil => intro m; rfl
  | cons op ops ih => intro m; simp only [finalState]; rw [ih, runOp_shuffle]

/-- **C08, used versus fresh twin**: an episode played after `reset` on a manager that went through
any prefix history is indistinguishable from the same seeded episode on a newly built manager. -/
theorem fresh_twin_managers (S : SimIface σ α ω ι) (hR : ResetForgets S) (k : MKind)
    (hl : k = .turnBased → S.learners ≠ []) (m0 : MState σ) (history follow : List (Op α)) (seed : Tape) :
    runOps S k { finalState S k m0 history with tape := seed } (.reset :: follow) =
    runOps S k { m0 with tape := seed } (.reset :: follow) :=
  mgr_reset_forgets S hR k hl { finalState S k m0 history with tape := seed } { m0 with tape := seed }
    (finalState_shuffle S k history m0) rfl follow

/-! ## OpenSpiel adapter -/

/-- an explicit `reset()` of the adapter forgets `_should_reset`, the current player and everything
the manager underneath remembered -/
theorem os_reset_eq [DecidableEq α] (S : SimIface σ α ω ι) (hR : ResetForgets S) (k : MKind) (hW : WF S k)
    (hk : k ≠ .dynamic) (hl : S.learners ≠ []) (st1 st2 : OSState σ)
    (hsh : st1.m.shuffle = st2.m.shuffle) (ht : st1.m.tape = st2.m.tape) :
    osReset (α := α) S k st1 = osReset (α := α) S k st2 := by
  have hrs := runOp_reset_eq (α := α) S hR k (fun _ => hl) st1.m st2.m hsh ht
  obtain ⟨h01, h07, _, _⟩ := reset_sound (α := α) hW st2.m {}
  obtain ⟨rs, hrsd⟩ : ∃ rs, rs = runOp (α := α) S k st2.m .reset := ⟨_, rfl⟩
  rw [← hrsd] at h01 h07
  have hop : rs.1.op = .reset := by rw [hrsd]; exact runOp_op S k st2.m _
  obtain ⟨obs, hobs⟩ : ∃ obs, rs.1.res = .resetOk obs := by
    cases hr : rs.1.res with
    | resetOk o => exact ⟨o, rfl⟩
    | stepOk o => simp [c01Entry, hop, hr] at h01
    | err e => simp [c01Entry, hop, hr] at h01
  have hne : keys obs ≠ [] := by
    cases k with
    | dynamic => exact absurd rfl hk
    | allStep =>
      simp only [c07Entry, hop, hobs, Bool.and_eq_true, sameSet, List.all_eq_true, decide_eq_true_eq] at h07
      intro he
      obtain ⟨a, ha⟩ := List.exists_mem_of_ne_nil _ hl
      have := h07.1.2 a ha
      rw [he] at this; cases this
    | turnBased =>
      simp only [c07Entry, hop, hobs, Bool.and_eq_true, beq_iff_eq] at h07
      have h1 : keys obs = S.learners.take 1 := h07.1
      rw [h1]
      cases hL : S.learners with
      | nil => exact absurd hL hl
      | cons x xs => simp
  obtain ⟨p, hp⟩ : ∃ p, obs.head? = some p := by
    cases ho : obs with
    | nil => rw [ho] at hne; exact absurd rfl hne
    | cons x xs => exact ⟨x, rfl⟩
  simp only [osReset, hrs, ← hrsd, hobs, hp]

/-- **C08 (OpenSpiel adapter)**: after an explicit `reset()` the play-through is the same on a used
and on a fresh adapter. -/
theorem fresh_twin_openspiel [DecidableEq α] (S : SimIface σ α ω ι) (hR : ResetForgets S) (k : MKind)
    (hW : WF S k) (hk : k ≠ .dynamic) (hl : S.learners ≠ []) (st1 st2 : OSState σ)
    (hsh : st1.m.shuffle = st2.m.shuffle) (ht : st1.m.tape = st2.m.tape)
    (calls : List (Option (List α))) :
    osRun S k st1 (none :: calls) = osRun S k st2 (none :: calls) := by
  simp only [osRun, os_reset_eq S hR k hW hk hl st1 st2 hsh ht]

/-! ## GymABS (a gym environment used as an AgentBasedSimulation) -/

/-- **C08 (GymABS)**: if the environment's own reset does not depend on the past, neither does the
adapter's — in particular `get_done()`/`get_reward()` right after reset are `None` again (F4). -/
theorem gymabs_reset_forgets {ε : Type} (E : GymEnv ε α ω ι) (hE : ∀ e1 e2, E.reset e1 = E.reset e2)
    (s1 s2 : GymABSSt ε ω ι) : gymabsReset E s1 = gymabsReset E s2 := by
  simp [gymabsReset, hE s1.env s2.env]

theorem gymabs_reset_clears {ε : Type} (E : GymEnv ε α ω ι) (s : GymABSSt ε ω ι) :
    (gymabsReset E s).reward = none ∧ (gymabsReset E s).done = none := ⟨rfl, rfl⟩

/-! ## The stub with a constant episode number forgets -/

theorem stubFlat_forgets (sc : Script) : ResetForgets (stubSimFlat sc) := fun _ _ => rfl

end Abmarl
