import Abmarl.Props.C01
/-!
# C07 — Managers schedule turns fairly and an unfinished episode can always progress

* `C07_fair_turns_and_progress` — for every simulation satisfying `WF`, every manager kind and
  every history, the model's trace satisfies `specC07`.
* `C07_every_call_returns` — the turn search of the turn-based manager never exhausts a
  rotation in any reachable state: the model never yields `exhausted` (the real code's
  `for next_agent in cycle(...)` therefore terminates wherever it corresponds to the model),
  and no model call ever yields `crash` or `hang`.
* `c07_*` read `specC07` back as the clauses of the property.
-/
namespace Abmarl
variable {σ α ω ι : Type}

/-- **C07** for every simulation, manager kind and history. -/
theorem C07_fair_turns_and_progress [DecidableEq α] (S : SimIface σ α ω ι) (k : MKind)
    (hW : WF S k) (m0 : MState σ) (ops : List (Op α)) :
    specC07 k S.n S.learning (runOps S k m0 ops) = true :=
  (runOps_sound hW ops m0 {} (by intro h; simp at h)).2

/-- every manager call made under the caller protocol returns normally or with the documented
rejection — in particular the turn search never runs out (`exhausted`), for any history. -/
theorem C07_every_call_returns [DecidableEq α] (S : SimIface σ α ω ι) (k : MKind)
    (hW : WF S k) (m0 : MState σ) (ops : List (Op α)) (i : Nat) (e : Entry α ω ι)
    (hi : (runOps S k m0 ops)[i]? = some e) (hp : ProtocolOK {} (runOps S k m0 ops) i) :
    ∀ er, e.res = .err er → er = .rejected := by
  intro er her
  have h := specLoop_at _ _ _ (C07_fair_turns_and_progress S k hW m0 ops) i e hi hp
  cases hop : e.op <;> simpa [c07Entry, hop, her] using h

section readings
variable {k : MKind} {n : Nat} {learning : Aid → Bool} {g : GSt} {e : Entry α ω ι} {o : Out ω ι}
  {acts : List (Aid × α)}

/-- all-step: after a non-final step exactly the learning agents not yet reported done are reported -/
theorem c07_allStep_reports (h : c07Entry .allStep n learning g e = true) (hop : e.op = .step acts)
    (ho : e.res = .stepOk o) (hnf : o.allDone = false) :
    ∀ a, a ∈ keys o.dones ↔ (a < n ∧ learning a = true ∧ a ∉ g.R) := by
  simp only [c07Entry, hop, ho, hnf, Bool.false_or, Bool.and_eq_true, sameSet, List.all_eq_true,
    decide_eq_true_eq] at h
  intro a
  constructor
  · intro ha
    have := h.1.1 a ha
    simp only [List.mem_filter, List.mem_range, decide_eq_true_eq] at this
    exact ⟨this.1.1, this.1.2, this.2⟩
  · intro ha
    apply h.1.2 a
    simp only [List.mem_filter, List.mem_range, decide_eq_true_eq]
    exact ⟨⟨ha.1, ha.2.1⟩, ha.2.2⟩

/-- turn-based: a non-final output consists of the agents that finish now, in cyclic listing
order after the previous turn holder, followed by exactly one agent that is not done — the
first one in that order that is neither already reported nor finishing now. -/
theorem c07_turnBased_one_live (h : c07Entry .turnBased n learning g e = true) (hop : e.op = .step acts)
    (ho : e.res = .stepOk o) (hnf : o.allDone = false) :
    turnExpect ((List.range n).filter learning) g e.ghost.simDone = some o.dones := by
  simp only [c07Entry, hop, ho, hnf, Bool.false_or, Bool.and_eq_true, beq_iff_eq] at h
  exact h.1

/-- dynamic: a non-final output reports exactly the nominated agents minus those already done -/
theorem c07_dynamic_reports (h : c07Entry .dynamic n learning g e = true) (hop : e.op = .step acts)
    (ho : e.res = .stepOk o) (hnf : o.allDone = false) :
    ∀ a, a ∈ keys o.dones ↔ (a ∈ e.ghost.nominated ∧ a ∉ g.R) := by
  simp only [c07Entry, hop, ho, hnf, Bool.false_or, Bool.and_eq_true, sameSet, List.all_eq_true,
    decide_eq_true_eq] at h
  intro a
  constructor
  · intro ha; simpa using h.1.1 a ha
  · intro ha; exact h.1.2 a (by simpa using ha)

/-- whenever `__all__` is false some reported agent is not done (for the dynamic-order manager:
provided the simulation honoured its documented duty to nominate a live agent) -/
theorem c07_progress (h : c07Entry k n learning g e = true) (hop : e.op = .step acts)
    (ho : e.res = .stepOk o) (hnf : o.allDone = false)
    (hdyn : k = .dynamic → nominatesLive g e.ghost = true) :
    ∃ p ∈ o.dones, p.2 = false := by
  simp only [c07Entry, hop, ho, hnf, Bool.false_or, Bool.and_eq_true, Bool.or_eq_true,
    List.any_eq_true, Bool.not_eq_true', beq_iff_eq] at h
  rcases h.2 with h2 | ⟨hk, hnl⟩
  · exact h2
  · rw [hdyn hk] at hnl; cases hnl

end readings

/-- the judge is sound on the scripted family -/
theorem C07_stub (sc : Script) (k : MKind) (m0 : MState StubSt) (ops : List (Op Int))
    (hl : k = .turnBased → ∃ a < sc.n, sc.learning.getD a false = true)
    (hd : k = .dynamic → ScriptWF sc) :
    specC07 k sc.n (stubSim sc).learning (runOps (stubSim sc) k m0 ops) = true :=
  C07_fair_turns_and_progress (stubSim sc) k (stub_WF sc k hl hd) m0 ops

/-- non-vacuity: in the example history of C01 a turn passes over an agent that finished
"before its turn" and a simultaneous double finish is reported together with the live agent -/
example :
    let tr := runOps (stubSim exScript) .turnBased (mgrInit {} false []) exOps
    (tr.any fun e => match e.res with | .stepOk o => decide (o.dones.length = 3) | _ => false) = true ∧
    specC07 .turnBased 4 (stubSim exScript).learning tr = true := by
  decide

end Abmarl
