import Abmarl.Lemmas.BuildersText
import Abmarl.Lemmas.BuildersGrid
/-!
# C18 — All simulation builders produce the same simulation for the same layout

Property theorems only (helper lemmas live in `Lemmas/Builders*.lean`).  The model is
`Model/Builders.lean` (the four builders and the placement of `PositionState.reset`), the
decidable specification is `specBuild` / `specSame` / `specReset` / `specC18` in
`Spec/Builders.lean`.  Every theorem is for **all** shapes `rows × cols`, **all** arrangements
of characters, **all** registries and **all** extra-agent dictionaries (including id clashes).

* `fromArray_spec` — the array builder yields exactly the prescribed simulation;
* `fromFile_eq_fromArray` — parsing the text rendering (with or without a final newline) gives
  the array builder's result;
* `fromGrid_eq` — so does building from the grid that holds the layout's agents;
* `direct_spec` — and building directly from the prescribed agents;
* `extra_agents_merge`, `layout_wins` — the merge rule for extra agents;
* `layout_reset_positions`, `layout_reset_succeeds` — after reset every layout agent stands on
  its layout cell, and a layout on its own can always be reset;
* `reserved_rejected` — what the code rejects as reserved;
* `C18_all_builders_agree` — the five model outcomes satisfy `specC18`;
* `specBuild_reading` … — the Bool-valued predicates say what the property says.

Domain.  `WF`: positive shape, `cells.length = rows * cols` (a numpy array), extra agents form a
dictionary (distinct ids).  For the file: every entry is a character that can stand in a file
cell (`CellOk`: not a space, not a line boundary — alphanumerics and the empty markers are).
For the full specification: the character `'0'` is not registered — see finding B1 below.

## Finding B1 (open, recorded in known_findings.json)
The documentation reserves "zeros, periods, and underscores" for empty space and the builders
assert `all(i not in object_registry for i in [0, '.', '_'])`: the *integer* 0.  A file or a
string array never holds the integer 0, so a registry with the key `'0'` is accepted and every
`'0'` entry produces an agent instead of being ignored.  The specification says what the
property says (clause 0 of `specClauses`: such a registry must be rejected); the model says what
the code does; `zero_marker_registered_is_not_rejected` was the gap (now repaired), and
`C18_all_builders_agree` carries the hypothesis that `'0'` is not registered.
-/
namespace Abmarl
namespace Builders

/-- well-formed input of the builders -/
structure WF (rows cols : Nat) (cells : List Nat) (extras : List Agent) : Prop where
  rows_pos    : 0 < rows
  cols_pos    : 0 < cols
  shape       : cells.length = rows * cols
  extras_dict : (extras.map (·.id)).Nodup

variable {rows cols : Nat} {cells : List Nat} {reg : Registry} {extras : List Agent}

theorem buildSim_ok (hr : 0 < rows) (hc : 0 < cols) (D : List Agent) :
    buildSim rows cols D = .ok { rows := rows, cols := cols, agents := D } := by
  unfold buildSim
  rw [if_neg (by omega)]

/-- the array builder's result, in closed form -/
theorem fromArray_ok (h : WF rows cols cells extras) (hres : reservedInRegistry reg = false) :
    fromArray rows cols cells reg extras =
      .ok { rows := rows, cols := cols, agents := (layoutAgents reg cols cells).foldl dictSet extras } := by
  rw [fromArray_eq rows cols cells reg extras h.shape hres, buildSim_ok h.rows_pos h.cols_pos]

/-- **`fromArray_spec`**: one agent per registered character in row-major reading order, the
k-th occurrence of a character numbered k (from 0), initial position = coordinates, reserved and
unregistered entries ignored, grid size = array shape, extras merged. -/
theorem fromArray_spec (h : WF rows cols cells extras) (hres : reservedInRegistry reg = false) :
    specBuild rows cols cells reg extras (fromArray rows cols cells reg extras) = true := by
  rw [fromArray_ok h hres]
  exact specBuild_of_mem rows cols cells reg extras _
    (mem_update_layout reg cols cells extras h.extras_dict)
    (nodup_foldl_dictSet _ _ h.extras_dict)

/-- **`fromFile_eq_fromArray`**: a text file holding the same characters (one line per row,
entries separated by one space, with or without a final newline) builds the same simulation,
for every registry and every extra agents (and is rejected exactly when the array is). -/
theorem fromFile_eq_fromArray (h : WF rows cols cells extras) (hok : ∀ c ∈ cells, CellOk c) :
    fromFile (render rows cols cells) reg extras = fromArray rows cols cells reg extras ∧
    fromFile (render rows cols cells ++ [10]) reg extras = fromArray rows cols cells reg extras := by
  obtain ⟨h1, h2⟩ := lines_render rows cols cells h.cols_pos (by rw [h.shape]; exact Nat.le_refl _) hok
  exact ⟨fromFile_of_render_lines rows cols cells reg extras _ h.rows_pos h.cols_pos h.shape hok h1,
    fromFile_of_render_lines rows cols cells reg extras _ h.rows_pos h.cols_pos h.shape hok (h2 h.rows_pos)⟩

/-- the round trip behind it: splitting the rendering gives the rows' characters back -/
theorem parse_render (h : WF rows cols cells extras) (hok : ∀ c ∈ cells, CellOk c) :
    (splitLines (normCRLF (render rows cols cells))).map splitSp =
      (rowsOf cols rows cells).map (fun row => row.map (fun c => [c])) := by
  rw [(lines_render rows cols cells h.cols_pos (by rw [h.shape]; exact Nat.le_refl _) hok).1,
    List.map_map]
  apply List.map_congr_left
  intro row hrow
  obtain ⟨h1, h2⟩ := mem_rowsOf cols rows cells row (by rw [h.shape]; exact Nat.le_refl _) hrow
  have hne : row ≠ [] := by
    intro e; rw [e] at h1; simp at h1; have := h.cols_pos; omega
  exact splitSp_rowText row hne (fun c hc => hok c (h2 c hc))

/-- **`fromGrid_eq`**: building from the grid that holds exactly the layout's agents (each placed
on its initial position, in reading order) gives the array builder's simulation: same size,
same agents, same dictionary order. -/
theorem fromGrid_eq (h : WF rows cols cells extras) (hres : reservedInRegistry reg = false) :
    fromGrid rows cols (gridOfAgents rows cols (layoutAgents reg cols cells)) extras =
      fromArray rows cols cells reg extras := by
  rw [fromGrid_gridOfAgents rows cols cells reg extras h.shape,
    fromArray_eq rows cols cells reg extras h.shape hres]

theorem fromGrid_spec (h : WF rows cols cells extras) :
    specBuild rows cols cells reg extras
      (fromGrid rows cols (gridOfAgents rows cols (layoutAgents reg cols cells)) extras) = true := by
  rw [fromGrid_gridOfAgents rows cols cells reg extras h.shape, buildSim_ok h.rows_pos h.cols_pos]
  exact specBuild_of_mem rows cols cells reg extras _
    (mem_update_layout reg cols cells extras h.extras_dict)
    (nodup_foldl_dictSet _ _ h.extras_dict)

/-- **`direct_spec`**: `build_sim` with the prescribed agents given explicitly -/
theorem direct_spec (h : WF rows cols cells extras) :
    specBuild rows cols cells reg extras
      (direct rows cols (expectedAgents reg cols cells extras)) = true := by
  rw [direct, buildSim_ok h.rows_pos h.cols_pos]
  apply specBuild_of_mem
  · intro x
    rw [expectedAgents, List.mem_append, mem_keptExtras]
  · rw [expectedAgents, List.map_append, List.nodup_append]
    refine ⟨layoutAgents_ids_nodup reg cols cells, ?_, ?_⟩
    · exact List.Nodup.sublist (List.Sublist.map _ List.filter_sublist) h.extras_dict
    · intro i hi j hj e
      subst e
      obtain ⟨x, hx, rfl⟩ := List.mem_map.mp hj
      exact (mem_keptExtras.mp hx).2 hi

/-- **`extra_agents_merge`**: the built simulation holds every layout agent, every extra agent
whose id no layout agent has, and nothing else; ids stay unique. -/
theorem extra_agents_merge (h : WF rows cols cells extras) (hres : reservedInRegistry reg = false) :
    ∃ sim, fromArray rows cols cells reg extras = .ok sim ∧ sim.rows = rows ∧ sim.cols = cols ∧
      (sim.agents.map (·.id)).Nodup ∧
      ∀ x, x ∈ sim.agents ↔
        x ∈ layoutAgents reg cols cells ∨
          (x ∈ extras ∧ ∀ l ∈ layoutAgents reg cols cells, l.id ≠ x.id) := by
  refine ⟨_, fromArray_ok h hres, rfl, rfl, nodup_foldl_dictSet _ _ h.extras_dict, fun x => ?_⟩
  rw [mem_update_layout reg cols cells extras h.extras_dict]
  simp only [List.mem_map, not_exists, not_and]

/-- **the layout's agent wins**: on an id clash the agent found under that id in the built
simulation is the layout's, whatever the extra agent looked like. -/
theorem layout_wins (h : WF rows cols cells extras) (hres : reservedInRegistry reg = false)
    {sim : Sim} (hs : fromArray rows cols cells reg extras = .ok sim)
    {l x : Agent} (hl : l ∈ layoutAgents reg cols cells) (hx : x ∈ sim.agents) (hid : x.id = l.id) :
    x = l := by
  obtain ⟨sim', hs', _, _, _, hmem⟩ := extra_agents_merge (reg := reg) h hres
  rw [hs] at hs'
  injection hs' with e
  subst e
  rcases (hmem x).mp hx with hxl | ⟨_, hn⟩
  · exact eq_of_id_eq (layoutAgents_ids_nodup reg cols cells) hxl hl hid
  · exact absurd hid.symm (hn l hl)

/-! ## Reset -/

/-- **`layout_reset_positions`**: whenever `reset` of the built simulation succeeds, every layout
agent stands on the cell the layout put it on — whatever the extra agents are. -/
theorem layout_reset_positions (h : WF rows cols cells extras) (hres : reservedInRegistry reg = false)
    {sim : Sim} (hs : fromArray rows cols cells reg extras = .ok sim)
    {placed : List (AId × Pos)} (hp : resetPositions sim = .ok placed) :
    ∀ j ch enc, cells[j]? = some ch → reg.lookup ch = some enc →
      (AId.gen ch ((cells.take j).count ch), (j / cols, j % cols)) ∈ placed := by
  intro j ch enc hj hl
  obtain ⟨sim', hs', _, _, _, hmem⟩ := extra_agents_merge (reg := reg) h hres
  rw [hs] at hs'
  injection hs' with e
  subst e
  have hin : ({ id := .gen ch ((cells.take j).count ch), enc := enc, ipos := some (j / cols, j % cols) } : Agent)
      ∈ sim.agents :=
    (hmem _).mpr (Or.inl ((mem_layoutAgents reg cols cells _).mpr ⟨j, ch, enc, hj, hl, rfl⟩))
  unfold resetPositions at hp
  split at hp
  · cases hp
  · split at hp
    · cases hp
    · rename_i placed' hpl
      split at hp
      · cases hp
      · injection hp with e
        subst e
        exact (placeInitial_ok_mem _ _ _ _ _ hpl).2 _ hin _ rfl

/-- **`layout_reset_succeeds`**: a layout on its own (at least one agent, every extra agent
replaced by a layout agent or absent) can always be reset: its agents claim distinct cells
inside the grid. -/
theorem layout_reset_succeeds (h : WF rows cols cells extras) (hres : reservedInRegistry reg = false)
    {sim : Sim} (hs : fromArray rows cols cells reg extras = .ok sim)
    (hne : layoutAgents reg cols cells ≠ [])
    (hk : keptExtras (layoutAgents reg cols cells) extras = []) :
    ∃ placed, resetPositions sim = .ok placed := by
  obtain ⟨sim', hs', hr, hc, hnd, hmem⟩ := extra_agents_merge (reg := reg) h hres
  rw [hs] at hs'
  injection hs' with e
  subst e
  have hall : ∀ x ∈ sim.agents, x ∈ layoutAgents reg cols cells := by
    intro x hx
    rcases (hmem x).mp hx with hx | ⟨hx, hn⟩
    · exact hx
    · have : x ∈ keptExtras (layoutAgents reg cols cells) extras :=
        mem_keptExtras.mpr ⟨hx, by
          simp only [List.mem_map, not_exists, not_and]
          exact fun l hl => hn l hl⟩
      rw [hk] at this
      cases this
  have hnonempty : sim.agents.isEmpty = false := by
    cases hL : layoutAgents reg cols cells with
    | nil => exact absurd hL hne
    | cons l _ =>
      have : l ∈ sim.agents := (hmem l).mpr (Or.inl (by rw [hL]; simp))
      cases hsa : sim.agents with
      | nil => rw [hsa] at this; cases this
      | cons _ _ => rfl
  have hpos : ∀ a ∈ sim.agents, ∃ p, a.ipos = some p ∧ p.1 < sim.rows ∧ p.2 < sim.cols := by
    intro a ha
    obtain ⟨j, hj, hp⟩ := layoutAgents_pos reg cols cells a (hall a ha)
    refine ⟨_, hp, ?_, ?_⟩
    · rw [hr]
      show j / cols < rows
      rw [Nat.div_lt_iff_lt_mul h.cols_pos, ← h.shape]
      exact hj
    · rw [hc]
      exact Nat.mod_lt _ h.cols_pos
  have hpw : sim.agents.Pairwise (fun a b => a.ipos ≠ b.ipos) := by
    have hnd' : sim.agents.Pairwise (fun a b => a.id ≠ b.id) := by
      rw [List.Nodup, List.pairwise_map] at hnd
      exact hnd
    refine List.Pairwise.imp_of_mem ?_ hnd'
    intro a b ha hb hab e
    exact hab (congrArg Agent.id (layoutAgents_ipos_inj reg cols cells a b (hall a ha) (hall b hb) e))
  obtain ⟨placed, hpl⟩ := placeInitial_succeeds sim.rows sim.cols sim.agents [] hpos hpw
    (by intro _ _ q hq; cases hq)
  have hvar : (sim.agents.filter (fun a => a.ipos.isNone)).length = 0 := by
    rw [List.length_eq_zero_iff, List.filter_eq_nil_iff]
    intro a ha
    obtain ⟨p, hp, _⟩ := hpos a ha
    simp [hp]
  refine ⟨placed, ?_⟩
  unfold resetPositions
  rw [hnonempty, hpl]
  simp [hvar]

/-! ## What the code rejects as reserved -/

/-- a registry with the key `'.'` or `'_'` is rejected by the array and the file builder before
anything is read -/
theorem reserved_rejected (hres : reservedInRegistry reg = true) (text : List Nat) :
    fromArray rows cols cells reg extras = .error .reservedKey ∧
      fromFile text reg extras = .error .reservedKey := by
  simp [fromArray, fromFile, hres]

/-! ## The specification on the model's outcomes -/

theorem specBuild_same {o1 o2 : Except Err Sim}
    (h1 : specBuild rows cols cells reg extras o1 = true)
    (h2 : specBuild rows cols cells reg extras o2 = true) : specSame o1 o2 = true := by
  cases o1 with
  | error _ => simp [specBuild] at h1
  | ok a =>
    cases o2 with
    | error _ => simp [specBuild] at h2
    | ok b =>
      simp only [specBuild, Bool.and_eq_true, beq_iff_eq, sameAgents_iff] at h1 h2
      simp only [specSame, Bool.and_eq_true, beq_iff_eq, sameAgents_iff]
      exact ⟨⟨⟨⟨by rw [h1.1.1.1, h2.1.1.1], by rw [h1.1.1.2, h2.1.1.2]⟩, h1.1.2⟩, h2.1.2⟩,
        fun x => ((h1.2 x).symm.trans (h2.2 x))⟩

theorem regReserved_false (hres : reservedInRegistry reg = false) :
    regReserved reg = false := by
  simp only [reservedInRegistry, List.any_eq_false, Bool.or_eq_true, beq_iff_eq, not_or] at hres
  simp only [regReserved, reservedChar, List.any_eq_false, Bool.or_eq_true, beq_iff_eq, not_or]
  exact fun p hp => hres p hp

theorem regReserved_true (hres : reservedInRegistry reg = true) : regReserved reg = true := by
  simp only [reservedInRegistry, List.any_eq_true, Bool.or_eq_true, beq_iff_eq] at hres
  simp only [regReserved, reservedChar, List.any_eq_true, Bool.or_eq_true, beq_iff_eq]
  exact hres

/-- **C18** for every shape, arrangement, registry and extra-agent dictionary: the outcomes of the
four builders (array; file holding the rendering; grid holding the layout's agents; direct build
from the prescribed agents) and the reset of the built simulation satisfy `specC18`. -/
theorem C18_all_builders_agree (h : WF rows cols cells extras) (hok : ∀ c ∈ cells, CellOk c) :
    specC18 rows cols cells reg extras (render rows cols cells)
      (runAll rows cols cells reg extras (render rows cols cells)
        (gridOfAgents rows cols (layoutAgents reg cols cells))
        (expectedAgents reg cols cells extras)) = true := by
  have hg := fromGrid_spec (reg := reg) h
  have hd := direct_spec (reg := reg) h
  have hf := (fromFile_eq_fromArray (reg := reg) h hok).1
  cases hres : reservedInRegistry reg with
  | true =>
    have hR := regReserved_true hres
    obtain ⟨ha, _⟩ := reserved_rejected (rows := rows) (cols := cols) (cells := cells)
      (extras := extras) hres []
    simp only [specC18, specClauses, runAll, hf, ha, hR, hg, hd, isReservedErr]
    simp
  | false =>
    have hR := regReserved_false hres
    have ha := fromArray_spec h hres
    have hsg := specBuild_same ha hg
    have hsd := specBuild_same ha hd
    have hsa := specBuild_same ha ha
    have hreset : specReset reg cols cells extras (resetPositions
        { rows := rows, cols := cols, agents := (layoutAgents reg cols cells).foldl dictSet extras }) = true := by
      cases hrp : resetPositions
          { rows := rows, cols := cols, agents := (layoutAgents reg cols cells).foldl dictSet extras } with
      | ok placed =>
        simp only [specReset, List.all_eq_true]
        intro l hl
        obtain ⟨j, ch, enc, hj, hlk, rfl⟩ := (mem_layoutAgents reg cols cells l).mp hl
        simp only [decide_eq_true_eq]
        exact layout_reset_positions h hres (fromArray_ok h hres) hrp j ch enc hj hlk
      | error e =>
        simp only [specReset, Bool.or_eq_true, Bool.not_eq_true', List.isEmpty_iff]
        by_cases hne : layoutAgents reg cols cells = []
        · exact Or.inl hne
        · right
          cases hk : keptExtras (layoutAgents reg cols cells) extras with
          | nil =>
            obtain ⟨placed, hpl⟩ := layout_reset_succeeds h hres (fromArray_ok h hres) hne hk
            rw [hrp] at hpl
            cases hpl
          | cons _ _ => rfl
    simp only [specC18, specClauses, runAll, hf, hR, hg, hd, ha, hsg, hsd, hsa]
    rw [fromArray_ok h hres]
    simpa using hreset

/-! ## What the predicates say (readings) -/

/-- `specBuild` on a successful outcome: the grid has the layout's shape; ids are unique; entry
`j` of the layout, if its character `ch` is registered with encoding `enc`, yields the agent
`ch`-number-(occurrences of `ch` before `j`) with that encoding and the initial position
`(j / cols, j % cols)`; an extra agent is present iff no layout agent has its id; and there is
nothing else (so reserved and unregistered entries yield nothing). -/
theorem specBuild_reading {sim : Sim}
    (h : specBuild rows cols cells reg extras (.ok sim) = true) :
    sim.rows = rows ∧ sim.cols = cols ∧ (sim.agents.map (·.id)).Nodup ∧
    (∀ j ch enc, cells[j]? = some ch → reg.lookup ch = some enc →
      ({ id := .gen ch ((cells.take j).count ch), enc := enc, ipos := some (j / cols, j % cols) } : Agent)
        ∈ sim.agents) ∧
    (∀ e ∈ extras, (∀ l ∈ layoutAgents reg cols cells, l.id ≠ e.id) → e ∈ sim.agents) ∧
    (∀ x ∈ sim.agents,
      (∃ j ch enc, cells[j]? = some ch ∧ reg.lookup ch = some enc ∧
        x = { id := .gen ch ((cells.take j).count ch), enc := enc, ipos := some (j / cols, j % cols) }) ∨
      (x ∈ extras ∧ ∀ l ∈ layoutAgents reg cols cells, l.id ≠ x.id)) := by
  simp only [specBuild, idsNodup, Bool.and_eq_true, beq_iff_eq, decide_eq_true_eq, sameAgents_iff] at h
  obtain ⟨⟨⟨hr, hc⟩, hnd⟩, hmem⟩ := h
  refine ⟨hr, hc, hnd, ?_, ?_, ?_⟩
  · intro j ch enc hj hl
    apply (hmem _).mp
    rw [expectedAgents, List.mem_append]
    exact Or.inl ((mem_layoutAgents reg cols cells _).mpr ⟨j, ch, enc, hj, hl, rfl⟩)
  · intro e he hn
    apply (hmem _).mp
    rw [expectedAgents, List.mem_append, mem_keptExtras]
    refine Or.inr ⟨he, ?_⟩
    simp only [List.mem_map, not_exists, not_and]
    exact fun l hl => hn l hl
  · intro x hx
    have := (hmem x).mpr hx
    rw [expectedAgents, List.mem_append, mem_keptExtras] at this
    rcases this with hx | ⟨hx, hn⟩
    · exact Or.inl ((mem_layoutAgents reg cols cells x).mp hx)
    · refine Or.inr ⟨hx, ?_⟩
      simp only [List.mem_map, not_exists, not_and] at hn
      exact fun l hl => hn l hl

/-- the same in row/column coordinates: the entry in row `r`, column `c` (flat index
`r * cols + c` of the row-major listing) yields an agent with initial position `(r, c)` — not
`(c, r)`, not any other cell. -/
theorem specBuild_reading_rc {sim : Sim}
    (h : specBuild rows cols cells reg extras (.ok sim) = true)
    {r c ch enc : Nat} (hc : c < cols) (hj : cells[r * cols + c]? = some ch)
    (hl : reg.lookup ch = some enc) :
    ({ id := .gen ch ((cells.take (r * cols + c)).count ch), enc := enc, ipos := some (r, c) } : Agent)
      ∈ sim.agents := by
  have := (specBuild_reading h).2.2.2.1 (r * cols + c) ch enc hj hl
  obtain ⟨hd, hm⟩ := divmod_flat (cols := cols) (r := r) (c := c) hc
  rwa [hd, hm] at this

/-- numbering is per character and in reading order: two entries holding the same registered
character get different numbers, the earlier one the smaller -/
theorem numbering_monotone {j k ch : Nat} (hjk : j < k) (hj : cells[j]? = some ch) :
    (cells.take j).count ch < (cells.take k).count ch := by
  have hlt : j < cells.length := by
    rcases Nat.lt_or_ge j cells.length with h | h
    · exact h
    · rw [List.getElem?_eq_none h] at hj; cases hj
  have e : cells.take k = cells.take j ++ (cells.drop j).take (k - j) := by
    have : k = j + (k - j) := by omega
    rw [this, List.take_add]
    simp
  rw [e, List.count_append]
  have hd : cells.drop j = ch :: cells.drop (j + 1) := by
    rw [List.drop_eq_getElem_cons hlt]
    rw [List.getElem?_eq_getElem hlt] at hj
    injection hj with hj
    rw [hj]
  obtain ⟨m, hm⟩ : ∃ m, k - j = m + 1 := ⟨k - j - 1, by omega⟩
  rw [hd, hm, List.take_succ_cons, List.count_cons_self]
  omega

/-- the first occurrence of a character gets number 0 -/
theorem numbering_starts_at_zero {j ch : Nat} (hfirst : ∀ i < j, cells[i]? ≠ some ch) :
    (cells.take j).count ch = 0 := by
  rw [List.count_eq_zero]
  intro hmem
  obtain ⟨i, hi, he⟩ := List.getElem_of_mem hmem
  rw [List.length_take] at hi
  have hi' : i < j := by omega
  apply hfirst i hi'
  rw [List.getElem_take] at he
  rw [List.getElem?_eq_getElem (by omega), he]

/-- `specSame`: same grid size, and an agent (id, encoding, initial position) is in one
simulation iff it is in the other; ids are unique on both sides -/
theorem specSame_reading {a b : Sim} (h : specSame (.ok a) (.ok b) = true) :
    a.rows = b.rows ∧ a.cols = b.cols ∧ (a.agents.map (·.id)).Nodup ∧ (b.agents.map (·.id)).Nodup ∧
      ∀ x, x ∈ a.agents ↔ x ∈ b.agents := by
  simp only [specSame, idsNodup, Bool.and_eq_true, beq_iff_eq, decide_eq_true_eq, sameAgents_iff] at h
  exact ⟨h.1.1.1.1, h.1.1.1.2, h.1.1.2, h.1.2, h.2⟩

/-- `specReset` on a successful reset: the agent made for entry `j` stands on `(j / cols, j % cols)` -/
theorem specReset_reading {placed : List (AId × Pos)}
    (h : specReset reg cols cells extras (.ok placed) = true) :
    ∀ j ch enc, cells[j]? = some ch → reg.lookup ch = some enc →
      (AId.gen ch ((cells.take j).count ch), (j / cols, j % cols)) ∈ placed := by
  intro j ch enc hj hl
  simp only [specReset, List.all_eq_true] at h
  have := h _ ((mem_layoutAgents reg cols cells _).mpr ⟨j, ch, enc, hj, hl, rfl⟩)
  simpa using this

/-- `specC18` in the domain of the property (no empty marker registered, the file holds the
rendering): every builder's outcome is the prescribed simulation, the four agree, and reset
leaves every layout agent on its cell -/
theorem specC18_reading {text : List Nat} {o : Outcomes}
    (h : specC18 rows cols cells reg extras text o = true)
    (hR : regReserved reg = false) (hT : isRendering rows cols cells text = true) :
    specBuild rows cols cells reg extras o.array = true ∧
    specBuild rows cols cells reg extras o.file = true ∧
    specBuild rows cols cells reg extras o.grid = true ∧
    specBuild rows cols cells reg extras o.direct = true ∧
    specSame o.array o.file = true ∧ specSame o.array o.grid = true ∧
    specSame o.array o.direct = true ∧
    (∀ sim, o.array = .ok sim → specReset reg cols cells extras o.reset = true) := by
  simp only [specC18, specClauses, hR, hT, List.all_cons, List.all_nil, id, Bool.and_eq_true,
    Bool.not_false, Bool.not_true, Bool.false_and, Bool.false_or, Bool.true_or, Bool.and_true] at h
  obtain ⟨_, ha, hf, hg, hd, ⟨⟨hsg, hsd⟩, hsf⟩, hr⟩ := h
  refine ⟨ha, hf, hg, hd, hsf, hsg, hsd, fun sim hs => ?_⟩
  rw [hs] at hr
  exact hr

/-- with an empty marker registered the only acceptable outcome of the array and file builders
is the rejection -/
theorem specC18_reserved {text : List Nat} {o : Outcomes}
    (h : specC18 rows cols cells reg extras text o = true) (hR : regReserved reg = true) :
    o.array = .error .reservedKey ∧ o.file = .error .reservedKey := by
  simp only [specC18, specClauses, hR, List.all_cons, id, Bool.and_eq_true, Bool.not_true,
    Bool.false_or] at h
  obtain ⟨⟨ha, hf⟩, _⟩ := h
  constructor
  · cases hoa : o.array with
    | ok _ => simp [hoa, isReservedErr] at ha
    | error e => cases e <;> simp_all [isReservedErr]
  · cases hof : o.file with
    | ok _ => simp [hof, isReservedErr] at hf
    | error e => cases e <;> simp_all [isReservedErr]

/-! ## Non-vacuity: an asymmetric 2×3 layout with a repeated character (`A`, three times, in
both directions), an unregistered one (`X`) and a reserved one (`_`); extra agents: one without
a position, one whose id clashes with the layout's second `A` (other encoding, other position),
one with a free initial position.
```
A _ B
X A A
``` -/

def exCells : List Nat := [65, 95, 66, 88, 65, 65]
def exReg : Registry := [(65, 1), (66, 2)]
def exExtras : List Agent :=
  [ { id := .other 0, enc := 5, ipos := none },
    { id := .gen 65 1, enc := 7, ipos := some (0, 1) },
    { id := .other 1, enc := 6, ipos := some (1, 0) } ]

example : WF 2 3 exCells exExtras := ⟨by decide, by decide, by decide, by decide⟩
example : ∀ c ∈ exCells, CellOk c := by decide
example : ∀ p ∈ exReg, p.1 ≠ 48 := by decide

/-- what the array builder returns on it: extras first, the clashing one replaced in place by the
layout's agent (encoding 1 at (1, 1), not encoding 7 at (0, 1)) -/
example : fromArray 2 3 exCells exReg exExtras = .ok { rows := 2, cols := 3, agents :=
    [ { id := .other 0, enc := 5, ipos := none },
      { id := .gen 65 1, enc := 1, ipos := some (1, 1) },
      { id := .other 1, enc := 6, ipos := some (1, 0) },
      { id := .gen 65 0, enc := 1, ipos := some (0, 0) },
      { id := .gen 66 0, enc := 2, ipos := some (0, 2) },
      { id := .gen 65 2, enc := 1, ipos := some (1, 2) } ] } := by decide

example : render 2 3 exCells = [65, 32, 95, 32, 66, 10, 88, 32, 65, 32, 65] := by decide

example :
    let o := runAll 2 3 exCells exReg exExtras (render 2 3 exCells)
      (gridOfAgents 2 3 (layoutAgents exReg 3 exCells)) (expectedAgents exReg 3 exCells exExtras)
    o.file = o.array ∧ o.grid = o.array ∧
    o.reset = .ok [(.gen 65 1, (1, 1)), (.other 1, (1, 0)), (.gen 65 0, (0, 0)), (.gen 66 0, (0, 2)),
      (.gen 65 2, (1, 2))] ∧
    specC18 2 3 exCells exReg exExtras (render 2 3 exCells) o = true := by decide

/-- the specification is not trivially true: a transposed position, a wrong number, an extra
agent winning the clash, a missing agent each falsify it -/
example : specBuild 2 3 exCells exReg [] (.ok { rows := 2, cols := 3, agents :=
    [ { id := .gen 65 0, enc := 1, ipos := some (0, 0) }, { id := .gen 66 0, enc := 2, ipos := some (2, 0) },
      { id := .gen 65 1, enc := 1, ipos := some (1, 1) }, { id := .gen 65 2, enc := 1, ipos := some (1, 2) } ] })
    = false := by decide
example : specBuild 2 3 exCells exReg [] (.ok { rows := 2, cols := 3, agents :=
    [ { id := .gen 65 0, enc := 1, ipos := some (0, 0) }, { id := .gen 66 1, enc := 2, ipos := some (0, 2) },
      { id := .gen 65 2, enc := 1, ipos := some (1, 1) }, { id := .gen 65 3, enc := 1, ipos := some (1, 2) } ] })
    = false := by decide
example : specBuild 2 3 exCells exReg exExtras (.ok { rows := 2, cols := 3, agents :=
    [ { id := .other 0, enc := 5, ipos := none }, { id := .gen 65 1, enc := 7, ipos := some (0, 1) },
      { id := .other 1, enc := 6, ipos := some (1, 0) }, { id := .gen 65 0, enc := 1, ipos := some (0, 0) },
      { id := .gen 66 0, enc := 2, ipos := some (0, 2) }, { id := .gen 65 2, enc := 1, ipos := some (1, 2) } ] })
    = false := by decide
example : specBuild 2 3 exCells exReg [] (.ok { rows := 2, cols := 3, agents :=
    [ { id := .gen 65 0, enc := 1, ipos := some (0, 0) }, { id := .gen 66 0, enc := 2, ipos := some (0, 2) },
      { id := .gen 65 1, enc := 1, ipos := some (1, 1) } ] }) = false := by decide

/-- **finding B1 (fixed by e0e97b5)**: with the character `'0'` (48) registered the builders now
reject the registry, as they do for `'.'` and `'_'`; every clause of the specification holds -/
theorem zero_marker_registered_is_rejected :
    let cells := [65, 48, 48]
    let reg : Registry := [(65, 1), (48, 2)]
    let o := runAll 1 3 cells reg [] (render 1 3 cells)
      (gridOfAgents 1 3 (layoutAgents reg 3 cells)) (expectedAgents reg 3 cells [])
    specC18 1 3 cells reg [] (render 1 3 cells) o = true ∧ o.array = .error .reservedKey := by decide

end Builders
end Abmarl
