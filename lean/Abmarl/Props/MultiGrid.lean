import Abmarl.Props.Examples
import Abmarl.Spec.MultiGrid
/-!
# `MultiAgentGridSim` as an instance of the general theorems (C01, C02, C03, C07, C08)

Model: `Model/MultiGrid.lean` (glue over the existing model of `PositionState`), tied to the real class by
the driver ops `gexample` / `mgrx` with configuration `(multigrid learning comp)`.  Every theorem is for
every grid, overlap table, agent mix, options of the placement state, tape and history.

* **C01 / C07** `MAG.mag_lawful`, `MAG.mag_WF`, `C01_MultiAgentGridSim`, `C07_MultiAgentGridSim`,
  `C07_MultiAgentGridSim_every_call_returns` (nobody is ever done: the managers report every learning
  agent for ever);
* **C03** `multigrid_reachable_WInv`, `multigrid_simIface_reachable`: every world reached by any history
  of resets, steps and getter calls satisfies `WInv` once a reset has returned, has the constructed static
  part, and everybody is alive;
* **C02** `multigrid_observation_in_space` (the observation is the empty dict, the only point of the
  empty `Dict` the agents declare), `multigrid_step_noRaise` (`step` returns for every action dict);
* **C08** `multigrid_reset_forgets`, `multigrid_fresh_twin`, `multigrid_used_sameBut_fresh`,
  `multigrid_fresh_twin_reachable`;
* **the judge** `multigrid_hist`.
-/
namespace Abmarl
open World

namespace MAG

/-- `ResetOK` of the example lemmas is used with a configuration whose class has no `HealthState` clause -/
def rcfg : Ex.Cfg := { which := .multiMaze, learning := [], comps := [], observers := none, dones := none }

/-- the placement state is covered: `PositionState` / a placement state with well-formed options -/
structure CompOK (w0 : World) (c : StateComp) : Prop where
  pos : ∃ kind o, c = .position kind o
  wf : ∀ kind o, c = .position kind o → wfPlacement kind o w0 = true

theorem compOK_of_b {w0 : World} {c : StateComp} (h : compOKb w0 c = true) : CompOK w0 c := by
  simp only [compOKb, Bool.and_eq_true] at h
  cases c with
  | position kind o => exact ⟨⟨kind, o, rfl⟩, fun k o' he => by cases he; exact h.2⟩
  | _ => cases h.1

theorem CompOK.resetOK {w0 : World} {c : StateComp} (h : CompOK w0 c) : Ex.ResetOK rcfg w0 [c] := by
  obtain ⟨kind, o, rfl⟩ := h.pos
  refine ⟨⟨kind, o, List.mem_singleton.mpr rfl⟩, ?_, ?_, ?_⟩
  · intro hm; cases List.mem_singleton.mp hm
  · intro k o' hm; exact h.wf k o' (List.mem_singleton.mp hm).symm
  · rintro (hc | hc) <;> cases hc

/-- the state of a live object: nothing happened yet, or the invariant holds and everybody is alive -/
def Good (w0 : World) (s : St) : Prop :=
  if s.started then Ex.XInvA w0 s.w else s.w = w0

theorem reset_good {w0 : World} (hcfg : CfgOK w0) (hfresh : w0.vitalsAlive = true) {c : StateComp}
    (hc : CompOK w0 c) {s s' : St} (hG : Good w0 s) (h : reset c s = .ok s') :
    s'.started = true ∧ Ex.XInvA w0 s'.w := by
  unfold reset at h
  cases ha : applyComps [c] s.w s.tape with
  | error e => rw [ha] at h; cases h
  | ok r =>
    obtain ⟨w', t'⟩ := r
    rw [ha] at h
    simp only [Except.ok.injEq] at h
    subst h
    refine ⟨rfl, ?_⟩
    unfold Good at hG
    by_cases hs : s.started = true
    · simp only [hs, if_true] at hG
      have hX := hG.toXInv
      exact Ex.reset_establishes hcfg hc.resetOK hX.frame (Or.inr hG.alive) (Ex.ammoC_of_WInv hX.inv)
        (Ex.orientC_of_WInv hX.inv) (noAmmoC_of_WInv hX.inv) ha
    · simp only [hs, if_false] at hG
      obtain ⟨hH, hA, hO, hN⟩ := vitalsAlive_clauses hfresh
      rw [hG] at ha
      exact Ex.reset_establishes hcfg hc.resetOK (SFrame.refl w0) (Or.inr hH) hA hO hN ha

def OpOK (w0 : World) : MOp → Prop
  | .reset c _ => CompOK w0 c
  | _ => True

theorem runOp_good {w0 : World} (hcfg : CfgOK w0) (hfresh : w0.vitalsAlive = true) (s : St) (op : MOp)
    (hop : OpOK w0 op) (hG : Good w0 s) : Good w0 (runOp s op).2 := by
  cases op with
  | reset c tape =>
    simp only [runOp]
    cases h : reset c { s with tape := tape } with
    | error e => exact hG
    | ok s' =>
      obtain ⟨hs, hX⟩ := reset_good hcfg hfresh hop (s := { s with tape := tape }) hG h
      simp only [Good, hs, if_true]
      exact hX
  | step _ => exact hG
  | obs _ => exact hG
  | rew _ => exact hG
  | done _ => exact hG
  | allDone => exact hG

theorem runOps_good {w0 : World} (hcfg : CfgOK w0) (hfresh : w0.vitalsAlive = true) (ops : List MOp) :
    ∀ (s : St), (∀ op ∈ ops, OpOK w0 op) → Good w0 s → Good w0 (runOps s ops).2 := by
  induction ops with
  | nil => intro s _ h; exact h
  | cons op ops ih =>
    intro s hops hG
    have h1 := runOp_good hcfg hfresh s op (hops op List.mem_cons_self) hG
    simp only [runOps]
    split
    · exact h1
    · exact ih _ (fun o ho => hops o (List.mem_cons_of_mem _ ho)) h1

/-- **`Lawful`**: the getters change nothing, every reward is 0 -/
theorem mag_lawful (cfg : Cfg) (n : Nat) : Lawful (toSimIface cfg n) where
  obs_done := by intros; rfl
  obs_allDone := by intros; rfl
  obs_next := by intros; rfl
  obs_pending := by intros; rfl
  rew_done := by intros; rfl
  rew_allDone := by intros; rfl
  rew_next := by intros; rfl
  rew_val := by intros; rfl
  rew_pending := by intro s a b; simp [toSimIface]

theorem mag_WF (cfg : Cfg) (n : Nat) (k : MKind) (hk : k ≠ .dynamic)
    (hl : k = .turnBased → ∃ a < n, cfg.isLearning a = true) : WF (toSimIface cfg n) k where
  lawful := mag_lawful cfg n
  turn := by
    intro hk'
    obtain ⟨a, ha, hla⟩ := hl hk'
    intro he
    have : a ∈ (toSimIface cfg n).learners := (mem_learners _ a).mpr ⟨ha, hla⟩
    rw [he] at this; cases this
  dyn := fun h => absurd h hk

theorem aliveb_of_healthC {w : World} (h : HealthC w) : aliveb w = true := by
  simp only [aliveb, List.all_eq_true, allAgents, List.mem_range]
  intro a ha
  exact (h a ha).2.2

end MAG

/-! ## C01, C07 -/

theorem C01_MultiAgentGridSim (cfg : MAG.Cfg) (n : Nat) (k : MKind) (hk : k ≠ .dynamic)
    (hl : k = .turnBased → ∃ a < n, cfg.isLearning a = true) (m0 : MState MAG.St) (ops : List (Op Int)) :
    specC01 k n cfg.isLearning m0.shuffle (runOps (MAG.toSimIface cfg n) k m0 ops) = true :=
  C01_managers_honour_done_protocol (MAG.toSimIface cfg n) k (MAG.mag_WF cfg n k hk hl) m0 ops

theorem C07_MultiAgentGridSim (cfg : MAG.Cfg) (n : Nat) (k : MKind) (hk : k ≠ .dynamic)
    (hl : k = .turnBased → ∃ a < n, cfg.isLearning a = true) (m0 : MState MAG.St) (ops : List (Op Int)) :
    specC07 k n cfg.isLearning (runOps (MAG.toSimIface cfg n) k m0 ops) = true :=
  C07_fair_turns_and_progress (MAG.toSimIface cfg n) k (MAG.mag_WF cfg n k hk hl) m0 ops

theorem C07_MultiAgentGridSim_every_call_returns (cfg : MAG.Cfg) (n : Nat) (k : MKind) (hk : k ≠ .dynamic)
    (hl : k = .turnBased → ∃ a < n, cfg.isLearning a = true) (m0 : MState MAG.St) (ops : List (Op Int))
    (i : Nat) (e : Entry Int MAG.ObsOut Unit) (hi : (runOps (MAG.toSimIface cfg n) k m0 ops)[i]? = some e)
    (hp : ProtocolOK {} (runOps (MAG.toSimIface cfg n) k m0 ops) i) :
    ∀ er, e.res = .err er → er = .rejected :=
  C07_every_call_returns (MAG.toSimIface cfg n) k (MAG.mag_WF cfg n k hk hl) m0 ops i e hi hp

/-! ## C03 -/

/-- **every reachable world satisfies `WInv`**: from the constructed world `w0` (everybody alive with legal
vitals, configuration facts `CfgOK`), after ANY history of resets (any covered placement state, any tape),
steps (any action dicts) and getter calls: once a reset has returned, the world satisfies the C03
invariant, has the static part it was built with, and everybody is alive. -/
theorem multigrid_reachable_WInv (w0 : World) (hcfg : CfgOK w0) (hfresh : w0.vitalsAlive = true) (t0 : Tape)
    (ops : List MAG.MOp) (hops : ∀ op ∈ ops, MAG.OpOK w0 op) :
    let s := (MAG.runOps { w := w0, tape := t0 } ops).2
    s.started = true → s.w.WInv = true ∧ SFrame w0 s.w ∧ HealthC s.w := by
  intro s hs
  have hG : MAG.Good w0 s := MAG.runOps_good hcfg hfresh ops _ hops (by simp [MAG.Good])
  simp only [MAG.Good, hs, if_true] at hG
  exact ⟨hG.inv, hG.frame, hG.alive⟩

/-- the states a manager can drive the `SimIface` instance into -/
inductive MAG.Reach (cfg : MAG.Cfg) (w0 : World) (n : Nat) : MAG.St → Prop where
  | init (t : Tape) : MAG.Reach cfg w0 n { w := w0, tape := t }
  | reset {s} : MAG.Reach cfg w0 n s → MAG.Reach cfg w0 n ((MAG.toSimIface cfg n).reset s)
  | step {s} (acts) : MAG.Reach cfg w0 n s → MAG.Reach cfg w0 n ((MAG.toSimIface cfg n).step s acts)
  | obs {s} (a) : MAG.Reach cfg w0 n s → MAG.Reach cfg w0 n ((MAG.toSimIface cfg n).obs s a).2
  | reward {s} (a) : MAG.Reach cfg w0 n s → MAG.Reach cfg w0 n ((MAG.toSimIface cfg n).reward s a).2

theorem multigrid_simIface_reachable (cfg : MAG.Cfg) (w0 : World) (n : Nat) (hcfg : CfgOK w0)
    (hfresh : w0.vitalsAlive = true) (hc : MAG.CompOK w0 cfg.comp) {s : MAG.St} (h : MAG.Reach cfg w0 n s) :
    MAG.Good w0 s := by
  induction h with
  | init t => simp [MAG.Good]
  | @reset s _ ih =>
    have := MAG.runOp_good hcfg hfresh s (.reset cfg.comp s.tape) hc ih
    simp only [MAG.runOp] at this
    simp only [MAG.toSimIface]
    cases hr : MAG.reset cfg.comp s with
    | error e => exact ih
    | ok s' =>
      have hr' : MAG.reset cfg.comp { s with tape := s.tape } = .ok s' := hr
      simpa [hr'] using this
  | step _ _ ih => exact ih
  | obs _ _ ih => exact ih
  | reward _ _ ih => exact ih

/-! ## C02 -/

/-- the declared observation space of every agent of a `MultiAgentGridSim` is the empty `Dict` (no
observer component adds a channel); its only point is the empty dict — which is what `get_obs` returns in
every state, for every argument -/
theorem multigrid_observation_in_space (s : MAG.St) (a : Aid) :
    (MAG.runOp s (.obs a)).1.res = .obs 0 true ∧ (MAG.runOp s (.obs a)).2 = s := ⟨rfl, rfl⟩

/-- `step` returns for every action dict, in every state, and changes nothing -/
theorem multigrid_step_noRaise (s : MAG.St) (keys : List Aid) :
    (MAG.runOp s (.step keys)).1.res = .unit ∧ (MAG.runOp s (.step keys)).2 = s := ⟨rfl, rfl⟩

/-! ## C08 -/

/-- **`reset` forgets**: two objects of the same configuration whose worlds agree on what `PositionState`
does not own (`Ex.SameBut`: health, ammunition, orientation), reset under the same seed, end in the same
state or raise the same error — whatever cells and positions either had before -/
theorem multigrid_reset_forgets (c : StateComp) (s1 s2 : MAG.St) (hw : Ex.SameBut [c] s1.w s2.w)
    (ht : s1.tape = s2.tape) (hp : c.resetsPos = true) : MAG.reset c s1 = MAG.reset c s2 := by
  unfold MAG.reset
  rw [Ex.comps_reset_forgets [c] s1.w s2.w s1.tape hw (by simp [hp]), ht]

theorem multigrid_fresh_twin (cfg : MAG.Cfg) (n : Nat) (k : MKind)
    (hl : k = .turnBased → (MAG.toSimIface cfg n).learners ≠ []) (m1 m2 : MState MAG.St)
    (hw : Ex.SameBut [cfg.comp] m1.sim.w m2.sim.w) (hp : cfg.comp.resetsPos = true)
    (hseed : m1.sim.tape = m2.sim.tape) (hok : ∃ s', MAG.reset cfg.comp m2.sim = .ok s')
    (hsh : m1.shuffle = m2.shuffle) (ht : m1.tape = m2.tape) (follow : List (Op Int)) :
    runOps (MAG.toSimIface cfg n) k m1 (.reset :: follow) = runOps (MAG.toSimIface cfg n) k m2 (.reset :: follow) := by
  apply runOps_reset_eq_of (MAG.toSimIface cfg n) k hl m1 m2 ?_ hsh ht
  obtain ⟨s', hs'⟩ := hok
  have := multigrid_reset_forgets cfg.comp m1.sim m2.sim hw hseed hp
  simp only [MAG.toSimIface, this, hs']

/-- in every state the managers can reach, health, ammunition and orientation are what they were in the
constructed world (no component of the class owns them) -/
theorem multigrid_reach_keeps (cfg : MAG.Cfg) (w0 : World) (n : Nat) (hcfg : CfgOK w0)
    (hfresh : w0.vitalsAlive = true) (hc : MAG.CompOK w0 cfg.comp) (hlen : w0.st.length = w0.cfg.length)
    {s : MAG.St} (h : MAG.Reach cfg w0 n s) : SFrame w0 s.w ∧ Ex.Keeps True w0 s.w := by
  have hframe : ∀ {s : MAG.St}, MAG.Good w0 s → SFrame w0 s.w := by
    intro s hG
    unfold MAG.Good at hG
    by_cases hs : s.started = true
    · simp only [hs, if_true] at hG; exact hG.frame
    · simp only [hs, if_false] at hG; rw [hG]; exact SFrame.refl w0
  induction h with
  | init t => exact ⟨SFrame.refl w0, Ex.Keeps.refl _ _⟩
  | @reset s hs ih =>
    have hG' := multigrid_simIface_reachable cfg w0 n hcfg hfresh hc (MAG.Reach.reset hs)
    refine ⟨hframe hG', ?_⟩
    simp only [MAG.toSimIface]
    cases hr : MAG.reset cfg.comp s with
    | error e => exact ih.2
    | ok s' =>
      simp only
      unfold MAG.reset at hr
      cases ha : applyComps [cfg.comp] s.w s.tape with
      | error e => rw [ha] at hr; cases hr
      | ok r =>
        obtain ⟨w', t'⟩ := r
        rw [ha] at hr
        simp only [Except.ok.injEq] at hr
        subst hr
        have hR := hc.resetOK
        have hk := Ex.applyComps_keeps [cfg.comp] s.w s.tape w' t'
          (fun k o hm => by rw [wfPlacement_of_sframe ih.1]; exact hR.wf k o hm) (cfgOK_of_sframe ih.1 hcfg)
          hR.noClosed (by rw [ih.1.len, ih.1.cfg]; exact hlen) ha
        have hk' : Ex.Keeps True s.w w' := ⟨hk.ammo, hk.orient, fun _ a => by
          obtain ⟨kind, o, hko⟩ := hc.pos
          exact hk.health (by rw [hko]; rfl) a⟩
        exact ih.2.trans hk' (fun a => sframe_cfgOf ih.1 a)
  | step _ _ ih => exact ih
  | obs _ _ ih => exact ih
  | reward _ _ ih => exact ih

/-- a used object and a newly built one are `Ex.SameBut`.  Hypotheses: no agent has ammunition or an
orientation (nothing in the class touches either; `Ex.Keeps`, the lemma used, carries them for such agents
only). -/
theorem multigrid_used_sameBut_fresh (cfg : MAG.Cfg) (w0 : World) (n : Nat) (hcfg : CfgOK w0)
    (hfresh : w0.vitalsAlive = true) (hc : MAG.CompOK w0 cfg.comp) (hlen : w0.st.length = w0.cfg.length)
    (hammo : ∀ a, (w0.cfgOf a).hasAmmo = false) (horient : ∀ a, (w0.cfgOf a).hasOrient = false)
    {s : MAG.St} (h : MAG.Reach cfg w0 n s) : Ex.SameBut [cfg.comp] s.w w0 := by
  obtain ⟨hF, hK⟩ := multigrid_reach_keeps cfg w0 n hcfg hfresh hc hlen h
  refine ⟨⟨hF.rows, hF.cols, hF.overlap, hF.cfg, by rw [hF.len, hF.cfg]; exact hlen, hlen, ?_, ?_⟩, ?_, ?_, ?_⟩
  · intro a ha; exact hK.ammo a (by rw [← sframe_cfgOf hF]; exact ha)
  · intro a ha; exact hK.orient a (by rw [← sframe_cfgOf hF]; exact ha)
  · intro _ a; exact hK.health trivial a
  · intro _ a; exact hK.ammo a (hammo a)
  · intro _ a; exact hK.orient a (horient a)

/-- **C08, used versus fresh, full form**: a manager whose `MultiAgentGridSim` went through ANY history of
manager calls and a manager over the newly built simulation, same kind, same seeds: if the reset returns,
the episode after it has the same trace on both. -/
theorem multigrid_fresh_twin_reachable (cfg : MAG.Cfg) (w0 : World) (n : Nat) (k : MKind) (hcfg : CfgOK w0)
    (hfresh : w0.vitalsAlive = true) (hc : MAG.CompOK w0 cfg.comp) (hlen : w0.st.length = w0.cfg.length)
    (hammo : ∀ a, (w0.cfgOf a).hasAmmo = false) (horient : ∀ a, (w0.cfgOf a).hasOrient = false)
    (hl : k = .turnBased → (MAG.toSimIface cfg n).learners ≠ []) (m1 m2 : MState MAG.St)
    (hused : MAG.Reach cfg w0 n m1.sim) (seed : Tape) (hnew : m2.sim = { w := w0, tape := seed })
    (hseed : m1.sim.tape = seed) (hok : ∃ s', MAG.reset cfg.comp m2.sim = .ok s')
    (hsh : m1.shuffle = m2.shuffle) (ht : m1.tape = m2.tape) (follow : List (Op Int)) :
    runOps (MAG.toSimIface cfg n) k m1 (.reset :: follow) = runOps (MAG.toSimIface cfg n) k m2 (.reset :: follow) := by
  have hsb := multigrid_used_sameBut_fresh cfg w0 n hcfg hfresh hc hlen hammo horient hused
  have hp : cfg.comp.resetsPos = true := by
    obtain ⟨kind, o, hko⟩ := hc.pos
    rw [hko]; rfl
  exact multigrid_fresh_twin cfg n k hl m1 m2 (by rw [hnew]; exact hsb) hp (by rw [hnew]; exact hseed) hok hsh ht follow

/-! ## The judge the driver evaluates -/

theorem MAG.judge1_model {w0 : World} (hcfg : CfgOK w0) (hfresh : w0.vitalsAlive = true) {s : MAG.St}
    (hG : MAG.Good w0 s) (op : MAG.MOp) (hop : MAG.OpOK w0 op) :
    MAG.judge1 w0 s.w op (MAG.runOp s op).1 = true ∧ (MAG.runOp s op).1.w = (MAG.runOp s op).2.w := by
  cases op with
  | reset c tape =>
    simp only [MAG.runOp]
    cases h : MAG.reset c { s with tape := tape } with
    | error e => exact ⟨rfl, rfl⟩
    | ok s' =>
      obtain ⟨_, hX⟩ := MAG.reset_good hcfg hfresh hop (s := { s with tape := tape }) hG h
      refine ⟨?_, rfl⟩
      simp [MAG.judge1, hX.inv, Ex.frameb_of_sframe hX.frame, MAG.aliveb_of_healthC hX.alive]
  | step _ => exact ⟨by simp [MAG.runOp, MAG.judge1], rfl⟩
  | obs _ => exact ⟨by simp [MAG.runOp, MAG.judge1], rfl⟩
  | rew _ => exact ⟨by simp [MAG.runOp, MAG.judge1], rfl⟩
  | done _ => exact ⟨by simp [MAG.runOp, MAG.judge1], rfl⟩
  | allDone => exact ⟨by simp [MAG.runOp, MAG.judge1], rfl⟩

theorem MAG.specFrom_model {w0 : World} (hcfg : CfgOK w0) (hfresh : w0.vitalsAlive = true) (ops : List MAG.MOp) :
    ∀ (s : MAG.St), (∀ op ∈ ops, MAG.OpOK w0 op) → MAG.Good w0 s →
      MAG.specFrom w0 s.w (MAG.zipOps ops (MAG.runOps s ops).1) = true := by
  induction ops with
  | nil => intro s _ _; rfl
  | cons op ops ih =>
    intro s hops hG
    have hop := hops op List.mem_cons_self
    obtain ⟨hj, hw⟩ := MAG.judge1_model hcfg hfresh hG op hop
    have hG' := MAG.runOp_good hcfg hfresh s op hop hG
    simp only [MAG.runOps]
    cases hr : (MAG.runOp s op).1.res
    case err e =>
      simp only [MAG.MRes.isErr, if_true]
      cases ops <;> simp [MAG.zipOps, MAG.specFrom, hj, hr]
    all_goals
      simp only [MAG.MRes.isErr, Bool.false_eq_true, if_false, MAG.zipOps, MAG.specFrom, hj, hr, Bool.true_and]
      rw [hw]
      exact ih _ (fun o ho => hops o (List.mem_cons_of_mem _ ho)) hG'

theorem MAG.magPre_hyps {w0 : World} {ops : List MAG.MOp} (h : MAG.magPre w0 ops = true) :
    CfgOK w0 ∧ w0.vitalsAlive = true ∧ ∀ op ∈ ops, MAG.OpOK w0 op := by
  simp only [MAG.magPre, Bool.and_eq_true, List.all_eq_true] at h
  refine ⟨(cfgOKb_iff w0).mp h.1.1, h.1.2, ?_⟩
  intro op hop
  have := h.2 op hop
  cases op with
  | reset c tape => exact MAG.compOK_of_b this
  | _ => trivial

/-- **the form the judge evaluates**: under `magPre` (the world as the constructors leave it, every reset
with a covered placement state) the model's own trace satisfies `specMAG` -/
theorem multigrid_hist (w0 : World) (t0 : Tape) (ops : List MAG.MOp) (hpre : MAG.magPre w0 ops = true) :
    MAG.specMAG w0 (MAG.zipOps ops (MAG.runOps { w := w0, tape := t0 } ops).1) = true := by
  obtain ⟨hcfg, hfresh, hops⟩ := MAG.magPre_hyps hpre
  exact MAG.specFrom_model hcfg hfresh ops { w := w0, tape := t0 } hops (by simp [MAG.Good])

/-! ## Non-vacuity: two agents on a 1×3 grid, two episodes -/

def exMGWorld : World :=
  { rows := 1, cols := 3, overlap := [(1, [2]), (2, [1])], cells := [[], [], []],
    cfg := [{ enc := 1, initPos := some (0, 2) }, { enc := 2 }], st := [{}, {}] }

def exMGOps : List MAG.MOp :=
  [.obs 0, .reset (.position .position {}) [1], .step [0, 1], .obs 1, .rew 0, .done 1, .allDone,
   .reset (.position .position {}) [0], .allDone]

example : MAG.magPre exMGWorld exMGOps = true := by decide +kernel

example : ((MAG.runOps { w := exMGWorld } exMGOps).1.map (·.res)) =
    [.obs 0 true, .unit, .unit, .obs 0 true, .int 0, .bool false, .bool false, .unit, .bool false] := by
  decide +kernel

/-- the two resets placed the second agent on different cells (the tape is used) -/
example : ((MAG.runOps { w := exMGWorld } exMGOps).1.map (fun e => (e.w.stOf 1).pos)) =
    [(0, 0), (0, 1), (0, 1), (0, 1), (0, 1), (0, 1), (0, 1), (0, 0), (0, 0)] := by
  decide +kernel

example : MAG.specMAG exMGWorld (MAG.zipOps exMGOps (MAG.runOps { w := exMGWorld } exMGOps).1) = true :=
  multigrid_hist _ _ _ (by decide +kernel)

/-- the reached state meets the hypotheses of `multigrid_reachable_WInv` -/
example : (MAG.runOps { w := exMGWorld } exMGOps).2.started = true := by decide +kernel

/-- the judge rejects a trace in which `step` moved somebody -/
example :
    let tr := (MAG.runOps { w := exMGWorld } exMGOps).1
    MAG.specMAG exMGWorld (MAG.zipOps exMGOps (tr.modify 2 fun e => { e with w := exMGWorld })) = false := by
  decide +kernel

/-- the hypotheses of the C08 theorems are inhabited: the state after a reset through the `SimIface` instance is
reachable, and it agrees with the constructed world on what `PositionState` does not own -/
def exMGCfg : MAG.Cfg := { learning := [true, false], comp := .position .position {} }

example : Ex.SameBut [exMGCfg.comp] ((MAG.toSimIface exMGCfg 2).reset { w := exMGWorld, tape := [1] }).w exMGWorld :=
  multigrid_used_sameBut_fresh exMGCfg exMGWorld 2 ((cfgOKb_iff _).mp (by decide +kernel)) (by decide +kernel)
    (MAG.compOK_of_b (by decide +kernel)) (by decide +kernel) (fun a => by
      cases a with
      | zero => rfl
      | succ a => cases a <;> rfl) (fun a => by
      cases a with
      | zero => rfl
      | succ a => cases a <;> rfl) (MAG.Reach.reset (MAG.Reach.init [1]))

/-- … and the manager theorems: an all-step run (nobody is ever done, the learning agent is reported every time) -/
example : specC01 .allStep 2 exMGCfg.isLearning false
    (runOps (MAG.toSimIface exMGCfg 2) .allStep (mgrInit ({ w := exMGWorld, tape := [1] } : MAG.St) false [])
      [.reset, .step [(0, 0)], .step [(0, 0)]]) = true :=
  C01_MultiAgentGridSim exMGCfg 2 .allStep (by decide) (fun h => by cases h)
    (mgrInit ({ w := exMGWorld, tape := [1] } : MAG.St) false []) [.reset, .step [(0, 0)], .step [(0, 0)]]

end Abmarl
