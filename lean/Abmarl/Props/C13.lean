import Abmarl.Lemmas.PlacementSpec
/-!
# C13 — Reset places every agent legally and as the placement options prescribe

Model: `Model/Placement.lean` (`PositionState`, `TargetBarriersFreePlacementState`,
`MazePlacementState`), `Model/Maze.lean` (`generate_maze`).  Specification: `Spec/Placement.lean`
(`specPlacement`, `specMaze`, hypothesis `wfPlacement`).

Theorems (all worlds — any prior world —, all option combinations, all tapes):

* `place_ok_spec` — the outcome of each of the three resets satisfies `specPlacement`;
* `avail_sound` — every availability list is exactly its base list restricted to the cells
  `Grid.query` would accept (the empty cells, with no-overlap-at-reset); `avail_invariant` — this
  holds initially and is kept by every placement;
* `avail_sorted` — the lists stay sorted under removal and the last element of a sorted list is
  extremal (nearest for clustered barriers, farthest for scattered free agents); `avail_takes_last`
  — that last element is the cell the clustered / scattered placement takes;
* `fail_explicit` — a failing reset fails with `assertion` or `noCell`, and the reason holds;
* `reset_establishes_position_invariant` — after any successful reset, from any prior world, the
  position part of the C03 invariant holds (reused by C03);
* `maze_connected`, `maze_terminates` — every passage of `generateMaze` is connected to the start;
  the frontier loop ends within its fuel.

Readings `c13_*` say in Prop form what the Bool specifications mean.
-/
namespace Abmarl
open World

theorem placementReset_position (o : PlaceOpts) (w : World) (t : Tape) :
    placementReset .position o w t = positionReset o w t := rfl
theorem placementReset_target (o : PlaceOpts) (w : World) (t : Tape) :
    placementReset .target o w t = targetReset o w t := rfl
theorem placementReset_maze (o : PlaceOpts) (w : World) (t : Tape) :
    placementReset .maze o w t = mazeReset o w t := rfl

/-! ## the property theorems -/

/-- **C13** — for every placement state, every prior world, option combination and tape, the
outcome of the model's `reset` satisfies the decidable specification `specPlacement`. -/
theorem place_ok_spec (kind : PKind) (o : PlaceOpts) (w : World) (t : Tape)
    (hwf : wfPlacement kind o w = true) :
    specPlacement kind o w t (resetX kind o w t).1 = true :=
  resetX_spec kind o w t hwf

theorem place_ok_spec_position (o : PlaceOpts) (w : World) (t : Tape)
    (hwf : wfPlacement .position o w = true) :
    specPlacement .position o w t (positionResetX o w t).1 = true := position_spec o w t hwf

theorem place_ok_spec_target (o : PlaceOpts) (w : World) (t : Tape)
    (hwf : wfPlacement .target o w = true) :
    specPlacement .target o w t (tbResetX .target o w t).1 = true :=
  tb_spec .target (by decide) o w t hwf

theorem place_ok_spec_maze (o : PlaceOpts) (w : World) (t : Tape)
    (hwf : wfPlacement .maze o w = true) :
    specPlacement .maze o w t (tbResetX .maze o w t).1 = true :=
  tb_spec .maze (by decide) o w t hwf

/-- **avail_sound** — in every state of a reset (`PInv`), the availability list of an encoding
contains exactly the cells of its base list that `Grid.query` accepts for an agent of that
encoding — with no-overlap-at-reset: exactly the empty ones.  (Uses the symmetry of the table.) -/
theorem avail_sound {w0 : World} {no : Bool} {base : Int → List Nat} {s : PSt}
    (hI : PInv w0 no base s) (hsym : w0.wOverlapSym = true) {x : Int × List Nat} (hx : x ∈ s.av)
    {a : Aid} (henc : s.w.encOf a = x.1) {c : Nat} (hc : c < w0.rows * w0.cols) :
    c ∈ x.2 ↔ (c ∈ base x.1 ∧
      (if no then s.w.cells.getD c [] = [] else s.w.query a (s.w.unravel c) = true)) := by
  rw [hI.avail x hx, List.mem_filter]
  have hsym1 : s.w.wOverlapSym = true := by
    simp only [wOverlapSym, pairOK] at hsym ⊢; rw [hI.ov]; exact hsym
  have hc' : c < s.w.rows * s.w.cols := by rw [hI.rows, hI.cols]; exact hc
  constructor
  · rintro ⟨h1, h2⟩
    refine ⟨h1, ?_⟩
    cases no with
    | true => simp only [if_true]; exact okCell_no_empty h2
    | false =>
      simp only [Bool.false_eq_true, if_false]
      exact okCell_imp_query hI hsym hc (by rw [henc]; exact h2)
  · rintro ⟨h1, h2⟩
    refine ⟨h1, ?_⟩
    cases no with
    | true => simp only [if_true] at h2; exact okCell_empty h2
    | false =>
      simp only [Bool.false_eq_true, if_false] at h2
      rw [← henc]
      apply availRule_imp_okCell hsym1
      simp only [availRule, Bool.false_eq_true, if_false]
      have := joinOK_query s.w a (s.w.unravel c)
      rw [idx_unravel hc'] at this
      rw [this]; exact h2

/-- **avail_invariant** — `PInv` holds right after `grid.reset()` + `_build_available_positions`,
and every successful `place` + `_update_available_positions` keeps it. -/
theorem avail_invariant :
    (∀ (w : World) (no : Bool) (base : Int → List Nat) (av : Avail) (t : Tape),
      w.st.length = w.cfg.length → (∀ x ∈ av, x.2 = base x.1) →
      PInv w.gridReset no base ⟨w.gridReset, av, t⟩) ∧
    (∀ {w0 : World} {no : Bool} {base : Int → List Nat} {s : PSt} {a : Aid} {p : Pos},
      PInv w0 no base s → w0.wOverlapSym = true → (∀ e, (base e).Nodup) → a < w0.n →
      Unplaced s.w a → s.w.inGrid p = true → s.w.query a p = true →
      ∃ s', placeAt no s a p = .ok s' ∧ PInv w0 no base s') :=
  ⟨pinv_init, fun hI hs hb ha hu hi hq => by
    obtain ⟨s', h1, h2, _⟩ := placeAt_ok hI hs hb ha hu hi hq
    exact ⟨s', h1, h2⟩⟩

/-- **avail_sorted** — (1) `_update_available_positions` keeps every list sorted, whatever the
order relation; (2) in every state of a reset the lists are sorted as their base lists are;
(3) in a sorted list every element is related to the last one, which is the cell the clustered /
scattered placement takes. -/
theorem avail_sorted :
    (∀ (R : Nat → Nat → Prop) (w : World) (no : Bool) (av : Avail) (pe : Int) (k : Nat),
      (∀ x ∈ av, x.2.Pairwise R) → ∀ x ∈ updateAvail w no av pe k, x.2.Pairwise R) ∧
    (∀ (R : Nat → Nat → Prop) {w0 : World} {no : Bool} {base : Int → List Nat} {s : PSt},
      PInv w0 no base s → ∀ x ∈ s.av, (base x.1).Pairwise R → x.2.Pairwise R) ∧
    (∀ (R : Nat → Nat → Prop) (l : List Nat) (k c : Nat), l.Pairwise R → l.getLast? = some k → c ∈ l →
      c = k ∨ R c k) := by
  refine ⟨?_, ?_, fun R l k c h1 h2 h3 => pairwise_last h1 h2 h3⟩
  · intro R w no av pe k h x hx
    simp only [updateAvail, List.mem_map] at hx
    obtain ⟨y, hy, rfl⟩ := hx
    split
    · exact (h y hy).sublist List.erase_sublist
    · exact h y hy
  · intro R w0 no base s hI x hx hR
    rw [hI.avail x hx]; exact hR.filter _

/-- the clustered / scattered placement takes the last element of the list of its encoding -/
theorem avail_takes_last {o : PlaceOpts} {s : PSt} {a : Aid} {l : List Nat} {k : Nat}
    (hu : o.useLast (s.w.encOf a) = true) (hl : s.av.lookup (s.w.encOf a) = some l)
    (hk : l.getLast? = some k) :
    placeVarTB o s a = placeAt o.noOverlap s a (s.w.unravel k) := by
  simp [placeVarTB, hu, hl, hk]

theorem errJustified_kind {kind : PKind} {o : PlaceOpts} {w' : World} {mz : List Nat}
    {cells : List (List Aid)} {a : Aid} {e : GErr}
    (h : errJustified kind o w' mz cells a (some e) = true) : e = .assertion ∨ e = .noCell := by
  cases e <;> simp [errJustified] at h ⊢

theorem replay_err {kind : PKind} {o : PlaceOpts} {w' : World} {mz : List Nat} {e : GErr} :
    ∀ (l : List Aid) (cells : List (List Aid)), replay kind o w' mz (some e) l cells = true →
      ∃ a ∈ l, placedIn w' a = false ∧ errJustified kind o w' mz w'.cells a (some e) = true := by
  intro l
  induction l with
  | nil => intro cells h; simp [replay] at h
  | cons x xs ih =>
    intro cells h
    unfold replay at h
    by_cases hp : placedIn w' x = true
    · rw [if_pos hp, Bool.and_eq_true] at h
      obtain ⟨a, ha, r⟩ := ih _ h.2
      exact ⟨a, List.mem_cons_of_mem _ ha, r⟩
    · rw [if_neg hp, Bool.and_eq_true, beq_iff_eq] at h
      refine ⟨x, List.mem_cons_self, by simpa using hp, ?_⟩
      rw [← h.1]; exact h.2

/-- **fail_explicit** — if a reset fails, it fails with the explicit `assertion` or `noCell`
error (never another exception, never an illegal world), at the first agent of the placement
order that is not in the grid, and the documented reason holds for that agent
(`c13_noCell_reading`, `c13_assertion_reading`). -/
theorem fail_explicit (kind : PKind) (o : PlaceOpts) (w : World) (t : Tape)
    (hwf : wfPlacement kind o w = true) (e : GErr) (herr : (resetX kind o w t).1.err = some e) :
    (e = .assertion ∨ e = .noCell) ∧
    ∃ a ∈ placementOrder kind o w t, placedIn (resetX kind o w t).1.post a = false ∧
      errJustified kind o (resetX kind o w t).1.post (mazeOf kind o w t (resetX kind o w t).1.post)
        (resetX kind o w t).1.post.cells a (some e) = true := by
  have h := place_ok_spec kind o w t hwf
  unfold specPlacement at h
  simp only [Bool.and_eq_true] at h
  have hrep := h.2
  rw [herr] at hrep
  obtain ⟨a, ha, h1, h2⟩ := replay_err _ _ hrep
  exact ⟨errJustified_kind h2, a, ha, h1, h2⟩

theorem spec_ok_parts {kind : PKind} {o : PlaceOpts} {w : World} {t : Tape} {out : PlaceOut}
    (h : specPlacement kind o w t out = true) (herr : out.err = none) :
    out.post.posInv = true ∧ fixedOnInit out.post = true ∧ aloneFinal o out.post = true ∧
    (kind = .maze → Maze.specMaze out.post.rows out.post.cols (out.post.stOf o.target).pos
      (mazeOf kind o w t out.post) = true) ∧
    replay kind o out.post (mazeOf kind o w t out.post) none (placementOrder kind o w t)
      (List.replicate (w.rows * w.cols) []) = true := by
  unfold specPlacement at h
  simp only [herr, Option.isSome_none, Bool.false_or, Bool.and_eq_true, Bool.or_eq_true,
    bne_iff_ne, ne_eq] at h
  obtain ⟨⟨_, ⟨⟨⟨h1, h2⟩, h3⟩, h4⟩⟩, h5⟩ := h
  refine ⟨h1, h2, h3, fun hk => ?_, h5⟩
  rcases h4 with h | h
  · exact absurd hk h
  · exact h

/-- **reset_establishes_position_invariant** — whatever the prior world (dirty cells, moved or dead
agents), after a successful reset of any of the three placement states the cell table has the
right shape, whoever is stored in a cell is a real agent whose position is that cell, once,
co-occupants may pairwise overlap, and every agent is stored in the cell of its in-grid position
(`c13_posInv_reading`).  Health, ammunition and orientation are other components' business. -/
theorem reset_establishes_position_invariant (kind : PKind) (o : PlaceOpts) (w : World) (t : Tape)
    (w' : World) (t' : Tape) (hwf : wfPlacement kind o w = true)
    (h : placementReset kind o w t = .ok (w', t')) : w'.posInv = true := by
  unfold placementReset PlaceOut.toExcept at h
  cases herr : (resetX kind o w t).1.err with
  | some e => rw [herr] at h; cases h
  | none =>
    rw [herr] at h
    simp only [Except.ok.injEq, Prod.mk.injEq] at h
    rw [← h.1]
    exact (spec_ok_parts (place_ok_spec kind o w t hwf) herr).1

/-- **maze_connected** — for every size, start and tape: the maze returned by `generateMaze`
satisfies `specMaze`; in particular (`c13_maze_reading`) the start is a passage and every passage
is connected to it through 4-adjacent passages. -/
theorem maze_connected (rows cols : Nat) (start : Pos) (t : Tape) (m : List Nat) (t' : Tape)
    (h : Maze.generateMaze rows cols start t = .ok (m, t')) :
    Maze.specMaze rows cols start m = true ∧
    ∀ i, i < rows * cols → m.getD i 1 = 0 → Maze.Conn rows cols m (Maze.startIdx cols start) i :=
  ⟨Maze.generateMaze_spec h, (Maze.specMaze_reading (Maze.generateMaze_spec h)).2.2.2.2⟩

/-- **maze_terminates** — with the start inside the grid the frontier loop ends within the fuel
`(rows+2)*(cols+2)`: `generateMaze` returns a maze for every tape. -/
theorem maze_terminates (rows cols : Nat) (start : Pos) (t : Tape)
    (hs : 0 ≤ start.1 ∧ start.1 < rows ∧ 0 ≤ start.2 ∧ start.2 < cols) :
    ∃ m t', Maze.generateMaze rows cols start t = .ok (m, t') := by
  obtain ⟨r, hr⟩ := Maze.generateMaze_ok rows cols start t hs
  exact ⟨r.1, r.2, hr⟩

end Abmarl

namespace Abmarl
open World

/-! ## Readings of the specification -/

/-- the position part of the C03 invariant, in Prop form -/
theorem c13_posInv_reading {w : World} (h : w.posInv = true) :
    w.cells.length = w.rows * w.cols ∧ w.st.length = w.cfg.length ∧
    (∀ i, i < w.rows * w.cols →
      (w.cells.getD i []).Nodup ∧
      (∀ a ∈ w.cells.getD i [], a < w.n ∧ w.inGrid (w.stOf a).pos = true ∧ w.idx (w.stOf a).pos = i) ∧
      (∀ a ∈ w.cells.getD i [], ∀ b ∈ w.cells.getD i [], a ≠ b →
        w.pairOK (w.encOf a) (w.encOf b) = true)) ∧
    (∀ a, a < w.n → w.inGrid (w.stOf a).pos = true ∧ a ∈ w.cell (w.stOf a).pos) := by
  simp only [posInv, wShape, Bool.and_eq_true, beq_iff_eq, List.all_eq_true] at h
  obtain ⟨⟨⟨h1, h2⟩, h3⟩, h4⟩ := h
  refine ⟨h1, h2, ?_, ?_⟩
  · intro i hi
    have := h3 i (by simpa [allCells] using hi)
    simp only [posCell, Bool.and_eq_true, List.all_eq_true, decide_eq_true_eq, beq_iff_eq,
      Bool.or_eq_true] at this
    obtain ⟨⟨g1, g2⟩, g3⟩ := this
    refine ⟨g1, fun a ha => ⟨(g2 a ha).1.1, (g2 a ha).1.2, (g2 a ha).2⟩, ?_⟩
    intro a ha b hb hab
    rcases g3 a ha b hb with h | h
    · exact absurd h hab
    · exact h
  · intro a ha
    have := h4 a (by simpa [allAgents] using ha)
    simp only [posAgent, Bool.and_eq_true, decide_eq_true_eq] at this
    exact this

/-- agents with an initial position stand on it -/
theorem c13_fixed_reading {w' : World} (h : fixedOnInit w' = true) :
    ∀ a, a < w'.n → ∀ q, (w'.cfgOf a).initPos = some q → (w'.stOf a).pos = q := by
  intro a ha q hq
  simp only [fixedOnInit, List.all_eq_true] at h
  have := h a (by simpa [allAgents] using ha)
  rw [hq] at this
  simpa using this

/-- with no-overlap-at-reset every agent without an initial position is alone on its cell -/
theorem c13_alone_reading {o : PlaceOpts} {w' : World} (h : aloneFinal o w' = true)
    (hn : o.noOverlap = true) :
    ∀ a, a < w'.n → (w'.cfgOf a).initPos = none → w'.cell (w'.stOf a).pos = [a] := by
  intro a ha hi
  simp only [aloneFinal, hn, Bool.not_true, Bool.false_or, List.all_eq_true, Bool.or_eq_true,
    beq_iff_eq] at h
  rcases h a (by simpa [allAgents] using ha) with h | h
  · simp [isFixed, hi] at h
  · exact h

/-- what `stepOK` says about an agent at the moment it is placed (`cells` = the cell table then):
inside the grid; may overlap with everybody on its cell; on its initial position if it has one;
otherwise (and unless it is the target of a target/maze state): alone when no-overlap-at-reset is
on, on a wall (barrier encoding) / passage (free encoding) cell of the maze, and — when its
encoding is clustered (scattered) — not farther from (nearer to) the target than any cell that
was available to its encoding. -/
theorem c13_stepOK_reading {kind : PKind} {o : PlaceOpts} {w' : World} {mz : List Nat}
    {cells : List (List Aid)} {a : Aid} (h : stepOK kind o w' mz cells a = true) :
    w'.inGrid (w'.stOf a).pos = true ∧
    (∀ b ∈ cells.getD (w'.idx (w'.stOf a).pos) [], w'.pairOK (w'.encOf a) (w'.encOf b) = true) ∧
    (∀ q, (w'.cfgOf a).initPos = some q → (w'.stOf a).pos = q) ∧
    ((w'.cfgOf a).initPos = none → isTargetRole kind o a = false →
      (o.noOverlap = true → cells.getD (w'.idx (w'.stOf a).pos) [] = []) ∧
      baseOK kind o mz (w'.encOf a) (w'.idx (w'.stOf a).pos) = true ∧
      (kind ≠ .position → o.useLast (w'.encOf a) = true → ∀ c, c < w'.rows * w'.cols →
        baseOK kind o mz (w'.encOf a) c = true →
        availRule w' o.noOverlap cells (w'.encOf a) c = true →
        ((o.barrier.contains (w'.encOf a) && o.cluster) = true →
          sqDist (w'.stOf a).pos (w'.stOf o.target).pos ≤
            sqDist (w'.unravel c) (w'.stOf o.target).pos) ∧
        ((o.barrier.contains (w'.encOf a) && o.cluster) = false →
          sqDist (w'.unravel c) (w'.stOf o.target).pos ≤
            sqDist (w'.stOf a).pos (w'.stOf o.target).pos))) := by
  unfold stepOK at h
  simp only [Bool.and_eq_true] at h
  obtain ⟨⟨⟨h1, h2⟩, _⟩, h4⟩ := h
  refine ⟨h1, ?_, ?_, ?_⟩
  · simpa [joinOK, List.all_eq_true] using h2
  · intro q hq
    rw [hq] at h4
    simpa using h4
  · intro hi ht
    rw [hi] at h4
    simp only [ht, Bool.false_or, Bool.and_eq_true, Bool.or_eq_true, Bool.not_eq_true',
      List.isEmpty_iff] at h4
    obtain ⟨⟨g1, g2⟩, g3⟩ := h4
    refine ⟨fun hn => ?_, g2, ?_⟩
    · rcases g1 with h | h
      · rw [hn] at h; cases h
      · exact h
    · intro hk hu c hc hb hav
      rcases g3 with h | h
      · simp only [Bool.and_eq_false_iff, bne_eq_false_iff_eq] at h
        rcases h with h | h
        · exact absurd h hk
        · rw [hu] at h; cases h
      · rw [List.all_eq_true] at h
        have := h c (by simpa [allCells] using hc)
        simp only [hb, hav, Bool.and_self, Bool.not_true, Bool.false_or] at this
        constructor
        · intro hc1
          rw [Bool.and_eq_true] at hc1
          rw [if_pos hc1] at this; simpa using this
        · intro hc1
          have hc2 : ¬ (o.barrier.contains (w'.encOf a) = true ∧ o.cluster = true) := by
            rw [← Bool.and_eq_true, hc1]; simp
          rw [if_neg hc2] at this; simpa using this

/-- a `noCell` failure is justified only for a freely placed agent to whose encoding no cell of the
grid (no wall / passage cell of the maze) was available -/
theorem c13_noCell_reading {kind : PKind} {o : PlaceOpts} {w' : World} {mz : List Nat}
    {cells : List (List Aid)} {a : Aid} (h : errJustified kind o w' mz cells a (some .noCell) = true) :
    isTargetRole kind o a = false ∧ (w'.cfgOf a).initPos = none ∧
    ∀ c, c < w'.rows * w'.cols →
      ¬ (baseOK kind o mz (w'.encOf a) c = true ∧ availRule w' o.noOverlap cells (w'.encOf a) c = true) := by
  simp only [errJustified, Bool.and_eq_true, Bool.not_eq_true', List.all_eq_true, isFixed] at h
  obtain ⟨⟨h1, h2⟩, h3⟩ := h
  refine ⟨h1, ?_, ?_⟩
  · cases hi : (w'.cfgOf a).initPos with
    | none => rfl
    | some q => rw [hi] at h2; cases h2
  · intro c hc ⟨hb, hav⟩
    have := h3 c (by simpa [allCells] using hc)
    rw [hb, hav] at this; cases this

/-- an `assertion` failure is justified only (a) before anybody is placed, when some encoding is
neither a barrier nor a free encoding, or (b) for an agent whose initial position is a cell inside
the grid that it may not join -/
theorem c13_assertion_reading {kind : PKind} {o : PlaceOpts} {w' : World} {mz : List Nat}
    {cells : List (List Aid)} {a : Aid}
    (h : errJustified kind o w' mz cells a (some .assertion) = true) :
    (isTargetRole kind o a = true ∧ ∃ c ∈ w'.cfg, (o.barrier ++ o.free).contains c.enc = false) ∨
    (isTargetRole kind o a = false ∧ ∃ q, (w'.cfgOf a).initPos = some q ∧ w'.inGrid q = true ∧
      ∃ b ∈ cells.getD (w'.idx q) [], w'.pairOK (w'.encOf a) (w'.encOf b) = false) := by
  unfold errJustified at h
  simp only at h
  cases ht : isTargetRole kind o a with
  | true =>
    left
    rw [ht] at h
    simp only [if_true, Bool.not_eq_true', List.all_eq_false] at h
    obtain ⟨c, hc, hcc⟩ := h
    exact ⟨rfl, c, hc, by simpa using hcc⟩
  | false =>
    right
    rw [ht] at h
    simp only [Bool.false_eq_true, if_false] at h
    cases hi : (w'.cfgOf a).initPos with
    | none => rw [hi] at h; cases h
    | some q =>
      rw [hi] at h
      simp only [Bool.and_eq_true, Bool.not_eq_true', joinOK, List.all_eq_false] at h
      obtain ⟨h1, b, hb, hbb⟩ := h
      exact ⟨rfl, q, rfl, h1, b, hb, by simpa using hbb⟩

/-- the reading of `specMaze` -/
theorem c13_maze_reading {rows cols : Nat} {start : Pos} {m : List Nat}
    (h : Maze.specMaze rows cols start m = true) :
    m.length = rows * cols ∧ (∀ v ∈ m, v ≤ 1) ∧ Maze.startInGrid rows cols start ∧
    m.getD (Maze.startIdx cols start) 1 = 0 ∧
    ∀ i, i < rows * cols → m.getD i 1 = 0 →
      Maze.Conn rows cols m (Maze.startIdx cols start) i := Maze.specMaze_reading h

/-- **C13, success** — whenever a reset that `specPlacement` accepts succeeded: the position
invariant holds, agents with an initial position stand on it, with no-overlap-at-reset every
agent without an initial position is alone, the maze (maze state) is connected to the target, and
every agent was placed legally at its moment (`c13_stepOK_reading`). -/
theorem c13_success_reading {kind : PKind} {o : PlaceOpts} {w : World} {t : Tape} {out : PlaceOut}
    (h : specPlacement kind o w t out = true) (herr : out.err = none) :
    out.post.posInv = true ∧ fixedOnInit out.post = true ∧ aloneFinal o out.post = true ∧
    (kind = .maze → Maze.specMaze out.post.rows out.post.cols (out.post.stOf o.target).pos
      (mazeOf kind o w t out.post) = true) ∧
    ∀ a ∈ placementOrder kind o w t, placedIn out.post a = true ∧
      ∃ cells, stepOK kind o out.post (mazeOf kind o w t out.post) cells a = true := by
  obtain ⟨h1, h2, h3, h4, h5⟩ := spec_ok_parts h herr
  exact ⟨h1, h2, h3, h4, replay_none_all _ _ h5⟩

/-- **C13, failure** — a failure that `specPlacement` accepts is explicit and justified -/
theorem c13_failure_reading {kind : PKind} {o : PlaceOpts} {w : World} {t : Tape} {out : PlaceOut}
    {e : GErr} (h : specPlacement kind o w t out = true) (herr : out.err = some e) :
    (e = .assertion ∨ e = .noCell) ∧
    ∃ a ∈ placementOrder kind o w t, placedIn out.post a = false ∧
      errJustified kind o out.post (mazeOf kind o w t out.post) out.post.cells a (some e) = true := by
  unfold specPlacement at h
  simp only [Bool.and_eq_true] at h
  have hrep := h.2
  rw [herr] at hrep
  obtain ⟨a, ha, h1, h2⟩ := replay_err _ _ hrep
  exact ⟨errJustified_kind h2, a, ha, h1, h2⟩

end Abmarl

namespace Abmarl
open World

/-! ## Non-vacuity -/

/-- a 2×3 world, dirty from an earlier episode (agent 1 is dead, the cell table is stale): agent 0
(encoding 1) has the initial position (0,1); agents 1 (encoding 2) and 2 (encoding 1) are placed
freely; encodings 1 and 2 may overlap with each other but not with themselves -/
def exPlace : World :=
  { rows := 2, cols := 3, overlap := [(1, [2]), (2, [1])],
    cells := [[2], [], [], [], [0, 1], []],
    cfg := [{ enc := 1, initPos := some (0, 1) }, { enc := 2 }, { enc := 1 }],
    st := [{ pos := (1, 1) }, { pos := (1, 1), health := 0, active := false }, { pos := (0, 0) }] }

example : wfPlacement .position {} exPlace = true := by decide
/-- the draws 3 and 4 put agent 1 on cell 3 = (1,0) and agent 2 on the fifth cell that is still
available to encoding 1, (1,2); vitals are untouched -/
example : (positionResetX {} exPlace [3, 4]).1 =
    ⟨none, { exPlace with
      cells := [[], [0], [], [1], [], [2]],
      st := [{ pos := (0, 1) }, { pos := (1, 0), health := 0, active := false }, { pos := (1, 2) }] }⟩ := by
  decide
example : specPlacement .position {} exPlace [3, 4] (positionResetX {} exPlace [3, 4]).1 = true := by decide
/-- an illegal outcome is rejected by the judge: agents 0 and 2 (both encoding 1) on one cell -/
example : specPlacement .position {} exPlace [3, 4]
    ⟨none, { exPlace with
      cells := [[], [0, 2], [], [1], [], []],
      st := [{ pos := (0, 1) }, { pos := (1, 0), health := 0, active := false }, { pos := (0, 1) }] }⟩ = false := by
  decide
/-- and so is a made-up failure -/
example : specPlacement .position {} exPlace [3, 4]
    ⟨some .noCell, { exPlace with
      cells := [[], [0], [], [], [], []],
      st := [{ pos := (0, 1) }, { pos := (1, 1), health := 0, active := false }, { pos := (0, 0) }] }⟩ = false := by
  decide

/-- a 3×3 maze from the corner, and from the centre of a 3×4 grid -/
example : (match Maze.generateMaze 3 3 (0, 0) [1, 0, 2, 1, 0, 5] with
    | .ok r => r.1 == [0, 0, 0, 0, 1, 0, 0, 0, 1] | .error _ => false) = true := by decide
example : Maze.specMaze 3 3 (0, 0) [0, 0, 0, 0, 1, 0, 0, 0, 1] = true := by decide
/-- a maze with a passage cut off from the start is rejected -/
example : Maze.specMaze 3 3 (0, 0) [0, 1, 0, 0, 1, 0, 0, 1, 0] = false := by decide

/-- **finding C13-K1** (outside `wfPlacement`): no-overlap-at-reset is on, the target (agent 0) has
no initial position and is drawn onto (0,0); agent 1, whose initial position is (0,0) and which may
overlap with the target, is placed on the same cell.  The model reproduces the real outcome and the
specification rejects it: the randomly placed target is not alone. -/
def exK1 : World :=
  { rows := 1, cols := 2, overlap := [(1, [1])], cells := [[], []],
    cfg := [{ enc := 1 }, { enc := 1, initPos := some (0, 0) }], st := [{}, {}] }
def optsK1 : PlaceOpts := { noOverlap := true, free := [1] }
example : wfPlacement .target optsK1 exK1 = false := by decide
example : (tbResetX .target optsK1 exK1 [0, 0]).1.post.cells = [[0, 1], []] := by decide
example : specPlacement .target optsK1 exK1 [0, 0] (tbResetX .target optsK1 exK1 [0, 0]).1 = false := by decide

end Abmarl
