import Abmarl.Lemmas.Flatten
/-!
# C05 — Flattening round-trips and lands inside the flattened Box

Property theorems only (helper lemmas: `Lemmas/Flatten.lean`).  The model is
`Model/Spaces.lean` (`flatdim`, `flatten`, `unflatten`, `flattenSpace` written after
`flatten_wrapper.py`; array elements are `Num = int | flt`, `np.concatenate` promotes to float
as soon as one part is float, `unflatten` casts a Box leaf back to the leaf's dtype and keeps
the array's dtype for a Discrete / MultiBinary / MultiDiscrete leaf).  The decidable
specifications are `specFlatten`, `specRoundTrip`, `specFlatSpace` in `Spec/Spaces.lean`.

Every theorem is for **every** space `s` with `WF05 s` (any nesting of Discrete, MultiBinary,
MultiDiscrete, `int` Box and float Box inside Dict / Tuple) and **every** member `p`.  `WF05`
excludes `Discrete(start ≠ 0)` (finding K1), integer Boxes whose dtype is not `int`
(finding K5), unbounded Boxes, and spaces without cells or children.
-/
namespace Abmarl

/-- the flattened point has as many entries as the space's flat dimension -/
theorem C05_flatten_length (s : Space) (p : Pt) (hW : WF05 s = true) (hm : mem s p = true) :
    ∃ a, flatten s p = some a ∧ a.length = flatdim s := by
  obtain ⟨a, h1, h2⟩ := flatten_ok s p hW hm
  exact ⟨a, h1, h2.len⟩

/-- the flattened Box is integer-typed exactly when every leaf space is, and has one pair of
bounds per flat dimension -/
theorem C05_flattenSpace_int_iff (s : Space) (hW : WF05 s = true) :
    ∃ fb, flattenSpace s = some fb ∧ (fb.kind ≠ .f ↔ allLeavesInt s = true) ∧
      (fb.kind = .i64 ↔ allLeavesInt s = true) ∧
      fb.lo.length = flatdim s ∧ fb.hi.length = flatdim s := by
  obtain ⟨fb, h1, h2, h3, h4⟩ := flattenSpace_ok s hW
  refine ⟨fb, h1, ?_, ?_, h3, h4⟩ <;> rw [h2] <;> cases allLeavesInt s <;> simp

/-- the flattened point is a member of the flattened Box -/
theorem C05_flatten_mem (s : Space) (p : Pt) (hW : WF05 s = true) (hm : mem s p = true) :
    ∃ a fb, flatten s p = some a ∧ flattenSpace s = some fb ∧ memFlat fb a = true := by
  obtain ⟨a, h1, h2⟩ := flatten_ok s p hW hm
  obtain ⟨fb, g1, g2⟩ := h2.box
  obtain ⟨fb', k1, k2, _, _⟩ := flattenSpace_ok s hW
  have : fb' = fb := by rw [g1] at k1; exact (Option.some.inj k1).symm
  subst this
  refine ⟨a, fb', h1, g1, ?_⟩
  simp only [memFlat, g2, Bool.and_true, h2.tags, k2]
  cases allLeavesInt s <;> simp

/-- unflattening the flattened point returns a point with the same structure and values -/
theorem C05_unflatten_flatten (s : Space) (p : Pt) (hW : WF05 s = true) (hm : mem s p = true) :
    ∃ a q, flatten s p = some a ∧ unflatten s a = some q ∧ ptEqv q p = true := by
  obtain ⟨a, h1, h2⟩ := flatten_ok s p hW hm
  obtain ⟨q, g1, g2, _⟩ := h2.unfl true
  rw [map_cast_true] at g1
  exact ⟨a, q, h1, g1, g2⟩

/-- in an integer-typed space unflattening returns the very same point, hence a member -/
theorem C05_int_roundtrip_mem (s : Space) (p : Pt) (hW : WF05 s = true) (hm : mem s p = true)
    (hi : allLeavesInt s = true) :
    ∃ a, flatten s p = some a ∧ unflatten s a = some p ∧ mem s p = true := by
  obtain ⟨a, h1, h2⟩ := flatten_ok s p hW hm
  obtain ⟨q, g1, _, g3⟩ := h2.unfl true
  rw [map_cast_true] at g1
  rw [g3 rfl hi] at g1
  exact ⟨a, h1, g1, hm⟩

/-- the flattened point of an integer-typed space is integer-typed, of any other space
float-typed: the array's dtype follows the flattened Box's -/
theorem C05_flatten_dtype (s : Space) (p : Pt) (hW : WF05 s = true) (hm : mem s p = true) :
    ∃ a, flatten s p = some a ∧ a.all Num.isInt = allLeavesInt s := by
  obtain ⟨a, h1, h2⟩ := flatten_ok s p hW hm
  exact ⟨a, h1, h2.tags⟩

/-! ## The model's outcome satisfies each specification (what the driver self-tests) -/

theorem C05_specFlatten (s : Space) (p : Pt) (hW : WF05 s = true) (hm : mem s p = true) :
    specFlatten s p (outFlatten s p) = true := by
  obtain ⟨a, h1, h2⟩ := flatten_ok s p hW hm
  obtain ⟨_, fb, h1', g1, g2⟩ := C05_flatten_mem s p hW hm
  rw [h1] at h1'; cases h1'
  obtain ⟨q, u1, u2, u3⟩ := h2.unfl true
  rw [map_cast_true] at u1
  simp only [outFlatten, h1, g1, g2, specFlatten, h2.len, decide_true, Bool.true_and, u1, u2]
  cases hi : allLeavesInt s
  · rfl
  · rw [u3 rfl hi]
    simp only [Bool.not_true, Bool.false_or]
    exact (Pt.beq_iff _ _).mpr rfl

theorem C05_specRoundTrip (s : Space) (p : Pt) (hW : WF05 s = true) (hm : mem s p = true) :
    specRoundTrip s p (outRoundTrip s p (allLeavesInt s)) = true := by
  obtain ⟨a, h1, h2⟩ := flatten_ok s p hW hm
  obtain ⟨q, u1, u2, u3⟩ := h2.unfl true
  rw [map_cast_true] at u1
  simp only [outRoundTrip, h1, u1, specRoundTrip, u2, Bool.true_and]
  cases hi : allLeavesInt s
  · rfl
  · rw [u3 rfl hi]
    simp only [Bool.not_true, Bool.false_or, if_true, hm, decide_true, Bool.and_true]
    exact (Pt.beq_iff _ _).mpr rfl

theorem C05_specFlatSpace (s : Space) (hW : WF05 s = true) :
    specFlatSpace s (outFlatSpace s) = true := by
  obtain ⟨fb, h1, h2, h3, h4⟩ := flattenSpace_ok s hW
  simp only [outFlatSpace, h1, specFlatSpace, h2, h3, h4, decide_true, Bool.and_true]
  cases allLeavesInt s <;> simp

/-! ## What the specifications say (readings of the decidable predicates) -/

/-- `specFlatten` holds of an outcome exactly when it is a one-dimensional array of length
`flatdim`, inside the flattened Box (by the model's membership *and* by the real `in`), whose
unflattening has the structure and values of `p` (and is `p` itself for an integer space) -/
theorem specFlatten_reading (s : Space) (p : Pt) (out : Option (List Num × Bool)) :
    specFlatten s p out = true ↔
      ∃ a fb q, out = some (a, true) ∧ a.length = flatdim s ∧
        flattenSpace s = some fb ∧ memFlat fb a = true ∧
        unflatten s a = some q ∧ ptEqv q p = true ∧ (allLeavesInt s = true → q = p) := by
  cases out with
  | none => simp [specFlatten]
  | some ab =>
    obtain ⟨a, b⟩ := ab
    simp only [specFlatten, Bool.and_eq_true, decide_eq_true_eq, Option.some.injEq, Prod.mk.injEq]
    constructor
    · rintro ⟨⟨⟨h1, h2⟩, h3⟩, h4⟩
      cases hf : flattenSpace s with
      | none => simp [hf] at h3
      | some fb =>
        cases hu : unflatten s a with
        | none => simp [hu] at h4
        | some q =>
          simp only [hf] at h3
          simp only [hu, Bool.and_eq_true, Bool.or_eq_true, Bool.not_eq_true'] at h4
          refine ⟨a, fb, q, ⟨rfl, h2⟩, h1, (by first | exact hf | rfl), h3, (by first | exact hu | rfl), h4.1, ?_⟩
          intro hi
          rcases h4.2 with h | h
          · rw [hi] at h; cases h
          · exact (Pt.beq_iff _ _).mp h
    · rintro ⟨a', fb, q, ⟨rfl, rfl⟩, h1, hf, h3, hu, h5, h6⟩
      simp only [hf, hu, h1, h3, h5, Bool.true_and, and_self, true_and, Bool.or_eq_true,
        Bool.not_eq_true']
      cases hi : allLeavesInt s
      · exact Or.inl rfl
      · exact Or.inr ((Pt.beq_iff _ _).mpr (h6 hi))

/-- `specRoundTrip` holds of an outcome exactly when it is a point with the structure and
values of `p`, and — for an integer space — `p` itself, a member of the space by the model's
membership and by gymnasium's `in` -/
theorem specRoundTrip_reading (s : Space) (p : Pt) (out : Option (Pt × Int)) :
    specRoundTrip s p out = true ↔
      ∃ q isIn, out = some (q, isIn) ∧ ptEqv q p = true ∧
        (allLeavesInt s = true → q = p ∧ mem s q = true ∧ isIn = 1) := by
  cases out with
  | none => simp [specRoundTrip]
  | some qi =>
    obtain ⟨q, i⟩ := qi
    simp only [specRoundTrip, Bool.and_eq_true, Bool.or_eq_true, Bool.not_eq_true',
      decide_eq_true_eq, Option.some.injEq, Prod.mk.injEq]
    constructor
    · rintro ⟨h1, h2⟩
      refine ⟨q, i, ⟨rfl, rfl⟩, h1, ?_⟩
      intro hi
      rcases h2 with h | h
      · rw [hi] at h; cases h
      · exact ⟨(Pt.beq_iff _ _).mp h.1.1, h.1.2, h.2⟩
    · rintro ⟨q', i', ⟨rfl, rfl⟩, h1, h2⟩
      refine ⟨h1, ?_⟩
      cases hi : allLeavesInt s
      · exact Or.inl rfl
      · obtain ⟨e, hm, hi1⟩ := h2 hi
        exact Or.inr ⟨⟨(Pt.beq_iff _ _).mpr e, hm⟩, hi1⟩

/-- `specFlatSpace` holds of an outcome exactly when the Box is integer-typed iff every leaf
is, and it has one lower and one upper bound per flat dimension -/
theorem specFlatSpace_reading (s : Space) (out : Option (FlatBox × Nat)) :
    specFlatSpace s out = true ↔
      ∃ fb d, out = some (fb, d) ∧ (fb.kind ≠ .f ↔ allLeavesInt s = true) ∧ d = flatdim s ∧
        fb.lo.length = d ∧ fb.hi.length = d := by
  cases out with
  | none => simp [specFlatSpace]
  | some bd =>
    obtain ⟨fb, d⟩ := bd
    simp only [specFlatSpace, Bool.and_eq_true, decide_eq_true_eq, beq_iff_eq, Option.some.injEq,
      Prod.mk.injEq]
    constructor
    · rintro ⟨⟨⟨h1, h2⟩, h3⟩, h4⟩
      refine ⟨fb, d, ⟨rfl, rfl⟩, ?_, h2, h3, h4⟩
      rw [← h1]; simp
    · rintro ⟨fb', d', ⟨rfl, rfl⟩, h1, h2, h3, h4⟩
      refine ⟨⟨⟨?_, h2⟩, h3⟩, h4⟩
      cases hi : allLeavesInt s
      · by_cases hk : fb.kind = DKind.f
        · simp [hk]
        · have := h1.mp hk; rw [hi] at this; cases this
      · have := h1.mpr hi; simpa using this

/-- `ptEqv` says: same constructors, same keys, same lengths, equal values entry by entry -/
theorem valsEq_iff (a b : List Num) : valsEq a b = true ↔ a.map Num.val = b.map Num.val := by
  induction a generalizing b with
  | nil => cases b <;> simp [valsEq]
  | cons x xs ih =>
    cases b with
    | nil => simp [valsEq]
    | cons y ys => simp [valsEq, ih]

/-! ## Non-vacuity: a nested space with every leaf kind, unequal child dimensions, a float Box
with per-cell dyadic bounds inside a Dict inside a Tuple, and an all-integer sibling. -/

def exSpace05 : Space :=
  .tuple [.discrete 3 0,
          .dict [1, 4] [.fbox [2] [-3/2, 0] [3/2, 1/4], .multiBinary 3],
          .box [2, 1] [-1, 0] [1, 1] true,
          .multiDiscrete [2, 5]]

def exPoint05 : Pt :=
  .tuple [.scalar (.int 2),
          .dict [1, 4] [.arr [.flt (1/2), .flt (1/4)], .arr [.int 1, .int 0, .int 1]],
          .arr [.int (-1), .int 1],
          .arr [.int 1, .int 4]]

def exSpace05i : Space :=
  .tuple [.discrete 3 0, .dict [1, 4] [.multiBinary 3, .box [2, 1] [-1, 0] [1, 1] true], .multiDiscrete [2, 5]]

def exPoint05i : Pt :=
  .tuple [.scalar (.int 2), .dict [1, 4] [.arr [.int 1, .int 0, .int 1], .arr [.int (-1), .int 1]],
          .arr [.int 1, .int 4]]

example : WF05 exSpace05 = true ∧ mem exSpace05 exPoint05 = true ∧ allLeavesInt exSpace05 = false ∧
    flatdim exSpace05 = 10 := by decide +kernel
example : flatten exSpace05 exPoint05 =
    some [.flt 2, .flt (1/2), .flt (1/4), .flt 1, .flt 0, .flt 1, .flt (-1), .flt 1, .flt 1, .flt 4] := by
  decide +kernel
/-- the unflattened point is *not* a member of a mixed space (the Discrete entry came back as a
float): membership is claimed for integer spaces only -/
example : (match outRoundTrip exSpace05 exPoint05 true with
    | some (q, isIn) => ptEqv q exPoint05 && decide (isIn = 0) && !(q == exPoint05)
    | none => false) = true := by decide +kernel
example : specFlatten exSpace05 exPoint05 (outFlatten exSpace05 exPoint05) = true ∧
    specRoundTrip exSpace05 exPoint05 (outRoundTrip exSpace05 exPoint05 false) = true ∧
    specFlatSpace exSpace05 (outFlatSpace exSpace05) = true := by decide +kernel
example : WF05 exSpace05i = true ∧ mem exSpace05i exPoint05i = true ∧ allLeavesInt exSpace05i = true ∧
    specFlatten exSpace05i exPoint05i (outFlatten exSpace05i exPoint05i) = true ∧
    specRoundTrip exSpace05i exPoint05i (outRoundTrip exSpace05i exPoint05i true) = true ∧
    specFlatSpace exSpace05i (outFlatSpace exSpace05i) = true := by decide +kernel
/-- K1: the flattened point of `Discrete(3, start=1)` lies outside the flattened Box -/
example : WF05 (.discrete 3 1) = false ∧ mem (.discrete 3 1) (.scalar (.int 3)) = true ∧
    specFlatten (.discrete 3 1) (.scalar (.int 3)) (outFlatten (.discrete 3 1) (.scalar (.int 3))) = false := by
  decide +kernel
/-- K5: a narrow integer Box inside a Tuple makes the flattened Box float although every leaf
is integer-typed -/
example : WF05 (.tuple [.box [1] [0] [1] false, .discrete 2 0]) = false ∧
    specFlatSpace (.tuple [.box [1] [0] [1] false, .discrete 2 0])
      (outFlatSpace (.tuple [.box [1] [0] [1] false, .discrete 2 0])) = false := by decide +kernel

end Abmarl
